import PnVerif.Model.SizeLimits
import PnVerif.Spec.SizeRules
/-
  Helper lemmas for C18.
-/
namespace PnVerif.SizeLimits
open PnVerif.Spec.SizeRules

/-- a variable the library can hold: element size 1..8, every fixed dimension at least 1
    (length 0 is NC_UNLIMITED and only legal as the record dimension) -/
def WF (v : Var) : Prop := 0 < v.xsz ∧ v.xsz ≤ 8 ∧ ∀ d ∈ v.dims, 0 < d
instance (v : Var) : Decidable (WF v) := by unfold WF; infer_instance

theorem prodl_pos : ∀ (ds : List Nat), (∀ d ∈ ds, 0 < d) → 0 < prodl ds
  | [], _ => by simp [prodl]
  | d :: ds, h => by
    have h1 := h d List.mem_cons_self
    have h2 := prodl_pos ds (fun x hx => h x (List.mem_cons_of_mem _ hx))
    show 0 < d * prodl ds
    exact Nat.mul_pos h1 h2

theorem prodl_cons (d : Nat) (ds : List Nat) : prodl (d :: ds) = d * prodl ds := rfl

/-- the products `prod *= shape[i]` that ncmpio_NC_check_vlen actually computes -/
def vlenProducts (vlenMax : Nat) : Nat → List Nat → List Nat
  | _, [] => []
  | prod, d :: ds => if d > vlenMax / prod then [] else (prod * d) :: vlenProducts vlenMax (prod * d) ds

theorem checkVlenLoop_iff (m : Nat) : ∀ (ds : List Nat) (p : Nat), 0 < p → p ≤ m → (∀ d ∈ ds, 0 < d) →
    (checkVlenLoop m p ds = true ↔ p * prodl ds ≤ m)
  | [], p, _, hpm, _ => by simp [checkVlenLoop, prodl, hpm]
  | d :: ds, p, hp, hpm, hd => by
    have hd0 := hd d List.mem_cons_self
    have hds : ∀ x ∈ ds, 0 < x := fun x hx => hd x (List.mem_cons_of_mem _ hx)
    have hpos := prodl_pos ds hds
    unfold checkVlenLoop
    rw [prodl_cons]
    by_cases h : d > m / p
    · simp only [h, if_true]
      have : m < d * p := (Nat.div_lt_iff_lt_mul hp).mp h
      have h2 : p * d ≤ p * d * prodl ds := Nat.le_mul_of_pos_right _ hpos
      constructor
      · intro hf; exact absurd hf (by simp)
      · intro hle
        have : p * (d * prodl ds) = p * d * prodl ds := by rw [Nat.mul_assoc]
        have h3 : d * p = p * d := Nat.mul_comm _ _
        omega
    · simp only [h, if_false]
      have hle : d * p ≤ m := by
        have := (Nat.div_lt_iff_lt_mul hp (x := m) (y := d))
        omega
      have h3 : d * p = p * d := Nat.mul_comm _ _
      rw [checkVlenLoop_iff m ds (p * d) (Nat.mul_pos hp hd0) (by omega) hds, Nat.mul_assoc]

theorem vlenProducts_bounded (m : Nat) : ∀ (ds : List Nat) (p : Nat), 0 < p → (∀ d ∈ ds, 0 < d) →
    ∀ x ∈ vlenProducts m p ds, x ≤ m
  | [], _, _, _, x, hx => by simp [vlenProducts] at hx
  | d :: ds, p, hp, hd, x, hx => by
    have hd0 := hd d List.mem_cons_self
    have hds : ∀ x ∈ ds, 0 < x := fun x hx => hd x (List.mem_cons_of_mem _ hx)
    unfold vlenProducts at hx
    by_cases h : d > m / p
    · simp [h] at hx
    · simp only [h, if_false, List.mem_cons] at hx
      have hle : d * p ≤ m := by
        have := (Nat.div_lt_iff_lt_mul hp (x := m) (y := d))
        omega
      have h3 : d * p = p * d := Nat.mul_comm _ _
      rcases hx with rfl | hx
      · omega
      · exact vlenProducts_bounded m ds (p * d) (Nat.mul_pos hp hd0) hds x hx

theorem checkVlen_iff (v : Var) (m : Nat) (hw : WF v) (hm : 8 ≤ m) :
    checkVlen v m = true ↔ vbytes v ≤ m := by
  unfold checkVlen vbytes
  exact checkVlenLoop_iff m v.dims v.xsz hw.1 (by have := hw.2.1; omega) hw.2.2

theorem varLen_eq (v : Var) : varLen v = vsize v := by
  unfold varLen vsize pad4 vbytes
  rw [Nat.mul_comm (prodl v.dims) v.xsz]
  simp only []
  split <;> omega

theorem vsize_mod4 (v : Var) : vsize v % 4 = 0 := by unfold vsize pad4; omega

theorem vlenMax_eq_limit (fmt : Nat) (hf : fmt = 1 ∨ fmt = 2 ∨ fmt = 5) : vlenMax fmt = limit fmt := by
  rcases hf with rfl | rfl | rfl <;> decide

/-- "− 3 handles rounded-up size": testing the unpadded byte count against vlen_max is the same as
    testing the padded vsize against the format's limit -/
theorem big_iff (fmt : Nat) (v : Var) (hw : WF v) (hf : fmt = 1 ∨ fmt = 2 ∨ fmt = 5) :
    (checkVlen v (vlenMax fmt) = false) ↔ Big fmt v := by
  have h8 : 8 ≤ vlenMax fmt := by rcases hf with rfl | rfl | rfl <;> decide
  have hiff := checkVlen_iff v (vlenMax fmt) hw h8
  have hl := vlenMax_eq_limit fmt hf
  have h4 : limit fmt % 4 = 0 := by rcases hf with rfl | rfl | rfl <;> decide
  unfold Big vsize pad4
  rw [hl] at hiff
  cases hc : checkVlen v (limit fmt)
  · rw [hl]; simp only [hc, true_iff]
    have : ¬ vbytes v ≤ limit fmt := fun h => by rw [hiff.mpr h] at hc; cases hc
    omega
  · rw [hl]; simp only [hc, Bool.true_eq_false, false_iff]
    have := hiff.mp hc
    omega

/-! ### the two passes of ncmpio_NC_check_vlens -/

def bigB (vm : Nat) (v : Var) : Bool := !checkVlen v vm

def lastFlag (vm : Nat) (init : Nat) (l : List Var) : Nat :=
  match l.getLast? with
  | none => init
  | some v => if bigB vm v then 1 else 0

theorem lastFlag_cons (vm init : Nat) (v : Var) (l : List Var) :
    lastFlag vm init (v :: l) = lastFlag vm (if bigB vm v then 1 else 0) l := by
  unfold lastFlag
  rw [List.getLast?_cons]
  cases l.getLast? <;> rfl

theorem pass1_eq (fmt vm : Nat) : ∀ (vars : List Var) (lg ls rc : Nat),
    pass1 fmt vm vars (lg, ls, rc) =
      if fmt ≥ 5 ∧ (∃ v ∈ fixedVars vars, bigB vm v = true) then none
      else some (lg + ((fixedVars vars).filter (bigB vm)).length, lastFlag vm ls (fixedVars vars),
                 rc + (recVars vars).length)
  | [], lg, ls, rc => by simp [pass1, fixedVars, recVars, lastFlag]
  | v :: vs, lg, ls, rc => by
    unfold pass1
    cases hr : v.isRec
    · -- fixed-size variable
      have hf : fixedVars (v :: vs) = v :: fixedVars vs := by simp [fixedVars, hr]
      have hrv : recVars (v :: vs) = recVars vs := by simp [recVars, hr]
      rw [hf, hrv, lastFlag_cons]
      simp only [Bool.false_eq_true, if_false]
      cases hb : checkVlen v vm
      · have hbb : bigB vm v = true := by simp [bigB, hb]
        simp only [Bool.not_false, if_true]
        by_cases h5 : fmt ≥ 5
        · have : ∃ x ∈ v :: fixedVars vs, bigB vm x = true := ⟨v, List.mem_cons_self, hbb⟩
          simp [h5, hbb]
        · rw [pass1_eq fmt vm vs]
          simp only [h5, false_and, if_false, hbb, if_true, List.filter_cons, List.length_cons]
          congr 2
          omega
      · have hbb : bigB vm v = false := by simp [bigB, hb]
        simp only [Bool.not_true, Bool.false_eq_true, if_false]
        rw [pass1_eq fmt vm vs]
        simp only [List.mem_cons, exists_eq_or_imp, hbb, Bool.false_eq_true, false_or, if_false,
          List.filter_cons, Nat.add_zero]
    · have hf : fixedVars (v :: vs) = fixedVars vs := by simp [fixedVars, hr]
      have hrv : recVars (v :: vs) = v :: recVars vs := by simp [recVars, hr]
      rw [hf, hrv]
      simp only [if_true]
      rw [pass1_eq fmt vm vs]
      simp only [List.length_cons]
      have : rc + 1 + (recVars vs).length = rc + ((recVars vs).length + 1) := by omega
      rw [this]

theorem pass2_eq (fmt vm : Nat) : ∀ (vars : List Var) (lg ls : Nat),
    pass2 fmt vm vars (lg, ls) =
      if fmt ≥ 5 ∧ (∃ v ∈ recVars vars, bigB vm v = true) then none
      else some (lg + ((recVars vars).filter (bigB vm)).length, lastFlag vm ls (recVars vars))
  | [], lg, ls => by simp [pass2, recVars, lastFlag]
  | v :: vs, lg, ls => by
    unfold pass2
    cases hr : v.isRec
    · have hrv : recVars (v :: vs) = recVars vs := by simp [recVars, hr]
      rw [hrv]
      simp only [Bool.not_false, if_true]
      rw [pass2_eq fmt vm vs]
    · have hrv : recVars (v :: vs) = v :: recVars vs := by simp [recVars, hr]
      rw [hrv, lastFlag_cons]
      simp only [Bool.not_true, Bool.false_eq_true, if_false]
      cases hb : checkVlen v vm
      · have hbb : bigB vm v = true := by simp [bigB, hb]
        simp only [Bool.not_false, if_true]
        by_cases h5 : fmt ≥ 5
        · simp [h5, hbb]
        · rw [pass2_eq fmt vm vs]
          simp only [h5, false_and, if_false, hbb, if_true, List.filter_cons, List.length_cons]
          congr 2
          omega
      · have hbb : bigB vm v = false := by simp [bigB, hb]
        simp only [Bool.not_true, Bool.false_eq_true, if_false]
        rw [pass2_eq fmt vm vs]
        simp only [List.mem_cons, exists_eq_or_imp, hbb, Bool.false_eq_true, false_or, if_false,
          List.filter_cons, Nat.add_zero]

theorem count_zero_iff (vm : Nat) (L : List Var) :
    (L.filter (bigB vm)).length = 0 ↔ ∀ v ∈ L, bigB vm v = false := by
  rw [List.length_eq_zero_iff, List.filter_eq_nil_iff]
  simp

theorem lastFlag_zero_of_none (vm init : Nat) (L : List Var) (hne : L ≠ [])
    (h : ∀ v ∈ L, bigB vm v = false) : lastFlag vm init L = 0 := by
  unfold lastFlag
  cases hl : L.getLast? with
  | none => exact absurd (List.getLast?_eq_none_iff.mp hl) hne
  | some w =>
    have : w ∈ L := List.mem_of_getLast? hl
    simp [h w this]

theorem flags_iff (vm : Nat) : ∀ (L : List Var) (init : Nat),
    (¬ (L.filter (bigB vm)).length > 1 ∧ ¬ ((L.filter (bigB vm)).length = 1 ∧ lastFlag vm init L = 0)) ↔
      ∀ v ∈ L.dropLast, bigB vm v = false
  | [], init => by simp
  | v :: L, init => by
    rw [lastFlag_cons]
    by_cases hL : L = []
    · subst hL
      simp only [List.dropLast_singleton, List.not_mem_nil, false_imp_iff, implies_true, iff_true]
      unfold lastFlag
      cases hb : bigB vm v <;> simp [hb]
    · rw [List.dropLast_cons_of_ne_nil hL]
      have ih := flags_iff vm L (if bigB vm v then 1 else 0)
      cases hb : bigB vm v
      · simp only [List.filter_cons, hb, Bool.false_eq_true, if_false, List.mem_cons, forall_eq_or_imp, true_and]
        rw [hb] at ih
        exact ih
      · simp only [List.filter_cons, hb, if_true, List.length_cons, List.mem_cons, forall_eq_or_imp,
          Bool.true_eq_false, false_and, iff_false]
        intro ⟨h1, h2⟩
        have hc : (L.filter (bigB vm)).length = 0 := by omega
        have hz := lastFlag_zero_of_none vm 1 L hL ((count_zero_iff vm L).mp hc)
        exact h2 ⟨by omega, hz⟩

theorem mem_fixed_or_rec (vars : List Var) (v : Var) :
    v ∈ vars ↔ v ∈ fixedVars vars ∨ v ∈ recVars vars := by
  unfold fixedVars recVars
  simp only [List.mem_filter]
  cases v.isRec <;> simp

theorem mem_of_mem_dropLast {α : Type} {a : α} {l : List α} (h : a ∈ l.dropLast) : a ∈ l := by
  rw [List.dropLast_eq_take] at h; exact List.mem_of_mem_take h

theorem recVars_length_zero (vars : List Var) : (recVars vars).length = 0 ↔ recVars vars = [] :=
  List.length_eq_zero_iff

theorem checkVlens_iff (fmt : Nat) (vars : List Var) (hf : fmt = 1 ∨ fmt = 2 ∨ fmt = 5)
    (hw : ∀ v ∈ vars, WF v) :
    (checkVlens fmt vars = NC_NOERR ↔ SizeRules fmt vars) ∧
    (checkVlens fmt vars = NC_NOERR ∨ checkVlens fmt vars = NC_EVARSIZE) := by
  have hne : ¬ (NC_EVARSIZE = NC_NOERR) := by decide
  have hbig : ∀ v ∈ vars, (bigB (vlenMax fmt) v = true ↔ Big fmt v) := by
    intro v hv
    have := big_iff fmt v (hw v hv) hf
    unfold bigB
    cases h : checkVlen v (vlenMax fmt) <;> simp [h] at this ⊢ <;> exact this
  have hbigF : ∀ v ∈ fixedVars vars, (bigB (vlenMax fmt) v = false ↔ ¬ Big fmt v) := by
    intro v hv
    have := hbig v ((mem_fixed_or_rec vars v).mpr (Or.inl hv))
    cases h : bigB (vlenMax fmt) v <;> simp [h] at this ⊢ <;> exact this
  have hbigR : ∀ v ∈ recVars vars, (bigB (vlenMax fmt) v = false ↔ ¬ Big fmt v) := by
    intro v hv
    have := hbig v ((mem_fixed_or_rec vars v).mpr (Or.inr hv))
    cases h : bigB (vlenMax fmt) v <;> simp [h] at this ⊢ <;> exact this
  unfold checkVlens
  by_cases hemp : vars = []
  · subst hemp
    simp only [List.isEmpty_nil, if_true, true_or, and_true, true_iff]
    unfold SizeRules
    split <;> simp [fixedVars, recVars]
  · have hie : vars.isEmpty = false := by cases vars <;> simp at hemp ⊢
    simp only [hie, Bool.false_eq_true, if_false]
    rw [pass1_eq]
    simp only [Nat.zero_add]
    by_cases h5 : fmt ≥ 5
    · -- CDF-5
      have hfmt : fmt = 5 := by omega
      unfold SizeRules
      simp only [hfmt, if_true]
      rw [hfmt] at hbigF hbigR
      by_cases hbf : ∃ v ∈ fixedVars vars, bigB (vlenMax 5) v = true
      · simp only [ge_iff_le, Nat.le_refl, hbf, and_self, if_true, hne, false_iff, or_true, and_true]
        obtain ⟨v, hv, hb⟩ := hbf
        intro hall
        have hv' := (mem_fixed_or_rec vars v).mpr (Or.inl hv)
        have := (hbigF v hv).mpr (hall v hv')
        rw [this] at hb; cases hb
      · have hF0 : ∀ v ∈ fixedVars vars, bigB (vlenMax 5) v = false := by
          intro v hv
          cases h : bigB (vlenMax 5) v
          · rfl
          · exact absurd ⟨v, hv, h⟩ hbf
        have hc0 := (count_zero_iff (vlenMax 5) (fixedVars vars)).mpr hF0
        simp only [ge_iff_le, Nat.le_refl, hbf, and_false, if_false, hc0, Nat.lt_irrefl, gt_iff_lt,
          Nat.not_lt_zero, Nat.zero_ne_one, false_and]
        have h01 : ¬ (0 : Nat) > 1 := by omega
        by_cases hr0 : (recVars vars).length = 0
        · simp only [hr0, if_true, true_iff, true_or, and_true]
          have hre := (recVars_length_zero vars).mp hr0
          intro v hv
          rcases (mem_fixed_or_rec vars v).mp hv with h | h
          · exact (hbigF v h).mp (hF0 v h)
          · rw [hre] at h; cases h
        · simp only [hr0, if_false]
          rw [pass2_eq]
          by_cases hbr : ∃ v ∈ recVars vars, bigB (vlenMax 5) v = true
          · simp only [ge_iff_le, Nat.le_refl, hbr, and_self, if_true, hne, false_iff, or_true, and_true]
            obtain ⟨v, hv, hb⟩ := hbr
            intro hall
            have hv' := (mem_fixed_or_rec vars v).mpr (Or.inr hv)
            have := (hbigR v hv).mpr (hall v hv')
            rw [this] at hb; cases hb
          · have hR0 : ∀ v ∈ recVars vars, bigB (vlenMax 5) v = false := by
              intro v hv
              cases h : bigB (vlenMax 5) v
              · rfl
              · exact absurd ⟨v, hv, h⟩ hbr
            have hc2 := (count_zero_iff (vlenMax 5) (recVars vars)).mpr hR0
            simp only [ge_iff_le, Nat.le_refl, hbr, and_false, if_false, Nat.zero_add, hc2, gt_iff_lt,
              Nat.not_lt_zero, Nat.zero_ne_one, false_and, h01, true_iff, true_or, and_true]
            intro v hv
            rcases (mem_fixed_or_rec vars v).mp hv with h | h
            · exact (hbigF v h).mp (hF0 v h)
            · exact (hbigR v h).mp (hR0 v h)
    · -- CDF-1 / CDF-2
      have hfmt : fmt ≠ 5 := by omega
      unfold SizeRules
      simp only [hfmt, if_false, h5, false_and]
      have hFl := flags_iff (vlenMax fmt) (fixedVars vars) 0
      have hdF : (∀ v ∈ (fixedVars vars).dropLast, bigB (vlenMax fmt) v = false) ↔
          ∀ v ∈ (fixedVars vars).dropLast, ¬ Big fmt v := by
        constructor
        · intro h v hv; exact (hbigF v (mem_of_mem_dropLast hv)).mp (h v hv)
        · intro h v hv; exact (hbigF v (mem_of_mem_dropLast hv)).mpr (h v hv)
      have hdR : (∀ v ∈ (recVars vars).dropLast, bigB (vlenMax fmt) v = false) ↔
          ∀ v ∈ (recVars vars).dropLast, ¬ Big fmt v := by
        constructor
        · intro h v hv; exact (hbigR v (mem_of_mem_dropLast hv)).mp (h v hv)
        · intro h v hv; exact (hbigR v (mem_of_mem_dropLast hv)).mpr (h v hv)
      generalize hcF : (List.filter (bigB (vlenMax fmt)) (fixedVars vars)).length = cF at hFl ⊢
      generalize hlf : lastFlag (vlenMax fmt) 0 (fixedVars vars) = lf at hFl ⊢
      by_cases hA : ¬ cF > 1 ∧ ¬ (cF = 1 ∧ lf = 0)
      · have hdrop := hdF.mp (hFl.mp hA)
        obtain ⟨hA1, hA2⟩ := hA
        simp only [hA1, hA2, if_false]
        by_cases hr0 : (recVars vars).length = 0
        · have hre := (recVars_length_zero vars).mp hr0
          simp only [hr0, if_true, true_iff, true_or, and_true]
          refine ⟨hdrop, fun _ _ _ => hre, ?_⟩
          rw [hre]; simp
        · have hre : recVars vars ≠ [] := fun h => hr0 ((recVars_length_zero vars).mpr h)
          simp only [hr0, if_false]
          by_cases hc1 : cF = 1
          · simp only [hc1, if_true, hne, false_iff, or_true, and_true]
            intro ⟨_, h2, _⟩
            have hl1 : lf ≠ 0 := fun h => hA2 ⟨hc1, h⟩
            -- the last fixed variable is the oversized one
            rw [← hlf] at hl1
            unfold lastFlag at hl1
            cases hg : (fixedVars vars).getLast? with
            | none => simp [hg] at hl1
            | some w =>
              simp only [hg] at hl1
              have hw' : w ∈ fixedVars vars := List.mem_of_getLast? hg
              have hbw : bigB (vlenMax fmt) w = true := by
                cases hb : bigB (vlenMax fmt) w
                · simp [hb] at hl1
                · rfl
              have hBig : Big fmt w := by
                have := hbigF w hw'
                rw [hbw] at this
                simp at this
                exact this
              exact hre (h2 w hg hBig)
          · have hc0 : cF = 0 := by omega
            have hF0 := (count_zero_iff (vlenMax fmt) (fixedVars vars)).mp (by rw [hcF]; exact hc0)
            simp only [hc1, if_false]
            rw [pass2_eq]
            simp only [h5, false_and, if_false, Nat.zero_add]
            have hRl := flags_iff (vlenMax fmt) (recVars vars) lf
            generalize (List.filter (bigB (vlenMax fmt)) (recVars vars)).length = cR at hRl ⊢
            generalize lastFlag (vlenMax fmt) lf (recVars vars) = lr at hRl ⊢
            have h2nd : ∀ v ∈ (fixedVars vars).getLast?, Big fmt v → recVars vars = [] := by
              intro v hv hB
              have hv' : v ∈ fixedVars vars := List.mem_of_getLast? hv
              exact absurd hB ((hbigF v hv').mp (hF0 v hv'))
            by_cases hB2 : ¬ cR > 1 ∧ ¬ (cR = 1 ∧ lr = 0)
            · have hdropR := hdR.mp (hRl.mp hB2)
              obtain ⟨hB1, hB3⟩ := hB2
              simp only [hB1, hB3, if_false, true_iff, true_or, and_true]
              exact ⟨hdrop, h2nd, hdropR⟩
            · have hnR : ¬ ∀ v ∈ (recVars vars).dropLast, ¬ Big fmt v := fun h => hB2 (hRl.mpr (hdR.mpr h))
              have hE : (if cR > 1 then NC_EVARSIZE else if cR = 1 ∧ lr = 0 then NC_EVARSIZE else NC_NOERR) = NC_EVARSIZE := by
                by_cases h1 : cR > 1
                · simp [h1]
                · by_cases h2 : cR = 1 ∧ lr = 0
                  · simp [h1, h2]
                  · exact absurd ⟨h1, h2⟩ hB2
              simp only [hE, hne, false_iff, or_true, and_true]
              intro ⟨_, _, h3⟩
              exact hnR h3
      · have hnF : ¬ ∀ v ∈ (fixedVars vars).dropLast, ¬ Big fmt v := fun h => hA (hFl.mpr (hdF.mpr h))
        by_cases h1 : cF > 1
        · simp only [h1, if_true, hne, false_iff, or_true, and_true]
          intro ⟨h, _, _⟩; exact hnF h
        · by_cases h2 : cF = 1 ∧ lf = 0
          · rw [if_neg h1, if_pos h2]
            simp only [hne, false_iff, or_true, and_true]
            intro ⟨h, _, _⟩; exact hnF h
          · exact absurd ⟨h1, h2⟩ hA

/-! ### NC_begins -/

theorem sumLens_cons (v : Var) (l : List Var) : sumLens (v :: l) = vsize v + sumLens l := rfl

theorem rndup4 (e : Nat) (h : e % 4 = 0) : rndup e 4 = e := by unfold rndup; omega
theorem rndup4_pad (e : Nat) : rndup e 4 = pad4 e := by unfold rndup pad4; omega

theorem sumLens_mod4 : ∀ l : List Var, sumLens l % 4 = 0
  | [] => rfl
  | v :: l => by rw [sumLens_cons]; have := vsize_mod4 v; have := sumLens_mod4 l; omega

/-- begins of a run of consecutive variables starting at `e` -/
def runBegins (e : Nat) (l : List Var) : List Nat :=
  (List.range l.length).map (fun k => e + sumLens (l.take k))

theorem runBegins_cons (e : Nat) (v : Var) (l : List Var) :
    runBegins e (v :: l) = e :: runBegins (e + vsize v) l := by
  unfold runBegins
  rw [List.length_cons, List.range_succ_eq_map, List.map_cons, List.map_map]
  congr 1
  apply List.map_congr_left; intro k _
  show e + sumLens ((v :: l).take (k + 1)) = e + vsize v + sumLens (l.take k)
  rw [List.take_succ_cons, sumLens_cons]; omega

/-- some variable of the run starts above `m` -/
def RunExceeds (m e : Nat) (l : List Var) : Prop := ∃ k, k < l.length ∧ e + sumLens (l.take k) > m

theorem runExceeds_cons (m e : Nat) (v : Var) (l : List Var) :
    RunExceeds m e (v :: l) ↔ e > m ∨ RunExceeds m (e + vsize v) l := by
  unfold RunExceeds
  constructor
  · rintro ⟨k, hk, h⟩
    cases k with
    | zero => left; simpa [sumLens] using h
    | succ k =>
      right
      refine ⟨k, by simpa using hk, ?_⟩
      simp only [List.take_succ_cons, sumLens_cons] at h
      omega
  · rintro (h | ⟨k, hk, h⟩)
    · exact ⟨0, by simp, by simpa [sumLens] using h⟩
    · refine ⟨k + 1, by simpa using hk, ?_⟩
      simp only [List.take_succ_cons, sumLens_cons]
      omega

instance (m e : Nat) (l : List Var) : Decidable (RunExceeds m e l) := by
  unfold RunExceeds
  exact decidable_of_iff (∃ k ∈ List.range l.length, e + sumLens (l.take k) > m)
    ⟨fun ⟨k, hk, h⟩ => ⟨k, List.mem_range.mp hk, h⟩, fun ⟨k, hk, h⟩ => ⟨k, List.mem_range.mpr hk, h⟩⟩

theorem fixedPass_eq (fmt : Nat) : ∀ (vars : List Var) (e : Nat), e % 4 = 0 →
    fixedPass fmt e vars =
      if fmt = 1 ∧ RunExceeds NC_MAX_INT e (fixedVars vars) then none
      else some (runBegins e (fixedVars vars), e + sumLens (fixedVars vars))
  | [], e, _ => by simp [fixedPass, fixedVars, runBegins, RunExceeds, sumLens]
  | v :: vs, e, he => by
    unfold fixedPass
    cases hr : v.isRec
    · have hf : fixedVars (v :: vs) = v :: fixedVars vs := by simp [fixedVars, hr]
      rw [hf, runBegins_cons, sumLens_cons]
      simp only [runExceeds_cons, Bool.false_eq_true, if_false]
      by_cases h1 : fmt = 1 ∧ e > NC_MAX_INT
      · simp [h1]
      · simp only [h1, if_false]
        rw [rndup4 e he, varLen_eq]
        have he' : (e + vsize v) % 4 = 0 := by have := vsize_mod4 v; omega
        rw [fixedPass_eq fmt vs (e + vsize v) he']
        by_cases h2 : fmt = 1 ∧ RunExceeds NC_MAX_INT (e + vsize v) (fixedVars vs)
        · have : fmt = 1 ∧ (e > NC_MAX_INT ∨ RunExceeds NC_MAX_INT (e + vsize v) (fixedVars vs)) :=
            ⟨h2.1, Or.inr h2.2⟩
          simp [h2, this]
        · have : ¬ (fmt = 1 ∧ (e > NC_MAX_INT ∨ RunExceeds NC_MAX_INT (e + vsize v) (fixedVars vs))) := by
            rintro ⟨hf1, h | h⟩
            · exact h1 ⟨hf1, h⟩
            · exact h2 ⟨hf1, h⟩
          simp only [h2, this, if_false]
          congr 2
          omega
    · have hf : fixedVars (v :: vs) = fixedVars vs := by simp [fixedVars, hr]
      rw [hf]
      simp only [if_true]
      exact fixedPass_eq fmt vs e he

theorem recPass_eq (fmt : Nat) : ∀ (vars : List Var) (e : Nat),
    recPass fmt e vars =
      if fmt = 1 ∧ RunExceeds NC_MAX_INT e (recVars vars) then none
      else some (runBegins e (recVars vars), e + sumLens (recVars vars))
  | [], e => by simp [recPass, recVars, runBegins, RunExceeds, sumLens]
  | v :: vs, e => by
    unfold recPass
    cases hr : v.isRec
    · have hf : recVars (v :: vs) = recVars vs := by simp [recVars, hr]
      rw [hf]
      simp only [Bool.not_false, if_true]
      exact recPass_eq fmt vs e
    · have hf : recVars (v :: vs) = v :: recVars vs := by simp [recVars, hr]
      rw [hf, runBegins_cons, sumLens_cons]
      simp only [runExceeds_cons, Bool.not_true, Bool.false_eq_true, if_false]
      by_cases h1 : fmt = 1 ∧ e > NC_MAX_INT
      · simp [h1]
      · simp only [h1, if_false]
        rw [varLen_eq, recPass_eq fmt vs (e + vsize v)]
        by_cases h2 : fmt = 1 ∧ RunExceeds NC_MAX_INT (e + vsize v) (recVars vs)
        · have : fmt = 1 ∧ (e > NC_MAX_INT ∨ RunExceeds NC_MAX_INT (e + vsize v) (recVars vs)) :=
            ⟨h2.1, Or.inr h2.2⟩
          simp [h2, this]
        · have : ¬ (fmt = 1 ∧ (e > NC_MAX_INT ∨ RunExceeds NC_MAX_INT (e + vsize v) (recVars vs))) := by
            rintro ⟨hf1, h | h⟩
            · exact h1 ⟨hf1, h⟩
            · exact h2 ⟨hf1, h⟩
          simp only [h2, this, if_false]
          congr 2
          omega

theorem recSection_eq (l : Lay) (vars : List Var) :
    (let br0 := if 0 < l.beginVar + sumLens (fixedVars vars) + l.vMinfree then l.beginVar + sumLens (fixedVars vars) + l.vMinfree else 0
     let br1 := rndup br0 4
     if l.rAlign > 1 then rndup br1 l.rAlign else br1) = recSection l vars := by
  unfold recSection
  simp only [rndup4_pad]
  have : (if 0 < l.beginVar + sumLens (fixedVars vars) + l.vMinfree then l.beginVar + sumLens (fixedVars vars) + l.vMinfree else 0)
      = l.beginVar + sumLens (fixedVars vars) + l.vMinfree := by split <;> omega
  rw [this]

/-- NC_begins fails exactly when (CDF-1) some variable would start above NC_MAX_INT -/
theorem ncBegins_none_iff (fmt : Nat) (l : Lay) (vars : List Var) (h4 : l.beginVar % 4 = 0) :
    ncBegins fmt l vars = none ↔
      fmt = 1 ∧ (RunExceeds NC_MAX_INT l.beginVar (fixedVars vars) ∨
                 RunExceeds NC_MAX_INT (recSection l vars) (recVars vars)) := by
  unfold ncBegins
  rw [fixedPass_eq fmt vars l.beginVar h4]
  by_cases h1 : fmt = 1 ∧ RunExceeds NC_MAX_INT l.beginVar (fixedVars vars)
  · rw [if_pos h1]
    simp only [true_iff]
    exact ⟨h1.1, Or.inl h1.2⟩
  · simp only [h1, if_false]
    rw [recSection_eq l vars, recPass_eq]
    by_cases h2 : fmt = 1 ∧ RunExceeds NC_MAX_INT (recSection l vars) (recVars vars)
    · rw [if_pos h2]
      simp only [true_iff]
      exact ⟨h2.1, Or.inr h2.2⟩
    · simp only [h2, if_false]
      constructor
      · intro h; cases h
      · rintro ⟨hf, h | h⟩
        · exact absurd ⟨hf, h⟩ h1
        · exact absurd ⟨hf, h⟩ h2

/-- and when it succeeds, the begins are the specified ones -/
theorem ncBegins_some (fmt : Nat) (l : Lay) (vars : List Var) (h4 : l.beginVar % 4 = 0) (b : Begins)
    (h : ncBegins fmt l vars = some b) :
    b.fixed = runBegins l.beginVar (fixedVars vars) ∧ b.recs = runBegins (recSection l vars) (recVars vars) ∧
    b.beginRec = recSection l vars := by
  unfold ncBegins at h
  rw [fixedPass_eq fmt vars l.beginVar h4] at h
  by_cases h1 : fmt = 1 ∧ RunExceeds NC_MAX_INT l.beginVar (fixedVars vars)
  · simp [h1] at h
  · simp only [h1, if_false] at h
    rw [recSection_eq l vars, recPass_eq] at h
    by_cases h2 : fmt = 1 ∧ RunExceeds NC_MAX_INT (recSection l vars) (recVars vars)
    · simp [h2] at h
    · simp only [h2, if_false, Option.some.injEq] at h
      subst h
      exact ⟨rfl, rfl, rfl⟩

theorem beginRule_iff (fmt : Nat) (l : Lay) (vars : List Var) :
    BeginRule fmt l vars ↔
      ¬ (fmt = 1 ∧ (RunExceeds NC_MAX_INT l.beginVar (fixedVars vars) ∨
                    RunExceeds NC_MAX_INT (recSection l vars) (recVars vars))) := by
  unfold BeginRule RunExceeds fixedBegin recBegin NC_MAX_INT
  constructor
  · rintro h ⟨hf, ⟨k, hk, hgt⟩ | ⟨k, hk, hgt⟩⟩
    · have := (h hf).1 k hk; omega
    · have := (h hf).2 k hk; omega
  · intro h hf
    constructor
    · intro k hk
      apply Classical.byContradiction
      intro hn
      exact h ⟨hf, Or.inl ⟨k, hk, by omega⟩⟩
    · intro k hk
      apply Classical.byContradiction
      intro hn
      exact h ⟨hf, Or.inr ⟨k, hk, by omega⟩⟩

theorem sumLens_take_le : ∀ (l : List Var) (k : Nat), sumLens (l.take k) ≤ sumLens l
  | [], k => by simp [sumLens]
  | v :: l, 0 => by simp [sumLens]
  | v :: l, k + 1 => by
    rw [List.take_succ_cons, sumLens_cons, sumLens_cons]
    have := sumLens_take_le l k
    omega

theorem le_rndup (x a : Nat) (ha : 0 < a) : x ≤ rndup x a := by
  unfold rndup
  have h1 := Nat.div_add_mod (x + a - 1) a
  have h2 := Nat.mod_lt (x + a - 1) ha
  rw [Nat.mul_comm]
  omega

theorem le_pad4 (x : Nat) : x ≤ pad4 x := by unfold pad4; omega

theorem le_recSection (l : Lay) (vars : List Var) :
    l.beginVar + sumLens (fixedVars vars) ≤ recSection l vars := by
  unfold recSection
  have h1 := le_pad4 (l.beginVar + sumLens (fixedVars vars) + l.vMinfree)
  simp only []
  split
  · have := le_rndup (pad4 (l.beginVar + sumLens (fixedVars vars) + l.vMinfree)) l.rAlign (by omega)
    omega
  · omega

/-! ### the repaired NC_begins -/

theorem runExceeds_of_head (m e : Nat) (v : Var) (l : List Var) (h : e > m) : RunExceeds m e (v :: l) :=
  (runExceeds_cons m e v l).mpr (Or.inl h)

theorem fixedPassG_eq (fmt : Nat) : ∀ (vars : List Var) (e : Nat), e % 4 = 0 → e ≤ NC_MAX_INT64 →
    fixedPassG fmt e vars =
      if (fmt = 1 ∧ RunExceeds NC_MAX_INT e (fixedVars vars)) ∨ e + sumLens (fixedVars vars) > NC_MAX_INT64 then none
      else some (runBegins e (fixedVars vars), e + sumLens (fixedVars vars))
  | [], e, _, hle => by
    have : ¬ e > NC_MAX_INT64 := by omega
    simp [fixedPassG, fixedVars, runBegins, RunExceeds, sumLens, this]
  | v :: vs, e, he, hle => by
    unfold fixedPassG
    cases hr : v.isRec
    · have hf : fixedVars (v :: vs) = v :: fixedVars vs := by simp [fixedVars, hr]
      rw [hf, runBegins_cons, sumLens_cons]
      simp only [runExceeds_cons, Bool.false_eq_true, if_false]
      rw [rndup4 e he, varLen_eq]
      by_cases h1 : fmt = 1 ∧ e > NC_MAX_INT
      · have : (fmt = 1 ∧ (e > NC_MAX_INT ∨ RunExceeds NC_MAX_INT (e + vsize v) (fixedVars vs))) ∨
            e + (vsize v + sumLens (fixedVars vs)) > NC_MAX_INT64 := Or.inl ⟨h1.1, Or.inl h1.2⟩
        rw [if_pos h1, if_pos this]
      · rw [if_neg h1]
        by_cases hg : vsize v > NC_MAX_INT64 - e
        · have : (fmt = 1 ∧ (e > NC_MAX_INT ∨ RunExceeds NC_MAX_INT (e + vsize v) (fixedVars vs))) ∨
              e + (vsize v + sumLens (fixedVars vs)) > NC_MAX_INT64 := Or.inr (by omega)
          rw [if_pos hg, if_pos this]
        · rw [if_neg hg]
          have he' : (e + vsize v) % 4 = 0 := by have := vsize_mod4 v; omega
          have hle' : e + vsize v ≤ NC_MAX_INT64 := by omega
          rw [fixedPassG_eq fmt vs (e + vsize v) he' hle']
          by_cases h2 : (fmt = 1 ∧ RunExceeds NC_MAX_INT (e + vsize v) (fixedVars vs)) ∨
              e + vsize v + sumLens (fixedVars vs) > NC_MAX_INT64
          · have : (fmt = 1 ∧ (e > NC_MAX_INT ∨ RunExceeds NC_MAX_INT (e + vsize v) (fixedVars vs))) ∨
                e + (vsize v + sumLens (fixedVars vs)) > NC_MAX_INT64 := by
              rcases h2 with ⟨hf1, h⟩ | h
              · exact Or.inl ⟨hf1, Or.inr h⟩
              · exact Or.inr (by omega)
            rw [if_pos h2, if_pos this]
          · have : ¬ ((fmt = 1 ∧ (e > NC_MAX_INT ∨ RunExceeds NC_MAX_INT (e + vsize v) (fixedVars vs))) ∨
                e + (vsize v + sumLens (fixedVars vs)) > NC_MAX_INT64) := by
              rintro (⟨hf1, h | h⟩ | h)
              · exact h1 ⟨hf1, h⟩
              · exact h2 (Or.inl ⟨hf1, h⟩)
              · exact h2 (Or.inr (by omega))
            rw [if_neg h2, if_neg this]
            simp only [Option.some.injEq, Prod.mk.injEq, true_and]
            omega
    · have hf : fixedVars (v :: vs) = fixedVars vs := by simp [fixedVars, hr]
      rw [hf]
      simp only [if_true]
      exact fixedPassG_eq fmt vs e he hle

theorem recPassG_eq (fmt : Nat) : ∀ (vars : List Var) (e : Nat), e ≤ NC_MAX_INT64 →
    recPassG fmt e vars =
      if (fmt = 1 ∧ RunExceeds NC_MAX_INT e (recVars vars)) ∨ e + sumLens (recVars vars) > NC_MAX_INT64 then none
      else some (runBegins e (recVars vars), e + sumLens (recVars vars))
  | [], e, hle => by
    have : ¬ e > NC_MAX_INT64 := by omega
    simp [recPassG, recVars, runBegins, RunExceeds, sumLens, this]
  | v :: vs, e, hle => by
    unfold recPassG
    cases hr : v.isRec
    · have hf : recVars (v :: vs) = recVars vs := by simp [recVars, hr]
      rw [hf]
      simp only [Bool.not_false, if_true]
      exact recPassG_eq fmt vs e hle
    · have hf : recVars (v :: vs) = v :: recVars vs := by simp [recVars, hr]
      rw [hf, runBegins_cons, sumLens_cons]
      simp only [runExceeds_cons, Bool.not_true, Bool.false_eq_true, if_false]
      rw [varLen_eq]
      by_cases h1 : fmt = 1 ∧ e > NC_MAX_INT
      · have : (fmt = 1 ∧ (e > NC_MAX_INT ∨ RunExceeds NC_MAX_INT (e + vsize v) (recVars vs))) ∨
            e + (vsize v + sumLens (recVars vs)) > NC_MAX_INT64 := Or.inl ⟨h1.1, Or.inl h1.2⟩
        rw [if_pos h1, if_pos this]
      · rw [if_neg h1]
        by_cases hg : vsize v > NC_MAX_INT64 - e
        · have : (fmt = 1 ∧ (e > NC_MAX_INT ∨ RunExceeds NC_MAX_INT (e + vsize v) (recVars vs))) ∨
              e + (vsize v + sumLens (recVars vs)) > NC_MAX_INT64 := Or.inr (by omega)
          rw [if_pos hg, if_pos this]
        · rw [if_neg hg]
          have hle' : e + vsize v ≤ NC_MAX_INT64 := by omega
          rw [recPassG_eq fmt vs (e + vsize v) hle']
          by_cases h2 : (fmt = 1 ∧ RunExceeds NC_MAX_INT (e + vsize v) (recVars vs)) ∨
              e + vsize v + sumLens (recVars vs) > NC_MAX_INT64
          · have : (fmt = 1 ∧ (e > NC_MAX_INT ∨ RunExceeds NC_MAX_INT (e + vsize v) (recVars vs))) ∨
                e + (vsize v + sumLens (recVars vs)) > NC_MAX_INT64 := by
              rcases h2 with ⟨hf1, h⟩ | h
              · exact Or.inl ⟨hf1, Or.inr h⟩
              · exact Or.inr (by omega)
            rw [if_pos h2, if_pos this]
          · have : ¬ ((fmt = 1 ∧ (e > NC_MAX_INT ∨ RunExceeds NC_MAX_INT (e + vsize v) (recVars vs))) ∨
                e + (vsize v + sumLens (recVars vs)) > NC_MAX_INT64) := by
              rintro (⟨hf1, h | h⟩ | h)
              · exact h1 ⟨hf1, h⟩
              · exact h2 (Or.inl ⟨hf1, h⟩)
              · exact h2 (Or.inr (by omega))
            rw [if_neg h2, if_neg this]
            simp only [Option.some.injEq, Prod.mk.injEq, true_and]
            omega

theorem rndup_eq_mod (b a : Nat) (ha : 0 < a) :
    rndup b a = if b % a = 0 then b else b + (a - b % a) := by
  unfold rndup
  have h1 := Nat.div_add_mod b a
  have h2 := Nat.mod_lt b ha
  generalize hq : b / a = q at h1
  generalize hr : b % a = r at h1 h2
  by_cases h0 : r = 0
  · simp only [h0, if_true]
    have e : b + a - 1 = a * q + (a - 1) := by omega
    have e2 : (a - 1) / a = 0 := Nat.div_eq_of_lt (by omega)
    rw [e, Nat.mul_add_div ha, e2, Nat.add_zero, Nat.mul_comm]; omega
  · simp only [h0, if_false]
    have hm : a * (q + 1) = a * q + a := Nat.mul_succ a q
    have e : b + a - 1 = a * (q + 1) + (r - 1) := by omega
    have e2 : (r - 1) / a = 0 := Nat.div_eq_of_lt (by omega)
    rw [e, Nat.mul_add_div ha, e2, Nat.add_zero, Nat.mul_comm]; omega

theorem rndupG_eq (b a : Nat) (ha : 0 < a) (hb : b ≤ NC_MAX_INT64) :
    rndupG b a = if rndup b a ≤ NC_MAX_INT64 then some (rndup b a) else none := by
  unfold rndupG
  rw [rndup_eq_mod b a ha]
  have h2 := Nat.mod_lt b ha
  by_cases h0 : b % a = 0
  · simp [h0, hb]
  · have hp : b % a > 0 := by omega
    simp only [hp, if_true, h0, if_false]
    by_cases hg : a - b % a > NC_MAX_INT64 - b
    · have : ¬ b + (a - b % a) ≤ NC_MAX_INT64 := by omega
      simp [hg, this]
    · have : b + (a - b % a) ≤ NC_MAX_INT64 := by omega
      simp [hg, this]

theorem pad4_le_max (x : Nat) : pad4 x ≤ NC_MAX_INT64 ↔ x + 3 ≤ NC_MAX_INT64 := by
  unfold pad4 NC_MAX_INT64; omega

/-- the repaired NC_begins fails exactly when (CDF-1) a variable would start above NC_MAX_INT or
    the end of the data section (of one record) would exceed NC_MAX_INT64 -/
theorem ncBeginsG_none_iff (fmt : Nat) (l : Lay) (vars : List Var) (h4 : l.beginVar % 4 = 0)
    (hb : l.beginVar ≤ NC_MAX_INT64) :
    ncBeginsG fmt l vars = none ↔
      (fmt = 1 ∧ (RunExceeds NC_MAX_INT l.beginVar (fixedVars vars) ∨
                  RunExceeds NC_MAX_INT (recSection l vars) (recVars vars))) ∨
      recSection l vars + sumLens (recVars vars) > NC_MAX_INT64 := by
  have hle := le_recSection l vars
  unfold ncBeginsG
  rw [fixedPassG_eq fmt vars l.beginVar h4 hb]
  by_cases h1 : (fmt = 1 ∧ RunExceeds NC_MAX_INT l.beginVar (fixedVars vars)) ∨
      l.beginVar + sumLens (fixedVars vars) > NC_MAX_INT64
  · rw [if_pos h1]
    simp only [true_iff]
    rcases h1 with ⟨hf, h⟩ | h
    · exact Or.inl ⟨hf, Or.inl h⟩
    · exact Or.inr (by omega)
  · rw [if_neg h1]
    simp only []
    have hx : (if 0 < l.beginVar + sumLens (fixedVars vars) + l.vMinfree then l.beginVar + sumLens (fixedVars vars) + l.vMinfree else 0)
        = l.beginVar + sumLens (fixedVars vars) + l.vMinfree := by split <;> omega
    rw [hx]
    -- recSection in terms of the pieces
    have hrs : recSection l vars = if l.rAlign > 1 then rndup (pad4 (l.beginVar + sumLens (fixedVars vars) + l.vMinfree)) l.rAlign
        else pad4 (l.beginVar + sumLens (fixedVars vars) + l.vMinfree) := rfl
    have hp := pad4_le_max (l.beginVar + sumLens (fixedVars vars) + l.vMinfree)
    have hpl := le_pad4 (l.beginVar + sumLens (fixedVars vars) + l.vMinfree)
    have hnf : ¬ (fmt = 1 ∧ RunExceeds NC_MAX_INT l.beginVar (fixedVars vars)) := fun h => h1 (Or.inl h)
    by_cases h2 : l.beginVar + sumLens (fixedVars vars) + l.vMinfree + 3 > NC_MAX_INT64
    · rw [if_pos h2]
      simp only [true_iff]
      right
      have : pad4 (l.beginVar + sumLens (fixedVars vars) + l.vMinfree) > NC_MAX_INT64 := by omega
      have : recSection l vars > NC_MAX_INT64 := by
        rw [hrs]; split
        · have := le_rndup (pad4 (l.beginVar + sumLens (fixedVars vars) + l.vMinfree)) l.rAlign (by omega); omega
        · omega
      omega
    · rw [if_neg h2]
      have h3 : ¬ l.beginVar + sumLens (fixedVars vars) + l.vMinfree > NC_MAX_INT64 - 3 := by
        unfold NC_MAX_INT64 at h2 ⊢; omega
      rw [if_neg h3, rndup4_pad]
      have hpm : pad4 (l.beginVar + sumLens (fixedVars vars) + l.vMinfree) ≤ NC_MAX_INT64 := by omega
      by_cases hra : l.rAlign > 1
      · simp only [hra, if_true] at hrs ⊢
        rw [rndupG_eq _ _ (by omega) hpm, ← hrs]
        by_cases h5 : recSection l vars ≤ NC_MAX_INT64
        · simp only [h5, if_true]
          rw [recPassG_eq fmt vars _ h5]
          by_cases h6 : (fmt = 1 ∧ RunExceeds NC_MAX_INT (recSection l vars) (recVars vars)) ∨
              recSection l vars + sumLens (recVars vars) > NC_MAX_INT64
          · rw [if_pos h6]
            simp only [true_iff]
            rcases h6 with ⟨hf, h⟩ | h
            · exact Or.inl ⟨hf, Or.inr h⟩
            · exact Or.inr h
          · rw [if_neg h6]
            constructor
            · intro h; cases h
            · rintro (⟨hf, h | h⟩ | h)
              · exact absurd ⟨hf, h⟩ hnf
              · exact absurd (Or.inl ⟨hf, h⟩) h6
              · exact absurd (Or.inr h) h6
        · simp only [h5, if_false, true_iff]
          right; omega
      · simp only [hra, if_false] at hrs ⊢
        rw [← hrs]
        have h5 : recSection l vars ≤ NC_MAX_INT64 := by rw [hrs]; exact hpm
        rw [recPassG_eq fmt vars _ h5]
        by_cases h6 : (fmt = 1 ∧ RunExceeds NC_MAX_INT (recSection l vars) (recVars vars)) ∨
            recSection l vars + sumLens (recVars vars) > NC_MAX_INT64
        · rw [if_pos h6]
          simp only [true_iff]
          rcases h6 with ⟨hf, h⟩ | h
          · exact Or.inl ⟨hf, Or.inr h⟩
          · exact Or.inr h
        · rw [if_neg h6]
          constructor
          · intro h; cases h
          · rintro (⟨hf, h | h⟩ | h)
            · exact absurd ⟨hf, h⟩ hnf
            · exact absurd (Or.inl ⟨hf, h⟩) h6
            · exact absurd (Or.inr h) h6

theorem ncBeginsG_some (fmt : Nat) (l : Lay) (vars : List Var) (h4 : l.beginVar % 4 = 0)
    (hb : l.beginVar ≤ NC_MAX_INT64) (b : Begins) (h : ncBeginsG fmt l vars = some b) :
    b.fixed = runBegins l.beginVar (fixedVars vars) ∧ b.recs = runBegins (recSection l vars) (recVars vars) ∧
    b.beginRec = recSection l vars := by
  unfold ncBeginsG at h
  rw [fixedPassG_eq fmt vars l.beginVar h4 hb] at h
  by_cases h1 : (fmt = 1 ∧ RunExceeds NC_MAX_INT l.beginVar (fixedVars vars)) ∨
      l.beginVar + sumLens (fixedVars vars) > NC_MAX_INT64
  · rw [if_pos h1] at h; cases h
  · rw [if_neg h1] at h
    simp only [] at h
    have hx : (if 0 < l.beginVar + sumLens (fixedVars vars) + l.vMinfree then l.beginVar + sumLens (fixedVars vars) + l.vMinfree else 0)
        = l.beginVar + sumLens (fixedVars vars) + l.vMinfree := by split <;> omega
    rw [hx] at h
    have hrs : recSection l vars = if l.rAlign > 1 then rndup (pad4 (l.beginVar + sumLens (fixedVars vars) + l.vMinfree)) l.rAlign
        else pad4 (l.beginVar + sumLens (fixedVars vars) + l.vMinfree) := rfl
    have hp := pad4_le_max (l.beginVar + sumLens (fixedVars vars) + l.vMinfree)
    by_cases h2 : l.beginVar + sumLens (fixedVars vars) + l.vMinfree + 3 > NC_MAX_INT64
    · rw [if_pos h2] at h; cases h
    · rw [if_neg h2] at h
      have h3 : ¬ l.beginVar + sumLens (fixedVars vars) + l.vMinfree > NC_MAX_INT64 - 3 := by
        unfold NC_MAX_INT64 at h2 ⊢; omega
      rw [if_neg h3, rndup4_pad] at h
      have hpm : pad4 (l.beginVar + sumLens (fixedVars vars) + l.vMinfree) ≤ NC_MAX_INT64 := by omega
      by_cases hra : l.rAlign > 1
      · simp only [hra, if_true] at hrs h
        rw [rndupG_eq _ _ (by omega) hpm, ← hrs] at h
        by_cases h5 : recSection l vars ≤ NC_MAX_INT64
        · simp only [h5, if_true] at h
          rw [recPassG_eq fmt vars _ h5] at h
          by_cases h6 : (fmt = 1 ∧ RunExceeds NC_MAX_INT (recSection l vars) (recVars vars)) ∨
              recSection l vars + sumLens (recVars vars) > NC_MAX_INT64
          · rw [if_pos h6] at h; cases h
          · rw [if_neg h6] at h
            simp only [Option.some.injEq] at h
            subst h
            exact ⟨rfl, rfl, rfl⟩
        · simp only [h5, if_false] at h; cases h
      · simp only [hra, if_false] at hrs h
        rw [← hrs] at h
        have h5 : recSection l vars ≤ NC_MAX_INT64 := by rw [hrs]; exact hpm
        rw [recPassG_eq fmt vars _ h5] at h
        by_cases h6 : (fmt = 1 ∧ RunExceeds NC_MAX_INT (recSection l vars) (recVars vars)) ∨
            recSection l vars + sumLens (recVars vars) > NC_MAX_INT64
        · rw [if_pos h6] at h; cases h
        · rw [if_neg h6] at h
          simp only [Option.some.injEq] at h
          subst h
          exact ⟨rfl, rfl, rfl⟩

end PnVerif.SizeLimits
