import PnVerif.Model.Redef
/-
  C06 helper lemmas: the read/write laws of the byte-list file model and the loop invariants of
  `move_file_block` (one round = one block copy of the round's range; tail-first rounds = one
  block copy of the whole range when dst ≥ src).  Everything is stated for an arbitrary
  `ReadMode` (short count or full count with arbitrary bytes past the end of the file), hence in
  relational form: destination bytes whose source byte EXISTS in the file equal that source byte.
-/
namespace PnVerif.Redef

theorem rd_ge (f : File) (i : Nat) (h : f.length ≤ i) : rd f i = 0 := by
  unfold rd; simp [List.getD, List.getElem?_eq_none h]

/-- a read never returns more than asked -/
theorem readAt_length_le (m : ReadMode) (f : File) (o c : Nat) : (readAt m f o c).length ≤ c := by
  cases m <;> simp [readAt]
  omega

/-- … and never less than what exists -/
theorem readAt_length_ge (m : ReadMode) (f : File) (o c : Nat) :
    min c (f.length - o) ≤ (readAt m f o c).length := by
  cases m <;> simp [readAt]
  omega

/-- every returned byte whose file offset exists is the file's byte -/
theorem readAt_getD (m : ReadMode) (f : File) (o c k : Nat) (h : k < (readAt m f o c).length)
    (hk : o + k < f.length) : (readAt m f o c).getD k 0 = rd f (o + k) := by
  cases m with
  | short =>
    have hl : (readAt .short f o c).length = min c (f.length - o) := by simp [readAt]
    rw [hl] at h
    have hkc : k < c := by omega
    unfold readAt rd
    simp [List.getD, List.getElem?_drop, hkc]
  | full junk =>
    have hl : (readAt (.full junk) f o c).length = c := by simp [readAt]
    rw [hl] at h
    unfold readAt
    simp [List.getD, h, hk]

private theorem getD_pad (f : File) (n i : Nat) :
    (f ++ List.replicate n (0:UInt8))[i]?.getD 0 = f[i]?.getD 0 := by
  by_cases h : i < f.length
  · simp [List.getElem?_append_left h]
  · have h' : f.length ≤ i := by omega
    rw [List.getElem?_append_right h', List.getElem?_eq_none h']
    simp [List.getElem?_replicate]
    split <;> simp

theorem rd_writeAt (f : File) (o : Nat) (d : List UInt8) (i : Nat) :
    rd (writeAt f o d) i = if o ≤ i ∧ i < o + d.length then d.getD (i - o) 0 else rd f i := by
  unfold writeAt
  by_cases hd : d = []
  · simp [hd]; omega
  · simp only [List.isEmpty_iff, hd, if_false]
    unfold rd
    simp only [List.getD_eq_getElem?_getD]
    have hg : (f ++ List.replicate (o - f.length) (0:UInt8)).length ≥ o := by simp; omega
    generalize hgd : f ++ List.replicate (o - f.length) (0:UInt8) = g at hg
    have hgi : ∀ j : Nat, (g[j]?.getD 0 : UInt8) = (f[j]?.getD 0 : UInt8) := by
      intro j; rw [← hgd]; exact getD_pad f _ j
    have htl : (List.take o g).length = o := by simp; omega
    by_cases h1 : i < o
    · have : ¬ (o ≤ i ∧ i < o + d.length) := by omega
      rw [if_neg this, List.append_assoc, List.getElem?_append_left (by omega), List.getElem?_take, if_pos h1]
      exact hgi i
    · by_cases h2 : i < o + d.length
      · have : (o ≤ i ∧ i < o + d.length) := by omega
        rw [if_pos this, List.append_assoc, List.getElem?_append_right (by omega), htl,
            List.getElem?_append_left (by omega)]
      · have : ¬ (o ≤ i ∧ i < o + d.length) := by omega
        rw [if_neg this, List.getElem?_append_right (by simp; omega)]
        simp only [List.length_append, htl, List.getElem?_drop]
        have : o + d.length + (i - (o + d.length)) = i := by omega
        rw [this]; exact hgi i

/-- writing never shortens the file -/
theorem length_writeAt_ge (f : File) (o : Nat) (d : List UInt8) : f.length ≤ (writeAt f o d).length := by
  unfold writeAt
  by_cases hd : d = []
  · simp [hd]
  · simp [hd]; omega

theorem bufcount_eq_min (nprocs chunk nbytes r : Nat) (hc : 0 < chunk) (hr : r < nprocs) :
    bufcount nprocs chunk nbytes r
      = min chunk ((nbytes - nextNbytes nprocs chunk nbytes) - r * chunk) := by
  unfold bufcount nextNbytes
  have hdm := Nat.div_add_mod nbytes chunk
  have hml := Nat.mod_lt nbytes hc
  have hcomm : chunk * (nbytes / chunk) = (nbytes / chunk) * chunk := Nat.mul_comm _ _
  by_cases h : nbytes < nprocs * chunk
  · simp only [h, if_true]
    by_cases h1 : r > nbytes / chunk
    · have := Nat.mul_le_mul_right chunk (show nbytes / chunk + 1 ≤ r from h1)
      rw [Nat.add_mul] at this
      simp only [h1, if_true]; omega
    · by_cases h2 : r = nbytes / chunk
      · subst h2; simp only [h1, if_false, if_true]; omega
      · have := Nat.mul_le_mul_right chunk (show r + 1 ≤ nbytes / chunk by omega)
        rw [Nat.add_mul] at this
        simp only [h1, h2, if_false]; omega
  · simp only [h, if_false]
    have := Nat.mul_le_mul_right chunk (show r + 1 ≤ nprocs from hr)
    rw [Nat.add_mul] at this
    have hcm : chunk * nprocs = nprocs * chunk := Nat.mul_comm _ _
    omega

theorem round_len (nprocs chunk nbytes : Nat) :
    nextNbytes nprocs chunk nbytes ≤ nbytes ∧
    nbytes - nextNbytes nprocs chunk nbytes ≤ nprocs * chunk := by
  unfold nextNbytes
  have hcm : chunk * nprocs = nprocs * chunk := Nat.mul_comm _ _
  split <;> omega

/-- the effect "block copy of `[src, src+n)` to `[dst, dst+n)`" in relational form -/
def Copied (f f' : File) (dst src lo hi : Nat) : Prop :=
  (∀ j, dst + lo ≤ j → j < dst + hi → j - dst + src < f.length → rd f' j = rd f (j - dst + src)) ∧
  (∀ j, (j < dst + lo ∨ dst + hi ≤ j) → rd f' j = rd f j) ∧
  f.length ≤ f'.length

/-- invariant of the per-rank writes of one round (ranks `< k` have written) -/
theorem round_inv (m : ReadMode) (nprocs chunk : Nat) (f : File) (dst src nbOld nb L : Nat)
    (hcnt : ∀ r, r < nprocs → bufcount nprocs chunk nbOld r = min chunk (L - r * chunk)) :
    ∀ k, k ≤ nprocs →
      Copied f ((List.range k).foldl (fun g r => writeAt g (dst + nb + r * chunk)
            (readAt m f (src + nb + r * chunk) (bufcount nprocs chunk nbOld r))) f)
        dst src nb (nb + min L (k * chunk)) := by
  intro k
  induction k with
  | zero =>
    intro _
    refine ⟨fun j h1 h2 => ?_, fun j _ => rfl, Nat.le_refl _⟩
    simp at h2; omega
  | succ k ih =>
    intro hk
    obtain ⟨i1, i2, i3⟩ := ih (by omega)
    rw [List.range_succ, List.foldl_append, List.foldl_cons, List.foldl_nil, hcnt k (by omega)]
    have hle := readAt_length_le m f (src + nb + k * chunk) (min chunk (L - k * chunk))
    have hge := readAt_length_ge m f (src + nb + k * chunk) (min chunk (L - k * chunk))
    have hsm : (k + 1) * chunk = k * chunk + chunk := Nat.succ_mul k chunk
    refine ⟨fun j h1 h2 hp => ?_, fun j hj => ?_, Nat.le_trans i3 (length_writeAt_ge _ _ _)⟩
    · rw [rd_writeAt]
      by_cases hA : dst + nb + k * chunk ≤ j ∧
          j < dst + nb + k * chunk + (readAt m f (src + nb + k * chunk) (min chunk (L - k * chunk))).length
      · rw [if_pos hA, readAt_getD m _ _ _ _ (by omega) (by omega)]
        congr 1; omega
      · rw [if_neg hA]
        exact i1 j h1 (by omega) hp
    · rw [rd_writeAt, if_neg (by omega)]
      exact i2 j (by omega)

theorem copied_roundFile (m : ReadMode) (nprocs chunk : Nat) (f : File) (dst src nbytes : Nat)
    (hc : 0 < chunk) :
    Copied f (roundFile m nprocs chunk f dst src nbytes (nextNbytes nprocs chunk nbytes))
      dst src (nextNbytes nprocs chunk nbytes) nbytes := by
  unfold roundFile
  rw [List.foldl_map]
  have hl := round_len nprocs chunk nbytes
  have h := round_inv m nprocs chunk f dst src nbytes (nextNbytes nprocs chunk nbytes)
        (nbytes - nextNbytes nprocs chunk nbytes)
        (fun r hr => bufcount_eq_min nprocs chunk nbytes r hc hr) nprocs (Nat.le_refl _)
  have e1 : min (nbytes - nextNbytes nprocs chunk nbytes) (nprocs * chunk) = nbytes - nextNbytes nprocs chunk nbytes :=
    Nat.min_eq_left hl.2
  have e2 : nextNbytes nprocs chunk nbytes + (nbytes - nextNbytes nprocs chunk nbytes) = nbytes := by omega
  rw [e1, e2] at h
  exact h

/-- tail-first rounds of block copies = one block copy (needs `src ≤ dst`) -/
theorem copied_moveLoop (m : ReadMode) (nprocs chunk dst src : Nat) (hc : 0 < chunk) (hp : 0 < nprocs)
    (hds : src ≤ dst) (f : File) (n : Nat) :
    Copied f (moveLoop m nprocs chunk dst src f n) dst src 0 n := by
  induction n using Nat.strongRecOn generalizing f with
  | _ n ih =>
    unfold moveLoop
    by_cases h0 : n = 0
    · simp only [h0, true_or, dite_true]
      exact ⟨fun j h1 h2 => by omega, fun j _ => rfl, Nat.le_refl _⟩
    · have hg : ¬ (n = 0 ∨ chunk = 0 ∨ nprocs = 0) := by omega
      rw [dif_neg hg]
      have hlt : nextNbytes nprocs chunk n < n := by
        have : 0 < chunk * nprocs := Nat.mul_pos hc hp
        unfold nextNbytes; split <;> omega
      simp only []
      obtain ⟨r1, r2, r3⟩ := copied_roundFile m nprocs chunk f dst src n hc
      obtain ⟨l1, l2, l3⟩ := ih _ hlt (roundFile m nprocs chunk f dst src n (nextNbytes nprocs chunk n))
      refine ⟨fun j h1 h2 hpj => ?_, fun j hj => ?_, Nat.le_trans r3 l3⟩
      · by_cases hA : j < dst + nextNbytes nprocs chunk n
        · rw [l1 j h1 hA (by omega), r2 _ (by omega)]
        · rw [l2 j (by omega), r1 j (by omega) h2 hpj]
      · rw [l2 j (by omega), r2 j (by omega)]
end PnVerif.Redef
