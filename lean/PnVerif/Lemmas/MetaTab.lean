import PnVerif.Model.MetaTab
/-
  C07 helper lemmas: the lookup-table invariant and its preservation by every table operation,
  for every hash function and every table size ≥ 1.
-/
namespace PnVerif.Meta

/-- number of occurrences of `id` in bucket `k` -/
def cnt (T : Table) (k id : Nat) : Nat := (bucket T k).count id

/-- The table invariant: the table has `size` buckets and every id `< n` occurs exactly once, in
    bucket `key (name id)`, and nowhere else; ids `≥ n` occur nowhere. -/
structure TabInv (h : Nat → Name → Nat) (size : Nat) (names : List Name) (T : Table) : Prop where
  len : T.length = size
  cnt : ∀ k id, cnt T k id =
          if hid : id < names.length then (if key h size names[id] = k then 1 else 0) else 0

theorem key_lt (h : Nat → Name → Nat) {size : Nat} (hs : 0 < size) (nm : Name) : key h size nm < size :=
  Nat.mod_lt _ hs

theorem bucket_modify (T : Table) (k k' : Nat) (f : List Nat → List Nat) (hk : k < T.length) :
    bucket (T.modify k f) k' = if k = k' then f (bucket T k) else bucket T k' := by
  unfold bucket
  rw [List.getElem?_modify]
  by_cases hkk : k = k'
  · subst hkk
    simp [hk]
  · simp [hkk]

theorem bucket_ge (T : Table) (k : Nat) (hk : T.length ≤ k) : bucket T k = [] := by
  unfold bucket
  rw [List.getElem?_eq_none hk]; rfl

theorem emptyTable_inv (h : Nat → Name → Nat) (size : Nat) : TabInv h size [] (emptyTable size) := by
  refine ⟨by simp [emptyTable], ?_⟩
  intro k id
  simp only [cnt, bucket, emptyTable, List.length_nil, Nat.not_lt_zero, dite_false]
  by_cases hk : k < size
  · simp [List.getElem?_replicate, hk]
  · simp [List.getElem?_replicate, hk]

/-- ncmpio_hash_insert keeps the invariant when the new object gets id `n` -/
theorem hashInsert_inv {h : Nat → Name → Nat} {size : Nat} (hs : 0 < size) {names : List Name} {T : Table}
    (inv : TabInv h size names T) (nm : Name) :
    TabInv h size (names ++ [nm]) (hashInsert h size T nm names.length) := by
  have hk : key h size nm < T.length := by rw [inv.len]; exact key_lt h hs nm
  refine ⟨by simp [hashInsert, inv.len], ?_⟩
  intro k id
  have hc := inv.cnt k id
  simp only [cnt, hashInsert] at hc ⊢
  rw [bucket_modify _ _ _ _ hk]
  by_cases hlt : id < names.length
  · have hlt' : id < (names ++ [nm]).length := by simp; omega
    have hne : names.length ≠ id := by omega
    simp only [hlt', hlt, dite_true, List.getElem_append_left hlt] at hc ⊢
    by_cases hkk : key h size nm = k
    · simp only [hkk, if_true, List.count_append]
      rw [hkk] at hk
      subst hkk
      rw [hc]
      simp [List.count_singleton, hne]
    · simp only [hkk, if_false]; exact hc
  · by_cases heq : id = names.length
    · subst heq
      have hlt' : names.length < (names ++ [nm]).length := by simp
      simp only [hlt', dite_true, List.getElem_append_right (Nat.le_refl _), Nat.sub_self,
        List.getElem_cons_zero]
      simp only [Nat.lt_irrefl, dite_false] at hc
      by_cases hkk : key h size nm = k
      · subst hkk
        simp [List.count_append, hc]
      · simp only [hkk, if_false]; exact hc
    · have hlt' : ¬ id < (names ++ [nm]).length := by simp; omega
      simp only [hlt', hlt, dite_false] at hc ⊢
      by_cases hkk : key h size nm = k
      · subst hkk
        simp only [if_true, List.count_append, hc]
        simp [List.count_singleton]; omega
      · simp only [hkk, if_false]; exact hc

/-- under the invariant an id is in a bucket iff it is a defined id whose name hashes there -/
theorem mem_bucket_iff {h : Nat → Name → Nat} {size : Nat} {names : List Name} {T : Table}
    (inv : TabInv h size names T) (k id : Nat) :
    id ∈ bucket T k ↔ ∃ hid : id < names.length, key h size names[id] = k := by
  have hc := inv.cnt k id
  unfold cnt at hc
  constructor
  · intro hm
    have hpos : 0 < (bucket T k).count id := List.count_pos_iff.mpr hm
    by_cases hid : id < names.length
    · refine ⟨hid, ?_⟩
      simp only [hid, dite_true] at hc
      by_cases hk : key h size names[id] = k
      · exact hk
      · simp [hk] at hc; omega
    · simp [hid] at hc; omega
  · rintro ⟨hid, hk⟩
    simp only [hid, dite_true, hk, if_true] at hc
    exact List.count_pos_iff.mp (by omega)

/-- the removal step succeeds on a defined id and subtracts exactly that one occurrence -/
theorem hashRemove_spec {h : Nat → Name → Nat} {size : Nat} (hs : 0 < size) {names : List Name} {T : Table}
    (inv : TabInv h size names T) (id : Nat) (hid : id < names.length) :
    ∃ T', hashRemove h size T names[id] id = some T' ∧ T'.length = size ∧
      ∀ k i, cnt T' k i = if i = id then 0 else cnt T k i := by
  have hk : key h size names[id] < T.length := by rw [inv.len]; exact key_lt h hs _
  have hmem : id ∈ bucket T (key h size names[id]) := (mem_bucket_iff inv _ _).mpr ⟨hid, rfl⟩
  refine ⟨T.modify (key h size names[id]) (fun l => l.erase id), ?_, by simp [inv.len], ?_⟩
  · unfold hashRemove
    simp [hmem]
  · intro k i
    simp only [cnt]
    rw [bucket_modify _ _ _ _ hk]
    by_cases hkk : key h size names[id] = k
    · simp only [hkk, if_true]
      rw [List.count_erase]
      by_cases hi : i = id
      · subst hi
        have := inv.cnt k i
        simp only [cnt, hid, dite_true, hkk, if_true] at this
        simp [this]
      · have : (id == i) = false := by simp; omega
        simp [this, hi]
    · simp only [hkk, if_false]
      by_cases hi : i = id
      · subst hi
        have := inv.cnt k i
        simp only [cnt, hid, dite_true, hkk, if_false] at this
        simp [this]
      · simp [hi]

theorem count_map_dec (l : List Nat) (d y : Nat) (hd : d ∉ l) :
    (l.map (fun j => if j > d then j - 1 else j)).count y = l.count (if y ≥ d then y + 1 else y) := by
  induction l with
  | nil => simp
  | cons a r ih =>
    have hda : d ≠ a := fun e => hd (by simp [e])
    have hdr : d ∉ r := fun e => hd (by simp [e])
    have hb : ((if a > d then a - 1 else a) == y) = (a == (if y ≥ d then y + 1 else y)) := by
      rw [Bool.eq_iff_iff]; simp only [beq_iff_eq]
      split <;> split <;> omega
    simp only [List.map_cons, List.count_cons, ih hdr, hb]

theorem bucket_map (T : Table) (f : List Nat → List Nat) (hf : f [] = []) (k : Nat) :
    bucket (T.map f) k = f (bucket T k) := by
  unfold bucket
  rw [List.getElem?_map]
  cases T[k]? <;> simp [hf]

/-- ncmpio_hash_delete keeps the invariant for the array with element `id` removed -/
theorem hashDelete_inv {h : Nat → Name → Nat} {size : Nat} (hs : 0 < size) {names : List Name} {T : Table}
    (inv : TabInv h size names T) (id : Nat) (hid : id < names.length) :
    ∃ T', hashDelete h size T names[id] id = some T' ∧ TabInv h size (names.eraseIdx id) T' := by
  obtain ⟨T1, h1, hlen, hc1⟩ := hashRemove_spec hs inv id hid
  refine ⟨T1.map (fun l => l.map (fun j => if j > id then j - 1 else j)), by simp [hashDelete, h1], ?_, ?_⟩
  · simp [hlen]
  · intro k y
    have hnot : id ∉ bucket T1 k := by
      have := hc1 k id
      simp only [cnt, if_true] at this
      exact List.count_eq_zero.mp this
    simp only [cnt]
    rw [bucket_map _ _ (by simp), count_map_dec _ _ _ hnot]
    have hlenE : (names.eraseIdx id).length = names.length - 1 := List.length_eraseIdx_of_lt hid
    have h2 := hc1 k (if y ≥ id then y + 1 else y)
    simp only [cnt] at h2
    rw [h2]
    have h3 := inv.cnt k (if y ≥ id then y + 1 else y)
    simp only [cnt] at h3
    by_cases hy : y ≥ id
    · simp only [hy, if_true] at h3 ⊢
      have : y + 1 ≠ id := by omega
      simp only [this, if_false, h3]
      by_cases hlt : y + 1 < names.length
      · have hlt' : y < (names.eraseIdx id).length := by omega
        simp only [hlt, hlt', dite_true]
        rw [List.getElem_eraseIdx]
        have : ¬ y < id := by omega
        simp [this]
      · have hlt' : ¬ y < (names.eraseIdx id).length := by omega
        simp [hlt, hlt']
    · simp only [hy, if_false] at h3 ⊢
      have : y ≠ id := by omega
      simp only [this, if_false, h3]
      have hlt : y < names.length := by omega
      have hlt' : y < (names.eraseIdx id).length := by omega
      simp only [hlt, hlt', dite_true]
      rw [List.getElem_eraseIdx]
      have : y < id := by omega
      simp [this]

/-- ncmpio_hash_replace / ncmpio_update_name_lookup_table keep the invariant for the renamed array -/
theorem hashReplace_inv {h : Nat → Name → Nat} {size : Nat} (hs : 0 < size) {names : List Name} {T : Table}
    (inv : TabInv h size names T) (id : Nat) (hid : id < names.length) (new : Name) :
    ∃ T', hashReplace h size T names[id] new id = some T' ∧ TabInv h size (names.set id new) T' := by
  obtain ⟨T1, h1, hlen, hc1⟩ := hashRemove_spec hs inv id hid
  refine ⟨hashInsert h size T1 new id, by simp [hashReplace, h1], by simp [hashInsert, hlen], ?_⟩
  intro k y
  have hk : key h size new < T1.length := by rw [hlen]; exact key_lt h hs new
  simp only [cnt, hashInsert]
  rw [bucket_modify _ _ _ _ hk]
  have h2 := hc1 k y
  have h3 := inv.cnt k y
  simp only [cnt] at h2 h3
  have hlenS : (names.set id new).length = names.length := List.length_set
  by_cases hy : y = id
  · subst hy
    have hy' : y < (names.set y new).length := by omega
    simp only [if_true] at h2
    simp only [hy', dite_true, List.getElem_set_self]
    by_cases hkk : key h size new = k
    · subst hkk
      simp [List.count_append, h2]
    · simp [hkk, h2]
  · simp only [hy, if_false] at h2
    have hne : ¬ id = y := fun e => hy e.symm
    by_cases hlt : y < names.length
    · have hy' : y < (names.set id new).length := by omega
      simp only [hy', dite_true, List.getElem_set_ne hne]
      simp only [hlt, dite_true] at h3
      by_cases hkk : key h size new = k
      · subst hkk
        simp only [if_true, List.count_append, h2, h3]
        simp [List.count_singleton, hne]
      · simp only [hkk, if_false, h2, h3]
    · have hy' : ¬ y < (names.set id new).length := by omega
      simp only [hy', dite_false]
      simp only [hlt, dite_false] at h3
      by_cases hkk : key h size new = k
      · subst hkk
        simp only [if_true, List.count_append, h2, h3]
        simp [List.count_singleton, hne]
      · simp only [hkk, if_false, h2, h3]

/-- ncmpio_hash_table_copy reproduces a table of the right length exactly -/
theorem tableCopy_eq (T : Table) (size : Nat) (hl : T.length = size) : tableCopy T size = T := by
  apply List.ext_getElem?
  intro i
  unfold tableCopy bucket
  rw [List.getElem?_map]
  by_cases hi : i < size
  · have : i < T.length := by omega
    simp [List.getElem?_range hi, List.getElem?_eq_getElem this]
  · have h1 : (List.range size)[i]? = none := List.getElem?_eq_none (by simp; omega)
    have h2 : T[i]? = none := List.getElem?_eq_none (by omega)
    simp [h1, h2]

/-! ### lookup -/

theorem lookup_some_iff (names : List Name) (nm : Name) (i : Nat) :
    lookup names nm = some i ↔
      ∃ hi : i < names.length, names[i] = nm ∧ ∀ j (hj : j < i), names[j]'(by omega) ≠ nm := by
  induction names generalizing i with
  | nil => simp [lookup]
  | cons x r ih =>
    unfold lookup
    by_cases hx : x = nm
    · simp only [hx, if_true, Option.some.injEq]
      constructor
      · intro e; subst e; exact ⟨by simp, by simp, by intro j hj; omega⟩
      · rintro ⟨hi, _, hall⟩
        cases i with
        | zero => rfl
        | succ i' => exact absurd (by simp [hx]) (hall 0 (by omega))
    · simp only [hx, if_false, Option.map_eq_some_iff]
      constructor
      · rintro ⟨i', hi', rfl⟩
        obtain ⟨hlt, he, hall⟩ := (ih i').mp hi'
        refine ⟨by simp; omega, by simpa using he, ?_⟩
        intro j hj
        cases j with
        | zero => simpa using hx
        | succ j' => simpa using hall j' (by omega)
      · rintro ⟨hi, he, hall⟩
        cases i with
        | zero => simp at he; exact absurd he hx
        | succ i' =>
          refine ⟨i', (ih i').mpr ⟨by simpa using hi, by simpa using he, ?_⟩, rfl⟩
          intro j hj
          simpa using hall (j + 1) (by omega)

theorem lookup_none_iff (names : List Name) (nm : Name) : lookup names nm = none ↔ nm ∉ names := by
  induction names with
  | nil => simp [lookup]
  | cons x r ih =>
    unfold lookup
    by_cases hx : x = nm
    · simp [hx]
    · simp only [hx, if_false, Option.map_eq_none_iff, ih]
      simp only [List.mem_cons, not_or]
      exact ⟨fun e => ⟨fun e' => hx e'.symm, e⟩, fun e => e.2⟩

theorem lookup_lt {names : List Name} {nm : Name} {i : Nat} (h : lookup names nm = some i) :
    i < names.length := ((lookup_some_iff names nm i).mp h).1

theorem lookup_getElem {names : List Name} {nm : Name} {i : Nat} (h : lookup names nm = some i) :
    names[i]'(lookup_lt h) = nm := ((lookup_some_iff names nm i).mp h).2.1

/-- with pairwise distinct names, `lookup` returns the one index that carries the name -/
theorem lookup_of_nodup {names : List Name} (nd : names.Nodup) (i : Nat) (hi : i < names.length) :
    lookup names names[i] = some i := by
  rw [lookup_some_iff]
  refine ⟨hi, rfl, ?_⟩
  intro j hj e
  have := (List.getElem_inj (h₀ := by omega) (h₁ := hi) nd).mp e
  omega

variable {α : Type} [Named α]

/-- the full invariant of an array + table pair -/
def NArr.Inv (h : Nat → Name → Nat) (size : Nat) (A : NArr α) : Prop :=
  TabInv h size A.names A.tab ∧ A.names.Nodup

theorem find?_unique {l : List Nat} {p : Nat → Bool} {a : Nat} (hm : a ∈ l) (hp : p a = true)
    (hu : ∀ b ∈ l, p b = true → b = a) : l.find? p = some a := by
  induction l with
  | nil => simp at hm
  | cons x r ih =>
    by_cases hx : p x = true
    · have : x = a := hu x (by simp) hx
      subst this
      simp [List.find?, hx]
    · have hxa : x ≠ a := fun e => hx (e ▸ hp)
      have hm' : a ∈ r := by
        rcases List.mem_cons.mp hm with e | e
        · exact absurd e.symm hxa
        · exact e
      simp only [List.find?, hx]
      exact ih hm' (fun b hb => hu b (List.mem_cons_of_mem _ hb))

/-- `lookup_by_name_eq_spec`: the hash lookup equals linear search in the plain list of names -/
theorem NArr.find_eq_lookup {h : Nat → Name → Nat} {size : Nat} {A : NArr α}
    (inv : A.Inv h size) (nm : Name) : A.find h size nm = lookup A.names nm := by
  obtain ⟨ti, nd⟩ := inv
  have hlen : A.names.length = A.items.length := by simp [NArr.names]
  have hname : ∀ id (hid : id < A.items.length), A.names[id]'(by omega) = Named.name A.items[id] := by
    intro id hid; simp [NArr.names]
  unfold NArr.find
  by_cases h0 : A.items.length = 0
  · have : A.names = [] := by
      have : A.names.length = 0 := by omega
      exact List.eq_nil_of_length_eq_zero this
    simp [h0, this, lookup]
  · simp only [h0, if_false]
    cases hl : lookup A.names nm with
    | none =>
      have hnm : nm ∉ A.names := (lookup_none_iff _ _).mp hl
      rw [List.find?_eq_none]
      intro id hmem
      obtain ⟨hid, _⟩ := (mem_bucket_iff ti _ _).mp hmem
      have hid' : id < A.items.length := by omega
      simp only [List.getElem?_eq_getElem hid']
      intro e
      have e' : Named.name A.items[id] = nm := by simpa using e
      exact hnm (by rw [← e', ← hname id hid']; exact List.getElem_mem _)
    | some i =>
      have hi := lookup_lt hl
      have hi' : i < A.items.length := by omega
      have he := lookup_getElem hl
      apply find?_unique
      · exact (mem_bucket_iff ti _ _).mpr ⟨hi, by rw [he]⟩
      · simp only [List.getElem?_eq_getElem hi']
        rw [← hname i hi', he]; simp
      · intro b hb hp
        obtain ⟨hbid, _⟩ := (mem_bucket_iff ti _ _).mp hb
        have hb' : b < A.items.length := by omega
        simp only [List.getElem?_eq_getElem hb'] at hp
        have e' : A.names[b] = nm := by rw [hname b hb']; simpa using hp
        exact (List.getElem_inj (h₀ := hbid) (h₁ := hi) nd).mp (by rw [e', he])

/-- `name_id_agree`: looking up the name of object `id` gives `id` back -/
theorem NArr.find_name {h : Nat → Name → Nat} {size : Nat} {A : NArr α}
    (inv : A.Inv h size) (id : Nat) (hid : id < A.items.length) :
    A.find h size (Named.name A.items[id]) = some id := by
  rw [NArr.find_eq_lookup inv]
  have hid' : id < A.names.length := by simp [NArr.names]; exact hid
  have : Named.name A.items[id] = A.names[id] := by simp [NArr.names]
  rw [this]
  exact lookup_of_nodup inv.2 id hid'

theorem NArr.empty_inv (h : Nat → Name → Nat) (size : Nat) : (NArr.empty size : NArr α).Inv h size :=
  ⟨by simpa [NArr.empty, NArr.names] using emptyTable_inv h size, by simp [NArr.empty, NArr.names]⟩

theorem NArr.push_names (h : Nat → Name → Nat) (size : Nat) (A : NArr α) (x : α) :
    (A.push h size x).names = A.names ++ [Named.name x] := by simp [NArr.push, NArr.names]

theorem NArr.push_inv {h : Nat → Name → Nat} {size : Nat} (hs : 0 < size) {A : NArr α}
    (inv : A.Inv h size) (x : α) (fresh : Named.name x ∉ A.names) : (A.push h size x).Inv h size := by
  refine ⟨?_, ?_⟩
  · rw [NArr.push_names]
    have := hashInsert_inv hs inv.1 (Named.name x)
    simpa [NArr.push, NArr.names] using this
  · rw [NArr.push_names]
    exact List.nodup_append.mpr ⟨inv.2, by simp, by intro a ha b hb; simp at hb; subst hb; exact fun e => fresh (e ▸ ha)⟩

theorem nodup_set {names : List Name} (nd : names.Nodup) (id : Nat) (new : Name) (fresh : new ∉ names) :
    (names.set id new).Nodup := by
  induction names generalizing id with
  | nil => simp
  | cons x r ih =>
    have hx : x ∉ r := (List.nodup_cons.mp nd).1
    have hr : r.Nodup := (List.nodup_cons.mp nd).2
    have hnx : new ≠ x := fun e => fresh (by simp [e])
    have hnr : new ∉ r := fun e => fresh (by simp [e])
    cases id with
    | zero => simp only [List.set_cons_zero]; exact List.nodup_cons.mpr ⟨hnr, hr⟩
    | succ i =>
      simp only [List.set_cons_succ]
      refine List.nodup_cons.mpr ⟨?_, ih hr i hnr⟩
      intro hm
      rcases List.mem_or_eq_of_mem_set hm with e | e
      · exact hx e
      · exact hnx e.symm

theorem NArr.rename_spec {h : Nat → Name → Nat} {size : Nat} (hs : 0 < size) {A : NArr α}
    (inv : A.Inv h size) (id : Nat) (hid : id < A.items.length) (new : Name) (fresh : new ∉ A.names) :
    ∃ B, A.rename h size id new = some B ∧ B.items = A.items.set id (Named.setName A.items[id] new) ∧
      B.Inv h size := by
  have hid' : id < A.names.length := by simp [NArr.names]; exact hid
  have hnm : A.names[id] = Named.name A.items[id] := by simp [NArr.names]
  obtain ⟨T', hT, hinv⟩ := hashReplace_inv hs inv.1 id hid' new
  rw [hnm] at hT
  refine ⟨{ items := A.items.set id (Named.setName A.items[id] new), tab := T' }, ?_, rfl, ?_, ?_⟩
  · simp [NArr.rename, List.getElem?_eq_getElem hid, hT]
  · have : (A.items.set id (Named.setName A.items[id] new)).map Named.name = A.names.set id new := by
      simp [NArr.names, List.map_set, Named.name_setName]
    simpa [NArr.names, this] using hinv
  · have : (A.items.set id (Named.setName A.items[id] new)).map Named.name = A.names.set id new := by
      simp [NArr.names, List.map_set, Named.name_setName]
    simp only [NArr.names, this]
    exact nodup_set inv.2 id new fresh

theorem map_eraseIdx' {β γ : Type} (f : β → γ) (l : List β) (i : Nat) :
    (l.eraseIdx i).map f = (l.map f).eraseIdx i := by
  induction l generalizing i with
  | nil => simp
  | cons x r ih => cases i with
    | zero => simp
    | succ j => simp [ih]

theorem nodup_eraseIdx {names : List Name} (nd : names.Nodup) (id : Nat) : (names.eraseIdx id).Nodup :=
  List.Nodup.sublist (List.eraseIdx_sublist _ _) nd

theorem NArr.del_spec {h : Nat → Name → Nat} {size : Nat} (hs : 0 < size) {A : NArr α}
    (inv : A.Inv h size) (id : Nat) (hid : id < A.items.length) :
    ∃ B, A.del h size id = some B ∧ B.items = A.items.eraseIdx id ∧ B.Inv h size := by
  have hid' : id < A.names.length := by simp [NArr.names]; exact hid
  have hnm : A.names[id] = Named.name A.items[id] := by simp [NArr.names]
  obtain ⟨T', hT, hinv⟩ := hashDelete_inv hs inv.1 id hid'
  rw [hnm] at hT
  have hmap : (A.items.eraseIdx id).map Named.name = A.names.eraseIdx id := by
    simp [NArr.names, map_eraseIdx']
  refine ⟨{ items := A.items.eraseIdx id, tab := T' }, ?_, rfl, ?_, ?_⟩
  · simp [NArr.del, List.getElem?_eq_getElem hid, hT]
  · simpa [NArr.names, hmap] using hinv
  · simp only [NArr.names, hmap]; exact nodup_eraseIdx inv.2 id

/-- changing non-name fields leaves the invariant alone -/
theorem NArr.update_inv {h : Nat → Name → Nat} {size : Nat} {A : NArr α} (inv : A.Inv h size) (id : Nat)
    (f : α → α) (hf : ∀ a, Named.name (f a) = Named.name a) : (A.update id f).Inv h size := by
  have : (A.update id f).names = A.names := by
    simp only [NArr.update, NArr.names]
    apply List.ext_getElem?
    intro i
    simp only [List.getElem?_map, List.getElem?_modify]
    cases A.items[i]? with
    | none => rfl
    | some a => by_cases hi : id = i <;> simp [hi, hf]
  unfold NArr.Inv
  rw [this]
  exact inv

theorem NArr.dup_eq {h : Nat → Name → Nat} {size : Nat} {A : NArr α} (inv : A.Inv h size) : A.dup size = A := by
  simp [NArr.dup, tableCopy_eq _ _ inv.1.len]

theorem NArr.dup_inv {h : Nat → Name → Nat} {size : Nat} {A : NArr α} (inv : A.Inv h size) :
    (A.dup size).Inv h size := by rw [NArr.dup_eq inv]; exact inv

theorem NArr.foldl_push {h : Nat → Name → Nat} {size : Nat} (hs : 0 < size) (xs : List α) (A : NArr α)
    (inv : A.Inv h size) (nd : (A.names ++ xs.map Named.name).Nodup) :
    (xs.foldl (fun A x => A.push h size x) A).items = A.items ++ xs ∧
    (xs.foldl (fun A x => A.push h size x) A).Inv h size := by
  induction xs generalizing A with
  | nil => simp [inv]
  | cons x r ih =>
    simp only [List.foldl_cons]
    have fresh : Named.name x ∉ A.names := by
      intro hm
      have := (List.nodup_append.mp nd).2.2 _ hm (Named.name x) (by simp)
      exact this rfl
    have inv' := NArr.push_inv hs inv x fresh
    have nd' : ((A.push h size x).names ++ r.map Named.name).Nodup := by
      rw [NArr.push_names]; simpa [List.append_assoc] using nd
    obtain ⟨h1, h2⟩ := ih (A.push h size x) inv' nd'
    exact ⟨by rw [h1]; simp [NArr.push], h2⟩

/-- populate-at-open: the table built from a duplicate-free array satisfies the invariant -/
theorem NArr.ofList_spec {h : Nat → Name → Nat} {size : Nat} (hs : 0 < size) (xs : List α)
    (nd : (xs.map Named.name).Nodup) :
    (NArr.ofList h size xs).items = xs ∧ (NArr.ofList h size xs).Inv h size := by
  have := NArr.foldl_push hs xs (NArr.empty size) (NArr.empty_inv h size) (by simpa [NArr.empty, NArr.names] using nd)
  simpa [NArr.ofList, NArr.empty] using this

end PnVerif.Meta
