import PnVerif.Model.Access
namespace PnVerif.Access

/-- the row-major spec enumeration mapped through the unit weights, one dimension peeled -/
def enumOff : List Dim → List Nat
  | [] => [0]
  | d :: ds => (List.range d.c).flatMap (fun i => (enumOff ds).map (fun x => (d.s + i * d.k) * d.u + x))

theorem extend_eq (disps : List Nat) (d : Dim) :
    extend disps d = (List.range d.c).flatMap (fun i => disps.map (fun x => (d.s + i * d.k) * d.u + x)) := by
  unfold extend
  congr 1
  funext i
  congr 1
  funext x
  rw [Nat.add_mul, Nat.mul_assoc]
  omega

/-- `extend` commutes with adding an offset and with `flatMap` replication of the inner list -/
theorem extend_flatMap (c : Nat) (g : Nat → Nat) (inner : List Nat) (d : Dim) :
    extend ((List.range c).flatMap (fun i => inner.map (fun x => g i + x))) d
      = (List.range d.c).flatMap (fun j => (List.range c).flatMap (fun i => inner.map (fun x => (d.s + j * d.k) * d.u + (g i + x)))) := by
  rw [extend_eq]
  congr 1
  funext j
  rw [List.map_flatMap]
  congr 1
  funext i
  rw [List.map_map]
  rfl

end PnVerif.Access

namespace PnVerif.Access

/-- KEY LEMMA: the bottom-up construction followed by the C code (innermost dimension first)
    produces exactly the row-major enumeration, for any number of dimensions. -/
theorem offsetsBU_reverse (ds : List Dim) : offsetsBU ds.reverse = enumOff ds := by
  induction ds with
  | nil => rfl
  | cons d ds ih =>
    unfold offsetsBU at *
    rw [List.reverse_cons, List.foldl_append]
    simp only [List.foldl_cons, List.foldl_nil]
    rw [ih, extend_eq]
    rfl

theorem enumOff_zip (s c k u : List Nat) (h1 : s.length = c.length) (h2 : s.length = k.length)
    (h3 : s.length = u.length) :
    enumOff (zipDims s c k u) = (enumIdx s c k).map (dot u) := by
  induction s generalizing c k u with
  | nil =>
    cases c <;> cases k <;> cases u <;> simp_all [zipDims, enumOff, enumIdx, dot]
  | cons s0 ss ih =>
    cases c with
    | nil => simp at h1
    | cons c0 cs =>
      cases k with
      | nil => simp at h2
      | cons k0 ks =>
        cases u with
        | nil => simp at h3
        | cons u0 us =>
          simp only [List.length_cons, Nat.add_right_cancel_iff] at h1 h2 h3
          simp only [zipDims, enumOff, enumIdx]
          rw [ih cs ks us h1 h2 h3, List.map_flatMap]
          congr 1
          funext i
          rw [List.map_map, List.map_map]
          congr 1

end PnVerif.Access

namespace PnVerif.Access

theorem dot_unitsFixed (xsz : Nat) (shape idx : List Nat) :
    dot (unitsFixed xsz shape) idx = rowMajor shape idx * xsz := by
  induction shape generalizing idx with
  | nil => simp [unitsFixed, dot, rowMajor]
  | cons n ns ih =>
    cases idx with
    | nil => simp [unitsFixed, dot, rowMajor]
    | cons i is =>
      simp only [unitsFixed, dot, rowMajor, ih]
      rw [Nat.add_mul, Nat.mul_assoc, Nat.mul_comm xsz]

/-- the specification offset is `begin` plus the weighted sum of the indices -/
theorem elemOff_eq_dot (v : VarLay) (idx : List Nat) (h : v.isRec = true → v.shape ≠ []) :
    elemOff v idx = v.begin + dot (units v) idx := by
  unfold elemOff units
  cases hr : v.isRec with
  | false => simp [dot_unitsFixed]
  | true =>
    have hs := h hr
    cases hsh : v.shape with
    | nil => exact absurd hsh hs
    | cons n ns =>
      cases idx with
      | nil => cases ns <;> simp [dot, rowMajor]
      | cons i is => simp [dot, dot_unitsFixed, Nat.add_assoc]

/-- the dimension list the loop works through, with the unit the C code uses at each step -/
def dimsOf (isRec : Bool) (d0 : Nat) : List (Nat × Nat × Nat × Nat × Bool) → Nat → List Dim
  | [], _ => []
  | (s, c, k, dl, f) :: rest, a =>
    ⟨s, c, k, if f ∧ isRec then d0 else a * dl⟩ :: dimsOf isRec d0 rest (a * dl)

theorem sfLoop_eq (isRec : Bool) (d0 : Nat) (hi : List (Nat × Nat × Nat × Nat × Bool)) (a : Nat) (disps : List Nat) :
    sfLoop isRec d0 hi a disps = (dimsOf isRec d0 hi a).foldl extend disps := by
  induction hi generalizing a disps with
  | nil => rfl
  | cons x rest ih =>
    obtain ⟨s, c, k, dl, f⟩ := x
    simp only [sfLoop, dimsOf, List.foldl_cons]
    exact ih _ _

def prodDl : List (Nat × Nat × Nat × Nat × Bool) → Nat
  | [] => 1
  | (_, _, _, dl, _) :: rest => dl * prodDl rest

theorem dimsOf_append (isRec : Bool) (d0 : Nat) (xs : List (Nat × Nat × Nat × Nat × Bool))
    (y : Nat × Nat × Nat × Nat × Bool) (a : Nat) :
    dimsOf isRec d0 (xs ++ [y]) a
      = dimsOf isRec d0 xs a ++ dimsOf isRec d0 [y] (a * prodDl xs) := by
  induction xs generalizing a with
  | nil => simp [prodDl, dimsOf]
  | cons x rest ih =>
    obtain ⟨s, c, k, dl, f⟩ := x
    simp only [List.cons_append, dimsOf, prodDl, ih, Nat.mul_assoc]

theorem prodDl_append (xs : List (Nat × Nat × Nat × Nat × Bool)) (y : Nat × Nat × Nat × Nat × Bool) :
    prodDl (xs ++ [y]) = prodDl xs * y.2.2.2.1 := by
  induction xs with
  | nil => obtain ⟨s, c, k, dl, f⟩ := y; simp [prodDl]
  | cons x rest ih =>
    obtain ⟨s, c, k, dl, f⟩ := x
    simp only [List.cons_append, prodDl, ih, Nat.mul_assoc]

end PnVerif.Access

namespace PnVerif.Access

theorem prod_cons' (x : Nat) (xs : List Nat) : prod (x :: xs) = x * prod xs := rfl

theorem getLastD_cons_cons {α} (a b : α) (l : List α) (d : α) : (a :: b :: l).getLastD d = (b :: l).getLastD d := by
  simp [List.getLastD]

/-- the dimension list the loop sees (fixed-size variable): base dimension followed by the higher
    ones with the running product `array_len` = exactly the spec's units, in reverse order -/
theorem sf_dims_fixed (el d0 : Nat) (s c k shape : List Nat)
    (h1 : s.length = c.length) (h2 : s.length = k.length) (h3 : s.length = shape.length) (hne : s ≠ []) :
    (⟨s.getLastD 0, c.getLastD 0, k.getLastD 1, el⟩ :: dimsOf false d0 (sfHigher s c k shape) el
        = (zipDims s c k (unitsFixed el shape)).reverse)
    ∧ prodDl (sfHigher s c k shape) = prod (shape.drop 1) := by
  induction s generalizing c k shape with
  | nil => exact absurd rfl hne
  | cons s0 ss ih =>
    cases c with
    | nil => simp at h1
    | cons c0 cs =>
    cases k with
    | nil => simp at h2
    | cons k0 ks =>
    cases shape with
    | nil => simp at h3
    | cons n0 ns =>
    simp only [List.length_cons, Nat.add_right_cancel_iff] at h1 h2 h3
    cases ss with
    | nil =>
      -- one dimension: no higher dims
      have hc : cs = [] := List.length_eq_zero_iff.mp (by simpa using h1.symm)
      have hk : ks = [] := List.length_eq_zero_iff.mp (by simpa using h2.symm)
      have hn : ns = [] := List.length_eq_zero_iff.mp (by simpa using h3.symm)
      subst hc hk hn
      simp [sfHigher, dimsOf, zipDims, unitsFixed, prod, prodDl, List.getLastD]
    | cons s1 ss' =>
      cases cs with
      | nil => simp at h1
      | cons c1 cs' =>
      cases ks with
      | nil => simp at h2
      | cons k1 ks' =>
      cases ns with
      | nil => simp at h3
      | cons n1 ns' =>
      have ih' := ih (c1 :: cs') (k1 :: ks') (n1 :: ns') h1 h2 h3 (by simp)
      obtain ⟨ihd, ihp⟩ := ih'
      constructor
      · simp only [sfHigher, getLastD_cons_cons]
        rw [dimsOf_append, ← List.cons_append, ihd]
        simp only [zipDims, unitsFixed, List.reverse_cons, dimsOf, ihp]
        simp [prod, Nat.mul_assoc, Nat.mul_comm, Nat.mul_left_comm]
      · simp only [sfHigher, prodDl_append, ihp]
        simp [prod, Nat.mul_comm]

end PnVerif.Access

namespace PnVerif.Access

theorem flatMap_single {α β} (f : α → β) (l : List α) : l.flatMap (fun x => [f x]) = l.map f := by
  induction l with
  | nil => rfl
  | cons a l ih => simp [List.flatMap_cons, ih]

theorem expandBlocks_extend (el seg : Nat) (disps : List Nat) (d : Dim) :
    expandBlocks el (extend disps d) seg = extend (expandBlocks el disps seg) d := by
  unfold expandBlocks extend
  rw [List.flatMap_assoc]
  congr 1
  funext i
  rw [List.flatMap_map, List.map_flatMap]
  congr 1
  funext x
  rw [List.map_map]
  apply List.map_congr_left
  intro j _
  simp only [Function.comp]
  omega

theorem expandBlocks_foldl (el seg : Nat) (ds : List Dim) (disps : List Nat) :
    expandBlocks el (ds.foldl extend disps) seg = ds.foldl extend (expandBlocks el disps seg) := by
  induction ds generalizing disps with
  | nil => rfl
  | cons d ds ih => simp only [List.foldl_cons]; rw [ih, expandBlocks_extend]

/-- the lowest dimension: block displacements + common block length describe exactly the elements
    `extend [0] ⟨sL, cL, kL, uL⟩`.  For stride 1 the C code emits ONE block of cL elements, which is
    right only if consecutive elements are `el` bytes apart (uL = el) or there is at most one. -/
theorem base_expand (el uL sL cL kL : Nat) (hel : 0 < el) (h : kL = 1 → uL = el ∨ cL ≤ 1) :
    expandBlocks el ((List.range (if kL = 1 then 1 else cL)).map (fun j => 0 + sL * uL + j * (kL * uL)))
        ((if kL = 1 then cL else 1) * el)
      = extend [0] ⟨sL, cL, kL, uL⟩ := by
  unfold expandBlocks extend
  by_cases hk : kL = 1
  · subst hk
    simp only [↓reduceIte, List.range_one, List.map_cons, List.map_nil, List.flatMap_cons, List.flatMap_nil,
      List.append_nil, Nat.mul_div_cancel _ hel]
    rw [flatMap_single]
    apply List.map_congr_left
    intro j hj
    rcases h rfl with hu | hc
    · subst hu; simp only [Nat.zero_mul, Nat.one_mul, Nat.add_zero]
    · have : j = 0 := by have := List.mem_range.mp hj; omega
      subst this; simp
  · simp only [hk, ↓reduceIte, Nat.one_mul, Nat.div_self hel, List.range_one, List.map_cons, List.map_nil]
    rw [flatMap_single, flatMap_single, List.map_map]
    apply List.map_congr_left
    intro j _
    simp

end PnVerif.Access

namespace PnVerif.Access

theorem markDim0_append (xs : List (Nat × Nat × Nat × Nat × Bool)) (s c k dl : Nat) (f : Bool) :
    markDim0 (xs ++ [(s, c, k, dl, f)]) = xs ++ [(s, c, k, dl, true)] := by
  induction xs with
  | nil => rfl
  | cons x rest ih =>
    cases rest with
    | nil => obtain ⟨a, b, c', d, e⟩ := x; simp [markDim0]
    | cons y rest' =>
      simp only [List.cons_append] at ih ⊢
      rw [markDim0]
      · rw [ih]
      · simp

theorem dimsOf_false_mark (d0 : Nat) (xs : List (Nat × Nat × Nat × Nat × Bool)) (a : Nat) :
    dimsOf false d0 (markDim0 xs) a = dimsOf false d0 xs a := by
  induction xs generalizing a with
  | nil => rfl
  | cons x rest ih =>
    cases rest with
    | nil => obtain ⟨s, c, k, dl, f⟩ := x; simp [markDim0, dimsOf]
    | cons y rest' =>
      obtain ⟨s, c, k, dl, f⟩ := x
      rw [markDim0]
      · show dimsOf false d0 ((s, c, k, dl, f) :: markDim0 (y :: rest')) a = dimsOf false d0 ((s, c, k, dl, f) :: y :: rest') a
        rw [dimsOf, dimsOf, ih]
      · simp

theorem sfHigher_flags (s c k dl : List Nat) : ∀ x ∈ sfHigher s c k dl, x.2.2.2.2 = false := by
  induction s generalizing c k dl with
  | nil => intro x hx; simp [sfHigher] at hx
  | cons s0 ss ih =>
    intro x hx
    cases c with
    | nil => simp [sfHigher] at hx
    | cons c0 cs =>
    cases k with
    | nil => simp [sfHigher] at hx
    | cons k0 ks =>
    cases dl with
    | nil => simp [sfHigher] at hx
    | cons d0 ds =>
    cases ds with
    | nil => simp [sfHigher] at hx
    | cons d1 ds' =>
      simp only [sfHigher, List.mem_append, List.mem_singleton] at hx
      rcases hx with h | h
      · exact ih cs ks (d1 :: ds') x h
      · subst h; rfl

theorem dimsOf_noflag (isRec : Bool) (d0 : Nat) (xs : List (Nat × Nat × Nat × Nat × Bool)) (a : Nat)
    (h : ∀ x ∈ xs, x.2.2.2.2 = false) : dimsOf isRec d0 xs a = dimsOf false d0 xs a := by
  induction xs generalizing a with
  | nil => rfl
  | cons x rest ih =>
    obtain ⟨s, c, k, dl, f⟩ := x
    have hf : f = false := h (s, c, k, dl, f) (List.mem_cons_self)
    subst hf
    simp only [dimsOf, Bool.false_eq_true, false_and, ↓reduceIte]
    rw [ih _ (fun x hx => h x (List.mem_cons_of_mem _ hx))]

end PnVerif.Access

namespace PnVerif.Access

/-- dimension list seen by stride_flatten = the spec's (start,count,stride,unit) list reversed -/
theorem sf_dims (v : VarLay) (s c k : List Nat)
    (h1 : s.length = c.length) (h2 : s.length = k.length) (h3 : s.length = v.shape.length) (hne : s ≠ []) :
    let dimlen := if v.isRec then v.recsize :: v.shape.drop 1 else v.shape
    (⟨s.getLastD 0, c.getLastD 0, k.getLastD 1,
        if v.shape.length = 1 ∧ v.isRec then dimlen.headD 0 else v.xsz⟩
      :: dimsOf v.isRec (dimlen.headD 0) (markDim0 (sfHigher s c k dimlen)) v.xsz)
      = (zipDims s c k (units v)).reverse := by
  intro dimlen
  cases hr : v.isRec with
  | false =>
    have hd : dimlen = v.shape := by simp [dimlen, hr]
    rw [hd]
    simp only [Bool.false_eq_true, and_false, ↓reduceIte, units, hr]
    rw [dimsOf_false_mark]
    exact (sf_dims_fixed v.xsz _ s c k v.shape h1 h2 h3 hne).1
  | true =>
    cases hsh : v.shape with
    | nil => rw [hsh] at h3; exact absurd (List.length_eq_zero_iff.mp h3) hne
    | cons n0 ns =>
      have hd : dimlen = v.recsize :: ns := by simp [dimlen, hr, hsh]
      rw [hd]
      rw [hsh] at h3
      simp only [units, hr, hsh, ↓reduceIte, List.headD_cons, List.length_cons, and_true]
      cases s with
      | nil => exact absurd rfl hne
      | cons s0 ss =>
      cases c with
      | nil => simp at h1
      | cons c0 cs =>
      cases k with
      | nil => simp at h2
      | cons k0 ks =>
      simp only [List.length_cons, Nat.add_right_cancel_iff] at h1 h2 h3
      cases ns with
      | nil =>
        have hs : ss = [] := List.length_eq_zero_iff.mp (by simpa using h3)
        have hc : cs = [] := List.length_eq_zero_iff.mp (by rw [← h1, hs]; rfl)
        have hk : ks = [] := List.length_eq_zero_iff.mp (by rw [← h2, hs]; rfl)
        subst hs hc hk
        simp [sfHigher, markDim0, dimsOf, zipDims, unitsFixed, List.getLastD]
      | cons n1 ns' =>
        cases ss with
        | nil => simp at h3
        | cons s1 ss' =>
        cases cs with
        | nil => simp at h1
        | cons c1 cs' =>
        cases ks with
        | nil => simp at h2
        | cons k1 ks' =>
        have hfix := (sf_dims_fixed v.xsz v.recsize (s1 :: ss') (c1 :: cs') (k1 :: ks') (n1 :: ns') h1 h2 h3 (by simp))
        simp only [sfHigher, markDim0_append, getLastD_cons_cons]
        rw [dimsOf_append, dimsOf_noflag true _ _ _ (sfHigher_flags _ _ _ _), ← List.cons_append]
        have hlen : (n1 :: ns').length + 1 = 1 ↔ False := by simp
        simp only [hlen, false_and, ↓reduceIte]
        rw [hfix.1]
        simp [zipDims, unitsFixed, dimsOf]

end PnVerif.Access
