import PnVerif.Model.Safety
import PnVerif.Lemmas.Window
/-
  Lemmas/Safety.lean — the instrumented window primitives of Model/Safety.lean:
  every recorded access is inside its object, the copy loops never spin, and the numeric invariant
  `offset + pos = chunk + stream position` that ties the bytes fetched to the bytes consumed.
-/
namespace PnVerif.Safety
open PnVerif.Spec PnVerif.Header

/-! ### accesses of hdr_fetch -/

theorem fetchAcc_safe (file : Bytes) (chunk : Nat) (w : Win) (hp : w.pos ≤ chunk) :
    ∀ a ∈ fetchAcc file chunk w, a.Safe := by
  intro a ha
  simp only [fetchAcc, List.mem_cons, List.mem_nil_iff, or_false] at ha
  rcases ha with rfl | rfl | rfl | rfl <;> simp only [Acc.Safe] <;> split <;> omega

theorem fetch_pos (file : Bytes) (chunk : Nat) (w : Win) : (fetch file chunk w).pos = 0 := by
  simp [fetch]

/-- hdr_fetch with a partly consumed buffer reads exactly as many bytes as were consumed:
    `offset + pos` does not change -/
theorem fetch_off (file : Bytes) (chunk : Nat) (w : Win) (hp : w.pos ≤ chunk) (h0 : 0 < w.pos) :
    (fetch file chunk w).off = w.off + w.pos := by
  have hne : ¬ (chunk - w.pos = chunk) := by omega
  simp only [fetch, hne, if_false]
  omega

/-! ### fixed-size reads and the padding skip -/

theorem getFixedAcc_safe {file : Bytes} {chunk : Nat} {w : Win} {s : Bytes} {k : Nat}
    (h : Inv file chunk w s) (hk : k ≤ chunk) : ∀ a ∈ getFixedAcc file chunk k w, a.Safe := by
  intro a ha
  unfold getFixedAcc at ha
  split at ha
  · rcases List.mem_append.mp ha with h1 | h1
    · exact fetchAcc_safe file chunk w h.pos a h1
    · simp only [List.mem_cons, List.mem_nil_iff, or_false] at h1
      subst h1
      simp only [Acc.Safe, fetch_pos]
      omega
  · simp only [List.mem_cons, List.mem_nil_iff, or_false] at ha
    subst ha
    simp only [Acc.Safe]
    omega

theorem padAcc_safe {file : Bytes} {chunk : Nat} {w : Win} {s : Bytes} {k : Nat}
    (h : Inv file chunk w s) (hk : k ≤ chunk) : ∀ a ∈ padAcc file chunk k w, a.Safe := by
  intro a ha
  unfold padAcc at ha
  split at ha
  · rcases List.mem_append.mp ha with h1 | h1
    · exact fetchAcc_safe file chunk w h.pos a h1
    · simp only [List.mem_cons, List.mem_nil_iff, or_false] at h1
      subst h1
      simp only [Acc.Safe, fetch_pos]
      omega
  · simp only [List.mem_cons, List.mem_nil_iff, or_false] at ha
    subst ha
    simp only [Acc.Safe]
    omega

theorem getFixedW_num {file : Bytes} {chunk : Nat} {w : Win} {s : Bytes} {k : Nat}
    (h : Inv file chunk w s) (hk : k ≤ chunk) :
    (getFixedW file chunk k w).2.off + (getFixedW file chunk k w).2.pos = w.off + w.pos + k := by
  unfold getFixedW
  by_cases hc : w.pos + k > chunk
  · simp only [hc, if_true]
    rw [fetch_off file chunk w h.pos (by omega), fetch_pos]
    omega
  · simp only [hc, if_false]
    omega

theorem padW_num {file : Bytes} {chunk : Nat} {w : Win} {s : Bytes} {k : Nat}
    (h : Inv file chunk w s) (hk : k ≤ chunk) :
    (padW file chunk k w).off + (padW file chunk k w).pos = w.off + w.pos + k := by
  unfold padW
  by_cases hc : w.pos + k > chunk
  · simp only [hc, if_true]
    rw [fetch_off file chunk w h.pos (by omega), fetch_pos]
    omega
  · simp only [hc, if_false]
    omega

/-! ### the copy loop -/

/-- the state after the optional refill at the head of one iteration of the copy loop -/
theorem refill {file : Bytes} {chunk : Nat} (hc : 0 < chunk) {w : Win} {s : Bytes} (h : Inv file chunk w s) :
    ∃ w1, (if chunk - w.pos = 0 then fetch file chunk w else w) = w1 ∧ Inv file chunk w1 s ∧
      0 < chunk - w1.pos ∧ (chunk - w.pos = 0 → w1.pos = 0 ∧ w1.off = w.off + chunk) := by
  by_cases he : chunk - w.pos = 0
  · have hp : 0 < w.pos := by have := h.pos; omega
    obtain ⟨hi, hz⟩ := fetch_inv h hp
    refine ⟨_, by simp [he], hi, by omega, ?_⟩
    · intro _
      refine ⟨hz, ?_⟩
      rw [fetch_off file chunk w h.pos hp]
      have := h.pos
      omega
  · refine ⟨w, by simp [he], h, by omega, ?_⟩
    · intro h'; exact absurd h' he

/-- the copy loops of hdr_get_NC_name / hdr_get_NC_attrV: every memcpy reads inside the chunk
    buffer and writes inside the `total`-byte destination, whatever the number of refills -/
theorem getBytesAcc_safe {file : Bytes} {chunk : Nat} (hc : 0 < chunk) (total : Nat) (n : Nat) :
    ∀ (w : Win) (s : Bytes) (done : Nat), Inv file chunk w s → done + n ≤ total →
      ∀ a ∈ getBytesAcc file chunk total n w done, a.Safe := by
  induction n using Nat.strongRecOn with
  | _ n ih =>
    intro w s done h hd a ha
    rw [getBytesAcc] at ha
    by_cases hn : n = 0
    · simp [hn] at ha
    · simp only [hn, dite_false] at ha
      obtain ⟨w1, hw1e, hi1, hrem, _⟩ := refill hc h
      rw [hw1e] at ha
      have hk : ¬ (min (chunk - w1.pos) n = 0) := by omega
      simp only [hk, dite_false] at ha
      have hpre : ∀ b ∈ (if chunk - w.pos = 0 then fetchAcc file chunk w else []), b.Safe := by
        intro b hb
        split at hb
        · exact fetchAcc_safe file chunk w h.pos b hb
        · cases hb
      rcases List.mem_append.mp ha with h1 | h1
      · rcases List.mem_append.mp h1 with h2 | h2
        · exact hpre a h2
        · simp only [List.mem_cons, List.mem_nil_iff, or_false] at h2
          have := hi1.pos
          rcases h2 with rfl | rfl <;> simp only [Acc.Safe] <;> omega
      · have hadv := advance_inv (k := min (chunk - w1.pos) n) hi1 (by have := hi1.pos; omega)
        exact ih (n - min (chunk - w1.pos) n) (by omega) _ _ _ hadv.2 (by omega) a h1

/-- the copy loop always makes progress: the exit "nothing copied in this iteration" of the model
    (where the C would spin forever) is never taken -/
theorem getBytesStuck_false {file : Bytes} {chunk : Nat} (hc : 0 < chunk) (n : Nat) :
    ∀ (w : Win) (s : Bytes), Inv file chunk w s → getBytesStuck file chunk n w = false := by
  induction n using Nat.strongRecOn with
  | _ n ih =>
    intro w s h
    rw [getBytesStuck]
    by_cases hn : n = 0
    · simp [hn]
    · simp only [hn, dite_false]
      obtain ⟨w1, hw1e, hi1, hrem, _⟩ := refill hc h
      rw [hw1e]
      have hk : ¬ (min (chunk - w1.pos) n = 0) := by omega
      simp only [hk, dite_false]
      have hadv := advance_inv (k := min (chunk - w1.pos) n) hi1 (by have := hi1.pos; omega)
      exact ih (n - min (chunk - w1.pos) n) (by omega) _ _ hadv.2

/-- explicit iteration bound of the copy loop when it starts with an exhausted buffer: one
    iteration per chunk -/
theorem getBytesIters_full {file : Bytes} {chunk : Nat} (hc : 0 < chunk) (n : Nat) :
    ∀ (w : Win) (s : Bytes), Inv file chunk w s → w.pos = chunk →
      getBytesIters file chunk n w ≤ (n + chunk - 1) / chunk := by
  induction n using Nat.strongRecOn with
  | _ n ih =>
    intro w s h hfull
    rw [getBytesIters]
    by_cases hn : n = 0
    · simp [hn]
    · simp only [hn, dite_false]
      obtain ⟨w1, hw1e, hi1, hrem, hz⟩ := refill hc h
      rw [hw1e]
      have hp1 : w1.pos = 0 := (hz (by omega)).1
      have hk : ¬ (min (chunk - w1.pos) n = 0) := by omega
      simp only [hk, dite_false]
      have hadv := advance_inv (k := min (chunk - w1.pos) n) hi1 (by have := hi1.pos; omega)
      by_cases hle : n ≤ chunk
      · -- last iteration
        have hm : min (chunk - w1.pos) n = n := by omega
        rw [hm, Nat.sub_self, getBytesIters]
        simp only [dite_true]
        have : 1 ≤ (n + chunk - 1) / chunk := by
          apply (Nat.le_div_iff_mul_le hc).mpr; omega
        omega
      · have hm : min (chunk - w1.pos) n = chunk := by omega
        have := ih (n - min (chunk - w1.pos) n) (by omega) _ _ hadv.2 (by simp only [hm]; omega)
        rw [hm] at this ⊢
        have hdiv : (n - chunk + chunk - 1) / chunk + 1 = (n + chunk - 1) / chunk := by
          have : n + chunk - 1 = (n - chunk + chunk - 1) + chunk := by omega
          rw [this, Nat.add_div_right _ hc]
        omega

/-- explicit iteration bound of the copy loop in any reachable state: the first iteration takes what
    is left in the buffer, every later one a whole chunk -/
theorem getBytesIters_le {file : Bytes} {chunk : Nat} (hc : 0 < chunk) (n : Nat) (w : Win) (s : Bytes)
    (h : Inv file chunk w s) : getBytesIters file chunk n w ≤ n / chunk + 2 := by
  rw [getBytesIters]
  by_cases hn : n = 0
  · simp [hn]
  · simp only [hn, dite_false]
    obtain ⟨w1, hw1e, hi1, hrem, _⟩ := refill hc h
    rw [hw1e]
    have hk : ¬ (min (chunk - w1.pos) n = 0) := by omega
    simp only [hk, dite_false]
    have hadv := advance_inv (k := min (chunk - w1.pos) n) hi1 (by have := hi1.pos; omega)
    by_cases hle : n ≤ chunk - w1.pos
    · have hm : min (chunk - w1.pos) n = n := by omega
      rw [hm, Nat.sub_self, getBytesIters]
      simp
    · have hm : min (chunk - w1.pos) n = chunk - w1.pos := by omega
      have hfull := getBytesIters_full hc (n - min (chunk - w1.pos) n) _ _ hadv.2
        (by simp only [hm]; have := hi1.pos; omega)
      have hb : (n - min (chunk - w1.pos) n + chunk - 1) / chunk ≤ n / chunk + 1 := by
        have : n - min (chunk - w1.pos) n + chunk - 1 ≤ n + chunk := by omega
        calc (n - min (chunk - w1.pos) n + chunk - 1) / chunk ≤ (n + chunk) / chunk := Nat.div_le_div_right this
          _ = n / chunk + 1 := Nat.add_div_right n hc
      omega

theorem getBytesW_num {file : Bytes} {chunk : Nat} (hc : 0 < chunk) (n : Nat) :
    ∀ (w : Win) (s acc : Bytes), Inv file chunk w s →
      (getBytesW file chunk n w acc).2.off + (getBytesW file chunk n w acc).2.pos = w.off + w.pos + n := by
  induction n using Nat.strongRecOn with
  | _ n ih =>
    intro w s acc h
    rw [getBytesW]
    by_cases hn : n = 0
    · subst hn; simp
    · simp only [hn, dite_false]
      by_cases he : chunk - w.pos = 0
      · have hp : 0 < w.pos := by have := h.pos; omega
        obtain ⟨hi1, hz⟩ := fetch_inv h hp
        simp only [he, if_true]
        have hk : ¬ (min (chunk - (fetch file chunk w).pos) n = 0) := by rw [hz]; omega
        simp only [hk, dite_false]
        have hadv := advance_inv (k := min (chunk - (fetch file chunk w).pos) n) hi1 (by rw [hz]; omega)
        have := ih (n - min (chunk - (fetch file chunk w).pos) n) (by omega) _ _
          (acc ++ ((fetch file chunk w).buf.drop (fetch file chunk w).pos).take (min (chunk - (fetch file chunk w).pos) n)) hadv.2
        rw [this]
        simp only
        rw [fetch_off file chunk w h.pos hp, hz]
        omega
      · simp only [he, if_false]
        have hk : ¬ (min (chunk - w.pos) n = 0) := by omega
        simp only [hk, dite_false]
        have hadv := advance_inv (k := min (chunk - w.pos) n) h (by have := h.pos; omega)
        have := ih (n - min (chunk - w.pos) n) (by omega) _ _
          (acc ++ (w.buf.drop w.pos).take (min (chunk - w.pos) n)) hadv.2
        rw [this]
        simp only
        omega

/-! ### whole runs -/

/-- Every access the chunk-window machinery performs while running ANY reader program is inside
    its object, for every chunk size ≥ 8, every file and every reachable window state. -/
theorem traceRun_safe {file : Bytes} {chunk : Nat} (hc : 8 ≤ chunk) {α : Type} (p : P α) :
    ∀ (w : Win) (s : Bytes), Inv file chunk w s → ∀ a ∈ traceRun file chunk p w, a.Safe := by
  induction p with
  | ret a => intro w s h a ha; cases ha
  | fail e => intro w s h a ha; cases ha
  | u32 k ih =>
    intro w s h a ha
    simp only [traceRun] at ha
    obtain ⟨hv, hi⟩ := getFixedW_spec (k := 4) h (by omega)
    rcases List.mem_append.mp ha with h1 | h1
    · exact getFixedAcc_safe h (by omega) a h1
    · exact ih _ _ _ hi a h1
  | u64 k ih =>
    intro w s h a ha
    simp only [traceRun] at ha
    obtain ⟨hv, hi⟩ := getFixedW_spec (k := 8) h (by omega)
    rcases List.mem_append.mp ha with h1 | h1
    · exact getFixedAcc_safe h (by omega) a h1
    · exact ih _ _ _ hi a h1
  | bytes n k ih =>
    intro w s h a ha
    simp only [traceRun] at ha
    obtain ⟨hv, hi⟩ := getBytesW_spec (by omega : 0 < chunk) n w s [] h
    rcases List.mem_append.mp ha with h1 | h1
    · exact getBytesAcc_safe (by omega) n n w s 0 h (by omega) a h1
    · exact ih _ _ _ hi a h1
  | pad q k ih =>
    intro w s h a ha
    simp only [traceRun] at ha
    have hi := padW_spec (k := q.val) h (by have := q.isLt; omega)
    rcases List.mem_append.mp ha with h1 | h1
    · exact padAcc_safe h (by have := q.isLt; omega) a h1
    · exact ih _ _ hi a h1

theorem stuckRun_false {file : Bytes} {chunk : Nat} (hc : 8 ≤ chunk) {α : Type} (p : P α) :
    ∀ (w : Win) (s : Bytes), Inv file chunk w s → stuckRun file chunk p w = false := by
  induction p with
  | ret a => intro w s h; rfl
  | fail e => intro w s h; rfl
  | u32 k ih =>
    intro w s h
    simp only [stuckRun]
    exact ih _ _ _ (getFixedW_spec (k := 4) h (by omega)).2
  | u64 k ih =>
    intro w s h
    simp only [stuckRun]
    exact ih _ _ _ (getFixedW_spec (k := 8) h (by omega)).2
  | bytes n k ih =>
    intro w s h
    simp only [stuckRun]
    rw [getBytesStuck_false (by omega) n w s h, Bool.false_or]
    exact ih _ _ _ (getBytesW_spec (by omega : 0 < chunk) n w s [] h).2
  | pad q k ih =>
    intro w s h
    simp only [stuckRun]
    exact ih _ _ (padW_spec (k := q.val) h (by have := q.isLt; omega))

/-- the numeric invariant of the window: `offset + pos` advances by exactly the bytes the reader
    program consumes on the flat stream (so the window is never ahead of or behind the stream) -/
theorem endWin_num {file : Bytes} {chunk : Nat} (hc : 8 ≤ chunk) {α : Type} (p : P α) :
    ∀ (w : Win) (s : Bytes), Inv file chunk w s →
      (endWin file chunk p w).off + (endWin file chunk p w).pos = w.off + w.pos + consumed p s ∧
      (endWin file chunk p w).pos ≤ chunk := by
  induction p with
  | ret a => intro w s h; exact ⟨rfl, h.pos⟩
  | fail e => intro w s h; exact ⟨rfl, h.pos⟩
  | u32 k ih =>
    intro w s h
    obtain ⟨hv, hi⟩ := getFixedW_spec (k := 4) h (by omega)
    have hn := getFixedW_num (k := 4) h (by omega)
    simp only [endWin, consumed]
    rw [hv]
    obtain ⟨h1, h2⟩ := ih _ _ _ hi
    exact ⟨by rw [h1, hn]; omega, h2⟩
  | u64 k ih =>
    intro w s h
    obtain ⟨hv, hi⟩ := getFixedW_spec (k := 8) h (by omega)
    have hn := getFixedW_num (k := 8) h (by omega)
    simp only [endWin, consumed]
    rw [hv]
    obtain ⟨h1, h2⟩ := ih _ _ _ hi
    exact ⟨by rw [h1, hn]; omega, h2⟩
  | bytes n k ih =>
    intro w s h
    obtain ⟨hv, hi⟩ := getBytesW_spec (by omega : 0 < chunk) n w s [] h
    have hn := getBytesW_num (by omega : 0 < chunk) n w s [] h
    simp only [endWin, consumed]
    rw [hv, List.nil_append]
    obtain ⟨h1, h2⟩ := ih _ _ _ hi
    exact ⟨by rw [h1, hn]; omega, h2⟩
  | pad q k ih =>
    intro w s h
    have hi := padW_spec (k := q.val) h (by have := q.isLt; omega)
    have hn := padW_num (k := q.val) h (by have := q.isLt; omega)
    simp only [endWin, consumed]
    obtain ⟨h1, h2⟩ := ih _ _ hi
    exact ⟨by rw [h1, hn]; omega, h2⟩

end PnVerif.Safety
