import PnVerif.Model.Tools
/-
  Lemmas about the per-rank partition of ncmpidiff (Model/Tools.lean, `rankBlock`, `rankBox`): the blocks of the
  ranks tile the partitioned dimension, so every element of a variable is compared by some rank and the verdict
  does not depend on the number of processes.
-/

namespace PnVerif.Tools

/-- closed form of the block starts -/
def blockStart (L n r : Nat) : Nat := L / n * r + min r (L % n)

theorem rankBlock_start (L n r : Nat) : (rankBlock L n r).1 = blockStart L n r := by
  unfold rankBlock blockStart
  split <;> simp only [] <;> omega

theorem rankBlock_end (L n r : Nat) : (rankBlock L n r).1 + (rankBlock L n r).2 = blockStart L n (r + 1) := by
  unfold rankBlock blockStart
  rw [Nat.mul_succ]
  split <;> simp only [] <;> omega

theorem blockStart_zero (L n : Nat) : blockStart L n 0 = 0 := by simp [blockStart]

theorem blockStart_last (L n : Nat) (hn : 1 ≤ n) : blockStart L n n = L := by
  unfold blockStart
  have h1 : L % n < n := Nat.mod_lt _ (by omega)
  have h2 : min n (L % n) = L % n := by omega
  rw [h2, Nat.mul_comm]
  exact Nat.div_add_mod L n

theorem blockStart_mono (L n : Nat) : ∀ a b, a ≤ b → blockStart L n a ≤ blockStart L n b := by
  intro a b hab
  induction b with
  | zero => have : a = 0 := by omega
            subst this; exact Nat.le_refl _
  | succ b ih =>
    by_cases h : a = b + 1
    · subst h; exact Nat.le_refl _
    · have := ih (by omega)
      have hs : blockStart L n b ≤ blockStart L n (b + 1) := by
        rw [← rankBlock_end, ← rankBlock_start]; omega
      omega

/-- every index below the end of the first k blocks lies in one of them -/
theorem block_exists (L n : Nat) : ∀ k i, i < blockStart L n k → ∃ r, r < k ∧ blockStart L n r ≤ i ∧ i < blockStart L n (r + 1) := by
  intro k
  induction k with
  | zero => intro i hi; rw [blockStart_zero] at hi; omega
  | succ k ih =>
    intro i hi
    by_cases h : i < blockStart L n k
    · obtain ⟨r, hr, h1, h2⟩ := ih i h
      exact ⟨r, by omega, h1, h2⟩
    · exact ⟨k, by omega, by omega, hi⟩

/-- `ncmpidiff_partition_covers`: for every length L and every number of processes n ≥ 1 the rank blocks are
    pairwise disjoint and their union is [0, L): every index lies in the block of exactly one rank. -/
theorem partition_covers (L n : Nat) (hn : 1 ≤ n) (i : Nat) (hi : i < L) :
    ∃ r, r < n ∧ ((rankBlock L n r).1 ≤ i ∧ i < (rankBlock L n r).1 + (rankBlock L n r).2) ∧
      ∀ r', r' < n → ((rankBlock L n r').1 ≤ i ∧ i < (rankBlock L n r').1 + (rankBlock L n r').2) → r' = r := by
  obtain ⟨r, hr, h1, h2⟩ := block_exists L n n i (by rw [blockStart_last L n hn]; exact hi)
  refine ⟨r, hr, ⟨by rw [rankBlock_start]; exact h1, by rw [rankBlock_end]; exact h2⟩, ?_⟩
  intro r' _ ⟨g1, g2⟩
  rw [rankBlock_start] at g1
  rw [rankBlock_end] at g2
  by_cases hlt : r' < r
  · have := blockStart_mono L n (r' + 1) r (by omega); omega
  · by_cases hgt : r < r'
    · have := blockStart_mono L n (r + 1) r' (by omega); omega
    · omega

/-- no block leaves the dimension -/
theorem block_inside (L n r : Nat) (hn : 1 ≤ n) (hr : r < n) : (rankBlock L n r).1 + (rankBlock L n r).2 ≤ L := by
  have := blockStart_mono L n (r + 1) n (by omega)
  rw [blockStart_last L n hn] at this
  rw [rankBlock_end]
  exact this

theorem inBox_whole_cons (i s : Nat) (is : List Nat) (bs : List (Nat × Nat)) :
    inBox (i :: is) ((0, s) :: bs) = (decide (i < s) && inBox is bs) := by
  simp [inBox]

/-- every element of the variable is compared by some rank -/
theorem every_element_compared (nprocs : Nat) (hn : 1 ≤ nprocs) : ∀ (shape idx : List Nat), inShape idx shape = true →
    ∃ r, r < nprocs ∧ inBox idx (rankBox nprocs r shape) = true := by
  intro shape
  induction shape with
  | nil =>
    intro idx h
    cases idx with
    | nil => exact ⟨0, by omega, rfl⟩
    | cons _ _ => simp [inShape, inBox] at h
  | cons s rest ih =>
    intro idx h
    cases idx with
    | nil => simp [inShape, inBox] at h
    | cons i is =>
      unfold inShape at h
      simp only [List.map_cons, inBox_whole_cons, Bool.and_eq_true, decide_eq_true_eq] at h
      by_cases hs : s ≥ nprocs
      · obtain ⟨r, hr, ⟨h1, h2⟩, _⟩ := partition_covers s nprocs hn i h.1
        refine ⟨r, hr, ?_⟩
        simp only [rankBox, hs, ↓reduceIte]
        cases hb : rankBlock s nprocs r with
        | mk st ct =>
          rw [hb] at h1 h2
          simp only [inBox, Bool.and_eq_true, decide_eq_true_eq]
          exact ⟨⟨h1, h2⟩, h.2⟩
      · obtain ⟨r, hr, hb⟩ := ih is h.2
        refine ⟨r, hr, ?_⟩
        simp only [rankBox, hs, ↓reduceIte, inBox_whole_cons, Bool.and_eq_true, decide_eq_true_eq]
        exact ⟨h.1, hb⟩

/-- no rank looks outside the variable -/
theorem box_inside (nprocs r : Nat) (hn : 1 ≤ nprocs) (hr : r < nprocs) : ∀ (shape idx : List Nat),
    inBox idx (rankBox nprocs r shape) = true → inShape idx shape = true := by
  intro shape
  induction shape with
  | nil => intro idx h; exact h
  | cons s rest ih =>
    intro idx h
    cases idx with
    | nil => simp only [rankBox] at h; split at h <;> simp [inBox] at h
    | cons i is =>
      unfold inShape
      simp only [List.map_cons, inBox_whole_cons, Bool.and_eq_true, decide_eq_true_eq]
      by_cases hs : s ≥ nprocs
      · simp only [rankBox, hs, ↓reduceIte] at h
        cases hb : rankBlock s nprocs r with
        | mk st ct =>
          rw [hb] at h
          simp only [inBox, Bool.and_eq_true, decide_eq_true_eq] at h
          have hin := block_inside s nprocs r hn hr
          rw [hb] at hin
          simp only [] at hin
          exact ⟨by omega, h.2⟩
      · simp only [rankBox, hs, ↓reduceIte, inBox_whole_cons, Bool.and_eq_true, decide_eq_true_eq] at h
        exact ⟨h.1, ih is h.2⟩

/-- the verdict of ncmpidiff on one variable does not depend on the number of processes: some rank finds a
    differing element in its box exactly when the variable has a differing element (`d idx` = "the element with
    multi-index idx differs between the two files") -/
theorem multirank_verdict (nprocs : Nat) (hn : 1 ≤ nprocs) (shape : List Nat) (d : List Nat → Bool) :
    (∃ r, r < nprocs ∧ ∃ idx, inBox idx (rankBox nprocs r shape) = true ∧ d idx = true) ↔
    (∃ idx, inShape idx shape = true ∧ d idx = true) := by
  constructor
  · rintro ⟨r, hr, idx, hb, hd⟩
    exact ⟨idx, box_inside nprocs r hn hr shape idx hb, hd⟩
  · rintro ⟨idx, hs, hd⟩
    obtain ⟨r, hr, hb⟩ := every_element_compared nprocs hn shape idx hs
    exact ⟨r, hr, idx, hb, hd⟩

/-! ### ncoffsets -r -/
open PnVerif.Spec PnVerif.Header

theorem offsetsRecs_get (v : Var) (sh : List Nat) (recsize numrecs r : Nat) (hr : r < numrecs) :
    (offsetsRecs v sh recsize numrecs)[r]? =
      some (v.begin + recsize * r, v.begin + dsizes0 sh * v.xtype.size + recsize * r) := by
  unfold offsetsRecs
  simp [hr]

theorem offsetsRecs_length (v : Var) (sh : List Nat) (recsize numrecs : Nat) :
    (offsetsRecs v sh recsize numrecs).length = numrecs := by
  simp [offsetsRecs]

/-- the packing rule of compute_var_shape / ncmpii_NC_computeshapes: when the record lengths add up to the length of
    the first record variable (exactly one record variable), recsize is its UNPADDED size, else the sum -/
theorem cvsRec_packing (st : CvsState) (fb flen fpacked : Nat) (hf : st.firstRec = some (fb, flen, fpacked))
    (hb : st.beginRec ≤ fb) : cvsRec st = .ok (fb, if st.recsize = flen then fpacked else st.recsize) := by
  unfold cvsRec
  rw [hf]
  simp only []
  have : ¬ st.beginRec > fb := by omega
  rw [if_neg this]

end PnVerif.Tools
