import PnVerif.Lemmas.Access
/-
  is_request_contiguous: if the C function answers "contiguous" for a valid request, the addressed
  elements really form ONE run of consecutive elements in the file (so that replacing the file type
  by a plain offset, as filetype_create_vara does, is correct).
-/
namespace PnVerif.Access

/-- `L` consecutive elements of size `el` starting at byte `b` -/
def consec (b L el : Nat) : List Nat := (List.range L).map (fun j => b + j * el)

theorem consec_append (b L M el : Nat) : consec b (L + M) el = consec b L el ++ consec (b + L * el) M el := by
  unfold consec
  rw [List.range_add, List.map_append, List.map_map]
  congr 1
  apply List.map_congr_left
  intro j _
  simp only [Function.comp]
  rw [Nat.add_mul]; omega

theorem consec_shift (b L el t : Nat) : (consec b L el).map (fun x => t + x) = consec (t + b) L el := by
  unfold consec
  rw [List.map_map]
  apply List.map_congr_left
  intro j _
  simp only [Function.comp]; omega

/-- `c` blocks of `L` consecutive elements, the blocks `L*el` bytes apart, are `c*L` consecutive elements -/
theorem flatMap_consec (b c L el : Nat) :
    (List.range c).flatMap (fun i => consec (b + i * (L * el)) L el) = consec b (c * L) el := by
  induction c with
  | zero => simp [consec]
  | succ c ih =>
    rw [List.range_succ, List.flatMap_append, ih]
    simp only [List.flatMap_cons, List.flatMap_nil, List.append_nil]
    rw [Nat.succ_mul, consec_append]
    congr 2
    rw [Nat.mul_assoc]

/-- outermost-first form of the C scan: a dimension may be partial only if every outer count is 1 -/
def fullDims : List Dim → List Nat → Bool
  | [], [] => true
  | d :: ds, n :: ns => decide (d.c ≥ n) && fullDims ds ns
  | _, _ => false

def contigL : List Dim → List Nat → Bool
  | [], _ => true
  | _, [] => true
  | d :: ds, _ :: ns => if fullDims ds ns then true else decide (d.c ≤ 1) && contigL ds ns

/-- the request respects the shape: 0 < count, start + count ≤ shape, stride 1, and the unit of each
    dimension is el * (product of the inner shape) -/
def validDims (el : Nat) : List Dim → List Nat → Prop
  | [], [] => True
  | d :: ds, n :: ns => 0 < d.c ∧ d.s + d.c ≤ n ∧ d.k = 1 ∧ d.u = el * prod ns ∧ validDims el ds ns
  | _, _ => False

def sumSU : List Dim → Nat
  | [] => 0
  | d :: ds => d.s * d.u + sumSU ds
def prodC : List Dim → Nat
  | [] => 1
  | d :: ds => d.c * prodC ds

theorem full_enum (el : Nat) (ds : List Dim) (ns : List Nat) (hv : validDims el ds ns) (hf : fullDims ds ns = true) :
    enumOff ds = consec 0 (prod ns) el ∧ prodC ds = prod ns ∧ sumSU ds = 0 := by
  induction ds generalizing ns with
  | nil =>
    cases ns with
    | nil => simp [enumOff, consec, prod, prodC, sumSU]
    | cons n ns => simp [validDims] at hv
  | cons d ds ih =>
    cases ns with
    | nil => simp [validDims] at hv
    | cons n ns =>
      obtain ⟨hc, hsc, hk, hu, hrest⟩ := hv
      simp only [fullDims, Bool.and_eq_true, decide_eq_true_eq] at hf
      obtain ⟨hge, hfr⟩ := hf
      have hcn : d.c = n := by omega
      have hs0 : d.s = 0 := by omega
      obtain ⟨ihe, ihp, ihs⟩ := ih ns hrest hfr
      refine ⟨?_, ?_, ?_⟩
      · simp only [enumOff, ihe, hk, hu, hs0, hcn, Nat.zero_add, Nat.mul_one]
        have : (fun i => List.map (fun x => i * (el * prod ns) + x) (consec 0 (prod ns) el))
             = (fun i => consec (0 + i * (prod ns * el)) (prod ns) el) := by
          funext i
          rw [consec_shift, Nat.mul_comm el (prod ns)]
          simp
        rw [this, flatMap_consec]
        rfl
      · simp [prodC, ihp, hcn, prod]
      · simp [sumSU, ihs, hs0]

/-- **soundness of the contiguity test**: whenever the (outermost-first form of the) test says
    "contiguous" for a valid request, the addressed elements are `Π count` consecutive elements
    starting at the offset of `start` -/
theorem contigL_sound (el : Nat) (ds : List Dim) (ns : List Nat) (hv : validDims el ds ns)
    (hc : contigL ds ns = true) : enumOff ds = consec (sumSU ds) (prodC ds) el := by
  induction ds generalizing ns with
  | nil => simp [enumOff, consec, sumSU, prodC]
  | cons d ds ih =>
    cases ns with
    | nil => simp [validDims] at hv
    | cons n ns =>
      obtain ⟨hcpos, hsc, hk, hu, hrest⟩ := hv
      simp only [contigL] at hc
      by_cases hf : fullDims ds ns = true
      · -- all inner dimensions are taken whole: c blocks of (prod ns) elements, one block apart
        obtain ⟨ihe, ihp, ihs⟩ := full_enum el ds ns hrest hf
        simp only [enumOff, ihe, hk, hu, Nat.mul_one, sumSU, prodC, ihp, ihs, Nat.add_zero]
        have : (fun i => List.map (fun x => (d.s + i) * (el * prod ns) + x) (consec 0 (prod ns) el))
             = (fun i => consec (d.s * (el * prod ns) + i * (prod ns * el)) (prod ns) el) := by
          funext i
          rw [consec_shift, Nat.mul_comm el (prod ns), Nat.add_mul]
          simp
        rw [this, flatMap_consec]
      · simp only [hf, Bool.false_eq_true, ↓reduceIte, Bool.and_eq_true, decide_eq_true_eq] at hc
        obtain ⟨hc1, hcr⟩ := hc
        have hd1 : d.c = 1 := by omega
        have ihe := ih ns hrest hcr
        simp only [enumOff, hd1, List.range_one, List.flatMap_cons, List.flatMap_nil, List.append_nil, hk,
          Nat.zero_mul, Nat.add_zero, ihe, sumSU, prodC, Nat.one_mul]
        rw [consec_shift]

end PnVerif.Access

namespace PnVerif.Access

def partialIn (xs : List (Nat × Nat)) : Bool := xs.any (fun p => decide (p.2 < p.1))

theorem contigScan_append_full (xs : List (Nat × Nat)) (p : Nat × Nat) (h : partialIn xs = false) :
    contigScan (xs ++ [p]) = true := by
  induction xs with
  | nil => rfl
  | cons x rest ih =>
    obtain ⟨n, c⟩ := x
    simp only [partialIn, List.any_cons, Bool.or_eq_false_iff, decide_eq_false_iff_not] at h
    obtain ⟨hx, hr⟩ := h
    cases rest with
    | nil => simp [contigScan, hx]
    | cons y ys =>
      simp only [List.cons_append, contigScan, hx, ↓reduceIte]
      exact ih (by simpa [partialIn] using hr)

theorem contigScan_append_partial (xs : List (Nat × Nat)) (p : Nat × Nat) (h : partialIn xs = true) :
    contigScan (xs ++ [p]) = (decide (p.2 ≤ 1) && contigScan xs) := by
  induction xs with
  | nil => simp [partialIn] at h
  | cons x rest ih =>
    obtain ⟨n, c⟩ := x
    by_cases hx : c < n
    · cases rest with
      | nil => simp [contigScan, hx]
      | cons y ys =>
        simp only [List.cons_append, contigScan, hx, ↓reduceIte, List.all_append, List.all_cons, List.all_nil,
          Bool.and_true]
        cases (ys.all fun d => decide (d.snd ≤ 1)) <;> cases decide (p.snd ≤ 1) <;> cases decide (y.snd ≤ 1) <;> rfl
    · have hr : partialIn rest = true := by
        simp only [partialIn, List.any_cons, Bool.or_eq_true, decide_eq_true_eq] at h
        rcases h with h | h
        · exact absurd h hx
        · simpa [partialIn] using h
      cases rest with
      | nil => simp [partialIn] at hr
      | cons y ys =>
        have := ih hr
        simp only [List.cons_append] at this ⊢
        simp only [contigScan, hx, ↓reduceIte]
        exact this

/-- (shape, count) pairs of a request, outermost first -/
def pairsOf : List Dim → List Nat → List (Nat × Nat)
  | d :: ds, n :: ns => (n, d.c) :: pairsOf ds ns
  | _, _ => []

theorem fullDims_iff_noPartial (ds : List Dim) (ns : List Nat) (hl : ds.length = ns.length) :
    fullDims ds ns = !partialIn (pairsOf ds ns).reverse := by
  induction ds generalizing ns with
  | nil => cases ns <;> simp_all [fullDims, pairsOf, partialIn]
  | cons d ds ih =>
    cases ns with
    | nil => simp at hl
    | cons n ns =>
      simp only [List.length_cons, Nat.add_right_cancel_iff] at hl
      simp only [fullDims, pairsOf, List.reverse_cons, partialIn, List.any_append, List.any_cons, List.any_nil,
        Bool.or_false, Bool.not_or]
      rw [ih ns hl]
      simp only [partialIn]
      rw [Bool.and_comm]
      congr 1
      by_cases h : d.c < n <;> simp [h] <;> omega

/-- the C scan (innermost dimension first, most significant dimension exempt) is the outermost-first
    predicate used in the soundness proof -/
theorem contigScan_eq_contigL (ds : List Dim) (ns : List Nat) (hl : ds.length = ns.length) :
    contigScan (pairsOf ds ns).reverse = contigL ds ns := by
  induction ds generalizing ns with
  | nil => cases ns <;> simp [pairsOf, contigScan, contigL]
  | cons d ds ih =>
    cases ns with
    | nil => simp at hl
    | cons n ns =>
      simp only [List.length_cons, Nat.add_right_cancel_iff] at hl
      simp only [pairsOf, List.reverse_cons, contigL]
      have hf := fullDims_iff_noPartial ds ns hl
      by_cases hp : partialIn (pairsOf ds ns).reverse = true
      · rw [contigScan_append_partial _ _ hp, ih ns hl]
        simp [hf, hp]
      · have hp' : partialIn (pairsOf ds ns).reverse = false := by simpa using hp
        rw [contigScan_append_full _ _ hp']
        simp [hf, hp']

end PnVerif.Access

namespace PnVerif.Access

/-- a request inside the shape with non-zero counts (what check_start_count_stride accepted, C15) -/
def validReq : List Nat → List Nat → List Nat → Prop
  | [], [], [] => True
  | n :: ns, s :: ss, c :: cs => 0 < c ∧ s + c ≤ n ∧ validReq ns ss cs
  | _, _, _ => False

def ones (n : Nat) : List Nat := List.replicate n 1

theorem zip_bridge (el : Nat) (ns s c : List Nat) (hv : validReq ns s c) :
    let ds := zipDims s c (ones ns.length) (unitsFixed el ns)
    validDims el ds ns ∧ pairsOf ds ns = ns.zip c ∧ sumSU ds = dot (unitsFixed el ns) s ∧ prodC ds = prod c
      ∧ ds.length = ns.length ∧ s.length = ns.length ∧ c.length = ns.length ∧ c.any (· = 0) = false := by
  induction ns generalizing s c with
  | nil =>
    cases s <;> cases c <;> simp_all [validReq, zipDims, ones, unitsFixed, validDims, pairsOf, sumSU, dot, prodC, prod]
  | cons n ns ih =>
    cases s with
    | nil => simp [validReq] at hv
    | cons s0 ss =>
    cases c with
    | nil => simp [validReq] at hv
    | cons c0 cs =>
      obtain ⟨hc, hsc, hr⟩ := hv
      have := ih ss cs hr
      simp only at this
      obtain ⟨h1, h2, h3, h4, h5, h6, h7, h8⟩ := this
      simp only [ones] at h1 h2 h3 h4 h5
      simp only [List.length_cons, ones, List.replicate_succ, unitsFixed, zipDims]
      refine ⟨⟨hc, hsc, rfl, rfl, h1⟩, ?_, ?_, ?_, ?_, ?_, ?_, ?_⟩
      · simp [pairsOf, h2]
      · simp [sumSU, dot, h3]
      · simp [prodC, prod, h4]
      · simp [h5]
      · simp [h6]
      · simp [h7]
      · simp only [List.any_cons, h8, Bool.or_false, decide_eq_false_iff_not]; omega

end PnVerif.Access
