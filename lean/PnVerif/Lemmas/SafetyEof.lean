import PnVerif.Lemmas.SafetyStrict
import PnVerif.Lemmas.SafetyWork
/-
  Lemmas/SafetyEof.lean — the reader of a tree that carries the F14 repair (Model/Safety.lean §6):
  conservative, equal to the reader as it stands on complete headers, independent of the read chunk
  size, and — the point of the repair — never fetching more than one chunk beyond the file.
-/
namespace PnVerif.Safety
open PnVerif.Spec PnVerif.Header

/-! ### the flat reader with the end-of-file test -/

/-- what it accepts, the zero-extending reader accepts with the same result -/
theorem runE_ok {α : Type} (p : P α) : ∀ (s : Bytes) (a : α) (s' : Bytes),
    runE p s = .ok (a, s') → run flatR p s = .ok (a, s') ∧ inBounds p s = true := by
  induction p with
  | ret a => intro s a' s' h; exact ⟨h, rfl⟩
  | fail e => intro s a' s' h; simp [runE] at h
  | u32 k ih =>
    intro s a s' h
    simp only [runE] at h
    split at h
    · cases h
    · rename_i hl
      obtain ⟨h1, h2⟩ := ih _ _ _ _ h
      exact ⟨h1, by simp only [inBounds, h2, Bool.and_true, decide_eq_true_eq]; omega⟩
  | u64 k ih =>
    intro s a s' h
    simp only [runE] at h
    split at h
    · cases h
    · rename_i hl
      obtain ⟨h1, h2⟩ := ih _ _ _ _ h
      exact ⟨h1, by simp only [inBounds, h2, Bool.and_true, decide_eq_true_eq]; omega⟩
  | bytes n k ih =>
    intro s a s' h
    simp only [runE] at h
    split at h
    · cases h
    · rename_i hl
      obtain ⟨h1, h2⟩ := ih _ _ _ _ h
      exact ⟨h1, by simp only [inBounds, h2, Bool.and_true, decide_eq_true_eq]; omega⟩
  | pad q k ih =>
    intro s a s' h
    simp only [runE] at h
    split at h
    · cases h
    · rename_i hl
      obtain ⟨h1, h2⟩ := ih _ _ _ h
      exact ⟨h1, by simp only [inBounds, h2, Bool.and_true, decide_eq_true_eq]; omega⟩

/-- on a run that stays inside the file the two readers are the same -/
theorem runE_of_inBounds {α : Type} (p : P α) : ∀ (s : Bytes), inBounds p s = true → runE p s = run flatR p s := by
  induction p with
  | ret a => intro s _; rfl
  | fail e => intro s _; rfl
  | u32 k ih =>
    intro s h
    simp only [inBounds, Bool.and_eq_true, decide_eq_true_eq] at h
    simp only [runE, run, flatR]
    rw [if_neg (by omega)]
    exact ih _ _ h.2
  | u64 k ih =>
    intro s h
    simp only [inBounds, Bool.and_eq_true, decide_eq_true_eq] at h
    simp only [runE, run, flatR]
    rw [if_neg (by omega)]
    exact ih _ _ h.2
  | bytes n k ih =>
    intro s h
    simp only [inBounds, Bool.and_eq_true, decide_eq_true_eq] at h
    simp only [runE, run, flatR]
    rw [if_neg (by omega)]
    exact ih _ _ h.2
  | pad q k ih =>
    intro s h
    simp only [inBounds, Bool.and_eq_true, decide_eq_true_eq] at h
    simp only [runE, run, flatR]
    rw [if_neg (by omega)]
    exact ih _ h.2

/-! ### the window with the end-of-file test -/

/-- the window presents the stream AND its bookkeeping knows where the stream is in the file -/
structure InvE (file : Bytes) (chunk : Nat) (w : Win) (s : Bytes) : Prop where
  inv : Inv file chunk w s
  num : w.off + w.pos + s.length = chunk + file.length

/-- HDR_REMAIN computed from offset / pos / end is the length of the stream that is left -/
theorem hdrRemain_eq {file : Bytes} {chunk : Nat} {w : Win} {s : Bytes} (h : InvE file chunk w s) :
    hdrRemain file chunk w = (s.length : Int) := by
  have := h.num
  have := h.inv.pos
  unfold hdrRemain
  omega

theorem invE_fixed {file : Bytes} {chunk : Nat} {w : Win} {s : Bytes} {k : Nat}
    (h : InvE file chunk w s) (hk : k ≤ chunk) (hav : k ≤ s.length) :
    (getFixedW file chunk k w).1 = ztake k s ∧ InvE file chunk (getFixedW file chunk k w).2 (s.drop k) := by
  obtain ⟨hv, hi⟩ := getFixedW_spec (k := k) h.inv hk
  have hn := getFixedW_num (k := k) h.inv hk
  refine ⟨hv, hi, ?_⟩
  have := h.num
  simp only [List.length_drop]
  omega

theorem invE_bytes {file : Bytes} {chunk : Nat} {w : Win} {s : Bytes} {n : Nat}
    (h : InvE file chunk w s) (hc : 0 < chunk) (hav : n ≤ s.length) :
    (getBytesW file chunk n w []).1 = ztake n s ∧ InvE file chunk (getBytesW file chunk n w []).2 (s.drop n) := by
  obtain ⟨hv, hi⟩ := getBytesW_spec hc n w s [] h.inv
  have hn := getBytesW_num hc n w s [] h.inv
  refine ⟨by rw [hv, List.nil_append], hi, ?_⟩
  have := h.num
  simp only [List.length_drop]
  omega

theorem invE_pad {file : Bytes} {chunk : Nat} {w : Win} {s : Bytes} {k : Nat}
    (h : InvE file chunk w s) (hk : k ≤ chunk) (hav : k ≤ s.length) :
    InvE file chunk (padW file chunk k w) (s.drop k) := by
  have hi := padW_spec (k := k) h.inv hk
  have hn := padW_num (k := k) h.inv hk
  refine ⟨hi, ?_⟩
  have := h.num
  simp only [List.length_drop]
  omega

/-- the window reader with the end-of-file test (computed from its own bookkeeping, as in the C)
    refines the flat reader with the end-of-file test: same value or same error, for EVERY reader
    program, chunk size ≥ 8, file and reachable state -/
theorem runWE_sim {file : Bytes} {chunk : Nat} (hc : 8 ≤ chunk) {α : Type} (p : P α) :
    ∀ (w : Win) (s : Bytes), InvE file chunk w s →
      SimRes file chunk (runWE file chunk p w) (runE p s) := by
  induction p with
  | ret a => intro w s h; exact ⟨rfl, h.inv⟩
  | fail e => intro w s h; rfl
  | u32 k ih =>
    intro w s h
    simp only [runWE, runE, hdrRemain_eq h]
    by_cases hl : s.length < 4
    · rw [if_pos (by omega), if_pos hl]; rfl
    · rw [if_neg (by omega), if_neg hl]
      obtain ⟨hv, hi⟩ := invE_fixed (k := 4) h (by omega) (by omega)
      rw [hv]
      exact ih _ _ _ hi
  | u64 k ih =>
    intro w s h
    simp only [runWE, runE, hdrRemain_eq h]
    by_cases hl : s.length < 8
    · rw [if_pos (by omega), if_pos hl]; rfl
    · rw [if_neg (by omega), if_neg hl]
      obtain ⟨hv, hi⟩ := invE_fixed (k := 8) h (by omega) (by omega)
      rw [hv]
      exact ih _ _ _ hi
  | bytes n k ih =>
    intro w s h
    simp only [runWE, runE, hdrRemain_eq h]
    by_cases hl : s.length < n
    · rw [if_pos (by omega), if_pos hl]; rfl
    · rw [if_neg (by omega), if_neg hl]
      obtain ⟨hv, hi⟩ := invE_bytes (n := n) h (by omega) (by omega)
      rw [hv]
      exact ih _ _ _ hi
  | pad q k ih =>
    intro w s h
    simp only [runWE, runE, hdrRemain_eq h]
    by_cases hl : s.length < q.val
    · rw [if_pos (by omega), if_pos hl]; rfl
    · rw [if_neg (by omega), if_neg hl]
      exact ih _ _ (invE_pad (k := q.val) h (by have := q.isLt; omega) (by omega))

/-- wherever a run with the end-of-file test stops, the window still satisfies its invariant: in
    particular offset ≤ chunk + file size -/
theorem endWinE_inv {file : Bytes} {chunk : Nat} (hc : 8 ≤ chunk) {α : Type} (p : P α) :
    ∀ (w : Win) (s : Bytes), InvE file chunk w s → ∃ s', InvE file chunk (endWinE file chunk p w) s' := by
  induction p with
  | ret a => intro w s h; exact ⟨s, h⟩
  | fail e => intro w s h; exact ⟨s, h⟩
  | u32 k ih =>
    intro w s h
    simp only [endWinE, hdrRemain_eq h]
    by_cases hl : s.length < 4
    · rw [if_pos (by omega)]; exact ⟨s, h⟩
    · rw [if_neg (by omega)]
      exact ih _ _ _ (invE_fixed (k := 4) h (by omega) (by omega)).2
  | u64 k ih =>
    intro w s h
    simp only [endWinE, hdrRemain_eq h]
    by_cases hl : s.length < 8
    · rw [if_pos (by omega)]; exact ⟨s, h⟩
    · rw [if_neg (by omega)]
      exact ih _ _ _ (invE_fixed (k := 8) h (by omega) (by omega)).2
  | bytes n k ih =>
    intro w s h
    simp only [endWinE, hdrRemain_eq h]
    by_cases hl : s.length < n
    · rw [if_pos (by omega)]; exact ⟨s, h⟩
    · rw [if_neg (by omega)]
      exact ih _ _ _ (invE_bytes (n := n) h (by omega) (by omega)).2
  | pad q k ih =>
    intro w s h
    simp only [endWinE, hdrRemain_eq h]
    by_cases hl : s.length < q.val
    · rw [if_pos (by omega)]; exact ⟨s, h⟩
    · rw [if_neg (by omega)]
      exact ih _ _ (invE_pad (k := q.val) h (by have := q.isLt; omega) (by omega))

/-- a file whose magic is accepted has at least the 4 magic bytes -/
theorem magic_length {file : Bytes} {f : Fmt} (h : checkMagic (ztake 12 file) = .ok f) : 4 ≤ file.length := by
  apply Classical.byContradiction
  intro hlt
  have hlt : file.length ≤ 3 := by omega
  have hv : ((ztake 12 file).drop 3).take 1 = [0] := by
    rw [drop_ztake (by omega : 3 ≤ 12), List.drop_of_length_le hlt, ztake_nil]; rfl
  unfold checkMagic at h
  split at h
  · split at h <;> cases h
  · simp only [hv] at h
    simp at h

/-- the state after the first fetch and the magic satisfies the invariant -/
theorem invE_init (file : Bytes) (c : Nat) (h4 : 4 ≤ file.length) :
    InvE file (chunkOf c) { buf := ztake (chunkOf c) file, pos := 4, off := chunkOf c } (file.drop 4) := by
  have hc := chunkOf_ge c
  have h0 := fetch_init file (chunkOf c) (zeros (chunkOf c))
  rw [fetch_init_eq] at h0
  have hi := (advance_inv (k := 4) h0 (by show 0 + 4 ≤ chunkOf c; omega)).2
  refine ⟨hi, ?_⟩
  simp only [List.length_drop]
  omega

end PnVerif.Safety
