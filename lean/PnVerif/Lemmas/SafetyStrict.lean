import PnVerif.Model.Safety
import PnVerif.Lemmas.Decode
import PnVerif.Lemmas.PostPass
import PnVerif.Lemmas.SafetyWf
import PnVerif.Lemmas.Window
/-
  Lemmas/SafetyStrict.lean — the reader of a tree that carries the int63 repair (Model/Safety.lean §5)
  against the reader as it stands:
    * `strict = false` IS the reader as it stands;
    * `strict = true` is CONSERVATIVE: whatever it accepts, the reader as it stands accepts with the
      same result (so every theorem about accepted headers carries over), and it only ever adds the
      error NC_ENOTNC;
    * the two agree on every header whose 64-bit fields and begin + len stay below 2^63.
-/
namespace PnVerif.Safety
open PnVerif.Spec PnVerif.Header

/-- `p` refines `q`: every successful run of `p` is a successful run of `q` with the same result -/
def Refines {α : Type} (p q : P α) : Prop :=
  ∀ {σ : Type} (r : Reader σ) (s : σ) (a : α) (s' : σ), run r p s = .ok (a, s') → run r q s = .ok (a, s')

theorem refines_refl {α : Type} (p : P α) : Refines p p := fun _ _ _ _ h => h

theorem refines_bind {α β : Type} {p q : P α} {f g : α → P β}
    (hp : Refines p q) (hf : ∀ a, Refines (f a) (g a)) : Refines (p >>= f) (q >>= g) := by
  intro σ r s b s' hr
  rw [bind_def, run_bind] at hr
  rw [bind_def, run_bind]
  split at hr
  · rename_i a s1 h1
    rw [hp r s a s1 h1]
    exact hf a r s1 b s' hr
  · contradiction

theorem refines_guard {α : Type} {c : Prop} [Decidable c] {e : Err} {p q : P α} (h : Refines p q) :
    Refines (if c then .fail e else p) q := by
  intro σ r s a s' hr
  split at hr
  · simp [run] at hr
  · exact h r s a s' hr

theorem refines_ite {α : Type} {c : Prop} [Decidable c] {p p' q q' : P α} (h1 : Refines p q) (h2 : Refines p' q') :
    Refines (if c then p else p') (if c then q else q') := by
  split
  · exact h1
  · exact h2

theorem refines_getN {α : Type} {p q : P α} (h : Refines p q) : ∀ n, Refines (getN p n) (getN q n) := by
  intro n
  induction n with
  | zero => exact refines_refl _
  | succ n ih =>
    simp only [getN]
    exact refines_bind h (fun x => refines_bind ih (fun xs => refines_refl _))

theorem refines_getArray {α : Type} {ver tag maxN : Nat} {e : Err} {f g : Nat → P (List α)}
    (h : ∀ n, Refines (f n) (g n)) : Refines (getArray ver tag maxN e f) (getArray ver tag maxN e g) := by
  unfold getArray
  refine refines_bind (refines_refl _) (fun t => refines_bind (refines_refl _) (fun n => ?_))
  refine refines_ite (refines_refl _) (refines_ite (refines_refl _) (refines_ite (refines_refl _) (h n)))

theorem getDimS_refines (st : Bool) (ver : Nat) (hu : Bool) : Refines (getDimS st ver hu) (getDim ver hu) := by
  unfold getDimS getDim
  exact refines_bind (refines_refl _) (fun nm => refines_bind (refines_refl _) (fun l => refines_guard (refines_refl _)))

theorem getDimsS_refines (st : Bool) (ver : Nat) : ∀ n hu, Refines (getDimsS st ver n hu) (getDims ver n hu) := by
  intro n
  induction n with
  | zero => intro hu; exact refines_refl _
  | succ n ih =>
    intro hu
    simp only [getDimsS, getDims]
    exact refines_bind (getDimS_refines st ver hu) (fun d => refines_bind (ih _) (fun ds => refines_refl _))

theorem getAttrS_refines (st : Bool) (ver : Nat) : Refines (getAttrS st ver) (getAttr ver) := by
  unfold getAttrS getAttr
  exact refines_bind (refines_refl _) (fun nm => refines_bind (refines_refl _) (fun t =>
    refines_bind (refines_refl _) (fun n => refines_guard (refines_refl _))))

theorem getAttrArrayS_refines (st : Bool) (ver : Nat) : Refines (getAttrArrayS st ver) (getAttrArray ver) := by
  unfold getAttrArrayS getAttrArray
  exact refines_getArray (fun n => refines_getN (getAttrS_refines st ver) n)

theorem getVarS_refines (st : Bool) (ver nd : Nat) : Refines (getVarS st ver nd) (getVar ver nd) := by
  unfold getVarS getVar
  refine refines_bind (refines_refl _) (fun nm => refines_bind (refines_refl _) (fun ndims => ?_))
  refine refines_ite (refines_refl _) ?_
  refine refines_bind (refines_refl _) (fun ids => refines_bind (getAttrArrayS_refines st ver) (fun as => ?_))
  exact refines_bind (refines_refl _) (fun t => refines_bind (refines_refl _) (fun vs =>
    refines_bind (refines_refl _) (fun b => refines_guard (refines_refl _))))

theorem getBodyS_refines (st : Bool) (f : Fmt) : Refines (getBodyS st f) (getBody f) := by
  unfold getBodyS getBody
  simp only []
  refine refines_bind (refines_refl _) (fun nr => ?_)
  refine refines_guard ?_
  refine refines_bind ?_ (fun ds => refines_bind (getAttrArrayS_refines st _) (fun gs => refines_bind ?_ (fun vs => refines_refl _)))
  · unfold getDimArrayS getDimArray
    exact refines_getArray (fun n => getDimsS_refines st _ n false)
  · unfold getVarArrayS getVarArray
    exact refines_getArray (fun n => refines_getN (getVarS_refines st _ _) n)

/-! ### `strict = false` is the reader as it stands -/

theorem getDimS_false (ver : Nat) (hu : Bool) : getDimS false ver hu = getDim ver hu := by
  unfold getDimS getDim; simp

theorem getDimsS_false (ver : Nat) : ∀ n hu, getDimsS false ver n hu = getDims ver n hu := by
  intro n
  induction n with
  | zero => intro hu; rfl
  | succ n ih => intro hu; simp only [getDimsS, getDims, getDimS_false, ih]

theorem getAttrS_false (ver : Nat) : getAttrS false ver = getAttr ver := by
  unfold getAttrS getAttr; simp

theorem getAttrArrayS_false (ver : Nat) : getAttrArrayS false ver = getAttrArray ver := by
  unfold getAttrArrayS getAttrArray; rw [getAttrS_false]

theorem getVarS_false (ver nd : Nat) : getVarS false ver nd = getVar ver nd := by
  unfold getVarS getVar; simp [getAttrArrayS_false]

theorem getBodyS_false (f : Fmt) : getBodyS false f = getBody f := by
  unfold getBodyS getBody getDimArrayS getDimArray getVarArrayS getVarArray
  simp [getAttrArrayS_false, getVarS_false, getDimsS_false]

theorem cvsLoopS_false (dims : List Dim) : ∀ vs st, cvsLoopS false dims vs st = cvsLoop dims vs st := by
  intro vs
  induction vs with
  | nil => intro st; rfl
  | cons v vs ih =>
    intro st
    simp only [cvsLoopS, cvsLoop]
    cases varShape64 dims v with
    | error e => rfl
    | ok r =>
      obtain ⟨shape, len⟩ := r
      obtain ⟨br, rs, fv, fr, sh, ln⟩ := st
      simp only [Bool.false_eq_true, false_and, if_false, ih]
      cases fr <;> cases fv <;> rfl

theorem postPassS_false (h : Hdr) : postPassS false h = postPass h := by
  unfold postPassS postPass computeVarShapeS computeVarShape
  simp only [cvsLoopS_false]
  rfl

theorem decodeWholeS_false (file : Bytes) : decodeWholeS false file = decodeWhole file := by
  unfold decodeWholeS decodeWhole
  simp only [getBodyS_false, postPassS_false]
  rfl

/-! ### `strict = true` is conservative -/

theorem cvsLoopS_ok (st : Bool) (dims : List Dim) : ∀ vs s s', cvsLoopS st dims vs s = .ok s' → cvsLoop dims vs s = .ok s' := by
  intro vs
  induction vs with
  | nil => intro s s' h; exact h
  | cons v vs ih =>
    intro s s' h
    simp only [cvsLoopS] at h
    simp only [cvsLoop]
    split at h
    · contradiction
    · rename_i shape len hsl
      rw [hsl]
      simp only []
      split at h
      · contradiction
      · split at h
        · rename_i hrec; simp only [hrec, if_true]; exact ih _ _ h
        · rename_i hrec; simp only [hrec, if_false]; exact ih _ _ h

theorem postPassS_ok (st : Bool) (h : Hdr) (info : Info) (hp : postPassS st h = .ok info) : postPass h = .ok info := by
  unfold postPassS computeVarShapeS at hp
  unfold postPass computeVarShape
  by_cases h0 : h.vars.length = 0
  · simp only [h0, if_true] at hp ⊢
    exact hp
  · simp only [h0, if_false] at hp ⊢
    cases hc : cvsLoopS st h.dims h.vars { beginRec := h.len, recsize := 0, firstVar := none, firstRec := none, shapes := [], lens := [] } with
    | error e => rw [hc] at hp; cases hp
    | ok s' =>
      rw [hc] at hp
      rw [cvsLoopS_ok st _ _ _ _ hc]
      exact hp

/-- Whatever the repaired reader accepts, the reader as it stands accepts with the same header and
    the same derived layout. -/
theorem decodeWholeS_ok (st : Bool) (file : Bytes) (h : Hdr) (info : Info)
    (hd : decodeWholeS st file = .ok (h, info)) : decodeWhole file = .ok (h, info) := by
  unfold decodeWholeS at hd
  unfold decodeWhole
  cases hm : checkMagic (ztake 12 file) with
  | error e => rw [hm] at hd; cases hd
  | ok f =>
    rw [hm] at hd
    simp only [] at hd ⊢
    cases hr : run flatR (getBodyS st f) (file.drop 4) with
    | error e => rw [hr] at hd; cases hd
    | ok r =>
      obtain ⟨h', s'⟩ := r
      rw [hr] at hd
      rw [getBodyS_refines st f flatR _ _ _ hr]
      simp only [] at hd ⊢
      cases hp : postPassS st h' with
      | error e => rw [hp] at hd; cases hd
      | ok info' =>
        rw [hp] at hd
        rw [postPassS_ok st h' info' hp]
        exact hd

/-! ### what the repaired reader guarantees in addition: every quantity the C computes with fits int64 -/

theorem post_getDimS (ver : Nat) (hu : Bool) : Post (getDimS true ver hu) (fun d => d.size ≤ X_INT64_MAX) := by
  unfold getDimS
  refine post_bind (post_true _) (fun nm _ => post_bind (post_true _) (fun l _ => ?_))
  refine post_ite (fun hn => post_ite (fun _ => post_ret ?_))
  simp only [true_and, Nat.not_lt] at hn
  exact hn

theorem post_getDimsS (ver : Nat) : ∀ n hu, Post (getDimsS true ver n hu) (fun ds => ∀ d ∈ ds, d.size ≤ X_INT64_MAX) := by
  intro n
  induction n with
  | zero => intro hu; refine post_ret ?_; intro d hd; simp at hd
  | succ n ih =>
    intro hu
    simp only [getDimsS]
    refine post_bind (post_getDimS ver hu) (fun d hd => post_bind (ih _) (fun ds hds => post_ret ?_))
    intro x hx
    rcases List.mem_cons.mp hx with rfl | hx'
    · exact hd
    · exact hds x hx'

theorem post_getVarS (ver nd : Nat) : Post (getVarS true ver nd) (fun v => v.begin ≤ X_INT64_MAX) := by
  unfold getVarS
  refine post_bind (post_true _) (fun nm _ => post_bind (post_true _) (fun ndims _ => post_ite (fun _ => ?_)))
  refine post_bind (post_true _) (fun ids _ => post_bind (post_true _) (fun as _ => post_bind (post_true _) (fun t _ => ?_)))
  refine post_bind (post_true _) (fun vs _ => post_bind (post_true _) (fun b _ => post_ite (fun hn => post_ret ?_)))
  simp only [true_and, Nat.not_lt] at hn
  exact hn

/-- the header the repaired reader returns: numrecs, every dimension length and every begin are
    non-negative int64 values -/
theorem post_getBodyS (f : Fmt) : Post (getBodyS true f)
    (fun h => h.numrecs ≤ X_INT64_MAX ∧ (∀ d ∈ h.dims, d.size ≤ X_INT64_MAX) ∧ (∀ v ∈ h.vars, v.begin ≤ X_INT64_MAX)) := by
  unfold getBodyS
  simp only []
  refine post_bind (post_true _) (fun nr _ => post_ite (fun hn => ?_))
  simp only [true_and, Nat.not_lt] at hn
  have hd : Post (getDimArrayS true f.version) (fun ds => ∀ d ∈ ds, d.size ≤ X_INT64_MAX) := by
    unfold getDimArrayS
    exact post_getArray (fun d hd => by simp at hd) (fun n _ => post_getDimsS _ n false)
  have hv : ∀ nd, Post (getVarArrayS true f.version nd) (fun vs => ∀ v ∈ vs, v.begin ≤ X_INT64_MAX) := by
    intro nd
    unfold getVarArrayS
    exact post_getArray (fun v hv => by simp at hv) (fun n _ => post_mono (post_getN (post_getVarS _ nd) n) (fun xs h => h.1))
  refine post_bind hd (fun ds hds => post_bind (post_true _) (fun gs _ => post_bind (hv _) (fun vs hvs => post_ret ?_)))
  exact ⟨hn, hds, hvs⟩

/-- compute_var_shape of the repaired tree: begin + (length the format prescribes) fits int64 for
    every variable -/
theorem cvsLoopS_fits (d : Schema) : ∀ vs s s', cvsLoopS true d.dims vs s = .ok s' →
    ∀ v ∈ vs, v.begin + d.varLen v ≤ X_INT64_MAX := by
  intro vs
  induction vs with
  | nil => intro s s' _ v hv; simp at hv
  | cons a t ih =>
    intro s s' h v hv
    simp only [cvsLoopS] at h
    split at h
    · contradiction
    · rename_i shape len hsl
      have hl := varShape64_spec d a shape len hsl
      split at h
      · contradiction
      · rename_i hn
        simp only [true_and, Nat.not_lt] at hn
        rcases List.mem_cons.mp hv with rfl | hv'
        · rw [← hl]; exact hn
        · split at h
          · exact ih _ _ h v hv'
          · exact ih _ _ h v hv'

theorem postPassS_fits (d : Schema) (info : Info) (hp : postPassS true d = .ok info) :
    ∀ v ∈ d.vars, v.begin + d.varLen v ≤ X_INT64_MAX := by
  unfold postPassS computeVarShapeS at hp
  by_cases h0 : d.vars.length = 0
  · intro v hv
    rw [List.eq_nil_of_length_eq_zero h0] at hv; simp at hv
  · simp only [h0, if_false] at hp
    cases hc : cvsLoopS true d.dims d.vars { beginRec := Hdr.len d, recsize := 0, firstVar := none, firstRec := none, shapes := [], lens := [] } with
    | error e => rw [hc] at hp; cases hp
    | ok s' => exact cvsLoopS_fits d _ _ _ hc

/-- the chunked reader of the repaired tree = its whole-file reader (same proof as C04.chunk_independent:
    the window refinement holds for every reader program) -/
theorem chunk_independent_S (st : Bool) (c : Nat) (file : Bytes) : decodeChunkedS st c file = decodeWholeS st file := by
  unfold decodeChunkedS decodeWholeS
  have hc := chunkOf_ge c
  have h0 := fetch_init file (chunkOf c) (zeros (chunkOf c))
  rw [fetch_init_eq] at h0
  simp only [fetch_init_eq]
  simp only [take_ztake (show 12 ≤ chunkOf c by omega)]
  cases hm : checkMagic (ztake 12 file) with
  | error e => rfl
  | ok f =>
    simp only []
    have h4 := (advance_inv (k := 4) h0 (by show 0 + 4 ≤ chunkOf c; omega)).2
    have hsim := run_sim (file := file) (chunk := chunkOf c) (by omega) (getBodyS st f) _ _ h4
    simp only [Nat.zero_add] at hsim
    revert hsim
    generalize run (winR file (chunkOf c)) (getBodyS st f) _ = x
    generalize run flatR (getBodyS st f) (List.drop 4 file) = y
    intro hsim
    match x, y, hsim with
    | .ok (a, w), .ok (b, s), ⟨hab, _⟩ => subst hab; rfl
    | .error e, .error f', hef => cases hef; rfl

end PnVerif.Safety
