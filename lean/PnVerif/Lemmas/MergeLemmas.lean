import PnVerif.Model.Merge
/-
  Helper lemmas about Model/Merge.lean (sort, merge loop, coalescing passes).
  The property-level statements are in Props/C02.lean.
-/
namespace PnVerif.Merge

/-- sorted by offset -/
def Sorted (l : List Seg) : Prop := List.Pairwise (fun a b => a.off ≤ b.off) l
/-- every segment has positive length (zero-length requests are never queued) -/
def Pos (l : List Seg) : Prop := ∀ s ∈ l, 0 < s.len
/-- sorted and pairwise non-overlapping: each segment ends before the next one starts -/
def Disj (l : List Seg) : Prop := List.Pairwise (fun a b => a.off + a.len ≤ b.off) l
/-- pairwise non-overlapping in any order -/
def SymDisj (l : List Seg) : Prop :=
  List.Pairwise (fun a b => a.off + a.len ≤ b.off ∨ b.off + b.len ≤ a.off) l

/-! ### sort -/

theorem ins_perm (s : Seg) (l : List Seg) : (ins s l).Perm (s :: l) := by
  induction l with
  | nil => simp [ins]
  | cons t ts ih =>
    unfold ins
    split
    · exact List.Perm.refl _
    · exact (List.Perm.cons t ih).trans (List.Perm.swap s t ts)

theorem sortSegs_perm (l : List Seg) : (sortSegs l).Perm l := by
  induction l with
  | nil => simp [sortSegs]
  | cons s rest ih =>
    unfold sortSegs
    exact (ins_perm s _).trans (List.Perm.cons s ih)

theorem ins_sorted (s : Seg) (l : List Seg) (h : Sorted l) : Sorted (ins s l) := by
  induction l with
  | nil => simp [ins, Sorted]
  | cons t ts ih =>
    unfold ins
    have ht := List.pairwise_cons.mp h
    split
    · rename_i hle
      refine List.pairwise_cons.mpr ⟨?_, h⟩
      intro x hx
      rcases List.mem_cons.mp hx with rfl | hx
      · exact hle
      · exact Int.le_trans hle (ht.1 x hx)
    · rename_i hgt
      refine List.pairwise_cons.mpr ⟨?_, ih ht.2⟩
      intro x hx
      have := (ins_perm s ts).mem_iff.mp hx
      rcases List.mem_cons.mp this with rfl | hx
      · omega
      · exact ht.1 x hx

theorem sortSegs_sorted (l : List Seg) : Sorted (sortSegs l) := by
  induction l with
  | nil => simp [sortSegs, Sorted]
  | cons s rest ih => unfold sortSegs; exact ins_sorted s _ ih

theorem isSorted_sorted (l : List Seg) (h : isSorted l = true) : Sorted l := by
  induction l with
  | nil => simp [Sorted]
  | cons a rest ih =>
    cases rest with
    | nil => simp [Sorted]
    | cons b rest2 =>
      unfold isSorted at h
      split at h
      · exact absurd h (by simp)
      · rename_i hle
        have hs := ih h
        refine List.pairwise_cons.mpr ⟨?_, hs⟩
        intro x hx
        have hb := List.pairwise_cons.mp hs
        rcases List.mem_cons.mp hx with rfl | hx
        · omega
        · have := hb.1 x hx; omega

theorem sortStep_perm (l : List Seg) : (sortStep l).Perm l := by
  unfold sortStep; split
  · exact List.Perm.refl _
  · exact sortSegs_perm l

theorem sortStep_sorted (l : List Seg) : Sorted (sortStep l) := by
  unfold sortStep; split
  · rename_i h; exact isSorted_sorted l h
  · exact sortSegs_sorted l

/-! ### lookup -/

theorem lookup_none_of_lt (l : List Seg) (b : Int) (h : ∀ s ∈ l, b < s.off) : lookup l b = none := by
  induction l with
  | nil => rfl
  | cons s rest ih =>
    have hs := h s (List.mem_cons_self)
    have : s.has b = false := by simp [Seg.has]; omega
    simp [lookup, this]
    exact ih (fun x hx => h x (List.mem_cons_of_mem _ hx))

/-! ### merge loop -/

/-- every emitted segment starts at or after `cur.off`, has positive length, and the output is
    sorted and pairwise non-overlapping -/
theorem mergeGo_out (rest : List Seg) : ∀ (cur : Seg), 0 < cur.len → Pos rest →
    (∀ t ∈ mergeGo cur rest, 0 < t.len ∧ cur.off ≤ t.off) ∧ Disj (mergeGo cur rest) := by
  induction rest with
  | nil =>
    intro cur hc _
    simp [mergeGo, Disj]; exact hc
  | cons s rest ih =>
    intro cur hc hp
    have hs : 0 < s.len := hp s List.mem_cons_self
    have hp' : Pos rest := fun x hx => hp x (List.mem_cons_of_mem _ hx)
    unfold mergeGo
    split
    · exact ih cur hc hp'
    · rename_i hnc
      simp only
      split
      · rename_i hgap
        split
        · rename_i hb
          have := ih { cur with len := cur.len + (s.len - (cur.off + cur.len - s.off)) } (by simp; omega) hp'
          exact this
        · rename_i hb
          have h2 := ih ⟨s.off + (cur.off + cur.len - s.off), s.len - (cur.off + cur.len - s.off),
                         s.buf + (cur.off + cur.len - s.off)⟩ (by simp; omega) hp'
          constructor
          · intro t ht
            rcases List.mem_cons.mp ht with rfl | ht
            · exact ⟨hc, Int.le_refl _⟩
            · have := h2.1 t ht; simp at this; constructor <;> omega
          · refine List.pairwise_cons.mpr ⟨?_, h2.2⟩
            intro t ht
            have := h2.1 t ht; simp at this; omega
      · rename_i hgap
        have h2 := ih s hs hp'
        constructor
        · intro t ht
          rcases List.mem_cons.mp ht with rfl | ht
          · exact ⟨hc, Int.le_refl _⟩
          · have := h2.1 t ht; constructor <;> omega
        · refine List.pairwise_cons.mpr ⟨?_, h2.2⟩
          intro t ht
          have := h2.1 t ht; omega

theorem mergeGo_lookup_below (rest : List Seg) (cur : Seg) (hc : 0 < cur.len) (hp : Pos rest)
    (b : Int) (hb : b < cur.off) : lookup (mergeGo cur rest) b = none :=
  lookup_none_of_lt _ b (fun t ht => by have := (mergeGo_out rest cur hc hp).1 t ht; omega)

/-- for every file byte at or after `cur.off` the merge output gives the answer of the first
    containing segment of `cur :: rest` -/
theorem mergeGo_lookup (rest : List Seg) : ∀ (cur : Seg), 0 < cur.len → Pos rest → Sorted rest →
    ∀ b, cur.off ≤ b → lookup (mergeGo cur rest) b = lookup (cur :: rest) b := by
  induction rest with
  | nil => intro cur _ _ _ b _; simp [mergeGo]
  | cons s rest ih =>
    intro cur hc hp hso b hb
    have hs : 0 < s.len := hp s List.mem_cons_self
    have hp' : Pos rest := fun x hx => hp x (List.mem_cons_of_mem _ hx)
    have hso' := List.pairwise_cons.mp hso
    unfold mergeGo
    split
    · rename_i hcov
      rw [ih cur hc hp' hso'.2 b hb]
      by_cases h1 : cur.has b = true
      · simp [lookup, h1]
      · have h2 : s.has b = false := by
          simp [Seg.has] at h1 ⊢; omega
        simp [lookup, h1, h2]
    · rename_i hnc
      simp only
      split
      · rename_i hgap
        split
        · rename_i hbuf
          rw [ih _ (by simp; omega) hp' hso'.2 b (by simpa using hb)]
          by_cases h1 : cur.has b = true
          · have h1' : cur.off ≤ b ∧ b < cur.off + cur.len := by simpa [Seg.has] using h1
            have : Seg.has { cur with len := cur.len + (s.len - (cur.off + cur.len - s.off)) } b = true := by
              simp [Seg.has]; omega
            simp [lookup, h1, this]
          · have h1' : ¬ (cur.off ≤ b ∧ b < cur.off + cur.len) := by simpa [Seg.has] using h1
            by_cases h2 : s.has b = true
            · have h2' : s.off ≤ b ∧ b < s.off + s.len := by simpa [Seg.has] using h2
              have : Seg.has { cur with len := cur.len + (s.len - (cur.off + cur.len - s.off)) } b = true := by
                simp [Seg.has]; omega
              simp [lookup, h1, h2, this]; omega
            · have h2' : ¬ (s.off ≤ b ∧ b < s.off + s.len) := by simpa [Seg.has] using h2
              have : Seg.has { cur with len := cur.len + (s.len - (cur.off + cur.len - s.off)) } b = false := by
                simp [Seg.has]; omega
              simp [lookup, h1, h2, this]
        · rename_i hbuf
          by_cases h1 : cur.has b = true
          · simp [lookup, h1]
          · have h1' : ¬ (cur.off ≤ b ∧ b < cur.off + cur.len) := by simpa [Seg.has] using h1
            have hb2 : cur.off + cur.len ≤ b := by omega
            simp only [lookup, h1]
            rw [ih _ (by simp; omega) hp' hso'.2 b (by simp; omega)]
            by_cases h2 : s.has b = true
            · have h2' : s.off ≤ b ∧ b < s.off + s.len := by simpa [Seg.has] using h2
              have : Seg.has ⟨s.off + (cur.off + cur.len - s.off), s.len - (cur.off + cur.len - s.off),
                         s.buf + (cur.off + cur.len - s.off)⟩ b = true := by simp [Seg.has]; omega
              simp [lookup, h2, this]; omega
            · have h2' : ¬ (s.off ≤ b ∧ b < s.off + s.len) := by simpa [Seg.has] using h2
              have : Seg.has ⟨s.off + (cur.off + cur.len - s.off), s.len - (cur.off + cur.len - s.off),
                         s.buf + (cur.off + cur.len - s.off)⟩ b = false := by simp [Seg.has]; omega
              simp [lookup, h2, this]
      · rename_i hgap
        by_cases h1 : cur.has b = true
        · simp [lookup, h1]
        · have h1' : ¬ (cur.off ≤ b ∧ b < cur.off + cur.len) := by simpa [Seg.has] using h1
          simp only [lookup, h1]
          by_cases hbs : s.off ≤ b
          · exact ih s hs hp' hso'.2 b hbs
          · rw [mergeGo_lookup_below rest s hs hp' b (by omega)]
            have : s.has b = false := by simp [Seg.has]; omega
            simp only [Bool.false_eq_true, if_false, this]
            exact (lookup_none_of_lt rest b (fun x hx => by have := hso'.1 x hx; omega)).symm

theorem mergeSegs_lookup (l : List Seg) (hso : Sorted l) (hp : Pos l) (b : Int) :
    lookup (mergeSegs l) b = lookup l b := by
  cases l with
  | nil => rfl
  | cons s rest =>
    have hs : 0 < s.len := hp s List.mem_cons_self
    have hp' : Pos rest := fun x hx => hp x (List.mem_cons_of_mem _ hx)
    have hso' := List.pairwise_cons.mp hso
    unfold mergeSegs
    by_cases hb : s.off ≤ b
    · exact mergeGo_lookup rest s hs hp' hso'.2 b hb
    · rw [mergeGo_lookup_below rest s hs hp' b (by omega)]
      exact (lookup_none_of_lt (s :: rest) b (fun x hx => by
        rcases List.mem_cons.mp hx with rfl | hx
        · omega
        · have := hso'.1 x hx; omega)).symm

theorem mergeSegs_out (l : List Seg) (hp : Pos l) : Pos (mergeSegs l) ∧ Disj (mergeSegs l) := by
  cases l with
  | nil => simp [mergeSegs, Pos, Disj]
  | cons s rest =>
    have hs : 0 < s.len := hp s List.mem_cons_self
    have hp' : Pos rest := fun x hx => hp x (List.mem_cons_of_mem _ hx)
    have := mergeGo_out rest s hs hp'
    exact ⟨fun t ht => (this.1 t ht).1, this.2⟩

/-! ### spans, pairs, coalescing -/

theorem span_add (a n m : Int) (hn : 0 ≤ n) (hm : 0 ≤ m) : span a (n + m) = span a n ++ span (a + n) m := by
  unfold span
  have h1 : (n + m).toNat = n.toNat + m.toNat := by omega
  rw [h1, List.range_add, List.map_append, List.map_map]
  congr 1
  apply List.map_congr_left
  intro k _
  simp only [Function.comp]
  have : ((n.toNat + k : Nat) : Int) = n + (k : Int) := by omega
  rw [this]; omega

theorem coalGo_bytes (key : Seg → Int) (rest : List Seg) : ∀ (d b : Int), 0 ≤ b → (∀ s ∈ rest, 0 ≤ s.len) →
    bytesOf (coalGo key d b rest) = span d b ++ rest.flatMap (fun s => span (key s) s.len) := by
  induction rest with
  | nil => intro d b _ _; simp [coalGo, bytesOf]
  | cons s rest ih =>
    intro d b hb hp
    have hs := hp s List.mem_cons_self
    have hp' : ∀ x ∈ rest, 0 ≤ x.len := fun x hx => hp x (List.mem_cons_of_mem _ hx)
    unfold coalGo
    split
    · rename_i h
      rw [ih d (b + s.len) (by omega) hp', span_add d b s.len hb hs, h]
      simp [List.flatMap_cons]
    · have := ih (key s) s.len hs hp'
      simp only [bytesOf, List.flatMap_cons] at this ⊢
      rw [this]

theorem coalesce_bytes (key : Seg → Int) (l : List Seg) (hp : ∀ s ∈ l, 0 ≤ s.len) :
    bytesOf (coalesce key l) = l.flatMap (fun s => span (key s) s.len) := by
  cases l with
  | nil => rfl
  | cons s rest =>
    unfold coalesce
    rw [coalGo_bytes key rest (key s) s.len (hp s List.mem_cons_self)
        (fun x hx => hp x (List.mem_cons_of_mem _ hx))]
    simp [List.flatMap_cons]

theorem zip_map_same {α β γ : Type} (f : α → β) (g : α → γ) (l : List α) :
    (l.map f).zip (l.map g) = l.map (fun k => (f k, g k)) := by
  induction l with
  | nil => rfl
  | cons x xs ih => simp [ih]

theorem zip_flatMap_span (l : List Seg) :
    (l.flatMap (fun s => span s.off s.len)).zip (l.flatMap (fun s => span s.buf s.len)) = pairs l := by
  induction l with
  | nil => rfl
  | cons s rest ih =>
    simp only [List.flatMap_cons, pairs]
    rw [List.zip_append (by simp [span])]
    congr 1
    simp only [span]
    exact zip_map_same _ _ _

/-- the two coalesced datatypes of type_create_off_len move exactly the (file byte, buffer byte)
    pairs of the segment list, in the same order -/
theorem transfer_eq_pairs (l : List Seg) (hp : ∀ s ∈ l, 0 ≤ s.len) : transfer l = pairs l := by
  unfold transfer fileType bufType
  rw [coalesce_bytes _ l hp, coalesce_bytes _ l hp]
  exact zip_flatMap_span l

theorem mem_pairs (l : List Seg) (b a : Int) :
    (b, a) ∈ pairs l ↔ ∃ s ∈ l, s.off ≤ b ∧ b < s.off + s.len ∧ a = s.buf + (b - s.off) := by
  unfold pairs
  simp only [List.mem_flatMap, List.mem_map, List.mem_range, Prod.mk.injEq]
  constructor
  · rintro ⟨s, hs, k, hk, h1, h2⟩
    exact ⟨s, hs, by omega, by omega, by omega⟩
  · rintro ⟨s, hs, h1, h2, h3⟩
    exact ⟨s, hs, (b - s.off).toNat, by omega, by omega, by omega⟩

/-- for a sorted non-overlapping list, membership in `pairs` is the `lookup` function -/
theorem mem_pairs_iff_lookup (l : List Seg) (hd : Disj l) (hp : Pos l) (b a : Int) :
    (b, a) ∈ pairs l ↔ lookup l b = some a := by
  induction l with
  | nil => simp [pairs, lookup]
  | cons s rest ih =>
    have hd' := List.pairwise_cons.mp hd
    have hp' : Pos rest := fun x hx => hp x (List.mem_cons_of_mem _ hx)
    have ih' := ih hd'.2 hp'
    rw [mem_pairs] at ih' ⊢
    by_cases h1 : s.has b = true
    · have h1' : s.off ≤ b ∧ b < s.off + s.len := by simpa [Seg.has] using h1
      simp only [lookup, h1, if_true, Option.some.injEq]
      constructor
      · rintro ⟨t, ht, h2, h3, h4⟩
        rcases List.mem_cons.mp ht with rfl | ht
        · omega
        · have := hd'.1 t ht; omega
      · intro h; exact ⟨s, List.mem_cons_self, h1'.1, h1'.2, by omega⟩
    · have h1' : ¬ (s.off ≤ b ∧ b < s.off + s.len) := by simpa [Seg.has] using h1
      simp only [lookup]
      rw [if_neg h1, ← ih']
      constructor
      · rintro ⟨t, ht, h2, h3, h4⟩
        rcases List.mem_cons.mp ht with rfl | ht
        · exact absurd ⟨h2, h3⟩ h1'
        · exact ⟨t, ht, h2, h3, h4⟩
      · rintro ⟨t, ht, h⟩; exact ⟨t, List.mem_cons_of_mem _ ht, h⟩

/-! ### disjoint input: the merge loop changes nothing but block boundaries -/

theorem pairs_cons (s : Seg) (l : List Seg) : pairs (s :: l) = pairs [s] ++ pairs l := by
  simp [pairs, List.flatMap_cons]

theorem pairs_extend (cur : Seg) (n : Int) (hc : 0 ≤ cur.len) (hn : 0 ≤ n) :
    pairs [{ cur with len := cur.len + n }] = pairs [cur] ++ pairs [⟨cur.off + cur.len, n, cur.buf + cur.len⟩] := by
  simp only [pairs, List.flatMap_cons, List.flatMap_nil, List.append_nil]
  have h1 : (cur.len + n).toNat = cur.len.toNat + n.toNat := by omega
  rw [h1, List.range_add, List.map_append, List.map_map]
  congr 1
  apply List.map_congr_left
  intro k _
  simp only [Function.comp]
  have : ((cur.len.toNat + k : Nat) : Int) = cur.len + (k : Int) := by omega
  rw [this]
  ext <;> simp <;> omega

theorem mergeGo_disjoint (rest : List Seg) : ∀ (cur : Seg), 0 < cur.len → Pos rest → Disj (cur :: rest) →
    pairs (mergeGo cur rest) = pairs (cur :: rest) := by
  induction rest with
  | nil => intro cur _ _ _; simp [mergeGo]
  | cons s rest ih =>
    intro cur hc hp hd
    have hs : 0 < s.len := hp s List.mem_cons_self
    have hp' : Pos rest := fun x hx => hp x (List.mem_cons_of_mem _ hx)
    have hd1 := List.pairwise_cons.mp hd
    have hd2 := List.pairwise_cons.mp hd1.2
    have hcs : cur.off + cur.len ≤ s.off := hd1.1 s List.mem_cons_self
    unfold mergeGo
    split
    · omega
    · simp only
      split
      · rename_i hgap
        have hg : cur.off + cur.len - s.off = 0 := by omega
        split
        · rename_i hbuf
          rw [hg] at hbuf ⊢
          rw [ih _ (by simp; omega) hp' (by
            refine List.pairwise_cons.mpr ⟨?_, hd2.2⟩
            intro x hx; have := hd2.1 x hx; simp; omega)]
          have : (⟨cur.off + cur.len, s.len - 0, cur.buf + cur.len⟩ : Seg) = s := by
            cases s; simp at hbuf hg ⊢; omega
          rw [pairs_cons _ rest, pairs_extend cur (s.len - 0) (by omega) (by omega), this,
              pairs_cons cur (s :: rest), pairs_cons s rest, List.append_assoc]
        · rw [hg]
          have : (⟨s.off + 0, s.len - 0, s.buf + 0⟩ : Seg) = s := by cases s; simp
          rw [this, pairs_cons, ih s hs hp' hd1.2, ← pairs_cons]
      · rw [pairs_cons, ih s hs hp' hd1.2, ← pairs_cons]

theorem mergeSegs_disjoint (l : List Seg) (hp : Pos l) (hd : Disj l) : pairs (mergeSegs l) = pairs l := by
  cases l with
  | nil => rfl
  | cons s rest =>
    exact mergeGo_disjoint rest s (hp s List.mem_cons_self)
      (fun x hx => hp x (List.mem_cons_of_mem _ hx)) hd

theorem pairs_perm (l₁ l₂ : List Seg) (h : l₁.Perm l₂) : (pairs l₁).Perm (pairs l₂) := by
  unfold pairs; exact List.Perm.flatMap_right _ h

theorem disj_of_sorted_symDisj (l : List Seg) (hs : Sorted l) (hp : Pos l) (hd : SymDisj l) : Disj l := by
  induction l with
  | nil => simp [Disj]
  | cons s rest ih =>
    have hs' := List.pairwise_cons.mp hs
    have hd' := List.pairwise_cons.mp hd
    have hp' : Pos rest := fun x hx => hp x (List.mem_cons_of_mem _ hx)
    refine List.pairwise_cons.mpr ⟨?_, ih hs'.2 hp' hd'.2⟩
    intro x hx
    have h1 := hs'.1 x hx
    have h2 := hd'.1 x hx
    have h3 := hp x (List.mem_cons_of_mem _ hx)
    omega

end PnVerif.Merge
