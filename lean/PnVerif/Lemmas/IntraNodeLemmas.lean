import PnVerif.Model.IntraNode
import PnVerif.Lemmas.FlattenLemmas
import PnVerif.Lemmas.MergeLemmas
import PnVerif.Props.C02
import PnVerif.Lemmas.ScsLemmas
/-
  Lemmas about Model/IntraNode.lean.  flatten_subarray is the same bottom-up construction as
  vars_flatten of ncmpio_wait.c (Model/Flatten.lean), whose correctness is
  Props.C02.varsFlatten_offsets (through Props.C01.strideFlatten_offsets); the aggregator's merge
  loop and coalescing pass are the ones of merge_requests / type_create_off_len (Model/Merge.lean).
-/
namespace PnVerif.IntraNode
open PnVerif.Access PnVerif.Merge PnVerif.Flatten

/-! ### flatten_subarray = vars_flatten -/

theorem fsLoop_eq_vfLoop (el : Nat) : ∀ (xs : List (Nat × Nat × Nat × Nat × Bool)) (a : Nat) (offs : List Nat),
    fsLoop el xs a offs = vfLoop el xs a offs
  | [], _, _ => rfl
  | (s, c, k, dl, f) :: rest, a, offs => by
    simp only [fsLoop, vfLoop]
    exact fsLoop_eq_vfLoop el rest _ _

theorem flattenSubarrayOffs_eq (el b : Nat) (dimlen s c k : List Nat) :
    flattenSubarrayOffs el b dimlen s c k = varsFlattenOffs el b dimlen s c k := by
  unfold flattenSubarrayOffs varsFlattenOffs
  simp only [fsLoop_eq_vfLoop]

theorem expandPairs_map (el len : Nat) (offs : List Nat) :
    expandPairs el (offs.map (fun o => (o, len))) = expandBlocks el offs len := by
  unfold expandPairs expandBlocks
  rw [List.flatMap_map]

theorem expandPairs_append (el : Nat) (a b : List (Nat × Nat)) :
    expandPairs el (a ++ b) = expandPairs el a ++ expandPairs el b := by
  unfold expandPairs; rw [List.flatMap_append]

/-- the array `dimlen` of `el`-byte elements whose first byte is at `b`, as a fixed-size variable -/
def arr (el b : Nat) (dimlen : List Nat) : VarLay :=
  { begin := b, xsz := el, shape := dimlen, isRec := false, recsize := 0 }

/-- flatten_subarray emits exactly the elements of the request, in request order (any rank ≥ 0) -/
theorem flattenSubarray_offsets (el b : Nat) (dimlen s c k : List Nat)
    (h1 : s.length = c.length) (h2 : s.length = k.length) (h3 : s.length = dimlen.length)
    (hel : 0 < el) (hpos : ∀ x ∈ c, 0 < x) :
    expandPairs el (flattenSubarray el b dimlen s c k) = (enumIdx s c k).map (elemOff (arr el b dimlen)) := by
  unfold flattenSubarray
  by_cases hd : dimlen.length = 0
  · have hs : s = [] := List.length_eq_zero_iff.mp (by omega)
    subst hs
    have hdl : dimlen = [] := List.length_eq_zero_iff.mp hd
    subst hdl
    simp [hd, expandPairs, enumIdx, elemOff, arr, rowMajor, Nat.div_self hel]
  · simp only [hd, if_false]
    have hne : s ≠ [] := by intro h; rw [h] at h3; simp at h3; omega
    rw [expandPairs_map, flattenSubarrayOffs_eq]
    exact PnVerif.Props.C02.varsFlatten_offsets el b dimlen s c k h1 h2 h3 hne hel hpos

/-! ### flatten_req -/

theorem recBlocks_eq (el R k0 : Nat) (dimlen s c k : List Nat) : ∀ (n b : Nat),
    recBlocks el R k0 dimlen s c k n b =
      (List.range n).flatMap (fun i => flattenSubarray el (b + i * (k0 * R)) dimlen s c k)
  | 0, _ => rfl
  | n + 1, b => by
    rw [recBlocks, recBlocks_eq el R k0 dimlen s c k n, List.range_succ_eq_map, List.flatMap_cons, List.flatMap_map]
    congr 1
    · simp
    · congr 1; funext i
      show flattenSubarray el (b + k0 * R + i * (k0 * R)) dimlen s c k = flattenSubarray el (b + (i + 1) * (k0 * R)) dimlen s c k
      congr 1
      rw [Nat.add_mul]; omega

theorem expandPairs_flatMap {α : Type} (el : Nat) (l : List α) (f : α → List (Nat × Nat)) :
    expandPairs el (l.flatMap f) = l.flatMap (fun x => expandPairs el (f x)) := by
  unfold expandPairs; rw [List.flatMap_assoc]

theorem elemOff_fixed (v : VarLay) (h : v.isRec = false) (idx : List Nat) :
    elemOff v idx = elemOff (arr v.xsz v.begin v.shape) idx := by
  unfold elemOff arr; simp [h]

theorem elemOff_rec (v : VarLay) (h : v.isRec = true) (n0 : Nat) (ns : List Nat) (hs : v.shape = n0 :: ns)
    (r : Nat) (idx : List Nat) :
    elemOff v (r :: idx) = elemOff (arr v.xsz (v.begin + r * v.recsize) ns) idx := by
  unfold elemOff arr; simp [h, hs]

/-- **flatten_req emits exactly the elements of the request, in request order**, for scalars,
    fixed-size and record variables of any rank -/
theorem flattenReq_offsets' (v : VarLay) (s c k : List Nat)
    (h1 : s.length = c.length) (h2 : s.length = k.length) (h3 : s.length = v.shape.length)
    (hel : 0 < v.xsz) (hpos : ∀ x ∈ c, 0 < x) :
    expandPairs v.xsz (flattenReq v s c k) = (enumIdx s c k).map (elemOff v) := by
  unfold flattenReq
  by_cases hd : v.shape.length = 0
  · have hs : s = [] := List.length_eq_zero_iff.mp (by omega)
    subst hs
    have hsh : v.shape = [] := List.length_eq_zero_iff.mp hd
    simp [hd, expandPairs, enumIdx, elemOff, hsh, rowMajor, Nat.div_self hel]
  · simp only [hd, if_false]
    cases hr : v.isRec
    · simp only [Bool.false_eq_true, if_false]
      rw [flattenSubarray_offsets v.xsz v.begin v.shape s c k h1 h2 h3 hel hpos]
      apply List.map_congr_left
      intro idx _
      exact (elemOff_fixed v hr idx).symm
    · simp only [if_true]
      cases hsh : v.shape with
      | nil => rw [hsh] at hd; simp at hd
      | cons n0 ns =>
        rw [hsh] at h3
        cases s with
        | nil => simp at h3
        | cons s0 ss =>
        cases c with
        | nil => simp at h1
        | cons c0 cs =>
        cases k with
        | nil => simp at h2
        | cons k0 ks =>
        simp only [List.length_cons, Nat.add_right_cancel_iff] at h1 h2 h3
        simp only [List.headD_cons, List.drop_succ_cons, List.drop_zero]
        rw [recBlocks_eq, expandPairs_flatMap]
        simp only [enumIdx, List.map_flatMap, List.map_map]
        congr 1; funext i
        have hp' : ∀ x ∈ cs, 0 < x := fun x hx => hpos x (List.mem_cons_of_mem _ hx)
        rw [flattenSubarray_offsets v.xsz _ ns ss cs ks h1 h2 h3 hel hp']
        apply List.map_congr_left
        intro idx _
        simp only [Function.comp]
        rw [elemOff_rec v hr n0 ns hsh]
        congr 2
        rw [Nat.add_mul, Nat.mul_assoc]; omega

/-! ### the aggregator -/

theorem aggrGo_eq : ∀ (rest : List Seg) (cur : Seg), aggrGo cur rest = mergeGo cur rest
  | [], _ => rfl
  | s :: rest, cur => by
    unfold aggrGo mergeGo
    simp only [aggrGo_eq rest]

theorem aggrPass1_eq (l : List Seg) : aggrPass1 l = mergeSegs l := by
  cases l with
  | nil => rfl
  | cons s rest => exact aggrGo_eq rest s

theorem fileGo_eq : ∀ (rest : List Seg) (d b : Int), fileGo d b rest = coalGo (fun s => s.off) d b rest
  | [], _, _ => rfl
  | s :: rest, d, b => by
    unfold fileGo coalGo
    simp only [fileGo_eq rest]

theorem filePairs_eq (l : List Seg) : filePairs l = fileType l := by
  cases l with
  | nil => rfl
  | cons s rest => exact fileGo_eq rest _ _

/-- packing + coalescing never changes which recv_buf byte goes to which file byte -/
theorem pack_transfer (l : List Seg) (hp : ∀ s ∈ l, 0 ≤ s.len) :
    (bytesOf (filePairs l)).zip (wrBuf l) = pairs l := by
  rw [filePairs_eq]
  unfold fileType wrBuf
  rw [coalesce_bytes _ l hp]
  exact zip_flatMap_span l

theorem mkSegsFrom_offlen : ∀ (l : List (Int × Int)) (a : Int),
    (mkSegsFrom a l).map (fun s => (s.off, s.len)) = l
  | [], _ => rfl
  | p :: ps, a => by simp [mkSegsFrom, mkSegsFrom_offlen ps]

theorem mkSegs_pairwise (R : Int × Int → Int × Int → Prop) (l : List (Int × Int)) (a : Int)
    (h : List.Pairwise R l) : List.Pairwise (fun x y => R (x.off, x.len) (y.off, y.len)) (mkSegsFrom a l) := by
  have := mkSegsFrom_offlen l a
  rw [← this] at h
  exact List.pairwise_map.mp h

theorem mkSegs_pos (l : List (Int × Int)) (a : Int) (h : ∀ p ∈ l, 0 < p.2) : Pos (mkSegsFrom a l) := by
  intro s hs
  have hm : (s.off, s.len) ∈ (mkSegsFrom a l).map (fun s => (s.off, s.len)) := List.mem_map.mpr ⟨s, hs, rfl⟩
  rw [mkSegsFrom_offlen] at hm
  exact h _ hm

/-- sort + merge + pack + coalesce on file-disjoint triples: a permutation of the triples' byte pairs -/
theorem aggregate_pairs (segs : List Seg) (hp : Pos segs) (hd : SymDisj segs) :
    ((bytesOf (filePairs (aggrPass1 (sortSegs segs)))).zip (wrBuf (aggrPass1 (sortSegs segs)))).Perm (pairs segs) := by
  have hperm := sortSegs_perm segs
  have hp' : Pos (sortSegs segs) := fun s h => hp s (hperm.mem_iff.mp h)
  have hd' : SymDisj (sortSegs segs) := by
    unfold SymDisj at hd ⊢
    refine (List.Perm.pairwise_iff ?_ hperm).mpr hd
    intro a b h; exact h.symm
  have hdisj := disj_of_sorted_symDisj _ (sortSegs_sorted segs) hp' hd'
  rw [aggrPass1_eq, pack_transfer _ (fun s h => Int.le_of_lt ((mergeSegs_out _ hp').1 s h)),
      mergeSegs_disjoint _ hp' hdisj]
  exact pairs_perm _ _ hperm

end PnVerif.IntraNode

namespace PnVerif.IntraNode
open PnVerif.Access PnVerif.Merge

def sumLens : List (Int × Int) → Int
  | [] => 0
  | p :: ps => p.2 + sumLens ps

theorem sumLens_nonneg : ∀ (l : List (Int × Int)), (∀ p ∈ l, 0 ≤ p.2) → 0 ≤ sumLens l
  | [], _ => by simp [sumLens]
  | p :: ps, h => by
    have := sumLens_nonneg ps (fun q hq => h q (List.mem_cons_of_mem _ hq))
    have := h p List.mem_cons_self
    simp only [sumLens]; omega

theorem pairs_cons' (s : Seg) (l : List Seg) :
    pairs (s :: l) = (List.range s.len.toNat).map (fun (k : Nat) => (s.off + (k : Int), s.buf + (k : Int))) ++ pairs l := by
  simp [pairs, List.flatMap_cons]

/-- what the triples stand for: the file bytes of the inputs in arrival order, paired with the
    consecutive positions of recv_buf (= the concatenation of the ranks' packed write buffers) -/
theorem mkSegs_meaning : ∀ (l : List (Int × Int)) (a : Int), (∀ p ∈ l, 0 ≤ p.2) →
    (pairs (mkSegsFrom a l)).map (·.1) = l.flatMap (fun p => span p.1 p.2) ∧
    (pairs (mkSegsFrom a l)).map (·.2) = span a (sumLens l)
  | [], a, _ => by simp [mkSegsFrom, pairs, sumLens, span]
  | p :: ps, a, h => by
    have hp0 := h p List.mem_cons_self
    have hps : ∀ q ∈ ps, 0 ≤ q.2 := fun q hq => h q (List.mem_cons_of_mem _ hq)
    obtain ⟨ih1, ih2⟩ := mkSegs_meaning ps (a + p.2) hps
    simp only [mkSegsFrom, pairs_cons', List.map_append, List.map_map, List.flatMap_cons, sumLens]
    constructor
    · rw [ih1]; rfl
    · rw [ih2, span_add a p.2 (sumLens ps) hp0 (sumLens_nonneg ps hps)]; rfl

end PnVerif.IntraNode

/-! ### bridge to the request checker's model (Model/Scs.lean) -/
namespace PnVerif.IntraNode
open PnVerif.Access

theorem prod_eq_foldr : ∀ (l : List Nat), Access.prod l = l.foldr (· * ·) 1
  | [] => rfl
  | x :: xs => by simp [Access.prod, prod_eq_foldr xs]

theorem rowMajor_agree : ∀ (shape idx : List Nat), Scs.rowMajor shape idx = Access.rowMajor shape idx
  | [], _ => by simp [Scs.rowMajor, Access.rowMajor]
  | _ :: _, [] => by simp [Scs.rowMajor, Access.rowMajor]
  | _ :: ns, i :: is => by
    simp only [Scs.rowMajor, Access.rowMajor, rowMajor_agree ns is, prod_eq_foldr]

/-- the layout record of the request checker's model as the layout record of the offset model -/
def toLay (v : Scs.VarLayout) : VarLay :=
  { begin := v.begin, xsz := v.xsz, shape := v.shape, isRec := v.isRec, recsize := v.recsize }

theorem elemOffset_agree (v : Scs.VarLayout) (idx : List Nat) (h : idx.length = v.shape.length) (hne : idx ≠ []) :
    Scs.elemOffset v idx = elemOff (toLay v) idx := by
  unfold Scs.elemOffset elemOff toLay
  cases hr : v.isRec
  · simp [rowMajor_agree]
  · cases hs : v.shape with
    | nil => rw [hs] at h; exact absurd (List.length_eq_zero_iff.mp h) hne
    | cons n ns =>
      cases idx with
      | nil => exact absurd rfl hne
      | cons r is => simp [rowMajor_agree]

/-- the request checker's index enumeration (integers) is the offset model's (naturals) -/
theorem cart_enumIdx : ∀ (l : List (Int × Int × Int)), (∀ t ∈ l, 0 ≤ t.1 ∧ 0 ≤ t.2.2) →
    (Scs.cart (l.map (fun t => Scs.dimIdx t.1 t.2.1 t.2.2))).map (fun ix => ix.map Int.toNat)
      = enumIdx (l.map (fun t => t.1.toNat)) (l.map (fun t => t.2.1.toNat)) (l.map (fun t => t.2.2.toNat))
  | [], _ => by simp [Scs.cart, enumIdx]
  | (s, c, k) :: rest, h => by
    have ih := cart_enumIdx rest (fun t ht => h t (List.mem_cons_of_mem _ ht))
    obtain ⟨hs, hk⟩ := h (s, c, k) List.mem_cons_self
    simp only [List.map_cons, Scs.cart, enumIdx, Scs.dimIdx, List.flatMap_map, List.map_flatMap, List.map_map]
    congr 1; funext i
    rw [← ih, List.map_map]
    apply List.map_congr_left
    intro t _
    simp only [Function.comp, List.map_cons, List.cons.injEq, and_true]
    obtain ⟨s', rfl⟩ := Int.eq_ofNat_of_zero_le hs
    obtain ⟨k', rfl⟩ := Int.eq_ofNat_of_zero_le hk
    simp only [Int.toNat_natCast]
    rw [← Int.natCast_mul, ← Int.natCast_add, Int.toNat_natCast]

theorem cart_length : ∀ (ls : List (List Int)) (t : List Int), t ∈ Scs.cart ls → t.length = ls.length
  | [], t, h => by simp [Scs.cart] at h; simp [h]
  | l :: ls, t, h => by
    simp only [Scs.cart, List.mem_flatMap, List.mem_map] at h
    obtain ⟨x, _, t', ht', rfl⟩ := h
    simp [cart_length ls t' ht']

open PnVerif.Spec.InBounds in
/-- **an accepted request, flattened for intra-node aggregation, covers exactly the footprint of the
    request** (the element offsets of `Scs.footprint`, which `accepted_inside` places inside the
    addressed variable) -/
theorem flattenReq_footprint' (c : Scs.Ctx) (r : Scs.Req) (v : Scs.VarLayout)
    (hin : InBounds c r) (hlen : v.shape.length = r.dims.length) (hne : r.dims ≠ []) (hel : 0 < v.xsz)
    (hpos : ∀ d ∈ r.dims, 0 < Scs.effCount r d) :
    expandPairs v.xsz (flattenReq (toLay v) (r.dims.map (fun d => d.start.toNat))
        (r.dims.map (fun d => (Scs.effCount r d).toNat)) (r.dims.map (fun d => (Scs.effStride r d).toNat)))
      = Scs.footprint v r := by
  have hd : ∀ d ∈ r.dims, 0 ≤ d.start ∧ 0 ≤ Scs.effStride r d := by
    intro d hdm
    obtain ⟨b, hb⟩ := (Scs.mem_dims_iff c r d).mp hdm
    have h := hin.2.2.1 (b, d) hb
    unfold dimOK DimOK at h
    obtain ⟨h1, _, h3, _⟩ := h
    exact ⟨h1, by simp only at h3; omega⟩
  have hx0 : v.xsz = (toLay v).xsz := rfl
  rw [hx0, flattenReq_offsets' (toLay v) _ _ _ (by simp) (by simp) (by simp [toLay, hlen]) hel
      (by intro x hx; obtain ⟨d, hdm, rfl⟩ := List.mem_map.mp hx; have := hpos d hdm; omega)]
  unfold Scs.footprint Scs.indices
  let l : List (Int × Int × Int) := r.dims.map (fun d => (d.start, Scs.effCount r d, Scs.effStride r d))
  have hl : ∀ t ∈ l, 0 ≤ t.1 ∧ 0 ≤ t.2.2 := by
    intro t ht; obtain ⟨d, hdm, rfl⟩ := List.mem_map.mp ht; exact hd d hdm
  have e1 : r.dims.map (fun d => d.start.toNat) = l.map (fun t => t.1.toNat) := by simp [l, List.map_map]
  have e2 : r.dims.map (fun d => (Scs.effCount r d).toNat) = l.map (fun t => t.2.1.toNat) := by simp [l, List.map_map]
  have e3 : r.dims.map (fun d => (Scs.effStride r d).toNat) = l.map (fun t => t.2.2.toNat) := by simp [l, List.map_map]
  have e4 : r.dims.map (fun d => Scs.dimIdx d.start (Scs.effCount r d) (Scs.effStride r d))
      = l.map (fun t => Scs.dimIdx t.1 t.2.1 t.2.2) := by simp [l, List.map_map]
  rw [e1, e2, e3, e4, ← cart_enumIdx l hl, List.map_map]
  apply List.map_congr_left
  intro ix hix
  have hlen' := cart_length _ ix hix
  simp only [Function.comp]
  have hx : (ix.map Int.toNat).length = v.shape.length := by simp [hlen', l, hlen]
  have hxne : ix.map Int.toNat ≠ [] := by
    intro h
    have : (ix.map Int.toNat).length = 0 := by rw [h]; rfl
    rw [hx, hlen] at this
    exact hne (List.length_eq_zero_iff.mp this)
  exact (elemOffset_agree v _ hx hxne).symm
end PnVerif.IntraNode

/-! ### flatten_reqs -/
namespace PnVerif.IntraNode
open PnVerif.Access

/-- what the request queue guarantees about an entry: vectors as long as the variable's shape,
    positive counts, element size > 0, and a non-lead request of a record variable lies within one
    record (the queue splits multi-record requests, `count[0] = 1`) -/
def PReq.WF (q : PReq) : Prop :=
  q.start.length = q.count.length ∧ q.start.length = q.stride.length ∧ q.start.length = q.v.shape.length ∧
  0 < q.v.xsz ∧ (∀ x ∈ q.count, 0 < x) ∧ (q.v.isRec = true → q.v.shape ≠ [] ∧ q.count.headD 0 = 1)

/-- for one request flatten_reqs does what flatten_req does -/
theorem flattenOne_eq_flattenReq (q : PReq) (h : q.WF) :
    flattenOne q = flattenReq q.v q.start q.count q.stride := by
  obtain ⟨h1, h2, h3, _, _, hrec⟩ := h
  unfold flattenOne flattenReq
  cases hr : q.v.isRec
  · simp only [Bool.false_eq_true, if_false]
    by_cases hd : q.v.shape.length = 0
    · have hsh : q.v.shape = [] := List.length_eq_zero_iff.mp hd
      simp [hd, flattenSubarray, hsh]
    · simp [hd]
  · obtain ⟨hne, hc1⟩ := hrec hr
    have hd : ¬ q.v.shape.length = 0 := fun h0 => hne (List.length_eq_zero_iff.mp h0)
    simp only [if_true, hd, if_false, hc1, recBlocks, List.append_nil]

/-- **flatten_reqs emits exactly the elements of the queued requests, in queue order** -/
theorem flattenReqs_offsets' (qs : List PReq) (h : ∀ q ∈ qs, q.WF) :
    qs.flatMap (fun q => expandPairs q.v.xsz (flattenOne q))
      = qs.flatMap (fun q => (enumIdx q.start q.count q.stride).map (elemOff q.v)) := by
  induction qs with
  | nil => rfl
  | cons q rest ih =>
    have hw := h q List.mem_cons_self
    simp only [List.flatMap_cons]
    rw [ih (fun x hx => h x (List.mem_cons_of_mem _ hx)), flattenOne_eq_flattenReq q hw]
    obtain ⟨h1, h2, h3, hel, hpos, _⟩ := hw
    rw [flattenReq_offsets' q.v q.start q.count q.stride h1 h2 h3 hel hpos]

end PnVerif.IntraNode
