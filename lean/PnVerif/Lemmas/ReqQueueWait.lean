import PnVerif.Lemmas.ReqQueueLemmas
/-
  The subset path of extract_reqs + the post-I/O clean-up of req_commit, on canonical queues.
-/
namespace PnVerif.ReqQueue

def idxFrom : Nat → List Int → List (Nat × Int)
  | _, [] => []
  | i, x :: xs => (i, x) :: idxFrom (i + 1) xs

theorem mem_idxFrom (ids : List Int) : ∀ (i k : Nat) (rid : Int),
    (k, rid) ∈ idxFrom i ids ↔ i ≤ k ∧ ids[k - i]? = some rid := by
  induction ids with
  | nil => intro i k rid; simp [idxFrom]
  | cons x xs ih =>
    intro i k rid
    simp only [idxFrom, List.mem_cons, Prod.mk.injEq, ih]
    constructor
    · rintro (⟨rfl, rfl⟩ | ⟨h1, h2⟩)
      · simp
      · refine ⟨by omega, ?_⟩
        have : k - i = (k - (i + 1)) + 1 := by omega
        rw [this]; simpa using h2
    · rintro ⟨h1, h2⟩
      by_cases hk : k = i
      · left; subst hk; simp at h2; exact ⟨rfl, h2.symm⟩
      · right
        refine ⟨by omega, ?_⟩
        have : k - i = (k - (i + 1)) + 1 := by omega
        rw [this] at h2; simpa using h2

/-- the slot the C code stores in `lead->status` for the id at position `i` -/
def slotOf (hasSt : Bool) (i : Nat) : Option Nat := if hasSt then some i else none

/-- invariant of loop 1 (`markLoop`): both lead lists are "clean original + mark map" -/
def MI (nc0 : NC) (vP vG : List Entry) (hasSt : Bool) (proc : List (Nat × Int)) (e : Ext) : Prop :=
  ∃ mkP mkG : Int → Option (Option Nat),
    e.nc.put = { nc0.put with lead := canonLeads 0 (vP.map (applyMark mkP)) } ∧
    e.nc.get = { nc0.get with lead := canonLeads 0 (vG.map (applyMark mkG)) } ∧
    e.nc.numrecs = nc0.numrecs ∧
    e.numWLead = (flagged (vP.map (applyMark mkP))).length ∧ e.numW = total (flagged (vP.map (applyMark mkP))) ∧
    e.numRLead = (flagged (vG.map (applyMark mkG))).length ∧ e.numR = total (flagged (vG.map (applyMark mkG))) ∧
    e.st.isSome = hasSt ∧
    (∀ id s, mkP id = some s → ∃ i, (i, id) ∈ proc ∧ id ≠ NC_REQ_NULL ∧ id % 2 = 0 ∧
        ∃ x ∈ vP, x.c.id = id ∧ s = newStatus (slotOf hasSt i) x) ∧
    (∀ id s, mkG id = some s → ∃ i, (i, id) ∈ proc ∧ id ≠ NC_REQ_NULL ∧ ¬ id % 2 = 0 ∧
        ∃ x ∈ vG, x.c.id = id ∧ s = newStatus (slotOf hasSt i) x) ∧
    (e.err = NC_NOERR → ∀ i rid, (i, rid) ∈ proc → rid ≠ NC_REQ_NULL →
        (rid % 2 = 0 → (mkP rid).isSome) ∧ (¬ rid % 2 = 0 → (mkG rid).isSome))

theorem err_set_ne (err : Int) : (if err = NC_NOERR then NC_EINVAL_REQUEST else err) ≠ NC_NOERR := by
  split
  · decide
  · assumption

theorem markLoop_MI (nc0 : NC) (vP vG : List Entry) (hasSt : Bool)
    (hcP : Clean vP) (hdP : Distinct vP) (hcG : Clean vG) (hdG : Distinct vG) (ids : List Int) :
    ∀ (i : Nat) (proc : List (Nat × Int)) (e : Ext), MI nc0 vP vG hasSt proc e →
      MI nc0 vP vG hasSt (proc ++ idxFrom i ids) (markLoop i ids e) := by
  induction ids with
  | nil => intro i proc e h; simpa [idxFrom, markLoop] using h
  | cons rid rest ih =>
    intro i proc e h
    have hassoc : proc ++ idxFrom i (rid :: rest) = (proc ++ [(i, rid)]) ++ idxFrom (i + 1) rest := by
      simp [idxFrom]
    rw [hassoc]
    unfold markLoop
    obtain ⟨mkP, mkG, hput, hget, hnr, hwl, hw, hrl, hr, hst, hU2P, hU2G, hU3⟩ := h
    have hmono : ∀ {k : Nat} {x : Int}, (k, x) ∈ proc → (k, x) ∈ proc ++ [(i, rid)] :=
      fun hm => List.mem_append_left _ hm
    simp only []
    by_cases hn : rid = NC_REQ_NULL
    · simp only [hn, if_true]
      apply ih
      refine ⟨mkP, mkG, hput, hget, hnr, hwl, hw, hrl, hr, by simp [hst], ?_, ?_, ?_⟩
      · intro id s hs; obtain ⟨k, hk, rest'⟩ := hU2P id s hs; exact ⟨k, List.mem_append_left _ hk, rest'⟩
      · intro id s hs; obtain ⟨k, hk, rest'⟩ := hU2G id s hs; exact ⟨k, List.mem_append_left _ hk, rest'⟩
      · intro herr k x hkx hx
        rcases List.mem_append.mp hkx with hk | hk
        · exact hU3 herr k x hk hx
        · simp at hk; exact absurd hk.2 hx
    · simp only [hn, if_false]
      by_cases hev : rid % 2 = 0
      · simp only [hev, if_true]
        rw [hput]
        simp only
        rw [markLead_canon, markE_map _ _ _ _ hcP hdP]
        cases hf : vP.find? (fun e => decide (e.c.id = rid)) with
        | none =>
          simp only [Option.map_none]
          apply ih
          refine ⟨mkP, mkG, hput, hget, hnr, hwl, hw, hrl, hr, by simp [hst], ?_, ?_, ?_⟩
          · intro id s hs; obtain ⟨k, hk, rest'⟩ := hU2P id s hs; exact ⟨k, hmono hk, rest'⟩
          · intro id s hs; obtain ⟨k, hk, rest'⟩ := hU2G id s hs; exact ⟨k, hmono hk, rest'⟩
          · intro herr; exact absurd herr (err_set_ne e.err)
        | some x =>
          have hxm : x ∈ vP := List.mem_of_find?_eq_some hf
          have hxid : x.c.id = rid := by have := List.find?_some hf; simpa using this
          simp only
          cases hmk : mkP rid with
          | some s0 =>
            simp only [Option.map_none, reduceCtorEq, if_false]
            apply ih
            refine ⟨mkP, mkG, hput, hget, hnr, hwl, hw, hrl, hr, by simp [hst], ?_, ?_, ?_⟩
            · intro id s hs; obtain ⟨k, hk, rest'⟩ := hU2P id s hs; exact ⟨k, hmono hk, rest'⟩
            · intro id s hs; obtain ⟨k, hk, rest'⟩ := hU2G id s hs; exact ⟨k, hmono hk, rest'⟩
            · intro herr; exact absurd herr (err_set_ne e.err)
          | none =>
            simp only [if_true, Option.map_some]
            apply ih
            have hslot : (if e.st.isSome = true then some i else none) = slotOf hasSt i := by
              unfold slotOf; rw [hst]
            have hcnt := markE_counts (if e.st.isSome = true then some i else none) rid (vP.map (applyMark mkP))
              (vP.map (applyMark (fun y => if y = rid then some (newStatus (if e.st.isSome = true then some i else none) x) else mkP y)))
              x.subs.length (by rw [markE_map _ _ _ _ hcP hdP, hf]; simp [hmk])
            refine ⟨fun y => if y = rid then some (newStatus (if e.st.isSome = true then some i else none) x) else mkP y,
                    mkG, ?_, hget, hnr, ?_, ?_, hrl, hr, by simp [hst], ?_, ?_, ?_⟩
            · simp only [hput]
            · simp only; rw [hwl, hcnt.1]
            · simp only; rw [hw, hcnt.2]
            · intro id s hs
              by_cases hid : id = rid
              · subst hid
                simp only [if_true, Option.some.injEq] at hs
                exact ⟨i, List.mem_append_right _ (by simp), hn, hev, x, hxm, hxid, by rw [← hs, hslot]⟩
              · simp only [hid, if_false] at hs
                obtain ⟨k, hk, rest'⟩ := hU2P id s hs; exact ⟨k, hmono hk, rest'⟩
            · intro id s hs; obtain ⟨k, hk, rest'⟩ := hU2G id s hs; exact ⟨k, hmono hk, rest'⟩
            · intro herr k y hky hy
              rcases List.mem_append.mp hky with hk | hk
              · have := hU3 herr k y hk hy
                refine ⟨fun h2 => ?_, this.2⟩
                by_cases hyr : y = rid
                · simp [hyr]
                · simp only [hyr, if_false]; exact this.1 h2
              · simp only [List.mem_singleton, Prod.mk.injEq] at hk
                obtain ⟨rfl, rfl⟩ := hk
                exact ⟨fun _ => by simp, fun h2 => absurd hev h2⟩
      · simp only [hev, if_false]
        rw [hget]
        simp only
        rw [markLead_canon, markE_map _ _ _ _ hcG hdG]
        cases hf : vG.find? (fun e => decide (e.c.id = rid)) with
        | none =>
          simp only [Option.map_none]
          apply ih
          refine ⟨mkP, mkG, hput, hget, hnr, hwl, hw, hrl, hr, by simp [hst], ?_, ?_, ?_⟩
          · intro id s hs; obtain ⟨k, hk, rest'⟩ := hU2P id s hs; exact ⟨k, hmono hk, rest'⟩
          · intro id s hs; obtain ⟨k, hk, rest'⟩ := hU2G id s hs; exact ⟨k, hmono hk, rest'⟩
          · intro herr; exact absurd herr (err_set_ne e.err)
        | some x =>
          have hxm : x ∈ vG := List.mem_of_find?_eq_some hf
          have hxid : x.c.id = rid := by have := List.find?_some hf; simpa using this
          simp only
          cases hmk : mkG rid with
          | some s0 =>
            simp only [Option.map_none, reduceCtorEq, if_false]
            apply ih
            refine ⟨mkP, mkG, hput, hget, hnr, hwl, hw, hrl, hr, by simp [hst], ?_, ?_, ?_⟩
            · intro id s hs; obtain ⟨k, hk, rest'⟩ := hU2P id s hs; exact ⟨k, hmono hk, rest'⟩
            · intro id s hs; obtain ⟨k, hk, rest'⟩ := hU2G id s hs; exact ⟨k, hmono hk, rest'⟩
            · intro herr; exact absurd herr (err_set_ne e.err)
          | none =>
            simp only [if_true, Option.map_some]
            apply ih
            have hslot : (if e.st.isSome = true then some i else none) = slotOf hasSt i := by
              unfold slotOf; rw [hst]
            have hcnt := markE_counts (if e.st.isSome = true then some i else none) rid (vG.map (applyMark mkG))
              (vG.map (applyMark (fun y => if y = rid then some (newStatus (if e.st.isSome = true then some i else none) x) else mkG y)))
              x.subs.length (by rw [markE_map _ _ _ _ hcG hdG, hf]; simp [hmk])
            refine ⟨mkP, fun y => if y = rid then some (newStatus (if e.st.isSome = true then some i else none) x) else mkG y,
                    hput, ?_, hnr, hwl, hw, ?_, ?_, by simp [hst], ?_, ?_, ?_⟩
            · simp only [hget]
            · simp only; rw [hrl, hcnt.1]
            · simp only; rw [hr, hcnt.2]
            · intro id s hs; obtain ⟨k, hk, rest'⟩ := hU2P id s hs; exact ⟨k, hmono hk, rest'⟩
            · intro id s hs
              by_cases hid : id = rid
              · subst hid
                simp only [if_true, Option.some.injEq] at hs
                exact ⟨i, List.mem_append_right _ (by simp), hn, hev, x, hxm, hxid, by rw [← hs, hslot]⟩
              · simp only [hid, if_false] at hs
                obtain ⟨k, hk, rest'⟩ := hU2G id s hs; exact ⟨k, hmono hk, rest'⟩
            · intro herr k y hky hy
              rcases List.mem_append.mp hky with hk | hk
              · have := hU3 herr k y hk hy
                refine ⟨this.1, fun h2 => ?_⟩
                by_cases hyr : y = rid
                · simp [hyr]
                · simp only [hyr, if_false]; exact this.2 h2
              · simp only [List.mem_singleton, Prod.mk.injEq] at hk
                obtain ⟨rfl, rfl⟩ := hk
                exact ⟨fun h2 => absurd h2 hev, fun _ => by simp⟩

/-! ### loop 2 (copy) -/

theorem copyLead_isSome (rid : Int) (nl : List NonLead) (m : List Entry) : ∀ (o : Nat),
    (∃ x ∈ m, x.c.toFree = true ∧ x.c.id = rid) → (copyLead rid nl (canonLeads o m)).isSome = true := by
  induction m with
  | nil => intro o h; obtain ⟨x, hx, _⟩ := h; simp at hx
  | cons e es ih =>
    intro o h
    simp only [canonLeads, copyLead]
    by_cases hc : (e.c.toFree && decide (rid = e.c.id)) = true
    · simp [hc]
    · simp only [hc, Bool.false_eq_true, if_false]
      apply ih
      obtain ⟨x, hx, h1, h2⟩ := h
      rcases List.mem_cons.mp hx with rfl | hx
      · exfalso; apply hc; simp [h1, h2]
      · exact ⟨x, hx, h1, h2⟩

theorem copyLoop_ids (nc : NC) (ids : List Int)
    (h : ∀ rid ∈ ids, rid ≠ NC_REQ_NULL →
      (rid % 2 = 0 → (copyLead rid nc.put.nonlead nc.put.lead).isSome = true) ∧
      (¬ rid % 2 = 0 → (copyLead rid nc.get.nonlead nc.get.lead).isSome = true)) :
    (copyLoop nc ids).1 = nullIds ids := by
  induction ids with
  | nil => rfl
  | cons rid rest ih =>
    have ih' := ih (fun r hr => h r (List.mem_cons_of_mem _ hr))
    simp only [copyLoop, nullIds, List.map_cons]
    by_cases hn : rid = NC_REQ_NULL
    · simp only [hn, if_true]; rw [ih']; rfl
    · simp only [hn, if_false]
      have hh := h rid List.mem_cons_self hn
      by_cases hev : rid % 2 = 0
      · simp only [hev, if_true]
        cases hc : copyLead rid nc.put.nonlead nc.put.lead with
        | none => have := hh.1 hev; rw [hc] at this; simp at this
        | some sl => simp only; rw [ih']; rfl
      · simp only [hev, if_false]
        cases hc : copyLead rid nc.get.nonlead nc.get.lead with
        | none => have := hh.2 hev; rw [hc] at this; simp at this
        | some sl => simp only; rw [ih']; rfl

/-! ### assembling the subset path -/

def NoEmpty (v : List Entry) : Prop := ∀ e ∈ v, e.subs ≠ []

/-- none of the shortcuts of extract_reqs applies -/
def SubsetPath (nc : NC) (num : Int) (ids : List Int) (st : Option (List Int)) (V : Variant := {}) : Prop :=
  ¬ (num = NC_REQ_ALL ∨ num = NC_GET_REQ_ALL ∨ num = NC_PUT_REQ_ALL) ∧
  ¬ sc1 V nc num ids ∧ ¬ sc2 V nc num ids ∧ ¬ sc3 V nc num ids st

theorem applyMark_none (v : List Entry) : v.map (applyMark (fun _ => none)) = v := by
  induction v with
  | nil => rfl
  | cons e es ih => simp [applyMark, ih]

theorem flagged_clean (v : List Entry) (h : Clean v) : flagged v = [] := by
  unfold flagged
  rw [List.filter_eq_nil_iff]
  intro e he; simp [h e he]

theorem rep_marked (q : Q) (v : List Entry) (h : Rep q v) (mk : Int → Option (Option Nat)) :
    Rep { q with lead := canonLeads 0 (v.map (applyMark mk)) } (v.map (applyMark mk)) := by
  refine ⟨rfl, ?_, ?_, ?_⟩
  · simp only; rw [h.nonlead]; exact (canonNL_congr _ _ (map_applyMark_subs mk v) 0).symm
  · simp [h.numLead]
  · simp only; rw [h.numReqs]; exact (total_congr _ _ (map_applyMark_subs mk v)).symm

theorem flaggedLeads_core : ∀ (o : Nat) (m : List Entry),
    (flaggedLeads o m).map (fun l => l.c) = (flagged m).map (fun e => e.c) := by
  intro o m
  induction m generalizing o with
  | nil => rfl
  | cons e es ih =>
    by_cases h : e.c.toFree = true
    · simp [flaggedLeads, flagged, List.filter_cons, h]; simpa [flagged] using ih _
    · have h' : e.c.toFree = false := by simpa using h
      simp [flaggedLeads, flagged, List.filter_cons, h']; simpa [flagged] using ih _

theorem flagged_map_applyMark (mk : Int → Option (Option Nat)) (v : List Entry) (hc : Clean v) :
    flagged (v.map (applyMark mk)) = (v.filter (fun e => (mk e.c.id).isSome)).map (applyMark mk) := by
  induction v with
  | nil => rfl
  | cons e es ih =>
    have hc' : Clean es := fun x hx => hc x (List.mem_cons_of_mem _ hx)
    have hce : e.c.toFree = false := hc e List.mem_cons_self
    have ih' := ih hc'
    simp only [flagged] at ih' ⊢
    simp only [List.map_cons, List.filter_cons]
    cases hm : mk e.c.id with
    | none =>
      have : applyMark mk e = e := by unfold applyMark; rw [hm]
      simp [this, hce, ih']
    | some s =>
      have : applyMark mk e = flagE s e := by unfold applyMark; rw [hm]
      simp [this, flagE, ih']

/-- the record count the blocking calls would leave: the maximum over the completed puts -/
def maxRecOf (numrecs : Int) (done : List Lead) : Int :=
  done.foldl (fun acc l => if acc < l.c.maxRec then l.c.maxRec else acc) numrecs

theorem maxRecOf_congr (n : Int) (A B : List Lead) (h : A.map (fun l => l.c) = B.map (fun l => l.c)) :
    maxRecOf n A = maxRecOf n B := by
  unfold maxRecOf
  induction A generalizing B n with
  | nil => cases B with | nil => rfl | cons _ _ => simp at h
  | cons a as ih =>
    cases B with
    | nil => simp at h
    | cons b bs =>
      simp only [List.map_cons, List.cons.injEq] at h
      simp only [List.foldl_cons, h.1]
      exact ih _ bs h.2

theorem maxRecOf_ge (L : List Lead) : ∀ n, n ≤ maxRecOf n L := by
  induction L with
  | nil => intro n; exact Int.le_refl _
  | cons l ls ih =>
    intro n
    simp only [maxRecOf, List.foldl_cons]
    split
    · have := ih l.c.maxRec; unfold maxRecOf at this; omega
    · exact ih n

/-- the scan of req_commit over a lead list that is not longer than the bound: the maximum over
    the flagged leads -/
theorem newNumrecs_eq (n : Int) (k : Nat) (L : List Lead) (hk : L.length ≤ k) (h0 : 0 ≤ n) :
    newNumrecs n k L = maxRecOf n (L.filter (fun l => l.c.toFree)) ∧
    n ≤ maxRecOf n (L.filter (fun l => l.c.toFree)) := by
  refine ⟨?_, maxRecOf_ge _ n⟩
  unfold newNumrecs
  rw [List.take_of_length_le hk]
  unfold maxRecOf
  induction L generalizing n with
  | nil => rfl
  | cons l ls ih =>
    simp only [List.foldl_cons, List.filter_cons]
    by_cases hf : l.c.toFree = true
    · simp only [hf, not_true_eq_false, or_false, if_true, List.foldl_cons]
      by_cases hm : l.c.maxRec < 0
      · have : ¬ n < l.c.maxRec := by omega
        simp only [hm, if_true, this, if_false]
        exact ih n (by simp at hk; omega) h0
      · simp only [hm, if_false]
        by_cases h2 : n < l.c.maxRec
        · simp only [h2, if_true]; exact ih _ (by simp at hk; omega) (by omega)
        · simp only [h2, if_false]; exact ih n (by simp at hk; omega) h0
    · have hf' : l.c.toFree = false := by simpa using hf
      simp only [hf', Bool.false_eq_true, not_false_eq_true, or_true, if_true, if_false]
      exact ih n (by simp at hk; omega) h0

theorem canonLeads_flagged_core : ∀ (o : Nat) (m : List Entry),
    ((canonLeads o m).filter (fun l => l.c.toFree)).map (fun l => l.c) = (flagged m).map (fun x => x.c) := by
  intro o m
  induction m generalizing o with
  | nil => rfl
  | cons e es ih =>
    by_cases h : e.c.toFree = true
    · simp [canonLeads, flagged, List.filter_cons, h]; simpa [flagged] using ih _
    · have h' : e.c.toFree = false := by simpa using h
      simp [canonLeads, flagged, List.filter_cons, h']; simpa [flagged] using ih _

theorem reoff_flagged_core : ∀ (k o : Nat) (m : List Entry),
    ((reoff k o m).filter (fun l => l.c.toFree)).map (fun l => l.c) = (flagged m).map (fun x => x.c) := by
  intro k o m
  induction m generalizing k o with
  | nil => rfl
  | cons e es ih =>
    by_cases h : e.c.toFree = true
    · simp [reoff, flagged, List.filter_cons, h]; simpa [flagged] using ih _ _
    · have h' : e.c.toFree = false := by simpa using h
      simp [reoff, flagged, List.filter_cons, h']; simpa [flagged] using ih _ _

theorem reoff_length : ∀ (k o : Nat) (m : List Entry), (reoff k o m).length = m.length := by
  intro k o m
  induction m generalizing k o with
  | nil => rfl
  | cons e es ih => by_cases h : e.c.toFree = true <;> simp [reoff, h, ih]

/-- the state after a successful wait on an explicit id list that takes the subset path -/
theorem wait_subset (nc0 : NC) (vP vG : List Entry)
    (hP : Rep nc0.put vP) (hG : Rep nc0.get vG)
    (hcP : Clean vP) (hcG : Clean vG) (hdP : Distinct vP) (hdG : Distinct vG)
    (hneP : NoEmpty vP) (hneG : NoEmpty vG)
    (hparP : ∀ e ∈ vP, e.c.id % 2 = 0 ∧ e.c.id ≠ NC_REQ_NULL)
    (hparG : ∀ e ∈ vG, ¬ e.c.id % 2 = 0 ∧ e.c.id ≠ NC_REQ_NULL)
    (num : Int) (ids : List Int) (st : Option (List Int)) (V : Variant)
    (hsub : SubsetPath nc0 num ids st V) (herr : (wait nc0 num ids st V).err = NC_NOERR) :
    Rep (wait nc0 num ids st V).nc.put (vP.filter (fun e => decide (e.c.id ∉ ids))) ∧
    Rep (wait nc0 num ids st V).nc.get (vG.filter (fun e => decide (e.c.id ∉ ids))) ∧
    (wait nc0 num ids st V).ids = nullIds ids ∧
    (wait nc0 num ids st V).donePut.map (fun l => l.c.id) = (vP.filter (fun e => decide (e.c.id ∈ ids))).map (fun e => e.c.id) ∧
    (wait nc0 num ids st V).doneGet.map (fun l => l.c.id) = (vG.filter (fun e => decide (e.c.id ∈ ids))).map (fun e => e.c.id) ∧
    (∀ l ∈ (wait nc0 num ids st V).donePut ++ (wait nc0 num ids st V).doneGet, l.c.toFree = true ∧
        (st.isSome = true → ∃ i, l.c.status = some i ∧ ids[i]? = some l.c.id)) ∧
    (wait nc0 num ids st V).nc.put.maxId = nc0.put.maxId ∧ (wait nc0 num ids st V).nc.get.maxId = nc0.get.maxId ∧
    (V.numrecsAllLeads = true → 0 ≤ nc0.numrecs →
      (wait nc0 num ids st V).nc.numrecs = maxRecOf nc0.numrecs (wait nc0 num ids st V).donePut) := by
  obtain ⟨hs0, hs1, hs2, hs3⟩ := hsub
  have hbase : MI nc0 vP vG st.isSome [] { nc := nc0, ids := ids, st := st } := by
    refine ⟨fun _ => none, fun _ => none, ?_, ?_, rfl, ?_, ?_, ?_, ?_, rfl, ?_, ?_, ?_⟩
    · rw [applyMark_none, ← hP.lead]
    · rw [applyMark_none, ← hG.lead]
    · rw [applyMark_none, flagged_clean vP hcP]; rfl
    · rw [applyMark_none, flagged_clean vP hcP]; rfl
    · rw [applyMark_none, flagged_clean vG hcG]; rfl
    · rw [applyMark_none, flagged_clean vG hcG]; rfl
    · intro id s h; simp at h
    · intro id s h; simp at h
    · intro _ i rid h; simp at h
  have hmi := markLoop_MI nc0 vP vG st.isSome hcP hdP hcG hdG ids 0 [] _ hbase
  simp only [List.nil_append] at hmi
  -- unfold wait / extract along the subset path
  have hext : extract nc0 num ids st V =
      (let e := markLoop 0 ids { nc := nc0, ids := ids, st := st }
       if e.err ≠ NC_NOERR then
         (if V.clearOnRefusal then
            { e with nc := { e.nc with put := { e.nc.put with lead := clearMarks e.nc.put.lead },
                                       get := { e.nc.get with lead := clearMarks e.nc.get.lead } } }
          else e)
       else
         let c := copyLoop e.nc ids
         { e with ids := c.1, putList := c.2.1, getList := c.2.2,
                  nc := { e.nc with put := e.nc.put.compact e.numW, get := e.nc.get.compact e.numR } }) := by
    unfold extract
    simp only [hs0, hs1, hs2, hs3, if_false]
  generalize hE : markLoop 0 ids { nc := nc0, ids := ids, st := st } = e at hmi hext
  have he0 : e.err = NC_NOERR := by
    by_cases h : e.err = NC_NOERR
    · exact h
    · exfalso
      have : (wait nc0 num ids st V).err = e.err := by
        unfold wait; rw [hext]
        by_cases hv : V.clearOnRefusal = true <;> simp [h, hv]
      rw [this] at herr; exact h herr
  obtain ⟨mkP, mkG, hput, hget, hnr, hwl, hw, hrl, hr, hst, hU2P, hU2G, hU3⟩ := hmi
  have hU3' := hU3 he0
  -- the two queues after marking are canonical for the marked lists
  have hRP := rep_marked nc0.put vP hP mkP
  have hRG := rep_marked nc0.get vG hG mkG
  rw [← hput] at hRP
  rw [← hget] at hRG
  have hneP' : ∀ x ∈ vP.map (applyMark mkP), x.subs ≠ [] := by
    intro x hx; obtain ⟨y, hy, rfl⟩ := List.mem_map.mp hx; rw [applyMark_subs]; exact hneP y hy
  have hneG' : ∀ x ∈ vG.map (applyMark mkG), x.subs ≠ [] := by
    intro x hx; obtain ⟨y, hy, rfl⟩ := List.mem_map.mp hx; rw [applyMark_subs]; exact hneG y hy
  have hCP := compact_cleanup_rep e.nc.put _ hRP hneP'
  have hCG := compact_cleanup_rep e.nc.get _ hRG hneG'
  rw [← hw, ← hwl] at hCP
  rw [← hr, ← hrl] at hCG
  -- membership in ids <-> marked
  have hmemP : ∀ x ∈ vP, (mkP x.c.id).isNone = decide (x.c.id ∉ ids) := by
    intro x hx
    have hp := hparP x hx
    cases hm : mkP x.c.id with
    | none =>
      simp only [Option.isNone_none]
      symm; rw [decide_eq_true_iff]
      intro hin
      obtain ⟨k, hk⟩ := List.getElem?_of_mem hin
      have := (hU3' k x.c.id ((mem_idxFrom ids 0 k x.c.id).mpr ⟨Nat.zero_le _, by simpa using hk⟩) hp.2).1 hp.1
      rw [hm] at this; simp at this
    | some s =>
      simp only [Option.isNone_some]
      symm; rw [decide_eq_false_iff_not, Classical.not_not]
      obtain ⟨k, hk, _⟩ := hU2P _ _ hm
      have := (mem_idxFrom ids 0 k x.c.id).mp hk
      exact List.mem_of_getElem? (by simpa using this.2)
  have hmemG : ∀ x ∈ vG, (mkG x.c.id).isNone = decide (x.c.id ∉ ids) := by
    intro x hx
    have hp := hparG x hx
    cases hm : mkG x.c.id with
    | none =>
      simp only [Option.isNone_none]
      symm; rw [decide_eq_true_iff]
      intro hin
      obtain ⟨k, hk⟩ := List.getElem?_of_mem hin
      have := (hU3' k x.c.id ((mem_idxFrom ids 0 k x.c.id).mpr ⟨Nat.zero_le _, by simpa using hk⟩) hp.2).2 hp.1
      rw [hm] at this; simp at this
    | some s =>
      simp only [Option.isNone_some]
      symm; rw [decide_eq_false_iff_not, Classical.not_not]
      obtain ⟨k, hk, _⟩ := hU2G _ _ hm
      have := (mem_idxFrom ids 0 k x.c.id).mp hk
      exact List.mem_of_getElem? (by simpa using this.2)
  have hkP : kept (vP.map (applyMark mkP)) = vP.filter (fun e => decide (e.c.id ∉ ids)) := by
    rw [kept_map_applyMark mkP vP hcP]
    exact List.filter_congr (fun x hx => hmemP x hx)
  have hkG : kept (vG.map (applyMark mkG)) = vG.filter (fun e => decide (e.c.id ∉ ids)) := by
    rw [kept_map_applyMark mkG vG hcG]
    exact List.filter_congr (fun x hx => hmemG x hx)
  -- every named id is found by the copy loop
  have hcopy : (copyLoop e.nc ids).1 = nullIds ids := by
    apply copyLoop_ids
    intro rid hrid hn
    obtain ⟨k, hk⟩ := List.getElem?_of_mem hrid
    have hsome := hU3' k rid ((mem_idxFrom ids 0 k rid).mpr ⟨Nat.zero_le _, by simpa using hk⟩) hn
    constructor
    · intro hev
      have h1 := hsome.1 hev
      obtain ⟨s, hs⟩ := Option.isSome_iff_exists.mp h1
      obtain ⟨_, _, _, _, x, hx, hxid, _⟩ := hU2P _ _ hs
      rw [hput]
      apply copyLead_isSome
      refine ⟨applyMark mkP x, List.mem_map_of_mem hx, ?_, ?_⟩
      · unfold applyMark; rw [hxid, hs]; rfl
      · rw [applyMark_id]; exact hxid
    · intro hev
      have h1 := hsome.2 hev
      obtain ⟨s, hs⟩ := Option.isSome_iff_exists.mp h1
      obtain ⟨_, _, _, _, x, hx, hxid, _⟩ := hU2G _ _ hs
      rw [hget]
      apply copyLead_isSome
      refine ⟨applyMark mkG x, List.mem_map_of_mem hx, ?_, ?_⟩
      · unfold applyMark; rw [hxid, hs]; rfl
      · rw [applyMark_id]; exact hxid
  -- compute `wait`
  have hw_put : (wait nc0 num ids st V).nc.put = ((e.nc.put.compact e.numW).cleanup e.numWLead).1 := by
    unfold wait; rw [hext]; simp [he0]
  have hw_get : (wait nc0 num ids st V).nc.get = ((e.nc.get.compact e.numR).cleanup e.numRLead).1 := by
    unfold wait; rw [hext]; simp [he0]
  have hw_ids : (wait nc0 num ids st V).ids = (copyLoop e.nc ids).1 := by
    unfold wait; rw [hext]; simp [he0]
  have hw_dp : (wait nc0 num ids st V).donePut = ((e.nc.put.compact e.numW).cleanup e.numWLead).2 := by
    unfold wait; rw [hext]; simp [he0]
  have hw_dg : (wait nc0 num ids st V).doneGet = ((e.nc.get.compact e.numR).cleanup e.numRLead).2 := by
    unfold wait; rw [hext]; simp [he0]
  have hw_nr : V.numrecsAllLeads = true → (wait nc0 num ids st V).nc.numrecs =
      (if e.numW > 0 ∧ nc0.numrecs < newNumrecs nc0.numrecs nc0.put.numLead (e.nc.put.compact e.numW).lead
       then newNumrecs nc0.numrecs nc0.put.numLead (e.nc.put.compact e.numW).lead else nc0.numrecs) := by
    intro hv
    have hnl : (e.nc.put.compact e.numW).numLead = nc0.put.numLead := by
      unfold Q.compact; rw [hput]; split <;> rfl
    unfold wait; rw [hext]; simp [he0, hv, hnl]
  have hnumrecs : V.numrecsAllLeads = true → 0 ≤ nc0.numrecs →
      (wait nc0 num ids st V).nc.numrecs = maxRecOf nc0.numrecs ((e.nc.put.compact e.numW).cleanup e.numWLead).2 := by
    intro hv h0
    rw [hw_nr hv, hCP.2]
    -- the lead list scanned by req_commit: canonical or re-offset, same cores in the same order
    have hcore : ((e.nc.put.compact e.numW).lead.filter (fun l => l.c.toFree)).map (fun l => l.c)
        = (flagged (vP.map (applyMark mkP))).map (fun x => x.c) := by
      unfold Q.compact
      split
      · rw [hput]; exact canonLeads_flagged_core 0 _
      · have hcg := compactGo_canon (vP.map (applyMark mkP)) [] [] 0 0
        simp only [List.nil_append, List.append_nil, List.length_nil] at hcg
        simp only [hRP.lead, hRP.nonlead, hcg]
        exact reoff_flagged_core 0 0 _
    have hlen : (e.nc.put.compact e.numW).lead.length ≤ nc0.put.numLead := by
      have : (e.nc.put.compact e.numW).lead.length = vP.length := by
        unfold Q.compact
        split
        · rw [hput]; simp
        · have hcg := compactGo_canon (vP.map (applyMark mkP)) [] [] 0 0
          simp only [List.nil_append, List.append_nil, List.length_nil] at hcg
          simp only [hRP.lead, hRP.nonlead, hcg, reoff_length]; simp
      rw [this, hP.numLead]; exact Nat.le_refl _
    have hnn := newNumrecs_eq nc0.numrecs nc0.put.numLead _ hlen h0
    rw [hnn.1]
    have hmr : maxRecOf nc0.numrecs ((e.nc.put.compact e.numW).lead.filter (fun l => l.c.toFree))
        = maxRecOf nc0.numrecs (flaggedLeads 0 (vP.map (applyMark mkP))) := by
      apply maxRecOf_congr
      rw [hcore, flaggedLeads_core]
    rw [hmr]
    by_cases hw0 : e.numW > 0
    · have := hnn.2
      rw [hmr] at this
      split
      · rfl
      · rename_i hc
        have : ¬ nc0.numrecs < maxRecOf nc0.numrecs (flaggedLeads 0 (vP.map (applyMark mkP))) := fun hh => hc ⟨hw0, hh⟩
        omega
    · have hz : total (flagged (vP.map (applyMark mkP))) = 0 := by rw [← hw]; omega
      have hf := flagged_nil_of_total _ hneP' hz
      have : flaggedLeads 0 (vP.map (applyMark mkP)) = [] := by
        have h1 := flaggedLeads_core 0 (vP.map (applyMark mkP))
        rw [hf] at h1
        simpa using h1
      rw [this]
      simp [maxRecOf, hw0]
  rw [hw_put, hw_get, hw_ids, hw_dp, hw_dg]
  have hmaxP : ((e.nc.put.compact e.numW).cleanup e.numWLead).1.maxId = nc0.put.maxId := by
    unfold Q.cleanup Q.compact; rw [hput]; split <;> split <;> rfl
  have hmaxG : ((e.nc.get.compact e.numR).cleanup e.numRLead).1.maxId = nc0.get.maxId := by
    unfold Q.cleanup Q.compact; rw [hget]; split <;> split <;> rfl
  refine ⟨?_, ?_, hcopy, ?_, ?_, ?_, hmaxP, hmaxG, hnumrecs⟩
  · rw [← hkP]; exact hCP.1
  · rw [← hkG]; exact hCG.1
  · rw [hCP.2]
    have := flaggedLeads_core 0 (vP.map (applyMark mkP))
    have h2 : (flaggedLeads 0 (vP.map (applyMark mkP))).map (fun l => l.c.id)
        = ((flaggedLeads 0 (vP.map (applyMark mkP))).map (fun l => l.c)).map (fun c => c.id) := by
      simp [List.map_map, Function.comp_def]
    rw [h2, this, flagged_map_applyMark mkP vP hcP]
    simp only [List.map_map, Function.comp_def, applyMark_id]
    congr 1
    apply List.filter_congr
    intro x hx
    have := hmemP x hx
    cases hm : mkP x.c.id <;> simp [hm] at this ⊢ <;> simpa using this
  · rw [hCG.2]
    have := flaggedLeads_core 0 (vG.map (applyMark mkG))
    have h2 : (flaggedLeads 0 (vG.map (applyMark mkG))).map (fun l => l.c.id)
        = ((flaggedLeads 0 (vG.map (applyMark mkG))).map (fun l => l.c)).map (fun c => c.id) := by
      simp [List.map_map, Function.comp_def]
    rw [h2, this, flagged_map_applyMark mkG vG hcG]
    simp only [List.map_map, Function.comp_def, applyMark_id]
    congr 1
    apply List.filter_congr
    intro x hx
    have := hmemG x hx
    cases hm : mkG x.c.id <;> simp [hm] at this ⊢ <;> simpa using this
  · intro l hl
    rw [hCP.2, hCG.2] at hl
    -- l's core is the core of a flagged entry
    have hcore : ∀ (m : List Entry) (l : Lead), l ∈ flaggedLeads 0 m → ∃ x ∈ flagged m, l.c = x.c := by
      intro m l hl
      have h1 : l.c ∈ (flaggedLeads 0 m).map (fun l => l.c) := List.mem_map_of_mem hl
      rw [flaggedLeads_core] at h1
      obtain ⟨x, hx, hxc⟩ := List.mem_map.mp h1
      exact ⟨x, hx, hxc.symm⟩
    rcases List.mem_append.mp hl with h | h
    · obtain ⟨x, hx, hxc⟩ := hcore _ l h
      rw [flagged_map_applyMark mkP vP hcP] at hx
      obtain ⟨y, hy, rfl⟩ := List.mem_map.mp hx
      have hy' := List.mem_filter.mp hy
      obtain ⟨s, hs⟩ := Option.isSome_iff_exists.mp hy'.2
      obtain ⟨k, hk, _, _, z, hz, hzid, hsz⟩ := hU2P _ _ hs
      have hap : applyMark mkP y = flagE s y := by unfold applyMark; rw [hs]
      rw [hxc, hap]
      refine ⟨rfl, ?_⟩
      intro hsome
      have hkk := (mem_idxFrom ids 0 k y.c.id).mp hk
      refine ⟨k, ?_, by simpa [flagE] using hkk.2⟩
      rw [hsz]
      simp [flagE, newStatus, slotOf, hsome]
    · obtain ⟨x, hx, hxc⟩ := hcore _ l h
      rw [flagged_map_applyMark mkG vG hcG] at hx
      obtain ⟨y, hy, rfl⟩ := List.mem_map.mp hx
      have hy' := List.mem_filter.mp hy
      obtain ⟨s, hs⟩ := Option.isSome_iff_exists.mp hy'.2
      obtain ⟨k, hk, _, _, z, hz, hzid, hsz⟩ := hU2G _ _ hs
      have hap : applyMark mkG y = flagE s y := by unfold applyMark; rw [hs]
      rw [hxc, hap]
      refine ⟨rfl, ?_⟩
      intro hsome
      have hkk := (mem_idxFrom ids 0 k y.c.id).mp hk
      refine ⟨k, ?_, by simpa [flagE] using hkk.2⟩
      rw [hsz]
      simp [flagE, newStatus, slotOf, hsome]

/-! ### a refused wait in the repaired variant (clearOnRefusal) -/

def clearE (e : Entry) : Entry := { e with c := { e.c with toFree := false, status := none } }

theorem clearMarks_canon : ∀ (o : Nat) (m : List Entry), clearMarks (canonLeads o m) = canonLeads o (m.map clearE) := by
  intro o m
  induction m generalizing o with
  | nil => rfl
  | cons e es ih =>
    simp only [canonLeads, clearMarks, List.map_cons] at ih ⊢
    rw [ih]; rfl

theorem clearE_applyMark (mk : Int → Option (Option Nat)) (e : Entry) : clearE (applyMark mk e) = clearE e := by
  unfold applyMark; cases mk e.c.id <;> rfl

/-- with the repair of F19, a refused wait leaves both queues in canonical form for the same pending
    requests (flags clear, status pointers reset) -/
theorem wait_refused_fixed (nc0 : NC) (vP vG : List Entry)
    (hP : Rep nc0.put vP) (hG : Rep nc0.get vG)
    (hcP : Clean vP) (hcG : Clean vG) (hdP : Distinct vP) (hdG : Distinct vG)
    (num : Int) (ids : List Int) (st : Option (List Int)) (V : Variant) (hV : V.clearOnRefusal = true)
    (hsub : SubsetPath nc0 num ids st V) (herr : (wait nc0 num ids st V).err ≠ NC_NOERR) :
    Rep (wait nc0 num ids st V).nc.put (vP.map clearE) ∧ Rep (wait nc0 num ids st V).nc.get (vG.map clearE) ∧
    (wait nc0 num ids st V).nc.put.maxId = nc0.put.maxId ∧ (wait nc0 num ids st V).nc.get.maxId = nc0.get.maxId ∧
    (wait nc0 num ids st V).nc.numrecs = nc0.numrecs := by
  obtain ⟨hs0, hs1, hs2, hs3⟩ := hsub
  have hbase : MI nc0 vP vG st.isSome [] { nc := nc0, ids := ids, st := st } := by
    refine ⟨fun _ => none, fun _ => none, ?_, ?_, rfl, ?_, ?_, ?_, ?_, rfl, ?_, ?_, ?_⟩
    · rw [applyMark_none, ← hP.lead]
    · rw [applyMark_none, ← hG.lead]
    · rw [applyMark_none, flagged_clean vP hcP]; rfl
    · rw [applyMark_none, flagged_clean vP hcP]; rfl
    · rw [applyMark_none, flagged_clean vG hcG]; rfl
    · rw [applyMark_none, flagged_clean vG hcG]; rfl
    · intro id s h; simp at h
    · intro id s h; simp at h
    · intro _ i rid h; simp at h
  have hmi := markLoop_MI nc0 vP vG st.isSome hcP hdP hcG hdG ids 0 [] _ hbase
  have hext : extract nc0 num ids st V =
      (let e := markLoop 0 ids { nc := nc0, ids := ids, st := st }
       if e.err ≠ NC_NOERR then
         (if V.clearOnRefusal then
            { e with nc := { e.nc with put := { e.nc.put with lead := clearMarks e.nc.put.lead },
                                       get := { e.nc.get with lead := clearMarks e.nc.get.lead } } }
          else e)
       else
         let c := copyLoop e.nc ids
         { e with ids := c.1, putList := c.2.1, getList := c.2.2,
                  nc := { e.nc with put := e.nc.put.compact e.numW, get := e.nc.get.compact e.numR } }) := by
    unfold extract
    simp only [hs0, hs1, hs2, hs3, if_false]
  generalize hE : markLoop 0 ids { nc := nc0, ids := ids, st := st } = e at hmi hext
  have he : e.err ≠ NC_NOERR := by
    intro h0
    apply herr
    unfold wait; rw [hext]; simp [h0]
  obtain ⟨mkP, mkG, hput, hget, hnr, _, _, _, _, _, _, _, _⟩ := hmi
  have hw : (wait nc0 num ids st V).nc =
      { e.nc with put := { e.nc.put with lead := clearMarks e.nc.put.lead },
                  get := { e.nc.get with lead := clearMarks e.nc.get.lead } } := by
    unfold wait; rw [hext]; simp [he, hV]
  rw [hw]
  simp only
  have hmapP : (vP.map (applyMark mkP)).map clearE = vP.map clearE := by
    rw [List.map_map]; apply List.map_congr_left; intro x _; exact clearE_applyMark mkP x
  have hmapG : (vG.map (applyMark mkG)).map clearE = vG.map clearE := by
    rw [List.map_map]; apply List.map_congr_left; intro x _; exact clearE_applyMark mkG x
  have hsubsP : (vP.map clearE).map (fun e => e.subs) = vP.map (fun e => e.subs) := by
    simp [List.map_map, Function.comp_def, clearE]
  have hsubsG : (vG.map clearE).map (fun e => e.subs) = vG.map (fun e => e.subs) := by
    simp [List.map_map, Function.comp_def, clearE]
  refine ⟨⟨?_, ?_, ?_, ?_⟩, ⟨?_, ?_, ?_, ?_⟩, ?_, ?_, hnr⟩
  · simp only; rw [hput]; simp only; rw [clearMarks_canon, hmapP]
  · simp only; rw [hput]; simp only; rw [hP.nonlead]; exact (canonNL_congr _ _ hsubsP 0).symm
  · simp only; rw [hput]; simp [hP.numLead]
  · simp only; rw [hput]; simp only; rw [hP.numReqs]; exact (total_congr _ _ hsubsP).symm
  · simp only; rw [hget]; simp only; rw [clearMarks_canon, hmapG]
  · simp only; rw [hget]; simp only; rw [hG.nonlead]; exact (canonNL_congr _ _ hsubsG 0).symm
  · simp only; rw [hget]; simp [hG.numLead]
  · simp only; rw [hget]; simp only; rw [hG.numReqs]; exact (total_congr _ _ hsubsG).symm
  · rw [hput]
  · rw [hget]

end PnVerif.ReqQueue
