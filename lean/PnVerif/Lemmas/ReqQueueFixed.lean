import PnVerif.Lemmas.ReqQueueInv
/-
  The non-subset paths of extract_reqs (the three constants and the three shortcuts) for every
  code variant, and the statements that become true once a defect is repaired.
-/
namespace PnVerif.ReqQueue

def IsConst (num : Int) : Prop := num = NC_REQ_ALL ∨ num = NC_GET_REQ_ALL ∨ num = NC_PUT_REQ_ALL

theorem extract_sc1 (nc : NC) (num : Int) (ids : List Int) (st : Option (List Int)) (V : Variant)
    (hc : ¬ IsConst num) (hs1 : sc1 V nc num ids) :
    extract nc num ids st V =
      { nc := { nc with put := { nc.put with lead := flagAll (if st.isSome then slotByPosition 0 nc.put.lead else nc.put.lead),
                                             nonlead := [], numReqs := 0 } },
        ids := nullIds ids, st := st.map (zeroFirst nc.put.numLead),
        numWLead := nc.put.numLead, numW := nc.put.numReqs, putList := nc.put.nonlead } := by
  have hc' : ¬ (num = NC_REQ_ALL ∨ num = NC_GET_REQ_ALL ∨ num = NC_PUT_REQ_ALL) := hc
  unfold extract; dsimp only; rw [if_neg hc', if_pos hs1]

theorem extract_sc2 (nc : NC) (num : Int) (ids : List Int) (st : Option (List Int)) (V : Variant)
    (hc : ¬ IsConst num) (hs1 : ¬ sc1 V nc num ids) (hs2 : sc2 V nc num ids) :
    extract nc num ids st V =
      { nc := { nc with get := { nc.get with lead := flagAll (if st.isSome then slotByPosition 0 nc.get.lead else nc.get.lead),
                                             nonlead := [], numReqs := 0 } },
        ids := nullIds ids, st := st.map (zeroFirst nc.get.numLead),
        numRLead := nc.get.numLead, numR := nc.get.numReqs, getList := nc.get.nonlead } := by
  have hc' : ¬ (num = NC_REQ_ALL ∨ num = NC_GET_REQ_ALL ∨ num = NC_PUT_REQ_ALL) := hc
  unfold extract; dsimp only; rw [if_neg hc', if_neg hs1, if_pos hs2]

theorem extract_sc3 (nc : NC) (num : Int) (ids : List Int) (st : Option (List Int)) (V : Variant)
    (hc : ¬ IsConst num) (hs1 : ¬ sc1 V nc num ids) (hs2 : ¬ sc2 V nc num ids) (hs3 : sc3 V nc num ids st) :
    extract nc num ids st V =
      { nc := { nc with put := nc.put.takeAll, get := nc.get.takeAll },
        ids := nullIds ids, st := st,
        numWLead := nc.put.numLead, numW := nc.put.numReqs, putList := nc.put.nonlead,
        numRLead := nc.get.numLead, numR := nc.get.numReqs, getList := nc.get.nonlead } := by
  have hc' : ¬ (num = NC_REQ_ALL ∨ num = NC_GET_REQ_ALL ∨ num = NC_PUT_REQ_ALL) := hc
  unfold extract; dsimp only; rw [if_neg hc', if_neg hs1, if_neg hs2, if_pos hs3]

/-- only the subset path can refuse a wait -/
theorem err_of_not_subset (nc : NC) (num : Int) (ids : List Int) (st : Option (List Int)) (V : Variant)
    (h : ¬ SubsetPath nc num ids st V) : (wait nc num ids st V).err = NC_NOERR := by
  by_cases hc : IsConst num
  · rcases hc with hc | hc | hc <;> subst hc <;>
      simp [wait, extract, NC_PUT_REQ_ALL, NC_REQ_ALL, NC_GET_REQ_ALL, NC_NOERR]
  · by_cases hs1 : sc1 V nc num ids
    · unfold wait; rw [extract_sc1 nc num ids st V hc hs1]; simp [NC_NOERR]
    · by_cases hs2 : sc2 V nc num ids
      · unfold wait; rw [extract_sc2 nc num ids st V hc hs1 hs2]; simp [NC_NOERR]
      · by_cases hs3 : sc3 V nc num ids st
        · unfold wait; rw [extract_sc3 nc num ids st V hc hs1 hs2 hs3]; simp [NC_NOERR]
        · exact absurd ⟨hc, hs1, hs2, hs3⟩ h

theorem clearE_sub (v : List Entry) : (v.map clearE).map (fun e => (e.c.id, e.subs)) = v.map (fun e => (e.c.id, e.subs)) := by
  simp [List.map_map, Function.comp_def, clearE]

theorem QInv.clear {q q' : Q} {par : Int} {v : List Entry} (h : QInv q par v) (hr : Rep q' (v.map clearE))
    (hm : q'.maxId = q.maxId) : QInv q' par (v.map clearE) := by
  refine ⟨hr, ?_, ?_, ?_, ?_, ?_⟩
  · intro e he; obtain ⟨x, _, rfl⟩ := List.mem_map.mp he; rfl
  · unfold Distinct; rw [List.pairwise_map]; exact h.distinct
  · intro e he; obtain ⟨x, hx, rfl⟩ := List.mem_map.mp he; exact h.noEmpty x hx
  · intro e he; obtain ⟨x, hx, rfl⟩ := List.mem_map.mp he; rw [hm]; exact h.ids x hx
  · intro hne; rw [hm]; apply h.maxPar; intro hv; rw [hv] at hne; exact hne rfl

/-- with the repair of F19 EVERY wait keeps the invariant, refused or not -/
theorem wait_inv_fixed (nc : NC) (h : Inv nc) (num : Int) (ids : List Int) (st : Option (List Int)) (V : Variant)
    (hV : V.clearOnRefusal = true) : Inv (wait nc num ids st V).nc := by
  by_cases herr : (wait nc num ids st V).err = NC_NOERR
  · exact wait_inv nc h num ids st V herr
  · have hsub : SubsetPath nc num ids st V := by
      by_cases hs : SubsetPath nc num ids st V
      · exact hs
      · exact absurd (err_of_not_subset nc num ids st V hs) herr
    obtain ⟨vP, vG, hP, hG⟩ := h
    have hw := wait_refused_fixed nc vP vG hP.rep hG.rep hP.clean hG.clean hP.distinct hG.distinct num ids st V hV hsub herr
    exact ⟨_, _, hP.clear hw.1 hw.2.2.1, hG.clear hw.2.1 hw.2.2.2.1⟩

/-! ### the shortcuts when they also check the ids (repair of F4) -/

theorem idsOf_canon : ∀ (o : Nat) (v : List Entry), idsOf (canonLeads o v) = v.map (fun e => e.c.id) := by
  intro o v
  induction v generalizing o with
  | nil => rfl
  | cons e es ih => simp [idsOf, canonLeads] at ih ⊢; exact ih _

/-- the status slots handed out by position: lead i gets slot i -/
theorem slotByPosition_spec (L : List Lead) : ∀ (k : Nat) (l : Lead), l ∈ flagAll (slotByPosition k L) →
    l.c.toFree = true ∧ ∃ i, l.c.status = some (k + i) ∧ (idsOf L)[i]? = some l.c.id := by
  induction L with
  | nil => intro k l hl; simp [slotByPosition, flagAll] at hl
  | cons x xs ih =>
    intro k l hl
    simp only [slotByPosition, flagAll, List.map_cons, List.mem_cons] at hl
    rcases hl with rfl | hl
    · exact ⟨rfl, 0, rfl, by simp [idsOf]⟩
    · obtain ⟨h1, i, h2, h3⟩ := ih (k + 1) l hl
      refine ⟨h1, i + 1, ?_, ?_⟩
      · rw [h2]; congr 1; omega
      · simpa [idsOf] using h3

theorem cleanup_all_done (q : Q) (L : List Lead) (hlen : L.length = q.numLead) :
    (({ q with lead := flagAll L, nonlead := [], numReqs := 0 } : Q).cleanup q.numLead).2 = flagAll L := by
  unfold Q.cleanup
  by_cases h0 : q.numLead = 0
  · have : L = [] := List.eq_nil_of_length_eq_zero (by omega)
    subst this; simp [h0, flagAll]
  · simp only [h0, if_false, cleanupGo_allflagged (flagAll L) (flagAll_flagged L)]

theorem filter_all_in (v : List Entry) (ids : List Int) (h : ∀ e ∈ v, e.c.id ∈ ids) :
    v.filter (fun e => decide (e.c.id ∉ ids)) = [] := by
  rw [List.filter_eq_nil_iff]; intro e he; simp [h e he]

theorem filter_none_in (v : List Entry) (ids : List Int) (h : ∀ e ∈ v, e.c.id ∉ ids) :
    v.filter (fun e => decide (e.c.id ∉ ids)) = v := by
  rw [List.filter_eq_self]; intro e he; simp [h e he]

/-- result of a wait that takes the "same as NC_PUT_REQ_ALL" shortcut -/
theorem wait_sc1 (nc : NC) (num : Int) (ids : List Int) (st : Option (List Int)) (V : Variant)
    (hc : ¬ IsConst num) (hs1 : sc1 V nc num ids) :
    (wait nc num ids st V).nc.put =
      (({ nc.put with lead := flagAll (if st.isSome then slotByPosition 0 nc.put.lead else nc.put.lead),
                      nonlead := [], numReqs := 0 } : Q).cleanup nc.put.numLead).1 ∧
    (wait nc num ids st V).nc.get = nc.get ∧
    (wait nc num ids st V).ids = nullIds ids ∧
    (wait nc num ids st V).donePut =
      (({ nc.put with lead := flagAll (if st.isSome then slotByPosition 0 nc.put.lead else nc.put.lead),
                      nonlead := [], numReqs := 0 } : Q).cleanup nc.put.numLead).2 ∧
    (wait nc num ids st V).doneGet = [] := by
  unfold wait; rw [extract_sc1 nc num ids st V hc hs1]; simp [NC_NOERR, cleanup_zero]

theorem wait_sc2 (nc : NC) (num : Int) (ids : List Int) (st : Option (List Int)) (V : Variant)
    (hc : ¬ IsConst num) (hs1 : ¬ sc1 V nc num ids) (hs2 : sc2 V nc num ids) :
    (wait nc num ids st V).nc.get =
      (({ nc.get with lead := flagAll (if st.isSome then slotByPosition 0 nc.get.lead else nc.get.lead),
                      nonlead := [], numReqs := 0 } : Q).cleanup nc.get.numLead).1 ∧
    (wait nc num ids st V).nc.put = nc.put ∧
    (wait nc num ids st V).ids = nullIds ids ∧
    (wait nc num ids st V).doneGet =
      (({ nc.get with lead := flagAll (if st.isSome then slotByPosition 0 nc.get.lead else nc.get.lead),
                      nonlead := [], numReqs := 0 } : Q).cleanup nc.get.numLead).2 ∧
    (wait nc num ids st V).donePut = [] := by
  unfold wait; rw [extract_sc2 nc num ids st V hc hs1 hs2]; simp [NC_NOERR, cleanup_zero]

theorem wait_sc3 (nc : NC) (num : Int) (ids : List Int) (st : Option (List Int)) (V : Variant)
    (hc : ¬ IsConst num) (hs1 : ¬ sc1 V nc num ids) (hs2 : ¬ sc2 V nc num ids) (hs3 : sc3 V nc num ids st) :
    (wait nc num ids st V).nc.put = (nc.put.takeAll.cleanup nc.put.numLead).1 ∧
    (wait nc num ids st V).nc.get = (nc.get.takeAll.cleanup nc.get.numLead).1 ∧
    (wait nc num ids st V).ids = nullIds ids := by
  unfold wait; rw [extract_sc3 nc num ids st V hc hs1 hs2 hs3]; simp [NC_NOERR]

/-- what `wait_exact` / `status_by_id` / `ids_nulled` say -/
def WaitExact (nc : NC) (ids : List Int) (st : Option (List Int)) (r : WaitRes) : Prop :=
  r.nc.put.view = nc.put.view.filter (fun e => decide (e.c.id ∉ ids)) ∧
  r.nc.get.view = nc.get.view.filter (fun e => decide (e.c.id ∉ ids)) ∧
  r.ids = ids.map (fun _ => NC_REQ_NULL) ∧
  (∀ l ∈ r.donePut ++ r.doneGet, l.c.toFree = true ∧
      (st.isSome = true → ∃ i, l.c.status = some i ∧ ids[i]? = some l.c.id))

/-- with the repair of F4 (shortcuts only when req_ids[] is the queue's id list in queue order)
    every successful wait on an explicit id list is exact -/
theorem wait_exact_fixed (nc : NC) (h : Inv nc) (ids : List Int) (st : Option (List Int)) (V : Variant)
    (hV : V.shortcutChecksIds = true) (herr : (wait nc ids.length ids st V).err = NC_NOERR) :
    WaitExact nc ids st (wait nc ids.length ids st V) := by
  obtain ⟨vP, vG, hP, hG⟩ := h
  have hlP := lead_length_of_rep hP.rep
  have hlG := lead_length_of_rep hG.rep
  have evP := rep_view _ _ hP.rep
  have evG := rep_view _ _ hG.rep
  have hidP : idsOf nc.put.lead = vP.map (fun e => e.c.id) := by rw [hP.rep.lead]; exact idsOf_canon 0 vP
  have hidG : idsOf nc.get.lead = vG.map (fun e => e.c.id) := by rw [hG.rep.lead]; exact idsOf_canon 0 vG
  have hc : ¬ IsConst (ids.length : Int) := by
    unfold IsConst NC_REQ_ALL NC_GET_REQ_ALL NC_PUT_REQ_ALL; omega
  have hevenP : ∀ e ∈ vP, e.c.id % 2 = 0 := fun e he => (hP.ids e he).1
  have hoddG : ∀ e ∈ vG, e.c.id % 2 = 1 := fun e he => (hG.ids e he).1
  unfold WaitExact
  rw [evP, evG]
  by_cases hs1 : sc1 V nc ids.length ids
  · obtain ⟨h1, h2, h3, h4, h5⟩ := wait_sc1 nc ids.length ids st V hc hs1
    have hids : vP.map (fun e => e.c.id) = ids := by rw [← hidP]; exact hs1.2.2 hV
    have hpl : (if st.isSome then slotByPosition 0 nc.put.lead else nc.put.lead).length = nc.put.numLead := by
      split
      · rw [slotByPosition_length]; exact hlP
      · exact hlP
    rw [h1, h2, h3, h4, h5, rep_view _ _ (cleanup_all nc.put _ nc.put.numLead rfl hpl).1, evG,
        cleanup_all_done nc.put _ hpl]
    refine ⟨?_, ?_, rfl, ?_⟩
    · symm; apply filter_all_in
      intro e he; rw [← hids]; exact List.mem_map_of_mem he
    · symm; apply filter_none_in
      intro e he hin
      rw [← hids] at hin
      obtain ⟨x, hx, hxe⟩ := List.mem_map.mp hin
      have := hevenP x hx; have := hoddG e he; omega
    · intro l hl
      simp only [List.append_nil] at hl
      cases hst : st.isSome with
      | false =>
        rw [hst] at hl
        simp only [Bool.false_eq_true, if_false] at hl
        exact ⟨flagAll_flagged _ l hl, by intro h; exact absurd h (by simp)⟩
      | true =>
        rw [hst] at hl
        simp only [if_true] at hl
        obtain ⟨hf, i, hi1, hi2⟩ := slotByPosition_spec nc.put.lead 0 l hl
        refine ⟨hf, fun _ => ⟨i, by simpa using hi1, ?_⟩⟩
        rw [hidP, hids] at hi2; exact hi2
  · by_cases hs2 : sc2 V nc ids.length ids
    · obtain ⟨h1, h2, h3, h4, h5⟩ := wait_sc2 nc ids.length ids st V hc hs1 hs2
      have hids : vG.map (fun e => e.c.id) = ids := by rw [← hidG]; exact hs2.2.2 hV
      have hpl : (if st.isSome then slotByPosition 0 nc.get.lead else nc.get.lead).length = nc.get.numLead := by
        split
        · rw [slotByPosition_length]; exact hlG
        · exact hlG
      rw [h1, h2, h3, h4, h5, rep_view _ _ (cleanup_all nc.get _ nc.get.numLead rfl hpl).1, evP,
          cleanup_all_done nc.get _ hpl]
      refine ⟨?_, ?_, rfl, ?_⟩
      · symm; apply filter_none_in
        intro e he hin
        rw [← hids] at hin
        obtain ⟨x, hx, hxe⟩ := List.mem_map.mp hin
        have := hoddG x hx; have := hevenP e he; omega
      · symm; apply filter_all_in
        intro e he; rw [← hids]; exact List.mem_map_of_mem he
      · intro l hl
        simp only [List.nil_append] at hl
        cases hst : st.isSome with
        | false =>
          rw [hst] at hl
          simp only [Bool.false_eq_true, if_false] at hl
          exact ⟨flagAll_flagged _ l hl, by intro h; exact absurd h (by simp)⟩
        | true =>
          rw [hst] at hl
          simp only [if_true] at hl
          obtain ⟨hf, i, hi1, hi2⟩ := slotByPosition_spec nc.get.lead 0 l hl
          refine ⟨hf, fun _ => ⟨i, by simpa using hi1, ?_⟩⟩
          rw [hidG, hids] at hi2; exact hi2
    · by_cases hs3 : sc3 V nc ids.length ids st
      · obtain ⟨h1, h2, h3⟩ := wait_sc3 nc ids.length ids st V hc hs1 hs2 hs3
        have hids : vP.map (fun e => e.c.id) ++ vG.map (fun e => e.c.id) = ids := by
          rw [← hidP, ← hidG]; exact hs3.2.2 hV
        have hstn : st.isSome = false := by
          have := hs3.2.1; cases st <;> simp_all
        have hdone : ∀ l ∈ (wait nc ids.length ids st V).donePut ++ (wait nc ids.length ids st V).doneGet, l.c.toFree = true := by
          intro l hl
          have hdp : (wait nc ids.length ids st V).donePut = (nc.put.takeAll.cleanup nc.put.numLead).2 := by
            unfold wait; rw [extract_sc3 nc ids.length ids st V hc hs1 hs2 hs3]; simp [NC_NOERR]
          have hdg : (wait nc ids.length ids st V).doneGet = (nc.get.takeAll.cleanup nc.get.numLead).2 := by
            unfold wait; rw [extract_sc3 nc ids.length ids st V hc hs1 hs2 hs3]; simp [NC_NOERR]
          rw [hdp, hdg] at hl
          have e1 := cleanup_all_done nc.put nc.put.lead hlP
          have e2 := cleanup_all_done nc.get nc.get.lead hlG
          unfold Q.takeAll at hl
          rw [e1, e2] at hl
          rcases List.mem_append.mp hl with hl | hl
          · exact flagAll_flagged _ l hl
          · exact flagAll_flagged _ l hl
        have eP0 : (nc.put.takeAll.cleanup nc.put.numLead).1.view = [] :=
          rep_view _ _ (cleanup_all nc.put nc.put.lead nc.put.numLead rfl hlP).1
        have eG0 : (nc.get.takeAll.cleanup nc.get.numLead).1.view = [] :=
          rep_view _ _ (cleanup_all nc.get nc.get.lead nc.get.numLead rfl hlG).1
        rw [h1, h2, h3, eP0, eG0]
        refine ⟨?_, ?_, rfl, ?_⟩
        · symm; apply filter_all_in
          intro e he; rw [← hids]; exact List.mem_append_left _ (List.mem_map_of_mem he)
        · symm; apply filter_all_in
          intro e he; rw [← hids]; exact List.mem_append_right _ (List.mem_map_of_mem he)
        · intro l hl
          exact ⟨hdone l hl, by intro h; rw [hstn] at h; exact absurd h (by simp)⟩
      · have hsub : SubsetPath nc ids.length ids st V := ⟨hc, hs1, hs2, hs3⟩
        have hw := wait_subset nc vP vG hP.rep hG.rep hP.clean hG.clean hP.distinct hG.distinct hP.noEmpty hG.noEmpty
          (fun e he => ⟨(hP.ids e he).1, hP.ne_null e he⟩)
          (fun e he => ⟨by have := (hG.ids e he).1; omega, hG.ne_null e he⟩)
          ids.length ids st V hsub herr
        rw [rep_view _ _ hw.1, rep_view _ _ hw.2.1]
        exact ⟨rfl, rfl, hw.2.2.1, hw.2.2.2.2.2.1⟩

/-! ### numrecs on every path -/

theorem maxRecOf_flagAll_filter (n : Int) (L : List Lead) :
    maxRecOf n ((flagAll L).filter (fun l => l.c.toFree)) = maxRecOf n (flagAll L) := by
  have : (flagAll L).filter (fun l => l.c.toFree) = flagAll L := by
    rw [List.filter_eq_self]; intro l hl; exact flagAll_flagged L l hl
  rw [this]

/-- the record count after a wait whose put queue is extracted as a whole (constants, shortcuts),
    for every variant of the loop bound -/
theorem numrecs_allflagged (n : Int) (h0 : 0 ≤ n) (L : List Lead) (k numW : Nat) (hk : L.length = k)
    (hW : numW = 0 → L = []) :
    (if numW > 0 ∧ n < newNumrecs n k (flagAll L) then newNumrecs n k (flagAll L) else n)
      = maxRecOf n (flagAll L) := by
  have hnn := newNumrecs_eq n k (flagAll L) (by simp [flagAll, hk]) h0
  rw [hnn.1, maxRecOf_flagAll_filter]
  have hge := maxRecOf_ge (flagAll L) n
  by_cases hw : numW > 0
  · split
    · rfl
    · rename_i hc
      have : ¬ n < maxRecOf n (flagAll L) := fun hh => hc ⟨hw, hh⟩
      omega
  · have : L = [] := hW (by omega)
    subst this
    simp [maxRecOf, flagAll, hw]

/-- the put queue is empty when it has no non-lead requests -/
theorem lead_nil_of_numReqs {q : Q} {v : List Entry} (h : QInv q 0 v) (hz : q.numReqs = 0) : q.lead = [] := by
  have : total v = 0 := by rw [← h.rep.numReqs]; exact hz
  have hv : v = [] := by
    cases hvv : v with
    | nil => rfl
    | cons e es =>
      have hne := h.noEmpty e (by rw [hvv]; exact List.mem_cons_self)
      rw [hvv] at this; simp at this; exact absurd this.1 hne
  rw [h.rep.lead, hv]; rfl

/-- the record count after a wait that does NOT take the subset path (the three constants, the
    three shortcuts), for every code variant -/
theorem numrecs_nonsubset (nc : NC) (h : Inv nc) (h0 : 0 ≤ nc.numrecs) (num : Int) (ids : List Int)
    (st : Option (List Int)) (V : Variant) (hns : ¬ SubsetPath nc num ids st V) :
    (wait nc num ids st V).nc.numrecs = maxRecOf nc.numrecs (wait nc num ids st V).donePut := by
  obtain ⟨vP, vG, hP, hG⟩ := h
  have hlP := lead_length_of_rep hP.rep
  have hW0 : nc.put.numReqs = 0 → nc.put.lead = [] := lead_nil_of_numReqs hP
  -- the two shapes: whole put queue extracted / put queue untouched
  have hall : ∀ (L : List Lead), L.length = nc.put.numLead → (nc.put.numReqs = 0 → L = []) →
      (wait nc num ids st V).nc.numrecs =
        (if nc.put.numReqs > 0 ∧ nc.numrecs < newNumrecs nc.numrecs nc.put.numLead (flagAll L)
         then newNumrecs nc.numrecs nc.put.numLead (flagAll L) else nc.numrecs) →
      (wait nc num ids st V).donePut = (({ nc.put with lead := flagAll L, nonlead := [], numReqs := 0 } : Q).cleanup nc.put.numLead).2 →
      (wait nc num ids st V).nc.numrecs = maxRecOf nc.numrecs (wait nc num ids st V).donePut := by
    intro L hL hz e1 e2
    rw [e1, e2, cleanup_all_done nc.put L hL]
    exact numrecs_allflagged nc.numrecs h0 L nc.put.numLead nc.put.numReqs hL hz
  have hslotnil : nc.put.numReqs = 0 → (if st.isSome then slotByPosition 0 nc.put.lead else nc.put.lead) = [] := by
    intro hz; rw [hW0 hz]; split <;> rfl
  have hslotlen : (if st.isSome then slotByPosition 0 nc.put.lead else nc.put.lead).length = nc.put.numLead := by
    split
    · rw [slotByPosition_length]; exact hlP
    · exact hlP
  by_cases hc : IsConst num
  · rcases hc with hc | hc | hc
    · subst hc
      apply hall nc.put.lead hlP hW0 <;>
        simp [wait, extract, NC_PUT_REQ_ALL, NC_REQ_ALL, NC_GET_REQ_ALL, NC_NOERR, Q.takeAll]
    · subst hc
      have e1 : (wait nc NC_GET_REQ_ALL ids st V).nc.numrecs = nc.numrecs := by
        simp [wait, extract, NC_PUT_REQ_ALL, NC_REQ_ALL, NC_GET_REQ_ALL, NC_NOERR]
      have e2 : (wait nc NC_GET_REQ_ALL ids st V).donePut = [] := by
        simp [wait, extract, NC_PUT_REQ_ALL, NC_REQ_ALL, NC_GET_REQ_ALL, NC_NOERR, cleanup_zero]
      rw [e1, e2]; rfl
    · subst hc
      apply hall nc.put.lead hlP hW0 <;>
        simp [wait, extract, NC_PUT_REQ_ALL, NC_REQ_ALL, NC_GET_REQ_ALL, NC_NOERR, Q.takeAll]
  · by_cases hs1 : sc1 V nc num ids
    · apply hall _ hslotlen hslotnil
      · unfold wait; rw [extract_sc1 nc num ids st V hc hs1]; simp [NC_NOERR]
      · exact (wait_sc1 nc num ids st V hc hs1).2.2.2.1
    · by_cases hs2 : sc2 V nc num ids
      · have e1 : (wait nc num ids st V).nc.numrecs = nc.numrecs := by
          unfold wait; rw [extract_sc2 nc num ids st V hc hs1 hs2]; simp [NC_NOERR]
        rw [e1, (wait_sc2 nc num ids st V hc hs1 hs2).2.2.2.2]; rfl
      · by_cases hs3 : sc3 V nc num ids st
        · apply hall nc.put.lead hlP hW0
          · unfold wait; rw [extract_sc3 nc num ids st V hc hs1 hs2 hs3]; simp [NC_NOERR, Q.takeAll]
          · unfold wait; rw [extract_sc3 nc num ids st V hc hs1 hs2 hs3]; simp [NC_NOERR, Q.takeAll]
        · exact absurd ⟨hc, hs1, hs2, hs3⟩ hns

end PnVerif.ReqQueue
