import PnVerif.Lemmas.ToolsSound
/-
  Lemmas about the REPAIRED variants of ncvalidator (VCfg flags strictSign = F4, dimid64 = F6, strictTag = F5):
  what the added tests guarantee about every header the reader returns.  With F4 and F6 in place every field
  of an accepted header fits the width the format gives it (`Encodable` up to NUL bytes in names), so the
  hypothesis `Encodable` of `validate_sound_partial` is no longer needed.
-/
namespace PnVerif.Tools
open PnVerif.Spec PnVerif.Header

theorem beNat_lt4 (bs : Bytes) (h : bs.length = 4) : beNat bs < 4294967296 := by
  match bs, h with
  | [a, b, c, d], _ =>
    have ha := a.toNat_lt; have hb := b.toNat_lt; have hc := c.toNat_lt; have hd := d.toNat_lt
    simp only [beNat, List.foldl_cons, List.foldl_nil]
    omega

theorem beNat_lt8 (bs : Bytes) (h : bs.length = 8) : beNat bs < 18446744073709551616 := by
  match bs, h with
  | [a, b, c, d, e, f, g, i], _ =>
    have ha := a.toNat_lt; have hb := b.toNat_lt; have hc := c.toNat_lt; have hd := d.toNat_lt
    have he := e.toNat_lt; have hf := f.toNat_lt; have hg := g.toNat_lt; have hi := i.toNat_lt
    simp only [beNat, List.foldl_cons, List.foldl_nil]
    omega

theorem rdU32_lt {s s' : Bytes} {n : Nat} (h : rdU32 s = .ok (n, s')) : n < 4294967296 := by
  unfold rdU32 at h
  simp only [Except.ok.injEq, Prod.mk.injEq] at h
  rw [← h.1]; exact beNat_lt4 _ (by simp)

theorem rdU64raw_lt {s s' : Bytes} {n : Nat} (h : rdU64raw s = .ok (n, s')) : n < 18446744073709551616 := by
  unfold rdU64raw at h
  simp only [Except.ok.injEq, Prod.mk.injEq] at h
  rw [← h.1]; exact beNat_lt8 _ (by simp)

/-- repaired hdr_get_NON_NEG: the value is a NON_NEG of the format -/
theorem vNonNeg_bound (c : VCfg) (hs : c.strictSign = true) (f : Fmt) {s s' : Bytes} {n : Nat}
    (h : vNonNeg c f.version s = .ok (n, s')) : n < nnLim f := by
  obtain ⟨sl, ss, st, d64⟩ := c
  simp only [] at hs
  subst hs
  cases f
  · have := (guard_inv (p := rdU32) (bad := fun v => v > 2147483647) h).2
    simp only [nnLim]; omega
  · have := (guard_inv (p := rdU32) (bad := fun v => v > 2147483647) h).2
    simp only [nnLim]; omega
  · have := (guard_inv (p := rdU64raw) (bad := fun v => v ≥ 9223372036854775808) h).2
    simp only [nnLim]; omega

theorem vBegin_bound (c : VCfg) (hs : c.strictSign = true) (f : Fmt) {s s' : Bytes} {n : Nat}
    (h : vBegin c f.version s = .ok (n, s')) : n < offLim f := by
  obtain ⟨sl, ss, st, d64⟩ := c
  simp only [] at hs
  subst hs
  cases f
  · have := (guard_inv (p := rdU32) (bad := fun v => v > 2147483647) h).2
    simp only [offLim]; omega
  · have := (guard_inv (p := rdU64raw) (bad := fun v => v ≥ 9223372036854775808) h).2
    simp only [offLim]; omega
  · have := (guard_inv (p := rdU64raw) (bad := fun v => v ≥ 9223372036854775808) h).2
    simp only [offLim]; omega

theorem vVsize_bound (c : VCfg) (hs : c.strictSign = true) (f : Fmt) {s s' : Bytes} {n : Nat}
    (h : vVsize c f.version s = .ok (n, s')) : n < rawLim f := by
  obtain ⟨sl, ss, st, d64⟩ := c
  simp only [] at hs
  subst hs
  cases f
  · have := rdU32_lt (s := s) h; simp only [rawLim]; omega
  · have := rdU32_lt (s := s) h; simp only [rawLim]; omega
  · have := rdU64raw_lt (s := s) h; simp only [rawLim]; omega

theorem vName_bound (c : VCfg) (hs : c.strictSign = true) (f : Fmt) {s s' nm : Bytes} {ok : Bool}
    (h : vName c f.version s = .ok ((nm, ok), s')) : nm.length < nnLim f := by
  unfold vName at h
  obtain ⟨nchars, s1, h1, h⟩ := bind_inv h
  obtain ⟨x, s2, h2, h⟩ := bind_inv h
  have hx := rdBytes_len h2
  have hb := vNonNeg_bound c hs f h1
  by_cases hpad : rndup nchars 4 - nchars > 0
  · simp only [hpad, ↓reduceIte] at h
    obtain ⟨pad, s3, h3, h⟩ := bind_inv h
    have := pure_inv h
    simp only [Prod.mk.injEq] at this
    obtain ⟨⟨rfl, _⟩, _⟩ := this
    omega
  · simp only [hpad, ↓reduceIte] at h
    have := pure_inv h
    simp only [Prod.mk.injEq] at this
    obtain ⟨⟨rfl, _⟩, _⟩ := this
    omega

/-- the fields of a dimension fit (nothing is said about NUL bytes in the name) -/
structure DimB (f : Fmt) (d : Dim) : Prop where
  nameLen : d.name.length < nnLim f
  size    : d.size < nnLim f

theorem vDim_bound (c : VCfg) (hs : c.strictSign = true) (f : Fmt) {s s' : Bytes} {d : Dim} {hu : Bool} {fl : VFlags}
    (h : vDim c f.version hu s = .ok ((d, fl), s')) : DimB f d := by
  unfold vDim at h
  obtain ⟨⟨nm, ok⟩, s1, h1, h⟩ := bind_inv h
  simp only [] at h
  obtain ⟨len, s2, h2, h⟩ := bind_inv h
  by_cases hc : hu = true ∧ len = 0
  · simp only [hc, and_self, ↓reduceIte] at h; exact (fail_inv h).elim
  · simp only [hc, ↓reduceIte] at h
    have := pure_inv h
    simp only [Prod.mk.injEq] at this
    obtain ⟨⟨rfl, _⟩, _⟩ := this
    exact ⟨vName_bound c hs f h1, vNonNeg_bound c hs f h2⟩

theorem vDims_bound (c : VCfg) (hs : c.strictSign = true) (f : Fmt) : ∀ (n : Nat) (hu : Bool) (s s' : Bytes) (ds : List Dim) (fl : VFlags),
    vDims c f.version n hu s = .ok ((ds, fl), s') → (∀ d ∈ ds, DimB f d) ∧ ds.length = n := by
  intro n
  induction n with
  | zero =>
    intro hu s s' ds fl h
    have := pure_inv (show (pure ([], VFlags.ok) : VP (List Dim × VFlags)) s = _ from h)
    simp only [Prod.mk.injEq] at this
    obtain ⟨⟨rfl, _⟩, _⟩ := this
    simp
  | succ n ih =>
    intro hu s s' ds fl h
    rw [vDims_succ_apply] at h
    obtain ⟨⟨d, ok⟩, s1, h1, h⟩ := bind_inv h
    simp only [] at h
    obtain ⟨⟨t, oks⟩, s2, h2, h⟩ := bind_inv h
    have := pure_inv h
    simp only [Prod.mk.injEq] at this
    obtain ⟨⟨rfl, _⟩, _⟩ := this
    obtain ⟨ht, hn⟩ := ih _ s1 s2 t oks h2
    refine ⟨?_, by simp [hn]⟩
    intro x hx
    rcases List.mem_cons.mp hx with rfl | hx
    · exact vDim_bound c hs f h1
    · exact ht x hx

theorem vN_bound {α : Type} (item : VP (α × VFlags)) (P : α → Prop)
    (hi : ∀ (s0 s1 : Bytes) (x : α) (fl : VFlags), item s0 = .ok ((x, fl), s1) → P x) :
    ∀ (n : Nat) (s s' : Bytes) (xs : List α) (fl : VFlags), vN item n s = .ok ((xs, fl), s') →
      (∀ x ∈ xs, P x) ∧ xs.length = n := by
  intro n
  induction n with
  | zero =>
    intro s s' xs fl h
    have := pure_inv (show (pure ([], VFlags.ok) : VP (List α × VFlags)) s = _ from h)
    simp only [Prod.mk.injEq] at this
    obtain ⟨⟨rfl, _⟩, _⟩ := this
    simp
  | succ n ih =>
    intro s s' xs fl h
    unfold vN at h
    obtain ⟨⟨x, ok⟩, s1, h1, h⟩ := bind_inv h
    simp only [] at h
    obtain ⟨⟨t, oks⟩, s2, h2, h⟩ := bind_inv h
    have := pure_inv h
    simp only [Prod.mk.injEq] at this
    obtain ⟨⟨rfl, _⟩, _⟩ := this
    obtain ⟨ht, hn⟩ := ih s1 s2 t oks h2
    refine ⟨?_, by simp [hn]⟩
    intro y hy
    rcases List.mem_cons.mp hy with rfl | hy
    · exact hi s s1 _ ok h1
    · exact ht y hy

/-- the array reader: every item has the property of the items, the count is within the limit and a NON_NEG -/
theorem vArray_bound {α : Type} (c : VCfg) (hs : c.strictSign = true) (f : Fmt) (tag maxN : Nat) (errMax : VErr)
    (items : Nat → VP (List α × VFlags)) (P : α → Prop) {s s' : Bytes} {xs : List α} {fl : VFlags}
    (hi : ∀ (n : Nat) (s0 s1 : Bytes) (ys : List α) (fl : VFlags), items n s0 = .ok ((ys, fl), s1) →
        (∀ y ∈ ys, P y) ∧ ys.length = n)
    (h : vArray c f.version tag maxN errMax items s = .ok ((xs, fl), s')) :
    (∀ x ∈ xs, P x) ∧ xs.length ≤ maxN ∧ xs.length < nnLim f := by
  unfold vArray at h
  obtain ⟨t, s1, h1, h⟩ := bind_inv h
  obtain ⟨n, s2, h2, h⟩ := bind_inv h
  have hb := vNonNeg_bound c hs f h2
  by_cases c1 : n > maxN
  · simp only [c1, ↓reduceIte] at h; exact (fail_inv h).elim
  · simp only [c1, ↓reduceIte] at h
    by_cases c2 : n = 0
    · simp only [c2, ↓reduceIte] at h
      by_cases c4 : c.strictTag = true ∧ t ≠ 0 ∧ t ≠ tag
      · simp only [if_pos c4] at h; exact (fail_inv h).elim
      simp only [if_neg c4] at h
      have := pure_inv h
      simp only [Prod.mk.injEq] at this
      obtain ⟨⟨hxs, _⟩, _⟩ := this
      rw [hxs]
      refine ⟨(fun x hx => by cases hx), Nat.zero_le _, ?_⟩
      cases f <;> simp [nnLim]
    · simp only [c2, ↓reduceIte] at h
      by_cases c3' : t = tag
      case neg => simp only [c3', ne_eq, not_false_eq_true, ↓reduceIte] at h; exact (fail_inv h).elim
      case pos =>
        simp only [c3', ne_eq, not_true_eq_false, ↓reduceIte] at h
        obtain ⟨hp, hn⟩ := hi n s2 s' xs fl h
        exact ⟨hp, by omega, by omega⟩

/-- repaired array reader (F5): an accepted list starts with ABSENT or with its own tag -/
theorem vArray_strictTag {α : Type} (c : VCfg) (ht : c.strictTag = true) (ver tag maxN : Nat) (errMax : VErr)
    (items : Nat → VP (List α × VFlags)) {s s' : Bytes} {xs : List α} {fl : VFlags}
    (h : vArray c ver tag maxN errMax items s = .ok ((xs, fl), s')) :
    ∃ t s1, vTag s = .ok (t, s1) ∧ (t = 0 ∨ t = tag) := by
  unfold vArray at h
  obtain ⟨t, s1, h1, h⟩ := bind_inv h
  obtain ⟨n, s2, h2, h⟩ := bind_inv h
  refine ⟨t, s1, h1, ?_⟩
  by_cases c1 : n > maxN
  · simp only [c1, ↓reduceIte] at h; exact (fail_inv h).elim
  · simp only [c1, ↓reduceIte] at h
    by_cases c2 : n = 0
    · simp only [c2, ↓reduceIte] at h
      by_cases c4 : c.strictTag = true ∧ t ≠ 0 ∧ t ≠ tag
      · simp only [if_pos c4] at h; exact (fail_inv h).elim
      · by_cases t0 : t = 0
        · exact Or.inl t0
        · by_cases t1 : t = tag
          · exact Or.inr t1
          · exact absurd ⟨ht, t0, t1⟩ c4
    · simp only [c2, ↓reduceIte] at h
      by_cases c3' : t = tag
      case neg => simp only [c3', ne_eq, not_false_eq_true, ↓reduceIte] at h; exact (fail_inv h).elim
      case pos => exact Or.inr c3'

theorem vType_ok (f : Fmt) {s s' : Bytes} {t : NcType} (h : vType f.version s = .ok (t, s')) : t.okFor f = true := by
  unfold vType at h
  obtain ⟨x, s1, h1, h⟩ := bind_inv h
  by_cases c1 : x < 1
  · simp only [c1, ↓reduceIte] at h; exact (fail_inv h).elim
  · simp only [c1, ↓reduceIte] at h
    by_cases c2 : f.version < 5 ∧ x > 6
    · simp only [c2, and_self, ↓reduceIte] at h; exact (fail_inv h).elim
    · simp only [c2, ↓reduceIte] at h
      by_cases c3 : ¬ f.version < 5 ∧ x > 11
      · simp only [c3, not_false_eq_true, and_self, ↓reduceIte] at h; exact (fail_inv h).elim
      · simp only [c3, ↓reduceIte] at h
        cases ho : NcType.ofCode x with
        | none => rw [ho] at h; exact (fail_inv h).elim
        | some t' =>
          rw [ho] at h
          have := pure_inv h
          simp only [Prod.mk.injEq] at this
          obtain ⟨rfl, _⟩ := this
          have hc := (ofCode_some ho).1
          cases f
          · simp only [NcType.okFor, decide_eq_true_eq]; simp only [Fmt.version] at c2; omega
          · simp only [NcType.okFor, decide_eq_true_eq]; simp only [Fmt.version] at c2; omega
          · rfl

/-- the fields of an attribute fit -/
structure AttB (f : Fmt) (a : Att) : Prop where
  nameLen : a.name.length < nnLim f
  typeOk  : a.xtype.okFor f = true
  nelems  : a.nelems < nnLim f
  value   : a.xvalue.length = a.nelems * a.xtype.size

theorem vAttr_bound (c : VCfg) (hs : c.strictSign = true) (f : Fmt) {s s' : Bytes} {a : Att} {fl : VFlags}
    (h : vAttr c f.version s = .ok ((a, fl), s')) : AttB f a := by
  unfold vAttr at h
  obtain ⟨⟨nm, ok1⟩, s1, h1, h⟩ := bind_inv h
  simp only [] at h
  obtain ⟨ty, s2, h2, h⟩ := bind_inv h
  obtain ⟨ne, s3, h3, h⟩ := bind_inv h
  obtain ⟨val, s4, h4, h⟩ := bind_inv h
  have hvl := rdBytes_len h4
  have key : a = { name := nm, xtype := ty, nelems := ne, xvalue := val } := by
    by_cases hp : (if ne > 0 then xlenAttrV ty ne else 0) - ne * ty.size > 0
    · simp only [hp, ↓reduceIte] at h
      obtain ⟨pad, s5, h5, h⟩ := bind_inv h
      have := pure_inv h
      simp only [Prod.mk.injEq] at this
      exact this.1.1
    · simp only [hp, ↓reduceIte] at h
      have := pure_inv h
      simp only [Prod.mk.injEq] at this
      exact this.1.1
  subst key
  exact ⟨vName_bound c hs f h1, vType_ok f h2, vNonNeg_bound c hs f h3, hvl⟩

/-- the fields of a variable fit -/
structure VarB (f : Fmt) (nd : Nat) (v : Var) : Prop where
  nameLen : v.name.length < nnLim f
  ndims   : v.dimids.length < nnLim f
  dimids  : ∀ id ∈ v.dimids, id < nd
  natts   : v.atts.length < nnLim f
  atts    : ∀ a ∈ v.atts, AttB f a
  typeOk  : v.xtype.okFor f = true
  vsize   : v.vsize < rawLim f
  begin   : v.begin < offLim f

theorem vDimid_bound (c : VCfg) (hd : c.dimid64 = true) (f : Fmt) {nd : Nat} {s s' : Bytes} {id : Nat} {fl : VFlags}
    (h : vDimid c f.version nd s = .ok ((id, fl), s')) : id < nd := by
  obtain ⟨sl, ss, st, d64⟩ := c
  simp only [] at hd
  subst hd
  cases f
  · exact (dimid_rep_inv (p := rdU32) h).2.2
  · exact (dimid_rep_inv (p := rdU32) h).2.2
  · exact (dimid_rep_inv (p := rdU64raw) h).2.2

theorem vAttrArray_bound (c : VCfg) (hs : c.strictSign = true) (f : Fmt) {s s' : Bytes} {as : List Att} {fl : VFlags}
    (h : vAttrArray c f.version s = .ok ((as, fl), s')) : (∀ a ∈ as, AttB f a) ∧ as.length < nnLim f := by
  unfold vAttrArray at h
  have := vArray_bound c hs f NC_ATTRIBUTE NC_MAX_ATTRS .emaxatts _ (AttB f)
    (vN_bound (vAttr c f.version) (AttB f) (fun s0 s1 a fl ha => vAttr_bound c hs f ha)) h
  exact ⟨this.1, this.2.2⟩

theorem vVar_bound (c : VCfg) (hs : c.strictSign = true) (hd : c.dimid64 = true) (f : Fmt) {nd : Nat} {s s' : Bytes}
    {v : Var} {fl : VFlags} (h : vVar c f.version nd s = .ok ((v, fl), s')) : VarB f nd v := by
  unfold vVar at h
  obtain ⟨⟨nm, ok1⟩, s1, h1, h⟩ := bind_inv h
  simp only [] at h
  obtain ⟨ndims, s2, h2, h⟩ := bind_inv h
  by_cases cnd : ndims > NC_MAX_VAR_DIMS
  · simp only [cnd, ↓reduceIte] at h; exact (fail_inv h).elim
  · simp only [cnd, ↓reduceIte] at h
    obtain ⟨⟨ids, fl1⟩, s3, h3, h⟩ := bind_inv h
    simp only [] at h
    obtain ⟨⟨atts, ok2⟩, s4, h4, h⟩ := bind_inv h
    simp only [] at h
    obtain ⟨ty, s5, h5, h⟩ := bind_inv h
    obtain ⟨vs, s6, h6, h⟩ := bind_inv h
    obtain ⟨bg, s7, h7, h⟩ := bind_inv h
    have := pure_inv h
    simp only [Prod.mk.injEq] at this
    obtain ⟨⟨rfl, _⟩, _⟩ := this
    have hids := vN_bound (vDimid c f.version nd) (fun id => id < nd) (fun s0 s1 x fl hx => vDimid_bound c hd f hx) ndims s2 s3 ids fl1 h3
    have hat := vAttrArray_bound c hs f h4
    exact ⟨vName_bound c hs f h1, by rw [hids.2]; exact vNonNeg_bound c hs f h2, hids.1, hat.2, hat.1,
      vType_ok f h5, vVsize_bound c hs f h6, vBegin_bound c hs f h7⟩

/-- With the repairs F4 and F6 every header the validator's reader returns fits the field widths of its format:
    it is `Encodable` as soon as its names hold no NUL byte and numrecs is not the STREAMING value. -/
theorem encodable_of_vBody (c : VCfg) (hs : c.strictSign = true) (hd : c.dimid64 = true) (f : Fmt) {s s' : Bytes}
    {h : Hdr} {fl : VFlags} (hb : vBody c f s = .ok ((h, fl), s')) (h0 : NamesNoNul h) (hnr : h.numrecs < nnLim h.fmt) :
    Encodable h := by
  unfold vBody at hb
  simp only [] at hb
  obtain ⟨nr, s1, h1, hb⟩ := bind_inv hb
  obtain ⟨⟨dims, ok1⟩, s2, h2, hb⟩ := bind_inv hb
  simp only [] at hb
  obtain ⟨⟨gatts, ok2⟩, s3, h3, hb⟩ := bind_inv hb
  simp only [] at hb
  obtain ⟨⟨vars, ok3⟩, s4, h4, hb⟩ := bind_inv hb
  have := pure_inv hb
  simp only [Prod.mk.injEq] at this
  obtain ⟨⟨rfl, _⟩, _⟩ := this
  simp only [] at hnr h0 ⊢
  obtain ⟨hd0, hg0, hv0⟩ := h0
  simp only [] at hd0 hg0 hv0
  have bd := by
    unfold vDimArray at h2
    exact vArray_bound c hs f NC_DIMENSION NC_MAX_DIMS .emaxdims _ (DimB f)
      (fun n s0 s1 ys fl hy => vDims_bound c hs f n false s0 s1 ys fl hy) h2
  have bg := vAttrArray_bound c hs f h3
  have bv := by
    unfold vVarArray at h4
    exact vArray_bound c hs f NC_VARIABLE NC_MAX_VARS .emaxvars _ (VarB f dims.length)
      (vN_bound (vVar c f.version dims.length) (VarB f dims.length) (fun s0 s1 v fl hv => vVar_bound c hs hd f hv)) h4
  have hnd : dims.length ≤ 2147483647 := bd.2.1
  have hlim : 2147483648 ≤ nnLim f := by cases f <;> simp [nnLim]
  refine ⟨hnr, bd.2.2, fun x hx => ⟨hd0 x hx, (bd.1 x hx).nameLen, (bd.1 x hx).size⟩, bg.2,
    fun a ha => ⟨hg0 a ha, (bg.1 a ha).nameLen, (bg.1 a ha).typeOk, (bg.1 a ha).nelems, (bg.1 a ha).value⟩, bv.2.2, ?_⟩
  intro v hv
  have b := bv.1 v hv
  exact ⟨(hv0 v hv).1, b.nameLen, b.ndims, fun id hid => by have := b.dimids id hid; show id < nnLim f; omega, b.natts,
    fun a ha => ⟨(hv0 v hv).2 a ha, (b.atts a ha).nameLen, (b.atts a ha).typeOk, (b.atts a ha).nelems, (b.atts a ha).value⟩,
    b.typeOk, b.vsize, b.begin⟩

end PnVerif.Tools
