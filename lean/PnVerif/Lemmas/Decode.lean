import PnVerif.Lemmas.Window
/-
  The library's reader (reader program `getBody` run on the flat stream) against the independent
  specification decoder of Spec/SpecDecode.lean, parser by parser.
-/
namespace PnVerif.Header
open PnVerif.Spec

theorem bind_def {α β : Type} (p : P α) (f : α → P β) : (p >>= f) = P.bind p f := rfl
theorem pure_def {α : Type} (a : α) : (pure a : P α) = P.ret a := rfl

/-- sequencing of reader programs = sequencing of their runs -/
theorem run_bind {σ α β : Type} (r : Reader σ) (p : P α) (f : α → P β) :
    ∀ s, run r (P.bind p f) s = (match run r p s with
      | .ok (a, s') => run r (f a) s'
      | .error e => .error e) := by
  induction p with
  | ret a => intro s; rfl
  | fail e => intro s; rfl
  | u32 k ih => intro s; simp only [P.bind, run]; exact ih _ _
  | u64 k ih => intro s; simp only [P.bind, run]; exact ih _ _
  | bytes n k ih => intro s; simp only [P.bind, run]; exact ih _ _
  | pad q k ih => intro s; simp only [P.bind, run]; exact ih _

/-- a run that succeeds, followed by a continuation -/
theorem run_bind_ok {σ α β : Type} (r : Reader σ) (p : P α) (f : α → P β) (s s' : σ) (a : α)
    (h : run r p s = .ok (a, s')) : run r (p >>= f) s = run r (f a) s' := by
  rw [bind_def, run_bind, h]

@[simp] theorem runF_ret {α : Type} (a : α) (s : Bytes) : run flatR (P.ret a) s = .ok (a, s) := rfl
@[simp] theorem runF_fail {α : Type} (e : Err) (s : Bytes) : run flatR (P.fail e : P α) s = .error e := rfl
@[simp] theorem runF_u32 (s : Bytes) : run flatR getU32 s = .ok (beNat (ztake 4 s), s.drop 4) := rfl
@[simp] theorem runF_u64 (s : Bytes) : run flatR getU64 s = .ok (beNat (ztake 8 s), s.drop 8) := rfl
@[simp] theorem runF_bytes (n : Nat) (s : Bytes) : run flatR (getBytes n) s = .ok (ztake n s, s.drop n) := rfl
@[simp] theorem runF_pad {α : Type} (q : Fin 4) (k : P α) (s : Bytes) :
    run flatR (P.pad q k) s = run flatR k (s.drop q.val) := rfl

theorem beVal_eq (b : Bytes) : Spec.beVal b = beNat b := rfl

/-! ### inversion of the specification's primitive parsers -/

theorem takeN_some {n : Nat} {b x r : Bytes} (h : Spec.takeN n b = some (x, r)) :
    n ≤ b.length ∧ x = b.take n ∧ r = b.drop n := by
  unfold Spec.takeN at h
  split at h
  · simp only [Option.some.injEq, Prod.mk.injEq] at h
    exact ⟨by assumption, h.1.symm, h.2.symm⟩
  · contradiction

theorem word32_some {b r : Bytes} {v : Nat} (h : Spec.word32 b = some (v, r)) :
    4 ≤ b.length ∧ v = beNat (b.take 4) ∧ r = b.drop 4 := by
  unfold Spec.word32 at h
  split at h
  · rename_i x r' ht
    obtain ⟨h1, h2, h3⟩ := takeN_some ht
    simp only [Option.some.injEq, Prod.mk.injEq] at h
    exact ⟨h1, by rw [← h.1, h2, beVal_eq], by rw [← h.2, h3]⟩
  · contradiction

theorem word64_some {b r : Bytes} {v : Nat} (h : Spec.word64 b = some (v, r)) :
    8 ≤ b.length ∧ v = beNat (b.take 8) ∧ r = b.drop 8 := by
  unfold Spec.word64 at h
  split at h
  · rename_i x r' ht
    obtain ⟨h1, h2, h3⟩ := takeN_some ht
    simp only [Option.some.injEq, Prod.mk.injEq] at h
    exact ⟨h1, by rw [← h.1, h2, beVal_eq], by rw [← h.2, h3]⟩
  · contradiction

/-- a 32-bit word the specification decoder reads is what hdr_get_uint32 reads -/
theorem word32_sim {b r : Bytes} {v : Nat} (h : Spec.word32 b = some (v, r)) :
    run flatR getU32 b = .ok (v, r) := by
  obtain ⟨h1, h2, h3⟩ := word32_some h
  rw [runF_u32, ztake_of_le h1, h2, h3]

theorem word64_sim {b r : Bytes} {v : Nat} (h : Spec.word64 b = some (v, r)) :
    run flatR getU64 b = .ok (v, r) := by
  obtain ⟨h1, h2, h3⟩ := word64_some h
  rw [runF_u64, ztake_of_le h1, h2, h3]

theorem nonNeg_sim {f : Fmt} {b r : Bytes} {n : Nat} (h : Spec.nonNeg f b = some (n, r)) :
    run flatR (getNonNeg f.version) b = .ok (n, r) ∧ n < 2 ^ 63 ∧ (f ≠ .cdf5 → n < 2 ^ 31) := by
  cases f <;> simp only [Spec.nonNeg] at h <;> split at h <;> try contradiction
  all_goals
    rename_i v r' hw
    split at h <;> try contradiction
    rename_i hv
    simp only [Option.some.injEq, Prod.mk.injEq] at h
    obtain ⟨rfl, rfl⟩ := h
  · exact ⟨by simpa [getNonNeg, Fmt.version] using word32_sim hw, by omega, fun _ => hv⟩
  · exact ⟨by simpa [getNonNeg, Fmt.version] using word32_sim hw, by omega, fun _ => hv⟩
  · exact ⟨by simpa [getNonNeg, Fmt.version] using word64_sim hw, hv, fun hne => absurd rfl hne⟩

end PnVerif.Header

namespace PnVerif.Header
open PnVerif.Spec

theorem padLen_eq (n : Nat) : rndup n 4 - n = Spec.padLen n := by
  unfold rndup Spec.padLen; omega

theorem padded_some {n : Nat} {b x r : Bytes} (h : Spec.padded n b = some (x, r)) :
    n ≤ b.length ∧ x = b.take n ∧ r = b.drop (n + Spec.padLen n) := by
  unfold Spec.padded at h
  split at h <;> try contradiction
  rename_i x' r' ht
  split at h <;> try contradiction
  rename_i y r'' ht2
  obtain ⟨h1, h2, h3⟩ := takeN_some ht
  obtain ⟨h4, h5, h6⟩ := takeN_some ht2
  simp only [Option.some.injEq, Prod.mk.injEq] at h
  refine ⟨h1, by rw [← h.1, h2], ?_⟩
  rw [← h.2, h6, h3, List.drop_drop]

theorem name_sim {f : Fmt} {b r nm : Bytes} (h : Spec.name f b = some (nm, r))
    (hl : nm.length ≤ NC_MAX_NAME) : run flatR (getName f.version) b = .ok (nm, r) := by
  unfold Spec.name at h
  split at h <;> try contradiction
  rename_i n r1 hn
  obtain ⟨h1, h2, h3⟩ := padded_some h
  have hlen : nm.length = n := by rw [h2, List.length_take]; omega
  unfold getName
  rw [run_bind_ok _ _ _ _ _ _ (nonNeg_sim hn).1]
  have hle : ¬ n > NC_MAX_NAME := by omega
  simp only [hle, if_false]
  rw [run_bind_ok _ _ _ _ _ _ (runF_bytes n r1)]
  simp only [padLen_eq]
  split
  · rw [runF_pad, runF_ret, ztake_of_le h1, h2, h3, List.drop_drop]
  · rename_i hp
    rw [runF_ret, ztake_of_le h1, h2, h3]
    have : Spec.padLen n = 0 := by omega
    rw [this, Nat.add_zero]

/-- n items: the specification's `many` against the for-loop `getN` -/
theorem many_sim {α : Type} {sp : Spec.Parser α} {p : P α} (Lim : α → Prop)
    (hs : ∀ b x r, sp b = some (x, r) → Lim x → run flatR p b = .ok (x, r)) :
    ∀ (n : Nat) (b : Bytes) (xs : List α) (r : Bytes), Spec.many sp n b = some (xs, r) →
      (∀ x ∈ xs, Lim x) → run flatR (getN p n) b = .ok (xs, r) ∧ xs.length = n := by
  intro n
  induction n with
  | zero =>
    intro b xs r h _
    simp only [Spec.many, Option.some.injEq, Prod.mk.injEq] at h
    obtain ⟨rfl, rfl⟩ := h
    exact ⟨rfl, rfl⟩
  | succ n ih =>
    intro b xs r h hl
    simp only [Spec.many] at h
    split at h <;> try contradiction
    rename_i x r1 hx
    split at h <;> try contradiction
    rename_i xs' r2 hxs
    simp only [Option.some.injEq, Prod.mk.injEq] at h
    obtain ⟨rfl, rfl⟩ := h
    have h1 := hs b x r1 hx (hl x (by simp))
    obtain ⟨h2, h3⟩ := ih r1 xs' r2 hxs (fun y hy => hl y (by simp [hy]))
    refine ⟨?_, by simp [h3]⟩
    simp only [getN]
    rw [run_bind_ok _ _ _ _ _ _ h1, run_bind_ok _ _ _ _ _ _ h2]
    rfl

theorem dim_sim {f : Fmt} {b r : Bytes} {d : Dim} {hu : Bool} (h : Spec.dim f b = some (d, r))
    (hl : d.name.length ≤ NC_MAX_NAME) (hz : hu = true → d.size ≠ 0) :
    run flatR (getDim f.version hu) b = .ok (d, r) := by
  unfold Spec.dim at h
  split at h <;> try contradiction
  rename_i nm r1 hn
  split at h <;> try contradiction
  rename_i sz r2 hs
  simp only [Option.some.injEq, Prod.mk.injEq] at h
  obtain ⟨rfl, rfl⟩ := h
  unfold getDim
  rw [run_bind_ok _ _ _ _ _ _ (name_sim hn hl), run_bind_ok _ _ _ _ _ _ (nonNeg_sim hs).1]
  have : ¬ (hu = true ∧ sz = 0) := fun ⟨a, b⟩ => hz a b
  simp only [this, if_false, runF_ret]

/-- the dimension loop, with its "record dimension already seen" flag -/
theorem dims_sim {f : Fmt} : ∀ (n : Nat) (b : Bytes) (ds : List Dim) (r : Bytes) (hu : Bool),
    Spec.many (Spec.dim f) n b = some (ds, r) → (∀ d ∈ ds, d.name.length ≤ NC_MAX_NAME) →
    (hu = true → ∀ d ∈ ds, d.size ≠ 0) → (ds.filter (fun d => d.size == 0)).length ≤ 1 →
    run flatR (getDims f.version n hu) b = .ok (ds, r) ∧ ds.length = n := by
  intro n
  induction n with
  | zero =>
    intro b ds r hu h _ _ _
    simp only [Spec.many, Option.some.injEq, Prod.mk.injEq] at h
    obtain ⟨rfl, rfl⟩ := h
    exact ⟨rfl, rfl⟩
  | succ n ih =>
    intro b ds r hu h hl hz hc
    simp only [Spec.many] at h
    split at h <;> try contradiction
    rename_i d r1 hd
    split at h <;> try contradiction
    rename_i ds' r2 hds
    simp only [Option.some.injEq, Prod.mk.injEq] at h
    obtain ⟨rfl, rfl⟩ := h
    have h1 := dim_sim (hu := hu) hd (hl d (by simp)) (fun a => hz a d (by simp))
    have hz' : (hu || d.size == 0) = true → ∀ d' ∈ ds', d'.size ≠ 0 := by
      intro hor d' hd' hsz
      rcases Bool.or_eq_true _ _ |>.mp hor with a | a
      · exact hz a d' (by simp [hd']) hsz
      · -- d is a record dimension and d' too: two of them
        have hd0 : d.size = 0 := by simpa using a
        have hmem : d' ∈ ds'.filter (fun d => d.size == 0) := by simp [hd', hsz]
        have hpos : 0 < (ds'.filter (fun d => d.size == 0)).length := List.length_pos_of_mem hmem
        have : ((d :: ds').filter (fun d => d.size == 0)).length = (ds'.filter (fun d => d.size == 0)).length + 1 := by
          simp [List.filter_cons, hd0]
        omega
    have hc' : (ds'.filter (fun d => d.size == 0)).length ≤ 1 := by
      simp only [List.filter_cons] at hc
      split at hc
      · simp only [List.length_cons] at hc; omega
      · exact hc
    obtain ⟨h2, h3⟩ := ih r1 ds' r2 (hu || d.size == 0) hds (fun y hy => hl y (by simp [hy])) hz' hc'
    refine ⟨?_, by simp [h3]⟩
    simp only [getDims]
    rw [run_bind_ok _ _ _ _ _ _ h1, run_bind_ok _ _ _ _ _ _ h2]
    rfl

theorem ofCode_some {c : Nat} {t : NcType} (h : NcType.ofCode c = some t) :
    t.code = c ∧ 1 ≤ c ∧ c ≤ 11 := by
  unfold NcType.ofCode at h
  split at h
  all_goals first
    | contradiction
    | (injection h with h; subst h; exact ⟨rfl, by decide, by decide⟩)

theorem type_sim {f : Fmt} {b r : Bytes} {t : NcType} (h : Spec.ncType f b = some (t, r)) :
    run flatR (getType f.version) b = .ok (t, r) := by
  unfold Spec.ncType at h
  split at h <;> try contradiction
  rename_i c r1 hw
  split at h <;> try contradiction
  rename_i t' ht
  split at h <;> try contradiction
  rename_i hok
  simp only [Option.some.injEq, Prod.mk.injEq] at h
  obtain ⟨rfl, rfl⟩ := h
  obtain ⟨hc, h1, h11⟩ := ofCode_some ht
  unfold getType
  rw [run_bind_ok _ _ _ _ _ _ (word32_sim hw)]
  have a1 : ¬ c < 1 := by omega
  have a2 : ¬ (f.version < 5 ∧ c > 6) := by
    intro ⟨hv, h6⟩
    cases f <;> simp [NcType.okFor, Fmt.version] at hok hv <;> omega
  have a3 : ¬ (¬ f.version < 5 ∧ c > 11) := by omega
  simp only [a1, a2, a3, if_false, ht, runF_ret]

theorem attr_pad_eq (t : NcType) (n : Nat) :
    (if n > 0 then xlenAttrV t n else 0) - n * t.size = Spec.padLen (n * t.size) := by
  split
  · cases t <;> simp [xlenAttrV, NcType.size, rndup, Spec.padLen] <;> omega
  · have : n = 0 := by omega
    subst this; simp [Spec.padLen]

theorem attr_sim {f : Fmt} {b r : Bytes} {a : Att} (h : Spec.att f b = some (a, r))
    (hl : a.name.length ≤ NC_MAX_NAME) : run flatR (getAttr f.version) b = .ok (a, r) := by
  unfold Spec.att at h
  split at h <;> try contradiction
  rename_i nm r1 hn
  split at h <;> try contradiction
  rename_i t r2 ht
  split at h <;> try contradiction
  rename_i n r3 hne
  split at h <;> try contradiction
  rename_i v r4 hv
  simp only [Option.some.injEq, Prod.mk.injEq] at h
  obtain ⟨rfl, rfl⟩ := h
  obtain ⟨h1, h2, h3⟩ := padded_some hv
  unfold getAttr
  rw [run_bind_ok _ _ _ _ _ _ (name_sim hn hl), run_bind_ok _ _ _ _ _ _ (type_sim ht),
    run_bind_ok _ _ _ _ _ _ (nonNeg_sim hne).1]
  simp only []
  rw [run_bind_ok _ _ _ _ _ _ (runF_bytes (n * t.size) r3)]
  simp only [attr_pad_eq]
  split
  · rw [runF_pad, runF_ret, ztake_of_le h1, h2, h3, List.drop_drop]
  · rename_i hp
    rw [runF_ret, ztake_of_le h1, h2, h3]
    have : Spec.padLen (n * t.size) = 0 := by omega
    rw [this, Nat.add_zero]

/-- `ABSENT | TAG nelems [item ...]` against hdr_get_NC_*array -/
theorem array_sim {α : Type} {f : Fmt} {tag maxN : Nat} {errMax : Err} {sp : Spec.Parser α}
    {items : Nat → P (List α)} (LimAll : List α → Prop) {b r : Bytes} {xs : List α}
    (h : Spec.listOf f tag sp b = some (xs, r)) (hmax : xs.length ≤ maxN) (hlim : LimAll xs)
    (hitems : ∀ n b' xs' r', Spec.many sp n b' = some (xs', r') → LimAll xs' →
        run flatR (items n) b' = .ok (xs', r') ∧ xs'.length = n) :
    run flatR (getArray f.version tag maxN errMax items) b = .ok (xs, r) := by
  unfold Spec.listOf at h
  split at h <;> try contradiction
  rename_i t r1 hw
  split at h <;> try contradiction
  rename_i n r2 hn
  unfold getArray
  rw [run_bind_ok _ _ _ _ _ _ (word32_sim hw), run_bind_ok _ _ _ _ _ _ (nonNeg_sim hn).1]
  split at h
  · -- ABSENT
    split at h <;> try contradiction
    rename_i hn0
    simp only [Option.some.injEq, Prod.mk.injEq] at h
    obtain ⟨rfl, rfl⟩ := h
    subst hn0
    simp
  · split at h <;> try contradiction
    rename_i ht0 htag
    obtain ⟨hrun, hlen⟩ := hitems n r2 xs r h hlim
    have a1 : ¬ n > maxN := by omega
    simp only [a1, if_false]
    by_cases hn0 : n = 0
    · subst hn0
      simp only [Spec.many, Option.some.injEq, Prod.mk.injEq] at h
      obtain ⟨rfl, rfl⟩ := h
      simp
    · have a3 : ¬ t ≠ tag := by omega
      simp only [hn0, a3, if_false]
      exact hrun

end PnVerif.Header

namespace PnVerif.Header
open PnVerif.Spec

/-! ### the library's own limits (the only things it demands beyond the specification) -/

def AttLim (a : Att) : Prop := a.name.length ≤ NC_MAX_NAME

structure VarLim (nd : Nat) (v : Var) : Prop where
  name   : v.name.length ≤ NC_MAX_NAME
  ndims  : v.dimids.length ≤ NC_MAX_VAR_DIMS
  dimids : ∀ id ∈ v.dimids, id < nd
  natts  : v.atts.length ≤ NC_MAX_ATTRS
  atts   : ∀ a ∈ v.atts, AttLim a

/-- names ≤ NC_MAX_NAME bytes, list lengths ≤ NC_MAX_INT, at most one record dimension, dimension
    ids in range -/
structure Limits (d : Schema) : Prop where
  ndims    : d.dims.length ≤ NC_MAX_DIMS
  dimNames : ∀ x ∈ d.dims, x.name.length ≤ NC_MAX_NAME
  oneRec   : (d.dims.filter (fun x => x.size == 0)).length ≤ 1
  ngatts   : d.gatts.length ≤ NC_MAX_ATTRS
  gatts    : ∀ a ∈ d.gatts, AttLim a
  nvars    : d.vars.length ≤ NC_MAX_VARS
  vars     : ∀ v ∈ d.vars, VarLim d.dims.length v

theorem dimid_sim {f : Fmt} {b r : Bytes} {id fNdims : Nat} (h : Spec.nonNeg f b = some (id, r))
    (hl : id < fNdims) : run flatR (getDimid f.version fNdims) b = .ok (id, r) := by
  unfold getDimid
  rw [run_bind_ok _ _ _ _ _ _ (nonNeg_sim h).1]
  have : ¬ id ≥ fNdims := by omega
  simp only [this, if_false, runF_ret]

theorem offset_sim {f : Fmt} {b r : Bytes} {v : Nat} (h : Spec.offset f b = some (v, r)) :
    run flatR (getBegin f.version) b = .ok (v, r) := by
  unfold getBegin
  cases f <;> simp only [Spec.offset] at h <;> split at h <;> try contradiction
  all_goals
    rename_i v' r' hw
    split at h <;> try contradiction
    simp only [Option.some.injEq, Prod.mk.injEq] at h
    obtain ⟨rfl, rfl⟩ := h
  · simpa [Fmt.version] using word32_sim hw
  · simpa [Fmt.version] using word64_sim hw
  · simpa [Fmt.version] using word64_sim hw

theorem rawSize_sim {f : Fmt} {b r : Bytes} {v : Nat} (h : Spec.rawSize f b = some (v, r)) :
    run flatR (getNonNeg f.version) b = .ok (v, r) := by
  cases f <;> simp only [Spec.rawSize] at h
  · simpa [getNonNeg, Fmt.version] using word32_sim h
  · simpa [getNonNeg, Fmt.version] using word32_sim h
  · simpa [getNonNeg, Fmt.version] using word64_sim h

theorem attrs_sim {f : Fmt} {b r : Bytes} {as : List Att} (h : Spec.listOf f 12 (Spec.att f) b = some (as, r))
    (hn : as.length ≤ NC_MAX_ATTRS) (hl : ∀ a ∈ as, AttLim a) :
    run flatR (getAttrArray f.version) b = .ok (as, r) := by
  unfold getAttrArray
  exact array_sim (fun xs => ∀ a ∈ xs, AttLim a) h hn hl
    (fun n b' xs' r' hm hx => many_sim AttLim (fun b x r hx hlx => attr_sim hx hlx) n b' xs' r' hm hx)

theorem var_sim {f : Fmt} {b r : Bytes} {v : Var} {nd : Nat} (h : Spec.var f b = some (v, r))
    (hl : VarLim nd v) : run flatR (getVar f.version nd) b = .ok (v, r) := by
  unfold Spec.var at h
  split at h <;> try contradiction
  rename_i nm r1 hnm
  split at h <;> try contradiction
  rename_i ndims r2 hnd
  split at h <;> try contradiction
  rename_i ids r3 hids
  split at h <;> try contradiction
  rename_i as r4 has
  split at h <;> try contradiction
  rename_i t r5 ht
  split at h <;> try contradiction
  rename_i vs r6 hvs
  split at h <;> try contradiction
  rename_i bg r7 hbg
  simp only [Option.some.injEq, Prod.mk.injEq] at h
  obtain ⟨rfl, rfl⟩ := h
  obtain ⟨l1, l2, l3, l4, l5⟩ := hl
  simp only at l1 l2 l3 l4 l5
  obtain ⟨hrunids, hlen⟩ := many_sim (fun id => id < nd) (fun b x r hx hlx => dimid_sim hx hlx) ndims r2 ids r3 hids l3
  unfold getVar
  rw [run_bind_ok _ _ _ _ _ _ (name_sim hnm l1), run_bind_ok _ _ _ _ _ _ (nonNeg_sim hnd).1]
  have a1 : ¬ ndims > NC_MAX_VAR_DIMS := by omega
  simp only [a1, if_false]
  rw [run_bind_ok _ _ _ _ _ _ hrunids, run_bind_ok _ _ _ _ _ _ (attrs_sim has l4 l5),
    run_bind_ok _ _ _ _ _ _ (type_sim ht), run_bind_ok _ _ _ _ _ _ (rawSize_sim hvs),
    run_bind_ok _ _ _ _ _ _ (offset_sim hbg)]
  rfl

theorem magic_some {b r : Bytes} {f : Fmt} (h : Spec.magic b = some (f, r)) :
    checkMagic (ztake 12 b) = .ok f ∧ r = b.drop 4 := by
  unfold Spec.magic at h
  split at h <;> try contradiction
  rename_i v r'
  have hz : ∀ (x : UInt8) (t : Bytes), ((ztake 12 (0x43 :: 0x44 :: 0x46 :: x :: t)).take 3 = [0x43, 0x44, 0x46]) ∧
      (((ztake 12 (0x43 :: 0x44 :: 0x46 :: x :: t)).drop 3).take 1 = [x]) := by
    intro x t; simp [ztake]
  unfold checkMagic
  rw [(hz v r').1, (hz v r').2]
  simp only [ne_eq, not_true_eq_false, if_false]
  split at h
  · rename_i hv; simp only [Option.some.injEq, Prod.mk.injEq] at h; obtain ⟨rfl, rfl⟩ := h
    subst hv; simp
  · split at h
    · rename_i hv; simp only [Option.some.injEq, Prod.mk.injEq] at h; obtain ⟨rfl, rfl⟩ := h
      subst hv; simp
    · split at h
      · rename_i hv; simp only [Option.some.injEq, Prod.mk.injEq] at h; obtain ⟨rfl, rfl⟩ := h
        subst hv; simp
      · contradiction

/-- the whole header: what the specification decoder accepts, the library's reader (on the flat
    stream) decodes to the same schema and the same rest, provided the library's limits hold -/
theorem header_sim {b rest : Bytes} {d : Schema} (h : Spec.header b = some (d, rest)) (hl : Limits d) :
    checkMagic (ztake 12 b) = .ok d.fmt ∧ run flatR (getBody d.fmt) (b.drop 4) = .ok (d, rest) := by
  unfold Spec.header at h
  split at h <;> try contradiction
  rename_i f r0 hm
  split at h <;> try contradiction
  rename_i nr r1 hnr
  split at h <;> try contradiction
  rename_i ds r2 hds
  split at h <;> try contradiction
  rename_i gs r3 hgs
  split at h <;> try contradiction
  rename_i vs r4 hvs
  simp only [Option.some.injEq, Prod.mk.injEq] at h
  obtain ⟨rfl, rfl⟩ := h
  obtain ⟨l1, l2, l3, l4, l5, l6, l7⟩ := hl
  simp only at l1 l2 l3 l4 l5 l6 l7
  obtain ⟨hmag, rfl⟩ := magic_some hm
  refine ⟨hmag, ?_⟩
  have hdims : run flatR (getDimArray f.version) r1 = .ok (ds, r2) := by
    unfold getDimArray
    exact array_sim (fun xs => (∀ d ∈ xs, d.name.length ≤ NC_MAX_NAME) ∧ (xs.filter (fun d => d.size == 0)).length ≤ 1)
      hds l1 ⟨l2, l3⟩
      (fun n b' xs' r' hm hx => dims_sim n b' xs' r' false hm hx.1 (by intro hh; cases hh) hx.2)
  have hvars : run flatR (getVarArray f.version ds.length) r3 = .ok (vs, r4) := by
    unfold getVarArray
    exact array_sim (fun xs => ∀ v ∈ xs, VarLim ds.length v) hvs l6 l7
      (fun n b' xs' r' hm hx => many_sim (VarLim ds.length) (fun b x r hx hlx => var_sim hx hlx) n b' xs' r' hm hx)
  unfold getBody
  simp only []
  rw [run_bind_ok _ _ _ _ _ _ (nonNeg_sim hnr).1, run_bind_ok _ _ _ _ _ _ hdims,
    run_bind_ok _ _ _ _ _ _ (attrs_sim hgs l4 l5), run_bind_ok _ _ _ _ _ _ hvars]
  rfl

end PnVerif.Header
