import PnVerif.Model.Safety
import PnVerif.Lemmas.Decode
import PnVerif.Lemmas.PostPass
/-
  Lemmas/SafetyWf.lean — what a SUCCESSFUL run of the header reader guarantees about its result
  (postconditions of the reader programs of Model/Header.lean on the flat stream).
-/
namespace PnVerif.Safety
open PnVerif.Spec PnVerif.Header

/-- postcondition of a reader program: whatever the stream, a successful run returns a value with `Q` -/
def Post {α : Type} (p : P α) (Q : α → Prop) : Prop :=
  ∀ (s : Bytes) (a : α) (s' : Bytes), run flatR p s = .ok (a, s') → Q a

theorem post_ret {α : Type} {Q : α → Prop} {a : α} (h : Q a) : Post (.ret a) Q := by
  intro s a' s' hr
  simp only [run, Except.ok.injEq, Prod.mk.injEq] at hr
  rw [← hr.1]; exact h

theorem post_fail {α : Type} {Q : α → Prop} {e : Err} : Post (.fail e : P α) Q := by
  intro s a' s' hr
  simp [run] at hr

theorem post_bind {α β : Type} {p : P α} {f : α → P β} {R : α → Prop} {Q : β → Prop}
    (hp : Post p R) (hf : ∀ a, R a → Post (f a) Q) : Post (p >>= f) Q := by
  intro s b s' hr
  rw [bind_def, run_bind] at hr
  split at hr
  · rename_i a s1 h1
    exact hf a (hp s a s1 h1) s1 b s' hr
  · contradiction

theorem post_true {α : Type} (p : P α) : Post p (fun _ => True) := fun _ _ _ _ => trivial

theorem post_mono {α : Type} {p : P α} {Q R : α → Prop} (h : Post p Q) (hqr : ∀ a, Q a → R a) : Post p R :=
  fun s a s' hr => hqr a (h s a s' hr)

theorem post_pad {α : Type} {Q : α → Prop} {q : Fin 4} {k : P α} (h : Post k Q) : Post (.pad q k) Q := by
  intro s a s' hr
  simp only [run] at hr
  exact h _ a s' hr

theorem post_getBytes (n : Nat) : Post (getBytes n) (fun b => b.length = n) := by
  intro s a s' hr
  simp only [getBytes, run, flatR, Except.ok.injEq, Prod.mk.injEq] at hr
  rw [← hr.1]; exact ztake_length n s

theorem post_ite {α : Type} {Q : α → Prop} {c : Prop} [Decidable c] {e : Err} {p : P α}
    (h : ¬ c → Post p Q) : Post (if c then .fail e else p) Q := by
  split
  · exact post_fail
  · rename_i hc; exact h hc

theorem post_ite_pad {α : Type} {Q : α → Prop} {c : Prop} [Decidable c] {q : Fin 4} {a : α} (h : Q a) :
    Post (if c then P.pad q (.ret a) else .ret a) Q := by
  split
  · exact post_pad (post_ret h)
  · exact post_ret h

/-- hdr_get_NC_name: a name it returns has at most NC_MAX_NAME bytes -/
theorem post_getName (ver : Nat) : Post (getName ver) (fun s => s.length ≤ NC_MAX_NAME) := by
  unfold getName
  refine post_bind (post_true _) ?_
  intro nchars _
  refine post_ite ?_
  intro hle
  refine post_bind (post_getBytes nchars) ?_
  intro s hs
  exact post_ite_pad (by omega)

/-- hdr_get_nc_type: the type code is legal for the format -/
theorem post_getType (ver : Nat) : Post (getType ver) (fun t => ver < 5 → t.code ≤ 6) := by
  unfold getType
  refine post_bind (post_true _) ?_
  intro xtype _
  refine post_ite ?_
  intro h1
  refine post_ite ?_
  intro h2
  refine post_ite ?_
  intro h3
  split
  · rename_i t ht
    refine post_ret ?_
    intro hv
    have := (ofCode_some ht).1
    omega
  · exact post_fail

/-- an attribute as the reader returns it -/
structure AttOk (ver : Nat) (a : Att) : Prop where
  name  : a.name.length ≤ NC_MAX_NAME
  value : a.xvalue.length = a.nelems * a.xtype.size
  type  : ver < 5 → a.xtype.code ≤ 6

theorem post_getAttr (ver : Nat) : Post (getAttr ver) (AttOk ver) := by
  unfold getAttr
  refine post_bind (post_getName ver) ?_
  intro name hname
  refine post_bind (post_getType ver) ?_
  intro type htype
  refine post_bind (post_true _) ?_
  intro nelems _
  refine post_bind (post_getBytes _) ?_
  intro value hvalue
  have hok : AttOk ver { name := name, xtype := type, nelems := nelems, xvalue := value } := ⟨hname, hvalue, htype⟩
  exact post_ite_pad hok

theorem post_getN {α : Type} {item : P α} {Q : α → Prop} (h : Post item Q) :
    ∀ n, Post (getN item n) (fun xs => (∀ x ∈ xs, Q x) ∧ xs.length = n) := by
  intro n
  induction n with
  | zero =>
    refine post_ret ?_
    exact ⟨fun x hx => by simp at hx, rfl⟩
  | succ n ih =>
    simp only [getN]
    refine post_bind h ?_
    intro x hx
    refine post_bind ih ?_
    intro xs hxs
    refine post_ret ?_
    refine ⟨?_, by simp [hxs.2]⟩
    intro y hy
    rcases List.mem_cons.mp hy with rfl | hy'
    · exact hx
    · exact hxs.1 y hy'

theorem post_getArray {α : Type} {ver tagWant maxN : Nat} {errMax : Err} {items : Nat → P (List α)}
    {Q : List α → Prop} (h0 : Q []) (h : ∀ n, n ≤ maxN → Post (items n) Q) :
    Post (getArray ver tagWant maxN errMax items) Q := by
  unfold getArray
  refine post_bind (post_true _) ?_
  intro tag _
  refine post_bind (post_true _) ?_
  intro ndefined _
  refine post_ite ?_
  intro hmax
  split
  · exact post_ret h0
  · refine post_ite ?_
    intro _
    exact h ndefined (by omega)

theorem post_getAttrArray (ver : Nat) :
    Post (getAttrArray ver) (fun as => (∀ a ∈ as, AttOk ver a) ∧ as.length ≤ NC_MAX_ATTRS) := by
  unfold getAttrArray
  refine post_getArray (Q := fun as => (∀ a ∈ as, AttOk ver a) ∧ as.length ≤ NC_MAX_ATTRS) ?_ ?_
  · exact ⟨fun a ha => by simp at ha, by simp⟩
  · intro n hn
    exact post_mono (post_getN (post_getAttr ver) n) (fun xs hxs => ⟨hxs.1, by omega⟩)

/-- hdr_get_NC_dim -/
theorem post_getDim (ver : Nat) (hu : Bool) :
    Post (getDim ver hu) (fun d => d.name.length ≤ NC_MAX_NAME ∧ (hu = true → d.size ≠ 0)) := by
  unfold getDim
  refine post_bind (post_getName ver) ?_
  intro name hname
  refine post_bind (post_true _) ?_
  intro dimLength _
  refine post_ite ?_
  intro hnot
  refine post_ret ⟨hname, ?_⟩
  intro h1 h2
  exact hnot ⟨h1, h2⟩

def zeroCount (ds : List Dim) : Nat := (ds.filter (fun d => d.size == 0)).length

/-- the dimension loop: at most one record dimension (none if one was seen before) -/
theorem post_getDims (ver : Nat) : ∀ (n : Nat) (hu : Bool),
    Post (getDims ver n hu) (fun ds => (∀ d ∈ ds, d.name.length ≤ NC_MAX_NAME) ∧
      zeroCount ds ≤ (if hu then 0 else 1) ∧ ds.length = n) := by
  intro n
  induction n with
  | zero =>
    intro hu
    refine post_ret ?_
    exact ⟨fun d hd => by simp at hd, by simp [zeroCount], rfl⟩
  | succ n ih =>
    intro hu
    simp only [getDims]
    refine post_bind (post_getDim ver hu) ?_
    intro d hd
    refine post_bind (ih (hu || d.size == 0)) ?_
    intro ds hds
    refine post_ret ?_
    refine ⟨?_, ?_, by simp [hds.2.2]⟩
    · intro y hy
      rcases List.mem_cons.mp hy with rfl | hy'
      · exact hd.1
      · exact hds.1 y hy'
    · have h2 := hds.2.1
      simp only [zeroCount, List.filter_cons] at h2 ⊢
      cases hu with
      | true =>
        have hz := hd.2 rfl
        have : (d.size == 0) = false := by simpa using hz
        simp only [this, Bool.true_or, if_true] at h2 ⊢
        simpa using h2
      | false =>
        by_cases hz : d.size = 0
        · have : (d.size == 0) = true := by simpa using hz
          simp only [this, Bool.false_or, if_true] at h2 ⊢
          simp only [List.length_cons]
          have : (if false = true then 0 else 1) = 1 := by simp
          omega
        · have : (d.size == 0) = false := by simpa using hz
          simp only [this, Bool.false_or] at h2 ⊢
          simpa using h2

theorem post_getDimArray (ver : Nat) :
    Post (getDimArray ver) (fun ds => (∀ d ∈ ds, d.name.length ≤ NC_MAX_NAME) ∧ zeroCount ds ≤ 1 ∧
      ds.length ≤ NC_MAX_DIMS) := by
  unfold getDimArray
  refine post_getArray (Q := fun ds => (∀ d ∈ ds, d.name.length ≤ NC_MAX_NAME) ∧ zeroCount ds ≤ 1 ∧
      ds.length ≤ NC_MAX_DIMS) ?_ ?_
  · exact ⟨fun d hd => by simp at hd, by simp [zeroCount], by simp⟩
  · intro n hn
    exact post_mono (post_getDims ver n false) (fun ds h => ⟨h.1, by simpa using h.2.1, by omega⟩)

theorem post_getDimid (ver fNdims : Nat) : Post (getDimid ver fNdims) (fun id => id < fNdims) := by
  unfold getDimid
  refine post_bind (post_true _) ?_
  intro tmp _
  split
  · exact post_fail
  · exact post_ret (by omega)

/-- a variable as the reader returns it -/
structure VarOk (ver nd : Nat) (v : Var) : Prop where
  name   : v.name.length ≤ NC_MAX_NAME
  dimids : ∀ id ∈ v.dimids, id < nd
  ndims  : v.dimids.length ≤ NC_MAX_VAR_DIMS
  atts   : ∀ a ∈ v.atts, AttOk ver a
  type   : ver < 5 → v.xtype.code ≤ 6

theorem post_getVar (ver nd : Nat) : Post (getVar ver nd) (VarOk ver nd) := by
  unfold getVar
  refine post_bind (post_getName ver) ?_
  intro name hname
  refine post_bind (post_true _) ?_
  intro ndims _
  refine post_ite ?_
  intro hnd
  refine post_bind (post_getN (post_getDimid ver nd) ndims) ?_
  intro dimids hdimids
  refine post_bind (post_getAttrArray ver) ?_
  intro atts hatts
  refine post_bind (post_getType ver) ?_
  intro xtype htype
  refine post_bind (post_true _) ?_
  intro vsize _
  refine post_bind (post_true _) ?_
  intro begin_ _
  exact post_ret ⟨hname, hdimids.1, by simp only; omega, hatts.1, htype⟩

theorem post_getVarArray (ver nd : Nat) :
    Post (getVarArray ver nd) (fun vs => ∀ v ∈ vs, VarOk ver nd v) := by
  unfold getVarArray
  refine post_getArray (Q := fun vs => ∀ v ∈ vs, VarOk ver nd v) ?_ ?_
  · exact fun v hv => by simp at hv
  · intro n _
    exact post_mono (post_getN (post_getVar ver nd) n) (fun xs h => h.1)

/-- the header as ncmpio_hdr_get_NC holds it after the var_list has been read -/
structure HdrOk (h : Hdr) : Prop where
  dimNames : ∀ d ∈ h.dims, d.name.length ≤ NC_MAX_NAME
  oneRec   : zeroCount h.dims ≤ 1
  gatts    : ∀ a ∈ h.gatts, AttOk h.fmt.version a
  vars     : ∀ v ∈ h.vars, VarOk h.fmt.version h.dims.length v

theorem post_getBody (f : Fmt) : Post (getBody f) (fun h => h.fmt = f ∧ HdrOk h) := by
  unfold getBody
  simp only []
  refine post_bind (post_true _) ?_
  intro numrecs _
  refine post_bind (post_getDimArray f.version) ?_
  intro dims hdims
  refine post_bind (post_getAttrArray f.version) ?_
  intro gatts hgatts
  refine post_bind (post_getVarArray f.version dims.length) ?_
  intro vars hvars
  exact post_ret ⟨rfl, ⟨hdims.1, hdims.2.1, hgatts.1, hvars⟩⟩

/-- inversion of decodeWhole -/
theorem decodeWhole_ok {file : Bytes} {h : Hdr} {info : Info} (hd : decodeWhole file = .ok (h, info)) :
    ∃ f s', checkMagic (ztake 12 file) = .ok f ∧ run flatR (getBody f) (file.drop 4) = .ok (h, s') ∧
      postPass h = .ok info := by
  unfold decodeWhole at hd
  split at hd
  · contradiction
  · rename_i f hf
    split at hd
    · contradiction
    · rename_i h' s' hr
      split at hd
      · contradiction
      · rename_i info' hp
        simp only [Except.ok.injEq, Prod.mk.injEq] at hd
        obtain ⟨rfl, rfl⟩ := hd
        exact ⟨f, s', hf, hr, hp⟩

/-! ### what the post-pass guarantees -/

/-- the shape loop at an index other than 0 only lets existing dimensions of non-zero length through -/
theorem shapeOf_tail (dims : List Dim) : ∀ (ids : List Nat) (i : Nat) (sh : List Nat),
    shapeOf dims ids i = .ok sh → i ≠ 0 → ∀ id ∈ ids, ∃ d, dims[id]? = some d ∧ d.size ≠ 0 := by
  intro ids
  induction ids with
  | nil => intro i sh _ _ id hid; simp at hid
  | cons a t ih =>
    intro i sh h hi id hid
    simp only [shapeOf] at h
    split at h
    · contradiction
    · rename_i d hd
      split at h
      · contradiction
      · rename_i hz
        split at h
        · rename_i sh' hsh
          rcases List.mem_cons.mp hid with rfl | hid'
          · exact ⟨d, hd, fun h0 => hz ⟨h0, hi⟩⟩
          · exact ih (i + 1) sh' hsh (by omega) id hid'
        · contradiction

/-- a variable ncmpio_NC_var_shape64 accepts uses the record dimension at most as its first dimension -/
theorem varShape64_recFirst (d : Schema) (v : Var) (shape : List Nat) (len : Nat)
    (h : varShape64 d.dims v = .ok (shape, len)) : ∀ id ∈ v.dimids.drop 1, d.isRecDim id = false := by
  unfold varShape64 at h
  split at h
  · contradiction
  · rename_i sh hsh
    intro id hid
    cases hv : v.dimids with
    | nil => rw [hv] at hid; simp at hid
    | cons a t =>
      rw [hv] at hid hsh
      simp only [List.drop_succ_cons, List.drop_zero] at hid
      simp only [shapeOf] at hsh
      split at hsh
      · contradiction
      · split at hsh
        · contradiction
        · split at hsh
          · rename_i sh' hsh'
            obtain ⟨dm, hdm, hnz⟩ := shapeOf_tail d.dims t 1 sh' hsh' (by omega) id hid
            unfold Schema.isRecDim
            rw [hdm]
            simpa using hnz
          · contradiction

/-- every variable of a header the shape loop of compute_var_shape accepts was accepted by
    ncmpio_NC_var_shape64 -/
theorem cvsLoop_all (dims : List Dim) : ∀ (vs : List Var) (st st' : CvsState),
    cvsLoop dims vs st = .ok st' → ∀ v ∈ vs, ∃ shape len, varShape64 dims v = .ok (shape, len) := by
  intro vs
  induction vs with
  | nil => intro st st' _ v hv; cases hv
  | cons a t ih =>
    intro st st' h v hv
    simp only [cvsLoop] at h
    split at h
    · contradiction
    · rename_i shape len hsl
      rcases List.mem_cons.mp hv with rfl | hv'
      · exact ⟨shape, len, hsl⟩
      · split at h
        · exact ih _ _ h v hv'
        · exact ih _ _ h v hv'

theorem postPass_recFirst (d : Schema) (info : Info) (h : postPass d = .ok info) :
    ∀ v ∈ d.vars, ∀ id ∈ v.dimids.drop 1, d.isRecDim id = false := by
  unfold postPass at h
  simp only [] at h
  split at h
  · contradiction
  · rename_i beginVar beginRec recsize shapes lens hcvs
    intro v hv
    unfold computeVarShape at hcvs
    split at hcvs
    · rename_i h0
      have : d.vars = [] := List.eq_nil_of_length_eq_zero h0
      rw [this] at hv; cases hv
    · split at hcvs
      · contradiction
      · rename_i st hst
        obtain ⟨shape, len, hsl⟩ := cvsLoop_all d.dims _ _ _ hst v hv
        exact varShape64_recFirst d v shape len hsl

/-- the two consistency tests of ncmpio_hdr_get_NC passed (on the shapes, lengths and begins the
    post-pass itself computed) -/
theorem postPass_checks (d : Schema) (info : Info) (h : postPass d = .ok info) :
    checkVlens d.fmt.version ((d.vars.map (fun v => v.xtype.size)).zip info.shapes) = .ok () ∧
    checkVoffs info.beginVar info.beginRec info.numRecVars
      ((info.shapes.map isRecShape).zip ((d.vars.map (fun v => v.begin)).zip info.lens)) = .ok () := by
  unfold postPass at h
  simp only [] at h
  split at h
  · contradiction
  · rename_i beginVar beginRec recsize shapes lens hcvs
    split at h
    · contradiction
    · rename_i hvl
      split at h
      · contradiction
      · rename_i hvo
        simp only [Except.ok.injEq] at h
        subst h
        exact ⟨hvl, hvo⟩

end PnVerif.Safety
