import PnVerif.Model.Tools
/-
  Lemmas about the chunked comparison loop of cdfdiff (Model/Tools.lean, `chunkLoop`): whatever the chunk size, it
  decides equality of the two byte ranges — the whole-range comparison `toolDiff` works with.
-/

namespace PnVerif.Tools
open PnVerif.Spec PnVerif.Header

theorem chunkLoop_nil (chunk : Nat) : ∀ k n, chunkLoop chunk k [] [] n = true := by
  intro k
  induction k with
  | zero => intro n; rfl
  | succ k ih => intro n; simp [chunkLoop, ih]

theorem take_split (x : Bytes) (l n : Nat) (h : l ≤ n) : x.take n = x.take l ++ (x.drop l).take (n - l) := by
  have : n = l + (n - l) := by omega
  rw [this, List.take_add]
  simp

theorem chunkLoop_eq (chunk : Nat) (_hc : 0 < chunk) : ∀ (k : Nat) (x y : Bytes) (n : Nat), n ≤ k * chunk →
    chunkLoop chunk k x y n = decide (x.take n = y.take n) := by
  intro k
  induction k with
  | zero =>
    intro x y n hn
    have : n = 0 := by omega
    subst this
    simp [chunkLoop]
  | succ k ih =>
    intro x y n hn
    simp only [chunkLoop]
    have hr : min n chunk ≤ n := Nat.min_le_left _ _
    by_cases h1 : (x.take (min n chunk)).length ≠ (y.take (min n chunk)).length
    · rw [if_pos h1]
      symm
      rw [decide_eq_false_iff_not]
      intro he
      have := congrArg List.length he
      simp only [List.length_take] at this h1
      omega
    · rw [if_neg h1]
      have h1' : (x.take (min n chunk)).length = (y.take (min n chunk)).length := by omega
      by_cases h2 : x.take (min n chunk) ≠ y.take (min n chunk)
      · rw [if_pos h2]
        symm
        rw [decide_eq_false_iff_not]
        intro he
        apply h2
        have := congrArg (List.take (min n chunk)) he
        simpa [List.take_take, Nat.min_eq_left hr] using this
      · rw [if_neg h2]
        have h2' : x.take (min n chunk) = y.take (min n chunk) := by simpa using h2
        -- l = bytes actually read
        have hl : (x.take (min n chunk)).length = min (min n chunk) x.length := List.length_take
        have hly : (y.take (min n chunk)).length = min (min n chunk) y.length := List.length_take
        by_cases hfull : min n chunk ≤ x.length
        · -- a full read: advance by rSize
          have hlx : (x.take (min n chunk)).length = min n chunk := by rw [hl]; omega
          rw [hlx]
          have hk : n - min n chunk ≤ k * chunk := by
            rw [Nat.succ_mul] at hn
            by_cases hnc : n ≤ chunk
            · rw [Nat.min_eq_left hnc]; omega
            · rw [Nat.min_eq_right (by omega)]; omega
          rw [ih _ _ _ hk]
          rw [take_split x (min n chunk) n hr, take_split y (min n chunk) n hr, h2']
          simp
        · -- a short read of the same length from both files: both files end here
          have hxl : x.length < min n chunk := by omega
          have hyl : y.length = x.length := by rw [hl, hly] at h1'; omega
          have hx0 : x.drop (x.take (min n chunk)).length = [] := by rw [hl]; exact List.drop_eq_nil_of_le (by omega)
          have hy0 : y.drop (x.take (min n chunk)).length = [] := by rw [hl]; exact List.drop_eq_nil_of_le (by omega)
          rw [hx0, hy0, chunkLoop_nil]
          symm
          rw [decide_eq_true_iff]
          have e1 : x.take n = x.take (min n chunk) := by
            rw [List.take_of_length_le (by omega), List.take_of_length_le (by omega)]
          have e2 : y.take n = y.take (min n chunk) := by
            rw [List.take_of_length_le (by omega), List.take_of_length_le (by omega)]
          rw [e1, e2, h2']

theorem nChunks_covers (n chunk : Nat) (hc : 0 < chunk) : n ≤ nChunks n chunk * chunk := by
  unfold nChunks
  have h := Nat.div_add_mod n chunk
  have hm : n % chunk < chunk := Nat.mod_lt _ hc
  split
  · rw [Nat.add_mul, Nat.one_mul, Nat.mul_comm]; omega
  · rename_i h0
    have : n % chunk = 0 := by simpa using h0
    rw [Nat.add_zero, Nat.mul_comm]; omega

/-- `cdfdiff_chunking_irrelevant`: for EVERY chunk size > 0, every pair of files, offsets and sizes, the chunk loop
    of cdfdiff decides exactly "the two byte ranges are equal" (including files that end early: short reads) -/
theorem chunking_irrelevant (chunk : Nat) (hc : 0 < chunk) (f1 f2 : Bytes) (off1 off2 n : Nat) :
    cdfdiffRecordSame chunk f1 f2 off1 off2 n = (rdAt f1 off1 n == rdAt f2 off2 n) := by
  unfold cdfdiffRecordSame rdAt
  rw [chunkLoop_eq chunk hc _ _ _ _ (nChunks_covers n chunk hc)]
  by_cases h : List.take n (List.drop off1 f1) = List.take n (List.drop off2 f2)
  · simp [h]
  · simp [h]

end PnVerif.Tools
