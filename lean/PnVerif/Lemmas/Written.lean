import PnVerif.Lemmas.Accept
/-
  The layout NC_begins produces, put into the header the library writes, is a layout the
  specification allows (`Schema.LayoutValid`): C03's output is C04's input.
-/
namespace PnVerif.Layout
open PnVerif.Spec PnVerif.Header

/-- the header with the begins NC_begins computed (what write_NC encodes) -/
def placeVars : List Var → List VarL → List Nat → List Nat → List Var
  | v :: vs, vl :: vls, fb, rb =>
    if vl.isRec then { v with begin := rb.headD 0 } :: placeVars vs vls fb (rb.drop 1)
    else { v with begin := fb.headD 0 } :: placeVars vs vls (fb.drop 1) rb
  | _, _, _, _ => []

theorem placeVars_eq_zip : ∀ (vars : List Var) (vls : List VarL) (fb rb : List Nat), vars.length = vls.length →
    placeVars vars vls fb rb = List.zipWith (fun v b => { v with begin := b }) vars (interleave vls fb rb) := by
  intro vars
  induction vars with
  | nil => intro vls fb rb _; cases vls <;> simp [placeVars]
  | cons v vs ih =>
    intro vls fb rb hl
    cases vls with
    | nil => simp at hl
    | cons vl vls =>
      simp only [List.length_cons, Nat.add_right_cancel_iff] at hl
      simp only [placeVars, interleave]
      split <;> simp [ih _ _ _ hl]

/-- variable `v` of the schema and entry `vl` of NC_begins' view describe the same variable -/
def Same (d : Schema) (v : Var) (vl : VarL) : Prop := d.isRecVar v = vl.isRec ∧ d.varLen v = vl.len

/-- pointwise `Same` over the two lists -/
inductive AllSame (d : Schema) : List Var → List VarL → Prop where
  | nil : AllSame d [] []
  | cons {v : Var} {vl : VarL} {vs : List Var} {vls : List VarL} : Same d v vl → AllSame d vs vls → AllSame d (v :: vs) (vl :: vls)

theorem isRecVar_begin (d : Schema) (v : Var) (b : Nat) : d.isRecVar { v with begin := b } = d.isRecVar v := rfl
theorem varLen_begin (d : Schema) (v : Var) (b : Nat) : d.varLen { v with begin := b } = d.varLen v := rfl

/-- fixed-size variables: a chain in NC_begins' sense is a chain in the specification's sense -/
theorem chainFrom_fixed (d : Schema) : ∀ (vars : List Var) (vls : List VarL) (fb rb : List Nat) (prev : Nat),
    AllSame d vars vls → chainOk (vls.filter (fun v => !v.isRec)) fb prev →
    d.chainFrom false (placeVars vars vls fb rb) prev = some (endOf (vls.filter (fun v => !v.isRec)) fb prev) := by
  intro vars vls fb rb prev hs
  induction hs generalizing fb rb prev with
  | nil => intro _; simp [placeVars, Schema.chainFrom, endOf]
  | @cons v vl vs vls' hvl _ ih =>
    intro hc
    obtain ⟨h1, h2⟩ := hvl
    cases hr : vl.isRec with
    | true =>
      simp only [placeVars, hr, if_true, Schema.chainFrom, isRecVar_begin, h1, List.filter_cons, Bool.not_true,
        Bool.false_eq_true, if_false] at hc ⊢
      simp only [bne_self_eq_false, Bool.true_bne, Bool.not_false, if_true]
      exact ih fb (rb.drop 1) prev hc
    | false =>
      simp only [List.filter_cons, hr, Bool.not_false, if_true] at hc ⊢
      cases fb with
      | nil => simp [chainOk] at hc
      | cons b bs =>
        simp only [chainOk] at hc
        have hnlt : ¬ b < prev := by omega
        simp only [placeVars, hr, Bool.false_eq_true, if_false, List.headD_cons, List.drop_succ_cons, List.drop_zero,
          Schema.chainFrom, isRecVar_begin, varLen_begin, h1, h2, bne_self_eq_false, hnlt, endOf]
        exact ih bs rb (b + vl.len) hc.2

/-- record variables laid out back to back from `br` (not before `prev`) form a chain -/
theorem chainFrom_rec (d : Schema) : ∀ (vars : List Var) (vls : List VarL) (fb : List Nat) (br prev : Nat),
    AllSame d vars vls → prev ≤ br →
    ∃ e, d.chainFrom true (placeVars vars vls fb (consec (vls.filter (fun v => v.isRec)) br)) prev = some e := by
  intro vars vls fb br prev hs
  induction hs generalizing fb br prev with
  | nil => intro _; exact ⟨prev, by simp [placeVars, Schema.chainFrom]⟩
  | @cons v vl vs vls' hvl _ ih =>
    intro hle
    obtain ⟨h1, h2⟩ := hvl
    cases hr : vl.isRec with
    | true =>
      have hnlt : ¬ br < prev := by omega
      simp only [List.filter_cons, hr, if_true, consec, placeVars, List.headD_cons, List.drop_succ_cons, List.drop_zero,
        Schema.chainFrom, isRecVar_begin, varLen_begin, h1, h2, bne_self_eq_false, Bool.false_eq_true, if_false, hnlt]
      exact ih fb (br + vl.len) (br + vl.len) (Nat.le_refl _)
    | false =>
      simp only [List.filter_cons, hr, Bool.false_eq_true, if_false, placeVars, Schema.chainFrom, isRecVar_begin, h1,
        Bool.false_bne, if_true]
      exact ih (fb.drop 1) br prev hle

end PnVerif.Layout

namespace PnVerif.Layout
open PnVerif.Spec PnVerif.Header

/-- NC_begins' view of the variables of a schema, written out -/
def vlsOf (h : Hdr) : List VarL :=
  h.vars.map (fun v => { isRec := h.isRecVar v, len := h.varLen v, packed := dsizes0 (shapeS h v) * v.xtype.size })

theorem varsOf_valid (h : Hdr) (hv : ∀ v ∈ h.vars, VarValid h v) : varsOf h = .ok (vlsOf h) := by
  unfold varsOf vlsOf
  have key : ∀ (l : List Var), (∀ v ∈ l, VarValid h v) →
      l.mapM (fun v => match varShape64 h.dims v with
        | .error e => (.error e : Except Err VarL)
        | .ok (shape, len) => .ok { isRec := isRecShape shape, len := len, packed := dsizes0 shape * v.xtype.size }) =
      .ok (l.map (fun v => { isRec := h.isRecVar v, len := h.varLen v, packed := dsizes0 (shapeS h v) * v.xtype.size })) := by
    intro l
    induction l with
    | nil => intro _; rfl
    | cons a t ih =>
      intro hl
      have ha := hl a (by simp)
      simp only [List.mapM_cons, varShape64_ok h a ha.1 ha.2, isRecShape_eq h a ha.1.1, bind, Except.bind,
        ih (fun v hv' => hl v (by simp [hv'])), pure, Except.pure, List.map_cons]
  exact key h.vars hv

theorem allSame_vlsOf (h : Hdr) : AllSame h h.vars (vlsOf h) := by
  unfold vlsOf
  generalize h.vars = l
  induction l with
  | nil => exact AllSame.nil
  | cons a t ih => exact AllSame.cons ⟨rfl, rfl⟩ ih

theorem chainOk_weaken : ∀ (vs : List VarL) (bs : List Nat) (p p' : Nat), p' ≤ p → chainOk vs bs p →
    chainOk vs bs p' ∧ endOf vs bs p' ≤ endOf vs bs p := by
  intro vs bs p p' hle hc
  cases vs with
  | nil =>
    cases bs with
    | nil => exact ⟨trivial, by simpa [endOf] using hle⟩
    | cons b bs => simp [chainOk] at hc
  | cons v vs =>
    cases bs with
    | nil => simp [chainOk] at hc
    | cons b bs =>
      simp only [chainOk] at hc ⊢
      exact ⟨⟨by omega, hc.2⟩, by simp [endOf]⟩

theorem mem_placeVars : ∀ (vars : List Var) (vls : List VarL) (fb rb : List Nat) (x : Var),
    x ∈ placeVars vars vls fb rb → ∃ v ∈ vars, ∃ b, x = { v with begin := b } := by
  intro vars
  induction vars with
  | nil => intro vls fb rb x hx; simp [placeVars] at hx
  | cons v vs ih =>
    intro vls fb rb x hx
    cases vls with
    | nil => simp [placeVars] at hx
    | cons vl vls =>
      simp only [placeVars] at hx
      split at hx
      · rcases List.mem_cons.mp hx with rfl | hx'
        · exact ⟨v, by simp, _, rfl⟩
        · obtain ⟨w, hw, b, rfl⟩ := ih _ _ _ _ hx'
          exact ⟨w, by simp [hw], b, rfl⟩
      · rcases List.mem_cons.mp hx with rfl | hx'
        · exact ⟨v, by simp, _, rfl⟩
        · obtain ⟨w, hw, b, rfl⟩ := ih _ _ _ _ hx'
          exact ⟨w, by simp [hw], b, rfl⟩

theorem placeVars_lenVar (w o : Nat) : ∀ (vars : List Var) (vls : List VarL) (fb rb : List Nat), vars.length = vls.length →
    (placeVars vars vls fb rb).map (lenVar w o) = vars.map (lenVar w o) := by
  intro vars
  induction vars with
  | nil => intro vls fb rb _; cases vls <;> simp [placeVars]
  | cons v vs ih =>
    intro vls fb rb hl
    cases vls with
    | nil => simp at hl
    | cons vl vls =>
      simp only [List.length_cons, Nat.add_right_cancel_iff] at hl
      simp only [placeVars]
      split <;> simp [ih _ _ _ hl, lenVar]

/-- the header write_NC encodes after NC_begins produced `L` -/
def written (h : Hdr) (L : Layout) : Hdr := { h with vars := placeVars h.vars (vlsOf h) L.fixedBegins L.recBegins }

theorem written_len (h : Hdr) (L : Layout) : Hdr.len (written h L) = Hdr.len h := by
  unfold Hdr.len written lenVarArray
  simp only []
  rw [placeVars_lenVar _ _ h.vars (vlsOf h) _ _ (by simp [vlsOf])]

theorem chainFrom_dims (d d' : Schema) (hd : d'.dims = d.dims) (w : Bool) : ∀ (vs : List Var) (p : Nat),
    d'.chainFrom w vs p = d.chainFrom w vs p := by
  have h1 : ∀ v, d'.isRecVar v = d.isRecVar v := by
    intro v; simp [Schema.isRecVar, Schema.isRecDim, hd]
  have h3 : ∀ id, d'.dimFactor id = d.dimFactor id := by
    intro id; simp [Schema.dimFactor, hd]
  have h2 : ∀ v, d'.varLen v = d.varLen v := by
    intro v
    have : d'.dimFactor = d.dimFactor := funext h3
    simp [Schema.varLen, Schema.nelems, this]
  intro vs
  induction vs with
  | nil => intro p; rfl
  | cons v vs ih => intro p; simp only [Schema.chainFrom, h1, h2, ih]

/-- C03 ⟶ C04: the header the library writes with the begins NC_begins computed is a layout the
    specification allows — for every schema of valid variables, new file or redefinition -/
theorem written_layout_valid (h : Hdr) (hv : ∀ v ∈ h.vars, VarValid h v) (al : Align) (old : Option Old) (L : Layout)
    (hw : LayoutWF (Hdr.len h) (vlsOf h) al old L) :
    (written h L).LayoutValid (Hdr.len (written h L)) := by
  rw [written_len]
  have hdims : (written h L).dims = h.dims := rfl
  obtain ⟨bv0, hx, _, hc, he⟩ := hw.fixedOk
  obtain ⟨hc', hle⟩ := chainOk_weaken _ _ _ _ hx hc
  have hfix := chainFrom_fixed h h.vars (vlsOf h) L.fixedBegins L.recBegins (Hdr.len h) (allSame_vlsOf h) hc'
  have hrec := chainFrom_rec h h.vars (vlsOf h) L.fixedBegins L.beginRec
    (endOf ((vlsOf h).filter (fun v => !v.isRec)) L.fixedBegins (Hdr.len h)) (allSame_vlsOf h) (by omega)
  rw [← hw.recs] at hrec
  obtain ⟨e', hrec⟩ := hrec
  refine ⟨?_, ?_, ⟨endOf ((vlsOf h).filter (fun v => !v.isRec)) L.fixedBegins (Hdr.len h), ?_, e', ?_⟩⟩
  · intro x hx
    obtain ⟨v, hvm, b, rfl⟩ := mem_placeVars _ _ _ _ x hx
    have := (hv v hvm).1
    simpa [Schema.isRecDim, hdims] using this
  · intro x hx
    obtain ⟨v, hvm, b, rfl⟩ := mem_placeVars _ _ _ _ x hx
    have := (hv v hvm).2
    have hdf : (written h L).dimFactor = h.dimFactor := by
      funext id; simp [Schema.dimFactor, hdims]
    simpa [Schema.nelems, hdf] using this
  · rw [chainFrom_dims h (written h L) hdims]; exact hfix
  · rw [chainFrom_dims h (written h L) hdims]; exact hrec

end PnVerif.Layout
