import PnVerif.Model.Flatten
import PnVerif.Lemmas.Access
import PnVerif.Lemmas.MergeLemmas
import PnVerif.Props.C01
/-
  Lemmas about Model/Flatten.lean.  vars_flatten is related to the transcription of stride_flatten
  (Model/Access.lean, `strideFlatten`) for a fixed-size array, whose correctness is
  Props.C01.strideFlatten_offsets.
-/
namespace PnVerif.Flatten
open PnVerif.Access PnVerif.Merge

/-- one pass of the while loop is one `extend` step (needs count[d] ≥ 1, which `*nseg != 0` guarantees) -/
theorem vfStep_eq_extend (el a s c k : Nat) (offs : List Nat) (hc : 0 < c) :
    vfStep el a s c k offs = extend offs ⟨s, c, k, a * el⟩ := by
  obtain ⟨c', rfl⟩ : ∃ c', c = c' + 1 := ⟨c - 1, by omega⟩
  unfold vfStep extend
  simp only [Nat.add_sub_cancel]
  rw [List.range_succ_eq_map, List.flatMap_cons, List.flatMap_map]
  congr 1
  · apply List.map_congr_left; intro x _
    simp only [Nat.zero_mul, Nat.add_zero, Nat.mul_assoc]
  · congr 1; funext i
    rw [List.map_map]
    apply List.map_congr_left; intro x _
    simp only [Function.comp]
    have e1 : s * a * el = s * (a * el) := Nat.mul_assoc _ _ _
    have e2 : a * k * el = k * (a * el) := by rw [Nat.mul_comm a k, Nat.mul_assoc]
    rw [e1, e2]

theorem vfLoop_eq_sfLoop (el : Nat) (xs : List (Nat × Nat × Nat × Nat × Bool)) :
    ∀ (a : Nat) (offs : List Nat), (∀ x ∈ xs, 0 < x.2.1) →
      vfLoop el xs a offs = sfLoop false 0 xs (a * el) offs := by
  induction xs with
  | nil => intro a offs _; rfl
  | cons x rest ih =>
    intro a offs h
    obtain ⟨s, c, k, dl, f⟩ := x
    have hc : 0 < c := h (s, c, k, dl, f) List.mem_cons_self
    simp only [vfLoop, sfLoop, Bool.false_eq_true, and_false, if_false]
    rw [vfStep_eq_extend _ _ _ _ _ _ hc, ih _ _ (fun y hy => h y (List.mem_cons_of_mem _ hy))]
    have : a * dl * el = a * el * dl := by rw [Nat.mul_assoc, Nat.mul_comm dl el, ← Nat.mul_assoc]
    rw [this]

theorem extend_shift (o : Nat) (disps : List Nat) (d : Dim) :
    extend (disps.map (fun x => o + x)) d = (extend disps d).map (fun x => o + x) := by
  unfold extend
  rw [List.map_flatMap]
  congr 1; funext i
  rw [List.map_map, List.map_map]
  apply List.map_congr_left; intro x _
  simp only [Function.comp]; omega

theorem sfLoop_shift (o : Nat) (xs : List (Nat × Nat × Nat × Nat × Bool)) :
    ∀ (a : Nat) (disps : List Nat),
      sfLoop false 0 xs a (disps.map (fun x => o + x)) = (sfLoop false 0 xs a disps).map (fun x => o + x) := by
  induction xs with
  | nil => intro a disps; rfl
  | cons x rest ih =>
    intro a disps
    obtain ⟨s, c, k, dl, f⟩ := x
    simp only [sfLoop, Bool.false_eq_true, and_false, if_false]
    rw [extend_shift, ih]

theorem sfHigher_counts (s c k dl : List Nat) (h : ∀ x ∈ c, 0 < x) : ∀ y ∈ sfHigher s c k dl, 0 < y.2.1 := by
  induction s generalizing c k dl with
  | nil => intro y hy; simp [sfHigher] at hy
  | cons s0 ss ih =>
    intro y hy
    cases c with
    | nil => simp [sfHigher] at hy
    | cons c0 cs =>
    cases k with
    | nil => simp [sfHigher] at hy
    | cons k0 ks =>
    cases dl with
    | nil => simp [sfHigher] at hy
    | cons d0 ds =>
    cases ds with
    | nil => simp [sfHigher] at hy
    | cons d1 ds' =>
      simp only [sfHigher, List.mem_append, List.mem_singleton] at hy
      rcases hy with hy | rfl
      · exact ih cs ks (d1 :: ds') (fun x hx => h x (List.mem_cons_of_mem _ hx)) y hy
      · exact h c0 List.mem_cons_self

theorem sfLoop_unmark (xs : List (Nat × Nat × Nat × Nat × Bool)) (a : Nat) (disps : List Nat) :
    sfLoop false 0 (markDim0 xs) a disps = sfLoop false 0 xs a disps := by
  rw [sfLoop_eq, sfLoop_eq, dimsOf_false_mark]

theorem sfLoop_d0 (d0 : Nat) (xs : List (Nat × Nat × Nat × Nat × Bool)) (a : Nat) (disps : List Nat) :
    sfLoop false d0 xs a disps = sfLoop false 0 xs a disps := by
  induction xs generalizing a disps with
  | nil => rfl
  | cons x rest ih =>
    obtain ⟨s, c, k, dl, f⟩ := x
    simp only [sfLoop, Bool.false_eq_true, and_false, if_false]
    exact ih _ _

theorem expandBlocks_shift (el o seg : Nat) (disps : List Nat) :
    expandBlocks el (disps.map (fun x => o + x)) seg = (expandBlocks el disps seg).map (fun x => o + x) := by
  unfold expandBlocks
  rw [List.flatMap_map, List.map_flatMap]
  congr 1; funext d
  rw [List.map_map]
  apply List.map_congr_left; intro j _
  simp only [Function.comp]; omega

/-- vars_flatten against stride_flatten on the fixed-size array (offset, el, dimlen) -/
theorem varsFlattenOffs_eq (el offset : Nat) (dimlen s c k : List Nat) (hpos : ∀ x ∈ c, 0 < x) (hne : c ≠ []) :
    let v : VarLay := { begin := offset, xsz := el, shape := dimlen, isRec := false, recsize := 0 }
    varsFlattenOffs el offset dimlen s c k
      = ((strideFlatten v s c k).1.map (fun x => offset + x), (strideFlatten v s c k).2) := by
  intro v
  have hnseg : ¬ ((if k.getLastD 1 = 1 then 1 else c.getLastD 0) * prod c.dropLast = 0) := by
    have h1 : 0 < c.getLastD 0 := by
      cases hc : c.getLast? with
      | none => rw [List.getLast?_eq_none_iff] at hc; exact absurd hc hne
      | some x =>
        have hx : x ∈ c := List.mem_of_getLast? hc
        have : c.getLastD 0 = x := by rw [List.getLastD_eq_getLast?, hc]; rfl
        rw [this]; exact hpos x hx
    have h2 : 0 < prod c.dropLast := by
      have : ∀ l : List Nat, (∀ x ∈ l, 0 < x) → 0 < prod l := by
        intro l hl
        induction l with
        | nil => simp [prod]
        | cons a as ih =>
          simp only [prod]
          exact Nat.mul_pos (hl a List.mem_cons_self) (ih (fun x hx => hl x (List.mem_cons_of_mem _ hx)))
      exact this _ (fun x hx => hpos x ((List.dropLast_sublist c).subset hx))
    have h3 : 0 < (if k.getLastD 1 = 1 then 1 else c.getLastD 0) := by split <;> omega
    exact Nat.ne_of_gt (Nat.mul_pos h3 h2)
  unfold varsFlattenOffs strideFlatten
  simp only [hnseg, if_false, v, Bool.false_eq_true, and_false]
  congr 1
  rw [vfLoop_eq_sfLoop el _ 1 _ (sfHigher_counts s c k dimlen hpos), Nat.one_mul, sfLoop_d0 (dimlen.headD 0),
      sfLoop_unmark, ← sfLoop_shift]
  congr 1
  rw [List.map_map]
  apply List.map_congr_left; intro i _
  simp only [Function.comp]; omega

/-! ### the buffer blocks of mgetput -/

theorem bufGo_bytes (a0 : Int) (rest : List (Int × Int)) : ∀ (cs cl : Int), 0 ≤ cl → (∀ r ∈ rest, 0 ≤ r.2) →
    (bufGo a0 cs cl rest).flatMap (fun p => span (a0 + p.1) p.2) = span cs cl ++ rest.flatMap (fun r => span r.1 r.2) := by
  induction rest with
  | nil =>
    intro cs cl _ _
    simp only [bufGo, List.flatMap_cons, List.flatMap_nil, List.append_nil]
    have : a0 + (cs - a0) = cs := by omega
    rw [this]
  | cons r rest ih =>
    intro cs cl hcl hp
    obtain ⟨ai, sz⟩ := r
    have hsz : 0 ≤ sz := hp (ai, sz) List.mem_cons_self
    have hp' : ∀ x ∈ rest, 0 ≤ x.2 := fun x hx => hp x (List.mem_cons_of_mem _ hx)
    unfold bufGo
    split
    · rename_i h
      rw [ih cs (cl + sz) (by omega) hp', span_add cs cl sz hcl hsz]
      have : cs + cl = ai := by omega
      simp [List.flatMap_cons, this]
    · simp only [List.flatMap_cons]
      rw [ih ai sz hsz hp']
      have : a0 + (cs - a0) = cs := by omega
      rw [this]

/-- the (displacement, length) blocks of the buffer type, read from the first request's buffer,
    cover exactly the bytes of the requests' buffers, in request order -/
theorem bufBlocks_bytes (reqs : List (Int × Int)) (hp : ∀ r ∈ reqs, 0 ≤ r.2) :
    (bufBlocks reqs).flatMap (fun p => span ((reqs.head?.map (fun r => r.1)).getD 0 + p.1) p.2)
      = reqs.flatMap (fun r => span r.1 r.2) := by
  cases reqs with
  | nil => rfl
  | cons r rest =>
    obtain ⟨a, sz⟩ := r
    simp only [bufBlocks, List.head?_cons, Option.map_some, Option.getD_some]
    rw [bufGo_bytes a rest a sz (hp (a, sz) List.mem_cons_self) (fun x hx => hp x (List.mem_cons_of_mem _ hx))]
    simp [List.flatMap_cons]

end PnVerif.Flatten
