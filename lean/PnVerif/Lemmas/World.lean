import PnVerif.Model.World
/-
  Helper lemmas for Props/C08.lean: the reductions (Allreduce MIN / MAX as folds) and the matcher.
-/
namespace PnVerif.World

theorem foldl_min_le_acc (l : List Int) (acc : Int) : l.foldl min acc ≤ acc := by
  induction l generalizing acc with
  | nil => simp
  | cons x xs ih =>
    simp only [List.foldl_cons]
    exact Int.le_trans (ih _) (Int.min_le_left _ _)

theorem foldl_min_le_mem (l : List Int) (acc : Int) (x : Int) (h : x ∈ l) : l.foldl min acc ≤ x := by
  induction l generalizing acc with
  | nil => cases h
  | cons y ys ih =>
    simp only [List.foldl_cons]
    rcases List.mem_cons.mp h with rfl | h'
    · exact Int.le_trans (foldl_min_le_acc _ _) (Int.min_le_right _ _)
    · exact ih _ h'

theorem le_foldl_min (l : List Int) (acc b : Int) (hacc : b ≤ acc) (h : ∀ x ∈ l, b ≤ x) : b ≤ l.foldl min acc := by
  induction l generalizing acc with
  | nil => simpa
  | cons y ys ih =>
    simp only [List.foldl_cons]
    apply ih
    · exact Int.le_min.mpr ⟨hacc, h y (List.mem_cons_self)⟩
    · intro x hx; exact h x (List.mem_cons_of_mem _ hx)

theorem minOf_le_zero (l : List Int) : minOf l ≤ 0 := foldl_min_le_acc l 0
theorem minOf_le_mem (l : List Int) (x : Int) (h : x ∈ l) : minOf l ≤ x := foldl_min_le_mem l 0 x h

/-- Allreduce(MIN) of error codes is NC_NOERR iff nobody has an error (codes are never positive) -/
theorem minOf_eq_zero_iff (l : List Int) (hneg : ∀ x ∈ l, x ≤ 0) : minOf l = 0 ↔ ∀ x ∈ l, x = 0 := by
  constructor
  · intro h x hx
    have h1 := minOf_le_mem l x hx
    have h2 := hneg x hx
    omega
  · intro h
    have h1 : (0 : Int) ≤ minOf l := le_foldl_min l 0 0 (Int.le_refl _) (fun x hx => by rw [h x hx]; exact Int.le_refl _)
    have h2 := minOf_le_zero l
    omega

theorem minOf_map_mem {α : Type} (f : α → Int) (l : List α) (a : α) (ha : a ∈ l) : minOf (l.map f) ≤ f a :=
  minOf_le_mem _ _ (List.mem_map.mpr ⟨a, ha, rfl⟩)

theorem ArgErr.code_neg (e : ArgErr) : e.code < 0 := by cases e <;> decide
theorem DrvErr.code_neg (e : DrvErr) : e.code < 0 := by cases e <;> decide

theorem dispErr_le_zero (x : RankInput) : dispErr x ≤ 0 := by
  unfold dispErr; split
  · exact Int.le_of_lt (ArgErr.code_neg _)
  · exact Int.le_refl _

theorem dispErr_eq_zero_iff (x : RankInput) : dispErr x = 0 ↔ isArgErr x = false := by
  unfold dispErr isArgErr
  split
  · have := ArgErr.code_neg ‹ArgErr›
    constructor
    · intro h; omega
    · intro h; cases h
  · simp

theorem fillOwnErr_le_zero (x : RankInput) : fillOwnErr x ≤ 0 := by
  unfold fillOwnErr; split <;> decide

theorem fillCmpErr_le_zero (root x : RankInput) : fillCmpErr root x ≤ 0 := by
  unfold fillCmpErr
  split
  · exact fillOwnErr_le_zero x
  · split <;> decide

/-- after the safe-mode Allreduce in ncmpio_fill_var_rec either every rank has an error or none has -/
theorem fillSafeErr_ne_zero_iff (mc : Bool) (root : RankInput) (world : List RankInput) (x : RankInput) (hx : x ∈ world) :
    fillSafeErr mc root world x ≠ 0 ↔ minOf (world.map (fillCmpErr root)) ≠ 0 := by
  unfold fillSafeErr
  split
  · rename_i h
    constructor
    · intro _ hm
      have h1 := minOf_map_mem (fillCmpErr root) world x hx
      have h2 := fillCmpErr_le_zero root x
      have := h.2
      omega
    · intro _; exact h.2
  · exact Iff.rfl

theorem metaCode_le_zero (x : RankInput) : metaCode x ≤ 0 := by
  unfold metaCode; omega

theorem metaCode_eq_zero_iff (x : RankInput) : metaCode x = 0 ↔ x.metaErr = 0 := by
  unfold metaCode; omega

theorem headD_of_mem {α : Type} (l : List α) (a b x : α) (hx : x ∈ l) : l.headD a = l.headD b := by
  cases l with
  | nil => cases hx
  | cons y ys => rfl

/-! ### matcher -/
theorem completes_replicate (n : Nat) (t : Trace) : Completes (List.replicate n t) := by
  induction t with
  | nil =>
    apply Completes.done
    intro s hs
    exact (List.mem_replicate.mp hs).2
  | cons c t ih =>
    cases n with
    | zero => apply Completes.done; intro s hs; cases hs
    | succ n =>
      have hstep : Step (List.replicate (n + 1) (c :: t)) ((List.replicate (n + 1) (c :: t)).map List.tail) :=
        Step.fire c _ (by simp) (by intro s hs; rw [(List.mem_replicate.mp hs).2]; rfl)
      have hmap : (List.replicate (n + 1) (c :: t)).map List.tail = List.replicate (n + 1) t := by
        simp [List.map_replicate]
      rw [hmap] at hstep
      exact Completes.step hstep ih

theorem eq_replicate_of_all_eq {α : Type} (w : List α) (h : ∀ a ∈ w, ∀ b ∈ w, a = b) :
    ∀ t ∈ w, w = List.replicate w.length t := by
  intro t ht
  apply List.eq_replicate_iff.mpr
  exact ⟨rfl, fun b hb => h b hb t ht⟩

theorem all_eq_of_completes {w : Pending} (h : Completes w) : ∀ a ∈ w, ∀ b ∈ w, a = b := by
  induction h with
  | done hd =>
    intro a ha b hb
    rw [hd a ha, hd b hb]
  | @step w0 w1 hs _ ih =>
    cases hs with
    | fire c _ hne hh =>
      intro a ha b hb
      have ha' := hh a ha
      have hb' := hh b hb
      cases a with
      | nil => simp at ha'
      | cons ca ta =>
        cases b with
        | nil => simp at hb'
        | cons cb tb =>
          simp only [List.head?_cons, Option.some.injEq] at ha' hb'
          have hta : ta ∈ w0.map List.tail := List.mem_map.mpr ⟨ca :: ta, ha, rfl⟩
          have htb : tb ∈ w0.map List.tail := List.mem_map.mpr ⟨cb :: tb, hb, rfl⟩
          rw [ha', hb', ih ta hta tb htb]

/-- two ranks with different sequences: the matcher runs into a state where nobody can move and somebody waits -/
theorem stuck_of_ne (a : Trace) : ∀ (w : Pending) (b : Trace), a ∈ w → b ∈ w → a ≠ b → ∃ w', Reach w w' ∧ Stuck w' := by
  induction a with
  | nil =>
    intro w b ha hb hne
    refine ⟨w, Reach.refl w, ?_, ?_⟩
    · intro hd; exact hne (hd b hb).symm
    · rintro ⟨w', hs⟩
      cases hs with
      | fire c _ _ hh => have := hh [] ha; simp at this
  | cons c ta ih =>
    intro w b ha hb hne
    by_cases hstep : ∃ w', Step w w'
    · obtain ⟨w', hs⟩ := hstep
      cases hs with
      | fire c' _ hnil hh =>
        have h1 := hh (c :: ta) ha
        have h2 := hh b hb
        simp only [List.head?_cons, Option.some.injEq] at h1
        cases b with
        | nil => simp at h2
        | cons cb tb =>
          simp only [List.head?_cons, Option.some.injEq] at h2
          have hne' : ta ≠ tb := by
            intro h; apply hne; rw [h1, h2, h]
          have hta : ta ∈ w.map List.tail := List.mem_map.mpr ⟨c :: ta, ha, rfl⟩
          have htb : tb ∈ w.map List.tail := List.mem_map.mpr ⟨cb :: tb, hb, rfl⟩
          obtain ⟨w'', hr, hst⟩ := ih (w.map List.tail) tb hta htb hne'
          exact ⟨w'', Reach.step (Step.fire c' w hnil hh) hr, hst⟩
    · refine ⟨w, Reach.refl w, ?_, hstep⟩
      intro hd; have := hd (c :: ta) ha; cases this

end PnVerif.World
