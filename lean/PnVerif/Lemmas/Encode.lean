import PnVerif.Lemmas.Decode
/-
  The independent specification decoder run on the output of the library's writer
  (`encodeRaw`, any field values that fit the field widths), parser by parser.
-/
namespace PnVerif.Header
open PnVerif.Spec

theorem beNat_be32 (n : Nat) (h : n < 4294967296) : beNat (be32 n) = n := by
  simp only [beNat, be32, List.foldl_cons, List.foldl_nil, UInt8.toNat_ofNat']
  omega

theorem beNat_be64 (n : Nat) (h : n < 18446744073709551616) : beNat (be64 n) = n := by
  simp only [beNat, be64, List.foldl_cons, List.foldl_nil, UInt8.toNat_ofNat']
  omega

theorem takeN_append (x r : Bytes) : Spec.takeN x.length (x ++ r) = some (x, r) := by
  simp [Spec.takeN]

theorem takeN_append' {n : Nat} (x r : Bytes) (h : x.length = n) : Spec.takeN n (x ++ r) = some (x, r) := by
  subst h; exact takeN_append x r

theorem word32_be32 (n : Nat) (r : Bytes) (h : n < 4294967296) : Spec.word32 (be32 n ++ r) = some (n, r) := by
  unfold Spec.word32
  rw [takeN_append' (n := 4) (be32 n) r rfl]
  simp only [beVal_eq, beNat_be32 n h]

theorem word64_be64 (n : Nat) (r : Bytes) (h : n < 18446744073709551616) : Spec.word64 (be64 n ++ r) = some (n, r) := by
  unfold Spec.word64
  rw [takeN_append' (n := 8) (be64 n) r rfl]
  simp only [beVal_eq, beNat_be64 n h]

/-- the bound of a NON_NEG field -/
def nnLim (f : Fmt) : Nat := match f with | .cdf5 => 2 ^ 63 | _ => 2 ^ 31
/-- the bound of an OFFSET field -/
def offLim (f : Fmt) : Nat := match f with | .cdf1 => 2 ^ 31 | _ => 2 ^ 63
/-- the bound of the raw vsize word -/
def rawLim (f : Fmt) : Nat := match f with | .cdf5 => 2 ^ 64 | _ => 2 ^ 32

theorem putNonNeg_v1 (n : Nat) : putNonNeg Fmt.cdf1.version n = be32 n := rfl
theorem putNonNeg_v2 (n : Nat) : putNonNeg Fmt.cdf2.version n = be32 n := rfl
theorem putNonNeg_v5 (n : Nat) : putNonNeg Fmt.cdf5.version n = be64 n := rfl
theorem putBegin_v1 (n : Nat) : putBegin Fmt.cdf1.version n = be32 n := rfl
theorem putBegin_v2 (n : Nat) : putBegin Fmt.cdf2.version n = be64 n := rfl
theorem putBegin_v5 (n : Nat) : putBegin Fmt.cdf5.version n = be64 n := rfl

theorem nonNeg_put (f : Fmt) (n : Nat) (r : Bytes) (h : n < nnLim f) :
    Spec.nonNeg f (putNonNeg f.version n ++ r) = some (n, r) := by
  cases f <;> simp only [nnLim] at h <;> simp only [Spec.nonNeg]
  · rw [putNonNeg_v1, word32_be32 n r (by omega)]; simp [h]
  · rw [putNonNeg_v2, word32_be32 n r (by omega)]; simp [h]
  · rw [putNonNeg_v5, word64_be64 n r (by omega)]; simp [h]

theorem rawSize_put (f : Fmt) (n : Nat) (r : Bytes) (h : n < rawLim f) :
    Spec.rawSize f (putNonNeg f.version n ++ r) = some (n, r) := by
  cases f <;> simp only [rawLim] at h <;> simp only [Spec.rawSize]
  · rw [putNonNeg_v1, word32_be32 n r (by omega)]
  · rw [putNonNeg_v2, word32_be32 n r (by omega)]
  · rw [putNonNeg_v5, word64_be64 n r (by omega)]

theorem offset_put (f : Fmt) (n : Nat) (r : Bytes) (h : n < offLim f) :
    Spec.offset f (putBegin f.version n ++ r) = some (n, r) := by
  cases f <;> simp only [offLim] at h <;> simp only [Spec.offset]
  · rw [putBegin_v1, word32_be32 n r (by omega)]; simp [h]
  · rw [putBegin_v2, word64_be64 n r (by omega)]; simp [h]
  · rw [putBegin_v5, word64_be64 n r (by omega)]; simp [h]

theorem padded_append (x r : Bytes) :
    Spec.padded x.length (x ++ zeros (Spec.padLen x.length) ++ r) = some (x, r) := by
  unfold Spec.padded
  rw [List.append_assoc, takeN_append]
  simp only []
  rw [takeN_append' (zeros _) r (by simp)]

theorem name_put (f : Fmt) (nm r : Bytes) (h0 : NoNul nm) (hl : nm.length < nnLim f) :
    Spec.name f (putName f.version nm ++ r) = some (nm, r) := by
  unfold Spec.name putName
  simp only [cstr_eq_self h0]
  rw [List.append_assoc, List.append_assoc, nonNeg_put f _ _ hl]
  simp only []
  have : (if nm.length % 4 ≠ 0 then 4 - nm.length % 4 else 0) = Spec.padLen nm.length := by
    unfold Spec.padLen; split <;> omega
  rw [this, ← List.append_assoc]
  exact padded_append nm r

/-- `n` items written one after the other are parsed back by `many` -/
theorem many_put {α : Type} (sp : Spec.Parser α) (enc : α → Bytes) (WF : α → Prop)
    (h : ∀ x r, WF x → sp (enc x ++ r) = some (x, r)) :
    ∀ (xs : List α) (r : Bytes), (∀ x ∈ xs, WF x) → Spec.many sp xs.length (xs.flatMap enc ++ r) = some (xs, r) := by
  intro xs
  induction xs with
  | nil => intro r _; rfl
  | cons x t ih =>
    intro r hw
    simp only [List.length_cons, Spec.many, List.flatMap_cons, List.append_assoc]
    rw [h x _ (hw x (by simp))]
    simp only []
    rw [ih r (fun y hy => hw y (by simp [hy]))]

/-- a list written by hdr_put_NC_*array (ABSENT when empty) is parsed back by `listOf` -/
theorem listOf_put {α : Type} (f : Fmt) (tag : Nat) (htag : 0 < tag ∧ tag < 4294967296)
    (sp : Spec.Parser α) (enc : α → Bytes) (WF : α → Prop)
    (h : ∀ x r, WF x → sp (enc x ++ r) = some (x, r)) (xs : List α) (r : Bytes)
    (hn : xs.length < nnLim f) (hw : ∀ x ∈ xs, WF x) :
    Spec.listOf f tag sp
      ((if xs.length = 0 then be32 0 ++ putNonNeg f.version 0
        else be32 tag ++ putNonNeg f.version xs.length ++ xs.flatMap enc) ++ r) = some (xs, r) := by
  unfold Spec.listOf
  by_cases h0 : xs.length = 0
  · have : xs = [] := List.eq_nil_of_length_eq_zero h0
    subst this
    simp only [List.length_nil, if_true]
    rw [List.append_assoc, word32_be32 0 _ (by omega)]
    simp only []
    rw [nonNeg_put f 0 r (by cases f <;> simp [nnLim])]
    simp
  · simp only [h0, if_false]
    rw [List.append_assoc, List.append_assoc, word32_be32 tag _ htag.2]
    simp only []
    rw [nonNeg_put f _ _ hn]
    simp only []
    have : ¬ tag = 0 := by omega
    simp only [this, if_false, if_true]
    exact many_put sp enc WF h xs r hw

end PnVerif.Header

namespace PnVerif.Header
open PnVerif.Spec

/-! ### headers the writer can express: every field fits its width, names have no NUL -/

structure DimWF (f : Fmt) (d : Dim) : Prop where
  nul     : NoNul d.name
  nameLen : d.name.length < nnLim f
  size    : d.size < nnLim f

structure AttWF (f : Fmt) (a : Att) : Prop where
  nul     : NoNul a.name
  nameLen : a.name.length < nnLim f
  typeOk  : a.xtype.okFor f = true
  nelems  : a.nelems < nnLim f
  value   : a.xvalue.length = a.nelems * a.xtype.size

structure VarWF (f : Fmt) (v : Var) : Prop where
  nul     : NoNul v.name
  nameLen : v.name.length < nnLim f
  ndims   : v.dimids.length < nnLim f
  dimids  : ∀ id ∈ v.dimids, id < nnLim f
  natts   : v.atts.length < nnLim f
  atts    : ∀ a ∈ v.atts, AttWF f a
  typeOk  : v.xtype.okFor f = true
  vsize   : v.vsize < rawLim f
  begin   : v.begin < offLim f

structure Encodable (d : Schema) : Prop where
  numrecs : d.numrecs < nnLim d.fmt
  ndims   : d.dims.length < nnLim d.fmt
  dims    : ∀ x ∈ d.dims, DimWF d.fmt x
  ngatts  : d.gatts.length < nnLim d.fmt
  gatts   : ∀ a ∈ d.gatts, AttWF d.fmt a
  nvars   : d.vars.length < nnLim d.fmt
  vars    : ∀ v ∈ d.vars, VarWF d.fmt v

theorem dim_put (f : Fmt) (d : Dim) (r : Bytes) (h : DimWF f d) :
    Spec.dim f (putDim f.version d ++ r) = some (d, r) := by
  unfold Spec.dim putDim
  rw [List.append_assoc, name_put f d.name _ h.nul h.nameLen]
  simp only []
  rw [nonNeg_put f d.size r h.size]

theorem ofCode_code (t : NcType) : NcType.ofCode t.code = some t := by cases t <;> rfl

theorem ncType_put (f : Fmt) (t : NcType) (r : Bytes) (h : t.okFor f = true) :
    Spec.ncType f (be32 t.code ++ r) = some (t, r) := by
  unfold Spec.ncType
  rw [word32_be32 t.code r (by cases t <;> simp [NcType.code])]
  simp only [ofCode_code, h, if_true]

theorem putAttrV_eq (a : Att) (hv : a.xvalue.length = a.nelems * a.xtype.size) :
    (if a.nelems > 0 then putAttrV a else []) = a.xvalue ++ zeros (Spec.padLen a.xvalue.length) := by
  split
  · rename_i hp
    have := attr_pad_eq a.xtype a.nelems
    simp only [putAttrV, attrXsz, hp, if_true] at this ⊢
    rw [ztake_of_le (by omega), List.take_of_length_le (by omega), this, hv]
  · have h0 : a.nelems = 0 := by omega
    have : a.xvalue = [] := List.eq_nil_of_length_eq_zero (by rw [hv, h0, Nat.zero_mul])
    rw [this]; simp [Spec.padLen, zeros]

theorem att_put (f : Fmt) (a : Att) (r : Bytes) (h : AttWF f a) :
    Spec.att f (putAttr f.version a ++ r) = some (a, r) := by
  unfold Spec.att putAttr
  rw [List.append_assoc, List.append_assoc, List.append_assoc, name_put f a.name _ h.nul h.nameLen]
  simp only []
  rw [ncType_put f a.xtype _ h.typeOk]
  simp only []
  rw [nonNeg_put f a.nelems _ h.nelems]
  simp only []
  rw [putAttrV_eq a h.value, ← h.value, padded_append]

theorem attrs_put (f : Fmt) (as : List Att) (r : Bytes) (hn : as.length < nnLim f) (hw : ∀ a ∈ as, AttWF f a) :
    Spec.listOf f 12 (Spec.att f) (putAttrArray f.version as ++ r) = some (as, r) := by
  unfold putAttrArray
  exact listOf_put f 12 (by decide) (Spec.att f) (putAttr f.version) (AttWF f) (att_put f) as r hn hw

theorem var_put (f : Fmt) (v : Var) (r : Bytes) (h : VarWF f v) :
    Spec.var f (putVar f.version v ++ r) = some (v, r) := by
  unfold Spec.var putVar
  simp only [List.append_assoc]
  rw [name_put f v.name _ h.nul h.nameLen]
  simp only []
  rw [nonNeg_put f _ _ h.ndims]
  simp only []
  rw [many_put (Spec.nonNeg f) (putNonNeg f.version) (fun id => id < nnLim f) (fun x r hx => nonNeg_put f x r hx)
        v.dimids _ h.dimids]
  simp only []
  rw [attrs_put f v.atts _ h.natts h.atts]
  simp only []
  rw [ncType_put f v.xtype _ h.typeOk]
  simp only []
  rw [rawSize_put f v.vsize _ h.vsize]
  simp only []
  rw [offset_put f v.begin r h.begin]

theorem magic_put (f : Fmt) (r : Bytes) : Spec.magic (magicBytes f ++ r) = some (f, r) := by
  cases f <;> simp [Spec.magic, magicBytes, Fmt.version]

/-- the specification decoder recovers, from the bytes hdr_put_NC_* produce, exactly the header
    that was written and exactly the bytes that follow it -/
theorem header_put (d : Schema) (rest : Bytes) (h : Encodable d) :
    Spec.header (encodeRaw d ++ rest) = some (d, rest) := by
  unfold Spec.header encodeRaw
  simp only [List.append_assoc]
  rw [magic_put]
  simp only []
  rw [nonNeg_put d.fmt _ _ h.numrecs]
  simp only []
  have hd : Spec.listOf d.fmt 10 (Spec.dim d.fmt) (putDimArray d.fmt.version d.dims ++
      (putAttrArray d.fmt.version d.gatts ++ (putVarArray d.fmt.version d.vars ++ rest))) =
        some (d.dims, putAttrArray d.fmt.version d.gatts ++ (putVarArray d.fmt.version d.vars ++ rest)) := by
    unfold putDimArray
    exact listOf_put d.fmt 10 (by decide) (Spec.dim d.fmt) (putDim d.fmt.version) (DimWF d.fmt) (dim_put d.fmt) d.dims _ h.ndims h.dims
  rw [hd]
  simp only []
  rw [attrs_put d.fmt d.gatts _ h.ngatts h.gatts]
  simp only []
  have hv : Spec.listOf d.fmt 11 (Spec.var d.fmt) (putVarArray d.fmt.version d.vars ++ rest) = some (d.vars, rest) := by
    unfold putVarArray
    exact listOf_put d.fmt 11 (by decide) (Spec.var d.fmt) (putVar d.fmt.version) (VarWF d.fmt) (var_put d.fmt) d.vars rest h.nvars h.vars
  rw [hv]

end PnVerif.Header
