/-
  Floating-point *values* as the C09 model sees them: exact rationals plus the three
  IEEE specials.  No rounding happens here; rounding is a parameter (`Rounding`).
  Core Lean only (Rat is in core).
-/
namespace PnVerif

inductive FV where
  | nan | pinf | ninf
  | fin (q : Rat)
  deriving DecidableEq, Repr

namespace FV

/-- IEEE `<` : false as soon as one side is NaN. -/
def lt : FV → FV → Prop
  | fin a, fin b => a < b
  | fin _, pinf  => True
  | ninf,  fin _ => True
  | ninf,  pinf  => True
  | _, _         => False

instance : DecidableRel lt := fun a b => by
  cases a <;> cases b <;> unfold lt <;> infer_instance

/-- IEEE `>` -/
def gt (a b : FV) : Prop := lt b a
instance : DecidableRel gt := fun a b => inferInstanceAs (Decidable (lt b a))

/-- IEEE `==` : NaN is not equal to anything. -/
def feq : FV → FV → Prop
  | fin a, fin b => a = b
  | pinf, pinf   => True
  | ninf, ninf   => True
  | _, _         => False
instance : DecidableRel feq := fun a b => by
  cases a <;> cases b <;> unfold feq <;> infer_instance

def le (a b : FV) : Prop := lt a b ∨ feq a b
instance : DecidableRel le := fun a b => inferInstanceAs (Decidable (lt a b ∨ feq a b))
def ge (a b : FV) : Prop := le b a
instance : DecidableRel ge := fun a b => inferInstanceAs (Decidable (le b a))

def ofInt (z : Int) : FV := fin (z : Rat)

def neg : FV → FV
  | nan => nan | pinf => ninf | ninf => pinf | fin q => fin (-q)

/-- truncation toward zero of a rational -/
def truncQ (q : Rat) : Int := if 0 ≤ q then q.floor else q.ceil

/-- C's floating→integer conversion.  For NaN/±Inf (and for finite values whose truncation
    does not fit the target, which the callers guard against) the C standard leaves the
    result undefined; the model returns the designated value `ub` so that any theorem that
    depends on it is visibly depending on undefined behaviour. -/
def toInt (ub : Int) : FV → Int
  | fin q => truncQ q
  | _ => ub

/-- `v` is not a finite value in the half-open gap (a, b] -/
def notInGap (a b : Rat) : FV → Prop
  | fin q => q ≤ a ∨ b < q
  | _ => True

/-- type invariant of a C float / double object: finite values are within ±m -/
def inRange (m : Rat) : FV → Prop
  | fin q => -m ≤ q ∧ q ≤ m
  | _ => True

instance (m : Rat) : DecidablePred (inRange m) := fun v => by
  cases v <;> unfold inRange <;> infer_instance
instance (a b : Rat) : DecidablePred (notInGap a b) := fun v => by
  cases v <;> unfold notInGap <;> infer_instance

def isFinite : FV → Bool
  | fin _ => true
  | _ => false

end FV

/-- IEEE rounding, a parameter of the model (trusted base item: the C compiler's / FPU's
    `(float)x`, `(double)x`).  `f32 q` / `f64 q` round an exact rational to binary32 /
    binary64 (may overflow to ±inf); `f32cast` is `(float)` applied to a double value. -/
structure Rounding where
  f32 : Rat → FV
  f64 : Rat → FV

def Rounding.f32cast (R : Rounding) : FV → FV
  | .fin q => R.f32 q
  | x => x

def Rounding.f64cast (_R : Rounding) : FV → FV := id

/-- the rounding that never rounds; used for non-vacuity examples -/
def Rounding.exact : Rounding := { f32 := FV.fin, f64 := FV.fin }

/-- two's-complement wrap of an integer into a signed / unsigned `bits`-bit type
    (C integral conversion, implementation-defined for signed but universal in practice) -/
def wrapU (m : Int) (x : Int) : Int := x % m
def wrapS (m : Int) (x : Int) : Int := (x + m / 2) % m - m / 2

end PnVerif
