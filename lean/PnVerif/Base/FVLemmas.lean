import PnVerif.Base.FV
import PnVerif.Spec.ConvSpec
/-
  Tactics used by the generated file Gen/NcxProofs.lean.  One uniform script per category
  of conversion primitive.
-/
namespace PnVerif
open ConvSpec

/-- integer → integer -/
syntax "ncx_int " ident : tactic
macro_rules
  | `(tactic| ncx_int $f:ident) =>
    `(tactic| (unfold $f ConvSpec.specII ConvSpec.NC_NOERR ConvSpec.NC_ERANGE
               (repeat' split) <;> first
                 | rfl
                 | (apply Prod.ext <;> dsimp only <;> omega)
                 | omega))

theorem FV.gt_fin (a b : Rat) : FV.gt (.fin a) (.fin b) ↔ b < a := by
  simp [FV.gt, FV.lt]
theorem FV.lt_fin (a b : Rat) : FV.lt (.fin a) (.fin b) ↔ a < b := by
  simp [FV.lt]
theorem FV.feq_fin (a b : Rat) : FV.feq (.fin a) (.fin b) ↔ a = b := by
  simp [FV.feq]
theorem FV.ge_fin (a b : Rat) : FV.ge (.fin a) (.fin b) ↔ b ≤ a := by
  simp only [FV.ge, FV.le, FV.lt, FV.feq]; grind
theorem FV.le_fin (a b : Rat) : FV.le (.fin a) (.fin b) ↔ a ≤ b := FV.ge_fin b a

theorem truncQ_bounds (lo hi : Int) (q : Rat) (h1 : (lo : Rat) ≤ q) (h2 : q ≤ (hi : Rat)) :
    lo ≤ FV.truncQ q ∧ FV.truncQ q ≤ hi := by
  unfold FV.truncQ
  split
  · constructor
    · exact Rat.le_floor_iff.mpr h1
    · have := Rat.floor_le q
      have h3 : ((q.floor : Int) : Rat) ≤ (hi : Rat) := Rat.le_trans this h2
      exact Rat.intCast_le_intCast.mp h3
  · constructor
    · have := @Rat.le_ceil q
      have h3 : ((lo : Int) : Rat) ≤ (q.ceil : Rat) := Rat.le_trans h1 this
      exact Rat.intCast_le_intCast.mp h3
    · exact Rat.ceil_le_iff.mpr h2

theorem truncQ_intCast (z : Int) : FV.truncQ (z : Rat) = z := by
  unfold FV.truncQ
  split
  · exact Rat.floor_intCast z
  · exact Rat.ceil_intCast z

theorem truncQ_of_eq_intCast (q : Rat) (z : Int) (h : q = (z : Rat)) : FV.truncQ q = z := by
  rw [h]; exact truncQ_intCast z

/-- floating → integer -/
syntax "ncx_fi " ident ident term:max term:max : tactic
macro_rules
  | `(tactic| ncx_fi $f:ident $v:ident $lo $hi) =>
    `(tactic| (unfold $f ConvSpec.specFI ConvSpec.NC_NOERR ConvSpec.NC_ERANGE
               cases $v:ident with
               | nan => first | contradiction | simp [FV.gt, FV.lt, FV.feq, FV.ge, FV.le]
               | pinf => simp [FV.gt, FV.lt, FV.feq, FV.ge, FV.le]
               | ninf => simp [FV.gt, FV.lt, FV.feq, FV.ge, FV.le]
               | fin q =>
                 have hb := truncQ_bounds $lo $hi q
                 simp only [FV.gt_fin, FV.lt_fin, FV.feq_fin, FV.ge_fin, FV.le_fin, FV.toInt,
                            FV.notInGap, FV.inRange] at *
                 (repeat' split) <;> first
                   | rfl
                   | grind
                   | (have hz := truncQ_of_eq_intCast q _ ‹_›; grind)))

/-- integer → floating -/
syntax "ncx_if " ident : tactic
macro_rules
  | `(tactic| ncx_if $f:ident) =>
    `(tactic| (unfold $f; first | rfl | (simp [ConvSpec.specIF32, ConvSpec.specIF64, ConvSpec.NC_NOERR])))

/-- floating → floating -/
syntax "ncx_ff " ident ident : tactic
macro_rules
  | `(tactic| ncx_ff $f:ident $v:ident) =>
    `(tactic| (unfold $f
               first
                 | rfl
                 | (unfold ConvSpec.specDF ConvSpec.fltMax ConvSpec.NC_NOERR ConvSpec.NC_ERANGE
                    cases $v:ident <;>
                    simp only [FV.gt_fin, FV.lt_fin, FV.gt, FV.lt, Rounding.f32cast, FV.inRange,
                               or_self, or_true, true_or, if_true, if_false, ite_true, ite_false] at * <;>
                    (repeat' split) <;> first | rfl | contradiction | grind)
                 | (unfold ConvSpec.specFFid ConvSpec.NC_NOERR
                    cases $v:ident <;>
                    simp only [FV.gt_fin, FV.lt_fin, FV.gt, FV.lt, Rounding.f32cast, FV.inRange,
                               or_self, or_true, true_or, if_true, if_false, ite_true, ite_false] at * <;>
                    (repeat' split) <;> first | rfl | contradiction | grind)))

/-- refute a full-strength statement with a concrete input (kernel evaluation) -/
syntax "ncx_cex_get " term:max : tactic
macro_rules
  | `(tactic| ncx_cex_get $w) =>
    `(tactic| (intro h; have h2 := h Rounding.exact $w (by decide); revert h2; decide))
syntax "ncx_cex_put " term:max : tactic
macro_rules
  | `(tactic| ncx_cex_put $w) =>
    `(tactic| (intro h; have h2 := h Rounding.exact none 0 $w (by decide); revert h2; decide))
syntax "ncx_cex_putf " term:max : tactic
macro_rules
  | `(tactic| ncx_cex_putf $w) =>
    `(tactic| (intro h; have h2 := h Rounding.exact none FV.nan $w (by decide); revert h2; decide))

end PnVerif
