/-
  The file as the models see it: a byte map with read-default-0 (sparse-file semantics).
  Laws used by C01 / C06 / C15 / C16.  Core Lean only.
-/
namespace PnVerif

abbrev File := Nat → UInt8

namespace File

def empty : File := fun _ => 0

def writeAt (f : File) (off : Nat) (bs : List UInt8) : File :=
  fun i => if off ≤ i ∧ i < off + bs.length then bs.getD (i - off) 0 else f i

def readAt (f : File) (off n : Nat) : List UInt8 := (List.range n).map (fun j => f (off + j))

theorem writeAt_in (f : File) (off : Nat) (bs : List UInt8) (i : Nat) (h : off ≤ i ∧ i < off + bs.length) :
    writeAt f off bs i = bs.getD (i - off) 0 := by simp [writeAt, h]

theorem writeAt_out (f : File) (off : Nat) (bs : List UInt8) (i : Nat) (h : i < off ∨ off + bs.length ≤ i) :
    writeAt f off bs i = f i := by
  unfold writeAt
  have : ¬ (off ≤ i ∧ i < off + bs.length) := by omega
  simp [this]

theorem read_write_same (f : File) (off : Nat) (bs : List UInt8) :
    readAt (writeAt f off bs) off bs.length = bs := by
  unfold readAt
  apply List.ext_getElem
  · simp
  · intro j h1 h2
    simp only [List.length_map, List.length_range] at h1
    simp only [List.getElem_map, List.getElem_range]
    rw [writeAt_in _ _ _ _ (by omega)]
    simp [Nat.add_sub_cancel_left, List.getD_eq_getElem?_getD, h1]

theorem read_write_disjoint (f : File) (off : Nat) (bs : List UInt8) (off' n : Nat)
    (h : off' + n ≤ off ∨ off + bs.length ≤ off') :
    readAt (writeAt f off bs) off' n = readAt f off' n := by
  unfold readAt
  apply List.map_congr_left
  intro j hj
  have := List.mem_range.mp hj
  exact writeAt_out _ _ _ _ (by omega)

/-- writes to disjoint byte ranges commute: any decomposition of a region over any number of
    processes, in any order, yields the same file -/
theorem writes_commute (f : File) (o1 o2 : Nat) (b1 b2 : List UInt8)
    (h : o1 + b1.length ≤ o2 ∨ o2 + b2.length ≤ o1) :
    writeAt (writeAt f o1 b1) o2 b2 = writeAt (writeAt f o2 b2) o1 b1 := by
  funext i
  unfold writeAt
  by_cases h1 : o1 ≤ i ∧ i < o1 + b1.length <;> by_cases h2 : o2 ≤ i ∧ i < o2 + b2.length <;> simp [h1, h2]
  omega

/-- a sequence of element writes -/
def putElems (f : File) (reqs : List (Nat × List UInt8)) : File :=
  reqs.foldl (fun g r => writeAt g r.1 r.2) f

def disjointFrom (o : Nat) (n : Nat) (reqs : List (Nat × List UInt8)) : Prop :=
  ∀ r ∈ reqs, o + n ≤ r.1 ∨ r.1 + r.2.length ≤ o

theorem putElems_frame (f : File) (reqs : List (Nat × List UInt8)) (i : Nat)
    (h : ∀ r ∈ reqs, i < r.1 ∨ r.1 + r.2.length ≤ i) : putElems f reqs i = f i := by
  unfold putElems
  induction reqs generalizing f with
  | nil => rfl
  | cons r rest ih =>
    simp only [List.foldl_cons]
    rw [ih _ (fun x hx => h x (List.mem_cons_of_mem _ hx))]
    exact writeAt_out _ _ _ _ (h r List.mem_cons_self)

theorem readAt_putElems_disjoint (f : File) (reqs : List (Nat × List UInt8)) (o n : Nat)
    (h : disjointFrom o n reqs) : readAt (putElems f reqs) o n = readAt f o n := by
  unfold readAt
  apply List.map_congr_left
  intro j hj
  have hjn := List.mem_range.mp hj
  apply putElems_frame
  intro r hr
  have := h r hr
  omega

/-- pairwise disjoint write list -/
def pairwiseDisjoint : List (Nat × List UInt8) → Prop
  | [] => True
  | r :: rest => disjointFrom r.1 r.2.length rest ∧ pairwiseDisjoint rest

/-- **get-after-put**: after a batch of pairwise disjoint element writes, every written range reads
    back exactly what was written -/
theorem get_put (f : File) (reqs : List (Nat × List UInt8)) (hd : pairwiseDisjoint reqs) :
    ∀ r ∈ reqs, readAt (putElems f reqs) r.1 r.2.length = r.2 := by
  induction reqs generalizing f with
  | nil => intro r hr; simp at hr
  | cons r0 rest ih =>
    intro r hr
    obtain ⟨hd0, hdr⟩ := hd
    rcases List.mem_cons.mp hr with h | h
    · subst h
      show readAt (putElems (writeAt f r.1 r.2) rest) r.1 r.2.length = r.2
      rw [readAt_putElems_disjoint _ _ _ _ hd0]
      exact read_write_same f r.1 r.2
    · exact ih (writeAt f r0.1 r0.2) hdr r h

end File
end PnVerif
