import PnVerif.Lemmas.AbufLemmas
/-
  C13 — caller buffers are respected; attached-buffer accounting is exact.
  Model: Model/Abuf.lean.
-/
namespace PnVerif.Props.C13
open PnVerif PnVerif.Abuf

/-! ## byte swap and the user buffer -/

/-- `swapn_involutive`: ncmpii_in_swapn applied twice is the identity, for every element width,
    every element count and every buffer that holds that many elements. -/
theorem swapn_involutive (buf : List UInt8) (nelems : Int) (esize : Nat)
    (h : nelems.toNat * esize ≤ buf.length) : inSwapn (inSwapn buf nelems esize) nelems esize = buf :=
  inSwapn_involutive buf nelems esize h

/-- the swap never changes the length, whatever the arguments -/
theorem swapn_length (buf : List UInt8) (nelems : Int) (esize : Nat) :
    (inSwapn buf nelems esize).length = buf.length := by
  unfold inSwapn; split
  · rfl
  · exact Abuf.swapn_length esize _ buf

/-- whenever the user buffer itself is handed to MPI-IO no type conversion is pending (so pack_xbuf
    never converts into the user buffer) -/
theorem usesUserBuf_no_convert (api : Api) (h : Hint) (r : Req) (hu : usesUserBuf api h r = true) :
    r.needConvert = false := by
  cases api <;> simp [usesUserBuf] at hu
  · exact hu.1.1
  · exact hu.1.2
  · exact hu.1.1
  · exact hu.1

/-- the flag-based exits (end of the blocking call, the completing wait, cancel) of every API form
    that decides with `usesUserBuf` (blocking put, iput, iput_varn, bput, bput_varn and the success
    path of put_vard) -/
theorem api_buffer_restored (api : Api) (h : Hint) (r : Req) (buf : List UInt8) (nelems : Int) (esize : Nat)
    (hlen : nelems.toNat * esize ≤ buf.length) :
    ∃ b, duringIO api h r buf nelems esize = some b ∧
         afterExit (swapFlag api h r) b nelems esize = buf := by
  by_cases hu : usesUserBuf api h r = true
  · have hnc := usesUserBuf_no_convert api h r hu
    by_cases hs : r.needSwap = true
    · refine ⟨inSwapn buf nelems esize, ?_, ?_⟩
      · cases api <;> simp [duringIO, packUser, hu, hnc, hs]
      · simp [afterExit, swapFlag, hu, hs, inSwapn_involutive buf nelems esize hlen]
    · have hs' : r.needSwap = false := by simpa using hs
      refine ⟨buf, ?_, ?_⟩
      · cases api <;> simp [duringIO, packUser, hu, hnc, hs']
      · simp [afterExit, swapFlag, hs']
  · have hu' : usesUserBuf api h r = false := by simpa using hu
    refine ⟨buf, ?_, ?_⟩
    · cases api <;> simp [duringIO, packUser, hu'] <;> (cases r.needConvert <;> cases r.needSwap <;> simp)
    · simp [afterExit, swapFlag, hu']

/-- every exit of getput_vard for a write: zero-length requests (filetype MPI_DATATYPE_NULL, filetype
    of size 0, bufcount 0), NC_ETYPE_MISMATCH, NC_EIOMISMATCH, and the write itself with the buffer
    swapped in place or packed: the caller's buffer holds its original bytes on return. -/
theorem vard_put_restores (h : Hint) (a : VardArgs) (buf : List UInt8)
    (hlen : ∀ bc bn c, vardPre a = .go bc bn c → bn.toNat * a.xsz ≤ buf.length) :
    (putVard h a buf).after = buf := by
  unfold putVard
  cases hp : vardPre a with
  | zero => rfl
  | zeroSizeMissed => rfl
  | error e => rfl
  | go bc bn c =>
    have hl := hlen bc bn c hp
    by_cases hs : a.needSwap = true
    · simp only [hs]
      split <;> split <;> simp [inSwapn_involutive buf bn a.xsz hl]
    · have hs' : a.needSwap = false := by simpa using hs
      simp only [hs']
      split <;> split <;> simp

/-- `user_buffer_restored`: for every API form (blocking put, iput, iput_varn, bput, bput_varn,
    put_vard), every hint setting, every combination of conversion / swap / contiguity / imap, every
    request size and every buffer content: the write never converts into the user buffer, and after
    the exit (end of the blocking call, the completing wait, or cancel — all test the recorded flag)
    the user buffer holds exactly the bytes it held before the call; and the same for EVERY exit of
    put_vard / put_vard_all (success, NC_ETYPE_MISMATCH, NC_EIOMISMATCH, the three zero-length
    forms, independent or collective), whose in-place swap and swap-back count primitive elements
    (`bnelems`), not instances of the buffer type. -/
theorem user_buffer_restored :
    (∀ (api : Api) (h : Hint) (r : Req) (buf : List UInt8) (nelems : Int) (esize : Nat),
      nelems.toNat * esize ≤ buf.length →
      ∃ b, duringIO api h r buf nelems esize = some b ∧ afterExit (swapFlag api h r) b nelems esize = buf) ∧
    (∀ (h : Hint) (a : VardArgs) (buf : List UInt8),
      (∀ bc bn c, vardPre a = .go bc bn c → bn.toNat * a.xsz ≤ buf.length) →
      (putVard h a buf).after = buf) :=
  ⟨api_buffer_restored, vard_put_restores⟩

/-- the exits of put_vard that do no buffer work: the error code, the caller's buffer is not even
    temporarily altered, MPI-IO never sees it, and only a collective call goes on to the (zero-length)
    MPI-IO call -/
theorem vard_put_error_exits (h : Hint) (a : VardArgs) (buf : List UInt8) :
    (∀ e, vardPre a = .error e → putVard h a buf = vardNoWork a e buf) ∧
    (vardPre a = .zero → putVard h a buf = vardNoWork a NC_NOERR buf) ∧
    (∀ e, (vardNoWork a e buf).during = buf ∧ (vardNoWork a e buf).after = buf ∧
          (vardNoWork a e buf).xbufIsBuf = false ∧ (vardNoWork a e buf).ioCalled = a.coll) ∧
    (a.ftypeMatches = false → a.filetypeNull = false → a.filetypeSize ≠ 0 → vardPre a = .error NC_ETYPE_MISMATCH) ∧
    (a.filetypeNull = false → a.filetypeSize ≠ 0 → a.ftypeMatches = true → a.buftypeNull = false → a.bufcount ≠ 0 →
       a.fnelems ≠ a.perType * a.bufcount → vardPre a = .error NC_EIOMISMATCH) := by
  refine ⟨?_, ?_, ?_, ?_, ?_⟩
  · intro e he; simp [putVard, he]
  · intro he; simp [putVard, he]
  · intro e; simp [vardNoWork]
  · intro h1 h2 h3; simp [vardPre, h1, h2, h3]
  · intro h1 h2 h3 h4 h5 h6; simp [vardPre, h1, h2, h3, h4, h5, h6]

/-- the write path of put_vard is the decision of `usesUserBuf .putVard` on the request
    (need_convert, need_swap, buftype_is_contig, filetype_size): same buffer handed to MPI-IO, same
    contents during the I/O, same swap-back — with the element count `bnelems = perType · bufcount`;
    and the count handed to MPI-IO is `bufcount` (instances of buftype) when the caller's buffer is
    used, `bnelems` when a packed copy is. -/
theorem vard_put_agrees (h : Hint) (a : VardArgs) (buf : List UInt8) (bc bn : Int) (c : Bool)
    (hp : vardPre a = .go bc bn c) (hbc : bc ≠ 0) :
    let r : Req := ⟨a.needConvert, a.needSwap, c, false, a.filetypeSize⟩
    let o := putVard h a buf
    o.err = NC_NOERR ∧ o.ioCalled = true ∧
    o.xbufIsBuf = usesUserBuf .putVard h r ∧
    some o.during = duringIO .putVard h r buf bn a.xsz ∧
    o.after = afterExit (swapFlag .putVard h r) o.during bn a.xsz ∧
    o.mpiCount = (if o.xbufIsBuf then bc else bn) ∧
    (a.buftypeNull = false → bn = a.perType * a.bufcount ∧ bc = a.bufcount) := by
  have hbc' : (bc == 0) = false := by simpa using hbc
  have hlast : a.buftypeNull = false → bn = a.perType * a.bufcount ∧ bc = a.bufcount := by
    intro hb
    unfold vardPre at hp
    simp only [hb] at hp
    repeat' (split at hp)
    all_goals first
      | (injection hp with h1 h2 h3; exact ⟨h2.symm, h1.symm⟩)
      | contradiction
  refine ⟨?_, ?_, ?_, ?_, ?_, ?_, hlast⟩ <;>
    (generalize hk : canSwapInPlace a.needSwap h a.filetypeSize = k
     cases hc : a.needConvert <;> cases hs : a.needSwap <;> cases c <;> cases k <;> rw [hs] at hk <;>
       simp [putVard, hp, hbc', hk, usesUserBuf, duringIO, afterExit, swapFlag, packUser, hs, hc, NC_NOERR])

/-- put_vard followed by get_vard of the same bytes (contiguous buffer type, no type conversion):
    whatever the hint decided on the write side (in place or packed copy), the bytes on the wire are
    the element-wise swap of the caller's buffer, and the read returns the original buffer. -/
theorem vard_get_roundtrip (a : VardArgs) (buf scratch : List UInt8) (bc bn : Int)
    (hp : vardPre a = .go bc bn true) (hbc : bc ≠ 0)
    (hlen : bn.toNat * a.xsz ≤ buf.length) :
    (getVard a scratch (putVardWire a bn buf)).after = buf ∧
    (∀ h, (putVard h a buf).xbufIsBuf = true → (putVard h a buf).during = putVardWire a bn buf) := by
  have hbc' : (bc == 0) = false := by simpa using hbc
  constructor
  · cases hs : a.needSwap <;> simp [getVard, hp, hbc', putVardWire, hs, inSwapn_involutive buf bn a.xsz hlen]
  · intro h
    generalize hk : canSwapInPlace a.needSwap h a.filetypeSize = k
    cases hc : a.needConvert <;> cases hs : a.needSwap <;> cases k <;> rw [hs] at hk <;>
      simp [putVard, hp, hbc', hk, putVardWire, hs, hc]

/-- what the code comment promises for a filetype of size 0 ("zero-length request"): NC_NOERR, no
    buffer work, no MPI error -/
def vard_get_zero_size_Statement : Prop :=
  ∀ (a : VardArgs) (buf wire : List UInt8), a.filetypeNull = false → a.filetypeSize = 0 →
    getVard a buf wire = vardNoWork a NC_NOERR buf

/-- finding vard-zero-size-filetype-uninitialized: `filetype_size` is read before it is assigned on
    this exit; with a non-zero indeterminate value get_vard goes on to ncmpio_unpack_xbuf with
    etype = MPI_DATATYPE_NULL and xbuf = NULL (observed: MPI_ERR_TYPE in MPI_Type_size, fatal) -/
theorem vard_get_zero_size_counterexample : ¬ vard_get_zero_size_Statement := by
  intro h
  have := h { filetypeNull := false, filetypeSize := 0, fnelems := 0, ftypeMatches := true, buftypeNull := false,
              bufcount := 8, perType := 1, contig := true, needConvert := false, needSwap := true, xsz := 8,
              coll := true, uninitSize := 1 } [] [] rfl rfl
  simp [getVard, vardPre, vardNoWork] at this

/-- … and holds whenever the indeterminate value happens to be 0 (and always for put_vard as far as
    the caller's buffer is concerned: `vard_put_restores` has no such hypothesis) -/
theorem vard_get_zero_size_partial (a : VardArgs) (buf wire : List UInt8)
    (h1 : a.filetypeNull = false) (h2 : a.filetypeSize = 0) (h3 : a.uninitSize = 0) :
    getVard a buf wire = vardNoWork a NC_NOERR buf := by
  simp [getVard, vardPre, h1, h2, h3]

/-- the exits of get_vard that do no buffer work leave the caller's buffer untouched -/
theorem vard_get_error_exits (a : VardArgs) (buf wire : List UInt8) :
    (∀ e, vardPre a = .error e → getVard a buf wire = vardNoWork a e buf) ∧
    (vardPre a = .zero → getVard a buf wire = vardNoWork a NC_NOERR buf) := by
  constructor
  · intro e he; simp [getVard, he]
  · intro he; simp [getVard, he]

/-- the in-place swap decision, spelled out: with the default hint the user buffer is swapped in
    place only above NC_BYTE_SWAP_BUFFER_SIZE, never with hint "disable", always (when nothing else
    forces a copy) with hint "enable" -/
theorem in_place_swap_rule (r : Req) (hs : r.needSwap = true) (hc : r.needConvert = false)
    (hcont : r.contig = true) (him : r.imap = false) :
    (usesUserBuf .blockingPut .auto r = decide (r.nbytes > 4096)) ∧
    (usesUserBuf .iput .auto r = decide (r.nbytes > 4096)) ∧
    (usesUserBuf .iputVarn .auto r = decide (r.nbytes > 4096)) ∧
    (usesUserBuf .blockingPut .disable r = false) ∧ (usesUserBuf .iput .disable r = false) ∧
    (usesUserBuf .blockingPut .enable r = true) ∧ (usesUserBuf .iput .enable r = true) ∧
    (∀ h, usesUserBuf .bput h r = false) := by
  simp [usesUserBuf, canSwapInPlace, hs, hc, hcont, him, NC_BYTE_SWAP_BUFFER_SIZE]
  by_cases h : r.nbytes ≤ 4096 <;> simp [h] <;> omega

example : ∃ b, duringIO .iput .auto ⟨false, true, true, false, 8⟩ [1, 2, 3, 4, 5, 6, 7, 8] 2 4 = some b := ⟨_, rfl⟩
example : inSwapn [1, 2, 3, 4, 5, 6, 7, 8] 2 4 = [4, 3, 2, 1, 8, 7, 6, 5] := by decide

/-! ## the attached buffer over all histories -/

/-- invariant of the per-file state -/
def SInv (s : S) : Prop :=
  match s.abuf with
  | none => bputs s.pend = []
  | some a => AInv a s.pend

inductive Op
  | attach (n : Int) | detach
  | bput (h : Nat) (nbytes : Int) | iput (h : Nat) (nbytes : Int)
  | complete (hs : List Nat) | cancel (hs : List Nat) | cancelAll

def step (s : S) : Op → S
  | .attach n => (s.attach n).1
  | .detach => s.detach.1
  | .bput h n => (s.bput h n).1
  | .iput h n => s.iput h n
  | .complete hs => s.complete hs
  | .cancel hs => s.cancel hs
  | .cancelAll => s.cancelAll

/-- request sizes are positive (zero-length requests return NC_REQ_NULL before the allocator) -/
def wf : Op → Prop
  | .bput _ n => 0 < n
  | .iput _ n => 0 < n
  | _ => True

def run : S → List Op → S
  | s, [] => s
  | s, op :: ops => run (step s op) ops

theorem complete_inv (a : A) (ps : List PReq) (h : AInv a ps) (c : PReq → Bool) (coal : Bool) :
    AInv (if coal then (releaseAll a (ps.filter c)).coalesce else a) (if coal then ps.filter (fun p => !c p) else ps) := by
  cases coal with
  | false => simpa using h
  | true =>
    simp only [if_true]
    have hsh := release_shape a ps c h.shape
    have htab := releaseAll_eq a (ps.filter c)
    have hlen : (releaseAll a (ps.filter c)).table.length = a.table.length := by rw [htab, relFrom_length]
    have ht : (releaseAll a (ps.filter c)).tail = (releaseAll a (ps.filter c)).table.length := by
      rw [hlen]; exact h.tail_eq
    have hsum : (releaseAll a (ps.filter c)).sizeUsed = sumSizes (releaseAll a (ps.filter c)).table := by
      rw [htab, relFrom_sum]; exact h.sum
    have := coalesce_inv (releaseAll a (ps.filter c)) _ ht hsum hsh h.cap
    exact ⟨this.1, this.2.1, this.2.2.1, this.2.2.2.1, this.2.2.2.2.1⟩

theorem mapIdx_id (l : List Slot) : l.mapIdx (fun _ s => s) = l := by
  induction l with
  | nil => rfl
  | cons x xs ih => rw [List.mapIdx_cons]; simp [ih]

theorem releaseAll_nil (a : A) : releaseAll a [] = a := by
  unfold releaseAll
  have : a.table.mapIdx (fun i s => if ([] : List PReq).any (fun p => decide (p.abufIndex = (i : Int))) then { s with isUsed := false } else s) = a.table := by
    simp only [List.any_nil, Bool.false_eq_true, if_false]
    exact mapIdx_id a.table
  rw [this]

theorem step_inv (s : S) (h : SInv s) (op : Op) (hw : wf op) : SInv (step s op) := by
  cases op with
  | attach n =>
    simp only [step]
    unfold S.attach
    split
    · exact h
    · cases ha : s.abuf with
      | some a => simp only; exact h
      | none =>
        simp only [SInv, ha] at h ⊢
        refine ⟨rfl, rfl, Or.inl rfl, ?_, ?_⟩
        · rw [h]; simp [Shape]
        · show (0 : Int) ≤ n; omega
  | detach =>
    simp only [step]
    unfold S.detach
    cases ha : s.abuf with
    | none => simp only; exact h
    | some a =>
      simp only
      split
      · exact h
      · rename_i hany
        simp only [SInv]
        unfold bputs
        rw [List.filter_eq_nil_iff]
        intro p hp
        have : ¬ (s.pend.any (fun p => decide (p.abufIndex ≥ 0)) = true) := hany
        rw [List.any_eq_true] at this
        intro hc; exact this ⟨p, hp, hc⟩
  | bput hh n =>
    simp only [step]
    unfold S.bput
    cases ha : s.abuf with
    | none => simp only; exact h
    | some a =>
      simp only
      split
      · exact h
      · rename_i hroom
        simp only [SInv, ha] at h ⊢
        have htk : a.table.take a.tail = a.table := by rw [h.tail_eq]; exact List.take_length
        unfold A.malloc
        simp only [htk]
        refine ⟨by simp [h.tail_eq], ?_, Or.inr ⟨a.table, ⟨true, n⟩, rfl, rfl⟩, ?_, ?_⟩
        · simp only; rw [sumSizes_append, h.sum]; simp [sumSizes]
        · simp only
          rw [bputs_append]
          have hge : ((a.tail : Int)) ≥ 0 := by omega
          simp only [hge, if_true]
          apply shape_append a.table 0 _ ⟨hh, (a.tail : Int), n⟩ h.shape
          · simp [h.tail_eq]
          · show (0 : Int) ≤ n; have : 0 < n := hw; omega
        · simp only; have := h.cap; omega
  | iput hh n =>
    simp only [step]
    unfold S.iput
    cases ha : s.abuf with
    | none =>
      simp only [SInv, ha] at h ⊢
      rw [bputs_append]; simp [h]
    | some a =>
      simp only [SInv, ha] at h ⊢
      refine ⟨h.tail_eq, h.sum, h.last, ?_, h.cap⟩
      rw [bputs_append]; simpa using h.shape
  | complete hs =>
    simp only [step]
    unfold S.complete
    cases ha : s.abuf with
    | none =>
      simp only [SInv, ha] at h ⊢
      rw [bputs_filter, h]; rfl
    | some a =>
      simp only [SInv, ha] at h ⊢
      by_cases hd : (s.pend.filter (fun p => hs.contains p.h)).isEmpty = true
      · simp only [hd, if_true]
        have hnil : s.pend.filter (fun p => hs.contains p.h) = [] := List.isEmpty_iff.mp hd
        rw [hnil, releaseAll_nil]
        have hall : s.pend.filter (fun p => !hs.contains p.h) = s.pend := by
          rw [List.filter_eq_self]
          intro p hp
          have := List.filter_eq_nil_iff.mp hnil p hp
          simpa using this
        rw [hall]; exact h
      · simp only [hd, Bool.false_eq_true, if_false]
        exact complete_inv a s.pend h (fun p => hs.contains p.h) true
  | cancel hs =>
    simp only [step]
    unfold S.cancel
    cases ha : s.abuf with
    | none =>
      simp only [SInv, ha] at h ⊢
      rw [bputs_filter, h]; rfl
    | some a =>
      simp only [SInv, ha] at h ⊢
      exact complete_inv a s.pend h (fun p => hs.contains p.h) true
  | cancelAll =>
    simp only [step]
    unfold S.cancelAll
    cases ha : s.abuf with
    | none => simp only [SInv]; rfl
    | some a =>
      simp only [SInv, ha] at h ⊢
      unfold A.reset
      refine ⟨rfl, rfl, Or.inl rfl, by simp [bputs, Shape], ?_⟩
      show (0 : Int) ≤ (releaseAll a s.pend).sizeAllocated
      have h1 := sumSizes_nonneg a.table (shape_nonneg a.table 0 _ h.shape)
      have h2 := h.sum
      have h3 := h.cap
      show (0 : Int) ≤ a.sizeAllocated
      omega

/-- `abuf_inv`: after EVERY history of attach / detach / bput / iput / wait / cancel (any handles,
    any order, any sizes): tail = number of live table entries, size_used = Σ req_size of the live
    entries, the last live entry is in use (tail = 1 + last occupied index), the used entries are
    exactly the pending buffered puts (in posting order, at their abuf_index, with their size),
    size_used ≤ size_allocated; without an attached buffer no buffered put is pending. -/
theorem abuf_inv (ops : List Op) : ∀ (s : S), SInv s → (∀ op ∈ ops, wf op) → SInv (run s ops) := by
  induction ops with
  | nil => intro s h _; exact h
  | cons op ops ih =>
    intro s h hw
    exact ih (step s op) (step_inv s h op (hw op List.mem_cons_self)) (fun o ho => hw o (List.mem_cons_of_mem _ ho))

theorem abuf_inv_init : SInv {} := by simp [SInv, bputs]

/-- `einsuffbuf_iff`: a buffered put is refused with NC_EINSUFFBUF exactly when the space the
    allocator believes free (size_allocated − reported usage) is smaller than the request -/
theorem einsuffbuf_iff (s : S) (a : A) (ha : s.abuf = some a) (h : Nat) (n : Int) :
    (s.bput h n).2 = NC_EINSUFFBUF ↔ a.sizeAllocated - a.sizeUsed < n := by
  unfold S.bput
  rw [ha]
  simp only
  split
  · rename_i hc; simp [hc]
  · rename_i hc; simp only [hc, iff_false]; decide

theorem pendingBytes_eq (ps : List PReq) : pendingBytes ps = sumBytes (bputs ps) := by
  unfold pendingBytes
  suffices H : ∀ (acc : Int), ps.foldl (fun acc p => if p.abufIndex ≥ 0 then acc + p.nbytes else acc) acc = acc + sumBytes (bputs ps) by
    simpa using H 0
  induction ps with
  | nil => intro acc; simp [bputs, sumBytes]
  | cons p ps ih =>
    intro acc
    simp only [List.foldl_cons]
    rw [ih]
    by_cases h : p.abufIndex ≥ 0
    · simp only [h, if_true, bputs, List.filter_cons, decide_true, sumBytes]
      have : sumBytes (List.filter (fun p => decide (p.abufIndex ≥ 0)) ps) = sumBytes (bputs ps) := rfl
      omega
    · simp only [h, if_false, bputs, List.filter_cons, decide_false, Bool.false_eq_true]

/-- the reported usage never under-reports: it is at least the bytes of the pending buffered puts,
    in every reachable state -/
theorem usage_ge_pending (s : S) (h : SInv s) (a : A) (ha : s.abuf = some a) :
    pendingBytes s.pend ≤ a.sizeUsed := by
  simp only [SInv, ha] at h
  rw [pendingBytes_eq, h.sum]
  exact (shape_sum a.table 0 _ h.shape).1

/-- the property's sentence: reported usage = bytes of the pending buffered puts -/
def usage_eq_pending_Statement : Prop :=
  ∀ ops : List Op, (∀ op ∈ ops, wf op) → ∀ a, (run {} ops).abuf = some a → a.sizeUsed = pendingBytes (run {} ops).pend

/-- F5: attach 32 bytes, bput A (16), bput B (16), wait(A): usage stays 32 although only B (16
    bytes) is pending — the allocator reclaims space only from the tail -/
def f5History : List Op := [.attach 32, .bput 0 16, .bput 1 16, .complete [0]]

theorem usage_eq_pending_counterexample : ¬ usage_eq_pending_Statement := by
  intro h
  have := h f5History (by intro op hop; simp [f5History] at hop; rcases hop with rfl | rfl | rfl | rfl <;> simp [wf])
    ⟨32, 32, 2, [⟨false, 16⟩, ⟨true, 16⟩]⟩ (by decide)
  revert this
  decide

/-- the property's sentence about refusal: refused exactly when the space not held by pending
    buffered puts is too small -/
def einsuffbuf_spec_Statement : Prop :=
  ∀ ops : List Op, (∀ op ∈ ops, wf op) → ∀ a, (run {} ops).abuf = some a → ∀ (h : Nat) (n : Int), 0 < n →
    (((run {} ops).bput h n).2 = NC_EINSUFFBUF ↔ a.sizeAllocated - pendingBytes (run {} ops).pend < n)

theorem einsuffbuf_spec_counterexample : ¬ einsuffbuf_spec_Statement := by
  intro h
  have := h f5History (by intro op hop; simp [f5History] at hop; rcases hop with rfl | rfl | rfl | rfl <;> simp [wf])
    ⟨32, 32, 2, [⟨false, 16⟩, ⟨true, 16⟩]⟩ (by decide) 2 16 (by decide)
  revert this
  decide

/-! ### histories that complete in reverse posting order (or everything at once) -/

/-- no completed-but-unreclaimed entry below tail -/
def NoHoles (s : S) : Prop :=
  match s.abuf with
  | none => True
  | some a => ∀ t ∈ a.table, t.isUsed = true

/-- the completed buffered puts are the most recently posted ones: there is a threshold index
    such that exactly the pending buffered puts at or above it are named -/
def lifoSel (s : S) (hs : List Nat) : Prop :=
  ∃ k : Int, ∀ p ∈ bputs s.pend, (hs.contains p.h = true ↔ k ≤ p.abufIndex)

def lifo (s : S) : Op → Prop
  | .complete hs => lifoSel s hs
  | .cancel hs => lifoSel s hs
  | _ => True

def LifoRun : S → List Op → Prop
  | _, [] => True
  | s, op :: ops => wf op ∧ lifo s op ∧ LifoRun (step s op) ops

/-- with no holes, the reported usage is exactly the bytes of the pending buffered puts -/
theorem usage_of_noHoles (s : S) (h : SInv s) (hn : NoHoles s) (a : A) (ha : s.abuf = some a) :
    a.sizeUsed = pendingBytes s.pend := by
  simp only [SInv, ha] at h
  simp only [NoHoles, ha] at hn
  rw [pendingBytes_eq, h.sum]
  exact ((shape_sum a.table 0 _ h.shape).2 hn).symm

/-- releasing a suffix (by index) of an all-used table and coalescing leaves an all-used table -/
theorem coalesce_noHoles (a : A) (ps : List PReq) (h : AInv a ps) (hn : ∀ t ∈ a.table, t.isUsed = true)
    (c : PReq → Bool) (k : Int) (hk : ∀ p ∈ bputs ps, (c p = true ↔ k ≤ p.abufIndex)) :
    ∀ t ∈ (releaseAll a (ps.filter c)).coalesce.table, t.isUsed = true := by
  have hsh := release_shape a ps c h.shape
  have htab := releaseAll_eq a (ps.filter c)
  have hlen : (releaseAll a (ps.filter c)).table.length = a.table.length := by rw [htab, relFrom_length]
  have ht : (releaseAll a (ps.filter c)).tail = (releaseAll a (ps.filter c)).table.length := by
    rw [hlen]; exact h.tail_eq
  have hsum : (releaseAll a (ps.filter c)).sizeUsed = sumSizes (releaseAll a (ps.filter c)).table := by
    rw [htab, relFrom_sum]; exact h.sum
  obtain ⟨_, _, hlast, hsh2, _, holes, hsplit, _⟩ := coalesce_inv (releaseAll a (ps.filter c)) _ ht hsum hsh h.cap
  generalize hT : (releaseAll a (ps.filter c)).coalesce.table = T at *
  -- a slot of the released table at index j is unused iff a released request has index j
  have hrel : ∀ (j : Nat) (t : Slot), (releaseAll a (ps.filter c)).table[j]? = some t → t.isUsed = false →
      ∃ p ∈ bputs ps, c p = true ∧ p.abufIndex = (j : Int) := by
    intro j t hj hu
    rw [htab] at hj
    unfold relFrom at hj
    rw [List.getElem?_mapIdx] at hj
    cases horig : a.table[j]? with
    | none => rw [horig] at hj; simp at hj
    | some t0 =>
      rw [horig] at hj
      simp only [Option.map_some, Nat.zero_add, Option.some.injEq] at hj
      have ht0 : t0.isUsed = true := hn t0 (List.mem_of_getElem? horig)
      by_cases hany : (ps.filter c).any (fun p => decide (p.abufIndex = (j : Int))) = true
      · obtain ⟨p, hp, hpj⟩ := List.any_eq_true.mp hany
        have hp' := List.mem_filter.mp hp
        have hpj' : p.abufIndex = (j : Int) := by simpa using hpj
        refine ⟨p, List.mem_filter.mpr ⟨hp'.1, by rw [hpj']; simp⟩, hp'.2, hpj'⟩
      · simp only [hany, Bool.false_eq_true, if_false] at hj
        rw [← hj] at hu; rw [ht0] at hu; exact absurd hu (by simp)
  -- every index below the table length carries a pending buffered put (no holes before the release)
  have hidxall : ∀ (j : Nat), j < a.table.length → ∃ p ∈ bputs ps, p.abufIndex = (j : Int) := by
    have : ∀ (ss : List Slot) (i : Nat) (bs : List PReq), Shape i ss bs → (∀ t ∈ ss, t.isUsed = true) →
        ∀ j, j < ss.length → ∃ p ∈ bs, p.abufIndex = ((i + j : Nat) : Int) := by
      intro ss
      induction ss with
      | nil => intro i bs _ _ j hj; simp at hj
      | cons x xs ih =>
        intro i bs hs hall j hj
        unfold Shape at hs
        have hx := hall x List.mem_cons_self
        simp only [hx, if_true] at hs
        obtain ⟨q, bs', rfl, hq, _, _, hs'⟩ := hs
        cases j with
        | zero => exact ⟨q, List.mem_cons_self, by simpa using hq⟩
        | succ j =>
          obtain ⟨p, hp, hpj⟩ := ih (i + 1) bs' hs' (fun t ht => hall t (List.mem_cons_of_mem _ ht)) j (by simpa using hj)
          refine ⟨p, List.mem_cons_of_mem _ hp, ?_⟩
          rw [hpj]; congr 1; omega
    intro j hj
    have := this a.table 0 _ h.shape hn j hj
    simpa using this
  rcases hlast with hl | ⟨init, s, hl, hs⟩
  · intro t htm; rw [hl] at htm; simp at htm
  · -- the last kept slot (index init.length) is used, hence not released, hence below the threshold
    intro t htm
    by_cases htu : t.isUsed = true
    · exact htu
    · exfalso
      have htu' : t.isUsed = false := by simpa using htu
      obtain ⟨j, hj⟩ := List.getElem?_of_mem htm
      have hjlt : j < T.length := by
        have := List.getElem?_eq_some_iff.mp hj; exact this.1
      have hTlen : T.length = init.length + 1 := by rw [hl]; simp
      -- position j of the released table
      have hj' : (releaseAll a (ps.filter c)).table[j]? = some t := by
        rw [hsplit, List.getElem?_append_left hjlt]; exact hj
      obtain ⟨p, hp, hcp, hpj⟩ := hrel j t hj' htu'
      have hkj : k ≤ (j : Int) := by rw [← hpj]; exact (hk p hp).mp hcp
      -- position m = init.length holds s (used)
      have hm : (releaseAll a (ps.filter c)).table[init.length]? = some s := by
        rw [hsplit, List.getElem?_append_left (by omega), hl]
        simp
      have hmlen : init.length < a.table.length := by
        rw [← hlen, hsplit]; simp [hl]
      obtain ⟨q, hq, hqm⟩ := hidxall init.length hmlen
      -- q is not released (its slot is still used)
      have hcq : ¬ c q = true := by
        intro hcq
        -- then slot init.length would be unused
        have : (releaseAll a (ps.filter c)).table[init.length]? = some s := hm
        rw [htab] at this
        unfold relFrom at this
        rw [List.getElem?_mapIdx] at this
        cases horig : a.table[init.length]? with
        | none => rw [horig] at this; simp at this
        | some t0 =>
          rw [horig] at this
          simp only [Option.map_some, Nat.zero_add, Option.some.injEq] at this
          have hany : (ps.filter c).any (fun p => decide (p.abufIndex = (init.length : Int))) = true := by
            rw [List.any_eq_true]
            exact ⟨q, List.mem_filter.mpr ⟨(List.mem_filter.mp hq).1, hcq⟩, by simpa using hqm⟩
          simp only [hany, if_true] at this
          rw [← this] at hs; simp at hs
      have hkm : ¬ k ≤ (init.length : Int) := by
        intro hle; rw [← hqm] at hle; exact hcq ((hk q hq).mpr hle)
      have : j ≤ init.length := by omega
      omega

theorem lifo_step (s : S) (h : SInv s) (hn : NoHoles s) (op : Op) (hw : wf op) (hl : lifo s op) :
    NoHoles (step s op) := by
  cases op with
  | attach n =>
    simp only [step]
    unfold S.attach
    split
    · exact hn
    · cases ha : s.abuf with
      | some a => simp only; exact hn
      | none => simp [NoHoles]
  | detach =>
    simp only [step]
    unfold S.detach
    cases ha : s.abuf with
    | none => simp only; exact hn
    | some a =>
      simp only
      split
      · exact hn
      · simp [NoHoles]
  | bput hh n =>
    simp only [step]
    unfold S.bput
    cases ha : s.abuf with
    | none => simp only; exact hn
    | some a =>
      simp only
      split
      · exact hn
      · simp only [NoHoles, ha] at hn ⊢
        simp only [SInv, ha] at h
        unfold A.malloc
        intro t ht
        simp only [List.mem_append, List.mem_singleton] at ht
        rcases ht with ht | rfl
        · exact hn t (List.mem_of_mem_take ht)
        · rfl
  | iput hh n =>
    simp only [step]
    unfold S.iput NoHoles at *
    cases ha : s.abuf with
    | none => simp
    | some a => simpa [ha] using hn
  | complete hs =>
    simp only [step]
    unfold S.complete
    cases ha : s.abuf with
    | none => simp [NoHoles]
    | some a =>
      simp only [NoHoles, ha] at hn ⊢
      simp only [SInv, ha] at h
      obtain ⟨k, hk⟩ := hl
      split
      · rename_i hd
        have hnil : s.pend.filter (fun p => hs.contains p.h) = [] := List.isEmpty_iff.mp hd
        rw [hnil, releaseAll_nil]; exact hn
      · exact coalesce_noHoles a s.pend h hn (fun p => hs.contains p.h) k hk
  | cancel hs =>
    simp only [step]
    unfold S.cancel
    cases ha : s.abuf with
    | none => simp [NoHoles]
    | some a =>
      simp only [NoHoles, ha] at hn ⊢
      simp only [SInv, ha] at h
      obtain ⟨k, hk⟩ := hl
      exact coalesce_noHoles a s.pend h hn (fun p => hs.contains p.h) k hk
  | cancelAll =>
    simp only [step]
    unfold S.cancelAll
    cases ha : s.abuf with
    | none => simp [NoHoles]
    | some a => simp [NoHoles, A.reset]

/-- `usage_eq_pending_partial`: in every history — of any length, with any sizes, with attach /
    detach in between — in which each wait or cancel names the most recently posted buffered puts
    (reverse posting order; "all at once" is the threshold 0), the reported usage equals the bytes
    of the pending buffered puts after every step, and a buffered put is refused exactly when the
    space not held by pending buffered puts is too small. -/
theorem usage_eq_pending_partial (ops : List Op) : ∀ (s : S), SInv s → NoHoles s → LifoRun s ops →
    SInv (run s ops) ∧ NoHoles (run s ops) ∧
    (∀ a, (run s ops).abuf = some a → a.sizeUsed = pendingBytes (run s ops).pend ∧
      ∀ (h : Nat) (n : Int), (((run s ops).bput h n).2 = NC_EINSUFFBUF ↔
                              a.sizeAllocated - pendingBytes (run s ops).pend < n)) := by
  induction ops with
  | nil =>
    intro s h hn _
    refine ⟨h, hn, ?_⟩
    intro a ha
    have ha' : s.abuf = some a := ha
    have hu := usage_of_noHoles s h hn a ha'
    refine ⟨hu, ?_⟩
    intro hh n
    show (s.bput hh n).2 = NC_EINSUFFBUF ↔ a.sizeAllocated - pendingBytes s.pend < n
    rw [einsuffbuf_iff s a ha', hu]
  | cons op ops ih =>
    intro s h hn hl
    exact ih (step s op) (step_inv s h op hl.1) (lifo_step s h hn op hl.1 hl.2.1) hl.2.2

/-- non-vacuity: post three buffered puts, complete the last two, post another, complete all -/
example : LifoRun {} [.attach 64, .bput 0 16, .bput 1 16, .bput 2 16, .complete [2, 1], .bput 3 32, .iput 4 8,
                      .complete [0, 3, 4]] := by
  simp only [LifoRun, wf, lifo, step]
  refine ⟨trivial, trivial, by decide, trivial, by decide, trivial, by decide, trivial, trivial, ?_, by decide, trivial,
          by decide, trivial, trivial, ?_, trivial⟩
  · exact ⟨1, by decide⟩
  · exact ⟨0, by decide⟩

def obligations : List String := [
  "swapn_involutive", "swapn_length", "usesUserBuf_no_convert", "api_buffer_restored", "vard_put_restores", "user_buffer_restored",
  "vard_put_error_exits", "vard_put_agrees", "vard_get_roundtrip", "vard_get_error_exits", "vard_get_zero_size_counterexample", "vard_get_zero_size_partial", "in_place_swap_rule",
  "abuf_inv", "abuf_inv_init", "einsuffbuf_iff", "usage_ge_pending",
  "usage_eq_pending_counterexample", "einsuffbuf_spec_counterexample", "usage_eq_pending_partial"
]
end PnVerif.Props.C13
