import PnVerif.Props.C04
import PnVerif.Lemmas.LayoutLemmas
import PnVerif.Lemmas.PostPass
import PnVerif.Lemmas.Written
/-
  C03 — files written conform to the classic CDF-1/2/5 format specification.
  Models: Model/Layout.lean (NC_begins, alignment precedence), Model/Header.lean (writer, header
  length); independent decoder: Spec/SpecDecode.lean.
-/
namespace PnVerif.Props.C03
open PnVerif.Spec PnVerif.Header PnVerif.Layout

/-- The header size the library reports and uses for every offset is the number of bytes the writer
    produces (all three formats, every header). -/
theorem header_size_is_bytes_written (h : Hdr) (hn : NamesNoNul h) : (encodeRaw h).length = Hdr.len h :=
  PnVerif.Props.C04.encode_length h hn

/-- A decoder written from the format specification alone recovers from the written header exactly
    what was defined — dimensions, attributes of every type and length (0 included), variables,
    record count, begins — and stops exactly at the end of the header. -/
theorem written_header_decodes (d : Schema) (rest : Bytes) (h : Encodable d) :
    Spec.header (encodeRaw d ++ rest) = some (d, rest) :=
  header_put d rest h

/-- Whatever hints (nc_header_align_size, nc_var_align_size, nc_record_align_size) and ncmpi__enddef
    arguments are given, the alignments NC_begins works with are positive multiples of 4. -/
theorem alignments_resolved (envH envV envR hMin argV vMin argR numFix : Nat) (isRedef : Bool) :
    AlignOk (resolveAlign envH envV envR hMin argV vMin argR numFix isRedef) :=
  resolveAlign_ok envH envV envR hMin argV vMin argR numFix isRedef

/-- `begins_wf`: every layout NC_begins accepts — on a new file and on any redefinition — is
    well-formed: all begins are multiples of 4; the header plus h_minfree fits before the first
    variable; fixed-size variables follow in definition order without overlap; the record section
    starts after them plus v_minfree; record variables are consecutive inside a record; recsize is
    the sum of the padded lengths, or the unpadded size for exactly one record variable; the first
    fixed-size variable is aligned to h_align on a new file; begin_rec is aligned to r_align unless
    pinned to the old begin_rec; and a redefinition moves nothing towards the start of the file.
    The statement is for ALL formats, header sizes, variable lists, hints and ncmpi__enddef
    arguments (through `resolveAlign`). -/
theorem begins_wf (fmt : Fmt) (xsz : Nat) (vars : List VarL)
    (envH envV envR hMin argV vMin argR numFix : Nat) (beginRec0 : Nat) (old : Option Old) (L : Layout)
    (hlen : ∀ v ∈ vars, v.len % 4 = 0 ∧ 0 < v.len)
    (hold : ∀ o, old = some o → OldOk vars o ∧ beginRec0 = o.beginRec)
    (h : ncBegins fmt xsz vars (resolveAlign envH envV envR hMin argV vMin argR numFix old.isSome) beginRec0 old = .ok L) :
    LayoutWF xsz vars (resolveAlign envH envV envR hMin argV vMin argR numFix old.isSome) old L :=
  ncBegins_wf fmt xsz vars _ beginRec0 old L (resolveAlign_ok _ _ _ _ _ _ _ _ _) hlen hold h

/-- new file: no assumption besides the variable lengths being what ncmpio_NC_var_shape64 produces
    (positive multiples of 4) -/
theorem begins_wf_fresh (fmt : Fmt) (xsz : Nat) (vars : List VarL)
    (envH envV envR hMin argV vMin argR numFix : Nat) (L : Layout)
    (hlen : ∀ v ∈ vars, v.len % 4 = 0 ∧ 0 < v.len)
    (h : ncBegins fmt xsz vars (resolveAlign envH envV envR hMin argV vMin argR numFix false) 0 none = .ok L) :
    LayoutWF xsz vars (resolveAlign envH envV envR hMin argV vMin argR numFix false) none L :=
  begins_wf fmt xsz vars envH envV envR hMin argV vMin argR numFix 0 none L hlen (fun o ho => by cases ho) h

/-- the same with the variable lengths computed by the model of ncmpio_NC_var_shape64 from an
    arbitrary schema (any dimensions, any variable types and shapes the C accepts): no hypothesis on
    lengths is left -/
theorem begins_wf_schema (h : Hdr) (vars : List VarL) (hv : varsOf h = .ok vars)
    (envH envV envR hMin argV vMin argR numFix : Nat) (L : Layout)
    (hb : ncBegins h.fmt (Hdr.len h) vars (resolveAlign envH envV envR hMin argV vMin argR numFix false) 0 none = .ok L) :
    LayoutWF (Hdr.len h) vars (resolveAlign envH envV envR hMin argV vMin argR numFix false) none L :=
  begins_wf_fresh h.fmt (Hdr.len h) vars envH envV envR hMin argV vMin argR numFix L (varsOf_len h vars hv) hb

/-- ALL histories: create a file, then any number of rounds (define more variables …, enddef with any
    hints / ncmpi__enddef arguments, data mode, redef).  Every layout the successive NC_begins calls
    accept is well-formed — the hypothesis `OldOk` of `begins_wf` is never an assumption about the
    history: it is re-established by each round for the next (induction over the list of phases,
    unbounded length). -/
theorem history_wf (fmt : Fmt) (ps : List Phase) (steps : List Step)
    (hlen : ∀ p ∈ ps, ∀ v ∈ p.extra, v.len % 4 = 0 ∧ 0 < v.len)
    (h : runHistory fmt [] 0 none ps = .ok steps) :
    ∀ s ∈ steps, LayoutWF s.xsz s.vars s.al s.old s.L :=
  runHistory_wf fmt ps [] 0 none steps (fun v hv => by cases hv) hlen (fun _ o ho => by cases ho) h

/-- The header the library writes after NC_begins (`written h L`: the schema with the begins NC_begins
    computed) has a layout the format specification allows (`Schema.LayoutValid`: begins after the
    header, increasing in definition order, no overlap, record section after the fixed one) — for
    every schema of valid variables, every hint / ncmpi__enddef argument, new file or redefinition. -/
theorem written_file_valid (h : Hdr) (hv : ∀ v ∈ h.vars, VarValid h v)
    (envH envV envR hMin argV vMin argR numFix : Nat) (beginRec0 : Nat) (old : Option Old) (L : Layout)
    (hold : ∀ o, old = some o → OldOk (vlsOf h) o ∧ beginRec0 = o.beginRec)
    (hb : ncBegins h.fmt (Hdr.len h) (vlsOf h) (resolveAlign envH envV envR hMin argV vMin argR numFix old.isSome) beginRec0 old = .ok L) :
    (written h L).LayoutValid (Hdr.len (written h L)) :=
  written_layout_valid h hv _ old L
    (begins_wf h.fmt (Hdr.len h) (vlsOf h) envH envV envR hMin argV vMin argR numFix beginRec0 old L
      (varsOf_len h (vlsOf h) (varsOf_valid h hv)) hold hb)

/-- C03 closes onto C04: the file the library leaves behind (written header, then anything — data,
    padding, stale bytes) is decoded by the independent specification decoder to exactly the schema
    with the computed begins, and the library itself reads it back exactly for every read chunk
    size. -/
theorem written_file_reads_back (h : Hdr) (hv : ∀ v ∈ h.vars, VarValid h v)
    (envH envV envR hMin argV vMin argR numFix : Nat) (beginRec0 : Nat) (old : Option Old) (L : Layout)
    (hold : ∀ o, old = some o → OldOk (vlsOf h) o ∧ beginRec0 = o.beginRec)
    (hb : ncBegins h.fmt (Hdr.len h) (vlsOf h) (resolveAlign envH envV envR hMin argV vMin argR numFix old.isSome) beginRec0 old = .ok L)
    (he : Encodable (written h L)) (hl : Limits (written h L)) (rest : Bytes) (c : Nat) :
    Spec.specDecode (encodeRaw (written h L) ++ rest) = some (written h L) ∧
    ∃ info, decodeChunked c (encodeRaw (written h L) ++ rest) = .ok (written h L, info) ∧
      info.lens = (written h L).vars.map (written h L).varLen :=
  ⟨PnVerif.Props.C04.specDecode_encode _ rest he,
   PnVerif.Props.C04.valid_encoding_opens c _ rest he hl
     (written_file_valid h hv envH envV envR hMin argV vMin argR numFix beginRec0 old L hold hb)⟩

example : ∀ v ∈ PnVerif.Props.C04.exampleHdr.vars, VarValid PnVerif.Props.C04.exampleHdr v := by
  intro v hv
  simp only [PnVerif.Props.C04.exampleHdr, List.mem_cons, List.mem_nil_iff, or_false] at hv
  rcases hv with rfl | rfl <;>
    simp [VarValid, PnVerif.Props.C04.exampleHdr, Schema.isRecDim, Schema.nelems, Schema.dimFactor, NcType.size]

example : ncBegins .cdf1 (Hdr.len PnVerif.Props.C04.exampleHdr) (vlsOf PnVerif.Props.C04.exampleHdr)
    (resolveAlign 0 0 0 0 0 0 0 2 false) 0 none =
    .ok { xsz := 168, beginVar := 512, beginRec := 524, recsize := 3, fixedBegins := [512], recBegins := [524] } := by
  rfl

/-! ### the header extent reported after ncmpi_open (finding FB2-1)

  Full-strength statement: after opening any file, the reported header extent
  (ncmpi_inq_header_extent = ncp->begin_var) is at least the header size.  It is FALSE of the
  faithful model — and of the real library — for files without variables: compute_var_shape returns
  early and leaves begin_var = 0.  The harness replays the witness on the real library on every run. -/
def reportedExtent_Statement : Prop :=
  ∀ (file : Bytes) (h : Hdr) (info : Info), decodeWhole file = .ok (h, info) → info.xsz ≤ info.beginVar

/-- the smallest classic file: CDF-1, no dimension, no attribute, no variable (32 bytes) -/
def emptyFile : Bytes :=
  [0x43, 0x44, 0x46, 1, 0,0,0,0, 0,0,0,0, 0,0,0,0, 0,0,0,0, 0,0,0,0, 0,0,0,0, 0,0,0,0]

theorem reportedExtent_counterexample : ¬ reportedExtent_Statement := by
  intro hS
  have hd : decodeWhole emptyFile = .ok
      ({ fmt := .cdf1, numrecs := 0, dims := [], gatts := [], vars := [] },
       { xsz := 32, beginVar := 0, beginRec := 0, recsize := 0, numRecVars := 0, shapes := [], lens := [] }) := by rfl
  have := hS _ _ _ hd
  simp at this

/-- with at least one variable the reported extent does cover the header -/
theorem reportedExtent_partial (file : Bytes) (h : Hdr) (info : Info) (hd : decodeWhole file = .ok (h, info))
    (hv : h.vars ≠ []) : info.xsz ≤ info.beginVar :=
  postPass_extent h info (decodeWhole_post file h info hd) hv

/-- the code as it stands is the `false` variant -/
theorem decodeWholeV_false (file : Bytes) : decodeWholeV false file = decodeWhole file := by
  unfold decodeWholeV fixInfo
  cases decodeWhole file with
  | error e => rfl
  | ok p => obtain ⟨h, info⟩ := p; simp

/-- With the repair of FB2-1 (`decodeWholeV true`) the FULL statement holds: after opening any
    file the reported header extent is at least the header size. -/
theorem reportedExtent_fixed (file : Bytes) (h : Hdr) (info : Info)
    (hd : decodeWholeV true file = .ok (h, info)) : info.xsz ≤ info.beginVar := by
  unfold decodeWholeV at hd
  cases hw : decodeWhole file with
  | error e => rw [hw] at hd; cases hd
  | ok p =>
    obtain ⟨h0, info0⟩ := p
    rw [hw] at hd
    simp only [Except.ok.injEq, Prod.mk.injEq] at hd
    obtain ⟨rfl, rfl⟩ := hd
    unfold fixInfo
    by_cases hv : h0.vars.length = 0
    · simp [hv]
    · simp only [hv, and_false, if_false]
      exact reportedExtent_partial file h0 info0 hw (fun hn => hv (by rw [hn]; rfl))

/-- the repair changes nothing else: same header, same lengths, same sizes, and for files with at
    least one variable the very same result; chunk independence carries over -/
theorem fixed_variant_conservative (fixed : Bool) (c : Nat) (file : Bytes) :
    decodeChunkedV fixed c file = decodeWholeV fixed file ∧
    (∀ h info, decodeWholeV fixed file = .ok (h, info) →
      ∃ info0, decodeWhole file = .ok (h, info0) ∧ info.lens = info0.lens ∧ info.xsz = info0.xsz ∧
        info.recsize = info0.recsize ∧ (h.vars ≠ [] → info = info0)) := by
  refine ⟨?_, ?_⟩
  · unfold decodeChunkedV decodeWholeV
    rw [PnVerif.Props.C04.chunk_independent]
  · intro h info hd
    unfold decodeWholeV at hd
    cases hw : decodeWhole file with
    | error e => rw [hw] at hd; cases hd
    | ok p =>
      obtain ⟨h0, info0⟩ := p
      rw [hw] at hd
      simp only [Except.ok.injEq, Prod.mk.injEq] at hd
      obtain ⟨rfl, rfl⟩ := hd
      refine ⟨info0, rfl, ?_, ?_, ?_, ?_⟩ <;> unfold fixInfo
      · split <;> rfl
      · split <;> rfl
      · split <;> rfl
      · intro hne
        have : ¬ h0.vars.length = 0 := fun h0l => hne (List.eq_nil_of_length_eq_zero h0l)
        simp [this]

example : ∃ info, postPass PnVerif.Props.C04.exampleHdr = .ok info ∧ PnVerif.Props.C04.exampleHdr.vars ≠ [] :=
  ⟨{ xsz := 168, beginVar := 400, beginRec := 512, recsize := 3, numRecVars := 1, shapes := [[3], [0, 3]], lens := [12, 4] },
   by rfl, by simp [PnVerif.Props.C04.exampleHdr]⟩

/-! non-vacuity: a new CDF-1 file with two fixed-size and two record variables, default alignment;
    and its redefinition with one more fixed-size variable, v_minfree = 8, r_align = 128 -/
def exVars : List VarL :=
  [{ isRec := false, len := 12, packed := 12 }, { isRec := true, len := 8, packed := 6 },
   { isRec := false, len := 4, packed := 2 }, { isRec := true, len := 4, packed := 4 }]

example : ncBegins .cdf1 192 exVars (resolveAlign 0 0 0 0 0 0 0 4 false) 0 none =
    .ok { xsz := 192, beginVar := 512, beginRec := 528, recsize := 12, fixedBegins := [512, 524], recBegins := [528, 536] } := by
  rfl

def exOld : Old := { beginVar := 512, beginRec := 528, vars := [(false, 512), (true, 528), (false, 524), (true, 536)] }
def exVars2 : List VarL := exVars ++ [{ isRec := false, len := 24, packed := 24 }]

example : OldOk exVars2 exOld := by
  constructor
  · decide
  · decide
  · exact ⟨2, by decide⟩
  · decide

example : ncBegins .cdf1 228 exVars2 (resolveAlign 0 0 0 0 64 8 128 3 true) 528 (some exOld) =
    .ok { xsz := 228, beginVar := 512, beginRec := 640, recsize := 12, fixedBegins := [512, 524, 528], recBegins := [640, 648] } := by
  rfl

example : (runHistory .cdf1 [] 0 none
    [{ xsz := 192, extra := exVars, envH := 0, envV := 0, envR := 0, hMin := 0, argV := 0, vMin := 0, argR := 0 },
     { xsz := 228, extra := [{ isRec := false, len := 24, packed := 24 }], envH := 0, envV := 0, envR := 0,
       hMin := 0, argV := 64, vMin := 8, argR := 128 }]).toOption.map (fun ss => ss.map (fun s => (s.L.fixedBegins, s.L.recBegins))) =
    some [([512, 524], [528, 536]), ([512, 524, 528], [640, 648])] := by
  rfl

def obligations : List String := [
  "header_size_is_bytes_written", "written_header_decodes", "alignments_resolved", "begins_wf", "begins_wf_fresh",
  "begins_wf_schema", "history_wf", "written_file_valid", "written_file_reads_back", "reportedExtent_counterexample", "reportedExtent_partial",
  "reportedExtent_fixed", "fixed_variant_conservative", "decodeWholeV_false"
]
end PnVerif.Props.C03
