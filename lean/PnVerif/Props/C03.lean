import PnVerif.Props.C04
import PnVerif.Model.Layout
/-
  C03 — files written conform to the classic CDF-1/2/5 format specification.
  Models: Model/Layout.lean (NC_begins), Model/Header.lean (writer); independent decoder Spec/SpecDecode.lean.
-/
namespace PnVerif.Props.C03
open PnVerif.Spec PnVerif.Header PnVerif.Layout

/-- reported header size = bytes written (see Props/C04) -/
theorem header_size_is_bytes_written (h : Hdr) (hn : NamesNoNul h) : (encodeRaw h).length = Hdr.len h :=
  PnVerif.Props.C04.encode_length h hn

def obligations : List String := [
  "header_size_is_bytes_written"
]
end PnVerif.Props.C03
