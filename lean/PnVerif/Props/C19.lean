import PnVerif.Lemmas.Safety
import PnVerif.Lemmas.SafetyWork
import PnVerif.Lemmas.SafetyWf
import PnVerif.Lemmas.SafetyStrict
import PnVerif.Lemmas.SafetyEof
import PnVerif.Props.C04
/-
  C19 — memory safety; malformed files fail cleanly: THE HALF THEOREMS CAN CARRY.

  Everything here is about the model of the header reader (Model/Header.lean, a transcription of
  ncmpio_header_get.c tied to the C by the C04 and C19 correspondence runs) and the instrumented copy
  of its window primitives (Model/Safety.lean).  What no theorem about a model can show — undefined
  behaviour, out-of-bounds accesses, use after free, NULL dereferences in the compiled C — is the
  business of the sanitizer runs of checks/c19.py and is labelled as such there.
-/
namespace PnVerif.Props.C19
open PnVerif.Spec PnVerif.Header PnVerif.Safety

/-! ### (1) totality -/

/-- The header decoder terminates on EVERY byte string, for every read chunk size, with a header or
    an NC error.  The model has no fuel: `run` recurses on the reader program (a well-founded tree),
    and the only loop whose termination is not structural, the copy loop of hdr_get_NC_name /
    hdr_get_NC_attrV, terminates by the measure "bytes still to copy" — which decreases in every
    iteration because the exit "nothing copied" (where the C would spin forever) is NEVER taken
    (`decodeStuck = false`).  The chunked reader and the reader with the whole file in view give the
    same answer. -/
theorem decode_total (c : Nat) (file : Bytes) :
    decodeStuck c file = false ∧ decodeChunked c file = decodeWhole file ∧
    ((∃ h info, decodeWhole file = .ok (h, info)) ∨ (∃ e, decodeWhole file = .error e)) := by
  refine ⟨?_, PnVerif.Props.C04.chunk_independent c file, ?_⟩
  · have hc := chunkOf_ge c
    have h0 := fetch_init file (chunkOf c) (zeros (chunkOf c))
    rw [fetch_init_eq] at h0
    have h4 := (advance_inv (k := 4) h0 (by show 0 + 4 ≤ chunkOf c; omega)).2
    unfold decodeStuck
    simp only [fetch_init_eq]
    split
    · rfl
    · rename_i f _
      exact stuckRun_false (by omega) (getBody f) _ _ h4
  · cases h : decodeWhole file with
    | error e => exact .inr ⟨e, rfl⟩
    | ok r => exact .inl ⟨r.1, r.2, rfl⟩

/-- The explicit measure of the copy loop: in every state the window can reach (any chunk size > 0,
    any file, any fill level of the buffer), copying `n` bytes never gets stuck and takes at most
    n / chunk + 2 iterations (fetch-if-empty + one memcpy): the first takes what is left in the
    buffer, every later one a whole chunk. -/
theorem copy_loop_terminates (file : Bytes) (chunk : Nat) (hc : 0 < chunk) (n : Nat) (w : Win) (s : Bytes)
    (h : Inv file chunk w s) :
    getBytesStuck file chunk n w = false ∧ getBytesIters file chunk n w ≤ n / chunk + 2 :=
  ⟨getBytesStuck_false hc n w s h, getBytesIters_le hc n w s h⟩

/-! ### (2) the window never leaves its buffer -/

/-- For EVERY reader program, every chunk size ≥ 8 (the largest fixed-size read), every file and
    every window state that presents the stream, every access the window machinery performs —
    memmove source and destination, MPI read destination, zero fill, 4/8-byte reads, memcpy source
    inside the chunk buffer, memcpy destination inside the name / value being filled, the padding
    skip — is inside its object: index + length ≤ size. -/
theorem window_safe_general (file : Bytes) (chunk : Nat) (hc : 8 ≤ chunk) {α : Type} (p : P α) (w : Win) (s : Bytes)
    (h : Inv file chunk w s) : ∀ a ∈ traceRun file chunk p w, a.Safe :=
  traceRun_safe hc p w s h

/-- ncmpio_hdr_get_NC as a whole: for every value of ncp->chunk (the effective chunk is
    RNDUP(MAX(36, chunk), 4)) and every byte string, every recorded access — the first hdr_fetch, the
    magic, the HDF5 signature probe, and everything the header body does — is in range. -/
theorem window_safe (c : Nat) (file : Bytes) : ∀ a ∈ decodeTrace c file, a.Safe := by
  have hc := chunkOf_ge c
  have h0 := fetch_init file (chunkOf c) (zeros (chunkOf c))
  rw [fetch_init_eq] at h0
  have h4 := (advance_inv (k := 4) h0 (by show 0 + 4 ≤ chunkOf c; omega)).2
  have hfirst : ∀ a ∈ fetchAcc file (chunkOf c) { buf := zeros (chunkOf c), pos := 0, off := 0 } ++
      [({ kind := .fixed, idx := 0, len := 4, size := chunkOf c } : Acc)], a.Safe := by
    intro a ha
    rcases List.mem_append.mp ha with h1 | h1
    · exact fetchAcc_safe file (chunkOf c) _ (by simp) a h1
    · simp only [List.mem_cons, List.mem_nil_iff, or_false] at h1
      subst h1; simp only [Acc.Safe]; omega
  intro a ha
  unfold decodeTrace at ha
  simp only [fetch_init_eq] at ha
  split at ha
  · split at ha
    · rcases List.mem_append.mp ha with h1 | h1
      · exact hfirst a h1
      · simp only [List.mem_cons, List.mem_nil_iff, or_false] at h1
        subst h1; simp only [Acc.Safe]; omega
    · exact hfirst a ha
  · rename_i f _
    rcases List.mem_append.mp ha with h1 | h1
    · exact hfirst a h1
    · exact traceRun_safe (by omega) (getBody f) _ _ h4 a h1

/-! ### (3) an accepted header is self-consistent -/

/-- what "self-consistent metadata" means for a header `h` with the derived layout `info` -/
structure WF (h : Hdr) (info : Info) : Prop where
  /-- every dimension id of every variable names an existing dimension -/
  dimids   : ∀ v ∈ h.vars, ∀ id ∈ v.dimids, id < h.dims.length
  /-- at most one unlimited dimension -/
  oneRec   : (h.dims.filter (fun d => d.size == 0)).length ≤ 1
  /-- the unlimited dimension is used only as the first dimension of a variable -/
  recFirst : ∀ v ∈ h.vars, ∀ id ∈ v.dimids.drop 1, h.isRecDim id = false
  /-- names have at most NC_MAX_NAME bytes -/
  dimNames : ∀ d ∈ h.dims, d.name.length ≤ NC_MAX_NAME
  varNames : ∀ v ∈ h.vars, v.name.length ≤ NC_MAX_NAME
  attNames : (∀ a ∈ h.gatts, a.name.length ≤ NC_MAX_NAME) ∧ ∀ v ∈ h.vars, ∀ a ∈ v.atts, a.name.length ≤ NC_MAX_NAME
  /-- attribute nelems × element size = length of the value held -/
  attVals  : (∀ a ∈ h.gatts, a.xvalue.length = a.nelems * a.xtype.size) ∧
             ∀ v ∈ h.vars, ∀ a ∈ v.atts, a.xvalue.length = a.nelems * a.xtype.size
  /-- the extended types occur only in CDF-5 -/
  types    : (∀ a ∈ h.gatts, a.xtype.okFor h.fmt = true) ∧
             ∀ v ∈ h.vars, v.xtype.okFor h.fmt = true ∧ ∀ a ∈ v.atts, a.xtype.okFor h.fmt = true
  /-- the variable lengths in use are the ones the format prescribes, the header size is the
      size of the encoded header, and the data starts after the header -/
  lens     : info.lens = h.vars.map h.varLen
  xsz      : info.xsz = Hdr.len h
  extent   : h.vars ≠ [] → info.xsz ≤ info.beginVar
  /-- sizes and begins pass ncmpio_NC_check_vlens / ncmpio_NC_check_voffs -/
  vlens    : checkVlens h.fmt.version ((h.vars.map (fun v => v.xtype.size)).zip info.shapes) = .ok ()
  voffs    : checkVoffs info.beginVar info.beginRec info.numRecVars
               ((info.shapes.map isRecShape).zip ((h.vars.map (fun v => v.begin)).zip info.lens)) = .ok ()

theorem okFor_of_code {t : NcType} {f : Fmt} (h : f.version < 5 → t.code ≤ 6) : t.okFor f = true := by
  cases f
  · simpa [NcType.okFor, Fmt.version] using h
  · simpa [NcType.okFor, Fmt.version] using h
  · rfl

/-- Whenever the decoder accepts a byte string — any byte string: truncated, bit-flipped, with
    extreme field values — the header it returns is self-consistent. -/
theorem decode_ok_wf (file : Bytes) (h : Hdr) (info : Info) (hd : decodeWhole file = .ok (h, info)) :
    WF h info := by
  obtain ⟨f, s', hm, hr, hp⟩ := decodeWhole_ok hd
  obtain ⟨hf, hok⟩ := post_getBody f _ _ _ hr
  obtain ⟨l1, l2⟩ := postPass_lens h info hp
  obtain ⟨c1, c2⟩ := postPass_checks h info hp
  exact {
    dimids := fun v hv => (hok.vars v hv).dimids
    oneRec := hok.oneRec
    recFirst := postPass_recFirst h info hp
    dimNames := hok.dimNames
    varNames := fun v hv => (hok.vars v hv).name
    attNames := ⟨fun a ha => (hok.gatts a ha).name, fun v hv a ha => ((hok.vars v hv).atts a ha).name⟩
    attVals := ⟨fun a ha => (hok.gatts a ha).value, fun v hv a ha => ((hok.vars v hv).atts a ha).value⟩
    types := ⟨fun a ha => okFor_of_code (hok.gatts a ha).type,
              fun v hv => ⟨okFor_of_code (hok.vars v hv).type, fun a ha => okFor_of_code ((hok.vars v hv).atts a ha).type⟩⟩
    lens := l1
    xsz := l2
    extent := fun hv => postPass_extent h info hp hv
    vlens := c1
    voffs := c2 }

/-- the same for the chunked reader, every chunk size, and for ncmpi_open's verdict -/
theorem decodeChunked_ok_wf (c : Nat) (file : Bytes) (h : Hdr) (info : Info)
    (hd : decodeChunked c file = .ok (h, info)) : WF h info := by
  rw [PnVerif.Props.C04.chunk_independent] at hd
  exact decode_ok_wf file h info hd

theorem open_ok_wf (file : Bytes) (h : Hdr) (info : Info) (ho : openVerdict file = .ok (h, info)) :
    WF h info ∧ 8 ≤ file.length := by
  unfold openVerdict at ho
  split at ho
  · contradiction
  · rename_i fmt hfmt
    split at ho
    · contradiction
    · rename_i r hr
      simp only [Except.ok.injEq] at ho
      subst ho
      refine ⟨decode_ok_wf file _ _ hr, ?_⟩
      unfold inqFileFormat at hfmt
      split at hfmt
      · contradiction
      · omega

/-! ### (4) work is NOT bounded by the size of the file -/

/-- The full-strength statement: the decoder asks MPI-IO for at most one chunk more than the file
    holds (what a reader that notices the end of the file would do), whatever the bytes. -/
def decode_work_bound_Statement : Prop :=
  ∀ (c : Nat) (file : Bytes), bytesFetched c file ≤ file.length + chunkOf c

/-- FALSE of the faithful model, as of the real code (defect F14): the 40-byte CDF-1 file
    `witness40` — one global attribute of 2^31−1 doubles announced, nothing behind it — makes the
    decoder fetch (and allocate for the values) more than 17 GB: hdr_fetch zero-fills beyond the end
    of the file and nelems is trusted before any value byte has been seen. -/
theorem decode_work_bound_counterexample : ¬ decode_work_bound_Statement := by
  intro h
  have h1 := h 262144 witness40
  have h2 := witness40_fetched 262144
  have h3 : chunkOf 262144 = 262144 := by decide
  rw [h3, witness40_length] at h1
  omega

/-- the same for every read chunk size up to 2^33: no choice of chunk repairs it -/
theorem decode_work_unbounded (c : Nat) (hc : c ≤ 8589934592) :
    witness40.length + chunkOf c < bytesFetched c witness40 := by
  have h2 := witness40_fetched c
  have h3 : chunkOf c ≤ 8589934592 + 40 := by unfold chunkOf rndup MIN_NC_XSZ; omega
  rw [witness40_length]
  omega

/-- and the bytes the decoder must hold (the attribute values alone) exceed any multiple of the
    file size below 4·10^8 -/
theorem decode_alloc_unbounded : 400000000 * witness40.length < consumed (getBody .cdf1) (witness40.drop 4) := by
  have := witness40_consumed
  rw [witness40_length]
  omega

/-- The bound HOLDS with exactly one extra hypothesis: no primitive read of the run reaches beyond
    the end of the file (`inBounds`; true of every complete header — e.g. of every file the
    specification decoder accepts — false of `witness40`).  Then at most `file.length` bytes are
    consumed (and held), and at most one chunk more is fetched. -/
theorem decode_work_bound_partial (c : Nat) (file : Bytes)
    (hin : ∀ f, checkMagic (ztake 12 file) = .ok f → inBounds (getBody f) (file.drop 4) = true ∧ 4 ≤ file.length) :
    bytesFetched c file ≤ file.length + chunkOf c ∧
    (∀ f, checkMagic (ztake 12 file) = .ok f → 4 + consumed (getBody f) (file.drop 4) ≤ file.length) := by
  cases hm : checkMagic (ztake 12 file) with
  | error e =>
    refine ⟨?_, fun f hf => by cases hf⟩
    rw [bytesFetched_nomagic c file e hm]; omega
  | ok f =>
    obtain ⟨hb, h4⟩ := hin f hm
    have hcons := consumed_le_of_inBounds (getBody f) _ hb
    simp only [List.length_drop] at hcons
    have hub := (bytesFetched_bounds c file f hm).2
    refine ⟨by omega, ?_⟩
    intro f' hf'
    cases hf'
    omega

/-! ### (5) trees that carry the repair of B10-3 / B10-5 / B10-6 (variant `int63`)

  `decodeWholeS true` models ncmpio_hdr_get_NC with patch C19-B10-5-int64-header-fields applied,
  `decodeWholeS false` the code as it stands.  checks/c19.py detects which one the tree follows from a
  witness replay (a dimension of length 2^63+3) and tells the driver. -/

/-- `false` is the code as it stands -/
theorem strict_false_is_current (file : Bytes) : decodeWholeS false file = decodeWhole file :=
  decodeWholeS_false file

/-- The repaired reader is conservative: what it accepts, the reader as it stands accepts with the same
    header and layout (it only adds NC_ENOTNC answers), hence an accepted header is self-consistent. -/
theorem strict_conservative (st : Bool) (file : Bytes) (h : Hdr) (info : Info)
    (hd : decodeWholeS st file = .ok (h, info)) : decodeWhole file = .ok (h, info) ∧ WF h info :=
  ⟨decodeWholeS_ok st file h info hd, decode_ok_wf file h info (decodeWholeS_ok st file h info hd)⟩

/-- … and its result does not depend on the read chunk size either -/
theorem strict_chunk_independent (st : Bool) (c : Nat) (file : Bytes) :
    decodeChunkedS st c file = decodeWholeS st file :=
  chunk_independent_S st c file

/-- What the repair buys: in a header the repaired reader accepts, numrecs, every dimension length
    and every begin are non-negative int64 values and begin + length fits int64 for every variable —
    the quantities whose signed arithmetic is undefined in the code as it stands (B10-5) and whose
    negative values are reported to the application (B10-6). -/
theorem strict_ok_fits63 (file : Bytes) (h : Hdr) (info : Info) (hd : decodeWholeS true file = .ok (h, info)) :
    h.numrecs ≤ X_INT64_MAX ∧ (∀ d ∈ h.dims, d.size ≤ X_INT64_MAX) ∧
    (∀ v ∈ h.vars, v.begin ≤ X_INT64_MAX ∧ v.begin + h.varLen v ≤ X_INT64_MAX) := by
  unfold decodeWholeS at hd
  cases hm : checkMagic (ztake 12 file) with
  | error e => rw [hm] at hd; cases hd
  | ok f =>
    rw [hm] at hd
    simp only [] at hd
    cases hr : run flatR (getBodyS true f) (file.drop 4) with
    | error e => rw [hr] at hd; cases hd
    | ok r =>
      obtain ⟨h', s'⟩ := r
      rw [hr] at hd
      simp only [] at hd
      cases hp : postPassS true h' with
      | error e => rw [hp] at hd; cases hd
      | ok info' =>
        rw [hp] at hd
        simp only [Except.ok.injEq, Prod.mk.injEq] at hd
        obtain ⟨rfl, rfl⟩ := hd
        obtain ⟨h1, h2, h3⟩ := post_getBodyS f _ _ _ hr
        have h4 := postPassS_fits h' info' hp
        exact ⟨h1, h2, fun v hv => ⟨h3 v hv, h4 v hv⟩⟩

/-! ### (6) trees that carry the repair of F14 (variant `eof`), and all variants together

  `decodeWholeVar v` / `decodeChunkedVar v` model ncmpio_hdr_get_NC of a tree with the repairs named by
  `v : Variant` (`int63`: patch C19-B10-5-int64-header-fields, `eof`: patch
  C19-F14-header-read-beyond-eof).  checks/c19.py (and checks/c04.py) detect the variant of the tree
  from witness replays. -/

theorem decodeWholeV_noeof (st : Bool) (file : Bytes) :
    decodeWholeVar { int63 := st, eof := false } file = decodeWholeS st file := by
  unfold decodeWholeVar decodeWholeS
  simp only [Bool.false_eq_true, if_false]

/-- no repair = the code as it stands -/
theorem variant_current (file : Bytes) : decodeWholeVar Variant.current file = decodeWhole file := by
  unfold Variant.current
  rw [decodeWholeV_noeof, decodeWholeS_false]

/-- Every variant is conservative: what it accepts, the reader as it stands accepts with the same
    header and layout; so every accepted header is self-consistent. -/
theorem variant_conservative (v : Variant) (file : Bytes) (h : Hdr) (info : Info)
    (hd : decodeWholeVar v file = .ok (h, info)) : decodeWhole file = .ok (h, info) ∧ WF h info := by
  have hs : decodeWholeS v.int63 file = .ok (h, info) := by
    unfold decodeWholeVar at hd
    unfold decodeWholeS
    cases hm : checkMagic (ztake 12 file) with
    | error e => rw [hm] at hd; cases hd
    | ok f =>
      rw [hm] at hd
      simp only [] at hd ⊢
      cases he : v.eof with
      | false => rw [he] at hd; simpa using hd
      | true =>
        rw [he] at hd
        simp only [if_true] at hd
        cases hr : runE (getBodyS v.int63 f) (file.drop 4) with
        | error e => rw [hr] at hd; cases hd
        | ok r =>
          obtain ⟨h', s'⟩ := r
          rw [hr] at hd
          rw [(runE_ok _ _ _ _ hr).1]
          exact hd
  exact strict_conservative v.int63 file h info hs

/-- The F14 repair changes nothing for a header that is completely in the file (no primitive read
    of the run crosses the end of the file) — e.g. every file the library itself writes. -/
theorem eof_agrees_on_complete (st : Bool) (file : Bytes) (f : Fmt) (hm : checkMagic (ztake 12 file) = .ok f)
    (hin : inBounds (getBodyS st f) (file.drop 4) = true) :
    decodeWholeVar { int63 := st, eof := true } file = decodeWholeVar { int63 := st, eof := false } file := by
  unfold decodeWholeVar
  rw [hm]
  simp only [if_true, Bool.false_eq_true, if_false]
  rw [runE_of_inBounds _ _ hin]

/-- The result of every variant is independent of the read chunk size, for every byte string: also
    the end-of-file test, which the C computes from the window's own bookkeeping
    (file_size − (offset − (end − pos))), answers exactly as on the flat stream. -/
theorem variant_chunk_independent (v : Variant) (c : Nat) (file : Bytes) :
    decodeChunkedVar v c file = decodeWholeVar v file := by
  cases he : v.eof with
  | false =>
    have h1 : decodeChunkedVar v c file = decodeChunkedS v.int63 c file := by
      unfold decodeChunkedVar decodeChunkedS
      simp only [he, Bool.false_eq_true, if_false]
    have h2 : decodeWholeVar v file = decodeWholeS v.int63 file := by
      unfold decodeWholeVar decodeWholeS
      simp only [he, Bool.false_eq_true, if_false]
    rw [h1, h2, chunk_independent_S]
  | true =>
    unfold decodeChunkedVar decodeWholeVar
    have hc := chunkOf_ge c
    simp only [fetch_init_eq, he, if_true]
    simp only [take_ztake (show 12 ≤ chunkOf c by omega)]
    cases hm : checkMagic (ztake 12 file) with
    | error e => rfl
    | ok f =>
      simp only []
      have hsim := runWE_sim (file := file) (chunk := chunkOf c) (by omega) (getBodyS v.int63 f) _ _
        (invE_init file c (magic_length hm))
      revert hsim
      generalize runWE file (chunkOf c) (getBodyS v.int63 f) _ = x
      generalize runE (getBodyS v.int63 f) (List.drop 4 file) = y
      intro hsim
      match x, y, hsim with
      | .ok (a, w), .ok (b, s), ⟨hab, _⟩ => subst hab; rfl
      | .error e, .error f', hef => cases hef; rfl

/-- WITH THE F14 REPAIR THE FULL WORK BOUND HOLDS (`decode_work_bound_Statement` for the repaired
    variant): for every read chunk size and EVERY byte string the decoder asks MPI-IO for at most one
    chunk more than the file holds. -/
theorem decode_work_bound_repaired (st : Bool) (c : Nat) (file : Bytes) :
    bytesFetchedV { int63 := st, eof := true } c file ≤ file.length + chunkOf c := by
  have hc := chunkOf_ge c
  unfold bytesFetchedV
  simp only [fetch_init_eq, if_true]
  simp only [take_ztake (show 12 ≤ chunkOf c by omega)]
  cases hm : checkMagic (ztake 12 file) with
  | error e => simp only []; omega
  | ok f =>
    simp only []
    obtain ⟨s', hi⟩ := endWinE_inv (file := file) (chunk := chunkOf c) (by omega) (getBodyS st f) _ _
      (invE_init file c (magic_length hm))
    have := hi.num
    omega

/-- the 40-byte F14 file: refused by the repaired reader (NC_ENOTNC), one chunk fetched -/
theorem witness40_repaired :
    decodeWholeVar { int63 := false, eof := true } witness40 = .error .enotnc := by rfl

/-! ### the driver's verdict -/

/-- What lean/Driver/C19.lean prints for a file (the guarded reader, which refuses to materialise a
    read far beyond the end of the file) is the model's verdict `openVerdict` whenever it is a verdict
    at all: same header and layout, or the same error. -/
theorem driver_verdict_sound (limit : Nat) (file : Bytes) :
    (∀ h info w, openGuarded limit file = .ok h info w → openVerdict file = .ok (h, info)) ∧
    (∀ e w, openGuarded limit file = .err e w → openVerdict file = .error e) :=
  openGuarded_sound limit file

/-- … and when it answers BIG instead, the unguarded decoder consumes at least up to there: more
    than `limit` bytes beyond the end of the file. -/
theorem driver_big_sound (total limit : Nat) (f : Fmt) (s : Bytes) (b : Bool) (m : Nat) (w : Bool)
    (h : guardRun total limit (getBody f) s 4 false = .big b m w) :
    total + limit < m ∧ m ≤ 4 + consumed (getBody f) s :=
  guardRun_big total limit (getBody f) s 4 false b m w h

/-! ### non-vacuity -/

/-- a small valid file: CDF-1, no dimensions, one global attribute "a" = int {7}, no variables -/
def tiny : Bytes :=
  [0x43, 0x44, 0x46, 0x01,  0, 0, 0, 0,  0, 0, 0, 0,  0, 0, 0, 0,  0, 0, 0, 12,  0, 0, 0, 1,
   0, 0, 0, 1,  0x61, 0, 0, 0,  0, 0, 0, 4,  0, 0, 0, 1,  0, 0, 0, 7,  0, 0, 0, 0,  0, 0, 0, 0]

set_option maxRecDepth 100000 in
/-- the hypothesis of `decode_work_bound_partial` is met by `tiny` (and the run is not trivial:
    48 bytes are consumed) -/
example : checkMagic (ztake 12 tiny) = .ok .cdf1 ∧ inBounds (getBody .cdf1) (tiny.drop 4) = true ∧ 4 ≤ tiny.length ∧
    consumed (getBody .cdf1) (tiny.drop 4) = 48 := by
  refine ⟨by rfl, by rfl, by decide, by rfl⟩

set_option maxRecDepth 100000 in
/-- … and it is exactly what `witness40` violates -/
example : inBounds (getBody .cdf1) (witness40.drop 4) = false := by rfl

set_option maxRecDepth 100000 in
/-- `decode_ok_wf` is not vacuous: `tiny` is accepted, with one attribute of 4 value bytes -/
example : (decodeWhole tiny).toOption.map (fun r => (r.1.gatts.map (fun a => (a.nelems, a.xvalue.length)), r.2.xsz)) =
    some ([(1, 4)], 52) := by rfl

/-- a window state that presents a stream and is in the middle of its buffer (hypothesis of
    `window_safe_general` / `copy_loop_terminates`): after the first fetch and the 4 magic bytes -/
example : Inv tiny 36 { buf := ztake 36 tiny, pos := 4, off := 36 } (tiny.drop 4) := by
  have h0 := fetch_init tiny 36 (zeros 36)
  rw [fetch_init_eq] at h0
  exact (advance_inv (k := 4) h0 (by decide)).2

set_option maxRecDepth 100000 in
/-- non-vacuity: the repaired reader accepts `tiny` … -/
example : (decodeWholeS true tiny).toOption.map (fun r => r.2.xsz) = some 52 := by rfl

/-- … and refuses a dimension of length 2^63+3, which the reader as it stands accepts
    (CDF-5: numrecs 0, one dimension "x") -/
def negdim : Bytes :=
  [0x43, 0x44, 0x46, 0x05,  0, 0, 0, 0, 0, 0, 0, 0,  0, 0, 0, 10,  0, 0, 0, 0, 0, 0, 0, 1,
   0, 0, 0, 0, 0, 0, 0, 1,  0x78, 0, 0, 0,  0x80, 0, 0, 0, 0, 0, 0, 3,
   0, 0, 0, 0,  0, 0, 0, 0, 0, 0, 0, 0,  0, 0, 0, 0,  0, 0, 0, 0, 0, 0, 0, 0]

set_option maxRecDepth 100000 in
example : (decodeWhole negdim).toOption.map (fun r => r.1.dims.map (·.size)) = some [9223372036854775811] ∧
    (decodeWholeS true negdim).toOption.isNone = true := by
  refine ⟨by rfl, by rfl⟩

def obligations : List String := [
  "decode_total", "copy_loop_terminates", "window_safe_general", "window_safe",
  "decode_ok_wf", "decodeChunked_ok_wf", "open_ok_wf",
  "decode_work_bound_counterexample", "decode_work_unbounded", "decode_alloc_unbounded", "decode_work_bound_partial",
  "driver_verdict_sound", "driver_big_sound",
  "strict_false_is_current", "strict_conservative", "strict_chunk_independent", "strict_ok_fits63",
  "variant_current", "variant_conservative", "eof_agrees_on_complete", "variant_chunk_independent",
  "decode_work_bound_repaired", "witness40_repaired"
]
end PnVerif.Props.C19
