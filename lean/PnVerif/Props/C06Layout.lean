import PnVerif.Props.C06
import PnVerif.Lemmas.LayoutMove
/-
  C06 ∘ C03 — the layout facts `LayoutOK` that the data-moving code of ncmpio__enddef needs are
  DERIVED from the model of NC_begins (Model/Layout.lean, the model C03 ties to the library by
  comparing every computed layout with the library's inquiries), for every redefinition: any
  well-formed previous layout, any appended variables, any hints / ncmpi__enddef arguments, any header
  growth.  With it `enddefMove_preserves` no longer rests on a hypothesis evaluated at run time:
  `redef_preserves_data` states the preservation for the layout pair NC_begins itself produces.
-/
namespace PnVerif.Props.C06
open PnVerif.Redef PnVerif.Layout PnVerif.Spec PnVerif.Header

theorem FixedOK_of_filter : ∀ (mv : List MVar), FixedOK (mv.filter (fun w => !w.isRec)) → FixedOK mv := by
  intro mv
  induction mv with
  | nil => intro _; simp [FixedOK]
  | cons u us ih =>
    intro h
    by_cases hu : u.isRec = true
    · simp only [List.filter_cons, hu, Bool.not_true] at h
      exact ⟨fun hf => by simp [hu] at hf, ih h⟩
    · have hu' : u.isRec = false := by simpa using hu
      simp only [List.filter_cons, hu', Bool.not_false, if_true, FixedOK] at h
      refine ⟨fun _ => ⟨(h.1 trivial).1, ?_⟩, ih h.2⟩
      intro w hw hwf
      exact (h.1 trivial).2 w (List.mem_filter.mpr ⟨hw, by simp [hwf]⟩) hwf

/-- the numbers of a layout that the moving code reads -/
def layOf (L : Layout) : Lay := ⟨L.beginVar, L.beginRec, L.recsize⟩

/-- **redef_layout_ok**: let `Lo` be any well-formed layout of the variables `ov` (by `history_wf` every
    layout any history of enddefs produced is one), and let NC_begins at the enddef of a redefinition —
    variables `extra` appended, header size `xsz`, any alignments — accept with layout `Ln`.  Then the
    pair (Lo, Ln) satisfies every fact `LayoutOK` the moving code relies on, for every list `mv` that
    pairs the old and the new begins of the old fixed-size variables in definition order (record
    variables in between are ignored by the moving code). -/
theorem redef_layout_ok (fmt : Fmt) (xszO xsz : Nat) (ov extra : List VarL) (alO al : Align) (oldO : Option Old)
    (Lo Ln : Layout) (hwo : LayoutWF xszO ov alO oldO Lo) (hal : AlignOk al)
    (hlen : ∀ v ∈ ov ++ extra, v.len % 4 = 0 ∧ 0 < v.len)
    (hpk : ∀ v ∈ ov, v.packed ≤ v.len)
    (hb : ncBegins fmt xsz (ov ++ extra) al Lo.beginRec (some (toOld ov Lo)) = .ok Ln)
    (mv : List MVar)
    (hmv : mv.filter (fun w => !w.isRec) = fixedMVars (ov.filter (fun v => !v.isRec)) Lo.fixedBegins Ln.fixedBegins)
    (hmvlen : mv.length = ov.length) :
    LayoutOK (layOf Lo) (layOf Ln) (ov ++ extra).length mv := by
  -- the new layout is well formed, with `old` = the previous header
  have hwn : LayoutWF xsz (ov ++ extra) al (some (toOld ov Lo)) Ln :=
    ncBegins_wf fmt xsz (ov ++ extra) al Lo.beginRec _ Ln hal hlen
      (fun o ho => by
        simp only [Option.some.injEq] at ho
        subst ho
        exact ⟨wf_toOld xszO ov extra alO oldO Lo hwo, rfl⟩) hb
  have hr : Lo.recBegins.length = (ov.filter (fun v => v.isRec)).length := by rw [hwo.recs, consec_length]
  obtain ⟨t1, _, _⟩ := toOld_filters ov Lo.fixedBegins Lo.recBegins hwo.nFixed hr
  obtain ⟨m1, m2, m3, _⟩ := hwn.monotone _ rfl
  have m3' : geOld Lo.fixedBegins Ln.fixedBegins := by
    have : ((toOld ov Lo).vars.filter (fun p => !p.1)).map (·.2) = Lo.fixedBegins := t1
    rw [this] at m3; exact m3
  obtain ⟨bvo, _, _, hco, heo⟩ := hwo.fixedOk
  obtain ⟨bvn, _, _, hcn, hen⟩ := hwn.fixedOk
  rw [List.filter_append] at hcn hen
  have hmem : ∀ v ∈ mv, v.isRec = false →
      v ∈ fixedMVars (ov.filter (fun v => !v.isRec)) Lo.fixedBegins Ln.fixedBegins := by
    intro v hv hf
    rw [← hmv]
    exact List.mem_filter.mpr ⟨hv, by simp [hf]⟩
  refine ⟨?_, m2, ?_, ?_, ?_, ?_, ?_, ?_⟩
  · -- fixed
    apply FixedOK_of_filter
    rw [hmv]
    exact fixedOK_of_chains _ _ _ _ _ _ hco hcn m3'
  · -- rsGe
    show Lo.recsize ≤ Ln.recsize
    rw [hwo.recsize, hwn.recsize, List.filter_append]
    exact specRecsize_mono _ _ (fun v hv => hpk v (List.mem_filter.mp hv).1)
  · -- fixedBelowOld
    intro v hv hf
    have := (chain_old_bounds _ _ Ln.fixedBegins _ hco v (hmem v hv hf)).2
    show v.oldBegin + v.len ≤ Lo.beginRec
    omega
  · -- fixedBelowNew
    intro v hv hf
    have := (chain_new_bounds _ _ Lo.fixedBegins _ _ hcn v (hmem v hv hf)).2
    show v.newBegin + v.len ≤ Ln.beginRec
    omega
  · -- sameIfNoGrow
    intro hng v hv hf
    have hng' : Ln.beginVar ≤ Lo.beginVar := hng
    have hvm := hmem v hv hf
    -- the first pass of NC_begins that produced Ln.fixedBegins
    unfold ncBegins at hb
    simp only [] at hb
    split at hb
    · contradiction
    · rename_i fb endVar hfix
      split at hb
      · contradiction
      · rename_i rb recsize hrec
        simp only [Except.ok.injEq] at hb
        subst hb
        simp only [] at hvm hng' hcn ⊢
        have hofb : oldFixedBegins (some (toOld ov Lo)) = Lo.fixedBegins := t1
        rw [hofb, List.filter_append] at hfix
        have hext := hwo.extent
        -- case analysis: a paired variable exists, so all three lists are non-empty
        cases hF : ov.filter (fun v => !v.isRec) with
        | nil => rw [hF] at hvm; simp [fixedMVars] at hvm
        | cons f fs =>
          cases hO : Lo.fixedBegins with
          | nil => rw [hF, hO] at hvm; simp [fixedMVars] at hvm
          | cons o os =>
            cases hN : fb with
            | nil => rw [hF, hO, hN] at hvm; simp [fixedMVars] at hvm
            | cons n ns =>
              rw [hO] at hext
              simp only [List.headD_cons] at hext
              rw [hN] at hng'
              simp only [] at hng'
              rw [hF, hO, hN] at hfix
              have hhead : rndup (initExtent xsz (ov ++ extra).length al (some (toOld ov Lo))) 4 ≤ o :=
                passFixed_head fmt f (fs ++ (extra.filter (fun v => !v.isRec))) o os _ n ns endVar hfix (by omega)
              rw [hF, hO] at hco
              have h4 : ∀ x ∈ o :: os, x % 4 = 0 := fun x hx => hwo.fixed4 x (by rw [hO]; exact hx)
              rw [hF, hO, hN] at hvm
              exact passFixed_keeps fmt (f :: fs) _ (o :: os) _ bvo (n :: ns) endVar hfix hco h4
                (fun o' ho' => by simp only [List.head?_cons, Option.some.injEq] at ho'; subst ho'; exact hhead) v hvm
  · -- nvarsGe
    rw [hmvlen, List.length_append]; omega
  · -- recNeedsVar
    intro hpos
    have hpos' : 0 < Lo.recsize := hpos
    rw [hmvlen]
    cases ov with
    | nil => rw [hwo.recsize] at hpos'; simp [specRecsize, sumLen] at hpos'
    | cons a as => simp

/-- **redef_preserves_data**: `enddefMove_preserves` for the layout pair NC_begins produces — no
    layout hypothesis left: for every well-formed previous layout, every set of appended variables,
    every alignment request, every process count, MOVE_UNIT, file content and record count, after the
    moving step of ncmpio__enddef every existing byte of every old fixed-size variable is at the
    variable's new begin and every existing byte of every record is at its new place. -/
theorem redef_preserves_data (m : ReadMode) (nprocs unit : Nat) (hp : 1 ≤ nprocs) (hu : 1 ≤ unit) (f : File)
    (fmt : Fmt) (xszO xsz : Nat) (ov extra : List VarL) (alO al : Align) (oldO : Option Old)
    (Lo Ln : Layout) (hwo : LayoutWF xszO ov alO oldO Lo) (hal : AlignOk al)
    (hlen : ∀ v ∈ ov ++ extra, v.len % 4 = 0 ∧ 0 < v.len)
    (hpk : ∀ v ∈ ov, v.packed ≤ v.len)
    (hb : ncBegins fmt xsz (ov ++ extra) al Lo.beginRec (some (toOld ov Lo)) = .ok Ln)
    (mv : List MVar)
    (hmv : mv.filter (fun w => !w.isRec) = fixedMVars (ov.filter (fun v => !v.isRec)) Lo.fixedBegins Ln.fixedBegins)
    (hmvlen : mv.length = ov.length) (numrecs : Nat) :
    (∀ v ∈ mv, v.isRec = false → ∀ k, k < v.len → v.oldBegin + k < f.length →
      rd (enddefMove m nprocs unit f (layOf Lo) (layOf Ln) (ov ++ extra).length numrecs mv) (v.newBegin + k)
        = rd f (v.oldBegin + k)) ∧
    (∀ r k, r < numrecs → k < Lo.recsize → Lo.beginRec + r * Lo.recsize + k < f.length →
      rd (enddefMove m nprocs unit f (layOf Lo) (layOf Ln) (ov ++ extra).length numrecs mv)
          (Ln.beginRec + r * Ln.recsize + k)
        = rd f (Lo.beginRec + r * Lo.recsize + k)) :=
  enddefMove_preserves m nprocs unit hp hu f (layOf Lo) (layOf Ln) (ov ++ extra).length numrecs mv
    (redef_layout_ok fmt xszO xsz ov extra alO al oldO Lo Ln hwo hal hlen hpk hb mv hmv hmvlen)

/-! ### every redefinition history -/

/-- consecutive enddefs of a history -/
def stepPairs : List Step → List (Step × Step)
  | a :: b :: rest => (a, b) :: stepPairs (b :: rest)
  | _ => []

/-- what `redef_layout_ok` concludes, for one pair of consecutive enddefs -/
def PairOK (a b : Step) : Prop :=
  ∀ mv : List MVar,
    mv.filter (fun w => !w.isRec) = fixedMVars (a.vars.filter (fun v => !v.isRec)) a.L.fixedBegins b.L.fixedBegins →
    mv.length = a.vars.length → LayoutOK (layOf a.L) (layOf b.L) b.vars.length mv

theorem history_pairs_from (fmt : Fmt) : ∀ (ps : List Phase) (a : Step) (steps : List Step),
    LayoutWF a.xsz a.vars a.al a.old a.L →
    (∀ v ∈ a.vars, (v.len % 4 = 0 ∧ 0 < v.len) ∧ v.packed ≤ v.len) →
    (∀ p ∈ ps, ∀ v ∈ p.extra, (v.len % 4 = 0 ∧ 0 < v.len) ∧ v.packed ≤ v.len) →
    runHistory fmt a.vars a.L.beginRec (some (toOld a.vars a.L)) ps = .ok steps →
    ∀ pr ∈ stepPairs (a :: steps), PairOK pr.1 pr.2 := by
  intro ps
  induction ps with
  | nil =>
    intro a steps _ _ _ h
    simp only [runHistory, Except.ok.injEq] at h
    subst h
    intro pr hpr; simp [stepPairs] at hpr
  | cons p ps ih =>
    intro a steps hwa hva hps h
    simp only [runHistory] at h
    split at h
    · contradiction
    · rename_i L hL
      split at h
      · contradiction
      · rename_i rest hrest
        simp only [Except.ok.injEq] at h
        subst h
        have hv' : ∀ v ∈ a.vars ++ p.extra, (v.len % 4 = 0 ∧ 0 < v.len) ∧ v.packed ≤ v.len := by
          intro v hm
          rcases List.mem_append.mp hm with x | x
          · exact hva v x
          · exact hps p (by simp) v x
        have hal := resolveAlign_ok p.envH p.envV p.envR p.hMin p.argV p.vMin p.argR
          ((a.vars ++ p.extra).length - (a.vars.filter (fun v => v.isRec)).length) (some (toOld a.vars a.L)).isSome
        have hwb := ncBegins_wf fmt p.xsz (a.vars ++ p.extra) _ a.L.beginRec (some (toOld a.vars a.L)) L hal
          (fun v hv => (hv' v hv).1)
          (fun o ho => by
            simp only [Option.some.injEq] at ho
            subst ho
            exact ⟨wf_toOld a.xsz a.vars p.extra a.al a.old a.L hwa, rfl⟩) hL
        intro pr hpr
        simp only [stepPairs, List.mem_cons] at hpr
        rcases hpr with rfl | hpr
        · intro mv hmv hlen
          exact redef_layout_ok fmt a.xsz p.xsz a.vars p.extra a.al _ a.old a.L L hwa hal
            (fun v hv => (hv' v hv).1) (fun v hv => (hva v hv).2) hL mv hmv hlen
        · exact ih { xsz := p.xsz, vars := a.vars ++ p.extra, al := _, old := some (toOld a.vars a.L), L := L } rest
            hwb hv' (fun q hq => hps q (by simp [hq])) hrest pr hpr

/-- **history_layout_ok**: create a file, then ANY number of rounds (define more variables, enddef with
    any hints / ncmpi__enddef arguments, data mode, redef): for every two consecutive enddefs of the
    history the layout pair satisfies every fact the data-moving code relies on — hence, by
    `enddefMove_preserves`, every redefinition of every history keeps every existing byte of every old
    variable and record.  The only hypotheses are the facts `varsOf_len` / `varsOf_packed` prove of
    every variable computed from a schema. -/
theorem history_layout_ok (fmt : Fmt) (ps : List Phase) (steps : List Step)
    (hps : ∀ p ∈ ps, ∀ v ∈ p.extra, (v.len % 4 = 0 ∧ 0 < v.len) ∧ v.packed ≤ v.len)
    (h : runHistory fmt [] 0 none ps = .ok steps) :
    ∀ pr ∈ stepPairs steps, PairOK pr.1 pr.2 := by
  cases ps with
  | nil =>
    simp only [runHistory, Except.ok.injEq] at h
    subst h
    intro pr hpr; simp [stepPairs] at hpr
  | cons p ps =>
    simp only [runHistory] at h
    split at h
    · contradiction
    · rename_i L hL
      split at h
      · contradiction
      · rename_i rest hrest
        simp only [Except.ok.injEq] at h
        subst h
        have hv' : ∀ v ∈ ([] : List VarL) ++ p.extra, (v.len % 4 = 0 ∧ 0 < v.len) ∧ v.packed ≤ v.len := by
          intro v hm
          exact hps p (by simp) v (by simpa using hm)
        have hwa := ncBegins_wf fmt p.xsz ([] ++ p.extra) _ 0 none L (resolveAlign_ok _ _ _ _ _ _ _ _ _)
          (fun v hv => (hv' v hv).1) (fun o ho => by cases ho) hL
        exact history_pairs_from fmt ps { xsz := p.xsz, vars := [] ++ p.extra, al := _, old := none, L := L } rest
          hwa hv' (fun q hq => hps q (by simp [hq])) hrest

/-- the side conditions of `redef_layout_ok` on the variable list (`len` a positive multiple of 4,
    `packed ≤ len`) are no assumptions when the list comes from a schema through the model of
    ncmpio_NC_var_shape64 (every dimension list, type and shape the C accepts) -/
theorem packed_le_len_schema (h : Hdr) (vars : List VarL) (hv : varsOf h = .ok vars) :
    (∀ v ∈ vars, v.len % 4 = 0 ∧ 0 < v.len) ∧ (∀ v ∈ vars, v.packed ≤ v.len) :=
  ⟨varsOf_len h vars hv, varsOf_packed h vars hv⟩

/-! non-vacuity: a new CDF-1 file with a fixed int[10], a record variable and a second fixed variable
   (header 100 bytes, default alignment); the redefinition appends a fixed and a record variable and
   the header grows to 700 bytes, beyond the old extent 512: NC_begins accepts both, the old layout is
   well formed, everything moves up, and the hypotheses of `redef_layout_ok` are met by the paired
   list `exMv`. -/
def exOv : List VarL := [⟨false, 40, 40⟩, ⟨true, 8, 6⟩, ⟨false, 12, 12⟩]
def exExtra : List VarL := [⟨false, 16, 16⟩, ⟨true, 4, 4⟩]
def exLo : Layout := { xsz := 100, beginVar := 512, beginRec := 564, recsize := 6, fixedBegins := [512, 552], recBegins := [564] }
def exLn : Layout := { xsz := 700, beginVar := 700, beginRec := 768, recsize := 12, fixedBegins := [700, 740, 752], recBegins := [768, 776] }
def exMv : List MVar := [⟨512, 700, 40, false⟩, ⟨564, 768, 8, true⟩, ⟨552, 740, 12, false⟩]

example : ncBegins .cdf1 100 exOv (resolveAlign 0 0 0 0 0 0 0 3 false) 0 none = .ok exLo := by rfl
example : ncBegins .cdf1 700 (exOv ++ exExtra) (resolveAlign 0 0 0 0 4 0 4 4 true) exLo.beginRec (some (toOld exOv exLo)) = .ok exLn := by rfl
example : LayoutWF 100 exOv (resolveAlign 0 0 0 0 0 0 0 3 false) none exLo :=
  ncBegins_wf .cdf1 100 exOv _ 0 none exLo (resolveAlign_ok _ _ _ _ _ _ _ _ _) (by decide) (fun o ho => by cases ho) (by rfl)
example : exMv.filter (fun w => !w.isRec) = fixedMVars (exOv.filter (fun v => !v.isRec)) exLo.fixedBegins exLn.fixedBegins ∧
    exMv.length = exOv.length ∧ (∀ v ∈ exOv, v.packed ≤ v.len) ∧ (∀ v ∈ exOv ++ exExtra, v.len % 4 = 0 ∧ 0 < v.len) := by decide

/-- the hypotheses of `redef_layout_ok` are jointly satisfiable: the theorem applied to the concrete pair -/
example : LayoutOK (layOf exLo) (layOf exLn) (exOv ++ exExtra).length exMv :=
  redef_layout_ok .cdf1 100 700 exOv exExtra (resolveAlign 0 0 0 0 0 0 0 3 false) (resolveAlign 0 0 0 0 4 0 4 4 true) none exLo exLn
    (ncBegins_wf .cdf1 100 exOv _ 0 none exLo (resolveAlign_ok _ _ _ _ _ _ _ _ _) (by decide) (fun o ho => by cases ho) (by rfl))
    (resolveAlign_ok _ _ _ _ _ _ _ _ _) (by decide) (by decide) (by rfl) exMv (by decide) (by decide)

/-- non-vacuity of `history_layout_ok`: a three-phase history (create with three variables, a redefinition
    that appends a fixed and a record variable and grows the header beyond its extent, a redefinition
    that only adds free space) is accepted and has two consecutive pairs -/
example : ∃ steps, runHistory .cdf1 [] 0 none
      [⟨100, exOv, 0, 0, 0, 0, 0, 0, 0⟩, ⟨700, exExtra, 0, 0, 0, 0, 4, 0, 4⟩, ⟨720, [], 0, 0, 0, 64, 0, 32, 0⟩] = .ok steps ∧
    (stepPairs steps).length = 2 ∧ (steps.map (fun s => s.L.beginVar)) = [512, 700, 784] := ⟨_, rfl, rfl, rfl⟩

end PnVerif.Props.C06

namespace PnVerif.Props.C06Layout
def obligations : List String := ["FixedOK_of_filter", "redef_layout_ok", "redef_preserves_data", "packed_le_len_schema", "history_pairs_from", "history_layout_ok"]
end PnVerif.Props.C06Layout
