import PnVerif.Lemmas.IdTable
/-
  C17 — file handles have a clean lifecycle (the id table of src/dispatchers/file.c).

  All theorems are about `Tab α` for an ARBITRARY per-file object type `α`, an arbitrary
  NC_MAX_NFILES (= `t.cap`), and — where a history is involved — arbitrary programs
  `List (Op α)` (create/open with any driver outcome, close/abort, any other call on any id,
  valid or not), by induction.  `Consistent` (pnc_numfiles = number of non-NULL slots) holds in every
  reachable state (`reachable_inv`).

  `b : Bool` is the PNC_check_id variant: `false` = the code as it is in the source (no NULL test),
  `true` = with the one-line repair.  The property's central claim — a call with an id that is not
  open returns NC_EBADID instead of crashing — is FALSE of `b = false` (known defect F1):
  `check_id_counterexample`, `no_crash_counterexample`; it holds of `b = true`:
  `check_id_spec_repaired`, `no_crash_repaired`.  The correspondence run determines which variant the
  library follows.
-/
namespace PnVerif.Props.C17
open PnVerif.IdTable

/-! ### the invariant in every reachable state -/

theorem reachable_inv {α : Type} (b : Bool) (N : Nat) (ops : List (Op α)) : Consistent (run b (init α N) ops).1 :=
  run_inv b (init_inv N) ops

/-! ### check_id_spec -/

/-- PNC_check_id answers NC_EBADID exactly for the ids that are not open -/
def check_id_Statement (b : Bool) : Prop :=
  ∀ (α : Type) (t : Tab α) (ncid : Int), Consistent t →
    (checkId b t ncid = Chk.badid ↔ (ncid < 0 ∨ ncid ≥ t.cap ∨ t.slots[ncid.toNat]? = some none))

/-- F1: two slots, slot 0 closed (NULL), slot 1 open, ncid = 0: PNC_check_id returns NC_NOERR with a
    NULL object (the caller then dereferences it) -/
theorem check_id_counterexample : ¬ check_id_Statement false := by
  intro h
  have := (h Unit ⟨[none, some ()], 1⟩ 0 (by simp [Consistent, countSome])).mpr (by simp)
  simp [checkId, Tab.cap] at this

/-- exact characterisation of the defect: NC_NOERR + NULL iff some file is open, the id is in range
    and its slot is empty -/
theorem check_id_null_iff {α : Type} (t : Tab α) (ncid : Int) :
    checkId false t ncid = Chk.null ↔
      (t.num ≠ 0 ∧ 0 ≤ ncid ∧ ncid < t.cap ∧ t.slots[ncid.toNat]? = some none) := by
  unfold checkId
  by_cases hc : t.num = 0 ∨ ncid < 0 ∨ ncid ≥ t.cap
  · simp only [hc, if_true]
    constructor
    · intro h; cases h
    · rintro ⟨h1, h2, h3, _⟩; omega
  · simp only [hc, if_false]
    have hr : ncid.toNat < t.slots.length := by unfold Tab.cap at hc; omega
    have hn : t.num ≠ 0 ∧ 0 ≤ ncid ∧ ncid < t.cap := by omega
    rw [List.getElem?_eq_getElem hr]
    cases hs : t.slots[ncid.toNat] with
    | none => simp [hn]
    | some p => simp

/-- the statement with exactly the extra hypothesis the unrepaired code needs: no file open, or id
    out of range, or the slot occupied -/
theorem check_id_partial {α : Type} (t : Tab α) (ncid : Int) (inv : Consistent t)
    (hyp : t.num = 0 ∨ ncid < 0 ∨ ncid ≥ t.cap ∨ ∃ p, t.slots[ncid.toNat]? = some (some p)) :
    (checkId false t ncid = Chk.badid ↔ (ncid < 0 ∨ ncid ≥ t.cap ∨ t.slots[ncid.toNat]? = some none)) := by
  unfold checkId
  by_cases hc : t.num = 0 ∨ ncid < 0 ∨ ncid ≥ t.cap
  · simp only [hc, if_true, true_iff]
    rcases hc with h0 | h1 | h2
    · by_cases hr : ncid < 0 ∨ ncid ≥ t.cap
      · rcases hr with h | h
        · exact Or.inl h
        · exact Or.inr (Or.inl h)
      · right; right
        unfold Consistent at inv
        have hz : countSome t.slots = 0 := by omega
        exact countSome_zero hz _ (by unfold Tab.cap at hr; omega)
    · exact Or.inl h1
    · exact Or.inr (Or.inl h2)
  · simp only [hc, if_false]
    rcases hyp with h | h | h | ⟨p, hp⟩
    · exact absurd (Or.inl h) hc
    · exact absurd (Or.inr (Or.inl h)) hc
    · exact absurd (Or.inr (Or.inr h)) hc
    · simp only [hp]
      constructor
      · intro h; cases h
      · rintro (h | h | h)
        · exact absurd (Or.inr (Or.inl h)) hc
        · exact absurd (Or.inr (Or.inr h)) hc
        · cases h

/-- with the repair the full statement holds -/
theorem check_id_spec_repaired : check_id_Statement true := by
  intro α t ncid inv
  unfold checkId
  by_cases hc : t.num = 0 ∨ ncid < 0 ∨ ncid ≥ t.cap
  · simp only [hc, if_true, true_iff]
    rcases hc with h0 | h1 | h2
    · by_cases hr : ncid < 0 ∨ ncid ≥ t.cap
      · rcases hr with h | h
        · exact Or.inl h
        · exact Or.inr (Or.inl h)
      · right; right
        unfold Consistent at inv
        have hz : countSome t.slots = 0 := by omega
        exact countSome_zero hz _ (by unfold Tab.cap at hr; omega)
    · exact Or.inl h1
    · exact Or.inr (Or.inl h2)
  · simp only [hc, if_false]
    have hr : ncid.toNat < t.slots.length := by unfold Tab.cap at hc; omega
    rw [List.getElem?_eq_getElem hr]
    cases hs : t.slots[ncid.toNat] with
    | none => simp
    | some p =>
      simp only [Option.some.injEq, reduceCtorEq, or_false]
      constructor
      · intro h; cases h
      · intro h; omega

/-! ### no call ever crashes -/

/-- whatever program is run from the initial state, no API call dereferences a NULL object -/
def no_crash_Statement (b : Bool) : Prop :=
  ∀ (α : Type) (N : Nat) (ops : List (Op α)), Outcome.crash ∉ (run b (init α N) ops).2

/-- F1 as a program: create a, create b, close a, inq(a) -/
theorem no_crash_counterexample : ¬ no_crash_Statement false := by
  intro h
  have := h Unit 2 [.create () 0, .create () 0, .close 0 (fun _ => 0), .call 0 (fun p => (p, 0))]
  exact this (by decide)

theorem no_crash_repaired : no_crash_Statement true :=
  fun _ N ops => run_true_no_crash (init _ N) ops

/-- and the unrepaired code is crash-free as long as every id used is an open one (or out of range,
    or no file is open): the extra hypothesis is about the PROGRAM, checked call by call -/
theorem no_crash_partial {α : Type} (t : Tab α) (op : Op α)
    (hyp : ∀ ncid, (∃ f, op = .close ncid f) ∨ (∃ f, op = .call ncid f) →
             t.num = 0 ∨ ncid < 0 ∨ ncid ≥ t.cap ∨ ∃ p, t.slots[ncid.toNat]? = some (some p)) :
    (step false t op).2.1 ≠ Outcome.crash := by
  have key : ∀ ncid : Int, (t.num = 0 ∨ ncid < 0 ∨ ncid ≥ t.cap ∨ ∃ p, t.slots[ncid.toNat]? = some (some p)) →
      checkId false t ncid ≠ (Chk.null : Chk α) := by
    intro ncid hy hn
    have := (check_id_null_iff t ncid).mp hn
    rcases hy with h | h | h | ⟨p, hp⟩
    · exact this.1 h
    · omega
    · omega
    · rw [hp] at this; simp at this
  cases op with
  | create p derr =>
    simp only [step]
    rcases newId t p with ⟨t1, e, id⟩
    simp only
    split
    · simp
    · split <;> simp
  | close ncid f =>
    simp only [step]
    cases hc : checkId false t ncid with
    | badid => simp
    | null => exact absurd hc (key ncid (hyp ncid (Or.inl ⟨f, rfl⟩)))
    | ok p => simp
  | call ncid f =>
    simp only [step]
    cases hc : checkId false t ncid with
    | badid => simp
    | null => exact absurd hc (key ncid (hyp ncid (Or.inr ⟨f, rfl⟩)))
    | ok p => simp

/-! ### id_reuse_lowest_free, max_files -/

/-- new_id_PNCList on a consistent table: NC_ENFILE iff every slot is taken; otherwise the id handed
    out is the LOWEST free slot, that slot now holds the object, the counter went up by one -/
theorem id_reuse_lowest_free {α : Type} (t : Tab α) (inv : Consistent t) (p : α) :
    (free t = 0 ∧ newId t p = (t, NC_ENFILE, -1)) ∨
    (∃ i : Nat, newId t p = (⟨t.slots.set i (some p), t.num + 1⟩, NC_NOERR, (i : Int)) ∧
       t.slots[i]? = some none ∧ (∀ j, j < i → ∃ q, t.slots[j]? = some (some q)) ∧ 0 < free t) :=
  newId_spec inv p

theorem free_after_create {α : Type} {t : Tab α} (inv : Consistent t) (p : α) (hf : 0 < free t) :
    (step false t (.create p 0)).2.1 = .ret NC_NOERR ∧ free (step false t (.create p 0)).1 + 1 = free t ∧
    (step true t (.create p 0)) = (step false t (.create p 0)) := by
  rcases newId_spec inv p with ⟨h0, _⟩ | ⟨i, h, hi, _, _⟩
  · omega
  · have hc := countSome_set_some hi p
    have hle := countSome_le (t.slots.set i (some p))
    refine ⟨by simp [step, h, NC_NOERR], ?_, by simp [step, h]⟩
    simp only [step, h, NC_NOERR, ne_eq, not_true_eq_false, if_false]
    unfold free Tab.cap at hf ⊢
    simp only [List.length_set] at hle ⊢
    omega

/-- as many creates/opens in a row as there are free slots all succeed -/
theorem creates_succeed {α : Type} (b : Bool) (ps : List α) (t : Tab α) (inv : Consistent t) (hf : ps.length ≤ free t) :
    (run b t (ps.map (fun p => Op.create p 0))).2 = List.replicate ps.length (.ret NC_NOERR) ∧
    free (run b t (ps.map (fun p => Op.create p 0))).1 + ps.length = free t := by
  induction ps generalizing t with
  | nil => simp [run]
  | cons p rest ih =>
    simp only [List.map_cons, run, List.length_cons] at hf ⊢
    obtain ⟨h1, h2, h3⟩ := free_after_create inv p (by omega)
    have hs : step b t (.create p 0) = step false t (.create p 0) := by cases b <;> simp [h3]
    have inv' := step_inv false inv (.create p 0)
    rw [hs]
    rcases hst : step false t (.create p 0) with ⟨t', o, id⟩
    rw [hst] at h1 h2 inv'
    simp only at h1 h2 inv'
    subst h1
    simp only
    obtain ⟨i1, i2⟩ := ih t' inv' (by omega)
    exact ⟨by simp [i1, List.replicate_succ], by omega⟩

/-- max_files: from the initial state exactly NC_MAX_NFILES files can be open at once — N creates
    succeed, the next one fails with NC_ENFILE and changes nothing -/
theorem max_files {α : Type} (b : Bool) (N : Nat) (ps : List α) (hl : ps.length = N) (p : α) :
    (run b (init α N) (ps.map (fun p => Op.create p 0))).2 = List.replicate N (.ret NC_NOERR) ∧
    step b (run b (init α N) (ps.map (fun p => Op.create p 0))).1 (.create p 0) =
      ((run b (init α N) (ps.map (fun p => Op.create p 0))).1, .ret NC_ENFILE, -1) := by
  obtain ⟨h1, h2⟩ := creates_succeed b ps (init α N) (init_inv N) (by rw [init_free]; omega)
  refine ⟨by rw [h1, hl], ?_⟩
  have inv := reachable_inv b N (ps.map (fun p => Op.create p 0))
  rw [init_free] at h2
  rcases newId_spec inv p with ⟨_, h⟩ | ⟨i, _, _, _, hpos⟩
  · simp [step, h, NC_ENFILE, NC_NOERR]
  · omega

/-! ### files_independent (frame lemmas), close_frees_slot -/

/-- close / abort / any call on `ncid` leaves every other slot exactly as it was -/
theorem files_independent {α : Type} (b : Bool) (t : Tab α) (ncid : Int) (j : Nat) (hj : j ≠ ncid.toNat) :
    (∀ f, (step b t (.close ncid f)).1.slots[j]? = t.slots[j]?) ∧
    (∀ f, (step b t (.call ncid f)).1.slots[j]? = t.slots[j]?) := by
  constructor <;> intro f <;> simp only [step] <;> cases checkId b t ncid <;>
    simp [del, List.getElem?_set, Ne.symm hj]

/-- create / open (successful or failing) leaves every open file's slot exactly as it was -/
theorem files_independent_create {α : Type} (b : Bool) (t : Tab α) (inv : Consistent t) (p : α) (derr : Int) (j : Nat) (q : α)
    (hq : t.slots[j]? = some (some q)) : (step b t (.create p derr)).1.slots[j]? = some (some q) := by
  rcases newId_spec inv p with ⟨_, h⟩ | ⟨i, h, hi, _, _⟩
  · simp [step, h, NC_ENFILE, NC_NOERR, hq]
  · have hij : i ≠ j := by intro e; subst e; rw [hi] at hq; cases hq
    simp only [step, h, NC_NOERR, ne_eq, not_true_eq_false, if_false]
    split <;> simp [del, List.getElem?_set, hij, hq]

/-- close (or abort) of an open id: the object's own error code is returned, the slot is empty
    afterwards, the counter went down by one, a repaired PNC_check_id rejects the id from now on, and
    the next create reuses an id not larger than it -/
theorem close_frees_slot {α : Type} (b : Bool) (t : Tab α) (inv : Consistent t) (ncid : Int) (p : α)
    (hc : checkId b t ncid = Chk.ok p) (f : α → Int) :
    (step b t (.close ncid f)).2.1 = .ret (f p) ∧
    (step b t (.close ncid f)).1.slots[ncid.toNat]? = some none ∧
    (step b t (.close ncid f)).1.num = t.num - 1 ∧
    checkId true (step b t (.close ncid f)).1 ncid = Chk.badid ∧
    (∀ q, ∃ i : Nat, (newId (step b t (.close ncid f)).1 q).2 = (NC_NOERR, (i : Int)) ∧ i ≤ ncid.toNat) := by
  obtain ⟨h0, hlt, hslot⟩ := checkId_ok hc
  have hlen : ncid.toNat < t.slots.length := hlt
  have inv' : Consistent (del t ncid.toNat) := del_inv inv hslot
  have hnone : (del t ncid.toNat).slots[ncid.toNat]? = some none := by simp [del, hlen]
  refine ⟨by simp [step, hc], by simp [step, hc, hnone], by simp [step, hc, del], ?_, ?_⟩
  · simp only [step, hc]
    have := (check_id_spec_repaired α (del t ncid.toNat) ncid inv').mpr (Or.inr (Or.inr hnone))
    exact this
  · intro q
    simp only [step, hc]
    rcases newId_spec inv' q with ⟨hfull, _⟩ | ⟨i, h, hi, hlow, _⟩
    · exfalso
      have h1 := countSome_set_none hslot
      have h2 := countSome_le t.slots
      unfold free Tab.cap at hfull
      simp only [del, List.length_set] at hfull
      omega
    · refine ⟨i, by rw [h], ?_⟩
      rcases Nat.lt_or_ge ncid.toNat i with hlt' | hge
      · obtain ⟨q', hq'⟩ := hlow _ hlt'
        rw [hnone] at hq'; cases hq'
      · exact hge

/-! ### close_cancels_and_reports (ncmpio_close status assembly) -/

/-- closing with pending nonblocking requests: every request is gone afterwards, and unless an
    earlier step already failed the caller is told NC_EPENDING; NC_NOERR is returned only if nothing
    was pending and nothing failed -/
theorem close_cancels_and_reports (enddefErr indepErr : Int) (nget nput : Nat) (cg cp cf : Int) :
    (closeStatus enddefErr indepErr nget nput cg cp cf).2 = (0, 0) ∧
    ((closeStatus enddefErr indepErr nget nput cg cp cf).1 = NC_NOERR →
        nget = 0 ∧ nput = 0 ∧ enddefErr = NC_NOERR ∧ indepErr = NC_NOERR ∧ cf = NC_NOERR) ∧
    (0 < nget + nput → enddefErr = NC_NOERR → indepErr = NC_NOERR → cg = NC_NOERR → cp = NC_NOERR →
        (closeStatus enddefErr indepErr nget nput cg cp cf).1 = NC_EPENDING) := by
  unfold closeStatus NC_NOERR NC_EPENDING
  refine ⟨rfl, ?_, ?_⟩
  · intro h
    by_cases h1 : enddefErr = 0 <;> by_cases h2 : indepErr = 0 <;> by_cases hg : nget > 0 <;>
      by_cases hp : nput > 0 <;> by_cases h3 : cg = 0 <;> by_cases h4 : cp = 0 <;>
      simp_all <;> omega
  · intro hpos h1 h2 h3 h4
    subst h1 h2 h3 h4
    by_cases hg : nget > 0 <;> by_cases hp : nput > 0 <;> simp [hg, hp] <;> omega

/-! ### non-vacuity: concrete reachable states that meet the hypotheses -/

example : Consistent (run false (init Nat 3) [.create 10 0, .create 11 0, .close 0 (fun _ => 0)]).1 :=
  reachable_inv false 3 _
/-- id 0 is reissued after its close while id 1 stays open -/
example : (run false (init Nat 3) [.create 10 0, .create 11 0, .close 0 (fun _ => 0), .create 12 0]).1.slots
    = [some 12, some 11, none] := by decide
/-- a failing create (driver error) hands its id back -/
example : (step false (init Nat 2) (.create 10 (-35))).1.slots = [none, none] ∧
    (step false (init Nat 2) (.create 10 (-35))).2 = (.ret (-35), -1) := by decide
example : (closeStatus 0 0 0 2 0 0 0).1 = NC_EPENDING := by decide
/-- a table that meets the hypotheses of `check_id_partial` (consistent, probed id open) and one
    that meets those of `check_id_null_iff`'s right-hand side (the F1 situation) -/
example : Consistent (⟨[some 1, none], 1⟩ : Tab Nat) ∧ (∃ p, (⟨[some 1, none], 1⟩ : Tab Nat).slots[(0 : Int).toNat]? = some (some p)) :=
  ⟨by simp [Consistent, countSome], ⟨1, rfl⟩⟩
example : checkId false (⟨[none, some 1], 1⟩ : Tab Nat) 0 = Chk.null := by
  rw [check_id_null_iff]; decide

def obligations : List String := [
  "reachable_inv", "check_id_counterexample", "check_id_null_iff", "check_id_partial", "check_id_spec_repaired",
  "no_crash_counterexample", "no_crash_repaired", "no_crash_partial", "id_reuse_lowest_free", "creates_succeed",
  "max_files", "files_independent", "files_independent_create", "close_frees_slot", "close_cancels_and_reports"
]
end PnVerif.Props.C17
