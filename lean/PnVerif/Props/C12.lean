import PnVerif.Model.BBLog
/-
  C12 — the burst-buffer driver is transparent: the part that is logic (the flush rounds).

  For every log (any mix of valid and cancelled entries, any sizes) and every buffer size at least
  as large as the largest entry:
    * the rounds of the replay pass, concatenated, are exactly the log — every valid entry is
      replayed exactly once, in log order, none is lost or duplicated (`rounds_partition`);
    * the data of each round fits the buffer (`round_fits`);
    * every round makes progress, so the loop terminates within `length` iterations
      (`takeRound_progress`, `rounds_partition` needs no more fuel than the log length);
    * the number of rounds executed equals the `nrounds` the counting pass announced to the other
      processes, so `nrounds_all` never underflows and all processes perform the same number of
      collective waits (`rounds_eq_count`).
-/
namespace PnVerif.Props.C12
open PnVerif.BBLog

theorem takeRound_append (buf : Nat) (es : List Entry) (used : Nat) :
    (takeRound buf es used).1 ++ (takeRound buf es used).2 = es := by
  induction es generalizing used with
  | nil => rfl
  | cons e rest ih =>
    obtain ⟨valid, sz⟩ := e
    simp only [takeRound]
    split
    · split
      · rfl
      · simp [ih]
    · simp [ih]

/-- data of one round never exceeds the buffer -/
theorem takeRound_fits (buf : Nat) (es : List Entry) (used : Nat) (h : used ≤ buf) :
    used + sum (validSizes (takeRound buf es used).1) ≤ buf := by
  induction es generalizing used with
  | nil => simpa [takeRound, validSizes, sum] using h
  | cons e rest ih =>
    obtain ⟨valid, sz⟩ := e
    simp only [takeRound]
    cases valid with
    | true =>
      simp only [↓reduceIte]
      split
      · simpa [validSizes, sum] using h
      · have := ih (used + sz) (by omega)
        simp only [validSizes, List.filter_cons, ↓reduceIte, List.map_cons, sum] at this ⊢
        omega
    | false =>
      have := ih used h
      simpa [validSizes, List.filter_cons] using this

/-- a round starting with an empty buffer consumes at least one entry, provided every valid entry
    fits the buffer (bufsize ≥ maxentrysize) -/
theorem takeRound_progress (buf : Nat) (es : List Entry) (hne : es ≠ [])
    (hfit : ∀ e ∈ es, e.1 = true → e.2 ≤ buf) : (takeRound buf es 0).2.length < es.length := by
  cases es with
  | nil => exact absurd rfl hne
  | cons e rest =>
    obtain ⟨valid, sz⟩ := e
    have hlen : ∀ (l : List Entry) (u : Nat), (takeRound buf l u).2.length ≤ l.length := by
      intro l u
      have := congrArg List.length (takeRound_append buf l u)
      simp only [List.length_append] at this
      omega
    cases valid with
    | true =>
      have hs : sz ≤ buf := hfit (true, sz) List.mem_cons_self rfl
      simp only [takeRound, ↓reduceIte, Nat.add_zero]
      have : ¬ sz > buf := by omega
      simp only [this, ↓reduceIte, List.length_cons]
      have := hlen rest (0 + sz)
      omega
    | false =>
      simp only [takeRound, Bool.false_eq_true, ↓reduceIte, List.length_cons]
      have := hlen rest 0
      omega

/-- **every entry replayed exactly once, in order**: with fuel ≥ length of the log the rounds
    concatenate to the whole log -/
theorem rounds_partition (buf : Nat) (fuel : Nat) (es : List Entry) (hf : es.length ≤ fuel)
    (hfit : ∀ e ∈ es, e.1 = true → e.2 ≤ buf) : (execRounds buf fuel es).flatten = es := by
  induction fuel generalizing es with
  | zero =>
    have : es = [] := List.length_eq_zero_iff.mp (by omega)
    subst this; rfl
  | succ fuel ih =>
    cases hes : es with
    | nil => rfl
    | cons e rest =>
      rw [← hes]
      have hne : es ≠ [] := by rw [hes]; simp
      have hstep : execRounds buf (fuel + 1) es = (takeRound buf es 0).1 :: execRounds buf fuel (takeRound buf es 0).2 := by
        rw [hes]; rfl
      rw [hstep, List.flatten_cons]
      have hprog := takeRound_progress buf es hne hfit
      have happ := takeRound_append buf es 0
      have hsub : ∀ e ∈ (takeRound buf es 0).2, e.1 = true → e.2 ≤ buf := by
        intro e he
        apply hfit
        rw [← happ]
        exact List.mem_append_right _ he
      rw [ih _ (by omega) hsub, happ]

theorem round_fits (buf : Nat) (es : List Entry) :
    sum (validSizes (takeRound buf es 0).1) ≤ buf := by
  have := takeRound_fits buf es 0 (Nat.zero_le _)
  omega

/-- the counting pass and the replay pass use the same arithmetic: the overflows counted from a
    position = (one, for the break that ends the current round, plus the overflows counted from the
    start of the next round), or zero if the round reaches the end of the log -/
theorem count_takeRound (buf : Nat) (es : List Entry) (used : Nat)
    (hfit : ∀ e ∈ es, e.1 = true → e.2 ≤ buf) :
    countOverflows buf es used =
      (match (takeRound buf es used).2 with
       | [] => 0
       | r => 1 + countOverflows buf r 0) := by
  induction es generalizing used with
  | nil => rfl
  | cons e rest ih =>
    obtain ⟨valid, sz⟩ := e
    have hrest : ∀ e ∈ rest, e.1 = true → e.2 ≤ buf := fun e he => hfit e (List.mem_cons_of_mem _ he)
    cases valid with
    | true =>
      have hs : sz ≤ buf := hfit (true, sz) List.mem_cons_self rfl
      simp only [countOverflows, takeRound, ↓reduceIte]
      split
      · -- break here: next round starts with this entry, which fits an empty buffer
        have : ¬ (sz + 0 > buf) := by omega
        simp [countOverflows, this]
        exact hs
      · exact ih (used + sz) hrest
    | false =>
      simp only [countOverflows, takeRound, Bool.false_eq_true, ↓reduceIte]
      exact ih used hrest

/-- **all processes agree on the number of collective waits**: the replay pass executes exactly the
    `nrounds` the counting pass computed (and announced through MPI_Allreduce(MAX)) -/
theorem rounds_eq_count (buf : Nat) (fuel : Nat) (es : List Entry) (hne : es ≠ []) (hf : es.length ≤ fuel)
    (hfit : ∀ e ∈ es, e.1 = true → e.2 ≤ buf) : (execRounds buf fuel es).length = nrounds buf es := by
  induction fuel generalizing es with
  | zero =>
    have : es = [] := List.length_eq_zero_iff.mp (by omega)
    exact absurd this hne
  | succ fuel ih =>
    cases hes : es with
    | nil => exact absurd hes hne
    | cons e rest =>
      rw [← hes]
      have hstep : execRounds buf (fuel + 1) es = (takeRound buf es 0).1 :: execRounds buf fuel (takeRound buf es 0).2 := by
        rw [hes]; rfl
      have hprog := takeRound_progress buf es hne hfit
      have happ := takeRound_append buf es 0
      have hsub : ∀ e ∈ (takeRound buf es 0).2, e.1 = true → e.2 ≤ buf := by
        intro e he
        apply hfit
        rw [← happ]
        exact List.mem_append_right _ he
      have hc := count_takeRound buf es 0 hfit
      rw [hstep, List.length_cons]
      unfold nrounds
      rw [hc]
      cases hr : (takeRound buf es 0).2 with
      | nil =>
        cases fuel <;> simp [execRounds]
      | cons r0 rs =>
        have hrne : (takeRound buf es 0).2 ≠ [] := by rw [hr]; simp
        have hih := ih (takeRound buf es 0).2 hrne (by omega) hsub
        rw [hr] at hih
        rw [hih]
        simp only [nrounds]
        omega

/-- an empty log: no replay round, but `nrounds` = 1: the process still joins one (empty) collective
    wait — this is the `while (nrounds_all--)` tail of the C function -/
theorem empty_log (buf fuel : Nat) : execRounds buf fuel [] = [] ∧ nrounds buf [] = 1 := by
  constructor
  · cases fuel <;> rfl
  · rfl

/-- the valid entries replayed, in order, are exactly the valid entries of the log -/
theorem replayed_exactly_once (buf : Nat) (es : List Entry) (hfit : ∀ e ∈ es, e.1 = true → e.2 ≤ buf) :
    ((execRounds buf es.length es).flatten).filter (·.1) = es.filter (·.1) := by
  rw [rounds_partition buf es.length es (Nat.le_refl _) hfit]

/-- non-vacuity: buffer 10, a cancelled entry in the middle, three rounds -/
example : execRounds 10 5 [(true, 6), (true, 4), (false, 100), (true, 7), (true, 9)]
    = [[(true, 6), (true, 4), (false, 100)], [(true, 7)], [(true, 9)]] := by decide
example : nrounds 10 [(true, 6), (true, 4), (false, 100), (true, 7), (true, 9)] = 3 := by decide

def obligations : List String := [
  "takeRound_append", "takeRound_fits", "takeRound_progress", "rounds_partition", "round_fits",
  "count_takeRound", "rounds_eq_count", "empty_log", "replayed_exactly_once"
]
end PnVerif.Props.C12
