import PnVerif.Lemmas.ToolsSound
import PnVerif.Lemmas.Accept
import PnVerif.Props.C04
/-
  C20 — offline utilities agree with the library and the format.
  Models: Model/Tools.lean (ncvalidator, cdfdiff, ncmpidiff); independent decoder: Spec/SpecDecode.lean.
-/
namespace PnVerif.Props.C20
open PnVerif.Spec PnVerif.Header PnVerif.Tools

/-! ### validate_sound: full statement, refuted (finding: truncated header accepted) -/

/-- Full-strength statement: whatever the validator accepts, the independent decoder accepts. -/
def validate_sound_Statement : Prop :=
  ∀ b : Bytes, validate b = true → specDecode b ≠ none

/-- "CDF\x01" + numrecs and nothing else: 8 bytes, the rest of the header is missing.  val_fetch
    zero-fills its window, so the validator reads three ABSENT lists and reports a valid file. -/
def truncatedFile : Bytes := [0x43, 0x44, 0x46, 1, 0, 0, 0, 0]

theorem validate_sound_counterexample : ¬ validate_sound_Statement := by
  intro hS
  have h1 : validate truncatedFile = true := by decide
  have h2 : specDecode truncatedFile = none := by decide
  exact hS _ h1 h2

theorem namesNoNul_of_encodable (d : Schema) (he : Encodable d) : NamesNoNul d :=
  ⟨fun x hx => (he.dims x hx).nul, fun a ha => (he.gatts a ha).nul,
   fun v hv => ⟨(he.vars v hv).nul, fun a ha => ((he.vars v hv).atts a ha).nul⟩⟩

/-- `validate_sound_partial`: with exactly the three extra hypotheses the findings C20-F3/F4/F5 call for — the
    file is at least as long as the header that was read (no zero extension), the fields of that header fit
    their widths and names hold no NUL (`Encodable`: no sign bit in a NON_NEG / OFFSET field), every empty list
    is written as ABSENT (flag `tag`) — whatever ncvalidator accepts (null padding: flag `pad`) is accepted by
    the independent BNF decoder, which returns the very header the validator read. -/
theorem validate_sound_partial (b : Bytes) (h : Hdr) (info : Info) (hg : vGetNC b = .ok (h, info, VFlags.ok))
    (he : Encodable h) (hl : Hdr.len h ≤ b.length) : specDecode b = some h := by
  obtain ⟨rest, rfl⟩ := vGetNC_canonical b h info hg (namesNoNul_of_encodable h he) hl
  exact PnVerif.Props.C04.specDecode_encode h rest he

/-- the strictness behind it: an accepted file begins with exactly the bytes the library's writer produces for
    the header the validator read — magic, every tag and count, every padding byte (all null), every field. -/
theorem validate_canonical (b : Bytes) (h : Hdr) (info : Info) (hg : vGetNC b = .ok (h, info, VFlags.ok))
    (h0 : NamesNoNul h) (hl : Hdr.len h ≤ b.length) : ∃ rest, b = encodeRaw h ++ rest :=
  vGetNC_canonical b h info hg h0 hl

/-- a file without the classic magic (or shorter than 8 bytes) is rejected -/
theorem validate_magic (b : Bytes) (hv : validate b = true) :
    ∃ f : Fmt, b = magicBytes f ++ b.drop 4 ∧ 8 ≤ b.length := by
  unfold validate vGetNC at hv
  cases hm : vMagic b with
  | error e => rw [hm] at hv; cases hv
  | ok f => exact ⟨f, vMagic_inv hm⟩

/-! ### validate_accepts_encoded -/

/-- `validate_accepts_encoded`: ncvalidator accepts (exit status 0) every file that begins with the bytes the
    library's writer produces for a header `d` — any dimensions, attributes (any type, length 0 included),
    variables, any data after it — provided the fields fit their widths (`Encodable`), the counts are within the
    library's own limits with at most one record dimension and dimension ids in range (`VLimits`), and the
    library's own reader accepts the layout (`postPass`: shapes, sizes, begins in order without overlap).  It reads
    back exactly `d` and derives exactly the library's layout `info`. -/
theorem validate_accepts_encoded (d : Schema) (data : Bytes) (info : Info) (he : Encodable d) (hl : VLimits d)
    (hp : postPass d = .ok info) :
    validate (encodeRaw d ++ data) = true ∧ vGetNC (encodeRaw d ++ data) = .ok (d, info, VFlags.ok) := by
  have h := vGetNC_put d data info he hl hp
  refine ⟨?_, h⟩
  unfold validate
  rw [h]
  rfl

/-- the same for every layout the format specification allows (`Spec.LayoutValid`: valid dimension references,
    record dimension first only, variables after the header in definition order without overlap, gaps anywhere) -/
theorem validate_accepts_layoutValid (d : Schema) (data : Bytes) (he : Encodable d) (hl : VLimits d)
    (hv : d.LayoutValid (Hdr.len d)) : validate (encodeRaw d ++ data) = true := by
  obtain ⟨info, hp⟩ := postPass_ok d hv
  exact (validate_accepts_encoded d data info he hl hp).1

/-! non-vacuity: the CDF-1 header of C04 (gap before the first variable, stale and saturated vsize, zero-length
    attribute, record variable) meets every hypothesis -/
example : VLimits PnVerif.Props.C04.exampleHdr := by
  constructor <;> simp [PnVerif.Props.C04.exampleHdr, NC_MAX_DIMS, NC_MAX_ATTRS, NC_MAX_VARS, NC_MAX_INT, NC_MAX_VAR_DIMS, vsizeLim]

set_option maxRecDepth 100000 in
example : validate (encodeRaw PnVerif.Props.C04.exampleHdr ++ [1, 2, 3]) = true := by rfl

set_option maxRecDepth 100000 in
example : ∃ info, vGetNC (encodeRaw PnVerif.Props.C04.exampleHdr) = .ok (PnVerif.Props.C04.exampleHdr, info, VFlags.ok) ∧
    Hdr.len PnVerif.Props.C04.exampleHdr ≤ (encodeRaw PnVerif.Props.C04.exampleHdr).length :=
  ⟨{ xsz := 168, beginVar := 400, beginRec := 512, recsize := 3, numRecVars := 1, shapes := [[3], [0, 3]], lens := [12, 4] },
   by rfl, by decide⟩

def obligations : List String := [
  "validate_accepts_encoded", "validate_accepts_layoutValid", "validate_sound_counterexample", "validate_sound_partial",
  "validate_canonical", "validate_magic"
]
end PnVerif.Props.C20
