import PnVerif.Lemmas.ToolsSound
import PnVerif.Lemmas.ToolsRepaired
import PnVerif.Lemmas.ToolsDiff
import PnVerif.Lemmas.ToolsPartition
import PnVerif.Lemmas.ToolsChunk
import PnVerif.Lemmas.Accept
import PnVerif.Props.C04
/-
  C20 — offline utilities agree with the library and the format.
  Models: Model/Tools.lean (ncvalidator, cdfdiff, ncmpidiff); independent decoder: Spec/SpecDecode.lean.
-/
namespace PnVerif.Props.C20
open PnVerif.Spec PnVerif.Header PnVerif.Tools

/-! ### validate_sound: full statement, refuted (finding: truncated header accepted) -/

/-- Full-strength statement: whatever the validator accepts, the independent decoder accepts. -/
def validate_sound_Statement (c : VCfg) : Prop :=
  ∀ b : Bytes, validate c b = true → specDecode b ≠ none

/-- "CDF\x01" + numrecs and nothing else: 8 bytes, the rest of the header is missing.  val_fetch
    zero-fills its window, so the validator reads three ABSENT lists and reports a valid file. -/
def truncatedFile : Bytes := [0x43, 0x44, 0x46, 1, 0, 0, 0, 0]

theorem validate_sound_counterexample : ¬ validate_sound_Statement VCfg.asIs := by
  intro hS
  have h1 : validate VCfg.asIs truncatedFile = true := by decide
  have h2 : specDecode truncatedFile = none := by decide
  exact hS _ h1 h2

theorem namesNoNul_of_encodable (d : Schema) (he : Encodable d) : NamesNoNul d :=
  ⟨fun x hx => (he.dims x hx).nul, fun a ha => (he.gatts a ha).nul,
   fun v hv => ⟨(he.vars v hv).nul, fun a ha => ((he.vars v hv).atts a ha).nul⟩⟩

/-- `validate_sound_partial`: with exactly the three extra hypotheses the findings C20-F3/F4/F5 call for — the
    file is at least as long as the header that was read (no zero extension), the fields of that header fit
    their widths and names hold no NUL (`Encodable`: no sign bit in a NON_NEG / OFFSET field), every empty list
    is written as ABSENT (flag `tag`) — whatever ncvalidator accepts (null padding: flag `pad`) is accepted by
    the independent BNF decoder, which returns the very header the validator read. -/
theorem validate_sound_partial (c : VCfg) (b : Bytes) (h : Hdr) (info : Info) (hg : vGetNC c b = .ok (h, info, VFlags.ok))
    (he : Encodable h) (hl : Hdr.len h ≤ b.length) : specDecode b = some h := by
  obtain ⟨rest, rfl⟩ := vGetNC_canonical c b h info hg (namesNoNul_of_encodable h he) hl
  exact PnVerif.Props.C04.specDecode_encode h rest he

/-- the strictness behind it: an accepted file begins with exactly the bytes the library's writer produces for
    the header the validator read — magic, every tag and count, every padding byte (all null), every field. -/
theorem validate_canonical (c : VCfg) (b : Bytes) (h : Hdr) (info : Info) (hg : vGetNC c b = .ok (h, info, VFlags.ok))
    (h0 : NamesNoNul h) (hl : Hdr.len h ≤ b.length) : ∃ rest, b = encodeRaw h ++ rest :=
  vGetNC_canonical c b h info hg h0 hl

/-! ### the repaired validator (findings C20-F3, F4, F6 repaired: flags strictLen, strictSign, dimid64) -/

/-- what `validate` returning true means -/
theorem validate_true (c : VCfg) (b : Bytes) (hv : validate c b = true) :
    ∃ h info fl, vGetNC c b = .ok (h, info, fl) ∧ fl.pad = true ∧ (c.strictLen = true → Hdr.len h ≤ b.length) := by
  unfold validate at hv
  cases hg : vGetNC c b with
  | error e => rw [hg] at hv; cases hv
  | ok r =>
    obtain ⟨h, info, fl⟩ := r
    rw [hg] at hv
    simp only [] at hv
    by_cases hc : c.strictLen = true ∧ b.length < h.len
    · rw [if_pos hc] at hv; cases hv
    · rw [if_neg hc] at hv
      exact ⟨h, info, fl, rfl, hv, fun hs => by
        by_cases hlt : b.length < h.len
        · exact absurd ⟨hs, hlt⟩ hc
        · omega⟩

/-- `validate_sound_repaired`: with the three repairs in place the hypotheses "the file is long enough" and
    "no field has its sign bit set" of `validate_sound_partial` are gone — they are what the repaired code tests.
    What is left: names without NUL byte (the validator does not look inside names), numrecs is a NON_NEG (the
    specification also allows the STREAMING value, which the independent decoder does not accept), and every
    empty list written as ABSENT (ghost flag `tag`; see `repaired_array_tag` for what F5's repair guarantees). -/
theorem validate_sound_repaired (c : VCfg) (hl : c.strictLen = true) (hs : c.strictSign = true) (hd : c.dimid64 = true)
    (b : Bytes) (h : Hdr) (info : Info) (fl : VFlags) (hg : vGetNC c b = .ok (h, info, fl)) (hv : validate c b = true)
    (ht : fl.tag = true) (h0 : NamesNoNul h) (hnr : h.numrecs < nnLim h.fmt) : specDecode b = some h := by
  obtain ⟨h', info', fl', hg', hp, hlen⟩ := validate_true c b hv
  rw [hg] at hg'
  simp only [Except.ok.injEq, Prod.mk.injEq] at hg'
  obtain ⟨rfl, rfl, rfl⟩ := hg'
  have hfl : fl = VFlags.ok := by cases fl; simp only [] at hp ht; subst hp ht; rfl
  subst hfl
  -- the header is Encodable: from the reader's own tests
  have he : Encodable h := by
    unfold vGetNC at hg
    cases hm : vMagic b with
    | error e => rw [hm] at hg; cases hg
    | ok f =>
      rw [hm] at hg
      simp only [] at hg
      cases hb : vBody c f (b.drop 4) with
      | error e => rw [hb] at hg; cases hg
      | ok r =>
        obtain ⟨⟨h', fl'⟩, s'⟩ := r
        rw [hb] at hg
        simp only [] at hg
        cases hpp : vPostPass h' with
        | error e => rw [hpp] at hg; cases hg
        | ok i =>
          rw [hpp] at hg
          simp only [Except.ok.injEq, Prod.mk.injEq] at hg
          obtain ⟨rfl, _, _⟩ := hg
          exact encodable_of_vBody c hs hd f hb h0 hnr
  exact validate_sound_partial c b h info hg he (hlen hl)

/-- F5 repaired: every list an accepting run has read starts with ABSENT or with the list's own tag -/
theorem repaired_array_tag {α : Type} (c : VCfg) (ht : c.strictTag = true) (ver tag maxN : Nat) (errMax : VErr)
    (items : Nat → VP (List α × VFlags)) (s s' : Bytes) (xs : List α) (fl : VFlags)
    (h : vArray c ver tag maxN errMax items s = .ok ((xs, fl), s')) :
    ∃ t s1, vTag s = .ok (t, s1) ∧ (t = 0 ∨ t = tag) :=
  vArray_strictTag c ht ver tag maxN errMax items h

/-- the witnesses of F3..F6 are rejected by the repaired variant and accepted by the pinned one -/
example : validate VCfg.repaired truncatedFile = false ∧ validate VCfg.asIs truncatedFile = true := by decide
example : validate VCfg.repaired ([0x43, 0x44, 0x46, 1, 0x80, 0, 0, 0] ++ List.replicate 24 0) = false ∧
    validate VCfg.asIs ([0x43, 0x44, 0x46, 1, 0x80, 0, 0, 0] ++ List.replicate 24 0) = true := by decide
example : validate VCfg.repaired ([0x43, 0x44, 0x46, 1, 0, 0, 0, 0, 0, 0, 0, 11, 0, 0, 0, 0] ++ List.replicate 16 0) = false ∧
    validate VCfg.asIs ([0x43, 0x44, 0x46, 1, 0, 0, 0, 0, 0, 0, 0, 11, 0, 0, 0, 0] ++ List.replicate 16 0) = true := by decide
/-- the STREAMING value of numrecs stays accepted -/
example : validate VCfg.repaired ([0x43, 0x44, 0x46, 1, 0xff, 0xff, 0xff, 0xff] ++ List.replicate 24 0) = true := by decide

/-- a file without the classic magic (or shorter than 8 bytes) is rejected -/
theorem validate_magic (c : VCfg) (b : Bytes) (hv : validate c b = true) :
    ∃ f : Fmt, b = magicBytes f ++ b.drop 4 ∧ 8 ≤ b.length := by
  unfold validate vGetNC at hv
  cases hm : vMagic b with
  | error e => rw [hm] at hv; cases hv
  | ok f => exact ⟨f, vMagic_inv hm⟩

/-! ### validate_accepts_encoded -/

/-- `validate_accepts_encoded`: ncvalidator accepts (exit status 0) every file that begins with the bytes the
    library's writer produces for a header `d` — any dimensions, attributes (any type, length 0 included),
    variables, any data after it — provided the fields fit their widths (`Encodable`), the counts are within the
    library's own limits with at most one record dimension and dimension ids in range (`VLimits`), and the
    library's own reader accepts the layout (`postPass`: shapes, sizes, begins in order without overlap).  It reads
    back exactly `d` and derives exactly the library's layout `info`. -/
theorem validate_accepts_encoded (c : VCfg) (d : Schema) (data : Bytes) (info : Info) (he : Encodable d) (hl : VLimits d)
    (hp : postPass d = .ok info) :
    validate c (encodeRaw d ++ data) = true ∧ vGetNC c (encodeRaw d ++ data) = .ok (d, info, VFlags.ok) := by
  have h := vGetNC_put c d data info he hl hp
  refine ⟨?_, h⟩
  unfold validate
  rw [h]
  simp only []
  have hlen : ¬ (c.strictLen = true ∧ (encodeRaw d ++ data).length < Hdr.len d) := by
    intro ⟨_, hlt⟩
    have := PnVerif.Props.C04.encode_length d (namesNoNul_of_encodable d he)
    rw [List.length_append, this] at hlt
    omega
  rw [if_neg hlen]
  rfl

/-- the same for every layout the format specification allows (`Spec.LayoutValid`: valid dimension references,
    record dimension first only, variables after the header in definition order without overlap, gaps anywhere) -/
theorem validate_accepts_layoutValid (c : VCfg) (d : Schema) (data : Bytes) (he : Encodable d) (hl : VLimits d)
    (hv : d.LayoutValid (Hdr.len d)) : validate c (encodeRaw d ++ data) = true := by
  obtain ⟨info, hp⟩ := postPass_ok d hv
  exact (validate_accepts_encoded c d data info he hl hp).1

/-! non-vacuity: the CDF-1 header of C04 (gap before the first variable, stale and saturated vsize, zero-length
    attribute, record variable) meets every hypothesis -/
example : VLimits PnVerif.Props.C04.exampleHdr := by
  constructor <;> simp [PnVerif.Props.C04.exampleHdr, NC_MAX_DIMS, NC_MAX_ATTRS, NC_MAX_VARS, NC_MAX_INT, NC_MAX_VAR_DIMS, vsizeLim]

set_option maxRecDepth 100000 in
example : validate VCfg.asIs (encodeRaw PnVerif.Props.C04.exampleHdr ++ [1, 2, 3]) = true ∧
    validate VCfg.repaired (encodeRaw PnVerif.Props.C04.exampleHdr ++ [1, 2, 3]) = true := ⟨by rfl, by rfl⟩

set_option maxRecDepth 100000 in
example : ∃ info, vGetNC VCfg.repaired (encodeRaw PnVerif.Props.C04.exampleHdr) = .ok (PnVerif.Props.C04.exampleHdr, info, VFlags.ok) ∧
    Hdr.len PnVerif.Props.C04.exampleHdr ≤ (encodeRaw PnVerif.Props.C04.exampleHdr).length :=
  ⟨{ xsz := 168, beginVar := 400, beginRec := 512, recsize := 3, numRecVars := 1, shapes := [[3], [0, 3]], lens := [12, 4] },
   by rfl, by decide⟩

/-! ## cdfdiff / ncmpidiff

  `toolDiff cfg a b` is the transcription of the comparison loops of cdfdiff.c (`cdfdiffCfg`) and ncmpidiff.c
  (`ncmpidiffCfg`) on the view `absFile` both tools have of a file (nothing of the layout is left in it: values
  are read at each file's own offsets).  `LogicalEq` is the specification: same format version and same names,
  types, shapes, attributes and values, whatever the definition order. -/

/-- `diff_refl`: a file never differs from itself (either tool) -/
theorem diff_refl (cfg : DiffCfg) (a : LFile) (wa : LWF a) : toolDiff cfg a a = .counts 0 0 :=
  toolDiff_of_logicalEq cfg a a wa wa (LogicalEq.refl a)

/-- "no difference reported" is complete: files with the same format and the same logical content are never
    reported different, by either tool, whatever their layouts and definition orders (no hypothesis on types,
    record counts or the tool) -/
theorem diff_complete (cfg : DiffCfg) (a b : LFile) (wa : LWF a) (wb : LWF b) (E : LogicalEq a b) :
    (toolDiff cfg a b).same = true :=
  (same_iff _).mpr (toolDiff_of_logicalEq cfg a b wa wb E)

/-- Full-strength statement of `diff_iff_logical_eq` for a tool: no difference is reported EXACTLY when the two
    files have the same format and the same logical content. -/
def diff_iff_logical_eq_Statement (cfg : DiffCfg) : Prop :=
  ∀ a b : LFile, LWF a → LWF b → ((toolDiff cfg a b).same = true ↔ LogicalEq a b)

/-- witness of finding C20-F1: B = A plus one more record -/
def recA : LFile :=
  { fmt := .cdf1, numrecs := 2, dims := [⟨[0x74], 0⟩, ⟨[0x78], 3⟩], gatts := [⟨[0x67], .char, 2, [104, 105]⟩],
    vars := [{ name := [0x76], xtype := .byte, dims := [⟨[0x74], 0⟩, ⟨[0x78], 3⟩], isRec := true, atts := [],
               data := fun r => if r < 2 then [UInt8.ofNat r, 7, 7] else [] }] }
def recB : LFile :=
  { fmt := .cdf1, numrecs := 3, dims := [⟨[0x74], 0⟩, ⟨[0x78], 3⟩], gatts := [⟨[0x67], .char, 2, [104, 105]⟩],
    vars := [{ name := [0x76], xtype := .byte, dims := [⟨[0x74], 0⟩, ⟨[0x78], 3⟩], isRec := true, atts := [],
               data := fun r => if r < 3 then [UInt8.ofNat r, 7, 7] else [] }] }
/-- witness of finding C20-F2: one value of an NC_BYTE variable changed -/
def recC : LFile :=
  { fmt := .cdf1, numrecs := 2, dims := [⟨[0x74], 0⟩, ⟨[0x78], 3⟩], gatts := [⟨[0x67], .char, 2, [104, 105]⟩],
    vars := [{ name := [0x76], xtype := .byte, dims := [⟨[0x74], 0⟩, ⟨[0x78], 3⟩], isRec := true, atts := [],
               data := fun r => if r < 2 then [UInt8.ofNat r, 9, 7] else [] }] }

theorem recA_wf : LWF recA := by
  refine ⟨by unfold UniqueNames; decide, ⟨by unfold UniqueNames; decide, by decide⟩, by unfold UniqueNames; decide, ?_⟩
  intro v hv
  simp only [recA, List.mem_singleton] at hv
  subst hv
  exact ⟨by unfold UniqueNames; decide, by decide⟩
theorem recB_wf : LWF recB := by
  refine ⟨by unfold UniqueNames; decide, ⟨by unfold UniqueNames; decide, by decide⟩, by unfold UniqueNames; decide, ?_⟩
  intro v hv
  simp only [recB, List.mem_singleton] at hv
  subst hv
  exact ⟨by unfold UniqueNames; decide, by decide⟩
theorem recC_wf : LWF recC := by
  refine ⟨by unfold UniqueNames; decide, ⟨by unfold UniqueNames; decide, by decide⟩, by unfold UniqueNames; decide, ?_⟩
  intro v hv
  simp only [recC, List.mem_singleton] at hv
  subst hv
  exact ⟨by unfold UniqueNames; decide, by decide⟩

/-- cdfdiff: refuted (it runs over the first file's record count only and never compares numrecs) -/
theorem diff_iff_logical_eq_counterexample_cdfdiff : ¬ diff_iff_logical_eq_Statement cdfdiffCfg := by
  intro hS
  have h1 : (toolDiff cdfdiffCfg recA recB).same = true := by decide
  have := ((hS recA recB recA_wf recB_wf).mp h1).numrecs
  exact absurd this (by decide)

/-- ncmpidiff: refuted (no `case NC_BYTE`) -/
theorem diff_iff_logical_eq_counterexample_ncmpidiff : ¬ diff_iff_logical_eq_Statement ncmpidiffCfg := by
  intro hS
  have h1 : (toolDiff ncmpidiffCfg recA recC).same = true := by decide
  have E := (hS recA recC recA_wf recC_wf).mp h1
  have := (E.vars [0x76] _ _ rfl rfl).data 0 (by decide)
  exact absurd this (by decide)

/-- `diff_iff_logical_eq_partial`: with exactly the hypotheses the two findings call for — equal record counts,
    nothing of a type the tool skips in the first file, the tool's view of dimension lengths faithful — no
    difference is reported exactly when the files have the same format and the same logical content.  All
    definition orders, all layouts, all types and shapes, any number of dimensions/attributes/variables. -/
theorem diff_iff_logical_eq_partial (cfg : DiffCfg) (a b : LFile) (wa : LWF a) (wb : LWF b) (nb : NoByte cfg a)
    (ag : LenAgree cfg a b) (hn : cfg.cmpNumrecs = true ∨ a.numrecs = b.numrecs) :
    (toolDiff cfg a b).same = true ↔ LogicalEq a b :=
  ⟨fun h => logicalEq_of_toolDiff cfg a b wa wb nb ag hn ((same_iff _).mp h), fun E => diff_complete cfg a b wa wb E⟩

/-- for cdfdiff the only hypothesis left is the record count -/
theorem cdfdiff_iff_logical_eq (a b : LFile) (wa : LWF a) (wb : LWF b) (hn : a.numrecs = b.numrecs) :
    (toolDiff cdfdiffCfg a b).same = true ↔ LogicalEq a b :=
  diff_iff_logical_eq_partial cdfdiffCfg a b wa wb
    ⟨fun h => absurd h (by decide), fun _ _ => ⟨fun h => absurd h (by decide), fun h => absurd h (by decide)⟩⟩
    (lenAgree_of_stored _ a b rfl) (Or.inr hn)

/-- cdfdiff with the repair of C20-F1 (numrecs compared): no hypothesis left — it reports no difference exactly
    when the two files have the same format and the same logical content -/
theorem cdfdiff_repaired_iff_logical_eq (a b : LFile) (wa : LWF a) (wb : LWF b) :
    (toolDiff cdfdiffRepaired a b).same = true ↔ LogicalEq a b :=
  diff_iff_logical_eq_partial cdfdiffRepaired a b wa wb
    ⟨fun h => absurd h (by decide), fun _ _ => ⟨fun h => absurd h (by decide), fun h => absurd h (by decide)⟩⟩
    (lenAgree_of_stored _ a b rfl) (Or.inl rfl)

/-- ncmpidiff with the repair of C20-F2 (`case NC_BYTE` present): the hypothesis on NC_BYTE is gone -/
theorem ncmpidiff_repaired_iff_logical_eq (a b : LFile) (wa : LWF a) (wb : LWF b) (ag : LenAgree ncmpidiffRepaired a b)
    (hn : a.numrecs = b.numrecs) : (toolDiff ncmpidiffRepaired a b).same = true ↔ LogicalEq a b :=
  diff_iff_logical_eq_partial ncmpidiffRepaired a b wa wb
    ⟨fun h => absurd h (by decide), fun _ _ => ⟨fun h => absurd h (by decide), fun h => absurd h (by decide)⟩⟩ ag (Or.inr hn)

/-- the two witnesses are reported by the repaired tools -/
example : (toolDiff cdfdiffRepaired recA recB).same = false ∧ (toolDiff cdfdiffRepaired recB recA).same = false ∧
    (toolDiff ncmpidiffRepaired recA recC).same = false := by decide

/-- Full-strength statement of `diff_symm` -/
def diff_symm_Statement (cfg : DiffCfg) : Prop :=
  ∀ a b : LFile, LWF a → LWF b → (toolDiff cfg a b).same = (toolDiff cfg b a).same

/-- cdfdiff A B reports nothing, cdfdiff B A reports a read-size difference -/
theorem diff_symm_counterexample_cdfdiff : ¬ diff_symm_Statement cdfdiffCfg := by
  intro hS
  have := hS recA recB recA_wf recB_wf
  exact absurd this (by decide)

/-- `diff_symm_partial` -/
theorem diff_symm_partial (cfg : DiffCfg) (a b : LFile) (wa : LWF a) (wb : LWF b) (ra : RecByDims a) (rb : RecByDims b)
    (na : NoByte cfg a) (nb : NoByte cfg b) (ag : LenAgree cfg a b) (ag' : LenAgree cfg b a)
    (hn : cfg.cmpNumrecs = true ∨ a.numrecs = b.numrecs) :
    (toolDiff cfg a b).same = (toolDiff cfg b a).same := by
  have h1 := diff_iff_logical_eq_partial cfg a b wa wb na ag hn
  have h2 := diff_iff_logical_eq_partial cfg b a wb wa nb ag' (hn.imp id Eq.symm)
  cases hx : (toolDiff cfg a b).same <;> cases hy : (toolDiff cfg b a).same
  · rfl
  · exact absurd (h1.mpr (LogicalEq.symm rb ra (h2.mp hy))) (by rw [hx]; simp)
  · exact absurd (h2.mpr (LogicalEq.symm ra rb (h1.mp hx))) (by rw [hy]; simp)
  · rfl

/-- `diff_layout_invariant`: replacing the second file by any file with the same format and logical content —
    other begins, alignment, header free space, definition order — does not change whether a difference is
    reported. -/
theorem diff_layout_invariant (cfg : DiffCfg) (a b b' : LFile) (wa : LWF a) (wb : LWF b) (wb' : LWF b')
    (ra : RecByDims a) (rb : RecByDims b) (rb' : RecByDims b') (nb : NoByte cfg a) (ag : LenAgree cfg a b)
    (ag' : LenAgree cfg a b')
    (hn : cfg.cmpNumrecs = true ∨ a.numrecs = b.numrecs) (E : LogicalEq b b') :
    (toolDiff cfg a b).same = (toolDiff cfg a b').same := by
  have h1 := diff_iff_logical_eq_partial cfg a b wa wb nb ag hn
  have h2 := diff_iff_logical_eq_partial cfg a b' wa wb' nb ag' (hn.imp id (fun x => x.trans E.numrecs))
  cases hx : (toolDiff cfg a b).same <;> cases hy : (toolDiff cfg a b').same
  · rfl
  · exact absurd (h1.mpr (LogicalEq.trans rb' ra (h2.mp hy) (LogicalEq.symm rb rb' E))) (by rw [hx]; simp)
  · exact absurd (h2.mpr (LogicalEq.trans rb ra (h1.mp hx) E)) (by rw [hy]; simp)
  · rfl

/-- concrete layout change, full strength (the whole output, not only "same"): moving the data section of the
    second file by any number of bytes — more header free space (h_minfree), another alignment of the first
    variable — and adjusting every `begin` changes nothing in what either tool computes.  (`vsize` fields and
    the bytes between header and data are never looked at by `absFile` at all.) -/
theorem diff_layout_invariant_shift (cfg : DiffCfg) (a : LFile) (h : Hdr) (recsize : Nat) (pre gap rest : Bytes)
    (hb : ∀ v ∈ h.vars, pre.length ≤ v.begin) :
    toolDiff cfg a (absFile (shiftBegins gap.length h) recsize (pre ++ gap ++ rest)) =
      toolDiff cfg a (absFile h recsize (pre ++ rest)) := by
  rw [absFile_shift h recsize pre gap rest hb]

/-! ### `diff_detects_single_edit`: one value, one attribute, one name, one dimension length -/

theorem not_same_of_not_logicalEq (cfg : DiffCfg) (a b : LFile) (wa : LWF a) (wb : LWF b) (nb : NoByte cfg a)
    (ag : LenAgree cfg a b) (hn : cfg.cmpNumrecs = true ∨ a.numrecs = b.numrecs) (hne : ¬ LogicalEq a b) : (toolDiff cfg a b).same = false := by
  cases hs : (toolDiff cfg a b).same with
  | false => rfl
  | true => exact absurd ((diff_iff_logical_eq_partial cfg a b wa wb nb ag hn).mp hs) hne

/-- one value of one variable differs (any type the tool compares, any record that exists) -/
theorem diff_detects_value_edit (cfg : DiffCfg) (a b : LFile) (wa : LWF a) (wb : LWF b) (nb : NoByte cfg a)
    (ag : LenAgree cfg a b) (hn : cfg.cmpNumrecs = true ∨ a.numrecs = b.numrecs) (nm : Bytes) (v w : LVar) (r : Nat)
    (hv : findVar a.vars nm = some v) (hw : findVar b.vars nm = some w)
    (hr : r < (if v.isRec then a.numrecs else 1)) (hd : v.data r ≠ w.data r) : (toolDiff cfg a b).same = false :=
  not_same_of_not_logicalEq cfg a b wa wb nb ag hn (fun E => hd ((E.vars nm v w hv hw).data r hr))

/-- one attribute differs (global, or of a variable present in both files): type, length or any value -/
theorem diff_detects_attribute_edit (cfg : DiffCfg) (a b : LFile) (wa : LWF a) (wb : LWF b) (nb : NoByte cfg a)
    (ag : LenAgree cfg a b) (hn : cfg.cmpNumrecs = true ∨ a.numrecs = b.numrecs) (an : Bytes)
    (hd : findAtt a.gatts an ≠ findAtt b.gatts an ∨
          ∃ nm v w, findVar a.vars nm = some v ∧ findVar b.vars nm = some w ∧ findAtt v.atts an ≠ findAtt w.atts an) :
    (toolDiff cfg a b).same = false :=
  not_same_of_not_logicalEq cfg a b wa wb nb ag hn (fun E => by
    rcases hd with hd | ⟨nm, v, w, hv, hw, hd⟩
    · exact hd (E.gatts an)
    · exact hd ((E.vars nm v w hv hw).atts an))

/-- one name differs: a variable, dimension or global attribute of one file has no namesake in the other -/
theorem diff_detects_name_edit (cfg : DiffCfg) (a b : LFile) (wa : LWF a) (wb : LWF b) (nb : NoByte cfg a)
    (ag : LenAgree cfg a b) (hn : cfg.cmpNumrecs = true ∨ a.numrecs = b.numrecs) (nm : Bytes)
    (hd : (findVar a.vars nm).isSome ≠ (findVar b.vars nm).isSome ∨ (findDim a.dims nm).isSome ≠ (findDim b.dims nm).isSome ∨
          (findAtt a.gatts nm).isSome ≠ (findAtt b.gatts nm).isSome) :
    (toolDiff cfg a b).same = false :=
  not_same_of_not_logicalEq cfg a b wa wb nb ag hn (fun E => by
    rcases hd with hd | hd | hd
    · exact hd (E.varsDef nm)
    · exact hd (by rw [E.dims nm])
    · exact hd (by rw [E.gatts nm]))

/-- one dimension length differs -/
theorem diff_detects_dimlen_edit (cfg : DiffCfg) (a b : LFile) (wa : LWF a) (wb : LWF b) (nb : NoByte cfg a)
    (ag : LenAgree cfg a b) (hn : cfg.cmpNumrecs = true ∨ a.numrecs = b.numrecs) (nm : Bytes) (d e : Dim)
    (hd : findDim a.dims nm = some d) (he : findDim b.dims nm = some e) (hs : d.size ≠ e.size) :
    (toolDiff cfg a b).same = false :=
  not_same_of_not_logicalEq cfg a b wa wb nb ag hn (fun E => by
    have := E.dims nm
    rw [hd, he] at this
    cases this
    exact hs rfl)

/-! non-vacuity of the hypotheses of the partial theorems: recA / recC (one byte value differs) under cdfdiff -/
example : NoByte cdfdiffCfg recA ∧ LenAgree cdfdiffCfg recA recC ∧ recA.numrecs = recC.numrecs ∧
    (toolDiff cdfdiffCfg recA recC).same = false ∧ (toolDiff cdfdiffCfg recA recA).same = true :=
  ⟨⟨fun h => absurd h (by decide), fun _ _ => ⟨fun h => absurd h (by decide), fun h => absurd h (by decide)⟩⟩,
   lenAgree_of_stored _ _ _ rfl, rfl, by decide, by decide⟩

/-! the same for ncmpidiff: an NC_INT record variable, one value changed in the second record -/
def intA : LFile :=
  { fmt := .cdf2, numrecs := 2, dims := [⟨[0x74], 0⟩, ⟨[0x78], 1⟩], gatts := [],
    vars := [{ name := [0x76], xtype := .int, dims := [⟨[0x74], 0⟩, ⟨[0x78], 1⟩], isRec := true, atts := [⟨[0x75], .char, 1, [109]⟩],
               data := fun r => if r < 2 then [0, 0, 0, UInt8.ofNat r] else [] }] }
def intB : LFile :=
  { fmt := .cdf2, numrecs := 2, dims := [⟨[0x74], 0⟩, ⟨[0x78], 1⟩], gatts := [],
    vars := [{ name := [0x76], xtype := .int, dims := [⟨[0x74], 0⟩, ⟨[0x78], 1⟩], isRec := true, atts := [⟨[0x75], .char, 1, [109]⟩],
               data := fun r => if r < 2 then [0, 0, 0, UInt8.ofNat (7 * r)] else [] }] }

example : NoByte ncmpidiffCfg intA ∧ LenAgree ncmpidiffCfg intA intB ∧ intA.numrecs = intB.numrecs ∧
    (toolDiff ncmpidiffCfg intA intB).same = false ∧ (toolDiff ncmpidiffCfg intA intA).same = true := by
  have n1 : NoByte ncmpidiffCfg intA := by
    refine ⟨fun _ x hx => ?_, fun v hv => ?_⟩
    · simp [intA] at hx
    · simp only [intA, List.mem_singleton] at hv
      subst hv
      exact ⟨fun _ => by decide, fun _ => by decide⟩
  have n2 : LenAgree ncmpidiffCfg intA intB := by
    refine ⟨by decide, fun v hv w hw _ => ?_⟩
    simp only [intA, intB, List.mem_singleton] at hv hw
    subst hv hw
    decide
  exact ⟨n1, n2, rfl, by decide, by decide⟩

/-! ## ncmpidiff on several processes -/

/-- `ncmpidiff_partition_covers`: for EVERY length L of the partitioned dimension and EVERY number of processes
    n ≥ 1, the (start, count) blocks ncmpidiff gives its ranks are pairwise disjoint and their union is [0, L):
    each index belongs to the block of exactly one rank. -/
theorem ncmpidiff_partition_covers (L n : Nat) (hn : 1 ≤ n) (i : Nat) (hi : i < L) :
    ∃ r, r < n ∧ ((rankBlock L n r).1 ≤ i ∧ i < (rankBlock L n r).1 + (rankBlock L n r).2) ∧
      ∀ r', r' < n → ((rankBlock L n r').1 ≤ i ∧ i < (rankBlock L n r').1 + (rankBlock L n r').2) → r' = r :=
  partition_covers L n hn i hi

/-- the blocks stay inside the dimension -/
theorem ncmpidiff_block_inside (L n r : Nat) (hn : 1 ≤ n) (hr : r < n) : (rankBlock L n r).1 + (rankBlock L n r).2 ≤ L :=
  block_inside L n r hn hr

/-- for every shape (fixed-size or record variable: the record dimension enters with its current length), every
    element is inside the start[]/shape[] box of some rank -/
theorem ncmpidiff_every_element_compared (nprocs : Nat) (hn : 1 ≤ nprocs) (shape idx : List Nat)
    (h : inShape idx shape = true) : ∃ r, r < nprocs ∧ inBox idx (rankBox nprocs r shape) = true :=
  every_element_compared nprocs hn shape idx h

/-- `ncmpidiff_multirank_verdict`: "some rank finds a differing element" ⇔ "the variable has a differing element",
    for every number of processes: the verdict of an n-rank run is the verdict of the 1-rank run, so `diff_complete`,
    `diff_iff_logical_eq_partial` and the `diff_detects_*` theorems (stated for the comparison of whole variables)
    hold for ncmpidiff on any number of processes. -/
theorem ncmpidiff_multirank_verdict (nprocs : Nat) (hn : 1 ≤ nprocs) (shape : List Nat) (d : List Nat → Bool) :
    (∃ r, r < nprocs ∧ ∃ idx, inBox idx (rankBox nprocs r shape) = true ∧ d idx = true) ↔
    (∃ idx, inShape idx shape = true ∧ d idx = true) :=
  multirank_verdict nprocs hn shape d

/-! ## cdfdiff's chunk loop -/

/-- `cdfdiff_chunking_irrelevant`: for EVERY chunk size > 0 (READ_CHUNK_SIZE is 4 MiB), every two files, offsets and
    sizes, the loop that reads min(remaining, chunk) bytes per step from both files decides exactly "the two byte
    ranges are equal" — also when a file ends early (short reads). -/
theorem cdfdiff_chunking_irrelevant (chunk : Nat) (hc : 0 < chunk) (f1 f2 : Bytes) (off1 off2 n : Nat) :
    cdfdiffRecordSame chunk f1 f2 off1 off2 n = (rdAt f1 off1 n == rdAt f2 off2 n) :=
  chunking_irrelevant chunk hc f1 f2 off1 off2 n

/-- so the chunked loop on record r of a variable is the comparison `v.data r == w.data r` of `toolDiff`
    (`recsSame`), for variables of any size: `diff_layout_invariant`, `diff_iff_logical_eq_partial` and the
    `diff_detects_*` theorems, stated for `toolDiff`, hold for the chunked cdfdiff. -/
theorem cdfdiff_chunking_matches_toolDiff (chunk : Nat) (hc : 0 < chunk) (h1 h2 : Hdr) (rs1 rs2 : Nat) (f1 f2 : Bytes)
    (i j : Nat) (v w : Var) (lv lw : LVar) (r : Nat) (hv : h1.vars[i]? = some v) (hw : h2.vars[j]? = some w)
    (hlv : (absFile h1 rs1 f1).vars[i]? = some lv) (hlw : (absFile h2 rs2 f2).vars[j]? = some lw)
    (hn : varBytes v.xtype.size (lv.dims.map (·.size)) = varBytes w.xtype.size (lw.dims.map (·.size))) :
    cdfdiffRecordSame chunk f1 f2 (v.begin + (if lv.isRec then rs1 else 0) * r) (w.begin + (if lw.isRec then rs2 else 0) * r)
      (varBytes v.xtype.size (lv.dims.map (·.size))) = (lv.data r == lw.data r) := by
  rw [chunking_irrelevant chunk hc]
  unfold absFile at hlv hlw
  simp only [List.getElem?_map, hv, hw, Option.map_some, Option.some.injEq] at hlv hlw
  subst hlv hlw
  simp only [] at hn ⊢
  rw [← hn]

example : cdfdiffRecordSame 4 [1, 2, 3, 4, 5, 6, 7, 9, 9] [0, 1, 2, 3, 4, 5, 6, 7, 8] 0 1 7 = true ∧
    cdfdiffRecordSame 4 [1, 2, 3, 4, 5, 6, 7, 9, 9] [0, 1, 2, 3, 4, 5, 6, 7, 8] 0 1 8 = false ∧
    cdfdiffRecordSame 3 [1, 2, 3, 4] [1, 2, 3, 4, 5] 0 0 5 = false := by decide

/-! ## ncoffsets -r -/

/-- `offsets_records_are_layout`: the r-th (start, end) pair `ncoffsets -r` prints for a record variable is the
    address `begin + recsize * r` the library layout gives record r (the offset `absFile` — cdfdiff, ncmpidiff —
    reads that record at), for every record r < numrecs and any recsize; and exactly numrecs pairs are printed. -/
theorem offsets_records_are_layout (h : Hdr) (recsize : Nat) (file : Bytes) (i : Nat) (v : Var) (sh : List Nat) (lv : LVar) (r : Nat)
    (hr : r < h.numrecs) (hv : h.vars[i]? = some v) (hl : (absFile h recsize file).vars[i]? = some lv) (hrec : lv.isRec = true) :
    (offsetsRecs v sh recsize h.numrecs).length = h.numrecs ∧
    ∃ st en, (offsetsRecs v sh recsize h.numrecs)[r]? = some (st, en) ∧ st = v.begin + recsize * r ∧
      ∃ n, lv.data r = rdAt file st n := by
  refine ⟨offsetsRecs_length v sh recsize h.numrecs, _, _, offsetsRecs_get v sh recsize h.numrecs r hr, rfl, ?_⟩
  unfold absFile at hl
  simp only [List.getElem?_map, hv, Option.map_some, Option.some.injEq] at hl
  subst hl
  simp only [] at hrec ⊢
  rw [hrec]
  exact ⟨_, rfl⟩

/-- the packing rule the report relies on (compute_var_shape / ncmpii_NC_computeshapes): one record variable ⇒ the
    record size is its unpadded size -/
theorem offsets_recsize_packing (st : CvsState) (fb flen fpacked : Nat) (hf : st.firstRec = some (fb, flen, fpacked))
    (hb : st.beginRec ≤ fb) : cvsRec st = .ok (fb, if st.recsize = flen then fpacked else st.recsize) :=
  cvsRec_packing st fb flen fpacked hf hb

/-- a CDF-1 file with one fixed-size variable and ONE record variable of 3 shorts: records are 6 bytes apart, not 8 -/
def oneRecVarHdr : Schema :=
  { fmt := .cdf1, numrecs := 3, dims := [{ name := [0x74], size := 0 }, { name := [0x78], size := 3 }], gatts := [],
    vars := [{ name := [0x66], dimids := [1], atts := [], xtype := .int, vsize := 12, begin := 200 },
             { name := [0x72], dimids := [0, 1], atts := [], xtype := .short, vsize := 8, begin := 212 }] }
example : (postPass oneRecVarHdr).toOption.map (·.recsize) = some 6 := by decide

/-- on one process the box is the whole variable -/
example : rankBox 1 0 [5, 3] = [(0, 5), (0, 3)] ∧ rankBox 2 0 [5, 3] = [(0, 3), (0, 3)] ∧ rankBox 2 1 [5, 3] = [(3, 2), (0, 3)] ∧
    rankBox 4 2 [3, 9] = [(0, 3), (5, 2)] := by decide

def obligations : List String := [
  "validate_accepts_encoded", "validate_accepts_layoutValid", "validate_sound_counterexample", "validate_sound_partial",
  "validate_canonical", "validate_magic", "validate_sound_repaired", "repaired_array_tag",
  "cdfdiff_repaired_iff_logical_eq", "ncmpidiff_repaired_iff_logical_eq",
  "ncmpidiff_partition_covers", "ncmpidiff_block_inside", "ncmpidiff_every_element_compared", "ncmpidiff_multirank_verdict",
  "offsets_records_are_layout", "offsets_recsize_packing",
  "cdfdiff_chunking_irrelevant", "cdfdiff_chunking_matches_toolDiff",
  "diff_refl", "diff_complete", "diff_iff_logical_eq_counterexample_cdfdiff", "diff_iff_logical_eq_counterexample_ncmpidiff",
  "diff_iff_logical_eq_partial", "cdfdiff_iff_logical_eq", "diff_symm_counterexample_cdfdiff", "diff_symm_partial",
  "diff_layout_invariant", "diff_layout_invariant_shift", "diff_detects_value_edit", "diff_detects_attribute_edit",
  "diff_detects_name_edit", "diff_detects_dimlen_edit"
]
end PnVerif.Props.C20
