import PnVerif.Model.NumRecs
import PnVerif.Lemmas.NumRecs
import PnVerif.Lemmas.NumRecsStep
import PnVerif.Lemmas.NumRecsSched
/-
  C05 — the record count stays coherent across processes, memory and file header.

  Model/NumRecs.lean: a world of any number of ranks, each with its in-memory `numrecs`, dirty bit and queue of
  pending nonblocking puts, plus the header field of the shared file; `step` transcribes what every API call does
  to them.  Ghost fields (never read by `step`'s code part): `hi` = the record count the file started with and one
  plus the highest record index of every completed write since; `own` = the same for a rank's own writes.

  `Inv w` (Lemmas/NumRecs.lean) is the property:
     (a) collective data mode:   every rank's numrecs = header field = hi
     (b) independent data mode:  nobody is above hi, somebody holds hi, the header is not above hi — so that the next
         synchronisation call re-establishes (a) (`sync_restores`)
     (d) every rank's numrecs ≥ 1 + highest record it wrote itself (`own`)
  `Mono w w'` is (c): no rank's numrecs and not the header field ever decrease.

  The property as written is FALSE of the tree as it is; three counterexamples, each replayed against the real
  library by the harness:
     numrecs_inv_counterexample_deadlock     F2: a rank on the NC_REQ_ZERO path of a collective put skips the Allreduce
     numrecs_inv_counterexample_partial_wait req_commit scans the first num_w_lead_reqs queue entries, not the marked ones
     numrecs_inv_counterexample_vard         getput_vard advances numrecs for requests that write nothing
  `numrecs_inv_partial` proves the property for every history (any length, any number of ranks) that avoids exactly
  these (`Good`).  The model is parametric in which of the three repairs the tree contains (`Fix`): each repair is
  needed on its own (`numrecs_inv_needs_*`) and with all three the property holds as written (`numrecs_inv_repaired`).
-/
namespace PnVerif.Props.C05
open PnVerif.NumRecs

/-- the calls on which today's code is right -/
def Good (fx : Fix) (w : World) : Op → Prop
  | .putAll f =>
      -- not (some rank on the zero path, some rank not) — unless repaired
      w.indep = true ∨ fx.zeroPath = true ∨ w.ranks.all (isPutArgErr f) = true ∨ w.ranks.any (isPutArgErr f) = false
  | .vardAll f =>
      (w.indep = true ∨ fx.zeroPath = true ∨ w.ranks.all (isVardArgErr f) = true ∨ w.ranks.any (isVardArgErr f) = false) ∧
      -- a vard request that writes nothing does not reach beyond what is being written
      (w.indep = false → ∀ r ∈ w.ranks, vardContrib fx.vardGuard f r ≤ maxOver w.hi (w.ranks.filterMap (vardEnd f)))
  | .waitAll sel =>
      -- what req_commit computes covers every marked request (true for NC_REQ_ALL and for the first k entries of the sorted queue)
      ∀ r ∈ w.ranks, ∀ e ∈ markedRecs r (sel r.id), e ≤ litNew fx.waitScan r (sel r.id)
  | .wait rk s => ∀ r ∈ w.ranks, r.id = rk → ∀ e ∈ markedRecs r s, e ≤ litNew fx.waitScan r s
  | _ => True

def GoodRun (fx : Fix) : World → List Op → Prop
  | _, [] => True
  | w, op :: rest => Good fx w op ∧ (match step fx w op with
                                    | none => True
                                    | some w' => GoodRun fx w' rest)

/-! ### every good call keeps the invariant and never decreases a count -/
private theorem collPut_inv (fx : Bool) (w : World) (hI : Inv w) (isErr : Rank → Bool) (c : Rank → Nat) (en : Rank → Option Nat)
    (hgood : w.indep = true ∨ fx = true ∨ w.ranks.all isErr = true ∨ w.ranks.any isErr = false)
    (hid : ∀ M r, en (raiseRank M r) = en r)
    (h1 : ∀ r ∈ w.ranks, ∀ e, en r = some e → c r = e)
    (h2 : w.indep = false → ∀ r ∈ w.ranks, c r ≤ maxOver w.hi (w.ranks.filterMap en)) :
    ∃ w', collPut fx w isErr c en = some w' ∧ Inv w' ∧ Mono w w' := by
  unfold collPut
  by_cases hc : w.indep = true
  · rw [if_pos hc]; exact ⟨w, rfl, hI, Mono.refl w⟩
  · have hc' : w.indep = false := by simpa using hc
    rw [if_neg hc]
    by_cases hall : w.ranks.all isErr = true
    · rw [if_pos hall]; exact ⟨w, rfl, hI, Mono.refl w⟩
    · rw [if_neg hall]
      have hnot : (!fx && w.ranks.any isErr) = false := by
        rcases hgood with h | h | h | h
        · exact absurd h hc
        · simp [h]
        · exact absurd h hall
        · simp [h]
      rw [if_neg (by rw [hnot]; decide)]
      obtain ⟨i1, i2⟩ := coll_write_inv w hI hc' c en hid h1 (h2 hc')
      exact ⟨_, rfl, i1, i2⟩

theorem inv_step (fx : Fix) (w : World) (op : Op) (hI : Inv w) (hg : Good fx w op) :
    ∃ w', step fx w op = some w' ∧ Inv w' ∧ Mono w w' := by
  cases op with
  | putAll f =>
    apply collPut_inv fx.zeroPath w hI _ _ _ hg (putEnd_raise f)
    · intro r _ e he
      unfold putEnd at he; unfold putContrib
      cases hq : f r.id <;> rw [hq] at he <;> simp at he ⊢
      exact he
    · intro hc r hr
      obtain ⟨hall, _⟩ := hI.coll hc
      unfold putContrib
      cases hq : f r.id with
      | valid e =>
        apply le_maxOver_mem
        exact List.mem_filterMap.mpr ⟨r, hr, by unfold putEnd; rw [hq]⟩
      | zero => simp only; rw [hall r hr]; exact le_maxOver_base _ _
      | argErr => simp only; rw [hall r hr]; exact le_maxOver_base _ _
      | drvErr => simp only; rw [hall r hr]; exact le_maxOver_base _ _
  | vardAll f =>
    apply collPut_inv fx.zeroPath w hI _ _ _ hg.1 (vardEnd_raise f)
    · intro r _ e he
      unfold vardEnd at he; unfold vardContrib
      cases hq : f r.id <;> rw [hq] at he <;> simp at he ⊢
      exact he
    · exact hg.2
  | putIndep rk e =>
    show ∃ w', (if !w.indep then some w else some _) = some w' ∧ _
    by_cases hc : w.indep = true
    · rw [if_neg (by rw [hc]; decide)]
      obtain ⟨i1, i2⟩ := putIndep_inv w hI hc rk e
      exact ⟨_, rfl, i1, i2⟩
    · have hc' : w.indep = false := by simpa using hc
      rw [if_pos (by rw [hc']; decide)]
      exact ⟨w, rfl, hI, Mono.refl w⟩
  | iput rk id isRec e vb ro =>
    refine ⟨_, rfl, ?_⟩
    have := inv_map_keep w hI (fun r =>
        if r.id == rk then
          { r with pending := insertPend r.pending { id := id, isRec := isRec, maxRec := if isRec then e else 0,
                                                     varBegin := vb, reqOff := ro } }
        else r)
      w.hi rfl (by intro r; split <;> rfl) (by intro r; split <;> rfl)
      (by intro r hr; split <;> exact hI.own r hr)
    exact this
  | waitAll sel =>
    show ∃ w', stepWaitAll fx.waitScan w sel = some w' ∧ _
    unfold stepWaitAll
    by_cases hc : w.indep = true
    · rw [if_pos hc]; exact ⟨w, rfl, hI, Mono.refl w⟩
    · have hc' : w.indep = false := by simpa using hc
      rw [if_neg hc]
      by_cases hb : (w.ranks.any fun r => badSel r.pending (sel r.id)) = true
      · rw [if_pos hb]; exact ⟨w, rfl, hI, Mono.refl w⟩
      · rw [if_neg hb]
        obtain ⟨i1, i2⟩ := waitAll_inv fx.waitScan w hI hc' sel hg
        exact ⟨_, rfl, i1, i2⟩
  | wait rk s =>
    show ∃ w', stepWait fx.waitScan w rk s = some w' ∧ _
    unfold stepWait
    by_cases hc : w.indep = true
    · rw [if_neg (by rw [hc]; decide)]
      obtain ⟨i1, i2⟩ := wait_inv fx.waitScan w hI hc rk s hg
      exact ⟨_, rfl, i1, i2⟩
    · have hc' : w.indep = false := by simpa using hc
      rw [if_pos (by rw [hc']; decide)]
      exact ⟨w, rfl, hI, Mono.refl w⟩
  | fillRec rn =>
    show ∃ w', (if (fx.fillMode && w.indep) = true then some w else some _) = some w' ∧ _
    by_cases hfm : (fx.fillMode && w.indep) = true
    · rw [if_pos hfm]; exact ⟨w, rfl, hI, Mono.refl w⟩
    rw [if_neg hfm]
    refine ⟨_, rfl, ?_⟩
    by_cases hc : w.indep = true
    · -- (unrepaired dispatcher) NC_EINDEP is lost: the fill runs in independent mode too
      have hfm : w.ranks.filterMap (fun r => some (rn r.id + 1)) = w.ranks.map (fun r => rn r.id + 1) := by
        induction w.ranks with
        | nil => rfl
        | cons x xs ih => simp only [List.filterMap_cons, List.map_cons, ih]
      have hEq : max w.hi (maxOver 0 (w.ranks.map fun r => rn r.id + 1)) =
          maxOver w.hi ((w.ranks.map (raiseRank (maxOver 0 (w.ranks.map fun r => rn r.id + 1)))).filterMap (fun r => some (rn r.id + 1))) := by
        rw [filterMap_raise (fun r => some (rn r.id + 1)) _ w.ranks (by intro r; simp only [raiseRank_id]), hfm]
        exact (maxOver_eq_max _ _).symm
      have := ind_raise_inv w hI hc (maxOver 0 (w.ranks.map fun r => rn r.id + 1)) _ hEq
        (fun r => { r with own := max r.own (rn r.id + 1) }) (fun _ => rfl) (fun _ => rfl)
        (by intro r hr
            show max (raiseRank _ r).own (rn (raiseRank _ r).id + 1) ≤ _
            rw [raiseRank_own, raiseRank_id]
            have h1 := hI.own r hr
            have h2 : rn r.id + 1 ≤ maxOver 0 (w.ranks.map fun r => rn r.id + 1) :=
              le_maxOver_mem _ _ _ (List.mem_map.mpr ⟨r, hr, rfl⟩)
            omega)
      have hshape : recordWrites (raiseAll w (maxOver 0 (w.ranks.map fun r => rn r.id + 1))) (fun r => some (rn r.id + 1)) =
          { ranks := (w.ranks.map (raiseRank (maxOver 0 (w.ranks.map fun r => rn r.id + 1)))).map (fun r => { r with own := max r.own (rn r.id + 1) }),
            hdr := (raiseAll w (maxOver 0 (w.ranks.map fun r => rn r.id + 1))).hdr, indep := true,
            hi := maxOver w.hi ((w.ranks.map (raiseRank (maxOver 0 (w.ranks.map fun r => rn r.id + 1)))).filterMap (fun r => some (rn r.id + 1))) } := by
        show World.mk _ _ (raiseAll w _).indep _ = _
        rw [raiseAll_indep, hc]; rfl
      show Inv (recordWrites _ _) ∧ Mono w (recordWrites _ _)
      rw [hshape]; exact this
    · have hc' : w.indep = false := by simpa using hc
      exact coll_write_inv w hI hc' (fun r => rn r.id + 1) (fun r => some (rn r.id + 1))
        (by intro M r; simp only [raiseRank_id])
        (by intro r _ e he; simpa using he)
        (by intro r hr
            apply le_maxOver_mem
            exact List.mem_filterMap.mpr ⟨r, hr, rfl⟩)
  | beginIndep =>
    refine ⟨_, rfl, ?_, ⟨Nat.le_refl _, forall2_refl _ (fun r => ⟨rfl, Nat.le_refl _⟩) _⟩⟩
    constructor
    · exact hI.nonempty
    · intro h; cases h
    · intro _
      by_cases hc : w.indep = true
      · exact hI.ind hc
      · have hc' : w.indep = false := by simpa using hc
        obtain ⟨hall, hhdr⟩ := hI.coll hc'
        obtain ⟨x, hx⟩ := List.exists_mem_of_ne_nil _ hI.nonempty
        exact ⟨fun r hr => Nat.le_of_eq (hall r hr), Nat.le_of_eq hhdr, x, hx, hall x hx⟩
    · exact hI.own
    · exact hI.rootHdr
  | endIndep =>
    obtain ⟨i1, i2, _, _⟩ := endIndepCore_inv w hI
    exact ⟨_, rfl, i1, i2⟩
  | sync =>
    refine ⟨_, rfl, ?_⟩
    by_cases hc : w.indep = true
    · rw [if_pos hc]
      obtain ⟨i1, i2, _, _⟩ := syncCore_inv w hI hc true
      have : ({ syncCore w with indep := true } : World) = syncCore w := by
        show World.mk _ _ true _ = syncCore w
        rw [← hc, ← syncCore_indep w]
      rw [this] at i1 i2; exact ⟨i1, i2⟩
    · rw [if_neg hc]; exact ⟨hI, Mono.refl w⟩
  | syncNumrecs =>
    refine ⟨_, rfl, ?_⟩
    by_cases hc : w.indep = true
    · rw [if_pos hc]
      obtain ⟨i1, i2, _, _⟩ := syncCore_inv w hI hc true
      have : ({ syncCore w with indep := true } : World) = syncCore w := by
        show World.mk _ _ true _ = syncCore w
        rw [← hc, ← syncCore_indep w]
      rw [this] at i1 i2; exact ⟨i1, i2⟩
    · rw [if_neg hc]; exact ⟨hI, Mono.refl w⟩
  | redef =>
    refine ⟨_, rfl, ?_⟩
    obtain ⟨i1, i2, hcol, _⟩ := endIndepCore_inv w hI
    obtain ⟨hall, hhdr⟩ := i1.coll hcol
    obtain ⟨root, rest, hroot⟩ := List.exists_cons_of_ne_nil i1.nonempty
    have key := inv_map_keep (endIndepCore w) i1 (fun r => { r with dirty := false }) (endIndepCore w).hi rfl
      (fun _ => rfl) (fun _ => rfl) (fun r hr => i1.own r hr)
    have hrn : root.numrecs = (endIndepCore w).hdr := by rw [hall root (head_mem hroot), hhdr]
    show Inv (World.mk _ _ _ _) ∧ Mono w (World.mk _ _ _ _)
    rw [hroot] at key ⊢
    dsimp only
    rw [hrn]
    exact ⟨key.1, Mono.trans i2 key.2⟩
  | reopen =>
    refine ⟨_, rfl, ?_⟩
    obtain ⟨i1, i2, hcol, _⟩ := endIndepCore_inv w hI
    obtain ⟨hall, hhdr⟩ := i1.coll hcol
    show Inv (World.mk _ _ _ _) ∧ Mono w (World.mk _ _ _ _)
    have hmapeq : (endIndepCore w).ranks.map (fun r => ({ r with numrecs := (endIndepCore w).hdr, dirty := false, pending := [] } : Rank)) =
        (endIndepCore w).ranks.map (fun r => ({ r with dirty := false, pending := [] } : Rank)) := by
      apply List.map_congr_left
      intro r hr
      have : r.numrecs = (endIndepCore w).hdr := by rw [hall r hr, hhdr]
      rw [← this]
    rw [hmapeq]
    have key := inv_map_keep (endIndepCore w) i1 (fun r => { r with dirty := false, pending := [] }) (endIndepCore w).hi rfl
      (fun _ => rfl) (fun _ => rfl) (fun r hr => i1.own r hr)
    exact ⟨key.1, Mono.trans i2 key.2⟩

/-! ### the property over whole histories -/
theorem init_inv (n h : Nat) (hn : 0 < n) : Inv (initWorld n h) := by
  unfold initWorld
  constructor
  · intro hnil
    have := congrArg List.length hnil
    simp at this; omega
  · intro _
    refine ⟨?_, rfl⟩
    intro r hr
    obtain ⟨i, _, rfl⟩ := List.mem_map.mp hr
    rfl
  · intro h; cases h
  · intro r hr
    obtain ⟨i, _, rfl⟩ := List.mem_map.mp hr
    exact Nat.zero_le _
  · intro root hroot
    obtain ⟨i, _, _, rfl⟩ := head?_map_some _ _ _ hroot
    exact Nat.le_refl _

/-- C05 for every history of good calls, any length, any number of ranks: the run never blocks, the invariant
    (a)(b)(d) holds after it — hence after every call, every prefix being a history — and nothing decreased (c) -/
theorem numrecs_inv_partial (fx : Fix) (w0 : World) (hI : Inv w0) (ops : List Op) (hg : GoodRun fx w0 ops) :
    ∃ w, run fx w0 ops = some w ∧ Inv w ∧ Mono w0 w := by
  induction ops generalizing w0 with
  | nil => exact ⟨w0, rfl, hI, Mono.refl w0⟩
  | cons op rest ih =>
    obtain ⟨hgo, hgr⟩ := hg
    obtain ⟨w1, hs, hI1, hm1⟩ := inv_step fx w0 op hI hgo
    rw [hs] at hgr
    obtain ⟨w, hr, hIw, hmw⟩ := ih w1 hI1 hgr
    refine ⟨w, ?_, hIw, Mono.trans hm1 hmw⟩
    show (match step fx w0 op with
          | none => none
          | some w' => run fx w' rest) = some w
    rw [hs]; exact hr

/-- the statement as written in the property: every history -/
def numrecs_inv_Statement (fx : Fix) : Prop :=
  ∀ (n h : Nat), 0 < n → ∀ ops : List Op, ∃ w, run fx (initWorld n h) ops = some w ∧ Inv w ∧ Mono (initWorld n h) w

/-- F2: two ranks, collective put on a record variable, rank 0 has a non-fatal argument error: rank 1 never returns -/
def histF2 : List Op := [.putAll fun i => if i = 0 then .argErr else .valid 4]
/-- rank 0 posts iput to record 0 then to record 5 and waits (wait_all) for the second only: record 5 is written,
    numrecs stays 0 on every rank and in the file -/
def histPartialWait : List Op :=
  [.iput 0 1 true 1 1 1, .iput 0 2 true 6 1 6, .waitAll fun i => if i = 0 then .ids [2] else .ids []]
/-- ncmpi_put_vard_all with bufcount 0 whose filetype reaches record 3: nothing is written, numrecs becomes 4 -/
def histVard : List Op := [.vardAll fun _ => .noData 4]

private theorem deadlock_refutes (fx : Fix) (h : run fx (initWorld 2 0) histF2 = none) : ¬ numrecs_inv_Statement fx := by
  intro hs
  obtain ⟨w, hw, _⟩ := hs 2 0 (by decide) histF2
  rw [h] at hw; cases hw

private theorem incoherent_refutes (fx : Fix) (ops : List Op) (w : World) (hrun : run fx (initWorld 2 0) ops = some w)
    (hc : w.indep = false) (hne : w.hdr ≠ w.hi) : ¬ numrecs_inv_Statement fx := by
  intro hs
  obtain ⟨w', hw, hI, _⟩ := hs 2 0 (by decide) ops
  rw [hrun] at hw
  cases hw
  exact hne (hI.coll hc).2

/-- the tree as it was found -/
theorem numrecs_inv_counterexample_deadlock : ¬ numrecs_inv_Statement Fix.none :=
  deadlock_refutes _ (by decide)
theorem numrecs_inv_counterexample_partial_wait : ¬ numrecs_inv_Statement Fix.none :=
  incoherent_refutes _ histPartialWait
    { ranks := [{ id := 0, numrecs := 0, pending := [{ id := 1, isRec := true, maxRec := 1, varBegin := 1, reqOff := 1 }], own := 6 },
                { id := 1, numrecs := 0 }], hdr := 0, hi := 6 } (by decide) rfl (by decide)
theorem numrecs_inv_counterexample_vard : ¬ numrecs_inv_Statement Fix.none :=
  incoherent_refutes _ histVard
    { ranks := [{ id := 0, numrecs := 4 }, { id := 1, numrecs := 4 }], hdr := 4, hi := 0 } (by decide) rfl (by decide)

/-- each of the three repairs is needed on its own: with the other two present the property still fails -/
theorem numrecs_inv_needs_zeroPath : ¬ numrecs_inv_Statement { Fix.all with zeroPath := false } :=
  deadlock_refutes _ (by decide)
theorem numrecs_inv_needs_waitScan : ¬ numrecs_inv_Statement { Fix.all with waitScan := false } :=
  incoherent_refutes _ histPartialWait
    { ranks := [{ id := 0, numrecs := 0, pending := [{ id := 1, isRec := true, maxRec := 1, varBegin := 1, reqOff := 1 }], own := 6 },
                { id := 1, numrecs := 0 }], hdr := 0, hi := 6 } (by decide) rfl (by decide)
theorem numrecs_inv_needs_vardGuard : ¬ numrecs_inv_Statement { Fix.all with vardGuard := false } :=
  incoherent_refutes _ histVard
    { ranks := [{ id := 0, numrecs := 4 }, { id := 1, numrecs := 4 }], hdr := 4, hi := 0 } (by decide) rfl (by decide)

/-! ### with the three repairs the property holds as written -/
theorem good_when_repaired (w : World) (hI : Inv w) (op : Op) : Good Fix.all w op := by
  cases op with
  | putAll f => exact Or.inr (Or.inl rfl)
  | vardAll f =>
    refine ⟨Or.inr (Or.inl rfl), ?_⟩
    intro hc r hr
    obtain ⟨hall, _⟩ := hI.coll hc
    unfold vardContrib
    cases hq : f r.id with
    | valid e =>
      apply le_maxOver_mem
      exact List.mem_filterMap.mpr ⟨r, hr, by unfold vardEnd; rw [hq]⟩
    | noData e => simp only [Fix.all, if_true]; rw [hall r hr]; exact le_maxOver_base _ _
    | argErr => simp only; rw [hall r hr]; exact le_maxOver_base _ _
  | waitAll sel => intro r _; exact litNew_scan_ge r (sel r.id)
  | wait rk s => intro r _ _; exact litNew_scan_ge r s
  | putIndep _ _ => trivial
  | iput _ _ _ _ _ _ => trivial
  | fillRec _ => trivial
  | beginIndep => trivial
  | endIndep => trivial
  | sync => trivial
  | syncNumrecs => trivial
  | redef => trivial
  | reopen => trivial

theorem goodRun_when_repaired (w : World) (hI : Inv w) (ops : List Op) : GoodRun Fix.all w ops := by
  induction ops generalizing w with
  | nil => trivial
  | cons op rest ih =>
    refine ⟨good_when_repaired w hI op, ?_⟩
    obtain ⟨w1, hs, hI1, _⟩ := inv_step Fix.all w op hI (good_when_repaired w hI op)
    rw [hs]
    exact ih w1 hI1

/-- C05 as written, for the tree with the three repairs: every history, any number of ranks -/
theorem numrecs_inv_repaired : numrecs_inv_Statement Fix.all := by
  intro n h hn ops
  exact numrecs_inv_partial Fix.all (initWorld n h) (init_inv n h hn) ops (goodRun_when_repaired _ (init_inv n h hn) ops)

/-! ### configuration independence -/
/-- neither the record-count protocol nor the invariant mentions the I/O configuration (aggregation hint, collective
    header writes, file format): one call has the same effect under any two configurations, so `numrecs_inv_partial`
    / `numrecs_inv_repaired` hold for every configuration.  (That the library really follows the same protocol on the
    aggregation path is what the harness histories run with nc_num_aggrs_per_node = 1..n-1 tie down.) -/
theorem config_independent (c1 c2 : IoConfig) (fx : Fix) (w : World) (op : Op) :
    stepUnder c1 fx w op = stepUnder c2 fx w op := rfl

theorem inv_step_any_config (c : IoConfig) (fx : Fix) (w : World) (op : Op) (hI : Inv w) (hg : Good fx w op) :
    ∃ w', stepUnder c fx w op = some w' ∧ Inv w' ∧ Mono w w' := inv_step fx w op hI hg

/-! ### reading the invariant -/
/-- (a) after any call that leaves the file in collective data mode: every rank's count = the header field =
    one plus the highest record written by anybody (and the count the file started with) -/
theorem collective_coherent (w : World) (hI : Inv w) (hc : w.indep = false) :
    (∀ r ∈ w.ranks, r.numrecs = w.hi) ∧ w.hdr = w.hi := hI.coll hc

/-- (b) after independent writes the same holds from the next synchronisation call on — also for ncmpi_sync and
    ncmpi_sync_numrecs, which stay in independent mode -/
theorem sync_restores (fx : Fix) (w : World) (hI : Inv w) (op : Op)
    (hop : match op with | .endIndep | .sync | .syncNumrecs | .redef | .reopen => True | _ => False) :
    ∃ w', step fx w op = some w' ∧ (∀ r ∈ w'.ranks, r.numrecs = w'.hi) ∧ w'.hdr = w'.hi ∧ w'.hi = w.hi := by
  have common : ∀ w1 : World, Inv w1 → w1.indep = false → (∀ r ∈ w1.ranks, r.numrecs = w1.hi) ∧ w1.hdr = w1.hi :=
    fun w1 h1 hc1 => h1.coll hc1
  cases op <;> simp only at hop
  case endIndep =>
    obtain ⟨i1, _, hcol, hhi⟩ := endIndepCore_inv w hI
    obtain ⟨a, b⟩ := common _ i1 hcol
    exact ⟨_, rfl, a, b, hhi⟩
  case sync =>
    refine ⟨_, rfl, ?_⟩
    by_cases hc : w.indep = true
    · rw [if_pos hc]
      obtain ⟨_, _, a, b⟩ := syncCore_inv w hI hc true
      exact ⟨a, b, rfl⟩
    · rw [if_neg hc]
      obtain ⟨a, b⟩ := common w hI (by simpa using hc)
      exact ⟨a, b, rfl⟩
  case syncNumrecs =>
    refine ⟨_, rfl, ?_⟩
    by_cases hc : w.indep = true
    · rw [if_pos hc]
      obtain ⟨_, _, a, b⟩ := syncCore_inv w hI hc true
      exact ⟨a, b, rfl⟩
    · rw [if_neg hc]
      obtain ⟨a, b⟩ := common w hI (by simpa using hc)
      exact ⟨a, b, rfl⟩
  case redef =>
    obtain ⟨w', hs, hI', _⟩ := inv_step fx w .redef hI trivial
    obtain ⟨_, _, hcol, hhi⟩ := endIndepCore_inv w hI
    have hs' := hs
    simp only [step] at hs'
    cases hs'
    obtain ⟨a, b⟩ := common _ hI' hcol
    exact ⟨_, hs, a, b, hhi⟩
  case reopen =>
    obtain ⟨w', hs, hI', _⟩ := inv_step fx w .reopen hI trivial
    obtain ⟨_, _, hcol, hhi⟩ := endIndepCore_inv w hI
    have hs' := hs
    simp only [step] at hs'
    cases hs'
    obtain ⟨a, b⟩ := common _ hI' hcol
    exact ⟨_, hs, a, b, hhi⟩

/-- (d) no rank's count is below what it wrote itself -/
theorem own_writes_readable (w : World) (hI : Inv w) : ∀ r ∈ w.ranks, r.own ≤ r.numrecs := hI.own

/-! ### all relative timings: rank-local calls of different ranks commute -/
/-- the calls a rank executes on its own, without any other rank taking part -/
def localRank : Op → Option Nat
  | .putIndep r _ => some r
  | .iput r _ _ _ _ _ => some r
  | .wait r _ => some r
  | _ => none

private theorem local_form (fx0 : Fix) (o : Op) (rk : Nat) (h : localRank o = some rk) :
    ∃ (guard : Bool) (g : Rank → Rank) (en : Rank → List Nat), (∀ r, (g r).id = r.id) ∧
      ∀ w, step fx0 w o = some (if (guard && !w.indep) = true then w else localApply rk g en w) := by
  cases o <;> simp only [localRank, Option.some.injEq] at h <;> try (exact absurd h (by simp))
  case putIndep r e =>
    subst h
    refine ⟨true, putIndepG e, fun _ => [e], putIndepG_id e, ?_⟩
    intro w; rw [step_putIndep_eq]; simp
  case iput r id isRec e vb ro =>
    subst h
    refine ⟨false, iputG { id := id, isRec := isRec, maxRec := if isRec then e else 0, varBegin := vb, reqOff := ro },
            fun _ => [], iputG_id _, ?_⟩
    intro w; rw [step_iput_eq]; simp
  case wait r s =>
    subst h
    refine ⟨true, waitG fx0.waitScan s, waitE s, waitG_id _ s, ?_⟩
    intro w; rw [step_wait_eq]; simp

/-- between two collectives the ranks run their local calls (independent puts, posting requests, independent
    waits) at their own pace: whichever of two ranks goes first, the world they reach is the same.  Together with
    the matcher theorems of C08 (a matched collective has one outcome) the state after a history does not depend
    on the relative timing of the processes. -/
theorem schedule_independent (fx : Fix) (w : World) (o1 o2 : Op) (a b : Nat)
    (h1 : localRank o1 = some a) (h2 : localRank o2 = some b) (hab : a ≠ b) :
    (step fx w o1).bind (fun w1 => step fx w1 o2) = (step fx w o2).bind (fun w2 => step fx w2 o1) := by
  obtain ⟨g1, f1, e1, hid1, hs1⟩ := local_form fx o1 a h1
  obtain ⟨g2, f2, e2, hid2, hs2⟩ := local_form fx o2 b h2
  rw [hs1 w, hs2 w]
  simp only [Option.bind_some]
  rw [hs2, hs1]
  congr 1
  cases hi : w.indep <;> cases g1 <;> cases g2 <;>
    simp [hi, localApply_indep, localApply_comm a b hab f1 f2 e1 e2 hid1 hid2 w]

example : localRank (.putIndep 2 12) = some 2 ∧ localRank (.wait 1 .all) = some 1 := by decide

/-! ### non-vacuity: a mixed three-rank history satisfies the hypotheses and really moves the count -/
def sampleHist : List Op :=
  [ .putAll (fun i => if i = 0 then .valid 3 else if i = 1 then .zero else .drvErr),
    .iput 1 7 true 9 1 9, .iput 1 8 true 5 1 5, .iput 2 9 false 0 0 0,
    .waitAll (fun i => if i = 1 then .ids [7] else .all),        -- the FIRST queue entry of rank 1: handled correctly
    .beginIndep, .putIndep 2 12, .wait 1 .all, .sync, .putIndep 0 14, .endIndep,
    .fillRec (fun _ => 15), .vardAll (fun i => if i = 0 then .valid 17 else .noData 16), .redef, .reopen ]

instance (fx : Fix) (w : World) (op : Op) : Decidable (Good fx w op) := by
  cases op <;> unfold Good <;> infer_instance

/-- executable form of `GoodRun` (only used to discharge the hypotheses of concrete histories by evaluation) -/
def goodRunB (fx : Fix) : World → List Op → Bool
  | _, [] => true
  | w, op :: rest => decide (Good fx w op) && (match step fx w op with
                                               | none => true
                                               | some w' => goodRunB fx w' rest)

theorem goodRunB_sound (fx : Fix) (w : World) (ops : List Op) (h : goodRunB fx w ops = true) : GoodRun fx w ops := by
  induction ops generalizing w with
  | nil => trivial
  | cons op rest ih =>
    unfold goodRunB at h
    simp only [Bool.and_eq_true, decide_eq_true_eq] at h
    refine ⟨h.1, ?_⟩
    cases hs : step fx w op with
    | none => trivial
    | some w' =>
      simp only
      have h2 := h.2
      rw [hs] at h2
      exact ih w' h2

/-- the sample history satisfies the hypotheses of `numrecs_inv_partial` … -/
example : GoodRun Fix.none (initWorld 3 2) sampleHist := goodRunB_sound _ _ _ (by decide)
/-- … the three counterexample histories do not … -/
example : ¬ GoodRun Fix.none (initWorld 2 0) histF2 := fun h => absurd h.1 (by decide)
example : goodRunB Fix.none (initWorld 2 0) histPartialWait = false := by decide
example : goodRunB Fix.none (initWorld 2 0) histVard = false := by decide
/-- … and the count really moves -/
example : (run Fix.none (initWorld 3 2) sampleHist).map (fun w => (w.ranks.map (·.numrecs), w.hdr, w.hi)) =
    some ([17, 17, 17], 17, 17) := by decide

def obligations : List String := [
  "inv_step", "init_inv", "numrecs_inv_partial",
  "numrecs_inv_counterexample_deadlock", "numrecs_inv_counterexample_partial_wait", "numrecs_inv_counterexample_vard",
  "numrecs_inv_needs_zeroPath", "numrecs_inv_needs_waitScan", "numrecs_inv_needs_vardGuard",
  "good_when_repaired", "numrecs_inv_repaired",
  "collective_coherent", "sync_restores", "own_writes_readable", "schedule_independent", "config_independent", "inv_step_any_config"
]
end PnVerif.Props.C05
