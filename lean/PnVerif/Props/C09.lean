import PnVerif.Gen.NcxProofs
import PnVerif.Model.ConvLoop
/-
  C09 — numeric conversion and range checking are exact.

  The per-primitive theorems are GENERATED (Gen/NcxProofs.lean, one per `ncmpix_{get,put}_NC_X_T`
  and one per inlined byte-loop element, list in `Gen.NcxProofs.obligations`).  This file holds the
  hand-stated property-level theorems that lift them to whole requests.
-/
namespace PnVerif.Props.C09
open PnVerif PnVerif.ConvLoop

/-- Whole-request statement for loops of shape `firstErr`: if the element primitive meets its
    specification on every element that satisfies the type invariant `P`, then the request
    converts every element by the specification, independently of its position and of any
    failing neighbour, and returns the first error. -/
theorem request_firstErr {α β : Type} (elem spec : α → β × Int) (P : α → Prop)
    (h : ∀ x, P x → elem x = spec x) (xs : List α) (hx : ∀ x ∈ xs, P x) :
    loopFirst elem xs = (xs.map (fun x => (spec x).1), firstErr (xs.map (fun x => (spec x).2))) := by
  rw [loopFirst_spec]
  have h1 : xs.map (fun x => (elem x).1) = xs.map (fun x => (spec x).1) :=
    List.map_congr_left (fun x hxm => by rw [h x (hx x hxm)])
  have h2 : xs.map (fun x => (elem x).2) = xs.map (fun x => (spec x).2) :=
    List.map_congr_left (fun x hxm => by rw [h x (hx x hxm)])
  rw [h1, h2]

/-- Same for the inlined byte loops (status assigned on every failing element); needs that the
    only error code an element can produce is `c` (= NC_ERANGE, which is what the spec says). -/
theorem request_inline {α β : Type} (elem spec : α → β × Int) (P : α → Prop) (c : Int)
    (h : ∀ x, P x → elem x = spec x) (hc : ∀ x, (spec x).2 = 0 ∨ (spec x).2 = c)
    (xs : List α) (hx : ∀ x ∈ xs, P x) :
    loopLast elem xs = (xs.map (fun x => (spec x).1), firstErr (xs.map (fun x => (spec x).2))) := by
  have hel : ∀ x ∈ xs, (elem x).2 = 0 ∨ (elem x).2 = c := fun x hxm => by
    rw [h x (hx x hxm)]; exact hc x
  rw [loopLast_spec elem c xs hel]
  have h1 : xs.map (fun x => (elem x).1) = xs.map (fun x => (spec x).1) :=
    List.map_congr_left (fun x hxm => by rw [h x (hx x hxm)])
  have h2 : xs.map (fun x => (elem x).2) = xs.map (fun x => (spec x).2) :=
    List.map_congr_left (fun x hxm => by rw [h x (hx x hxm)])
  rw [h1, h2]

/-- every specification function only ever reports NC_NOERR or NC_ERANGE -/
theorem specII_codes (lo hi fill v : Int) :
    (ConvSpec.specII lo hi fill v).2 = 0 ∨ (ConvSpec.specII lo hi fill v).2 = -60 := by
  unfold ConvSpec.specII ConvSpec.NC_NOERR ConvSpec.NC_ERANGE; split <;> simp
theorem specFI_codes (lo hi fill : Int) (v : FV) :
    (ConvSpec.specFI lo hi fill v).2 = 0 ∨ (ConvSpec.specFI lo hi fill v).2 = -60 := by
  unfold ConvSpec.specFI ConvSpec.NC_NOERR ConvSpec.NC_ERANGE
  cases v <;> simp
  split <;> simp

/-- the translator classified every getn/putn loop of ncx.c into one of the three modelled
    shapes and left no conversion function untranslated (fail-closed check made a theorem) -/
theorem every_loop_classified :
    ∀ p ∈ Gen.Ncx.loopShapes, p.2 = "firstErr" ∨ p.2 = "inline" ∨ p.2 = "memcpy" := by
  decide +kernel
theorem nothing_untranslatable : Gen.Ncx.untranslatable = [] := by decide

/-- instance of the lifting theorem on a real generated primitive (non-vacuity):
    a put of ints into NC_SHORT, any length, any mix of in-range and out-of-range values -/
theorem putn_SHORT_int_request (R : Rounding) (fill : Option Int) (cur : Int) (xs : List Int)
    (hx : ∀ x ∈ xs, (-2147483648 : Int) ≤ x ∧ x ≤ (2147483647 : Int)) :
    loopFirst (Gen.Ncx.put_NC_SHORT_int R fill cur) xs
      = (xs.map (fun x => (ConvSpec.specII (-32768) 32767 (fill.getD (-32767)) x).1),
         firstErr (xs.map (fun x => (ConvSpec.specII (-32768) 32767 (fill.getD (-32767)) x).2))) :=
  request_firstErr _ _ (fun x => (-2147483648 : Int) ≤ x ∧ x ≤ (2147483647 : Int))
    (fun x hx => Gen.NcxProofs.put_NC_SHORT_int_ok R fill cur x hx.1 hx.2) xs hx

example : loopFirst (Gen.Ncx.put_NC_SHORT_int Rounding.exact (some (-1)) 0) [5, 40000, -7, -40000]
    = ([5, -1, -7, -1], -60) := by decide

def obligations : List String := [
  "request_firstErr", "request_inline", "specII_codes", "specFI_codes",
  "every_loop_classified", "nothing_untranslatable", "putn_SHORT_int_request"
]
end PnVerif.Props.C09
