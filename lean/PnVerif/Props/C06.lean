import PnVerif.Lemmas.Redef
import PnVerif.Props.C16
/-
  C06 — redefinition preserves existing data; abort is all-or-nothing.

  Property theorems about the model `PnVerif.Model.Redef` (hand transcription of
  move_file_block / move_fixed_vars / move_record_vars / the moving decision of ncmpio__enddef /
  ncmpio_redef / ncmpio_abort).  All statements quantify over every process count ≥ 1, every
  MOVE_UNIT ≥ 1, every file content and length (including files shorter than the moved range:
  never-written data), both behaviours of MPI reads at the end of the file, every size and every record count including 0.
-/
namespace PnVerif.Props.C06
open PnVerif.Redef

/-- with bytes left to move the per-process chunk is never 0 (the C loop terminates) -/
theorem chunkSize_pos (n nprocs unit : Nat) (hn : 0 < n) (_hp : 1 ≤ nprocs) (hu : 1 ≤ unit) :
    0 < chunkSize n nprocs unit := by
  have hdm := Nat.div_add_mod n nprocs
  have hq : n % nprocs = 0 → 0 < n / nprocs := by
    intro h0
    apply Nat.pos_of_ne_zero
    intro hz; rw [hz, h0] at hdm; omega
  simp only [chunkSize]
  generalize n / nprocs = q at *
  generalize n % nprocs = m at *
  repeat' split
  all_goals omega

/-- `(int)chunk_size` in the C cannot truncate as long as MOVE_UNIT fits an int -/
theorem bufcount_fits_int (nprocs unit n nbytes rank : Nat) (hu : unit ≤ 2147483647) :
    bufcount nprocs (chunkSize n nprocs unit) nbytes rank ≤ 2147483647 := by
  have hc : chunkSize n nprocs unit ≤ unit := by
    simp only [chunkSize]
    repeat' split
    all_goals omega
  simp only [bufcount]
  by_cases h0 : chunkSize n nprocs unit = 0
  · simp [h0]
  · have := Nat.mod_lt nbytes (Nat.pos_of_ne_zero h0)
    split
    · split
      · omega
      · split <;> omega
    · omega

/-- observable effect of `move_file_block`: a block copy, for every `ReadMode` -/
theorem moveBlock_copied (m : ReadMode) (nprocs unit : Nat) (hp : 1 ≤ nprocs) (hu : 1 ≤ unit) (f : File)
    (dst src n : Nat) (hds : src ≤ dst) :
    Copied f (moveBlock m nprocs unit f dst src n) dst src 0 n := by
  unfold moveBlock
  by_cases h0 : n = 0
  · subst h0
    unfold moveLoop
    simp only [true_or, dite_true]
    exact ⟨fun j h1 h2 => by omega, fun j _ => rfl, Nat.le_refl _⟩
  · exact copied_moveLoop m nprocs _ dst src (chunkSize_pos n nprocs unit (by omega) hp hu) hp hds f n

/-- **moveBlock_correct**: for every number of processes, every MOVE_UNIT, every destination at or
    above the source, every length and every file (also one that ends inside the source range),
    after `move_file_block` every destination byte whose source byte exists holds that source byte,
    every byte outside the destination range is unchanged, and the file did not shrink. -/
theorem moveBlock_correct (m : ReadMode) (nprocs unit : Nat) (hp : 1 ≤ nprocs) (hu : 1 ≤ unit) (f : File)
    (dst src n : Nat) (hds : src ≤ dst) :
    (∀ i, i < n → src + i < f.length → rd (moveBlock m nprocs unit f dst src n) (dst + i) = rd f (src + i)) ∧
    (∀ j, (j < dst ∨ dst + n ≤ j) → rd (moveBlock m nprocs unit f dst src n) j = rd f j) ∧
    f.length ≤ (moveBlock m nprocs unit f dst src n).length := by
  obtain ⟨c1, c2, c3⟩ := moveBlock_copied m nprocs unit hp hu f dst src n hds
  refine ⟨fun i hi hs => ?_, fun j hj => c2 j (by omega), c3⟩
  have := c1 (dst + i) (by omega) (by omega) (by omega)
  rw [this]; congr 1; omega

/-- non-vacuity: 3 processes, MOVE_UNIT 4, 20 bytes moved up by 5 inside a 30-byte file (two rounds,
    overlapping source and destination), short-count reads -/
example (f : File) (hf : f.length = 30) :
    ∀ i, i < 20 → rd (moveBlock .short 3 4 f 7 2 20) (7 + i) = rd f (2 + i) :=
  fun i hi => (moveBlock_correct .short 3 4 (by decide) (by decide) f 7 2 20 (by decide)).1 i hi (by omega)

/-! ### record section -/

private theorem rd_moveRecsLoop (m : ReadMode) (nprocs unit : Nat) (hp : 1 ≤ nprocs) (hu : 1 ≤ unit)
    (newOff oldOff newRs oldRs : Nat) (hoff : oldOff ≤ newOff) (hrs : oldRs ≤ newRs) :
    ∀ (n : Nat) (f : File),
      (∀ r k, r < n → k < oldRs → oldOff + r * oldRs + k < f.length →
        rd (moveRecsLoop m nprocs unit newOff oldOff newRs oldRs f n) (newOff + r * newRs + k)
          = rd f (oldOff + r * oldRs + k)) ∧
      (∀ j, (j < newOff ∨ newOff + n * newRs ≤ j) →
        rd (moveRecsLoop m nprocs unit newOff oldOff newRs oldRs f n) j = rd f j) ∧
      f.length ≤ (moveRecsLoop m nprocs unit newOff oldOff newRs oldRs f n).length := by
  intro n
  induction n with
  | zero => intro f; exact ⟨fun r k hr => absurd hr (Nat.not_lt_zero _), fun j _ => rfl, Nat.le_refl _⟩
  | succ n ih =>
    intro f
    have hle : oldOff + n * oldRs ≤ newOff + n * newRs :=
      Nat.add_le_add hoff (Nat.mul_le_mul_left n hrs)
    obtain ⟨b1, b2, b3⟩ := moveBlock_correct m nprocs unit hp hu f (newOff + n * newRs) (oldOff + n * oldRs) oldRs hle
    obtain ⟨ih1, ih2, ih3⟩ := ih (moveBlock m nprocs unit f (newOff + n * newRs) (oldOff + n * oldRs) oldRs)
    have hsm : (n + 1) * newRs = n * newRs + newRs := Nat.succ_mul n newRs
    refine ⟨fun r k hr hk hs => ?_, fun j hj => ?_, Nat.le_trans b3 ih3⟩
    · show rd (moveRecsLoop m nprocs unit newOff oldOff newRs oldRs _ n) _ = _
      by_cases hrn : r < n
      · have h1 : (r + 1) * oldRs ≤ n * oldRs := Nat.mul_le_mul_right oldRs hrn
        rw [Nat.succ_mul] at h1
        rw [ih1 r k hrn hk (by omega), b2 _ (by omega)]
      · have : r = n := by omega
        subst this
        rw [ih2 _ (Or.inr (by omega))]
        exact b1 k hk (by omega)
    · show rd (moveRecsLoop m nprocs unit newOff oldOff newRs oldRs _ n) _ = _
      rw [ih2 j (by omega), b2 j (by omega)]

/-- **moveRecords_preserves**: for every record count (0 included), when the record section moves up
    (`newOff ≥ oldOff`) and the record size stays or grows, every existing byte of record `r` of the
    old layout lands at `newOff + r*newRs`; nothing below `newOff` (header, fixed-size variables)
    and nothing above the new record section is touched; the file does not shrink. -/
theorem moveRecords_preserves (m : ReadMode) (nprocs unit : Nat) (hp : 1 ≤ nprocs) (hu : 1 ≤ unit) (f : File)
    (newOff oldOff newRs oldRs nrecs : Nat) (hoff : oldOff ≤ newOff) (hrs : oldRs ≤ newRs) :
    (∀ r k, r < nrecs → k < oldRs → oldOff + r * oldRs + k < f.length →
      rd (moveRecords m nprocs unit f newOff oldOff newRs oldRs nrecs) (newOff + r * newRs + k)
        = rd f (oldOff + r * oldRs + k)) ∧
    (∀ j, (j < newOff ∨ newOff + nrecs * newRs ≤ j) →
      rd (moveRecords m nprocs unit f newOff oldOff newRs oldRs nrecs) j = rd f j) ∧
    f.length ≤ (moveRecords m nprocs unit f newOff oldOff newRs oldRs nrecs).length := by
  unfold moveRecords
  by_cases he : newRs = oldRs
  · subst he
    rw [if_pos rfl]
    by_cases hz : newRs = 0
    · rw [if_pos hz]
      exact ⟨fun r k _ hk => by omega, fun j _ => rfl, Nat.le_refl _⟩
    · rw [if_neg hz]
      obtain ⟨b1, b2, b3⟩ := moveBlock_correct m nprocs unit hp hu f newOff oldOff (newRs * nrecs) hoff
      have hc : newRs * nrecs = nrecs * newRs := Nat.mul_comm _ _
      refine ⟨fun r k hr hk hs => ?_, fun j hj => b2 j (by omega), b3⟩
      have h1 : (r + 1) * newRs ≤ nrecs * newRs := Nat.mul_le_mul_right newRs hr
      rw [Nat.succ_mul] at h1
      have := b1 (r * newRs + k) (by omega) (by omega)
      rw [← Nat.add_assoc, ← Nat.add_assoc] at this
      exact this
  · rw [if_neg he]
    exact rd_moveRecsLoop m nprocs unit hp hu newOff oldOff newRs oldRs hoff hrs nrecs f

/-- non-vacuity: a single 3-byte record variable (unpadded records) gets a companion, recsize 3 → 8,
    record section 40 → 64, 5 records, 2 processes, MOVE_UNIT 2, full-count reads with arbitrary junk -/
example (junk : Nat → UInt8) (f : File) (hf : f.length = 55) :
    ∀ r k, r < 5 → k < 3 → rd (moveRecords (.full junk) 2 2 f 64 40 8 3 5) (64 + r * 8 + k) = rd f (40 + r * 3 + k) :=
  fun r k hr hk => (moveRecords_preserves (.full junk) 2 2 (by decide) (by decide) f 64 40 8 3 5 (by decide) (by decide)).1
    r k hr hk (by omega)

/-! ### fixed-size variables -/

/-- What `NC_begins` guarantees about the fixed-size variables that existed before the redefinition
    (checked on every real layout by the harness, see checks/c06.py `layout oracle`): no begin
    moves down, and in both layouts the variables follow each other in definition order without
    overlap. -/
def FixedOK : List MVar → Prop
  | [] => True
  | v :: vs =>
    (v.isRec = false →
      v.oldBegin ≤ v.newBegin ∧
      ∀ w ∈ vs, w.isRec = false → v.oldBegin + v.len ≤ w.oldBegin ∧ v.newBegin + v.len ≤ w.newBegin)
    ∧ FixedOK vs

theorem FixedOK.ge : ∀ {vars : List MVar}, FixedOK vars → ∀ v ∈ vars, v.isRec = false → v.oldBegin ≤ v.newBegin
  | [], _, v, hv, _ => by cases hv
  | u :: us, h, v, hv, hf => by
    cases hv with
    | head => exact (h.1 hf).1
    | tail _ hm => exact FixedOK.ge h.2 v hm hf

private theorem copied_moveFixedStep (m : ReadMode) (nprocs unit : Nat) (hp : 1 ≤ nprocs) (hu : 1 ≤ unit)
    (v : MVar) (g : File) (hge : v.isRec = false → v.oldBegin ≤ v.newBegin) :
    (v.isRec = false → ∀ k, k < v.len → v.oldBegin + k < g.length →
      rd (moveFixedStep m nprocs unit v g) (v.newBegin + k) = rd g (v.oldBegin + k)) ∧
    (∀ j, (v.isRec = false → j < v.newBegin ∨ v.newBegin + v.len ≤ j) →
      rd (moveFixedStep m nprocs unit v g) j = rd g j) ∧
    g.length ≤ (moveFixedStep m nprocs unit v g).length := by
  unfold moveFixedStep
  by_cases hr : v.isRec = true
  · simp [hr]
  · have hr' : v.isRec = false := by simpa using hr
    simp only [hr', Bool.false_eq_true, if_false]
    by_cases hm : v.newBegin > v.oldBegin
    · rw [if_pos hm]
      obtain ⟨b1, b2, b3⟩ := moveBlock_correct m nprocs unit hp hu g v.newBegin v.oldBegin v.len (hge hr')
      exact ⟨fun _ k hk hs => b1 k hk hs, fun j hj => b2 j (hj trivial), b3⟩
    · rw [if_neg hm]
      have : v.newBegin = v.oldBegin := by have := hge hr'; omega
      exact ⟨fun _ k _ _ => by rw [this], fun j _ => rfl, Nat.le_refl _⟩

/-- **moveFixed_preserves**: moving the fixed-size variables last-to-first keeps every existing byte
    of every one of them (old place → new place), writes nowhere outside their new places and
    never shrinks the file. -/
theorem moveFixed_preserves (m : ReadMode) (nprocs unit : Nat) (hp : 1 ≤ nprocs) (hu : 1 ≤ unit) (f : File) :
    ∀ (vars : List MVar), FixedOK vars →
      (∀ v ∈ vars, v.isRec = false → ∀ k, k < v.len → v.oldBegin + k < f.length →
        rd (moveFixed m nprocs unit f vars) (v.newBegin + k) = rd f (v.oldBegin + k)) ∧
      (∀ j, (∀ v ∈ vars, v.isRec = false → j < v.newBegin ∨ v.newBegin + v.len ≤ j) →
        rd (moveFixed m nprocs unit f vars) j = rd f j) ∧
      f.length ≤ (moveFixed m nprocs unit f vars).length := by
  intro vars
  induction vars with
  | nil => intro _; exact ⟨fun v hv => (by cases hv), fun j _ => rfl, Nat.le_refl _⟩
  | cons v vs ih =>
    intro hok
    obtain ⟨ih1, ih2, ih3⟩ := ih hok.2
    obtain ⟨s1, s2, s3⟩ := copied_moveFixedStep m nprocs unit hp hu v (moveFixed m nprocs unit f vs)
      (fun h => (hok.1 h).1)
    have hvs_ge := FixedOK.ge hok.2
    refine ⟨fun w hw hwf k hk hs => ?_, fun j hj => ?_, Nat.le_trans ih3 s3⟩
    · show rd (moveFixedStep m nprocs unit v (moveFixed m nprocs unit f vs)) _ = _
      cases hw with
      | head =>
        rw [s1 hwf k hk (by omega)]
        apply ih2
        intro u hu huf
        have h1 := ((hok.1 hwf).2 u hu huf).1
        have h2 := hvs_ge u hu huf
        omega
      | tail _ hm =>
        rw [s2]
        · exact ih1 w hm hwf k hk hs
        · intro hvf
          have h1 := ((hok.1 hvf).2 w hm hwf).2
          omega
    · show rd (moveFixedStep m nprocs unit v (moveFixed m nprocs unit f vs)) _ = _
      rw [s2 j (fun hvf => hj v (List.mem_cons_self) hvf)]
      exact ih2 j (fun u hu huf => hj u (List.mem_cons_of_mem _ hu) huf)

/-- a concrete layout meeting `FixedOK`: header grew by 24 bytes, a record variable in between -/
example : FixedOK [⟨100, 124, 10, false⟩, ⟨0, 0, 8, true⟩, ⟨112, 136, 40, false⟩] := by
  simp [FixedOK]

/-! ### the whole moving step of ncmpio__enddef -/

/-- Facts about the pair (layout before redef, layout computed by NC_begins at enddef) under which
    the moving code is correct.  Every item is evaluated by checks/c06.py on every layout pair the
    real library produces (a failing item there is reported as a failing input of the property). -/
structure LayoutOK (old new : Lay) (nvars : Nat) (vars : List MVar) : Prop where
  fixed : FixedOK vars
  recGe : old.beginRec ≤ new.beginRec
  rsGe : old.recsize ≤ new.recsize
  fixedBelowOld : ∀ v ∈ vars, v.isRec = false → v.oldBegin + v.len ≤ old.beginRec
  fixedBelowNew : ∀ v ∈ vars, v.isRec = false → v.newBegin + v.len ≤ new.beginRec
  /-- if the header extent did not grow NC_begins reuses every old begin of a fixed-size variable -/
  sameIfNoGrow : new.beginVar ≤ old.beginVar → ∀ v ∈ vars, v.isRec = false → v.newBegin = v.oldBegin
  nvarsGe : vars.length ≤ nvars
  recNeedsVar : 0 < old.recsize → 0 < vars.length

/-- **enddefMove_preserves**: whatever branch `ncmpio__enddef` takes, every existing byte of every
    fixed-size variable that existed before is kept (at the variable's new begin) and every existing
    byte of every record (for every numrecs, 0 included) is kept at `new.beginRec + r * new.recsize`. -/
theorem enddefMove_preserves (m : ReadMode) (nprocs unit : Nat) (hp : 1 ≤ nprocs) (hu : 1 ≤ unit) (f : File)
    (old new : Lay) (nvars numrecs : Nat) (vars : List MVar) (h : LayoutOK old new nvars vars) :
    (∀ v ∈ vars, v.isRec = false → ∀ k, k < v.len → v.oldBegin + k < f.length →
      rd (enddefMove m nprocs unit f old new nvars numrecs vars) (v.newBegin + k) = rd f (v.oldBegin + k)) ∧
    (∀ r k, r < numrecs → k < old.recsize → old.beginRec + r * old.recsize + k < f.length →
      rd (enddefMove m nprocs unit f old new nvars numrecs vars) (new.beginRec + r * new.recsize + k)
        = rd f (old.beginRec + r * old.recsize + k)) := by
  obtain ⟨hr1, hr2, hr3⟩ := moveRecords_preserves m nprocs unit hp hu f new.beginRec old.beginRec
    new.recsize old.recsize numrecs h.recGe h.rsGe
  unfold enddefMove
  by_cases hn : nvars > 0
  · rw [if_pos hn]
    by_cases hv : new.beginVar > old.beginVar
    · rw [if_pos hv]
      simp only []
      obtain ⟨hf1, hf2, _⟩ := moveFixed_preserves m nprocs unit hp hu
        (moveRecords m nprocs unit f new.beginRec old.beginRec new.recsize old.recsize numrecs) vars h.fixed
      constructor
      · intro v hvm hvf k hk hs
        rw [hf1 v hvm hvf k hk (by omega)]
        apply hr2
        have := h.fixedBelowOld v hvm hvf
        have := h.recGe
        omega
      · intro r k hr hk hs
        rw [hf2]
        · exact hr1 r k hr hk hs
        · intro v hvm hvf
          have := h.fixedBelowNew v hvm hvf
          omega
    · rw [if_neg hv]
      have hsame := h.sameIfNoGrow (by omega)
      by_cases hm : new.beginRec > old.beginRec ∨ new.recsize > old.recsize
      · rw [if_pos hm]
        constructor
        · intro v hvm hvf k hk _
          rw [hsame v hvm hvf]
          apply hr2
          have := h.fixedBelowOld v hvm hvf
          have := h.recGe
          omega
        · exact hr1
      · rw [if_neg hm]
        have e1 : new.beginRec = old.beginRec := by have := h.recGe; omega
        have e2 : new.recsize = old.recsize := by have := h.rsGe; omega
        constructor
        · intro v hvm hvf k _ _
          rw [hsame v hvm hvf]
        · intro r k _ _ _
          rw [e1, e2]
  · rw [if_neg hn]
    have hl : vars.length = 0 := by have := h.nvarsGe; omega
    constructor
    · intro v hvm
      have : vars = [] := List.eq_nil_of_length_eq_zero hl
      rw [this] at hvm; cases hvm
    · intro r k _ hk
      have := h.recNeedsVar (by omega)
      omega

/-- a concrete instance of `LayoutOK`: one fixed variable (40 bytes) and one 3-byte record variable;
    the header extent grows 100 → 124 and a second record variable makes the record size 3 → 12 -/
example : LayoutOK ⟨100, 140, 3⟩ ⟨124, 164, 12⟩ 3 [⟨100, 124, 40, false⟩, ⟨140, 164, 4, true⟩] where
  fixed := by simp [FixedOK]
  recGe := by decide
  rsGe := by decide
  fixedBelowOld := by simp
  fixedBelowNew := by simp
  sameIfNoGrow := by simp
  nvarsGe := by decide
  recNeedsVar := by simp

/-! ### enddef = move + fill of the new variables -/
open PnVerif.Fill in
/-- **enddef_fill_touches_only_new**: the fill that `ncmpi_enddef` performs after the move (new fill-mode
    variables, and their slots in the `numrecs` EXISTING records) writes only inside the new variables
    (`PnVerif.Props.C16.fill_effect`); if — as NC_begins lays them out — those slots are disjoint from the new
    places of the old variables and of the old records (`hdisjF`, `hdisjR`; evaluated by checks/c06.py on the
    real layouts, and the real per-rank fill ranges are checked to lie inside those slots), then after the
    WHOLE enddef (move + fill) every existing byte of every old fixed-size variable and of every old record is
    still what it was before the redefinition. -/
theorem enddef_fill_touches_only_new (m : ReadMode) (nprocs unit : Nat) (hp : 1 ≤ nprocs) (hu : 1 ≤ unit) (f : File)
    (old new : Lay) (nvars numrecs : Nat) (vars : List MVar) (h : LayoutOK old new nvars vars)
    (elem : FVar → List UInt8) (helem : ∀ v, (elem v).length = v.xsz) (newVars : List FVar) (recBase : Nat)
    (hnl : PnVerif.Props.C16.NewLayoutOK recBase new.recsize newVars)
    (hdisjF : ∀ b, PnVerif.Props.C16.InFillSlot new.recsize numrecs newVars b →
      ∀ v ∈ vars, v.isRec = false → b < v.newBegin ∨ v.newBegin + v.len ≤ b)
    (hdisjR : ∀ b, PnVerif.Props.C16.InFillSlot new.recsize numrecs newVars b →
      ∀ r, r < numrecs → b < new.beginRec + r * new.recsize ∨ new.beginRec + r * new.recsize + old.recsize ≤ b) :
    (∀ b, ¬ PnVerif.Props.C16.InFillSlot new.recsize numrecs newVars b →
      rd (enddefAll m nprocs unit f old new nvars numrecs vars elem newVars) b
        = rd (enddefMove m nprocs unit f old new nvars numrecs vars) b) ∧
    (∀ v ∈ vars, v.isRec = false → ∀ k, k < v.len → v.oldBegin + k < f.length →
      rd (enddefAll m nprocs unit f old new nvars numrecs vars elem newVars) (v.newBegin + k) = rd f (v.oldBegin + k)) ∧
    (∀ r k, r < numrecs → k < old.recsize → old.beginRec + r * old.recsize + k < f.length →
      rd (enddefAll m nprocs unit f old new nvars numrecs vars elem newVars) (new.beginRec + r * new.recsize + k)
        = rd f (old.beginRec + r * old.recsize + k)) := by
  have hfill := (PnVerif.Props.C16.fill_effect nprocs recBase new.recsize numrecs hp elem helem newVars hnl
    (enddefMove m nprocs unit f old new nvars numrecs vars)).2.2
  obtain ⟨hm1, hm2⟩ := enddefMove_preserves m nprocs unit hp hu f old new nvars numrecs vars h
  refine ⟨fun b hb => hfill b hb, fun v hv hvf k hk hs => ?_, fun r k hr hk hs => ?_⟩
  · unfold enddefAll
    rw [hfill _ (fun hin => by have := hdisjF _ hin v hv hvf; omega)]
    exact hm1 v hv hvf k hk hs
  · unfold enddefAll
    rw [hfill _ (fun hin => by have := hdisjR _ hin r hr; omega)]
    exact hm2 r k hr hk hs

/-- non-vacuity of `hdisjF`/`hdisjR`: the layout of the `LayoutOK` example below (fixed variable at 124..164,
    4-byte old records at 164 + 12·r) and a new fill-mode record variable of 2 ints at offset 4 of every record -/
example : ∀ b, PnVerif.Props.C16.InFillSlot 12 3 [(⟨168, 4, 2, true, false⟩ : PnVerif.Fill.FVar)] b →
    (b < 124 ∨ 124 + 40 ≤ b) ∧ ∀ r, r < 3 → b < 164 + r * 12 ∨ 164 + r * 12 + 4 ≤ b := by
  intro b ⟨v, hv, _, hk⟩
  have hv' : v = ⟨168, 4, 2, true, false⟩ := by simpa using hv
  subst hv'
  rcases hk with ⟨h1, _⟩ | ⟨_, recno, _, h1, h2⟩
  · cases h1
  · simp only [PnVerif.Props.C16.vbytes] at h1 h2
    refine ⟨by omega, fun r _ => by omega⟩

/-! ### abort -/

/-- **abort_redef_identity**: entering define mode from data mode (collective or independent) and
    aborting leaves the disk exactly as it was when `ncmpi_redef` returned: abort writes nothing. -/
theorem abort_redef_identity (sync : File → File) (s : NCState) (d : Disk)
    (hdata : s.indef = false) (hnew : s.isNew = false) :
    abort sync (redef sync s d).1 (redef sync s d).2 = (redef sync s d).2 := by
  unfold redef abort endIndep
  cases hi : s.indep <;> simp [hi, hdata, hnew]

/-- the hypotheses of `abort_redef_identity` hold in a reachable state in which abort WOULD write if
    redef had not left independent mode (independent data mode, record variables present) -/
example : (⟨false, false, true, false, false, 2⟩ : NCState).indef = false ∧
          (⟨false, false, true, false, false, 2⟩ : NCState).isNew = false := by decide

/-- **abort_create_removes**: aborting a file that is still in its initial define mode removes it -/
theorem abort_create_removes (sync : File → File) (s : NCState) (d : Disk) (hnew : s.isNew = true) :
    abort sync s d = none := by
  unfold abort
  simp [hnew]

example : abort id ⟨true, true, false, false, false, 0⟩ (some [67, 68, 70, 1]) = none := by
  simp [abort]

/-- **define_mode_ops_write_nothing**: any sequence of metadata calls (definitions, attribute puts, deletes,
    renames, `ncmpi_copy_att` from a source file in ANY mode, fill settings) on a file that is in define mode
    leaves the disk exactly as it is; together with `abort_redef_identity` this is why an aborted redefinition
    is invisible.  (Tie: checks/c06.py snapshots the file after define-mode calls, incl. `ncmpi_copy_att` from
    a second file in data mode, and compares byte for byte.) -/
theorem define_mode_ops_write_nothing (writeHdr : File → File) (s : NCState) (hdef : s.indef = true)
    (ops : List MetaOp) (d : Disk) : ops.foldl (metaOpDisk writeHdr s) d = d := by
  induction ops generalizing d with
  | nil => rfl
  | cons op ops ih => simp only [List.foldl_cons, metaOpDisk, hdef, if_true]; exact ih d

/-- the other direction: `ncmpi_copy_att` INTO a file in data mode writes that file's header at once, whatever
    the mode of the source file -/
theorem copyAtt_data_mode_writes (writeHdr : File → File) (s : NCState) (hdata : s.indef = false)
    (srcIndef : Bool) (d : Disk) : metaOpDisk writeHdr s d (.copyAtt srcIndef) = d.map writeHdr := by
  simp [metaOpDisk, hdata, MetaOp.inDataMode]

example : (⟨false, true, false, false, true, 1⟩ : NCState).indef = true := rfl   -- a file under redefinition

/-- in data mode (not new, no pending redefinition) abort keeps the file (it is a close) -/
theorem abort_data_keeps (sync : File → File) (s : NCState) (f : File)
    (hnew : s.isNew = false) : (abort sync s (some f)).isSome = true := by
  unfold abort endIndep
  simp [hnew]
  repeat' split
  all_goals simp

def obligations : List String := [
  "chunkSize_pos", "bufcount_fits_int", "moveBlock_copied", "moveBlock_correct",
  "moveRecords_preserves", "moveFixed_preserves", "enddefMove_preserves", "enddef_fill_touches_only_new",
  "abort_redef_identity", "abort_create_removes", "abort_data_keeps",
  "define_mode_ops_write_nothing", "copyAtt_data_mode_writes"
]
end PnVerif.Props.C06
