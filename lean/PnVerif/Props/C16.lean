import PnVerif.Model.Fill
import PnVerif.Lemmas.Redef
/-
  C16 — fill-value semantics: theorems about the model `PnVerif.Model.Fill`
  (share arithmetic, the plan of `fillerup_aggregate`, `fill_var_rec`, default fill bytes, fill-mode
  bookkeeping).  All statements are for every length, every process count ≥ 1, every rank, every
  record count and every list of new variables.
-/
namespace PnVerif.Props.C16
open PnVerif.Fill
open PnVerif.Redef (File rd writeAt rd_writeAt)

/-! ### shares -/

theorem share_start (len p r : Nat) : (share len p r).1 = (len / p) * r + min r (len % p) := by
  unfold share
  simp only []
  split
  · rw [Nat.min_eq_left (by omega)]
  · rw [Nat.min_eq_right (by omega)]

theorem share_count (len p r : Nat) : (share len p r).2 = len / p + (if r < len % p then 1 else 0) := by
  unfold share
  simp only []
  split <;> rfl

/-- the shares are consecutive: each one starts where the previous one ends -/
theorem share_consecutive (len p r : Nat) :
    (share len p r).1 + (share len p r).2 = (share len p (r + 1)).1 := by
  rw [share_start, share_count, share_start, Nat.mul_succ]
  split
  · rw [Nat.min_eq_left (by omega), Nat.min_eq_left (by omega)]; omega
  · rw [Nat.min_eq_right (by omega), Nat.min_eq_right (by omega)]; omega

theorem share_first (len p : Nat) : (share len p 0).1 = 0 := by
  rw [share_start]; simp

/-- the (virtual) share after the last process starts at `len`: nothing is left over -/
theorem share_last (len p : Nat) (hp : 1 ≤ p) : (share len p p).1 = len := by
  rw [share_start, Nat.min_eq_right (Nat.le_of_lt (Nat.mod_lt _ hp))]
  have := Nat.div_add_mod len p
  rw [Nat.mul_comm] at this
  exact this

theorem share_start_mono (len p a b : Nat) (h : a ≤ b) : (share len p a).1 ≤ (share len p b).1 := by
  rw [share_start, share_start]
  have h1 : len / p * a ≤ len / p * b := Nat.mul_le_mul_left _ h
  have h2 : min a (len % p) ≤ min b (len % p) := by omega
  omega

/-- every share lies inside `[0, len)` -/
theorem share_within (len p r : Nat) (hp : 1 ≤ p) (hr : r < p) :
    (share len p r).1 + (share len p r).2 ≤ len := by
  rw [share_consecutive]
  have := share_start_mono len p (r + 1) p hr
  rw [share_last len p hp] at this
  exact this

/-- element `i` belongs to the share of process `r` -/
def InShare (len p r i : Nat) : Prop := (share len p r).1 ≤ i ∧ i < (share len p r).1 + (share len p r).2

private theorem exists_share (len p i : Nat) :
    ∀ k, i < (share len p k).1 → ∃ r, r < k ∧ InShare len p r i := by
  intro k
  induction k with
  | zero => intro h; rw [share_first] at h; omega
  | succ k ih =>
    intro h
    by_cases hk : i < (share len p k).1
    · obtain ⟨r, hr, hin⟩ := ih hk
      exact ⟨r, by omega, hin⟩
    · refine ⟨k, by omega, by omega, ?_⟩
      rw [share_consecutive]; exact h

/-- **shares_partition**: for every length and every process count ≥ 1 (also when `nprocs` does not
    divide `len`, also when `nprocs > len`), every element index below `len` lies in the share of
    exactly one process — every element is filled exactly once — and no share reaches beyond `len`. -/
theorem shares_partition (len p : Nat) (hp : 1 ≤ p) :
    (∀ i, i < len → ∃ r, r < p ∧ InShare len p r i ∧ ∀ r', r' < p → InShare len p r' i → r' = r) ∧
    (∀ r, r < p → (share len p r).1 + (share len p r).2 ≤ len) := by
  refine ⟨fun i hi => ?_, fun r hr => share_within len p r hp hr⟩
  obtain ⟨r, hr, hin⟩ := exists_share len p i p (by rw [share_last len p hp]; exact hi)
  refine ⟨r, hr, hin, fun r' _ hin' => ?_⟩
  -- two different shares cannot both contain i: starts are monotone and shares consecutive
  rcases Nat.lt_trichotomy r' r with hlt | heq | hgt
  · have := share_start_mono len p (r' + 1) r hlt
    have h2 := hin'.2; rw [share_consecutive] at h2
    have := hin.1; omega
  · exact heq
  · have := share_start_mono len p (r + 1) r' hgt
    have h2 := hin.2; rw [share_consecutive] at h2
    have := hin'.1; omega

/-- non-vacuity: 5 processes, 3 elements (more processes than elements): element 2 is in exactly one share -/
example : ∃ r, r < 5 ∧ InShare 3 5 r 2 ∧ ∀ r', r' < 5 → InShare 3 5 r' 2 → r' = r :=
  (shares_partition 3 5 (by decide)).1 2 (by decide)
example : share 7 3 0 = (0, 3) ∧ share 7 3 1 = (3, 2) ∧ share 7 3 2 = (5, 2) := by decide
example : share 2 5 0 = (0, 1) ∧ share 2 5 1 = (1, 1) ∧ share 2 5 2 = (2, 0) ∧ share 2 5 4 = (2, 0) := by decide

/-! ### the plan of fillerup_aggregate -/

/-- bytes occupied by one instance (the whole fixed variable / one record) of `v` -/
def vbytes (v : FVar) : Nat := v.varLen * v.xsz

/-- the segment of a process lies inside the instance it was computed for -/
theorem segOf_within (p r : Nat) (hp : 1 ≤ p) (hr : r < p) (v : FVar) (base : Nat) :
    base ≤ (segOf p r v base).off ∧
    (segOf p r v base).off + (segOf p r v base).len ≤ base + vbytes v := by
  unfold segOf vbytes
  simp only []
  have h := share_within v.varLen p r hp hr
  have h2 : ((share v.varLen p r).1 + (share v.varLen p r).2) * v.xsz ≤ v.varLen * v.xsz :=
    Nat.mul_le_mul_right _ h
  rw [Nat.add_mul] at h2
  omega

/-- byte `b` lies in a slot of a fill-mode variable of `vars`: in the variable itself if it is
    fixed-size, in its part of one of the `nrecs` existing records if it is a record variable -/
def InFillSlot (recsize nrecs : Nat) (vars : List FVar) (b : Nat) : Prop :=
  ∃ v ∈ vars, v.noFill = false ∧
    ((v.isRec = false ∧ v.begin ≤ b ∧ b < v.begin + vbytes v) ∨
     (v.isRec = true ∧ ∃ recno, recno < nrecs ∧
        v.begin + recsize * recno ≤ b ∧ b < v.begin + recsize * recno + vbytes v))

/-- **plan_targets_new_only**: every byte any process plans to write lies inside a NEW variable that
    is in fill mode — inside the variable for a fixed-size one, inside its slot of an EXISTING record
    for a record variable.  (`vars` are the variables added by the redefinition.) -/
theorem plan_targets_new_only (p r recsize nrecs : Nat) (hp : 1 ≤ p) (hr : r < p) (vars : List FVar)
    (s : Seg) (hs : s ∈ fillPlan p r recsize nrecs vars) (b : Nat) (hb : s.off ≤ b ∧ b < s.off + s.len) :
    InFillSlot recsize nrecs vars b := by
  unfold fillPlan at hs
  rcases List.mem_append.mp hs with h | h
  · unfold fixedSegs at h
    obtain ⟨v, hv, hsv⟩ := List.mem_filterMap.mp h
    by_cases hc : (v.noFill || v.isRec) = true
    · simp [hc] at hsv
    · simp only [hc, if_false, Option.some.injEq, Bool.false_eq_true] at hsv
      have hnf : v.noFill = false := by cases h1 : v.noFill <;> simp_all
      have hnr : v.isRec = false := by cases h1 : v.isRec <;> simp_all
      have hw := segOf_within p r hp hr v v.begin
      rw [hsv] at hw
      exact ⟨v, hv, hnf, Or.inl ⟨hnr, by omega, by omega⟩⟩
  · obtain ⟨recno, hrec, hin⟩ := List.mem_flatMap.mp h
    have hrn : recno < nrecs := List.mem_range.mp hrec
    unfold recSegs at hin
    obtain ⟨v, hv, hsv⟩ := List.mem_filterMap.mp hin
    by_cases hc : (v.noFill || !v.isRec) = true
    · simp [hc] at hsv
    · simp only [hc, if_false, Option.some.injEq, Bool.false_eq_true] at hsv
      have hnf : v.noFill = false := by cases h1 : v.noFill <;> simp_all
      have hir : v.isRec = true := by cases h1 : v.isRec <;> simp_all
      have hw := segOf_within p r hp hr v (v.begin + recsize * recno)
      rw [hsv] at hw
      exact ⟨v, hv, hnf, Or.inr ⟨hir, recno, hrn, by omega, by omega⟩⟩

/-- **plan_avoids** (old data untouched / no-fill variables untouched): a byte that lies in no slot
    of a fill-mode new variable — e.g. any byte of a variable that existed before (disjoint from the
    new ones by the layout), any byte of a new variable in no-fill mode, any byte of a record that
    does not exist yet — is written by no process. -/
theorem plan_avoids (p recsize nrecs : Nat) (hp : 1 ≤ p) (vars : List FVar) (b : Nat)
    (hfree : ¬ InFillSlot recsize nrecs vars b) :
    ∀ r, r < p → ∀ s ∈ fillPlan p r recsize nrecs vars, ¬ (s.off ≤ b ∧ b < s.off + s.len) :=
  fun r hr s hs hb => hfree (plan_targets_new_only p r recsize nrecs hp hr vars s hs b hb)

/-- a no-fill variable contributes nothing, whatever the other variables are -/
theorem nofill_no_segment (p r recsize nrecs : Nat) (v : FVar) (hv : v.noFill = true) :
    fillPlan p r recsize nrecs [v] = [] := by
  unfold fillPlan fixedSegs recSegs
  simp [hv]

/-- **plan_covers**: every element of every fill-mode new variable (of every existing record, for a
    record variable) is inside the segment of some process: together with `shares_partition`
    (exactly one process) the whole variable is filled, by the processes collectively, exactly once. -/
theorem plan_covers (p recsize nrecs : Nat) (hp : 1 ≤ p) (vars : List FVar) (v : FVar) (hv : v ∈ vars)
    (hnf : v.noFill = false) (e : Nat) (he : e < v.varLen) :
    (v.isRec = false → ∃ r, r < p ∧ ∃ s ∈ fillPlan p r recsize nrecs vars,
        s.off ≤ v.begin + e * v.xsz ∧ v.begin + (e + 1) * v.xsz ≤ s.off + s.len) ∧
    (v.isRec = true → ∀ recno, recno < nrecs → ∃ r, r < p ∧ ∃ s ∈ fillPlan p r recsize nrecs vars,
        s.off ≤ v.begin + recsize * recno + e * v.xsz ∧
        v.begin + recsize * recno + (e + 1) * v.xsz ≤ s.off + s.len) := by
  obtain ⟨r, hr, hin, _⟩ := (shares_partition v.varLen p hp).1 e he
  have hcov : ∀ base, (segOf p r v base).off ≤ base + e * v.xsz ∧
      base + (e + 1) * v.xsz ≤ (segOf p r v base).off + (segOf p r v base).len := by
    intro base
    unfold segOf
    simp only []
    have h1 : (share v.varLen p r).1 * v.xsz ≤ e * v.xsz := Nat.mul_le_mul_right _ hin.1
    have h2 : (e + 1) * v.xsz ≤ ((share v.varLen p r).1 + (share v.varLen p r).2) * v.xsz :=
      Nat.mul_le_mul_right _ hin.2
    have h3 : (e + 1) * v.xsz = e * v.xsz + v.xsz := Nat.succ_mul e v.xsz
    have h4 : ((share v.varLen p r).1 + (share v.varLen p r).2) * v.xsz
        = (share v.varLen p r).1 * v.xsz + (share v.varLen p r).2 * v.xsz := Nat.add_mul _ _ _
    omega
  constructor
  · intro hnr
    refine ⟨r, hr, segOf p r v v.begin, ?_, hcov v.begin⟩
    unfold fillPlan
    apply List.mem_append_left
    unfold fixedSegs
    exact List.mem_filterMap.mpr ⟨v, hv, by simp [hnf, hnr]⟩
  · intro hir recno hrn
    refine ⟨r, hr, segOf p r v (v.begin + recsize * recno), ?_, ?_⟩
    · unfold fillPlan
      apply List.mem_append_right
      refine List.mem_flatMap.mpr ⟨recno, List.mem_range.mpr hrn, ?_⟩
      unfold recSegs
      exact List.mem_filterMap.mpr ⟨v, hv, by simp [hnf, hir]⟩
    · have := hcov (v.begin + recsize * recno)
      omega

/-! #### monotone offsets (legal file view) -/

/-- layout facts about the new variables (what NC_begins produces; evaluated by checks/c16.py on
    every real layout): in definition order the fixed-size ones follow each other below
    `recBase` (= begin_rec), the record ones follow each other inside one record. -/
structure NewLayoutOK (recBase recsize : Nat) (vars : List FVar) : Prop where
  ordered : vars.Pairwise fun v w => v.isRec = w.isRec → v.begin + vbytes v ≤ w.begin
  fixedBelow : ∀ v ∈ vars, v.isRec = false → v.begin + vbytes v ≤ recBase
  recInside : ∀ v ∈ vars, v.isRec = true → recBase ≤ v.begin ∧ v.begin + vbytes v ≤ recBase + recsize

/-- segment `a` ends before segment `b` starts -/
def Before (a b : Seg) : Prop := a.off + a.len ≤ b.off

/-- **plan_monotone**: the displacements handed to MPI_Type_create_hindexed are monotonically
    non-decreasing and the blocks do not overlap (each block ends before the next begins; strictly
    increasing offsets whenever the earlier block is non-empty) — for every rank of every process
    count, every number of existing records. -/
theorem plan_monotone (p r recBase recsize nrecs : Nat) (hp : 1 ≤ p) (hr : r < p) (vars : List FVar)
    (h : NewLayoutOK recBase recsize vars) :
    (fillPlan p r recsize nrecs vars).Pairwise Before := by
  have hw := fun v base => segOf_within p r hp hr v base
  -- the fixed part
  have hfix : (fixedSegs p r vars).Pairwise Before := by
    unfold fixedSegs
    rw [List.pairwise_filterMap]
    refine h.ordered.imp ?_
    intro v w hvw a ha b hb
    by_cases hc : (v.noFill || v.isRec) = true
    · simp [hc] at ha
    · by_cases hd : (w.noFill || w.isRec) = true
      · simp [hd] at hb
      · simp only [hc, hd, if_false, Option.some.injEq, Bool.false_eq_true] at ha hb
        have h1 : v.isRec = false := by cases h1 : v.isRec <;> simp_all
        have h2 : w.isRec = false := by cases h1 : w.isRec <;> simp_all
        have := hvw (by rw [h1, h2])
        have ha' := hw v v.begin; have hb' := hw w w.begin
        rw [ha] at ha'; rw [hb] at hb'
        unfold Before; omega
  -- one record
  have hrec1 : ∀ recno, (recSegs p r recsize recno vars).Pairwise Before := by
    intro recno
    unfold recSegs
    rw [List.pairwise_filterMap]
    refine h.ordered.imp ?_
    intro v w hvw a ha b hb
    by_cases hc : (v.noFill || !v.isRec) = true
    · simp [hc] at ha
    · by_cases hd : (w.noFill || !w.isRec) = true
      · simp [hd] at hb
      · simp only [hc, hd, if_false, Option.some.injEq, Bool.false_eq_true] at ha hb
        have h1 : v.isRec = true := by cases h1 : v.isRec <;> simp_all
        have h2 : w.isRec = true := by cases h1 : w.isRec <;> simp_all
        have := hvw (by rw [h1, h2])
        have ha' := hw v (v.begin + recsize * recno); have hb' := hw w (w.begin + recsize * recno)
        rw [ha] at ha'; rw [hb] at hb'
        unfold Before; omega
  -- where the segments of record `recno` live
  have hrecIn : ∀ recno, ∀ s ∈ recSegs p r recsize recno vars,
      recBase + recsize * recno ≤ s.off ∧ s.off + s.len ≤ recBase + recsize * recno + recsize := by
    intro recno s hs
    unfold recSegs at hs
    obtain ⟨v, hv, hsv⟩ := List.mem_filterMap.mp hs
    by_cases hc : (v.noFill || !v.isRec) = true
    · simp [hc] at hsv
    · simp only [hc, if_false, Option.some.injEq, Bool.false_eq_true] at hsv
      have h1 : v.isRec = true := by cases h1 : v.isRec <;> simp_all
      have := h.recInside v hv h1
      have hs' := hw v (v.begin + recsize * recno)
      rw [hsv] at hs'
      omega
  have hfixIn : ∀ s ∈ fixedSegs p r vars, s.off + s.len ≤ recBase := by
    intro s hs
    unfold fixedSegs at hs
    obtain ⟨v, hv, hsv⟩ := List.mem_filterMap.mp hs
    by_cases hc : (v.noFill || v.isRec) = true
    · simp [hc] at hsv
    · simp only [hc, if_false, Option.some.injEq, Bool.false_eq_true] at hsv
      have h1 : v.isRec = false := by cases h1 : v.isRec <;> simp_all
      have := h.fixedBelow v hv h1
      have hs' := hw v v.begin
      rw [hsv] at hs'
      omega
  unfold fillPlan
  rw [List.pairwise_append]
  refine ⟨hfix, ?_, ?_⟩
  · rw [List.pairwise_flatMap]
    refine ⟨fun recno _ => hrec1 recno, ?_⟩
    refine (List.pairwise_lt_range).imp ?_
    intro a b hab x hx y hy
    have hx' := hrecIn a x hx
    have hy' := hrecIn b y hy
    have : recsize * (a + 1) ≤ recsize * b := Nat.mul_le_mul_left _ hab
    rw [Nat.mul_succ] at this
    unfold Before; omega
  · intro x hx y hy
    obtain ⟨recno, _, hin⟩ := List.mem_flatMap.mp hy
    have := hfixIn x hx
    have := hrecIn recno y hin
    unfold Before; omega

/-- a concrete layout meeting `NewLayoutOK`: a fixed int[5], a no-fill fixed short[3] and two record
    variables (double per record, 3 bytes per record) in a 12-byte record starting at 64 -/
example : NewLayoutOK 64 12 [⟨0, 4, 5, false, false⟩, ⟨20, 2, 3, false, true⟩,
                              ⟨64, 8, 1, true, false⟩, ⟨72, 1, 3, true, false⟩] where
  ordered := by simp [vbytes]
  fixedBelow := by simp [vbytes]
  recInside := by simp [vbytes]

example : fillPlan 2 1 12 2 [⟨0, 4, 5, false, false⟩, ⟨20, 2, 3, false, true⟩,
                              ⟨64, 8, 1, true, false⟩, ⟨72, 1, 3, true, false⟩]
    = [⟨12, 8⟩, ⟨72, 0⟩, ⟨74, 1⟩, ⟨84, 0⟩, ⟨86, 1⟩] := by decide

/-! ### fill_var_rec -/

/-- **fillRec_covers**: `ncmpi_fill_var_rec` — the writes of the processes cover every element of the
    record (of the variable, for a fixed-size one) and stay inside it. -/
theorem fillRec_covers (p recsize recno : Nat) (hp : 1 ≤ p) (v : FVar) :
    (∀ e, e < v.varLen → ∃ r, r < p ∧
      (fillRecWrite p r recsize recno v).off ≤ v.begin + (if v.isRec then recsize * recno else 0) + e * v.xsz ∧
      v.begin + (if v.isRec then recsize * recno else 0) + (e + 1) * v.xsz
        ≤ (fillRecWrite p r recsize recno v).off + (fillRecWrite p r recsize recno v).len) ∧
    (∀ r, r < p →
      v.begin + (if v.isRec then recsize * recno else 0) ≤ (fillRecWrite p r recsize recno v).off ∧
      (fillRecWrite p r recsize recno v).off + (fillRecWrite p r recsize recno v).len
        ≤ v.begin + (if v.isRec then recsize * recno else 0) + vbytes v) := by
  constructor
  · intro e he
    obtain ⟨r, hr, hin, _⟩ := (shares_partition v.varLen p hp).1 e he
    refine ⟨r, hr, ?_⟩
    unfold fillRecWrite segOf
    simp only []
    have h1 : (share v.varLen p r).1 * v.xsz ≤ e * v.xsz := Nat.mul_le_mul_right _ hin.1
    have h2 : (e + 1) * v.xsz ≤ ((share v.varLen p r).1 + (share v.varLen p r).2) * v.xsz :=
      Nat.mul_le_mul_right _ hin.2
    have h3 : (e + 1) * v.xsz = e * v.xsz + v.xsz := Nat.succ_mul e v.xsz
    have h4 : ((share v.varLen p r).1 + (share v.varLen p r).2) * v.xsz
        = (share v.varLen p r).1 * v.xsz + (share v.varLen p r).2 * v.xsz := Nat.add_mul _ _ _
    omega
  · intro r hr
    exact segOf_within p r hp hr v _

/-- numrecs after fill_var_rec: never decreases, and covers the filled record of every process -/
theorem fillRecNumrecs_ge (numrecs : Nat) (recnos : List Nat) :
    numrecs ≤ fillRecNumrecs numrecs recnos ∧ ∀ r ∈ recnos, r + 1 ≤ fillRecNumrecs numrecs recnos := by
  unfold fillRecNumrecs
  induction recnos generalizing numrecs with
  | nil => exact ⟨Nat.le_refl _, fun r hr => by cases hr⟩
  | cons x xs ih =>
    simp only [List.foldl_cons]
    obtain ⟨i1, i2⟩ := ih (max numrecs (x + 1))
    refine ⟨by omega, fun r hr => ?_⟩
    cases hr with
    | head => omega
    | tail _ hm => exact i2 r hm

/-! ### default fill values -/

/-- **fill_bytes_default**: the default fill bytes are the big-endian encodings of the documented
    NC_FILL_* values: BYTE -127, CHAR 0, SHORT -32767, INT -2147483647, UBYTE 255, USHORT 65535,
    UINT 4294967295, INT64 -9223372036854775806, UINT64 18446744073709551614; FLOAT and DOUBLE both
    encode exactly 15·2^119 = 9.969209968386869…e36, which is the float/double nearest to the
    documented decimal 9.9692099683868690e+36 (distance < half an ulp: 2^98 for float, 2^69 for double). -/
theorem fill_bytes_default :
    (fillBytes 1).map beSigned = some (-127) ∧
    (fillBytes 2).map beVal = some 0 ∧
    (fillBytes 3).map beSigned = some (-32767) ∧
    (fillBytes 4).map beSigned = some (-2147483647) ∧
    (fillBytes 7).map beVal = some 255 ∧
    (fillBytes 8).map beVal = some 65535 ∧
    (fillBytes 9).map beVal = some 4294967295 ∧
    (fillBytes 10).map beSigned = some (-9223372036854775806) ∧
    (fillBytes 11).map beVal = some 18446744073709551614 ∧
    (fillBytes 5).map (fun b => ieeeNormal 8 23 (beVal b)) = some (15 * 2 ^ 20, 99) ∧
    (fillBytes 6).map (fun b => ieeeNormal 11 52 (beVal b)) = some (15 * 2 ^ 49, 70) ∧
    (15 * 2 ^ 20) * 2 ^ 99 = 15 * 2 ^ 119 ∧ (15 * 2 ^ 49) * 2 ^ 70 = 15 * 2 ^ 119 ∧
    15 * 2 ^ 119 - 99692099683868690 * 10 ^ 20 < 2 ^ 69 ∧ 99692099683868690 * 10 ^ 20 ≤ 15 * 2 ^ 119 ∧
    (∀ t, fillBytes t = none ↔ ¬ (1 ≤ t ∧ t ≤ 11)) := by
  refine ⟨by decide, by decide, by decide, by decide, by decide, by decide, by decide, by decide, by decide,
          by decide, by decide, by decide, by decide, by decide, by decide, ?_⟩
  intro t
  constructor
  · intro h ht
    have : t = 1 ∨ t = 2 ∨ t = 3 ∨ t = 4 ∨ t = 5 ∨ t = 6 ∨ t = 7 ∨ t = 8 ∨ t = 9 ∨ t = 10 ∨ t = 11 := by omega
    rcases this with h | h | h | h | h | h | h | h | h | h | h <;> subst h <;> simp [fillBytes] at *
  · intro h
    unfold fillBytes
    split <;> first | rfl | omega

/-- the fill buffer of `n` elements has `n · |elem|` bytes and consists of copies of `elem` -/
theorem fillBuf_length (elem : List UInt8) (n : Nat) : (fillBuf elem n).length = n * elem.length := by
  unfold fillBuf
  induction n with
  | zero => simp
  | succ n ih => rw [List.replicate_succ, List.flatten_cons, List.length_append, ih, Nat.succ_mul]; omega

/-! ### the write buffer -/

private theorem passVars_cons (b : Bool) (v : FVar) (vs : List FVar) :
    passVars b (v :: vs) = if (!v.noFill && (v.isRec == b)) = true then v :: passVars b vs else passVars b vs := by
  simp [passVars, List.filter_cons]

private theorem fixedSegs_cons (p r : Nat) (v : FVar) (vs : List FVar) :
    fixedSegs p r (v :: vs) = if (v.noFill || v.isRec) = true then fixedSegs p r vs
      else segOf p r v v.begin :: fixedSegs p r vs := by
  unfold fixedSegs
  rw [List.filterMap_cons]
  split <;> simp_all

private theorem recSegs_cons (p r recsize recno : Nat) (v : FVar) (vs : List FVar) :
    recSegs p r recsize recno (v :: vs) = if (v.noFill || !v.isRec) = true then recSegs p r recsize recno vs
      else segOf p r v (v.begin + recsize * recno) :: recSegs p r recsize recno vs := by
  unfold recSegs
  rw [List.filterMap_cons]
  split <;> simp_all

private theorem passFixed_len (p r : Nat) (elem : FVar → List UInt8) (h : ∀ v, (elem v).length = v.xsz) :
    ∀ vars : List FVar, ((passVars false vars).flatMap (fun v => fillBuf (elem v) (share v.varLen p r).2)).length
      = ((fixedSegs p r vars).map (·.len)).sum := by
  intro vars
  induction vars with
  | nil => rfl
  | cons v vs ih =>
    rw [passVars_cons, fixedSegs_cons]
    cases hn : v.noFill <;> cases hr : v.isRec
    · simp only [Bool.not_false, Bool.and_self, beq_self_eq_true, if_true, Bool.or_self, Bool.false_eq_true, if_false]
      rw [List.flatMap_cons, List.length_append, ih, List.map_cons, List.sum_cons, fillBuf_length, h]
      simp [segOf]
    all_goals simpa using ih

private theorem passRec_len (p r recsize recno : Nat) (elem : FVar → List UInt8) (h : ∀ v, (elem v).length = v.xsz) :
    ∀ vars : List FVar, ((passVars true vars).flatMap (fun v => fillBuf (elem v) (share v.varLen p r).2)).length
      = ((recSegs p r recsize recno vars).map (·.len)).sum := by
  intro vars
  induction vars with
  | nil => rfl
  | cons v vs ih =>
    rw [passVars_cons, recSegs_cons]
    cases hn : v.noFill <;> cases hr : v.isRec
    · simpa using ih
    · simp only [Bool.not_false, Bool.and_self, beq_self_eq_true, if_true, Bool.not_true, Bool.or_self, Bool.false_eq_true, if_false]
      rw [List.flatMap_cons, List.length_append, ih, List.map_cons, List.sum_cons, fillBuf_length, h]
      simp [segOf]
    all_goals simpa using ih

/-- the write buffer is exactly as long as the file view selects -/
theorem planBuf_length (p r recsize nrecs : Nat) (elem : FVar → List UInt8) (vars : List FVar)
    (h : ∀ v, (elem v).length = v.xsz) :
    (planBuf p r nrecs elem vars).length = ((fillPlan p r recsize nrecs vars).map (·.len)).sum := by
  unfold planBuf fillPlan
  rw [List.length_append, List.map_append, List.sum_append, passFixed_len p r elem h]
  congr 1
  induction nrecs with
  | zero => rfl
  | succ n ih =>
    rw [List.range_succ, List.flatMap_append, List.flatMap_append, List.length_append, List.map_append,
        List.sum_append, ih]
    simp only [List.flatMap_cons, List.flatMap_nil, List.append_nil]
    rw [passRec_len p r recsize n elem h]

/-! ### effect of the aggregated fill on the file -/

/-- write `w` covers byte `b` -/
def Covers (w : Seg × List UInt8) (b : Nat) : Prop := w.1.off ≤ b ∧ b < w.1.off + w.2.length

theorem writeSegs_agree (x : UInt8) (b : Nat) :
    ∀ (ws : List (Seg × List UInt8)) (f : File),
      (∀ w ∈ ws, Covers w b → w.2.getD (b - w.1.off) 0 = x) →
      (rd f b = x ∨ ∃ w ∈ ws, Covers w b) → rd (writeSegs f ws) b = x := by
  intro ws
  induction ws with
  | nil =>
    intro f _ h
    rcases h with h | ⟨w, hw, _⟩
    · exact h
    · cases hw
  | cons w ws ih =>
    intro f hval h
    show rd (writeSegs (writeAt f w.1.off w.2) ws) b = x
    apply ih _ (fun w' hw' => hval w' (List.mem_cons_of_mem _ hw'))
    have hw := hval w (List.mem_cons_self)
    rw [rd_writeAt]
    by_cases hc : w.1.off ≤ b ∧ b < w.1.off + w.2.length
    · left; rw [if_pos hc]; exact hw hc
    · rw [if_neg hc]
      rcases h with h | ⟨w', hw', hc'⟩
      · left; exact h
      · cases hw' with
        | head => exact absurd hc' hc
        | tail _ hm => right; exact ⟨w', hm, hc'⟩

theorem writeSegs_frame (b : Nat) :
    ∀ (ws : List (Seg × List UInt8)) (f : File), (∀ w ∈ ws, ¬ Covers w b) → rd (writeSegs f ws) b = rd f b := by
  intro ws
  induction ws with
  | nil => intro f _; rfl
  | cons w ws ih =>
    intro f h
    show rd (writeSegs (writeAt f w.1.off w.2) ws) b = rd f b
    have hn : ¬ (w.1.off ≤ b ∧ b < w.1.off + w.2.length) := h w List.mem_cons_self
    rw [ih _ (fun w' hw' => h w' (List.mem_cons_of_mem _ hw')), rd_writeAt, if_neg hn]

theorem fillBuf_getD (e : List UInt8) (n i : Nat) (hi : i < n * e.length) :
    (fillBuf e n).getD i 0 = e.getD (i % e.length) 0 := by
  induction n generalizing i with
  | zero => simp at hi
  | succ n ih =>
    have hs : fillBuf e (n + 1) = e ++ fillBuf e n := by
      unfold fillBuf; rw [List.replicate_succ, List.flatten_cons]
    rw [hs]
    simp only [List.getD_eq_getElem?_getD]
    by_cases h : i < e.length
    · rw [List.getElem?_append_left h, Nat.mod_eq_of_lt h]
    · have h' : e.length ≤ i := by omega
      rw [List.getElem?_append_right h']
      have := ih (i - e.length) (by rw [Nat.succ_mul] at hi; omega)
      simp only [List.getD_eq_getElem?_getD] at this
      rw [this, ← Nat.mod_eq_sub_mod h']

/-- `(v, base)` is an instance to be filled: a new fill-mode variable `v` of `vars` and the file offset
    `base` of the variable (fixed-size) or of its part of one of the `nrecs` existing records -/
def IsSlot (recsize nrecs : Nat) (vars : List FVar) (v : FVar) (base : Nat) : Prop :=
  v ∈ vars ∧ v.noFill = false ∧
    ((v.isRec = false ∧ base = v.begin) ∨ (v.isRec = true ∧ ∃ recno, recno < nrecs ∧ base = v.begin + recsize * recno))

theorem mem_fillPlanD (p r recsize nrecs : Nat) (elem : FVar → List UInt8) (vars : List FVar) (w : Seg × List UInt8) :
    w ∈ fillPlanD p r recsize nrecs elem vars ↔ ∃ v base, IsSlot recsize nrecs vars v base ∧ w = segD p r elem v base := by
  unfold fillPlanD IsSlot
  rw [List.mem_append]
  constructor
  · rintro (h | h)
    · unfold fixedSegsD at h
      obtain ⟨v, hv, hsv⟩ := List.mem_filterMap.mp h
      by_cases hc : (v.noFill || v.isRec) = true
      · simp [hc] at hsv
      · simp only [hc, if_false, Option.some.injEq, Bool.false_eq_true] at hsv
        have hnf : v.noFill = false := by cases h1 : v.noFill <;> simp_all
        have hnr : v.isRec = false := by cases h1 : v.isRec <;> simp_all
        exact ⟨v, v.begin, ⟨hv, hnf, Or.inl ⟨hnr, rfl⟩⟩, hsv.symm⟩
    · obtain ⟨recno, hrec, hin⟩ := List.mem_flatMap.mp h
      unfold recSegsD at hin
      obtain ⟨v, hv, hsv⟩ := List.mem_filterMap.mp hin
      by_cases hc : (v.noFill || !v.isRec) = true
      · simp [hc] at hsv
      · simp only [hc, if_false, Option.some.injEq, Bool.false_eq_true] at hsv
        have hnf : v.noFill = false := by cases h1 : v.noFill <;> simp_all
        have hir : v.isRec = true := by cases h1 : v.isRec <;> simp_all
        exact ⟨v, _, ⟨hv, hnf, Or.inr ⟨hir, recno, List.mem_range.mp hrec, rfl⟩⟩, hsv.symm⟩
  · rintro ⟨v, base, ⟨hv, hnf, hk⟩, rfl⟩
    rcases hk with ⟨hnr, rfl⟩ | ⟨hir, recno, hrn, rfl⟩
    · left
      unfold fixedSegsD
      exact List.mem_filterMap.mpr ⟨v, hv, by simp [hnf, hnr]⟩
    · right
      refine List.mem_flatMap.mpr ⟨recno, List.mem_range.mpr hrn, ?_⟩
      unfold recSegsD
      exact List.mem_filterMap.mpr ⟨v, hv, by simp [hnf, hir]⟩

/-- the `D` plan is the plan of the model (`fillPlan`) paired with the buffer of the model (`planBuf`) -/
theorem fillPlanD_fst (p r recsize nrecs : Nat) (elem : FVar → List UInt8) (vars : List FVar) :
    (fillPlanD p r recsize nrecs elem vars).map (·.1) = fillPlan p r recsize nrecs vars := by
  have h1 : ∀ vs : List FVar, (fixedSegsD p r elem vs).map (·.1) = fixedSegs p r vs := by
    intro vs
    unfold fixedSegsD fixedSegs
    rw [List.map_filterMap]
    congr 1
    funext v
    by_cases hc : (v.noFill || v.isRec) = true <;> simp [hc, segD]
  have h2 : ∀ recno, ∀ vs : List FVar, (recSegsD p r recsize recno elem vs).map (·.1) = recSegs p r recsize recno vs := by
    intro recno vs
    unfold recSegsD recSegs
    rw [List.map_filterMap]
    congr 1
    funext v
    by_cases hc : (v.noFill || !v.isRec) = true <;> simp [hc, segD]
  unfold fillPlanD fillPlan
  rw [List.map_append, h1, List.map_flatMap]
  simp only [h2]


private theorem fixedSegsD_cons (p r : Nat) (elem : FVar → List UInt8) (v : FVar) (vs : List FVar) :
    fixedSegsD p r elem (v :: vs) = if (v.noFill || v.isRec) = true then fixedSegsD p r elem vs
      else segD p r elem v v.begin :: fixedSegsD p r elem vs := by
  unfold fixedSegsD
  rw [List.filterMap_cons]
  split <;> simp_all

private theorem recSegsD_cons (p r recsize recno : Nat) (elem : FVar → List UInt8) (v : FVar) (vs : List FVar) :
    recSegsD p r recsize recno elem (v :: vs) = if (v.noFill || !v.isRec) = true then recSegsD p r recsize recno elem vs
      else segD p r elem v (v.begin + recsize * recno) :: recSegsD p r recsize recno elem vs := by
  unfold recSegsD
  rw [List.filterMap_cons]
  split <;> simp_all

private theorem fixedSegsD_snd (p r : Nat) (elem : FVar → List UInt8) :
    ∀ vars : List FVar, (fixedSegsD p r elem vars).flatMap (·.2)
      = (passVars false vars).flatMap (fun v => fillBuf (elem v) (share v.varLen p r).2) := by
  intro vars
  induction vars with
  | nil => rfl
  | cons v vs ih =>
    rw [passVars_cons, fixedSegsD_cons]
    cases hn : v.noFill <;> cases hr : v.isRec
    · simp only [Bool.not_false, Bool.and_self, beq_self_eq_true, if_true, Bool.or_self, Bool.false_eq_true, if_false]
      rw [List.flatMap_cons, List.flatMap_cons, ih]
      rfl
    all_goals simpa using ih

private theorem recSegsD_snd (p r recsize recno : Nat) (elem : FVar → List UInt8) :
    ∀ vars : List FVar, (recSegsD p r recsize recno elem vars).flatMap (·.2)
      = (passVars true vars).flatMap (fun v => fillBuf (elem v) (share v.varLen p r).2) := by
  intro vars
  induction vars with
  | nil => rfl
  | cons v vs ih =>
    rw [passVars_cons, recSegsD_cons]
    cases hn : v.noFill <;> cases hr : v.isRec
    · simpa using ih
    · simp only [Bool.not_false, Bool.and_self, beq_self_eq_true, if_true, Bool.not_true, Bool.or_self, Bool.false_eq_true, if_false]
      rw [List.flatMap_cons, List.flatMap_cons, ih]
      rfl
    all_goals simpa using ih

/-- … and its data, concatenated in plan order, is the write buffer of the model (`planBuf`) -/
theorem fillPlanD_snd (p r recsize nrecs : Nat) (elem : FVar → List UInt8) (vars : List FVar) :
    (fillPlanD p r recsize nrecs elem vars).flatMap (·.2) = planBuf p r nrecs elem vars := by
  unfold fillPlanD planBuf
  rw [List.flatMap_append, fixedSegsD_snd]
  congr 1
  induction nrecs with
  | zero => rfl
  | succ n ih =>
    rw [List.range_succ, List.flatMap_append, List.flatMap_append, List.flatMap_append, ih]
    simp only [List.flatMap_cons, List.flatMap_nil, List.append_nil]
    rw [recSegsD_snd]

theorem segD_len (p r : Nat) (elem : FVar → List UInt8) (helem : ∀ v, (elem v).length = v.xsz) (v : FVar) (base : Nat) :
    (segD p r elem v base).2.length = (segD p r elem v base).1.len := by
  unfold segD segOf
  simp only []
  rw [fillBuf_length, helem]

/-- a covered byte lies inside the instance the segment belongs to and carries that variable's fill byte -/
theorem segD_covers (p r : Nat) (hp : 1 ≤ p) (hr : r < p) (elem : FVar → List UInt8)
    (helem : ∀ v, (elem v).length = v.xsz) (v : FVar) (base b : Nat) (hc : Covers (segD p r elem v base) b) :
    (base ≤ b ∧ b < base + vbytes v) ∧
    (segD p r elem v base).2.getD (b - (segD p r elem v base).1.off) 0 = (elem v).getD ((b - base) % v.xsz) 0 := by
  have hl := segD_len p r elem helem v base
  have hw := segOf_within p r hp hr v base
  unfold Covers at hc
  rw [hl] at hc
  have hoff : (segD p r elem v base).1 = segOf p r v base := rfl
  rw [hoff] at hc
  refine ⟨by omega, ?_⟩
  have hd : (segD p r elem v base).2 = fillBuf (elem v) (share v.varLen p r).2 := rfl
  rw [hd, hoff]
  have hso : (segOf p r v base).off = base + (share v.varLen p r).1 * v.xsz := rfl
  have hsl : (segOf p r v base).len = (share v.varLen p r).2 * v.xsz := rfl
  rw [fillBuf_getD _ _ _ (by rw [helem]; omega), helem]
  congr 1
  have : b - base = (share v.varLen p r).1 * v.xsz + (b - (segOf p r v base).off) := by omega
  rw [this, Nat.mul_comm, Nat.mul_add_mod]

theorem pairwise_trichotomy {α : Type} {R : α → α → Prop} :
    ∀ {l : List α}, l.Pairwise R → ∀ a ∈ l, ∀ b ∈ l, a = b ∨ R a b ∨ R b a
  | [], _, a, ha, _, _ => by cases ha
  | x :: xs, h, a, ha, b, hb => by
    rw [List.pairwise_cons] at h
    cases ha with
    | head =>
      cases hb with
      | head => exact Or.inl rfl
      | tail _ hb' => exact Or.inr (Or.inl (h.1 b hb'))
    | tail _ ha' =>
      cases hb with
      | head => exact Or.inr (Or.inr (h.1 a ha'))
      | tail _ hb' => exact pairwise_trichotomy h.2 a ha' b hb'

/-- two instances that share a byte are the same instance -/
theorem slot_unique (recBase recsize nrecs : Nat) (vars : List FVar) (h : NewLayoutOK recBase recsize vars)
    (v w : FVar) (bv bw b : Nat) (hv : IsSlot recsize nrecs vars v bv) (hw : IsSlot recsize nrecs vars w bw)
    (hbv : bv ≤ b ∧ b < bv + vbytes v) (hbw : bw ≤ b ∧ b < bw + vbytes w) : v = w ∧ bv = bw := by
  obtain ⟨hvm, _, hvk⟩ := hv
  obtain ⟨hwm, _, hwk⟩ := hw
  have tri := pairwise_trichotomy h.ordered v hvm w hwm
  rcases hvk with ⟨hvr, rfl⟩ | ⟨hvr, rv, _, rfl⟩ <;> rcases hwk with ⟨hwr, rfl⟩ | ⟨hwr, rw_, _, rfl⟩
  · rcases tri with e | o | o
    · exact ⟨e, by rw [e]⟩
    · have := o (by rw [hvr, hwr]); omega
    · have := o (by rw [hvr, hwr]); omega
  · have := h.fixedBelow v hvm hvr
    have := (h.recInside w hwm hwr).1
    omega
  · have := h.fixedBelow w hwm hwr
    have := (h.recInside v hvm hvr).1
    omega
  · have iv := h.recInside v hvm hvr
    have iw := h.recInside w hwm hwr
    have hrec : rv = rw_ := by
      rcases Nat.lt_trichotomy rv rw_ with hlt | heq | hgt
      · have : recsize * (rv + 1) ≤ recsize * rw_ := Nat.mul_le_mul_left _ hlt
        rw [Nat.mul_succ] at this; omega
      · exact heq
      · have : recsize * (rw_ + 1) ≤ recsize * rv := Nat.mul_le_mul_left _ hgt
        rw [Nat.mul_succ] at this; omega
    subst hrec
    rcases tri with e | o | o
    · exact ⟨e, by rw [e]⟩
    · have := o (by rw [hvr, hwr]); omega
    · have := o (by rw [hvr, hwr]); omega

/-- every element of every instance to be filled reads as the variable's fill element afterwards -/
theorem fillAll_slot (p recBase recsize nrecs : Nat) (hp : 1 ≤ p) (elem : FVar → List UInt8)
    (helem : ∀ v, (elem v).length = v.xsz) (vars : List FVar) (h : NewLayoutOK recBase recsize vars) (f : File)
    (v : FVar) (base : Nat) (hs : IsSlot recsize nrecs vars v base) (e k : Nat) (he : e < v.varLen) (hk : k < v.xsz) :
    rd (fillAll p recsize nrecs elem vars f) (base + e * v.xsz + k) = (elem v).getD k 0 := by
  have hin : base ≤ base + e * v.xsz + k ∧ base + e * v.xsz + k < base + vbytes v := by
    have : (e + 1) * v.xsz ≤ v.varLen * v.xsz := Nat.mul_le_mul_right _ he
    rw [Nat.succ_mul] at this
    unfold vbytes; omega
  unfold fillAll
  apply writeSegs_agree
  · intro w hw hc
    obtain ⟨r, hr, hwr⟩ := List.mem_flatMap.mp hw
    have hr' : r < p := List.mem_range.mp hr
    obtain ⟨v', base', hs', rfl⟩ := (mem_fillPlanD p r recsize nrecs elem vars w).mp hwr
    obtain ⟨hin', hval⟩ := segD_covers p r hp hr' elem helem v' base' _ hc
    obtain ⟨rfl, rfl⟩ := slot_unique recBase recsize nrecs vars h v v' base base' _ hs hs' hin hin'
    rw [hval]
    congr 1
    have : base + e * v.xsz + k - base = v.xsz * e + k := by rw [Nat.mul_comm]; omega
    rw [this, Nat.mul_add_mod, Nat.mod_eq_of_lt hk]
  · right
    obtain ⟨r, hr, hsh, _⟩ := (shares_partition v.varLen p hp).1 e he
    refine ⟨segD p r elem v base, ?_, ?_⟩
    · exact List.mem_flatMap.mpr ⟨r, List.mem_range.mpr hr, (mem_fillPlanD p r recsize nrecs elem vars _).mpr ⟨v, base, hs, rfl⟩⟩
    · unfold Covers
      rw [segD_len p r elem helem]
      have hso : (segD p r elem v base).1.off = base + (share v.varLen p r).1 * v.xsz := rfl
      have hsl : (segD p r elem v base).1.len = (share v.varLen p r).2 * v.xsz := rfl
      have h1 : (share v.varLen p r).1 * v.xsz ≤ e * v.xsz := Nat.mul_le_mul_right _ hsh.1
      have h2 : (e + 1) * v.xsz ≤ ((share v.varLen p r).1 + (share v.varLen p r).2) * v.xsz :=
        Nat.mul_le_mul_right _ hsh.2
      have h3 : (e + 1) * v.xsz = e * v.xsz + v.xsz := Nat.succ_mul e v.xsz
      have h4 : ((share v.varLen p r).1 + (share v.varLen p r).2) * v.xsz
          = (share v.varLen p r).1 * v.xsz + (share v.varLen p r).2 * v.xsz := Nat.add_mul _ _ _
      omega

/-- **fill_effect** (unwritten_reads_fill / old_data_untouched / nofill_untouched at byte level):
    after the aggregated fill of all processes — for every process count, every number of existing
    records, every list of new variables laid out as NC_begins does —
    (1) every element of every new fixed-size variable in fill mode holds the variable's fill element,
    (2) so does every element of every new fill-mode record variable in every EXISTING record,
    (3) every other byte of the file (older variables, no-fill variables, the header, records that
        do not exist yet) is unchanged. -/
theorem fill_effect (p recBase recsize nrecs : Nat) (hp : 1 ≤ p) (elem : FVar → List UInt8)
    (helem : ∀ v, (elem v).length = v.xsz) (vars : List FVar) (h : NewLayoutOK recBase recsize vars) (f : File) :
    (∀ v ∈ vars, v.noFill = false → v.isRec = false → ∀ e k, e < v.varLen → k < v.xsz →
      rd (fillAll p recsize nrecs elem vars f) (v.begin + e * v.xsz + k) = (elem v).getD k 0) ∧
    (∀ v ∈ vars, v.noFill = false → v.isRec = true → ∀ recno e k, recno < nrecs → e < v.varLen → k < v.xsz →
      rd (fillAll p recsize nrecs elem vars f) (v.begin + recsize * recno + e * v.xsz + k) = (elem v).getD k 0) ∧
    (∀ b, ¬ InFillSlot recsize nrecs vars b → rd (fillAll p recsize nrecs elem vars f) b = rd f b) := by
  refine ⟨fun v hv hnf hnr e k he hk => ?_, fun v hv hnf hir recno e k hrn he hk => ?_, fun b hb => ?_⟩
  · exact fillAll_slot p recBase recsize nrecs hp elem helem vars h f v v.begin ⟨hv, hnf, Or.inl ⟨hnr, rfl⟩⟩ e k he hk
  · exact fillAll_slot p recBase recsize nrecs hp elem helem vars h f v _ ⟨hv, hnf, Or.inr ⟨hir, recno, hrn, rfl⟩⟩ e k he hk
  · unfold fillAll
    apply writeSegs_frame
    intro w hw hc
    obtain ⟨r, hr, hwr⟩ := List.mem_flatMap.mp hw
    obtain ⟨v', base', hs', rfl⟩ := (mem_fillPlanD p r recsize nrecs elem vars w).mp hwr
    obtain ⟨hin', _⟩ := segD_covers p r hp (List.mem_range.mp hr) elem helem v' base' _ hc
    apply hb
    obtain ⟨hvm, hnf, hk⟩ := hs'
    refine ⟨v', hvm, hnf, ?_⟩
    rcases hk with ⟨hnr, rfl⟩ | ⟨hir, recno, hrn, rfl⟩
    · exact Or.inl ⟨hnr, hin'.1, hin'.2⟩
    · exact Or.inr ⟨hir, recno, hrn, hin'.1, hin'.2⟩

/-! ### `_FillValue` rules -/

/-- **fillvalue_rule_path_independent**: whether an attribute may become a variable's `_FillValue` (and the error
    code if not) does not depend on the API that delivers it — put_att (flexible or typed), def_var_fill,
    copy_att between two files (same or different variable id), copy_att between two variables of one file,
    rename_att — the only exemption is copying an attribute onto itself. -/
theorem fillvalue_rule_path_independent (p q : FvPath) (hp : p ≠ .copyAtt true true) (hq : q ≠ .copyAtt true true)
    (varType attType nelems : Nat) (isOld : Bool) :
    fvAccept p varType attType nelems isOld = fvAccept q varType attType nelems isOld := by
  have h : ∀ r : FvPath, r ≠ .copyAtt true true → fvAccept r varType attType nelems isOld = fvRule varType attType nelems isOld := by
    intro r hr
    cases r with
    | copyAtt a b => cases a <;> cases b <;> first | rfl | exact absurd rfl hr
    | _ => rfl
  rw [h p hp, h q hq]

/-- an accepted `_FillValue` has the variable's type, one element, and a variable defined in this define mode -/
theorem fvRule_accept_iff (varType attType nelems : Nat) (isOld : Bool) :
    fvRule varType attType nelems isOld = 0 ↔ attType = varType ∧ nelems = 1 ∧ isOld = false := by
  unfold fvRule
  by_cases h1 : attType = varType <;> by_cases h2 : nelems = 1 <;> cases isOld <;> simp [h1, h2]

example : fvAccept (.copyAtt false true) 4 4 1 true = -122 ∧ fvAccept (.copyAtt true false) 3 4 1 false = -45 ∧
          fvAccept .renameAtt 4 4 2 false = -36 ∧ fvAccept .putAtt 4 4 1 false = 0 := by decide

/-! ### fill-mode bookkeeping -/

/-- after `ncmpi_set_fill(mode)` every variable defined so far is in that mode -/
theorem setFill_all (s : FState) (m : Bool) : ∀ b ∈ (fstep s (.setFill m)).noFill, b = !m := by
  intro b hb
  simp only [fstep, List.mem_map] at hb
  obtain ⟨_, _, h⟩ := hb
  exact h.symm

/-- a variable defined later inherits the dataset mode; existing variables keep theirs -/
theorem defVar_inherits (s : FState) :
    (fstep s .defVar).noFill = s.noFill ++ [!s.dsFill] ∧ (fstep s .defVar).dsFill = s.dsFill := ⟨rfl, rfl⟩

/-- `ncmpi_def_var_fill` overrides the mode of exactly that variable -/
theorem varFill_only (s : FState) (v : Nat) (nf : Bool) (hv : v < s.noFill.length) :
    (fstep s (.varFill v nf)).noFill[v]? = some nf ∧
    ∀ w, w ≠ v → (fstep s (.varFill v nf)).noFill[w]? = s.noFill[w]? := by
  simp only [fstep]
  constructor
  · simp [hv]
  · intro w hw
    rw [List.getElem?_set_ne (Ne.symm hw)]

/-- dataset fill mode set before any definition: every variable defined afterwards (with no
    per-variable override) is in fill mode — for every number of definitions -/
theorem setFill_then_defs (n : Nat) :
    (frun FState.init (.setFill true :: List.replicate n .defVar)).noFill = List.replicate n false := by
  have h : ∀ n (l : List Bool), (frun ⟨true, l⟩ (List.replicate n FOp.defVar)).noFill = l ++ List.replicate n false := by
    intro n
    induction n with
    | zero => intro l; simp [frun]
    | succ n ih =>
      intro l
      rw [List.replicate_succ]
      show (frun (fstep ⟨true, l⟩ .defVar) (List.replicate n .defVar)).noFill = _
      simp only [fstep]
      rw [ih]
      simp [List.replicate_succ]
  have := h n []
  simpa [frun, fstep, FState.init] using this

def obligations : List String := [
  "share_consecutive", "share_last", "share_within", "shares_partition",
  "segOf_within", "plan_targets_new_only", "plan_avoids", "nofill_no_segment", "plan_covers", "plan_monotone",
  "fillPlanD_fst", "fillPlanD_snd", "fill_effect",
  "fillRec_covers", "fillRecNumrecs_ge", "fill_bytes_default", "fillBuf_length", "planBuf_length",
  "fillvalue_rule_path_independent", "fvRule_accept_iff",
  "setFill_all", "defVar_inherits", "varFill_only", "setFill_then_defs"
]
end PnVerif.Props.C16
