import PnVerif.Lemmas.MetaTab
import PnVerif.Spec.MetaSpec
/-
  C07 — metadata and namespace operations behave like a sequential model.

  Part 1 (this section): the name lookup tables.  For EVERY hash function `h` and EVERY table size
  ≥ 1 (so every pattern of collisions), the table invariant `TabInv`
      "the table has `size` buckets; every id < n occurs exactly once, in bucket h(name id) mod size,
       and nowhere else; no other number occurs in any bucket"
  is established by create/open and preserved by every table operation of ncmpio_hash_func.c, and
  under it the hash lookup is the linear search of the sequential reference model.
-/
namespace PnVerif.Props.C07
open PnVerif.Meta

/-! ### hash_inv -/

theorem hash_inv_empty (h : Nat → Name → Nat) (size : Nat) : TabInv h size [] (emptyTable size) :=
  emptyTable_inv h size

/-- ncmpio_hash_insert (def_dim, def_var, put_att/copy_att of a new attribute) -/
theorem hash_inv_insert (h : Nat → Name → Nat) (size : Nat) (hs : 0 < size) (names : List Name) (T : Table)
    (inv : TabInv h size names T) (nm : Name) :
    TabInv h size (names ++ [nm]) (hashInsert h size T nm names.length) :=
  hashInsert_inv hs inv nm

/-- ncmpio_hash_delete with id shifting (del_att): succeeds on every defined id and the result is
    the invariant for the array with that element removed (all later ids one lower) -/
theorem hash_inv_delete (h : Nat → Name → Nat) (size : Nat) (hs : 0 < size) (names : List Name) (T : Table)
    (inv : TabInv h size names T) (id : Nat) (hid : id < names.length) :
    ∃ T', hashDelete h size T names[id] id = some T' ∧ TabInv h size (names.eraseIdx id) T' :=
  hashDelete_inv hs inv id hid

/-- ncmpio_hash_replace (rename_att) and ncmpio_update_name_lookup_table (rename_dim, rename_var) -/
theorem hash_inv_replace (h : Nat → Name → Nat) (size : Nat) (hs : 0 < size) (names : List Name) (T : Table)
    (inv : TabInv h size names T) (id : Nat) (hid : id < names.length) (new : Name) :
    ∃ T', hashReplace h size T names[id] new id = some T' ∧ TabInv h size (names.set id new) T' :=
  hashReplace_inv hs inv id hid new

/-- ncmpio_hash_table_copy (redef: ncp->old) returns the very same table -/
theorem hash_inv_copy (h : Nat → Name → Nat) (size : Nat) (names : List Name) (T : Table)
    (inv : TabInv h size names T) : tableCopy T size = T ∧ TabInv h size names (tableCopy T size) := by
  have e := tableCopy_eq T size inv.len
  exact ⟨e, by rw [e]; exact inv⟩

/-- ncmpio_hash_table_populate_NC_dim/var/attr (open): for any duplicate-free array read from a
    header, the populated table satisfies the invariant and the array is unchanged -/
theorem hash_inv_populate {α : Type} [Named α] (h : Nat → Name → Nat) (size : Nat) (hs : 0 < size)
    (xs : List α) (nd : (xs.map Named.name).Nodup) :
    (NArr.ofList h size xs).items = xs ∧ (NArr.ofList h size xs).Inv h size :=
  NArr.ofList_spec hs xs nd

/-- the invariant pins the table down: an id is in bucket k iff it is defined and its name hashes to k -/
theorem hash_inv_mem (h : Nat → Name → Nat) (size : Nat) (names : List Name) (T : Table)
    (inv : TabInv h size names T) (k id : Nat) :
    id ∈ bucket T k ↔ ∃ hid : id < names.length, key h size names[id] = k :=
  mem_bucket_iff inv k id

/-! ### lookup_by_name_eq_spec, name_id_agree -/

/-- NC_finddim / NC_findvar / ncmpio_NC_findattr = linear search over the plain list of names -/
theorem lookup_by_name_eq_spec {α : Type} [Named α] (h : Nat → Name → Nat) (size : Nat) (A : NArr α)
    (inv : A.Inv h size) (nm : Name) : A.find h size nm = lookup A.names nm :=
  NArr.find_eq_lookup inv nm

/-- looking up the name of object `id` returns `id` -/
theorem name_id_agree {α : Type} [Named α] (h : Nat → Name → Nat) (size : Nat) (A : NArr α)
    (inv : A.Inv h size) (id : Nat) (hid : id < A.items.length) :
    A.find h size (Named.name A.items[id]) = some id :=
  NArr.find_name inv id hid

/-! ### non-vacuity: a concrete table with a collision (everything hashes to bucket 1 of 2) -/

example : TabInv (fun _ _ => 1) 2 [[97], [98]] [[], [0, 1]] := by
  have h0 := hash_inv_empty (fun _ _ => 1) 2
  have h1 := hash_inv_insert (fun _ _ => 1) 2 (by decide) [] _ h0 [97]
  exact hash_inv_insert (fun _ _ => 1) 2 (by decide) [[97]] _ h1 [98]

example : hashDelete (fun _ _ => 1) 2 [[], [0, 1, 2]] [97] 0 = some [[], [0, 1]] := by decide

def obligations : List String := [
  "hash_inv_empty", "hash_inv_insert", "hash_inv_delete", "hash_inv_replace", "hash_inv_copy",
  "hash_inv_populate", "hash_inv_mem", "lookup_by_name_eq_spec", "name_id_agree"
]
end PnVerif.Props.C07
