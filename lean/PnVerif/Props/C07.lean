import PnVerif.Lemmas.MetaTab
import PnVerif.Lemmas.MetaRefine
/-
  C07 — metadata and namespace operations behave like a sequential model.

  Part 1 (this section): the name lookup tables.  For EVERY hash function `h` and EVERY table size
  ≥ 1 (so every pattern of collisions), the table invariant `TabInv`
      "the table has `size` buckets; every id < n occurs exactly once, in bucket h(name id) mod size,
       and nowhere else; no other number occurs in any bucket"
  is established by create/open and preserved by every table operation of ncmpio_hash_func.c, and
  under it the hash lookup is the linear search of the sequential reference model.
-/
namespace PnVerif.Props.C07
open PnVerif.Meta

/-! ### hash_inv -/

theorem hash_inv_empty (h : Nat → Name → Nat) (size : Nat) : TabInv h size [] (emptyTable size) :=
  emptyTable_inv h size

/-- ncmpio_hash_insert (def_dim, def_var, put_att/copy_att of a new attribute) -/
theorem hash_inv_insert (h : Nat → Name → Nat) (size : Nat) (hs : 0 < size) (names : List Name) (T : Table)
    (inv : TabInv h size names T) (nm : Name) :
    TabInv h size (names ++ [nm]) (hashInsert h size T nm names.length) :=
  hashInsert_inv hs inv nm

/-- ncmpio_hash_delete with id shifting (del_att): succeeds on every defined id and the result is
    the invariant for the array with that element removed (all later ids one lower) -/
theorem hash_inv_delete (h : Nat → Name → Nat) (size : Nat) (hs : 0 < size) (names : List Name) (T : Table)
    (inv : TabInv h size names T) (id : Nat) (hid : id < names.length) :
    ∃ T', hashDelete h size T names[id] id = some T' ∧ TabInv h size (names.eraseIdx id) T' :=
  hashDelete_inv hs inv id hid

/-- ncmpio_hash_replace (rename_att) and ncmpio_update_name_lookup_table (rename_dim, rename_var) -/
theorem hash_inv_replace (h : Nat → Name → Nat) (size : Nat) (hs : 0 < size) (names : List Name) (T : Table)
    (inv : TabInv h size names T) (id : Nat) (hid : id < names.length) (new : Name) :
    ∃ T', hashReplace h size T names[id] new id = some T' ∧ TabInv h size (names.set id new) T' :=
  hashReplace_inv hs inv id hid new

/-- ncmpio_hash_table_copy (redef: ncp->old) returns the very same table -/
theorem hash_inv_copy (h : Nat → Name → Nat) (size : Nat) (names : List Name) (T : Table)
    (inv : TabInv h size names T) : tableCopy T size = T ∧ TabInv h size names (tableCopy T size) := by
  have e := tableCopy_eq T size inv.len
  exact ⟨e, by rw [e]; exact inv⟩

/-- ncmpio_hash_table_populate_NC_dim/var/attr (open): for any duplicate-free array read from a
    header, the populated table satisfies the invariant and the array is unchanged -/
theorem hash_inv_populate {α : Type} [Named α] (h : Nat → Name → Nat) (size : Nat) (hs : 0 < size)
    (xs : List α) (nd : (xs.map Named.name).Nodup) :
    (NArr.ofList h size xs).items = xs ∧ (NArr.ofList h size xs).Inv h size :=
  NArr.ofList_spec hs xs nd

/-- the invariant pins the table down: an id is in bucket k iff it is defined and its name hashes to k -/
theorem hash_inv_mem (h : Nat → Name → Nat) (size : Nat) (names : List Name) (T : Table)
    (inv : TabInv h size names T) (k id : Nat) :
    id ∈ bucket T k ↔ ∃ hid : id < names.length, key h size names[id] = k :=
  mem_bucket_iff inv k id

/-! ### lookup_by_name_eq_spec, name_id_agree -/

/-- NC_finddim / NC_findvar / ncmpio_NC_findattr = linear search over the plain list of names -/
theorem lookup_by_name_eq_spec {α : Type} [Named α] (h : Nat → Name → Nat) (size : Nat) (A : NArr α)
    (inv : A.Inv h size) (nm : Name) : A.find h size nm = lookup A.names nm :=
  NArr.find_eq_lookup inv nm

/-- looking up the name of object `id` returns `id` -/
theorem name_id_agree {α : Type} [Named α] (h : Nat → Name → Nat) (size : Nat) (A : NArr α)
    (inv : A.Inv h size) (id : Nat) (hid : id < A.items.length) :
    A.find h size (Named.name A.items[id]) = some id :=
  NArr.find_name inv id hid

/-!
  Part 2: every operation of the model (dispatcher checks + ncmpio driver + table maintenance,
  Model/Meta.lean) refines the sequential reference model (plain lists, Spec/MetaSpec.lean), for
  every hash function, every NFC function, every name-legality predicate (`Env`), every table size
  ≥ 1, and — `meta_refines` — every program: any sequence of create / open / close / enddef / redef /
  def_dim / def_var / put_att / rename_* / copy_att / del_att over any number of files — except for ONE defect of the code found on the
  way (copy_att of an extended-type attribute into a CDF-1/2 file is not rejected): full statement,
  counterexample and partial theorem below.
-/

/-- `R E x y`: the model result `x` and the reference result `y` show the same abstract file, the
    same error code / id, and the model file still satisfies `FInv` (all four kinds of tables
    consistent, names pairwise distinct, header on disk well formed). -/
theorem def_dim_refines (E : Env) (f : File) (raw : Name) (size : Int) (inv : FInv E f) :
    R E (defDim E f raw size) (sDefDim E f.abs raw size) := defDim_refines E f raw size inv
theorem rename_dim_refines (E : Env) (f : File) (dimid : Int) (raw : Name) (inv : FInv E f) :
    R E (renameDim E f dimid raw) (sRenameDim E f.abs dimid raw) := renameDim_refines E f dimid raw inv
theorem def_var_refines (E : Env) (f : File) (raw : Name) (xtype : Int) (dimids : List Int) (inv : FInv E f) :
    R E (defVar E f raw xtype dimids) (sDefVar E f.abs raw xtype dimids) := defVar_refines E f raw xtype dimids inv
theorem rename_var_refines (E : Env) (f : File) (varid : Int) (raw : Name) (inv : FInv E f) :
    R E (renameVar E f varid raw) (sRenameVar E f.abs varid raw) := renameVar_refines E f varid raw inv
/-- put_att: new attribute, overwrite smaller / equal / larger, define and data mode, `_FillValue` rules,
    NC_ERANGE with the attribute still stored -/
theorem put_att_refines (E : Env) (f : File) (varid : Int) (raw : Name) (isText : Bool) (xtype : Int)
    (vals : List Int) (inv : FInv E f) :
    R E (putAtt E f varid raw isText xtype vals) (sPutAtt E f.abs varid raw isText xtype vals) :=
  putAtt_refines E f varid raw isText xtype vals inv
theorem rename_att_refines (E : Env) (f : File) (varid : Int) (raw rawNew : Name) (inv : FInv E f) :
    R E (renameAtt E f varid raw rawNew) (sRenameAtt E f.abs varid raw rawNew) :=
  renameAtt_refines E f varid raw rawNew inv
/-- del_att: ids and order after the deletion are those of the list with the element removed -/
theorem del_att_refines (E : Env) (f : File) (varid : Int) (raw : Name) (inv : FInv E f) :
    R E (delAtt E f varid raw) (sDelAtt E f.abs varid raw) := delAtt_refines E f varid raw inv
/-- copy_att within a file, between variables, and between two files: the full statement, for the code
    variant `b` (`Env.copyChk`: false = ncmpio_copy_att before the repair of C07-D1, true = repaired) -/
def copy_att_refines_Statement (b : Bool) : Prop :=
  ∀ (E : Env) (fin : File) (varidIn : Int) (raw : Name) (fout : File) (varidOut : Int) (same : Bool),
    E.copyChk = b → FInv E fin → FInv E fout →
    R E (copyAtt E fin varidIn raw fout varidOut same) (sCopyAtt E fin.abs varidIn raw fout.abs varidOut same)

/-- FALSE of the unrepaired code (defect found by this check): ncmpi_copy_att / ncmpio_copy_att never
    look at the format of the output file, so an NC_UINT64 attribute of a CDF-5 file is copied into a
    CDF-1 file with NC_NOERR (ncmpi_put_att of the same attribute returns NC_ESTRICTCDF2); the file
    written at enddef/close is not a CDF-1 file and ncmpi_open refuses it (NC_EBADTYPE). -/
theorem copy_att_refines_counterexample : ¬ copy_att_refines_Statement false := by
  intro h
  let E : Env := ⟨fun _ _ => 0, id, fun _ => true, false⟩
  let fin : File := (putAtt E (create ⟨1, 1, 1, 1, 5⟩) (-1) [97] false 11 [5]).1
  have hin : FInv E fin :=
    (putAtt_refines E _ (-1) [97] false 11 [5] (create_refines E ⟨1, 1, 1, 1, 5⟩ (by decide) (by decide) (by decide) (by decide)).2).2.2
  have hout : FInv E (create ⟨1, 1, 1, 1, 1⟩) :=
    (create_refines E ⟨1, 1, 1, 1, 1⟩ (by decide) (by decide) (by decide) (by decide)).2
  have := (h E fin (-1) [97] (create ⟨1, 1, 1, 1, 1⟩) (-1) false rfl hin hout).2.1
  exact absurd this (by decide)

/-- the unrepaired code with exactly the hypothesis it needs: the attribute being copied does not
    have an extended type while the output file is CDF-1/2 -/
theorem copy_att_refines_partial (E : Env) (fin : File) (varidIn : Int) (raw : Name) (fout : File) (varidOut : Int)
    (same : Bool) (invIn : FInv E fin) (inv : FInv E fout)
    (hok : ∀ Ain i ia, fin.getAtts varidIn = some Ain → lookup (names Ain.items) (E.nfc raw) = some i →
             Ain.items[i]? = some ia → ¬ (fout.cfg.format ≤ 2 ∧ ia.xtype > 6)) :
    R E (copyAtt E fin varidIn raw fout varidOut same) (sCopyAtt E fin.abs varidIn raw fout.abs varidOut same) :=
  copyAtt_refines E fin varidIn raw fout varidOut same invIn inv (Or.inr hok)

/-- with the repair the full statement holds -/
theorem copy_att_refines_repaired : copy_att_refines_Statement true :=
  fun E fin varidIn raw fout varidOut same hb invIn inv =>
    copyAtt_refines E fin varidIn raw fout varidOut same invIn inv (Or.inl hb)

/-- open: whatever well-formed header is read, populate-at-open yields consistent tables and the
    file shows exactly the header's lists -/
theorem open_refines (E : Env) (c : Cfg) (s : SHdr) (rdonly : Bool) (wf : s.Wf)
    (hd : 0 < c.hd) (hv : 0 < c.hv) (hg : 0 < c.hg) (ha : 0 < c.ha) :
    (openFile E c s rdonly).abs = sOpen c.format s rdonly ∧ FInv E (openFile E c s rdonly) :=
  openFile_refines E c s rdonly wf hd hv hg ha

/-- `meta_refines`, full statement for the code variant `b`: every program, run from the empty world,
    returns the reference model's results (error codes and ids, call by call), ends in a world whose
    abstraction is the reference model's world (objects, ids, order, names, types, lengths, values;
    header content left on disk by close), and every table of every open file is consistent at the end. -/
def meta_refines_Statement (b : Bool) : Prop :=
  ∀ (E : Env) (nslots : Nat) (ops : List MOp), E.copyChk = b → (∀ op ∈ ops, op.ok) →
    (wrun E (World.init nslots) ops).2 = (swrun E (SWorld.init nslots) ops).2 ∧
    (wrun E (World.init nslots) ops).1.abs = (swrun E (SWorld.init nslots) ops).1 ∧
    WInv E (wrun E (World.init nslots) ops).1

/-- the program that refutes it for the unrepaired code: create a CDF-5 file and a CDF-1 file, put an
    NC_UINT64 attribute into the first, copy it into the second — the code answers NC_NOERR, the
    reference model NC_ESTRICTCDF2 -/
def badCopy : List MOp :=
  [.create 0 ⟨8, 8, 8, 8, 5⟩, .create 1 ⟨8, 8, 8, 8, 1⟩, .putAtt 0 (-1) [97] false 11 [5], .copyAtt 0 (-1) [97] 1 (-1)]

theorem meta_refines_counterexample : ¬ meta_refines_Statement false := by
  intro h
  have := (h ⟨fun _ _ => 0, id, fun _ => true, false⟩ 2 badCopy rfl (by decide)).1
  exact absurd this (by decide)

/-- with the repair the full statement holds, for every program -/
theorem meta_refines_repaired : meta_refines_Statement true := by
  intro E nslots ops hb ok
  have := wrun_refines E (World.init nslots) ops (init_winv E nslots) ok (copiesOK_of_chk hb _ _)
  rw [init_abs] at this
  exact ⟨this.2.1, this.1, this.2.2⟩

/-- the repaired code answers the refuting program like the reference model -/
example : (wrun ⟨fun _ _ => 0, id, fun _ => true, true⟩ (World.init 2) badCopy).2.map Prod.fst = [0, 0, 0, -232] := by
  decide

/-- `meta_refines_partial`: for either variant the statement holds for every program that satisfies
    `copiesOK` (evaluated along the run): trivially true of every program with the repair
    (`copiesOK_of_chk`), and without it true of every program that never copies an attribute of an
    extended type into a CDF-1/2 file — in particular every program without copy_att. -/
theorem meta_refines_partial (E : Env) (nslots : Nat) (ops : List MOp) (ok : ∀ op ∈ ops, op.ok)
    (cok : copiesOK E (World.init nslots) ops = true) :
    (wrun E (World.init nslots) ops).2 = (swrun E (SWorld.init nslots) ops).2 ∧
    (wrun E (World.init nslots) ops).1.abs = (swrun E (SWorld.init nslots) ops).1 ∧
    WInv E (wrun E (World.init nslots) ops).1 := by
  have := wrun_refines E (World.init nslots) ops (init_winv E nslots) ok cok
  rw [init_abs] at this
  exact ⟨this.2.1, this.1, this.2.2⟩

/-- the table invariants themselves need no such hypothesis: they hold in every reachable world of
    every program (the defect concerns what is copied, not the tables) — stated for programs that
    satisfy `copiesOK`; see `hash_inv_*` above for the unconditional per-operation statements -/
theorem tables_consistent_reachable (E : Env) (nslots : Nat) (ops : List MOp) (ok : ∀ op ∈ ops, op.ok)
    (cok : copiesOK E (World.init nslots) ops = true) (s : Nat) (f : File)
    (hf : (wrun E (World.init nslots) ops).1.file s = some f) :
    TabInv E.h f.cfg.hd f.hdr.dims.names f.hdr.dims.tab ∧ TabInv E.h f.cfg.hv f.hdr.vars.names f.hdr.vars.tab ∧
    TabInv E.h f.cfg.hg f.hdr.gatts.names f.hdr.gatts.tab ∧
    ∀ v ∈ f.hdr.vars.items, TabInv E.h f.cfg.ha v.atts.names v.atts.tab := by
  have inv := (meta_refines_partial E nslots ops ok cok).2.2.files s f hf
  exact ⟨inv.dims.1, inv.vars.1, inv.gatts.1, fun v hv => (inv.vatts v hv).1⟩

/-- in every reachable world every inquiry on every open file answers what the reference model
    answers (lookup by name through the hash tables included) -/
theorem inquiries_agree (E : Env) (nslots : Nat) (ops : List MOp) (ok : ∀ op ∈ ops, op.ok)
    (cok : copiesOK E (World.init nslots) ops = true) (s : Nat) (f : File)
    (hf : (wrun E (World.init nslots) ops).1.file s = some f) :
    (∀ raw, inqDimid E f raw = sInqDimid E f.abs raw) ∧ (∀ raw, inqVarid E f raw = sInqVarid E f.abs raw) ∧
    (∀ id, inqDim f id = sInqDim f.abs id) ∧ (∀ id, inqVar f id = sInqVar f.abs id) ∧
    (∀ v, inqNatts f v = sInqNatts f.abs v) ∧ (∀ v n, inqAttname f v n = sInqAttname f.abs v n) ∧
    (∀ v raw, inqAttid E f v raw = sInqAttid E f.abs v raw) ∧ (∀ v raw, inqAtt E f v raw = sInqAtt E f.abs v raw) ∧
    (∀ v raw t, getAtt E f v raw t = sGetAtt E f.abs v raw t) := by
  have inv := (meta_refines_partial E nslots ops ok cok).2.2.files s f hf
  exact ⟨fun raw => inqDimid_eq E f raw inv, fun raw => inqVarid_eq E f raw inv, fun id => inqDim_eq f id,
         fun id => inqVar_eq f id, fun v => inqNatts_eq f v, fun v n => inqAttname_eq f v n,
         fun v raw => inqAttid_eq E f v raw inv, fun v raw => inqAtt_eq E f v raw inv,
         fun v raw t => getAtt_eq E f v raw t inv⟩

/-- API-level `name_id_agree`: in every reachable world, asking for the id of the name that
    inq_dim / inq_var report for an id gives that id back (NFC must be idempotent on stored names,
    which holds for real NFC; for the identity `nfc` see the example below) -/
theorem name_id_agree_api (E : Env) (nslots : Nat) (ops : List MOp) (ok : ∀ op ∈ ops, op.ok)
    (cok : copiesOK E (World.init nslots) ops = true) (s : Nat) (f : File)
    (hf : (wrun E (World.init nslots) ops).1.file s = some f) :
    (∀ i (hi : i < f.hdr.dims.items.length), E.nfc f.hdr.dims.items[i].name = f.hdr.dims.items[i].name →
        chkNameInq f.hdr.dims.items[i].name = 0 → inqDimid E f f.hdr.dims.items[i].name = (NC_NOERR, (i : Int))) ∧
    (∀ i (hi : i < f.hdr.vars.items.length), E.nfc f.hdr.vars.items[i].name = f.hdr.vars.items[i].name →
        chkNameInq f.hdr.vars.items[i].name = 0 → inqVarid E f f.hdr.vars.items[i].name = (NC_NOERR, (i : Int))) := by
  have inv := (meta_refines_partial E nslots ops ok cok).2.2.files s f hf
  constructor
  · intro i hi hn hc
    have := NArr.find_name inv.dims i hi
    simp only [inqDimid, hc, hn, ne_eq, not_true_eq_false, if_false]
    show (match f.hdr.dims.find E.h f.cfg.hd (Named.name f.hdr.dims.items[i]) with
          | some i => (NC_NOERR, (i : Int)) | none => (NC_EBADDIM, -1)) = _
    rw [this]
  · intro i hi hn hc
    have := NArr.find_name inv.vars i hi
    simp only [inqVarid, hc, hn, ne_eq, not_true_eq_false, if_false]
    show (match f.hdr.vars.find E.h f.cfg.hv (Named.name f.hdr.vars.items[i]) with
          | some i => (NC_NOERR, (i : Int)) | none => (NC_ENOTVAR, -1)) = _
    rw [this]

/-- "a metadata change made in data mode is in the file as soon as the call returns": each of the five
    operations that may change metadata in data mode either leaves the file object untouched (error
    return, rename_dim to the same name, self copy) or returns with the header on disk equal to the new
    in-memory header (ncmpio_write_header was called).  What `disk` means physically (the bytes of the
    file) is checked by the harness through a second read-only handle (DISK requests). -/
theorem data_mode_change_on_disk (E : Env) (f : File) (h : f.indef = false) :
    (∀ varid raw isText xt vals, (putAtt E f varid raw isText xt vals).1 = f ∨
        (putAtt E f varid raw isText xt vals).1.disk = some (putAtt E f varid raw isText xt vals).1.hdr.abs) ∧
    (∀ varid raw rawNew, (renameAtt E f varid raw rawNew).1 = f ∨
        (renameAtt E f varid raw rawNew).1.disk = some (renameAtt E f varid raw rawNew).1.hdr.abs) ∧
    (∀ dimid raw, (renameDim E f dimid raw).1 = f ∨
        (renameDim E f dimid raw).1.disk = some (renameDim E f dimid raw).1.hdr.abs) ∧
    (∀ varid raw, (renameVar E f varid raw).1 = f ∨
        (renameVar E f varid raw).1.disk = some (renameVar E f varid raw).1.hdr.abs) ∧
    (∀ fin varidIn raw varidOut same, (copyAtt E fin varidIn raw f varidOut same).1 = f ∨
        (copyAtt E fin varidIn raw f varidOut same).1.disk = some (copyAtt E fin varidIn raw f varidOut same).1.hdr.abs) :=
  ⟨fun varid raw isText xt vals => putAtt_disk E f varid raw isText xt vals h,
   fun varid raw rawNew => renameAtt_disk E f varid raw rawNew h,
   fun dimid raw => renameDim_disk E f dimid raw h,
   fun varid raw => renameVar_disk E f varid raw h,
   fun fin varidIn raw varidOut same => copyAtt_disk E fin varidIn raw f varidOut same h⟩

/-! ### non-vacuity: a concrete table with a collision (everything hashes to bucket 1 of 2) -/

example : TabInv (fun _ _ => 1) 2 [[97], [98]] [[], [0, 1]] := by
  have h0 := hash_inv_empty (fun _ _ => 1) 2
  have h1 := hash_inv_insert (fun _ _ => 1) 2 (by decide) [] _ h0 [97]
  exact hash_inv_insert (fun _ _ => 1) 2 (by decide) [[97]] _ h1 [98]

example : hashDelete (fun _ _ => 1) 2 [[], [0, 1, 2]] [97] 0 = some [[], [0, 1]] := by decide

/-- a program with colliding names (constant hash, table size 1 and 2), a delete that shifts ids and a
    rename, run on model and reference model: the hypotheses of `meta_refines` are met -/
def demoEnv : Env := ⟨fun _ _ => 7, id, fun _ => true, false⟩
def demoOps : List MOp :=
  [.create 0 ⟨1, 2, 1, 2, 5⟩, .defDim 0 [120] 3, .defDim 0 [121] 0, .defVar 0 [118] 4 [1, 0],
   .putAtt 0 0 [97] false 4 [1, 2], .putAtt 0 0 [98] true 2 [104, 105], .putAtt 0 0 [99] false 1 [300],
   .delAtt 0 0 [97], .renameAtt 0 0 [99] [100], .enddef 0, .renameVar 0 0 [119], .close 0,
   .openF 0 2 1 2 1 true, .copyAtt 0 0 [100] 0 (-1)]
example : ∀ op ∈ demoOps, op.ok := by decide
example : copiesOK demoEnv (World.init 1) demoOps = true := by decide
/-- hence the file invariant `FInv` (hypothesis of all per-operation theorems) is met by a concrete
    non-trivial file: the one the demo program leaves open (2 dims, 1 renamed var with 2 attributes
    after a delete, a global attribute, reopened with other table sizes) -/
example : ∃ f, (wrun demoEnv (World.init 1) demoOps).1.file 0 = some f ∧ FInv demoEnv f := by
  have h := (meta_refines_partial demoEnv 1 demoOps (by decide) (by decide)).2.2
  have hs : ((wrun demoEnv (World.init 1) demoOps).1.file 0).isSome = true := by decide
  obtain ⟨f, hf⟩ := Option.isSome_iff_exists.mp hs
  exact ⟨f, hf, h.files 0 f hf⟩
example : (wrun demoEnv (World.init 1) demoOps).2.map Prod.fst = [0, 0, 0, 0, 0, 0, -60, 0, 0, 0, 0, 0, 0, -38] := by
  decide

/-! ### the real hash function -/

/-- **bernstein_in_table**: for every name (any bytes, any length) and every table size the library can
    be configured with (1 ≤ size < 2³²; a size of 0 is rejected when the hint is parsed), the value
    ncmpio_Bernstein_hash returns — used by the C directly as the index into `nameT[]` — lies inside
    the table. -/
theorem bernstein_in_table (size : Nat) (nm : Name) (h1 : 1 ≤ size) (h2 : size < 2^32) : bernstein size nm < size := by
  unfold bernstein
  simp only [UInt32.toNat_and]
  have hm : (UInt32.ofNat size - 1).toNat = size - 1 := by
    rw [UInt32.toNat_sub_of_le]
    · simp [UInt32.toNat_ofNat']; omega
    · rw [UInt32.le_iff_toNat_le]; simp [UInt32.toNat_ofNat']; omega
  refine Nat.lt_of_le_of_lt Nat.and_le_right ?_
  rw [hm]; omega

/-- the model indexes buckets with `key h size nm = h size nm % size`; for the real hash function the
    reduction is the identity, i.e. the model's bucket is the C's bucket `nameT[HASH_FUNC(name, size)]` -/
theorem key_bernstein (size : Nat) (nm : Name) (h1 : 1 ≤ size) (h2 : size < 2^32) :
    key bernstein size nm = bernstein size nm :=
  Nat.mod_eq_of_lt (bernstein_in_table size nm h1 h2)

/-- non-vacuity / regression anchor: concrete values, also compared with the compiled C by the harness -/
example : bernstein 256 [0x74, 0x69, 0x6d, 0x65] = 142 ∧ bernstein 64 [] = 0 := by decide

def obligations : List String := [
  "bernstein_in_table", "key_bernstein", "hash_inv_empty", "hash_inv_insert", "hash_inv_delete", "hash_inv_replace", "hash_inv_copy",
  "hash_inv_populate", "hash_inv_mem", "lookup_by_name_eq_spec", "name_id_agree",
  "def_dim_refines", "rename_dim_refines", "def_var_refines", "rename_var_refines", "put_att_refines",
  "rename_att_refines", "del_att_refines", "copy_att_refines_counterexample", "copy_att_refines_partial",
  "copy_att_refines_repaired", "open_refines", "meta_refines_counterexample", "meta_refines_repaired", "meta_refines_partial", "tables_consistent_reachable",
  "inquiries_agree", "name_id_agree_api", "data_mode_change_on_disk"
]
end PnVerif.Props.C07
