import PnVerif.Model.IoStatus
import PnVerif.Gen.ErrMap
import PnVerif.Gen.IoSites
/-
  C11 — I/O failures are never silently dropped.

  Property (properties.jsonl): if the MPI-IO layer reports a failure of ANY error class for a read or
  write issued on behalf of a library call, that call (or the wait that completes the request)
  returns an error on the process where the failure occurred.

  The tables `sites`, `chains`, `paths`, `explicitMap` are REGENERATED from the C source on every run
  (tools/gen_c11_iosites.py); the theorems below are re-checked against the regenerated tables, so a
  new `onlyIfEFILE` site, a deleted `status = err`, an `err` that a later call overwrites ... changes a
  table row: it becomes a present exception, the full statement is refuted for that tree, and the check
  reports the row unless KNOWN_FINDINGS.txt has a finding for it.

  The full statement `NoSilentDrop_Statement` is FALSE of a tree that still has dropping rows (the
  known defects, each replayed on the real library by the fault-injection harness) and TRUE of a tree
  that has none.  This file is valid for BOTH: `exceptions` is COMPUTED from the regenerated table
  (the rows whose pattern does not keep a failure), the theorems are about the exceptions PRESENT:
    no_silent_drop_partial          nothing outside the present exceptions drops (every class, every code)
    exceptions_are_real             every present exception is a real drop of the table
    no_silent_drop_iff_no_exceptions   Statement ↔ exceptions = []
  Which of the present exceptions are TOLERATED is not decided here: checks/c11.py compares them with
  the `finding:` lines of KNOWN_FINDINGS.txt (an exception without a finding is reported).

  Rows are referred to by the generated constants `Key.<row id>` (numeric keys; the strings of the
  tables are labels only, the kernel never compares them): a row that disappears from the source
  makes this file fail to elaborate.
-/
namespace PnVerif.Props.C11
open PnVerif.IoStatus PnVerif.Gen.IoSites PnVerif.Gen.ErrMap

/-- NC code of an MPI error class (ncmpii_error_mpi2nc of this tree) -/
def ncOf (cls : Nat) : Int := mpi2nc explicitMap defaultCode cls

def pathsOf (s : Site) : List Path := paths.filter (fun p => p.fn == s.fn)

/-- values the driver entry point of `p` can return when site `s` fails with a code of class `cls` -/
def apiStatus (s : Site) (p : Path) (cls : Nat) : List Int := apiOutcomes chains s p (ncOf cls)

/-- THE PROPERTY, at full strength: every data-transfer call site (all rows of `sites` are
    MPI_File_{read,write}* calls), every call path to a driver entry point, every MPI error class:
    no possible return value is NC_NOERR. -/
def NoSilentDrop_Statement : Prop :=
  ∀ s ∈ sites, ∀ p ∈ pathsOf s, ∀ c ∈ mpiClasses, ∀ r ∈ apiStatus s p c.2, r ≠ 0

/-! ## the error-class table -/

/-- every MPI error class maps to a non-zero NC code -/
theorem errmap_total : ∀ c ∈ mpiClasses, ncOf c.2 ≠ 0 := by decide +kernel

/-- stronger, for every class VALUE (also ones this MPI does not define): the table has no zero entry
    and the default is not zero -/
theorem errmap_total_all (cls : Nat) : ncOf cls ≠ 0 := by
  unfold ncOf mpi2nc
  cases h : explicitMap.lookup cls with
  | none => simp [defaultCode]
  | some v =>
    have hm : (cls, v) ∈ explicitMap := lookup_some_mem cls explicitMap v h
    have hall : ∀ e ∈ explicitMap, e.2 ≠ 0 := by decide
    simpa using hall (cls, v) hm

/-- NC error codes are negative (used by the translator: MPI_Allreduce(MIN) of statuses keeps an error) -/
theorem errmap_negative : ∀ c ∈ mpiClasses, ncOf c.2 < 0 := by decide +kernel

/-- the default (MPI_ERR_IO and every class without a row) is NC_EFILE, and the table has no row for it -/
theorem errmap_default_is_EFILE : defaultCode = NC_EFILE ∧ ∀ e ∈ explicitMap, e.2 ≠ NC_EFILE := by decide

/-! ## the generated tables are well formed and fully classified -/

theorem nothing_untranslatable : untranslatable = [] := by decide

theorem no_unknown_pattern :
    (∀ s ∈ sites, s.pattern ≠ .unknown) ∧ (∀ ch ∈ chains, ch.pattern ≠ .unknown) := by decide +kernel

/-- the pattern label of every row is a sound summary of its outcome table: for EVERY incoming code -/
theorem site_pattern_sound : ∀ s ∈ sites, ∀ m : Int, s.out.eval m = patternEval NC_EFILE s.pattern s.code m := by
  have h : ∀ s ∈ sites, agrees NC_EFILE s.pattern s.code s.out = true := by decide +kernel
  intro s hs m
  exact agrees_sound _ _ _ _ (h s hs) m

theorem chain_pattern_sound : ∀ ch ∈ chains, ∀ m : Int, ch.out.eval m = patternEval NC_EFILE ch.pattern ch.code m := by
  have h : ∀ ch ∈ chains, agrees NC_EFILE ch.pattern ch.code ch.out = true := by decide +kernel
  intro ch hch m
  exact agrees_sound _ _ _ _ (h ch hch) m

/-- every path is a real call chain of the table: starts at the site's function, consecutive rows
    are callee/caller, ends at a driver entry point -/
theorem paths_wellformed :
    ∀ p ∈ paths, chainLinked chains p.fn p.chain p.chainKeys p.api = true ∧ p.api ∈ driverEntries := by decide +kernel

/-- every function that holds a site has at least one path -/
theorem every_site_has_a_path : ∀ s ∈ sites, pathsOf s ≠ [] := by decide +kernel

/-- keys identify rows -/
theorem keys_distinct : (sites.map (·.key)).Nodup ∧ (chains.map (·.key)).Nodup := by decide +kernel

/-! ## the known defects: explicit exceptions -/

inductive ClassFilter where
  | anyClass      -- every class is dropped
  | nonEFILE      -- classes whose NC code is not NC_EFILE are dropped (NO_SPACE, QUOTA, ACCESS, ...)
  deriving DecidableEq, Repr

structure Exception where
  row : Nat               -- key of the site or chain row that drops the failure
  filter : ClassFilter
  deriving Repr, DecidableEq

/-- a row is an exception iff its pattern does not keep every non-zero code -/
def rowException (key : Nat) (p : Pattern) (c : Int) : Option Exception :=
  if p.keeps c then none
  else if p == .onlyIfEFILE && c != 0 then some ⟨key, .nonEFILE⟩
  else some ⟨key, .anyClass⟩

/-- The exceptions PRESENT in the regenerated table.  Unfixed tree: the F6 sites (write_NC.1/.2,
    move_file_block.1-3, ncmpio_write_numrecs.2/.3: nonEFILE), F3 (req_commit>wait_getput.1 and the
    intra-node variant), fillerup_aggregate.1/.2, ncmpio_redef>ncmpio_end_indep_data.1, the dimid loop
    of hdr_get_NC_var (uint32.2/uint64.2) and the four zero-length participation sites.  A repaired
    row simply is no longer in the list. -/
def exceptions : List Exception :=
  sites.filterMap (fun s => rowException s.key s.pattern s.code) ++
  chains.filterMap (fun ch => rowException ch.key ch.pattern ch.code)

def Exception.coversB (e : Exception) (s : Site) (p : Path) (isEfile : Bool) : Bool :=
  (e.row == s.key || p.chainKeys.contains e.row) &&
  (match e.filter with | .anyClass => true | .nonEFILE => !isEfile)

/-- is the case (site, path, class with NC code m) one of the listed known defects -/
def exceptedB (s : Site) (p : Path) (isEfile : Bool) : Bool := exceptions.any (fun e => e.coversB s p isEfile)
def excepted (s : Site) (p : Path) (m : Int) : Bool := exceptedB s p (m == NC_EFILE)

/-- a site reports a failure whose NC code is / is not NC_EFILE -/
def siteOKat (s : Site) (isEfile : Bool) : Bool :=
  s.pattern.keeps s.code || (s.pattern == .onlyIfEFILE && isEfile && s.code != 0)

def chainsKeep (p : Path) : Bool :=
  (p.chain.filterMap (fun i => chains[i]?)).all (fun ch => ch.pattern.keeps ch.code)

/-- TABLE THEOREM (finite, regenerated: `decide`): every (site, path, EFILE-or-not) case outside the
    exception list has a reporting site pattern and only keeping chain rows -/
theorem unexcepted_cases_are_clean :
    ∀ s ∈ sites, ∀ p ∈ pathsOf s, ∀ b ∈ [true, false], exceptedB s p b = false →
      siteOKat s b = true ∧ chainsKeep p = true := by
  decide +kernel

/-! ### from patterns to values: for EVERY non-zero code, not only the codes of this MPI's classes -/

theorem keeps_nonzero (p : Pattern) (c m : Int) (hk : p.keeps c = true) (hm : m ≠ 0) :
    ∀ r ∈ patternEval NC_EFILE p c m, r ≠ 0 := by
  cases p <;> simp [Pattern.keeps, patternEval] at hk ⊢ <;> first | exact hm | (split <;> assumption) | exact hk

theorem siteOK_nonzero (s : Site) (hs : s ∈ sites) (m : Int) (hm : m ≠ 0)
    (hok : siteOKat s (m == NC_EFILE) = true) : ∀ r ∈ s.out.eval m, r ≠ 0 := by
  rw [site_pattern_sound s hs m]
  unfold siteOKat at hok
  simp only [Bool.or_eq_true, Bool.and_eq_true] at hok
  rcases hok with hk | ⟨⟨hp, he⟩, hc⟩
  · exact keeps_nonzero _ _ _ hk hm
  · have hp' : s.pattern = .onlyIfEFILE := by simpa using hp
    have he' : m = NC_EFILE := by simpa using he
    have hc' : s.code ≠ 0 := by simpa using hc
    simp [hp', patternEval, he', hc']

theorem runChains_nonzero (chs : List Chain)
    (hch : ∀ ch ∈ chs, ch.pattern.keeps ch.code = true ∧ ∀ m, ch.out.eval m = patternEval NC_EFILE ch.pattern ch.code m)
    (rs : List Int) (hrs : ∀ r ∈ rs, r ≠ 0) : ∀ r ∈ runChains chs rs, r ≠ 0 := by
  induction chs generalizing rs with
  | nil => simpa [runChains] using hrs
  | cons ch rest ih =>
    simp only [runChains]
    apply ih (fun c hc => hch c (List.mem_cons_of_mem _ hc))
    intro r hr
    simp only [List.mem_flatMap] at hr
    obtain ⟨a, ha, hra⟩ := hr
    have hane := hrs a ha
    unfold stepChain at hra
    simp only [hane, if_false] at hra
    have := hch ch List.mem_cons_self
    rw [this.2 a] at hra
    exact keeps_nonzero _ _ _ this.1 hane r hra

/-- GENERAL THEOREM (all codes): a reporting site and keeping chain rows never turn a non-zero
    failure code into NC_NOERR at the driver entry point -/
theorem clean_path_never_drops (s : Site) (hs : s ∈ sites) (p : Path) (m : Int) (hm : m ≠ 0)
    (hsite : siteOKat s (m == NC_EFILE) = true) (hrows : chainsKeep p = true) :
    ∀ r ∈ apiOutcomes chains s p m, r ≠ 0 := by
  unfold apiOutcomes
  apply runChains_nonzero
  · intro ch hch
    refine ⟨List.all_eq_true.mp hrows ch hch, ?_⟩
    have hmem : ch ∈ chains := by
      simp only [List.mem_filterMap] at hch
      obtain ⟨i, _, hi⟩ := hch
      exact List.mem_of_getElem? hi
    exact chain_pattern_sound ch hmem
  · exact siteOK_nonzero s hs m hm hsite

/-- PARTIAL THEOREM, all codes: outside the listed exceptions no non-zero failure code, at any site,
    along any call path, can turn into NC_NOERR -/
theorem no_silent_drop_partial_all_codes :
    ∀ s ∈ sites, ∀ p ∈ pathsOf s, ∀ m : Int, m ≠ 0 → excepted s p m = false →
      ∀ r ∈ apiOutcomes chains s p m, r ≠ 0 := by
  intro s hs p hp m hm hex
  have hb : (m == NC_EFILE) ∈ [true, false] := by cases (m == NC_EFILE) <;> simp
  obtain ⟨h1, h2⟩ := unexcepted_cases_are_clean s hs p hp _ hb hex
  exact clean_path_never_drops s hs p m hm h1 h2

/-- PARTIAL THEOREM as the property states it: every MPI error class -/
theorem no_silent_drop_partial :
    ∀ s ∈ sites, ∀ p ∈ pathsOf s, ∀ c ∈ mpiClasses, excepted s p (ncOf c.2) = false →
      ∀ r ∈ apiStatus s p c.2, r ≠ 0 := by
  intro s hs p hp c hc hex
  exact no_silent_drop_partial_all_codes s hs p hp (ncOf c.2) (errmap_total c hc) hex

/-- a tree without dropping rows satisfies the property as written -/
theorem no_silent_drop_of_no_exceptions (h : exceptions = []) : NoSilentDrop_Statement := by
  intro s hs p hp c hc r hr
  have hex : excepted s p (ncOf c.2) = false := by simp [excepted, exceptedB, h]
  exact no_silent_drop_partial s hs p hp c hc hex r hr

/-- two representative classes: the generic one (-> NC_EFILE) and a specific one -/
def witnessClasses : List Nat := [Cls.MPI_ERR_IO, Cls.MPI_ERR_NO_SPACE]

theorem witnessClasses_are_classes : ∀ c ∈ witnessClasses, ∃ x ∈ mpiClasses, x.2 = c := by decide +kernel

/-- every PRESENT exception really drops a failure of a class its filter admits, on some path no other
    exception covers, in the current table -/
def Exception.real (e : Exception) : Bool :=
  sites.any (fun s => (pathsOf s).any (fun p => witnessClasses.any (fun c =>
    (e.coversB s p (ncOf c == NC_EFILE) &&
     (exceptions.all (fun e' => e'.row == e.row || !e'.coversB s p (ncOf c == NC_EFILE)))) &&
    (apiOutcomes chains s p (ncOf c)).contains 0)))

theorem exceptions_are_real : ∀ e ∈ exceptions, e.real = true := by decide +kernel

/-- one present exception refutes the full statement -/
theorem statement_false_of_exception (e : Exception) (he : e ∈ exceptions) : ¬ NoSilentDrop_Statement := by
  intro h
  have hr := exceptions_are_real e he
  unfold Exception.real at hr
  simp only [List.any_eq_true, Bool.and_eq_true] at hr
  obtain ⟨s, hs, p, hp, c, hc, _, h0⟩ := hr
  obtain ⟨x, hx, hxc⟩ := witnessClasses_are_classes c hc
  have h0' : (0 : Int) ∈ apiStatus s p x.2 := by
    rw [hxc]
    unfold apiStatus
    simpa using h0
  exact h s hs p hp x hx 0 h0' rfl

/-- BOTH VARIANTS: the property as written holds exactly when the regenerated table has no dropping row -/
theorem no_silent_drop_iff_no_exceptions : NoSilentDrop_Statement ↔ exceptions = [] := by
  constructor
  · intro h
    cases hE : exceptions with
    | nil => rfl
    | cons e es =>
      exact absurd h (statement_false_of_exception e (by rw [hE]; exact List.mem_cons_self))
  · exact no_silent_drop_of_no_exceptions

/-- the hypothesis of the partial theorem is satisfiable (most of the table is outside the exceptions) -/
theorem partial_nonvacuous :
    (sites.flatMap (fun s => (pathsOf s).flatMap (fun p => witnessClasses.filter (fun c => !excepted s p (ncOf c))))).length ≥ 100 := by
  decide +kernel

/-! ## named witnesses (the cases the harness replays), valid for the unrepaired AND the repaired row:
    "if the row still has the defective pattern, this is the drop; the generic class is reported either way" -/

/-- F6: ncmpi_enddef, header write fails with MPI_ERR_NO_SPACE: NC_NOERR while write_NC is onlyIfEFILE -/
theorem F6_enddef_header_write_no_space :
    ∀ s ∈ sites, s.key = Key.write_NC_2 → s.pattern = .onlyIfEFILE →
      ∃ p ∈ pathsOf s, p.api = Fn.ncmpio_enddef ∧ 0 ∈ apiStatus s p Cls.MPI_ERR_NO_SPACE := by
  decide +kernel

/-- ... and NC_ENO_SPACE once it keeps the code (repaired tree) -/
theorem F6_enddef_header_write_no_space_repaired :
    ∀ s ∈ sites, s.key = Key.write_NC_2 → s.pattern.keeps s.code = true →
      ∀ p ∈ pathsOf s, p.api = Fn.ncmpio_enddef → apiStatus s p Cls.MPI_ERR_NO_SPACE = [ncOf Cls.MPI_ERR_NO_SPACE] := by
  decide +kernel

/-- F6: the same site reports the generic class (MPI_ERR_IO → NC_EFILE → NC_EWRITE) in both variants -/
theorem F6_enddef_header_write_generic_ok :
    ∀ s ∈ sites, s.key = Key.write_NC_2 → ∀ p ∈ pathsOf s, apiStatus s p Cls.MPI_ERR_IO = [NC_EWRITE] := by
  decide +kernel

/-- F3: while req_commit's write-phase row is `overwritable`, a failed collective write of a wait_all that
    also has a read phase can come out as NC_NOERR, whatever the class -/
theorem F3_wait_write_then_read :
    ∀ ch ∈ chains, ch.key = Key.req_commit__wait_getput_1 → ch.pattern = .overwritable →
      ∃ s ∈ sites, ∃ p ∈ pathsOf s, s.key = Key.ncmpio_read_write_3 ∧ p.api = Fn.ncmpio_wait ∧
        ∀ c ∈ mpiClasses, 0 ∈ apiStatus s p c.2 := by decide +kernel

/-- F19 / C11.N1: while fillerup_aggregate's write is `ignored`, the fill write of ncmpi_enddef is dropped for every class -/
theorem F19_fill_write_ignored :
    ∀ s ∈ sites, s.key = Key.fillerup_aggregate_2 → s.pattern = .ignored →
      ∃ p ∈ pathsOf s, p.api = Fn.ncmpio_enddef ∧ ∀ c ∈ mpiClasses, apiStatus s p c.2 = [0] := by decide +kernel

/-! ## req_commit: the hand transcriptions (unrepaired and repaired) and the generated rows agree -/

/-- UNREPAIRED variant (row pattern `overwritable`): what `req_commit` returns for a failed write phase
    (code w) is exactly the row's outcome set: `w` when there is no read phase, 0 (overwritten by the
    successful read) when there is -/
theorem commitStatus_matches_table :
    ∀ ch ∈ chains, ch.key = Key.req_commit__wait_getput_1 → ch.pattern = .overwritable →
      ∀ w : Int, ch.out.eval w = [commitStatus true false w 0, commitStatus true true w 0] := by
  intro ch hch _ hp w
  rw [chain_pattern_sound ch hch w, hp]
  simp [patternEval, commitStatus]

/-- REPAIRED variant (row pattern `propagate`): with or without a read phase the write failure is returned -/
theorem commitStatusFixed_matches_table :
    ∀ ch ∈ chains, ch.key = Key.req_commit__wait_getput_1 → ch.pattern = .propagate →
      ∀ (w : Int) (dr : Bool), w ≠ 0 → ch.out.eval w = [commitStatusFixed true dr w 0] := by
  intro ch hch _ hp w dr hw
  rw [chain_pattern_sound ch hch w, hp]
  cases dr <;> simp [patternEval, commitStatusFixed, hw]

/-- the tree is one of the two variants -/
theorem commit_row_is_one_of_the_variants :
    ∀ ch ∈ chains, ch.key = Key.req_commit__wait_getput_1 → ch.pattern = .overwritable ∨ ch.pattern = .propagate := by
  decide +kernel

/-- the read phase itself is reported in both variants (nothing follows it) -/
theorem commit_read_phase_propagates :
    ∀ ch ∈ chains, ch.key = Key.req_commit__wait_getput_2 →
      ∀ r : Int, ch.out.eval r = [commitStatus true true 0 r] ∧ (r ≠ 0 → ch.out.eval r = [commitStatusFixed false true 0 r]) := by
  intro ch hch hid r
  rw [chain_pattern_sound ch hch r]
  have hp : ∀ ch ∈ chains, ch.key = Key.req_commit__wait_getput_2 → ch.pattern = .propagate := by decide +kernel
  rw [hp ch hch hid]
  simp [patternEval, commitStatus, commitStatusFixed]

/-- the repaired req_commit never drops -/
theorem commit_fixed_no_drop (w r : Int) (dw dr : Bool) (h : (dw = true ∧ w ≠ 0) ∨ (dw = false ∧ dr = true ∧ r ≠ 0)) :
    commitStatusFixed dw dr w r ≠ 0 := by
  rcases h with ⟨h1, h2⟩ | ⟨h1, h2, h3⟩ <;> simp [commitStatusFixed, *]

/-! ## non-vacuity examples -/

-- a data read: MPI_ERR_ACCESS at the collective read of a blocking get → NC_EACCESS at ncmpio_get_var
example : ∃ s ∈ sites, ∃ p ∈ pathsOf s, s.key = Key.ncmpio_read_write_1 ∧ p.api = Fn.ncmpio_get_var ∧
    excepted s p (ncOf Cls.MPI_ERR_ACCESS) = false ∧ apiStatus s p Cls.MPI_ERR_ACCESS = [-77] := by decide +kernel
-- the generic class at a data write: NC_EFILE is rewritten to NC_EWRITE and reaches ncmpio_put_var
example : ∃ s ∈ sites, ∃ p ∈ pathsOf s, s.key = Key.ncmpio_read_write_3 ∧ p.api = Fn.ncmpio_put_var ∧
    apiStatus s p Cls.MPI_ERR_IO = [NC_EWRITE] := by decide +kernel
example : commitStatus true true (-206) 0 = 0 := by decide
example : commitStatus true false (-206) 0 = -206 := by decide
example : ncOf Cls.MPI_ERR_NO_SPACE = -224 ∧ ncOf Cls.MPI_ERR_IO = NC_EFILE := by decide +kernel

def obligations : List String := [
  "errmap_total", "errmap_total_all", "errmap_negative", "errmap_default_is_EFILE",
  "nothing_untranslatable", "no_unknown_pattern", "site_pattern_sound", "chain_pattern_sound",
  "paths_wellformed", "every_site_has_a_path", "keys_distinct",
  "unexcepted_cases_are_clean", "keeps_nonzero", "siteOK_nonzero", "runChains_nonzero", "clean_path_never_drops",
  "no_silent_drop_partial_all_codes", "no_silent_drop_partial", "no_silent_drop_of_no_exceptions",
  "witnessClasses_are_classes", "exceptions_are_real", "statement_false_of_exception",
  "no_silent_drop_iff_no_exceptions", "partial_nonvacuous",
  "F6_enddef_header_write_no_space", "F6_enddef_header_write_no_space_repaired", "F6_enddef_header_write_generic_ok",
  "F3_wait_write_then_read", "F19_fill_write_ignored",
  "commitStatus_matches_table", "commitStatusFixed_matches_table", "commit_row_is_one_of_the_variants",
  "commit_read_phase_propagates", "commit_fixed_no_drop"
]
end PnVerif.Props.C11
