import PnVerif.Lemmas.Encode
import PnVerif.Lemmas.PostPass
import PnVerif.Lemmas.Accept
/-
  C04 — any specification-valid classic file is read back exactly.
  Model: Model/Header.lean; independent decoder: Spec/SpecDecode.lean.
-/
namespace PnVerif.Props.C04
open PnVerif.Spec PnVerif.Header

/-- The header size the library reports (ncmpio_hdr_len_NC, used for `xsz`, the write length and
    every offset computed from it) is exactly the number of bytes hdr_put_NC_* produce, for every
    header in all three formats. -/
theorem encode_length (h : Hdr) (hn : NamesNoNul h) : (encodeRaw h).length = Hdr.len h := by
  unfold encodeRaw Hdr.len
  simp only [List.length_append, putNonNeg_length, putDimArray_length h.fmt h.dims hn.1,
    putAttrArray_length h.fmt h.gatts hn.2.1, putVarArray_length h.fmt h.vars hn.2.2]
  simp [magicBytes]

/-- The result of ncmpio_hdr_get_NC does not depend on the read chunk size: for EVERY value of
    ncp->chunk (the effective chunk is RNDUP(MAX(36, chunk), 4) as in the C) and EVERY byte string —
    valid, corrupt or truncated — the chunked reader (window, slack move, zero fill on short read,
    copy loops across chunk boundaries, padding refills) returns exactly what the reader with the
    whole file in view returns: the same header and derived layout, or the same error code. -/
theorem chunk_independent (c : Nat) (file : Bytes) : decodeChunked c file = decodeWhole file := by
  unfold decodeChunked decodeWhole
  have hc := chunkOf_ge c
  have h0 := fetch_init file (chunkOf c) (zeros (chunkOf c))
  rw [fetch_init_eq] at h0
  simp only [fetch_init_eq]
  simp only [take_ztake (show 12 ≤ chunkOf c by omega)]
  cases hm : checkMagic (ztake 12 file) with
  | error e => rfl
  | ok f =>
    simp only []
    have h4 := (advance_inv (k := 4) h0 (by show 0 + 4 ≤ chunkOf c; omega)).2
    have hsim := run_sim (file := file) (chunk := chunkOf c) (by omega) (getBody f) _ _ h4
    simp only [Nat.zero_add] at hsim
    revert hsim
    generalize run (winR file (chunkOf c)) (getBody f) _ = x
    generalize run flatR (getBody f) (List.drop 4 file) = y
    intro hsim
    match x, y, hsim with
    | .ok (a, w), .ok (b, s), ⟨hab, _⟩ => subst hab; rfl
    | .error e, .error f', hef => cases hef; rfl

/-- The independent decoder (written from the format BNF only) recovers from the bytes the writer
    produces exactly the header that was written — every field, in all three formats — and leaves
    exactly the bytes that follow the header, for every header whose fields fit their widths
    (`Encodable`): any names without NUL, any attribute type/length including 0, any
    number/order of dimensions, attributes and variables, any vsize and begin values. -/
theorem specDecode_encode (d : Schema) (rest : Bytes) (h : Encodable d) :
    Spec.specDecode (encodeRaw d ++ rest) = some d := by
  unfold Spec.specDecode
  rw [header_put d rest h]; rfl

/-- ANY byte string the specification decoder accepts is decoded by the library's reader to exactly
    the specification's schema, provided only the library's own limits hold (names ≤ 256 bytes,
    counts ≤ 2^31-1, one record dimension, dimension ids in range): the header part of
    ncmpio_hdr_get_NC returns `d` itself, and the final result is the post-pass (shapes, lengths,
    offset checks) applied to `d`.  Nothing is assumed about who wrote the file: gaps, stale or
    saturated vsize, zero-length attributes, arbitrary padding content, arbitrary bytes after the
    header are all covered. -/
theorem decode_specvalid (b rest : Bytes) (d : Schema) (h : Spec.header b = some (d, rest)) (hl : Limits d) :
    decodeWhole b = (match postPass d with
      | .ok info => .ok (d, info)
      | .error e => .error e) := by
  obtain ⟨hm, hr⟩ := header_sim h hl
  unfold decodeWhole
  rw [hm]
  simp only []
  rw [hr]
  simp only []
  cases postPass d <;> rfl

/-- the same through the chunked reader, for every chunk size -/
theorem decodeChunked_specvalid (c : Nat) (b rest : Bytes) (d : Schema)
    (h : Spec.header b = some (d, rest)) (hl : Limits d) :
    decodeChunked c b = (match postPass d with
      | .ok info => .ok (d, info)
      | .error e => .error e) := by
  rw [chunk_independent, decode_specvalid b rest d h hl]

/-- the writer's own dialect is read back exactly, whatever follows the header -/
theorem decode_encode (d : Schema) (rest : Bytes) (he : Encodable d) (hl : Limits d) :
    decodeWhole (encodeRaw d ++ rest) = (match postPass d with
      | .ok info => .ok (d, info)
      | .error e => .error e) :=
  decode_specvalid _ rest d (header_put d rest he) hl

/-- vsize is ignored and recomputed: for ANY byte string the specification decoder accepts (and the
    library's limits), if ncmpio_hdr_get_NC opens the file then the header it holds is the
    specification's schema, and the variable lengths it uses from then on are the ones the format
    prescribes (product of the dimension lengths × element size, padded to 4) — whatever the vsize
    fields say (stale, saturated, zero) — for every read chunk size. -/
theorem open_reads_back (c : Nat) (b rest : Bytes) (d : Schema) (hdr : Hdr) (info : Info)
    (h : Spec.header b = some (d, rest)) (hl : Limits d) (ho : decodeChunked c b = .ok (hdr, info)) :
    hdr = d ∧ info.lens = d.vars.map d.varLen ∧ info.xsz = Hdr.len d := by
  rw [decodeChunked_specvalid c b rest d h hl] at ho
  cases hp : postPass d with
  | error e => rw [hp] at ho; cases ho
  | ok i =>
    rw [hp] at ho
    simp only [Except.ok.injEq, Prod.mk.injEq] at ho
    obtain ⟨rfl, rfl⟩ := ho
    exact ⟨rfl, postPass_lens d i hp⟩

/-- C04, the main statement.  ANY byte string that is a specification-valid classic file —
    accepted by the independent BNF decoder, within the library's limits, with a layout the
    specification allows (`Schema.LayoutValid`: valid dimension references, variables ≤ 2^31-4 bytes,
    begins after the header and increasing in definition order without overlap, gaps anywhere,
    any vsize) — is opened successfully by ncmpio_hdr_get_NC for EVERY read chunk size, and what the
    library then holds is exactly the specification's schema, the specified variable lengths and
    the encoded header size. -/
theorem valid_file_opens (c : Nat) (b rest : Bytes) (d : Schema)
    (h : Spec.header b = some (d, rest)) (hl : Limits d) (hv : d.LayoutValid (Hdr.len d)) :
    ∃ info, decodeChunked c b = .ok (d, info) ∧ info.lens = d.vars.map d.varLen ∧ info.xsz = Hdr.len d := by
  obtain ⟨info, hp⟩ := postPass_ok d hv
  refine ⟨info, ?_, postPass_lens d info hp⟩
  rw [decodeChunked_specvalid c b rest d h hl, hp]

/-- the same for the files the specification encoder of the harness (and the library's own writer)
    produces, with arbitrary bytes after the header -/
theorem valid_encoding_opens (c : Nat) (d : Schema) (rest : Bytes) (he : Encodable d) (hl : Limits d)
    (hv : d.LayoutValid (Hdr.len d)) :
    ∃ info, decodeChunked c (encodeRaw d ++ rest) = .ok (d, info) ∧ info.lens = d.vars.map d.varLen :=
  let ⟨info, h1, h2, _⟩ := valid_file_opens c _ rest d (header_put d rest he) hl hv
  ⟨info, h1, h2⟩

/-! non-vacuity: a CDF-1 header with a gap before the first variable, a stale vsize, a saturated
    vsize, a zero-length attribute and a record variable meets every hypothesis above -/
def exampleHdr : Schema :=
  { fmt := .cdf1, numrecs := 2,
    dims := [{ name := [0x74], size := 0 }, { name := [0x78], size := 3 }],
    gatts := [{ name := [0x61], xtype := .double, nelems := 0, xvalue := [] },
              { name := [0x62, 0x63], xtype := .short, nelems := 1, xvalue := [0, 7] }],
    vars := [{ name := [0x76], dimids := [1], atts := [], xtype := .int, vsize := 4294967295, begin := 400 },
             { name := [0x77], dimids := [0, 1], atts := [], xtype := .byte, vsize := 99, begin := 512 }] }

example : Encodable exampleHdr := by
  constructor <;> simp [exampleHdr, nnLim] <;>
    (try (refine ⟨?_, ?_⟩)) <;> constructor <;> simp [NoNul, nnLim, rawLim, offLim, NcType.okFor, NcType.code, NcType.size]

example : Limits exampleHdr := by
  constructor <;> simp [exampleHdr, NC_MAX_DIMS, NC_MAX_ATTRS, NC_MAX_VARS, NC_MAX_INT, NC_MAX_NAME, AttLim] <;>
    (try (refine ⟨?_, ?_⟩)) <;> constructor <;> simp [NC_MAX_NAME, NC_MAX_VAR_DIMS, NC_MAX_ATTRS, NC_MAX_INT]

example : (postPass exampleHdr).toOption.map (fun i => (i.xsz, i.lens, i.recsize, i.beginVar, i.beginRec)) =
    some (168, [12, 4], 3, 400, 512) := by decide

example : exampleHdr.LayoutValid (Hdr.len exampleHdr) := by
  refine ⟨?_, ?_, 412, by rfl, 516, by rfl⟩
  · intro v hv
    simp only [exampleHdr, List.mem_cons, List.mem_nil_iff, or_false] at hv
    rcases hv with rfl | rfl <;> simp [exampleHdr, Schema.isRecDim]
  · intro v hv
    simp only [exampleHdr, List.mem_cons, List.mem_nil_iff, or_false] at hv
    rcases hv with rfl | rfl <;> simp [exampleHdr, Schema.nelems, Schema.dimFactor, NcType.size]

def obligations : List String := [
  "encode_length", "chunk_independent", "specDecode_encode", "decode_specvalid", "decodeChunked_specvalid",
  "decode_encode", "open_reads_back", "valid_file_opens", "valid_encoding_opens"
]
end PnVerif.Props.C04
