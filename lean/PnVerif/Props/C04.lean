import PnVerif.Lemmas.HeaderLemmas
/-
  C04 — any specification-valid classic file is read back exactly.
  Model: Model/Header.lean; independent decoder: Spec/SpecDecode.lean.
-/
namespace PnVerif.Props.C04
open PnVerif.Spec PnVerif.Header

/-- The header size the library reports (ncmpio_hdr_len_NC, used for `xsz`, the write length and
    every offset computed from it) is exactly the number of bytes hdr_put_NC_* produce, for every
    header in all three formats. -/
theorem encode_length (h : Hdr) (hn : NamesNoNul h) : (encodeRaw h).length = Hdr.len h := by
  unfold encodeRaw Hdr.len
  simp only [List.length_append, putNonNeg_length, putDimArray_length h.fmt h.dims hn.1,
    putAttrArray_length h.fmt h.gatts hn.2.1, putVarArray_length h.fmt h.vars hn.2.2]
  simp [magicBytes]

def obligations : List String := [
  "encode_length"
]
end PnVerif.Props.C04
