import PnVerif.Model.World
import PnVerif.Lemmas.World
/-
  C08 — collective calls match on all ranks: no deadlock, errors stay local.

  `localTrace rp api cfg world me` (Model/World.lean) is the sequence of MPI collectives rank `me` executes
  inside the collective call `api`, transcribed from the dispatcher and the ncmpio driver; `world` are the
  inputs of all ranks of the file's communicator (any number of them), `cfg` what is the same on all ranks,
  `rp` which of the proposed repairs are present in the tree (`Repairs.none` = the tree as it is).

  The property as written is FALSE of the tree as it is: `trace_rank_independent_counterexample` and the
  three `…_needs_…` theorems exhibit one witness per defect; the harness replays each witness against the
  real library.  `trace_rank_independent_partial` is the statement with exactly the extra hypothesis
  (no rank's input is a `Trigger`), `trace_rank_independent_repaired` the full statement for the repaired tree.
-/
namespace PnVerif.Props.C08
open PnVerif.World

/-! ### 1. every rank executes the same sequence of collectives -/
def trace_rank_independent_Statement (rp : Repairs) : Prop :=
  ∀ (api : Api) (cfg : Cfg) (world : List RankInput) (a b : RankInput), a ∈ world → b ∈ world →
    localTrace rp api cfg world a = localTrace rp api cfg world b

/-- F2: blocking collective put on a record variable, one rank passes a count beyond a fixed dimension
    (NC_EEDGE) and goes through ncmpio_getput_zero_req, which has no numrecs Allreduce -/
def witnessF2 : List RankInput := [{ cls := .argErr .eedge }, { cls := .valid, recEnd := 4 }]
/-- ncmpi_fill_var_rec: one rank names a fixed-size variable (NC_ENOTRECVAR) and returns before the collective fill -/
def witnessFill : List RankInput := [{ fillCls := .ok, recno := 3 }, { fillCls := .notRec, varid := 2 }]
/-- ncmpi_rename_var in data mode with the hint romio_no_indep_rw=true: one rank passes an illegal name
    (NC_EBADNAME) and returns before the collective header write -/
def witnessMeta : List RankInput := [{}, { metaErr := 59 }]

theorem trace_rank_independent_counterexample : ¬ trace_rank_independent_Statement Repairs.none := by
  intro h
  have := h (.getput .var .put .record) {} witnessF2 { cls := .argErr .eedge } { cls := .valid, recEnd := 4 }
    (by decide) (by decide)
  revert this; decide

/-- each repair is needed on its own -/
theorem trace_needs_zeroPathNumrecs :
    ¬ trace_rank_independent_Statement { Repairs.all with zeroPathNumrecs := false } := by
  intro h
  have := h (.getput .vard .put .record) {} witnessF2 { cls := .argErr .eedge } { cls := .valid, recEnd := 4 }
    (by decide) (by decide)
  revert this; decide
/-- the repair proposed for F2 leaves the ranks whose variable ID is unusable (NC_ENOTVAR, NC_EGLOBAL) outside -/
def witnessF2BadVarid : List RankInput := [{ cls := .argErr .enotvar }, { cls := .valid, recEnd := 4 }]
theorem trace_needs_zeroPathBadVarid :
    ¬ trace_rank_independent_Statement { Repairs.all with zeroPathBadVarid := false } := by
  intro h
  have := h (.getput .var .put .record) {} witnessF2BadVarid { cls := .argErr .enotvar } { cls := .valid, recEnd := 4 }
    (by decide) (by decide)
  revert this; decide
theorem trace_needs_fillVarRecErr :
    ¬ trace_rank_independent_Statement { Repairs.all with fillVarRecErr := false } := by
  intro h
  have := h .fillVarRec {} witnessFill { fillCls := .ok, recno := 3 } { fillCls := .notRec, varid := 2 }
    (by decide) (by decide)
  revert this; decide
theorem trace_needs_metaErrJoins :
    ¬ trace_rank_independent_Statement { Repairs.all with metaErrJoins := false } := by
  intro h
  have := h .renameVar { hcoll := true } witnessMeta {} { metaErr := 59 } (by decide) (by decide)
  revert this; decide

/-- the witnesses really are of the excluded kind, and ordinary inputs are not (non-vacuity of `Trigger`) -/
example : Trigger Repairs.none (.getput .var .put .record) {} { cls := .argErr .eedge } := by decide
example : ¬ Trigger Repairs.none (.getput .var .put .record) {} { cls := .valid, recEnd := 4 } := by decide
example : ¬ Trigger Repairs.none (.getput .var .put .fixed) {} { cls := .argErr .eedge } := by decide
example : ¬ Trigger Repairs.none (.getput .var .get .record) {} { cls := .argErr .einvalcoords } := by decide
example : ¬ Trigger Repairs.none (.getput .var .put .record) { safe := true } { cls := .argErr .eedge } := by decide

private theorem blocking_eq (rp : Repairs) (f : Form) (d : Dir) (vk : VarKind) (cfg : Cfg)
    (world : List RankInput) (a b : RankInput)
    (ha : (d = .put ∧ vk = .record) → skipsSync rp a = false)
    (hb : (d = .put ∧ vk = .record) → skipsSync rp b = false) :
    blockingDriver rp f d vk cfg world a = blockingDriver rp f d vk cfg world b := by
  have key : ∀ x : RankInput, ((d = .put ∧ vk = .record) → skipsSync rp x = false) →
      blockingDriver rp f d vk cfg world x =
        [.setView, rwTok d] ++ (if d = .put ∧ vk = .record then numrecsSync rp f cfg world else []) := by
    intro x hx
    unfold blockingDriver
    cases hc : x.cls with
    | argErr e =>
      simp only
      by_cases hpr : d = .put ∧ vk = .record
      · have h1 := hx hpr
        unfold skipsSync at h1
        rw [hc] at h1
        have : zeroJoins rp e = true := by simpa using h1
        simp [this]
      · simp [hpr]
    | valid => rfl
    | zeroLen => rfl
    | drvErr e => rfl
  rw [key a ha, key b hb]

/-- the statement with exactly the hypothesis needed on today's tree: no rank's input is a `Trigger` -/
theorem trace_rank_independent_partial (rp : Repairs) (api : Api) (cfg : Cfg) (world : List RankInput)
    (a b : RankInput) (ha : a ∈ world) (hb : b ∈ world)
    (hta : ¬ Trigger rp api cfg a) (htb : ¬ Trigger rp api cfg b) :
    localTrace rp api cfg world a = localTrace rp api cfg world b := by
  have hroot : world.headD a = world.headD b := headD_of_mem world a b a ha
  cases api with
  | getput f d vk =>
    simp only [localTrace, getputTrace]
    by_cases hs : cfg.safe = true
    · simp only [hs, if_true]
      by_cases hm : minOf (world.map dispErr) ≠ 0
      · simp [hm]
      · simp only [hm, if_false]
        have hm0 : minOf (world.map dispErr) = 0 := by simpa using hm
        have hz : ∀ x ∈ world, isArgErr x = false := by
          intro x hx
          have h1 := minOf_map_mem dispErr world x hx
          have h2 := dispErr_le_zero x
          exact (dispErr_eq_zero_iff x).mp (by omega)
        have hskip : ∀ x ∈ world, skipsSync rp x = false := by
          intro x hx
          have h0 := hz x hx
          unfold isArgErr at h0
          unfold skipsSync
          cases hcx : x.cls <;> rw [hcx] at h0 <;> simp at h0 ⊢
        congr 1
        unfold getputDriver
        cases f with
        | nb => rfl
        | var => exact blocking_eq rp _ d vk cfg world a b (fun _ => hskip a ha) (fun _ => hskip b hb)
        | vard => exact blocking_eq rp _ d vk cfg world a b (fun _ => hskip a ha) (fun _ => hskip b hb)
    · have hs' : cfg.safe = false := by simpa using hs
      simp only [hs', Bool.false_eq_true, if_false]
      unfold getputDriver
      cases f with
      | nb => rfl
      | var =>
        apply blocking_eq
        · intro hpr; obtain ⟨hd, hv⟩ := hpr; subst hd; subst hv
          cases hq : skipsSync rp a with
          | false => rfl
          | true => exact absurd ⟨hs', by decide, hq⟩ hta
        · intro hpr; obtain ⟨hd, hv⟩ := hpr; subst hd; subst hv
          cases hq : skipsSync rp b with
          | false => rfl
          | true => exact absurd ⟨hs', by decide, hq⟩ htb
      | vard =>
        apply blocking_eq
        · intro hpr; obtain ⟨hd, hv⟩ := hpr; subst hd; subst hv
          cases hq : skipsSync rp a with
          | false => rfl
          | true => exact absurd ⟨hs', by decide, hq⟩ hta
        · intro hpr; obtain ⟨hd, hv⟩ := hpr; subst hd; subst hv
          cases hq : skipsSync rp b with
          | false => rfl
          | true => exact absurd ⟨hs', by decide, hq⟩ htb
  | waitAll => rfl
  | fillVarRec =>
    simp only [localTrace, fillTrace]
    by_cases hs : cfg.safe = true
    · simp only [hs, if_true]
      by_cases hm : minOf (world.map fillDispErr) ≠ 0
      · simp [hm]
      · simp only [hm, if_false]
        have e1 := Decidable.not_iff_not.mp (fillSafeErr_ne_zero_iff rp.safeMinCode (world.headD a) world a ha)
        have e2 := Decidable.not_iff_not.mp (fillSafeErr_ne_zero_iff rp.safeMinCode (world.headD a) world b hb)
        rw [← hroot]
        simp only [ne_eq, e1, e2]
    · have hs' : cfg.safe = false := by simpa using hs
      simp only [hs', Bool.false_eq_true, if_false]
      have key : ∀ x : RankInput, ¬ Trigger rp .fillVarRec cfg x →
          (if fillOwnErr x ≠ 0 then (if rp.fillVarRecErr = true then fillBody cfg world else []) else fillBody cfg world)
            = fillBody cfg world := by
        intro x hx
        by_cases he : fillOwnErr x ≠ 0
        · cases hz : rp.fillVarRecErr with
          | true => simp [he]
          | false => exact absurd ⟨hz, hs', he⟩ hx
        · simp [he]
      rw [key a hta, key b htb]
  | sync => rfl
  | syncNumrecs => rfl
  | beginIndep => rfl
  | endIndep => rfl
  | redef => rfl
  | enddef L wa =>
    simp only [localTrace, enddefTrace]
    by_cases hs : cfg.safe = true
    · simp only [hs, if_true]; rw [hroot]
    · have hs' : cfg.safe = false := by simpa using hs
      simp only [hs', Bool.false_eq_true, if_false]
      have key : ∀ x : RankInput, ¬ Trigger rp (.enddef L wa) cfg x →
          (if metaCode x ≠ 0 then (if rp.metaErrJoins = true then enddefDriver cfg L else []) else enddefDriver cfg L)
            = enddefDriver cfg L := by
        intro x hx
        by_cases he : metaCode x ≠ 0
        · cases hz : rp.metaErrJoins with
          | true => simp [he]
          | false =>
            have : x.metaErr ≠ 0 := fun h0 => he ((metaCode_eq_zero_iff x).mpr h0)
            exact absurd ⟨hz, hs', this⟩ hx
        · simp [he]
      rw [key a hta, key b htb]
  | close L => rfl
  | create => rfl
  | openFile n => rfl
  | renameVar =>
    simp only [localTrace, renameTrace]
    by_cases hs : cfg.safe = true
    · simp only [hs, if_true]; rw [hroot]
    · have hs' : cfg.safe = false := by simpa using hs
      simp only [hs', Bool.false_eq_true, if_false]
      have key : ∀ x : RankInput, ¬ Trigger rp .renameVar cfg x →
          (if metaCode x ≠ 0 then (if rp.metaErrJoins = true then writeHeader cfg else []) else writeHeader cfg)
            = writeHeader cfg := by
        intro x hx
        by_cases he : metaCode x ≠ 0
        · cases hz : rp.metaErrJoins with
          | true => simp [he]
          | false =>
            have : x.metaErr ≠ 0 := fun h0 => he ((metaCode_eq_zero_iff x).mpr h0)
            exact absurd ⟨hz, hs', this⟩ hx
        · simp [he]
      rw [key a hta, key b htb]

  | metaCall k =>
    simp only [localTrace, metaTrace]
    rw [hroot]
    by_cases hs : cfg.safe = true
    · simp only [hs, if_true]
    · have hs' : cfg.safe = false := by simpa using hs
      simp only [hs', Bool.false_eq_true, if_false]
      have key : ∀ x : RankInput, ¬ Trigger rp (.metaCall k) cfg x →
          (if metaCode x ≠ 0 then (if rp.metaErrJoins = true then metaBody k cfg (world.headD b).margs else [])
           else metaBody k cfg (world.headD b).margs) = metaBody k cfg (world.headD b).margs := by
        intro x hx
        by_cases he : metaCode x ≠ 0
        · cases hz : rp.metaErrJoins with
          | true => simp [he]
          | false =>
            have : x.metaErr ≠ 0 := fun h0 => he ((metaCode_eq_zero_iff x).mpr h0)
            exact absurd ⟨hz, hs', this⟩ hx
        · simp [he]
      rw [key a hta, key b htb]

theorem no_trigger_when_repaired (api : Api) (cfg : Cfg) (x : RankInput) : ¬ Trigger Repairs.all api cfg x := by
  unfold Trigger
  split
  · rintro ⟨_, _, h⟩
    unfold skipsSync zeroJoins Repairs.all at h
    cases hc : x.cls <;> rw [hc] at h <;> simp at h
  all_goals simp [Repairs.all]

/-- with the three repairs the property holds as written -/
theorem trace_rank_independent_repaired : trace_rank_independent_Statement Repairs.all := by
  intro api cfg world a b ha hb
  exact trace_rank_independent_partial _ api cfg world a b ha hb
    (no_trigger_when_repaired api cfg a) (no_trigger_when_repaired api cfg b)

/-- the hypotheses of the partial theorem are met by a mixed world: valid, zero-length, two kinds of
    invalid argument and a driver-level error, on a fixed-size variable (and the traces are not empty) -/
example : localTrace Repairs.none (.getput .var .put .fixed) {}
    [{ cls := .valid }, { cls := .zeroLen }, { cls := .argErr .eedge }, { cls := .argErr .einvalcoords },
     { cls := .drvErr .eiomismatch }] { cls := .argErr .eedge } = [.setView, .writeAll] := by decide
example : localTrace Repairs.none .waitAll { numrecs := 2 }
    [{ nPut := 2, maxRec := 5 }, { nGet := 1 }, {}] {} = [.allreduce, .setView, .writeAll, .setView, .readAll] := by decide

/-! ### 2. matched sequences cannot deadlock -/
/-- if all ranks execute the same sequence, the matcher consumes it completely: every rank returns.
    Any number of ranks, any sequence (induction on the sequence). -/
theorem matched_traces_no_deadlock (n : Nat) (t : Trace) : Completes (List.replicate n t) :=
  completes_replicate n t

/-- …and only then: the call returns on every rank iff all ranks execute the same sequence -/
theorem completes_iff_all_equal (w : Pending) : Completes w ↔ ∀ a ∈ w, ∀ b ∈ w, a = b := by
  constructor
  · exact all_eq_of_completes
  · intro h
    cases w with
    | nil => exact Completes.done (fun t ht => by cases ht)
    | cons t ts =>
      rw [eq_replicate_of_all_eq (t :: ts) h t (List.mem_cons_self)]
      exact completes_replicate _ t

/-- and a mismatch is a deadlock: if two ranks execute different sequences the world runs into a state in which
    some rank has not returned and no rank can move -/
theorem mismatch_deadlocks (w : Pending) (a b : Trace) (ha : a ∈ w) (hb : b ∈ w) (hne : a ≠ b) :
    ∃ w', Reach w w' ∧ Stuck w' := stuck_of_ne a w b ha hb hne

/-- the call returns on every rank whenever no rank's input is a `Trigger` -/
theorem no_deadlock_partial (rp : Repairs) (api : Api) (cfg : Cfg) (world : List RankInput)
    (h : ∀ x ∈ world, ¬ Trigger rp api cfg x) : Completes (world.map (localTrace rp api cfg world)) := by
  rw [completes_iff_all_equal]
  intro ta hta tb htb
  obtain ⟨a, ha, rfl⟩ := List.mem_map.mp hta
  obtain ⟨b, hb, rfl⟩ := List.mem_map.mp htb
  exact trace_rank_independent_partial rp api cfg world a b ha hb (h a ha) (h b hb)

/-- F2 in the model: the ranks with a valid request never return -/
theorem f2_deadlocks :
    ¬ Completes (witnessF2.map (localTrace Repairs.none (.getput .var .put .record) {} witnessF2)) := by
  rw [completes_iff_all_equal]
  intro h
  have := h [.setView, .writeAll] (by decide) [.setView, .writeAll, .allreduce] (by decide)
  revert this; decide

/-! ### 3. errors stay local -/
/-- safe mode off: the code a rank gets depends on its own input only (for create/open: and on root's
    mode, which every rank adopts) -/
theorem errors_local (rp : Repairs) (api : Api) (cfg : Cfg) (hs : cfg.safe = false) (w1 w2 : List RankInput) (me : RankInput)
    (hroot : w1.head? = w2.head?) :
    localRet rp api cfg w1 me = localRet rp api cfg w2 me := by
  cases api <;> simp [localRet, getputRet, fillRet, enddefRet, renameRet, metaRet, modeRet, hs, hroot]

/-- …and for everything but create/open not even on root's -/
theorem errors_local_data (rp : Repairs) (api : Api) (hapi : api ≠ .create ∧ ∀ n, api ≠ .openFile n) (cfg : Cfg)
    (hs : cfg.safe = false) (w1 w2 : List RankInput) (me : RankInput) :
    localRet rp api cfg w1 me = localRet rp api cfg w2 me := by
  cases api <;> simp [localRet, getputRet, fillRet, enddefRet, renameRet, metaRet, hs]
  · exact absurd rfl hapi.1
  · exact absurd rfl (hapi.2 _)

/-- a rank whose own arguments are fine succeeds whatever the others pass -/
theorem valid_rank_succeeds (rp : Repairs) (f : Form) (d : Dir) (vk : VarKind) (cfg : Cfg) (hs : cfg.safe = false)
    (world : List RankInput) (me : RankInput) (hme : me.cls = .valid ∨ me.cls = .zeroLen) :
    localRet rp (.getput f d vk) cfg world me = 0 := by
  rcases hme with h | h <;> simp [localRet, getputRet, hs, dispErr, drvErrOf, h]

example : localRet Repairs.none (.getput .var .put .record) {} witnessF2 { cls := .argErr .eedge } = -57 := by decide
example : localRet Repairs.none (.getput .var .put .record) {} witnessF2 { cls := .valid, recEnd := 4 } = 0 := by decide

/-! ### 4. safe mode: disagreement is reported with one code -/
/-- the collective metadata calls (and ncmpi_fill_var_rec) -/
def isMetadataCall : Api → Prop
  | .create => True
  | .openFile _ => True
  | .enddef _ _ => True
  | .renameVar => True
  | .fillVarRec => True
  | .metaCall _ => True
  | _ => False

def safe_same_code_Statement (rp : Repairs) : Prop :=
  ∀ (api : Api) (cfg : Cfg) (world : List RankInput) (a b : RankInput), cfg.safe = true → isMetadataCall api →
    a ∈ world → b ∈ world → localRet rp api cfg world a = localRet rp api cfg world b

/-- three ranks in ncmpi_fill_var_rec: root fills record 3, one rank names a variable whose fill mode is off
    (NC_ENOTFILL), one rank passes another record number: the last Allreduce hands NC_EMULTIDEFINE_FNC_ARGS to
    the ranks without an error of their own, the NC_ENOTFILL rank keeps its own code -/
def witnessSafeFill : List RankInput :=
  [{ fillCls := .ok, recno := 3 }, { fillCls := .notFill, varid := 1, recno := 3 }, { fillCls := .ok, recno := 5 }]
/-- three ranks in ncmpi_def_var_fill: rank 1 disagrees with root on no_fill (NC_EMULTIDEFINE_FNC_ARGS), rank 2 on the
    fill value (NC_EMULTIDEFINE_VAR_FILL_VALUE): rank 1 keeps -269, the others get the minimum -272 -/
def witnessSafeDefVarFill : List RankInput :=
  [{ margs := { ident := 1, len := 1, vals := 5 } }, { margs := { ident := 1, xtype := 1, len := 1, vals := 5 } },
   { margs := { ident := 1, len := 1, vals := 6 } }]

theorem safe_same_code_counterexample : ¬ safe_same_code_Statement Repairs.none := by
  intro h
  have := h .fillVarRec { safe := true } witnessSafeFill { fillCls := .ok, recno := 3 }
    { fillCls := .notFill, varid := 1, recno := 3 } rfl trivial (by decide) (by decide)
  revert this; decide
theorem safe_same_code_counterexample_def_var_fill : ¬ safe_same_code_Statement Repairs.none := by
  intro h
  have := h (.metaCall .defVarFill) { safe := true, indef := true } witnessSafeDefVarFill
    { margs := { ident := 1, len := 1, vals := 5 } } { margs := { ident := 1, xtype := 1, len := 1, vals := 5 } }
    rfl trivial (by decide) (by decide)
  revert this; decide
/-- the repair is needed even when every other repair is present -/
theorem safe_same_code_needs_safeMinCode : ¬ safe_same_code_Statement { Repairs.all with safeMinCode := false } := by
  intro h
  have := h .fillVarRec { safe := true } witnessSafeFill { fillCls := .ok, recno := 3 }
    { fillCls := .notFill, varid := 1, recno := 3 } rfl trivial (by decide) (by decide)
  revert this; decide

/-- with the repair (every safe-mode block returns the Allreduce(MIN) result on every rank) the last sentence of the
    property holds as written: whatever the ranks disagree on, every rank returns the same code from every collective
    metadata call -/
theorem safe_same_code_repaired (rp : Repairs) (hrp : rp.safeMinCode = true) : safe_same_code_Statement rp := by
  intro api cfg world a b hs hapi ha _hb
  have hroot : world.headD a = world.headD b := headD_of_mem world a b a ha
  have hroot' : world.head?.getD a = world.head?.getD b := by simpa using hroot
  cases api <;> simp only [isMetadataCall] at hapi
  case fillVarRec =>
    simp only [localRet, fillRet, hs, if_true, fillSafeErr, hrp]
    rw [hroot]
    simp
  case enddef L w => simp [localRet, enddefRet, hs, hroot']
  case create => simp [localRet, modeRet, hs, hroot']
  case openFile n => simp [localRet, modeRet, hs, hroot']
  case renameVar => simp [localRet, renameRet, hs, hroot']
  case metaCall k =>
    simp only [localRet, metaRet, hs, if_true, hrp]
    rw [hroot]
    simp

/-- on today's tree: holds for the calls whose safe-mode block returns the reduced code on every rank -/
theorem safe_same_code_partial (rp : Repairs) (api : Api) (cfg : Cfg) (world : List RankInput) (a b : RankInput)
    (_hs : cfg.safe = true)
    (hapi : api = .create ∨ (∃ n, api = .openFile n) ∨ (∃ L w, api = .enddef L w) ∨ api = .renameVar)
    (ha : a ∈ world) (_hb : b ∈ world) : localRet rp api cfg world a = localRet rp api cfg world b := by
  have hroot : world.head?.getD a = world.head?.getD b := by
    have := headD_of_mem world a b a ha
    simpa using this
  rcases hapi with h | ⟨n, h⟩ | ⟨L, w, h⟩ | h <;> subst h <;>
    simp [localRet, modeRet, enddefRet, renameRet, _hs, hroot]

/-- …and for ncmpi_fill_var_rec when the disagreement is the only error (no rank has an error of its own) -/
theorem safe_same_code_fill (rp : Repairs) (cfg : Cfg) (world : List RankInput) (a b : RankInput) (hs : cfg.safe = true)
    (hown : ∀ x ∈ world, fillOwnErr x = 0) (ha : a ∈ world) (hb : b ∈ world) :
    localRet rp .fillVarRec cfg world a = localRet rp .fillVarRec cfg world b := by
  have hroot : world.headD a = world.headD b := headD_of_mem world a b a ha
  simp only [localRet, fillRet, hs, if_true]
  rw [← hroot]
  by_cases hm : minOf (world.map fillDispErr) ≠ 0
  · simp [hm]
  · simp only [hm, if_false]
    -- fillCmpErr ∈ {0, -269}; a rank with -269 has the minimum, a rank with 0 takes the minimum
    have hcmp : ∀ x ∈ world, fillCmpErr (world.headD a) x = 0 ∨ fillCmpErr (world.headD a) x = -269 := by
      intro x hx
      unfold fillCmpErr
      simp only [hown x hx, ne_eq, not_true_eq_false, if_false]
      split <;> simp
    have hge : (-269 : Int) ≤ minOf (world.map (fillCmpErr (world.headD a))) := by
      apply le_foldl_min _ _ _ (by decide)
      intro y hy
      obtain ⟨x, hx, rfl⟩ := List.mem_map.mp hy
      rcases hcmp x hx with h | h <;> rw [h] <;> decide
    have val : ∀ x ∈ world, fillSafeErr rp.safeMinCode (world.headD a) world x = minOf (world.map (fillCmpErr (world.headD a))) := by
      intro x hx
      unfold fillSafeErr
      split
      · rename_i hc
        rcases hcmp x hx with h | h
        · exact absurd h hc.2
        · have hle := minOf_map_mem (fillCmpErr (world.headD a)) world x hx
          rw [h] at hle
          rw [h]; omega
      · rfl
    rw [val a ha, val b hb]

example : ∀ x ∈ ([{ fillCls := .ok, recno := 3 }, { fillCls := .ok, recno := 5 }] : List RankInput), fillOwnErr x = 0 := by decide
example : localRet Repairs.none .fillVarRec { safe := true } [{ fillCls := .ok, recno := 3 }, { fillCls := .ok, recno := 5 }]
    { fillCls := .ok, recno := 3 } = -269 := by decide
/-- the two witnesses under the repair: one code on every rank -/
example : (witnessSafeFill.map (localRet Repairs.all .fillVarRec { safe := true } witnessSafeFill)) = [-269, -269, -269] := by decide
example : (witnessSafeDefVarFill.map (localRet Repairs.all (.metaCall .defVarFill) { safe := true, indef := true } witnessSafeDefVarFill))
    = [-272, -272, -272] := by decide

/-! ### 5. the safe-mode argument comparison of the metadata calls -/
/-- which broadcasts a rank executes in the comparison block is decided by ROOT's arguments: a non-root rank that
    passes nelems = 0 to ncmpi_put_att while root passes 4 elements still takes part in the broadcast of the values
    (5 argument broadcasts + 1 for the values), and every rank gets NC_EMULTIDEFINE_ATTR_LEN -/
example : localTrace Repairs.none (.metaCall .putAtt) { safe := true, indef := true }
    [{ margs := { name := 1, len := 4, vals := 7 } }, { margs := { name := 1, len := 0 } }] { margs := { name := 1, len := 0 } }
    = [.allreduce, .bcast, .bcast, .bcast, .bcast, .bcast, .bcast, .allreduce] := by decide
example : localRet Repairs.none (.metaCall .putAtt) { safe := true, indef := true }
    [{ margs := { name := 1, len := 4, vals := 7 } }, { margs := { name := 1, len := 0 } }] { margs := { name := 1, len := 4, vals := 7 } }
    = -267 := by decide
/-- … and no values broadcast at all when it is root that passes nelems = 0 -/
example : localTrace Repairs.none (.metaCall .putAtt) { safe := true, indef := true }
    [{ margs := { name := 1, len := 0 } }, { margs := { name := 1, len := 4, vals := 7 } }] { margs := { name := 1, len := 4, vals := 7 } }
    = [.allreduce, .bcast, .bcast, .bcast, .bcast, .bcast, .allreduce] := by decide

/-- safe mode on: every rank returns the same code from the metadata calls whose comparison is done in the dispatcher
    (put_att, def_dim, def_var, rename_dim, rename_att, del_att, copy_att), whatever the ranks disagree on -/
theorem safe_same_code_meta (rp : Repairs) (k : MetaKind) (hk : ∀ r m, metaDriverOwn k r m = 0) (cfg : Cfg) (hs : cfg.safe = true)
    (world : List RankInput) (a b : RankInput) (ha : a ∈ world) (_hb : b ∈ world) :
    localRet rp (.metaCall k) cfg world a = localRet rp (.metaCall k) cfg world b := by
  have hroot : world.headD a = world.headD b := headD_of_mem world a b a ha
  simp only [localRet, metaRet, hs, if_true, hk, ne_eq, not_true_eq_false, and_false, if_false]
  rw [hroot]
example : ∀ r m, metaDriverOwn .putAtt r m = 0 := fun _ _ => rfl
example : ∀ r m, metaDriverOwn .defVar r m = 0 := fun _ _ => rfl
example : ∀ r m, metaDriverOwn .renameAtt r m = 0 := fun _ _ => rfl

/-- the code is the NC_EMULTIDEFINE_* of the first argument (in comparison order) on which some rank differs from root,
    minimised over the ranks: with a single disagreeing argument it is that argument's code on every rank -/
example : localRet Repairs.none (.metaCall .putAtt) { safe := true }
    [{ margs := { name := 1, len := 4, vals := 7 } }, { margs := { name := 1, len := 4, vals := 8 } }, { margs := { name := 1, len := 4, vals := 7 } }]
    { margs := { name := 1, len := 4, vals := 7 } } = -268 := by decide

def obligations : List String := [
  "trace_rank_independent_counterexample", "trace_needs_zeroPathNumrecs", "trace_needs_zeroPathBadVarid", "trace_needs_fillVarRecErr",
  "trace_needs_metaErrJoins", "trace_rank_independent_partial", "trace_rank_independent_repaired",
  "matched_traces_no_deadlock", "completes_iff_all_equal", "mismatch_deadlocks", "no_deadlock_partial", "f2_deadlocks",
  "errors_local", "errors_local_data", "valid_rank_succeeds",
  "safe_same_code_counterexample", "safe_same_code_counterexample_def_var_fill", "safe_same_code_needs_safeMinCode",
  "safe_same_code_repaired", "safe_same_code_partial", "safe_same_code_fill", "safe_same_code_meta"
]
end PnVerif.Props.C08
