import PnVerif.Lemmas.ScsLemmas
import PnVerif.Lemmas.IntraNodeLemmas
/-
  C15 — out-of-range requests are rejected with the documented error; accepted requests address
  only elements of the addressed variable; rejected and zero-length requests touch nothing.

  Model: Model/Scs.lean (literal transcription of check_start_count_stride & friends of
  src/dispatchers/var_getput.m4, row-major element addressing).  Spec: Spec/InBounds.lean.
  Tie to the source: checks/c15.py runs the real static checker and the public put/get API on the
  same requests as the Lean driver (Driver/C15.lean).

  Guards used below, all of them facts about every reachable call:
    * `r.dims ≠ []`            – the dispatcher calls the checker only when ndims > 0
    * `∀ d ∈ r.dims, 0 ≤ d.shape` – extents of defined dimensions / numrecs are never negative
    * `r.hasStride → c.needCount` – a stride vector only exists in the vars/varm forms
-/
namespace PnVerif.Props.C15
open PnVerif.Scs PnVerif.Spec.InBounds

/-- **Acceptance is exactly InBounds** (over the integers, i.e. when the C arithmetic does not
    overflow – see `checkSCS_iff_partial` for the explicit envelope). -/
theorem checkSCS_iff_exact (c : Ctx) (r : Req) (hne : r.dims ≠ []) (hs : ∀ d ∈ r.dims, 0 ≤ d.shape)
    (hstr : r.hasStride = true → c.needCount = true) :
    checkSCS exact c r = NC_NOERR ↔ InBounds c r := by
  rw [checkSCS_exact_eq c r hs hne]; exact scsU_ok_iff c r hs hstr

/-- **The documented error, with the documented precedence.**  A rejected request gets
    * NC_EINVALCOORDS  iff some start coordinate is invalid (whatever else is wrong);
    * otherwise NC_EEDGE if the count vector is missing in a form that needs one;
    * otherwise the LEFT-MOST dimension whose edge is wrong decides: NC_ENEGATIVECNT if its count
      is negative, else NC_EEDGE (its edge exceeds the extent) – all dimensions to its left are fine;
    * otherwise (all starts and edges fine) NC_ESTRIDE, and some stride is ≤ 0. -/
theorem checkSCS_error_documented (c : Ctx) (r : Req) (hne : r.dims ≠ []) (hs : ∀ d ∈ r.dims, 0 ≤ d.shape)
    (e : Int) (he : checkSCS exact c r = e) (hrej : e ≠ NC_NOERR) :
    (e = NC_EINVALCOORDS ∧ CoordBad c r) ∨
    (¬ CoordBad c r ∧ r.hasCount = false ∧ c.needCount = true ∧ e = NC_EEDGE) ∨
    (¬ CoordBad c r ∧ r.hasCount = true ∧
      ∃ pre p post, bdims c r = pre ++ p :: post ∧
        (∀ x ∈ pre, ¬ NegCount x ∧ ¬ EdgeBadDim r x) ∧
        ((e = NC_ENEGATIVECNT ∧ NegCount p) ∨ (e = NC_EEDGE ∧ ¬ NegCount p ∧ EdgeBadDim r p))) ∨
    (¬ CoordBad c r ∧ r.hasCount = true ∧ (∀ x ∈ bdims c r, ¬ NegCount x ∧ ¬ EdgeBadDim r x) ∧
      e = NC_ESTRIDE ∧ r.hasStride = true ∧ ∃ d ∈ r.dims, d.stride ≤ 0) := by
  rw [checkSCS_exact_eq c r hs hne] at he
  unfold scsU at he
  by_cases hcb : CoordBad c r
  · simp only [hcb, if_true] at he; exact Or.inl ⟨he.symm, hcb⟩
  · simp only [hcb, if_false] at he
    cases hc : r.hasCount
    · simp only [hc, if_true] at he
      cases hn : c.needCount
      · simp only [hn, Bool.false_eq_true, if_false] at he; exact absurd he.symm hrej
      · simp only [hn, if_true] at he; exact Or.inr (Or.inl ⟨hcb, rfl, rfl, he.symm⟩)
    · simp only [hc, Bool.true_eq_false, if_false] at he
      by_cases h0 : edgeU r (bdims c r) = NC_NOERR
      · simp only [h0, ne_eq, not_true_eq_false, if_false] at he
        by_cases hS : r.hasStride = true ∧ ∃ d ∈ r.dims, d.stride ≤ 0
        · simp only [hS, and_self, if_true] at he
          exact Or.inr (Or.inr (Or.inr ⟨hcb, rfl, (edgeU_ok_iff r _).mp h0, he.symm, hS.1, hS.2⟩))
        · simp only [hS, if_false] at he; exact absurd he.symm hrej
      · simp only [h0, ne_eq, not_false_eq_true, if_true] at he
        exact Or.inr (Or.inr (Or.inl ⟨hcb, rfl, edgeU_err r _ e he hrej⟩))

/-- every code the checker can return is one of the five documented ones -/
theorem checkSCS_codes (c : Ctx) (r : Req) (hne : r.dims ≠ []) (hs : ∀ d ∈ r.dims, 0 ≤ d.shape) :
    checkSCS exact c r ∈ [NC_NOERR, NC_EINVALCOORDS, NC_EEDGE, NC_ENEGATIVECNT, NC_ESTRIDE] := by
  by_cases h : checkSCS exact c r = NC_NOERR
  · simp [h]
  · rcases checkSCS_error_documented c r hne hs _ rfl h with ⟨h1, _⟩ | ⟨_, _, _, h1⟩ |
      ⟨_, _, _, _, _, _, _, ⟨h1, _⟩ | ⟨h1, _⟩⟩ | ⟨_, _, _, h1, _⟩ <;> simp [h1]

/-! ### 64-bit arithmetic: the full claim is FALSE of the code (finding F15) -/

/-- all entries of the request are representable MPI_Offset values -/
def Rep64 (r : Req) : Prop :=
  ∀ d ∈ r.dims, fits64 d.shape ∧ fits64 d.start ∧ fits64 d.count ∧ fits64 d.stride

instance (r : Req) : Decidable (Rep64 r) := by unfold Rep64; infer_instance

/-- the property as it should hold of the compiled code, for a given reading `A` of the
    arithmetic in check_EEDGE: for every representable request the checker accepts exactly the
    in-bounds requests -/
def checkSCS_iff_StatementFor (A : Arith) : Prop :=
  ∀ (c : Ctx) (r : Req), r.dims ≠ [] → (∀ d ∈ r.dims, 0 ≤ d.shape) → Rep64 r →
    (r.hasStride = true → c.needCount = true) →
    (checkSCS A c r = NC_NOERR ↔ InBounds c r)

/-- … of the ORIGINAL code (sums and product in wrap-around 64-bit arithmetic) -/
def checkSCS_iff_Statement : Prop := checkSCS_iff_StatementFor c64

def f15Ctx : Ctx := { strict := false, isRec := false, isRead := false, classic := false, needCount := true }
/-- F15: one dimension of extent 10, start 0, count 3, stride 2^62 -/
def f15Req : Req :=
  { dims := [{ shape := 10, start := 0, count := 3, stride := 4611686018427387904 }],
    startNull := false, hasCount := true, hasStride := true }

theorem f15_accepted : checkSCS c64 f15Ctx f15Req = NC_NOERR := by decide
theorem f15_not_inbounds : ¬ InBounds f15Ctx f15Req := by decide
theorem f15_exact_rejects : checkSCS exact f15Ctx f15Req = NC_EEDGE := by decide

theorem checkSCS_iff_counterexample : ¬ checkSCS_iff_Statement := by
  intro h
  have := h f15Ctx f15Req (by decide) (by decide) (by decide) (by decide)
  exact f15_not_inbounds (this.mp f15_accepted)

/-- **the part that does hold**: inside the no-overflow envelope (the four quantities
    check_EEDGE computes per dimension – start+count, count−1, (count−1)·stride,
    start+(count−1)·stride – are representable) the compiled checker accepts exactly the in-bounds
    requests.  What is missing for the full claim: a guard against `(count-1)*stride` overflowing
    in check_EEDGE. -/
theorem checkSCS_iff_partial (c : Ctx) (r : Req) (hne : r.dims ≠ []) (hs : ∀ d ∈ r.dims, 0 ≤ d.shape)
    (hstr : r.hasStride = true → c.needCount = true) (henv : NoOvf r) :
    checkSCS c64 c r = NC_NOERR ↔ InBounds c r := by
  rw [checkSCS_c64 c r henv]; exact checkSCS_iff_exact c r hne hs hstr

/-- **the REPAIRED checker (patch F15-check_EEDGE.diff, tests written as `count > shape - start`
    and `stride > (shape-1-start)/(count-1)`) satisfies the full statement**: no envelope -/
theorem checkSCS_iff_repaired : checkSCS_iff_StatementFor divForm := by
  intro c r hne hs _ hstr
  rw [checkSCS_div c r]; exact checkSCS_iff_exact c r hne hs hstr

/-- the repaired checker returns exactly the codes of the exact-integer checker (hence the
    documented code with the documented precedence, `checkSCS_error_documented`) -/
theorem checkSCS_repaired_eq_exact (c : Ctx) (r : Req) : checkSCS divForm c r = checkSCS exact c r :=
  checkSCS_div c r

/-- and nothing in it can overflow: the strided test is reached only with a non-negative dividend
    and representable operands -/
theorem repaired_no_overflow (s c sh : Int) (hs : 0 ≤ s) (hsh : fits64 sh) (hc : fits64 c)
    (h0 : ¬ c > sh - s) (hc1 : c > 1) :
    0 ≤ sh - 1 - s ∧ fits64 (sh - s) ∧ fits64 (sh - 1 - s) ∧ fits64 (c - 1) ∧ 0 < c - 1 :=
  divForm_no_overflow s c sh hs hsh hc h0 hc1

example : checkSCS divForm f15Ctx f15Req = NC_EEDGE := by decide

/-- inside the envelope the compiled checker also returns the documented code -/
theorem checkSCS_c64_eq_exact (c : Ctx) (r : Req) (henv : NoOvf r) :
    checkSCS c64 c r = checkSCS exact c r := checkSCS_c64 c r henv

/-- a simple sufficient condition for the envelope: every entry is below 2^31 in magnitude -/
theorem noOvf_of_small (r : Req)
    (h : ∀ d ∈ r.dims, -2147483648 ≤ d.start ∧ d.start ≤ 2147483648 ∧ -2147483648 ≤ d.count ∧
      d.count ≤ 2147483648 ∧ -2147483648 ≤ d.stride ∧ d.stride ≤ 2147483648) : NoOvf r := by
  intro d hd
  obtain ⟨h1, h2, h3, h4, h5, h6⟩ := h d hd
  have hb : -4611686022722355200 ≤ (d.count - 1) * d.stride ∧ (d.count - 1) * d.stride ≤ 4611686022722355200 := by
    have a1 : -2147483649 ≤ d.count - 1 := by omega
    have a2 : d.count - 1 ≤ 2147483648 := by omega
    rcases Int.le_total 0 (d.count - 1) with hp | hp <;> rcases Int.le_total 0 d.stride with hq | hq
    · constructor
      · have := Int.mul_nonneg hp hq; omega
      · have : (d.count - 1) * d.stride ≤ 2147483648 * 2147483648 :=
          Int.mul_le_mul a2 h6 hq (by omega)
        omega
    · constructor
      · have : (d.count - 1) * (-d.stride) ≤ 2147483648 * 2147483648 :=
          Int.mul_le_mul a2 (by omega) (by omega) (by omega)
        rw [Int.mul_neg] at this; omega
      · have := Int.mul_nonpos_of_nonneg_of_nonpos hp hq; omega
    · constructor
      · have : (-(d.count - 1)) * d.stride ≤ 2147483649 * 2147483648 :=
          Int.mul_le_mul (by omega) h6 hq (by omega)
        rw [Int.neg_mul] at this; omega
      · have := Int.mul_nonpos_of_nonpos_of_nonneg hp hq; omega
    · constructor
      · have := Int.mul_nonneg_of_nonpos_of_nonpos hp hq; omega
      · have : (-(d.count - 1)) * (-d.stride) ≤ 2147483649 * 2147483648 :=
          Int.mul_le_mul (by omega) (by omega) (by omega) (by omega)
        rw [Int.neg_mul_neg] at this; omega
  unfold NoOvfDim fits64
  omega

/-! ### accepted requests stay inside the addressed variable -/

/-- fixed-size variable: every element of an accepted request lies in `[begin, begin + Π shape · xsz)`,
    the variable's own data area (any rank, by induction over the dimensions) -/
theorem accepted_inside (c : Ctx) (r : Req) (v : VarLayout) (hne : r.dims ≠ [])
    (hs : ∀ d ∈ r.dims, 0 ≤ d.shape) (hstr : r.hasStride = true → c.needCount = true)
    (hrec : c.isRec = false) (hv : v.isRec = false)
    (hshape : v.shape = r.dims.map (fun d => d.shape.toNat))
    (hacc : checkSCS exact c r = NC_NOERR) :
    ∀ off ∈ footprint v r, v.begin ≤ off ∧ off + v.xsz ≤ v.begin + prodl v.shape * v.xsz :=
  inside_fixed c r v hrec hv hshape ((checkSCS_iff_exact c r hne hs hstr).mp hacc)

/-- record variable: every element of an accepted request lies in the variable's slot
    `[begin + rec·recsize, begin + rec·recsize + Π shape[1..] · xsz)` of some record `rec`;
    a read only touches existing records (`rec < numrecs`) -/
theorem accepted_inside_record (c : Ctx) (r : Req) (v : VarLayout) (hne : r.dims ≠ [])
    (hs : ∀ d ∈ r.dims, 0 ≤ d.shape) (hstr : r.hasStride = true → c.needCount = true)
    (hrec : c.isRec = true) (hv : v.isRec = true)
    (hshape : v.shape = r.dims.map (fun d => d.shape.toNat))
    (hacc : checkSCS exact c r = NC_NOERR) :
    ∀ off ∈ footprint v r, ∃ rec : Nat,
      v.begin + rec * v.recsize ≤ off ∧
      off + v.xsz ≤ v.begin + rec * v.recsize + prodl v.shape.tail * v.xsz ∧
      (c.isRead = true → ∀ d0 ∈ r.dims.head?, (rec : Int) < d0.shape) :=
  inside_record c r v hrec hv hshape ((checkSCS_iff_exact c r hne hs hstr).mp hacc)

/-- the row-major offset of coordinates below the extents is below the number of elements (any rank) -/
theorem rowMajor_inside (shape idx : List Nat) (h : Below shape idx) : rowMajor shape idx < prodl shape :=
  rowMajor_lt shape idx h

/-- a request with a zero (or negative) count in any dimension addresses no element at all -/
theorem zero_length_touches_nothing (v : VarLayout) (r : Req) (h : ∃ d ∈ r.dims, effCount r d ≤ 0) :
    footprint v r = [] ∧ ∀ old, newNumrecs old r = old := by
  have hi := indices_empty r h
  refine ⟨by simp [footprint, hi], fun old => ?_⟩
  unfold newNumrecs
  cases r.dims with
  | nil => rfl
  | cons d0 _ => simp [hi]

/-- a rejected put leaves every byte of the file as it was and reports the checker's code -/
theorem rejected_changes_nothing (A : Arith) (c : Ctx) (v : VarLayout) (r : Req) (data : Nat → Nat → Nat) (f : Scs.File)
    (h : checkSCS A c r ≠ NC_NOERR) : apiPut A c v r data f = (f, checkSCS A c r) := by
  unfold apiPut; simp [h]

/-- a zero-length put leaves every byte of the file as it was -/
theorem zero_length_put_changes_nothing (A : Arith) (c : Ctx) (v : VarLayout) (r : Req) (data : Nat → Nat → Nat)
    (f : Scs.File) (h : ∃ d ∈ r.dims, effCount r d ≤ 0) : (apiPut A c v r data f).1 = f := by
  by_cases h' : checkSCS A c r = NC_NOERR
  · simp [apiPut, h', (zero_length_touches_nothing v r h).1, writeAll]
  · simp [apiPut, h']

/-- an accepted put to a fixed-size variable changes no byte outside the variable's own area:
    not the header, not another variable -/
theorem accepted_put_changes_only_target (c : Ctx) (r : Req) (v : VarLayout) (hne : r.dims ≠ [])
    (hs : ∀ d ∈ r.dims, 0 ≤ d.shape) (hstr : r.hasStride = true → c.needCount = true)
    (hrec : c.isRec = false) (hv : v.isRec = false)
    (hshape : v.shape = r.dims.map (fun d => d.shape.toNat))
    (data : Nat → Nat → Nat) (f : Scs.File) (p : Nat)
    (hp : p < v.begin ∨ v.begin + prodl v.shape * v.xsz ≤ p) :
    (apiPut exact c v r data f).1 p = f p := by
  by_cases hacc : checkSCS exact c r = NC_NOERR
  case neg => simp [apiPut, hacc]
  · simp only [apiPut, hacc, ne_eq, not_true_eq_false, if_false]
    apply writeAll_outside
    intro off hoff
    have := accepted_inside c r v hne hs hstr hrec hv hshape hacc off hoff
    omega

/-- same for a record variable: a byte that is in no record slot of the variable is unchanged -/
theorem accepted_put_changes_only_target_record (c : Ctx) (r : Req) (v : VarLayout) (hne : r.dims ≠ [])
    (hs : ∀ d ∈ r.dims, 0 ≤ d.shape) (hstr : r.hasStride = true → c.needCount = true)
    (hrec : c.isRec = true) (hv : v.isRec = true)
    (hshape : v.shape = r.dims.map (fun d => d.shape.toNat))
    (data : Nat → Nat → Nat) (f : Scs.File) (p : Nat)
    (hp : ∀ rec : Nat, p < v.begin + rec * v.recsize ∨
                       v.begin + rec * v.recsize + prodl v.shape.tail * v.xsz ≤ p) :
    (apiPut exact c v r data f).1 p = f p := by
  by_cases hacc : checkSCS exact c r = NC_NOERR
  case neg => simp [apiPut, hacc]
  · simp only [apiPut, hacc, ne_eq, not_true_eq_false, if_false]
    apply writeAll_outside
    intro off hoff
    obtain ⟨rec, h1, h2, _⟩ := accepted_inside_record c r v hne hs hstr hrec hv hshape hacc off hoff
    have := hp rec
    omega

/-! ### intra-node write aggregation (src/drivers/ncmpio/ncmpio_intra_node.c, Model/IntraNode.lean)

  With the hint nc_num_aggrs_per_node an accepted collective write does not go through the file-type
  path of ncmpio_filetype.c: every rank flattens its request into (offset, length) pairs
  (flatten_req / flatten_subarray), sends pairs and data to its aggregator, which sorts, merges,
  packs and coalesces them and issues ONE write.  The two theorems say that this path touches exactly
  the addressed elements with exactly the bytes of the right rank's buffer. -/

/-- **flattenReq_offsets**: for every variable (scalar, fixed-size or record, any rank) and every
    start/count/stride with positive counts, the (offset, length) pairs emitted by flatten_req expand to
    exactly the file offsets of the request's elements (`Access.elemOff`, the format's element address),
    in request order — none missing, none extra, none repeated.  The shape advanced past the record
    dimension, the stride of the record dimension and the per-dimension strides are all in this
    statement (seeded changes C10-1, C15-3 and the repaired F22 falsify it). -/
theorem flattenReq_offsets (v : PnVerif.Access.VarLay) (s c k : List Nat)
    (h1 : s.length = c.length) (h2 : s.length = k.length) (h3 : s.length = v.shape.length)
    (hel : 0 < v.xsz) (hpos : ∀ x ∈ c, 0 < x) :
    PnVerif.IntraNode.expandPairs v.xsz (PnVerif.IntraNode.flattenReq v s c k)
      = (PnVerif.Access.enumIdx s c k).map (PnVerif.Access.elemOff v) :=
  PnVerif.IntraNode.flattenReq_offsets' v s c k h1 h2 h3 hel hpos

/-- the pairs of one call of flatten_subarray (one record, or a whole fixed-size variable) -/
theorem flattenSubarray_offsets (el b : Nat) (dimlen s c k : List Nat)
    (h1 : s.length = c.length) (h2 : s.length = k.length) (h3 : s.length = dimlen.length)
    (hel : 0 < el) (hpos : ∀ x ∈ c, 0 < x) :
    PnVerif.IntraNode.expandPairs el (PnVerif.IntraNode.flattenSubarray el b dimlen s c k)
      = (PnVerif.Access.enumIdx s c k).map (PnVerif.Access.elemOff (PnVerif.IntraNode.arr el b dimlen)) :=
  PnVerif.IntraNode.flattenSubarray_offsets el b dimlen s c k h1 h2 h3 hel hpos

/-- **flattenReqs_offsets** (nonblocking path): flatten_reqs turns the pending put requests of one
    rank — any number, fixed-size and record variables of any rank mixed, each non-lead request of a
    record variable within one record — into pairs that expand to exactly the elements of the
    requests, request after request in queue order.  The pairs (in this order, followed by the other
    ranks') are the aggregator's `inputs`, and the packed write buffer is the requests' data in the same
    order, so with `aggrMerge_preserves` the aggregated nonblocking write moves exactly the byte pairs of
    the individual requests.  (Seeded change C02-4 — `shape++` dropped for record variables —
    falsifies it.) -/
theorem flattenReqs_offsets (qs : List PnVerif.IntraNode.PReq) (h : ∀ q ∈ qs, q.WF) :
    qs.flatMap (fun q => PnVerif.IntraNode.expandPairs q.v.xsz (PnVerif.IntraNode.flattenOne q))
      = qs.flatMap (fun q => (PnVerif.Access.enumIdx q.start q.count q.stride).map (PnVerif.Access.elemOff q.v)) :=
  PnVerif.IntraNode.flattenReqs_offsets' qs h

/-- per request flatten_reqs and flatten_req (blocking path) emit the same pairs -/
theorem flattenReqs_agrees_with_flattenReq (q : PnVerif.IntraNode.PReq) (h : q.WF) :
    PnVerif.IntraNode.flattenOne q = PnVerif.IntraNode.flattenReq q.v q.start q.count q.stride :=
  PnVerif.IntraNode.flattenOne_eq_flattenReq q h

/-- non-vacuity: two pending requests, records 1 and 3 of r[time][3][5] (recsize 100) and a fixed 2×3 -/
example :
    let r : PnVerif.Access.VarLay := { begin := 100, xsz := 4, shape := [0, 3, 5], isRec := true, recsize := 100 }
    let f : PnVerif.Access.VarLay := { begin := 40, xsz := 2, shape := [2, 3], isRec := false, recsize := 0 }
    PnVerif.IntraNode.flattenReqs [⟨r, [1, 1, 2], [1, 2, 2], [1, 1, 1]⟩, ⟨r, [3, 0, 0], [1, 1, 5], [1, 1, 1]⟩, ⟨f, [0, 1], [2, 2], [1, 1]⟩]
      = [(228, 8), (248, 8), (400, 20), (42, 4), (48, 4)] := by decide

/-- **aggrMerge_preserves**: for any number of ranks and requests whose (offset, length) pairs are
    pairwise disjoint in the file (positive lengths), the aggregator's single write — sort by offset,
    merge loop, packing of recv_buf into wr_buf, coalescing of file-adjacent pairs — moves exactly the
    (file byte ← recv_buf byte) pairs of the inputs: a permutation of `pairs (mkSegs inputs)`, where
    (`aggr_inputs_meaning`) the inputs' file bytes are paired, in arrival order, with the consecutive
    bytes of recv_buf, the concatenation of the ranks' packed write buffers.
    (Seeded change C01-3 — the dropped `bufAddr[i] = bufAddr[j]` — falsifies it.) -/
theorem aggrMerge_preserves (ranks : List (List (Int × Int)))
    (hpos : ∀ p ∈ ranks.flatten, 0 < p.2)
    (hdisj : List.Pairwise (fun a b => a.1 + a.2 ≤ b.1 ∨ b.1 + b.2 ≤ a.1) ranks.flatten) :
    (PnVerif.IntraNode.aggrTransfer ranks.flatten).Perm
      (PnVerif.Merge.pairs (PnVerif.IntraNode.mkSegs ranks.flatten)) := by
  unfold PnVerif.IntraNode.aggrTransfer PnVerif.IntraNode.aggregate PnVerif.IntraNode.mkSegs
  apply PnVerif.IntraNode.aggregate_pairs
  · exact PnVerif.IntraNode.mkSegs_pos _ 0 hpos
  · exact PnVerif.IntraNode.mkSegs_pairwise _ _ 0 hdisj

/-- **an accepted request that goes through intra-node aggregation covers exactly the request's
    footprint**: the pairs of flatten_req expand to `footprint v r`, the element offsets of the C15
    addressing model, for which `accepted_inside` / `accepted_inside_record` show that they lie inside
    the addressed variable (its record slots) — nothing else is touched -/
theorem aggregated_write_footprint (c : Ctx) (r : Req) (v : VarLayout) (hne : r.dims ≠ [])
    (hs : ∀ d ∈ r.dims, 0 ≤ d.shape) (hstr : r.hasStride = true → c.needCount = true)
    (hacc : checkSCS exact c r = NC_NOERR)
    (hlen : v.shape.length = r.dims.length) (hel : 0 < v.xsz) (hpos : ∀ d ∈ r.dims, 0 < effCount r d) :
    PnVerif.IntraNode.expandPairs v.xsz
        (PnVerif.IntraNode.flattenReq (PnVerif.IntraNode.toLay v) (r.dims.map (fun d => d.start.toNat))
          (r.dims.map (fun d => (effCount r d).toNat)) (r.dims.map (fun d => (effStride r d).toNat)))
      = footprint v r :=
  PnVerif.IntraNode.flattenReq_footprint' c r v ((checkSCS_iff_exact c r hne hs hstr).mp hacc) hlen hne hel hpos

/-- … hence every byte of the flattened pairs of an accepted write to a fixed-size variable lies in
    the variable's own data area -/
theorem aggregated_write_inside (c : Ctx) (r : Req) (v : VarLayout) (hne : r.dims ≠ [])
    (hs : ∀ d ∈ r.dims, 0 ≤ d.shape) (hstr : r.hasStride = true → c.needCount = true)
    (hrec : c.isRec = false) (hv : v.isRec = false)
    (hshape : v.shape = r.dims.map (fun d => d.shape.toNat))
    (hacc : checkSCS exact c r = NC_NOERR) (hel : 0 < v.xsz) (hpos : ∀ d ∈ r.dims, 0 < effCount r d) :
    ∀ off ∈ PnVerif.IntraNode.expandPairs v.xsz
        (PnVerif.IntraNode.flattenReq (PnVerif.IntraNode.toLay v) (r.dims.map (fun d => d.start.toNat))
          (r.dims.map (fun d => (effCount r d).toNat)) (r.dims.map (fun d => (effStride r d).toNat))),
      v.begin ≤ off ∧ off + v.xsz ≤ v.begin + prodl v.shape * v.xsz := by
  rw [aggregated_write_footprint c r v hne hs hstr hacc (by rw [hshape]; simp) hel hpos]
  exact accepted_inside c r v hne hs hstr hrec hv hshape hacc

/-- the meaning of the aggregator's input triples -/
theorem aggr_inputs_meaning (inputs : List (Int × Int)) (hp : ∀ p ∈ inputs, 0 ≤ p.2) :
    (PnVerif.Merge.pairs (PnVerif.IntraNode.mkSegs inputs)).map (·.1)
        = inputs.flatMap (fun p => PnVerif.Merge.span p.1 p.2) ∧
    (PnVerif.Merge.pairs (PnVerif.IntraNode.mkSegs inputs)).map (·.2)
        = PnVerif.Merge.span 0 (PnVerif.IntraNode.sumLens inputs) :=
  PnVerif.IntraNode.mkSegs_meaning inputs 0 hp

/-- packing + coalescing alone (second loop) never changes the byte map, whatever the triples -/
theorem aggrPack_preserves (l : List PnVerif.Merge.Seg) (hp : ∀ s ∈ l, 0 ≤ s.len) :
    (PnVerif.Merge.bytesOf (PnVerif.IntraNode.filePairs l)).zip (PnVerif.IntraNode.wrBuf l)
      = PnVerif.Merge.pairs l :=
  PnVerif.IntraNode.pack_transfer l hp

/-- non-vacuity: a 3-D record variable with a non-square record (3 × 5), strided in the record
    dimension and in both inner dimensions (kernel-evaluated) -/
example :
    let v : PnVerif.Access.VarLay := { begin := 100, xsz := 4, shape := [0, 3, 5], isRec := true, recsize := 100 }
    PnVerif.IntraNode.flattenReq v [1, 0, 1] [2, 2, 2] [2, 2, 2]
      = [(204, 4), (212, 4), (244, 4), (252, 4), (404, 4), (412, 4), (444, 4), (452, 4)] := by decide
/-- two ranks, file-adjacent AND memory-adjacent pairs of rank 0 fused, rank 1 interleaved -/
example : PnVerif.IntraNode.aggregate [(0, 4), (4, 4), (16, 4), (8, 4), (20, 4)]
    = [⟨0, 8, 0⟩, ⟨8, 4, 12⟩, ⟨16, 4, 8⟩, ⟨20, 4, 16⟩] := by decide
example : PnVerif.IntraNode.filePairs (PnVerif.IntraNode.aggregate [(0, 4), (4, 4), (16, 4), (8, 4), (20, 4)])
    = [(0, 12), (16, 8)] := by decide

/-! ### non-vacuity: concrete instances meeting the hypotheses -/

def exCtx : Ctx := { strict := false, isRec := false, isRead := false, classic := true, needCount := true }
/-- a 2-D strided request into a 4×6 variable -/
def exReq : Req :=
  { dims := [{ shape := 4, start := 1, count := 2, stride := 2 }, { shape := 6, start := 0, count := 3, stride := 2 }],
    startNull := false, hasCount := true, hasStride := true }
def exVar : VarLayout := { begin := 512, xsz := 4, recsize := 0, isRec := false, shape := [4, 6] }

example : exReq.dims ≠ [] ∧ (∀ d ∈ exReq.dims, 0 ≤ d.shape) ∧ (exReq.hasStride = true → exCtx.needCount = true) ∧
    NoOvf exReq := by
  refine ⟨by decide, by decide, by decide, ?_⟩
  apply noOvf_of_small; decide
example : checkSCS exact exCtx exReq = NC_NOERR := by decide
example : InBounds exCtx exReq := by decide
example : footprint exVar exReq = [536, 544, 552, 584, 592, 600] := by decide
example : checkSCS exact exCtx { exReq with dims := [{ shape := 4, start := 1, count := 2, stride := 3 },
    { shape := 6, start := 0, count := -1, stride := 2 }] } = NC_EEDGE := by decide
example : checkSCS exact { exCtx with isRec := true, isRead := true } { exReq with dims :=
    [{ shape := 0, start := 0, count := 1, stride := 1 }] } = NC_EINVALCOORDS := by decide
example : (zero_length_touches_nothing exVar { exReq with dims := [{ shape := 4, start := 4, count := 0, stride := 1 },
    { shape := 6, start := 0, count := 3, stride := 2 }] } ⟨_, List.mem_cons_self, by decide⟩).1 = rfl := rfl

def obligations : List String := [
  "checkSCS_iff_exact", "checkSCS_error_documented", "checkSCS_codes",
  "f15_accepted", "f15_not_inbounds", "f15_exact_rejects", "checkSCS_iff_counterexample",
  "checkSCS_iff_partial", "checkSCS_c64_eq_exact", "noOvf_of_small",
  "checkSCS_iff_repaired", "checkSCS_repaired_eq_exact", "repaired_no_overflow",
  "flattenReq_offsets", "flattenSubarray_offsets", "flattenReqs_offsets", "flattenReqs_agrees_with_flattenReq", "aggrMerge_preserves", "aggr_inputs_meaning", "aggrPack_preserves",
  "aggregated_write_footprint", "aggregated_write_inside",
  "accepted_inside", "accepted_inside_record", "rowMajor_inside",
  "zero_length_touches_nothing", "rejected_changes_nothing", "zero_length_put_changes_nothing",
  "accepted_put_changes_only_target", "accepted_put_changes_only_target_record"
]
end PnVerif.Props.C15
