import PnVerif.Lemmas.MergeLemmas
/-
  C02 — nonblocking request aggregation is equivalent to blocking execution.

  Part 1 (this section): the sort → merge → coalesce pipeline of an interleaved group
  (`merge_requests`, `type_create_off_len` of ncmpio_wait.c; model in Model/Merge.lean).
-/
namespace PnVerif.Props.C02
open PnVerif PnVerif.Merge

/-- `merge_spec`.  For ANY input sorted by offset (positive lengths) the merge loop's output
    is sorted and pairwise non-overlapping (each segment ends before the next starts), has positive
    lengths, and maps every file byte to the buffer byte of the FIRST input segment containing it
    (`lookup` = none exactly for the bytes outside the union of the input ranges); the two
    coalesced hindexed datatypes built from it transfer exactly those (file byte, buffer byte)
    pairs. -/
theorem merge_spec (l : List Seg) (hs : Sorted l) (hp : Pos l) :
    Disj (mergeSegs l) ∧ Pos (mergeSegs l) ∧
    (∀ b, lookup (mergeSegs l) b = lookup l b) ∧
    (∀ b a, (b, a) ∈ transfer (mergeSegs l) ↔ lookup l b = some a) := by
  have ho := mergeSegs_out l hp
  refine ⟨ho.2, ho.1, mergeSegs_lookup l hs hp, ?_⟩
  intro b a
  rw [transfer_eq_pairs _ (fun s h => Int.le_of_lt (ho.1 s h)), mem_pairs_iff_lookup _ ho.2 ho.1,
      mergeSegs_lookup l hs hp]

/-- the sort step of merge_requests yields a sorted permutation (so `merge_spec` applies to it) -/
theorem sort_spec (l : List Seg) : Sorted (sortStep l) ∧ (sortStep l).Perm l :=
  ⟨sortStep_sorted l, sortStep_perm l⟩

/-- coalescing (both passes of type_create_off_len) never changes which bytes are moved where:
    the k-th byte of the buffer type and of the file type are the k-th (file, buffer) byte of
    the segment list, for every segment list with non-negative lengths. -/
theorem coalesce_preserves_map (l : List Seg) (hp : ∀ s ∈ l, 0 ≤ s.len) : transfer l = pairs l :=
  transfer_eq_pairs l hp

/-- `merge_disjoint_identity`.  On a sorted, pairwise non-overlapping pending set the merge loop
    moves exactly the byte pairs of the individual requests, in the same order: nothing is dropped,
    trimmed or reordered — only block boundaries change (contiguous neighbours are fused). -/
theorem merge_disjoint_identity (l : List Seg) (hp : Pos l) (hd : Disj l) :
    transfer (mergeSegs l) = pairs l := by
  rw [transfer_eq_pairs _ (fun s h => Int.le_of_lt ((mergeSegs_out l hp).1 s h)), mergeSegs_disjoint l hp hd]

/-- whole pipeline, any posting order: for a write-disjoint set of segments the aggregated
    transfer is a permutation of the union of the individual transfers -/
theorem aggregate_disjoint (l : List Seg) (hp : Pos l) (hd : SymDisj l) :
    (transfer (mergeRequests l)).Perm (pairs l) := by
  have hperm := sortStep_perm l
  have hp' : Pos (sortStep l) := fun s h => hp s (hperm.mem_iff.mp h)
  have hd' : SymDisj (sortStep l) := by
    unfold SymDisj at hd ⊢
    refine (List.Perm.pairwise_iff ?_ hperm).mpr hd
    intro a b h; exact h.symm
  have hdisj := disj_of_sorted_symDisj _ (sortStep_sorted l) hp' hd'
  unfold mergeRequests
  rw [merge_disjoint_identity _ hp' hdisj]
  exact pairs_perm _ _ hperm

/-- non-vacuity: an interleaved, write-disjoint group (two column requests of a 2-row array) -/
example : Pos [⟨0, 2, 0⟩, ⟨8, 2, 2⟩, ⟨2, 2, 40⟩, ⟨10, 2, 42⟩] ∧ SymDisj [⟨0, 2, 0⟩, ⟨8, 2, 2⟩, ⟨2, 2, 40⟩, ⟨10, 2, 42⟩] := by
  constructor
  · intro s hs; simp at hs; rcases hs with rfl | rfl | rfl | rfl <;> decide
  · simp [SymDisj]
example : mergeRequests [⟨0, 2, 0⟩, ⟨8, 2, 2⟩, ⟨2, 2, 40⟩, ⟨10, 2, 42⟩] = [⟨0, 2, 0⟩, ⟨2, 2, 40⟩, ⟨8, 2, 2⟩, ⟨10, 2, 42⟩] := by decide
example : Sorted [⟨0, 10, 0⟩, ⟨2, 10, 50⟩, ⟨5, 8, 200⟩] ∧ Pos [⟨0, 10, 0⟩, ⟨2, 10, 50⟩, ⟨5, 8, 200⟩] := by
  constructor
  · simp [Sorted]
  · intro s hs; simp at hs; rcases hs with rfl | rfl | rfl <;> decide

/-! #### F13: reads may overlap, but the merge drops the overlapped part of the later request -/

/-- what the property demands of a READ group: every byte of every request's buffer is filled
    from the file byte it asked for -/
def read_fills_all_Statement : Prop :=
  ∀ l : List Seg, Sorted l → Pos l → ∀ s ∈ l, ∀ k : Nat, (k : Int) < s.len →
    (s.off + k, s.buf + k) ∈ transfer (mergeSegs l)

/-- two identical read requests with different buffers: the second buffer is never written -/
theorem read_fills_all_counterexample : ¬ read_fills_all_Statement := by
  intro h
  have := h [⟨0, 4, 0⟩, ⟨0, 4, 100⟩] (by simp [Sorted]) (by intro s hs; simp at hs; rcases hs with rfl | rfl <;> decide)
    ⟨0, 4, 100⟩ (by simp) 0 (by decide)
  revert this
  decide

/-- holds exactly when the requests of the group do not overlap in the file -/
theorem read_fills_all_partial (l : List Seg) (hp : Pos l) (hd : Disj l) :
    ∀ s ∈ l, ∀ k : Nat, (k : Int) < s.len → (s.off + k, s.buf + k) ∈ transfer (mergeSegs l) := by
  intro s hs k hk
  rw [merge_disjoint_identity l hp hd, mem_pairs]
  exact ⟨s, hs, by omega, by omega, by omega⟩

example : Pos [⟨0, 4, 0⟩, ⟨4, 4, 100⟩] ∧ Disj [⟨0, 4, 0⟩, ⟨4, 4, 100⟩] := by
  constructor
  · intro s hs; simp at hs; rcases hs with rfl | rfl <;> decide
  · simp [Disj]

def obligations : List String := [
  "merge_spec", "sort_spec", "coalesce_preserves_map", "merge_disjoint_identity", "aggregate_disjoint",
  "read_fills_all_counterexample", "read_fills_all_partial"
]
end PnVerif.Props.C02
