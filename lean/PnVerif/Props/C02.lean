import PnVerif.Lemmas.MergeLemmas
import PnVerif.Lemmas.ReqQueueFixed
import PnVerif.Lemmas.FlattenLemmas
/-
  C02 — nonblocking request aggregation is equivalent to blocking execution.

  Part 1 (this section): the sort → merge → coalesce pipeline of an interleaved group
  (`merge_requests`, `type_create_off_len` of ncmpio_wait.c; model in Model/Merge.lean).
-/
namespace PnVerif.Props.C02
open PnVerif PnVerif.Merge

/-- `merge_spec`.  For ANY input sorted by offset (positive lengths) the merge loop's output
    is sorted and pairwise non-overlapping (each segment ends before the next starts), has positive
    lengths, and maps every file byte to the buffer byte of the FIRST input segment containing it
    (`lookup` = none exactly for the bytes outside the union of the input ranges); the two
    coalesced hindexed datatypes built from it transfer exactly those (file byte, buffer byte)
    pairs. -/
theorem merge_spec (l : List Seg) (hs : Sorted l) (hp : Pos l) :
    Disj (mergeSegs l) ∧ Pos (mergeSegs l) ∧
    (∀ b, lookup (mergeSegs l) b = lookup l b) ∧
    (∀ b a, (b, a) ∈ transfer (mergeSegs l) ↔ lookup l b = some a) := by
  have ho := mergeSegs_out l hp
  refine ⟨ho.2, ho.1, mergeSegs_lookup l hs hp, ?_⟩
  intro b a
  rw [transfer_eq_pairs _ (fun s h => Int.le_of_lt (ho.1 s h)), mem_pairs_iff_lookup _ ho.2 ho.1,
      mergeSegs_lookup l hs hp]

/-- the sort step of merge_requests yields a sorted permutation (so `merge_spec` applies to it) -/
theorem sort_spec (l : List Seg) : Sorted (sortStep l) ∧ (sortStep l).Perm l :=
  ⟨sortStep_sorted l, sortStep_perm l⟩

/-- coalescing (both passes of type_create_off_len) never changes which bytes are moved where:
    the k-th byte of the buffer type and of the file type are the k-th (file, buffer) byte of
    the segment list, for every segment list with non-negative lengths. -/
theorem coalesce_preserves_map (l : List Seg) (hp : ∀ s ∈ l, 0 ≤ s.len) : transfer l = pairs l :=
  transfer_eq_pairs l hp

/-- `merge_disjoint_identity`.  On a sorted, pairwise non-overlapping pending set the merge loop
    moves exactly the byte pairs of the individual requests, in the same order: nothing is dropped,
    trimmed or reordered — only block boundaries change (contiguous neighbours are fused). -/
theorem merge_disjoint_identity (l : List Seg) (hp : Pos l) (hd : Disj l) :
    transfer (mergeSegs l) = pairs l := by
  rw [transfer_eq_pairs _ (fun s h => Int.le_of_lt ((mergeSegs_out l hp).1 s h)), mergeSegs_disjoint l hp hd]

/-- whole pipeline, any posting order: for a write-disjoint set of segments the aggregated
    transfer is a permutation of the union of the individual transfers -/
theorem aggregate_disjoint (l : List Seg) (hp : Pos l) (hd : SymDisj l) :
    (transfer (mergeRequests l)).Perm (pairs l) := by
  have hperm := sortStep_perm l
  have hp' : Pos (sortStep l) := fun s h => hp s (hperm.mem_iff.mp h)
  have hd' : SymDisj (sortStep l) := by
    unfold SymDisj at hd ⊢
    refine (List.Perm.pairwise_iff ?_ hperm).mpr hd
    intro a b h; exact h.symm
  have hdisj := disj_of_sorted_symDisj _ (sortStep_sorted l) hp' hd'
  unfold mergeRequests
  rw [merge_disjoint_identity _ hp' hdisj]
  exact pairs_perm _ _ hperm

/-- non-vacuity: an interleaved, write-disjoint group (two column requests of a 2-row array) -/
example : Pos [⟨0, 2, 0⟩, ⟨8, 2, 2⟩, ⟨2, 2, 40⟩, ⟨10, 2, 42⟩] ∧ SymDisj [⟨0, 2, 0⟩, ⟨8, 2, 2⟩, ⟨2, 2, 40⟩, ⟨10, 2, 42⟩] := by
  constructor
  · intro s hs; simp at hs; rcases hs with rfl | rfl | rfl | rfl <;> decide
  · simp [SymDisj]
example : mergeRequests [⟨0, 2, 0⟩, ⟨8, 2, 2⟩, ⟨2, 2, 40⟩, ⟨10, 2, 42⟩] = [⟨0, 2, 0⟩, ⟨2, 2, 40⟩, ⟨8, 2, 2⟩, ⟨10, 2, 42⟩] := by decide
example : Sorted [⟨0, 10, 0⟩, ⟨2, 10, 50⟩, ⟨5, 8, 200⟩] ∧ Pos [⟨0, 10, 0⟩, ⟨2, 10, 50⟩, ⟨5, 8, 200⟩] := by
  constructor
  · simp [Sorted]
  · intro s hs; simp at hs; rcases hs with rfl | rfl | rfl <;> decide

/-! #### F13: reads may overlap, but the merge drops the overlapped part of the later request -/

/-- what the property demands of a READ group: every byte of every request's buffer is filled
    from the file byte it asked for -/
def read_fills_all_Statement : Prop :=
  ∀ l : List Seg, Sorted l → Pos l → ∀ s ∈ l, ∀ k : Nat, (k : Int) < s.len →
    (s.off + k, s.buf + k) ∈ transfer (mergeSegs l)

/-- two identical read requests with different buffers: the second buffer is never written -/
theorem read_fills_all_counterexample : ¬ read_fills_all_Statement := by
  intro h
  have := h [⟨0, 4, 0⟩, ⟨0, 4, 100⟩] (by simp [Sorted]) (by intro s hs; simp at hs; rcases hs with rfl | rfl <;> decide)
    ⟨0, 4, 100⟩ (by simp) 0 (by decide)
  revert this
  decide

/-- holds exactly when the requests of the group do not overlap in the file -/
theorem read_fills_all_partial (l : List Seg) (hp : Pos l) (hd : Disj l) :
    ∀ s ∈ l, ∀ k : Nat, (k : Int) < s.len → (s.off + k, s.buf + k) ∈ transfer (mergeSegs l) := by
  intro s hs k hk
  rw [merge_disjoint_identity l hp hd, mem_pairs]
  exact ⟨s, hs, by omega, by omega, by omega⟩

example : Pos [⟨0, 4, 0⟩, ⟨4, 4, 100⟩] ∧ Disj [⟨0, 4, 0⟩, ⟨4, 4, 100⟩] := by
  constructor
  · intro s hs; simp at hs; rcases hs with rfl | rfl <;> decide
  · simp [Disj]

/-! ## Part 2: the pending-request queues (Model/ReqQueue.lean)

  `Inv nc` (Lemmas/ReqQueueInv.lean) says, for the put queue (parity 0) and the get queue (parity 1):
  the lead list and the non-lead list are the canonical form of the list of pending requests
  `q.view` (lead i has nonleadOff = Σ_{k<i} nonleadNum k; the non-lead list is the concatenation of
  the slices, slice i carrying leadOff = i), the two C counters equal the list lengths, no
  NC_REQ_TO_FREE flag is set, ids are pairwise distinct, non-negative, of the right parity and
  ≤ max…ReqID, every request has at least one non-lead request. -/
open PnVerif.ReqQueue

/-- what `Inv` means in terms of the raw C-like fields -/
theorem queue_inv_meaning (nc : NC) (h : Inv nc) :
    (nc.put.lead = canonLeads 0 nc.put.view ∧ nc.put.nonlead = canonNL 0 nc.put.view ∧
     nc.put.numLead = nc.put.lead.length ∧ nc.put.numReqs = nc.put.nonlead.length ∧
     List.Pairwise (fun a b => a.c.id ≠ b.c.id) nc.put.view ∧
     ∀ e ∈ nc.put.view, e.c.id % 2 = 0 ∧ 0 ≤ e.c.id ∧ e.c.id ≤ nc.put.maxId ∧ e.c.toFree = false ∧ e.subs ≠ []) ∧
    (nc.get.lead = canonLeads 0 nc.get.view ∧ nc.get.nonlead = canonNL 0 nc.get.view ∧
     nc.get.numLead = nc.get.lead.length ∧ nc.get.numReqs = nc.get.nonlead.length ∧
     List.Pairwise (fun a b => a.c.id ≠ b.c.id) nc.get.view ∧
     ∀ e ∈ nc.get.view, e.c.id % 2 = 1 ∧ 0 ≤ e.c.id ∧ e.c.id ≤ nc.get.maxId ∧ e.c.toFree = false ∧ e.subs ≠ []) := by
  obtain ⟨vP, vG, hP, hG⟩ := h
  have eP := rep_view _ _ hP.rep
  have eG := rep_view _ _ hG.rep
  rw [eP, eG]
  refine ⟨⟨hP.rep.lead, hP.rep.nonlead, ?_, ?_, hP.distinct, ?_⟩, ⟨hG.rep.lead, hG.rep.nonlead, ?_, ?_, hG.distinct, ?_⟩⟩
  · rw [hP.rep.numLead, hP.rep.lead]; simp
  · rw [hP.rep.numReqs, hP.rep.nonlead]; simp
  · intro e he; have := hP.ids e he; exact ⟨this.1, this.2.1, this.2.2, hP.clean e he, hP.noEmpty e he⟩
  · rw [hG.rep.numLead, hG.rep.lead]; simp
  · rw [hG.rep.numReqs, hG.rep.nonlead]; simp
  · intro e he; have := hG.ids e he; exact ⟨this.1, this.2.1, this.2.2, hG.clean e he, hG.noEmpty e he⟩

/-- operations of the nonblocking API on one process -/
inductive Op
  | post (isPut sorted : Bool) (varBegin reqOff abuf : Int) (tag : Nat) (subs : List Sub) (maxRec : Int)
  | wait (num : Int) (ids : List Int) (st : Option (List Int))
  | cancel (num : Int) (ids : List Int) (st : Option (List Int))

/-- `V` = which variant of the three repairable code sites the tree has (Model.ReqQueue.Variant;
    `{}` = the code as found) -/
def step (V : Variant) (nc : NC) : Op → NC
  | .post true s vb ro ab tag subs mr => { nc with put := (nc.put.post 0 s vb ro ab tag subs mr).1 }
  | .post false s vb ro ab tag subs mr => { nc with get := (nc.get.post 1 s vb ro ab tag subs mr).1 }
  | .wait num ids st => (ReqQueue.wait nc num ids st V).nc
  | .cancel num ids st => (ReqQueue.cancel nc num ids st).nc

/-- a posted request has at least one non-lead request (zero-length requests return NC_REQ_NULL
    before anything is queued; a record request has count[0] ≥ 1 records) -/
def wellFormed : Op → Prop
  | .post _ _ _ _ _ _ subs _ => subs ≠ []
  | _ => True

/-- the operation is not a wait that extract_reqs refuses with NC_EINVAL_REQUEST -/
def notRefused (V : Variant) (nc : NC) : Op → Prop
  | .wait num ids st => (ReqQueue.wait nc num ids st V).err = NC_NOERR
  | _ => True

def run (V : Variant) : NC → List Op → NC
  | nc, [] => nc
  | nc, op :: ops => run V (step V nc op) ops

def Admissible (V : Variant) : NC → List Op → Prop
  | _, [] => True
  | nc, op :: ops => wellFormed op ∧ notRefused V nc op ∧ Admissible V (step V nc op) ops

theorem inv_init : Inv {} :=
  ⟨[], [], QInv.empty _ _ ⟨rfl, rfl, rfl, rfl⟩, QInv.empty _ _ ⟨rfl, rfl, rfl, rfl⟩⟩

theorem step_inv (V : Variant) (nc : NC) (h : Inv nc) (op : Op) (hw : wellFormed op) (hr : notRefused V nc op) :
    Inv (step V nc op) := by
  cases op with
  | post isPut s vb ro ab tag subs mr =>
    obtain ⟨vP, vG, hP, hG⟩ := h
    cases isPut with
    | true => exact ⟨_, vG, post_inv nc.put 0 vP hP 0 (by decide) s vb ro ab tag subs mr hw, hG⟩
    | false => exact ⟨vP, _, hP, post_inv nc.get 1 vG hG 1 (by decide) s vb ro ab tag subs mr hw⟩
  | wait num ids st => exact wait_inv nc h num ids st V hr
  | cancel num ids st => exact cancel_inv nc h num ids st

/-- `queue_inv` (partial; every code variant): the invariant holds after EVERY history of posts,
    waits (all forms: explicit lists, NC_REQ_ALL / NC_GET_REQ_ALL / NC_PUT_REQ_ALL, the three
    shortcuts) and cancels of any length in which no wait is refused with NC_EINVAL_REQUEST. -/
theorem queue_inv_partial (V : Variant) (ops : List Op) :
    ∀ (nc : NC), Inv nc → Admissible V nc ops → Inv (run V nc ops) := by
  induction ops with
  | nil => intro nc h _; exact h
  | cons op ops ih =>
    intro nc h ha
    exact ih (step V nc op) (step_inv V nc h op ha.1 ha.2.1) ha.2.2

/-- the full statement: without the "no refused wait" hypothesis -/
def queue_inv_Statement (V : Variant) : Prop :=
  ∀ ops : List Op, (∀ op ∈ ops, wellFormed op) → Inv (run V {} ops)

/-- `queue_inv` in full for the repaired refusal path (F19 fixed): all histories -/
theorem queue_inv_fixed (V : Variant) (hV : V.clearOnRefusal = true) : queue_inv_Statement V := by
  intro ops
  suffices H : ∀ (nc : NC), Inv nc → (∀ op ∈ ops, wellFormed op) → Inv (run V nc ops) from H {} inv_init
  induction ops with
  | nil => intro nc h _; exact h
  | cons op ops ih =>
    intro nc h hw
    apply ih _ _ (fun o ho => hw o (List.mem_cons_of_mem _ ho))
    cases op with
    | wait num ids st => exact wait_inv_fixed nc h num ids st V hV
    | post isPut s vb ro ab tag subs mr => exact step_inv V nc h _ (hw _ List.mem_cons_self) trivial
    | cancel num ids st => exact step_inv V nc h _ trivial trivial

private def sub1 : Sub := { tag := 0, nelems := 1, xoff := 0 }
/-- put A (id 0), put B (id 2), get G (id 1); wait_all(2,[A,998]) is refused but leaves
    NC_REQ_TO_FREE on A; wait_all(1,[B]) then frees A as well and leaves numPutReqs = 1 with an
    empty queue (F19) -/
def f19History : List Op :=
  [.post true true 100 100 (-1) 0 [sub1] (-1), .post true true 200 200 (-1) 1 [sub1] (-1),
   .post false false 100 100 (-1) 2 [sub1] (-1),
   .wait 2 [0, 998] (some [777, 777]), .wait 1 [2] (some [777])]

/-- the code as found (F19) -/
theorem queue_inv_counterexample : ¬ queue_inv_Statement {} := by
  intro h
  have hi := h f19History (by intro op hop; simp [f19History] at hop; rcases hop with rfl | rfl | rfl | rfl | rfl <;> simp [wellFormed, sub1])
  have hm := (queue_inv_meaning _ hi).1
  have h1 : (run {} {} f19History).put.numReqs = 1 := by decide
  have h2 : (run {} {} f19History).put.nonlead = [] := by decide
  have := hm.2.2.2.1
  rw [h1, h2] at this
  simp at this

/-- non-vacuity of `queue_inv_partial`: a history with a sorted insertion in the middle, a subset
    wait, a shortcut wait and a cancel is admissible -/
example : Admissible {} {} [.post true true 300 300 (-1) 0 [sub1, sub1] (-1), .post true true 100 100 (-1) 1 [sub1] (-1),
                         .post false false 100 100 (-1) 2 [sub1] (-1), .wait 2 [2, -1] (some [777, 777]),
                         .cancel 1 [1] none, .wait (-1) [] none] := by
  simp only [Admissible, wellFormed, notRefused, step]
  repeat' apply And.intro
  all_goals (first | trivial | decide | (simp [sub1]; done))

/-- a refused wait is harmless: the invariant still holds and the same requests are pending with the
    same non-lead requests -/
def refused_wait_harmless_Statement (V : Variant) : Prop :=
  ∀ nc : NC, Inv nc → ∀ num ids st, (ReqQueue.wait nc num ids st V).err ≠ NC_NOERR →
    Inv (ReqQueue.wait nc num ids st V).nc ∧
    (ReqQueue.wait nc num ids st V).nc.put.view.map (fun e => (e.c.id, e.subs)) = nc.put.view.map (fun e => (e.c.id, e.subs)) ∧
    (ReqQueue.wait nc num ids st V).nc.get.view.map (fun e => (e.c.id, e.subs)) = nc.get.view.map (fun e => (e.c.id, e.subs))

/-- false of the code as found (F19): NC_REQ_TO_FREE stays set on the valid requests -/
theorem refused_wait_harmless_counterexample : ¬ refused_wait_harmless_Statement {} := by
  intro h
  have hi : Inv (run {} {} (f19History.take 3)) :=
    queue_inv_partial {} _ {} inv_init (by simp [f19History, Admissible, wellFormed, notRefused, sub1])
  have h1 := (h _ hi 2 [0, 998] (some [777, 777]) (by decide)).1
  have hm := (queue_inv_meaning _ h1).1.2.2.2.2.2
  have := (hm ⟨{ id := 0, varBegin := 100, toFree := true, abufIndex := -1, status := some 0, maxRec := -1, tag := 0 }, [sub1]⟩ (by decide)).2.2.2.1
  simp at this

/-- true once the refusal path clears the marks (F19 fixed) -/
theorem refused_wait_harmless_fixed (V : Variant) (hV : V.clearOnRefusal = true) : refused_wait_harmless_Statement V := by
  intro nc h num ids st herr
  refine ⟨wait_inv_fixed nc h num ids st V hV, ?_⟩
  have hsub : SubsetPath nc num ids st V := by
    by_cases hs : SubsetPath nc num ids st V
    · exact hs
    · exact absurd (err_of_not_subset nc num ids st V hs) herr
  obtain ⟨vP, vG, hP, hG⟩ := h
  have hw := wait_refused_fixed nc vP vG hP.rep hG.rep hP.clean hG.clean hP.distinct hG.distinct num ids st V hV hsub herr
  rw [rep_view _ _ hw.1, rep_view _ _ hw.2.1, rep_view _ _ hP.rep, rep_view _ _ hG.rep]
  exact ⟨clearE_sub vP, clearE_sub vG⟩

/-! ### wait on an explicit id list -/

/-- `wait_exact` / `status_by_id` / `ids_nulled` (partial: no shortcut of extract_reqs fires; every
    code variant).  A successful wait on an explicit id list
    * leaves exactly the requests NOT named pending, in the same order and unchanged (core fields
      and the payload of every non-lead request),
    * completes exactly the named ones, each once (`donePut`/`doneGet` = the named requests in
      queue order), every completed lead carries NC_REQ_TO_FREE,
    * sets every entry of req_ids[] to NC_REQ_NULL,
    * when statuses[] is given, the status pointer of a completed request refers to a slot i with
      req_ids[i] = its id,
    * and the invariant holds again. -/
theorem wait_exact_partial (V : Variant) (nc : NC) (h : Inv nc) (num : Int) (ids : List Int) (st : Option (List Int))
    (hsub : SubsetPath nc num ids st V) (herr : (ReqQueue.wait nc num ids st V).err = NC_NOERR) :
    WaitExact nc ids st (ReqQueue.wait nc num ids st V) ∧
    (ReqQueue.wait nc num ids st V).donePut.map (fun l => l.c.id)
        = (nc.put.view.filter (fun e => decide (e.c.id ∈ ids))).map (fun e => e.c.id) ∧
    (ReqQueue.wait nc num ids st V).doneGet.map (fun l => l.c.id)
        = (nc.get.view.filter (fun e => decide (e.c.id ∈ ids))).map (fun e => e.c.id) ∧
    Inv (ReqQueue.wait nc num ids st V).nc := by
  have hinv := wait_inv nc h num ids st V herr
  obtain ⟨vP, vG, hP, hG⟩ := h
  have hw := wait_subset nc vP vG hP.rep hG.rep hP.clean hG.clean hP.distinct hG.distinct hP.noEmpty hG.noEmpty
    (fun e he => ⟨(hP.ids e he).1, hP.ne_null e he⟩)
    (fun e he => ⟨by have := (hG.ids e he).1; omega, hG.ne_null e he⟩)
    num ids st V hsub herr
  unfold WaitExact
  rw [rep_view _ _ hP.rep, rep_view _ _ hG.rep, rep_view _ _ hw.1, rep_view _ _ hw.2.1]
  exact ⟨⟨rfl, rfl, hw.2.2.1, hw.2.2.2.2.2.1⟩, hw.2.2.2.1, hw.2.2.2.2.1, hinv⟩

/-- the full statement of `wait_exact` + `status_by_id` + `ids_nulled`: for EVERY successful wait
    on an explicit list -/
def wait_exact_Statement (V : Variant) : Prop :=
  ∀ nc : NC, Inv nc → ∀ (ids : List Int) (st : Option (List Int)),
    (ReqQueue.wait nc ids.length ids st V).err = NC_NOERR →
    WaitExact nc ids st (ReqQueue.wait nc ids.length ids st V)

/-- code as found, F4b: two puts A (id 0), B (id 2) pending; wait_all(2,[A,NC_REQ_NULL]) completes B as well -/
theorem wait_exact_counterexample : ¬ wait_exact_Statement {} := by
  intro h
  have hi : Inv (run {} {} (f19History.take 2)) :=
    queue_inv_partial {} _ {} inv_init (by simp [f19History, Admissible, wellFormed, notRefused, sub1])
  have := (h _ hi [0, -1] (some [777, 777]) (by decide)).1
  revert this
  decide

/-- code as found, F4a: two gets A (id 1), B (id 3) pending; wait_all(2,[B,A],st): A's status pointer
    is &st[0] although req_ids[0] = B -/
theorem status_by_id_counterexample : ¬ wait_exact_Statement {} := by
  intro h
  have hi : Inv (run {} {} [.post false false 100 100 (-1) 0 [sub1] (-1), .post false false 200 200 (-1) 1 [sub1] (-1)]) :=
    queue_inv_partial {} _ {} inv_init (by simp [Admissible, wellFormed, notRefused, sub1])
  have := (h _ hi [3, 1] (some [777, 777]) (by decide)).2.2.2
    ⟨{ id := 1, varBegin := 100, toFree := true, abufIndex := -1, status := some 0, maxRec := -1, tag := 0 }, 0, 1⟩ (by decide)
  obtain ⟨i, hi1, hi2⟩ := this.2 rfl
  simp at hi1
  subst hi1
  simp at hi2

/-- true once the shortcuts also compare req_ids[] with the queue (F4 fixed) -/
theorem wait_exact_all_fixed (V : Variant) (hV : V.shortcutChecksIds = true) : wait_exact_Statement V :=
  fun nc h ids st herr => wait_exact_fixed nc h ids st V hV herr

/-- non-vacuity of `wait_exact_partial`: a subset wait naming the middle one of three puts while a
    get is pending takes the subset path and succeeds -/
example : SubsetPath (run {} {} [.post true true 100 100 (-1) 0 [sub1] (-1), .post true true 200 200 (-1) 1 [sub1] (-1),
                              .post true true 300 300 (-1) 2 [sub1] (-1), .post false false 100 100 (-1) 3 [sub1] (-1)])
                     1 [2] (some [777]) ∧
    (ReqQueue.wait (run {} {} [.post true true 100 100 (-1) 0 [sub1] (-1), .post true true 200 200 (-1) 1 [sub1] (-1),
                              .post true true 300 300 (-1) 2 [sub1] (-1), .post false false 100 100 (-1) 3 [sub1] (-1)])
                   1 [2] (some [777])).err = NC_NOERR := by
  constructor
  · unfold SubsetPath; decide
  · decide

/-- NC_REQ_ALL / NC_GET_REQ_ALL / NC_PUT_REQ_ALL complete every pending request of the kind -/
theorem wait_all_spec (nc : NC) (h : Inv nc) (ids : List Int) (st : Option (List Int)) :
    (ReqQueue.wait nc NC_REQ_ALL ids st).nc.put.view = [] ∧ (ReqQueue.wait nc NC_REQ_ALL ids st).nc.get.view = [] ∧
    (ReqQueue.wait nc NC_PUT_REQ_ALL ids st).nc.put.view = [] ∧ (ReqQueue.wait nc NC_PUT_REQ_ALL ids st).nc.get = nc.get ∧
    (ReqQueue.wait nc NC_GET_REQ_ALL ids st).nc.get.view = [] ∧ (ReqQueue.wait nc NC_GET_REQ_ALL ids st).nc.put = nc.put := by
  obtain ⟨vP, vG, hP, hG⟩ := h
  have hlP := lead_length_of_rep hP.rep
  have hlG := lead_length_of_rep hG.rep
  have eP : ∀ q : Q, q = (nc.put.takeAll.cleanup nc.put.numLead).1 → q.view = [] := by
    intro q hq; rw [hq]; exact rep_view _ _ (cleanup_all nc.put nc.put.lead nc.put.numLead rfl hlP).1
  have eG : ∀ q : Q, q = (nc.get.takeAll.cleanup nc.get.numLead).1 → q.view = [] := by
    intro q hq; rw [hq]; exact rep_view _ _ (cleanup_all nc.get nc.get.lead nc.get.numLead rfl hlG).1
  refine ⟨eP _ ?_, eG _ ?_, eP _ ?_, ?_, eG _ ?_, ?_⟩ <;>
    simp [ReqQueue.wait, extract, NC_PUT_REQ_ALL, NC_REQ_ALL, NC_GET_REQ_ALL, NC_NOERR, cleanup_zero]

/-! ### cancel -/

/-- `cancel_spec`: ncmpi_cancel on an explicit id list removes exactly the named pending requests
    (whatever else the list contains: NC_REQ_NULL, unknown or repeated ids), everything else stays
    pending in the same order and unchanged; with one of the three constants the queue(s) are
    emptied; the invariant is kept in every case. -/
theorem cancel_spec (nc : NC) (h : Inv nc) (num : Int) (ids : List Int) (st : Option (List Int)) :
    Inv (ReqQueue.cancel nc num ids st).nc ∧
    (0 < num →
      (ReqQueue.cancel nc num ids st).nc.put.view = nc.put.view.filter (fun e => decide (e.c.id ∉ ids)) ∧
      (ReqQueue.cancel nc num ids st).nc.get.view = nc.get.view.filter (fun e => decide (e.c.id ∉ ids))) ∧
    (num = NC_REQ_ALL → (ReqQueue.cancel nc num ids st).nc.put.view = [] ∧ (ReqQueue.cancel nc num ids st).nc.get.view = []) := by
  refine ⟨cancel_inv nc h num ids st, ?_, ?_⟩
  · intro hpos
    obtain ⟨vP, vG, hP, hG⟩ := h
    have h0 : ¬ num = 0 := by omega
    have hlt : ¬ num < NC_PUT_REQ_ALL := by unfold NC_PUT_REQ_ALL; omega
    have hneg : ¬ num < 0 := by omega
    have hg : ¬ (num = NC_GET_REQ_ALL ∨ num = NC_REQ_ALL) := by unfold NC_GET_REQ_ALL NC_REQ_ALL; omega
    have hp : ¬ (num = NC_PUT_REQ_ALL ∨ num = NC_REQ_ALL) := by unfold NC_PUT_REQ_ALL NC_REQ_ALL; omega
    have hrep := cancelLoop_rep ids 0 { nc := nc, ids := [], st := st, err := NC_NOERR } vP vG hP.rep hG.rep
    have hf := cancelView_filter ids vP vG hP.distinct hG.distinct
      (fun e he => ⟨(hP.ids e he).1, hP.ne_null e he⟩) (fun e he => ⟨(hG.ids e he).1, hG.ne_null e he⟩)
    rw [rep_view _ _ hP.rep, rep_view _ _ hG.rep]
    unfold ReqQueue.cancel
    simp only [h0, hlt, hneg, hg, hp, if_false]
    rw [rep_view _ _ (freeIfEmpty_rep _ _ hrep.1), rep_view _ _ (freeIfEmpty_rep _ _ hrep.2.1), hf]
    exact ⟨rfl, rfl⟩
  · intro hall
    subst hall
    simp [ReqQueue.cancel, NC_REQ_ALL, NC_PUT_REQ_ALL, NC_GET_REQ_ALL, Q.clear, Q.view]

/-! ### posting -/

/-- `post_spec`: a post inserts the new request (fresh id of the right parity: 0/1 on an empty queue,
    max…ReqID + 2 otherwise) at the position the begin-sorted insertion selects (or at the end for
    iget_var*), leaves every other pending request unchanged and keeps the invariant. -/
theorem post_spec (nc : NC) (h : Inv nc) (sorted : Bool) (varBegin reqOff abuf : Int) (tag : Nat)
    (subs : List Sub) (maxRec : Int) (hsubs : subs ≠ []) :
    let r := nc.put.post 0 sorted varBegin reqOff abuf tag subs maxRec
    let p := postPos nc.put sorted reqOff
    r.1.view = nc.put.view.take p ++ [⟨{ id := r.2, varBegin := varBegin, abufIndex := abuf, maxRec := maxRec, tag := tag }, subs⟩]
                 ++ nc.put.view.drop p ∧
    r.2 = (if nc.put.numLead = 0 then 0 else nc.put.maxId + 2) ∧
    (∀ e ∈ nc.put.view, e.c.id ≠ r.2) ∧
    (sorted = true → (∀ e ∈ nc.put.view.drop p, e.c.varBegin > reqOff) ∧
                     (∀ e, (nc.put.view.take p).getLast? = some e → e.c.varBegin ≤ reqOff)) ∧
    Inv (step {} nc (.post true sorted varBegin reqOff abuf tag subs maxRec)) := by
  intro r p
  have hstep := step_inv {} nc h (.post true sorted varBegin reqOff abuf tag subs maxRec) hsubs trivial
  obtain ⟨vP, vG, hP, hG⟩ := h
  have hq := post_inv nc.put 0 vP hP 0 (by decide) sorted varBegin reqOff abuf tag subs maxRec hsubs
  have hv := rep_view _ _ hP.rep
  have hr2 : r.2 = postId nc.put 0 := by simp only [r, post_eq]
  refine ⟨?_, ?_, ?_, ?_, hstep⟩
  · rw [rep_view _ _ hq.rep, hv, hr2]; rfl
  · rw [hr2]; rfl
  · intro e he
    rw [hv] at he
    have hd := hq.distinct
    unfold Distinct at hd
    have hperm := insert_perm vP (postPos nc.put sorted reqOff) (newEntry (postId nc.put 0) varBegin abuf maxRec tag subs)
    have hd2 := (List.Perm.pairwise_iff (fun {a b} (hab : a.c.id ≠ b.c.id) => fun hba => hab hba.symm) hperm).mp hd
    have := (List.pairwise_cons.mp hd2).1 e he
    rw [hr2]; intro heq; exact this (by simp [newEntry, heq])
  · intro hs
    subst hs
    have hsp := insPos_spec nc.put.lead reqOff
    have hpp : p = insPos nc.put.lead reqOff := by simp [p, postPos]
    rw [hv]
    have hl := hP.rep.lead
    constructor
    · intro e he
      -- the lead at the same position has the same core
      have hcore : ∃ l ∈ nc.put.lead.drop p, l.c = e.c := by
        rw [hl, canonLeads_drop]
        have : ∀ (o : Nat) (w : List Entry), e ∈ w → ∃ l ∈ canonLeads o w, l.c = e.c := by
          intro o w hw
          induction w generalizing o with
          | nil => simp at hw
          | cons x xs ih =>
            rcases List.mem_cons.mp hw with rfl | hx
            · exact ⟨_, List.mem_cons_self, rfl⟩
            · obtain ⟨l, hl1, hl2⟩ := ih _ hx
              exact ⟨l, List.mem_cons_of_mem _ hl1, hl2⟩
        exact this _ _ he
      obtain ⟨l, hl1, hl2⟩ := hcore
      rw [hpp] at hl1
      have := hsp.1 l hl1
      rw [hl2] at this; exact this
    · intro e he
      have hcore : ∃ l, (nc.put.lead.take p).getLast? = some l ∧ l.c = e.c := by
        rw [hl, canonLeads_take]
        have : ∀ (o : Nat) (w : List Entry), w.getLast? = some e → ∃ l, (canonLeads o w).getLast? = some l ∧ l.c = e.c := by
          intro o w hw
          induction w generalizing o with
          | nil => simp at hw
          | cons x xs ih =>
            cases xs with
            | nil => simp at hw; subst hw; exact ⟨⟨x.c, o, x.subs.length⟩, by simp [canonLeads], rfl⟩
            | cons y ys =>
              have hw' : (y :: ys).getLast? = some e := by simpa [List.getLast?_cons_cons] using hw
              obtain ⟨l, hl1, hl2⟩ := ih (o + x.subs.length) hw'
              refine ⟨l, ?_, hl2⟩
              simp only [canonLeads] at hl1 ⊢
              rw [List.getLast?_cons_cons]; exact hl1
        exact this _ _ he
      obtain ⟨l, hl1, hl2⟩ := hcore
      rw [hpp] at hl1
      have := hsp.2 l hl1
      rw [hl2] at this; exact this

/-! ### numrecs after a wait (F21) and the record split of varn (F20) -/

/-- what the blocking calls do: after a wait the record count is the maximum of the old count and
    the `max_rec` of every put the wait completed -/
def numrecs_Statement (V : Variant) : Prop :=
  ∀ nc : NC, Inv nc → 0 ≤ nc.numrecs → ∀ num ids st, (ReqQueue.wait nc num ids st V).err = NC_NOERR →
    (ReqQueue.wait nc num ids st V).nc.numrecs = maxRecOf nc.numrecs (ReqQueue.wait nc num ids st V).donePut

/-- code as found, F21: put to a fixed variable (queued first), put to record 3 (max_rec 4), a pending
    get; wait_all(1,[id of the record put]) leaves numrecs = 3 -/
theorem numrecs_counterexample : ¬ numrecs_Statement {} := by
  intro h
  have hi : Inv (run {} { numrecs := 3 } [.post true true 100 100 (-1) 0 [sub1] (-1), .post true true 200 968 (-1) 1 [sub1] 4,
                                       .post false false 100 100 (-1) 2 [sub1] (-1)]) :=
    queue_inv_partial {} _ _ ⟨[], [], QInv.empty _ _ ⟨rfl, rfl, rfl, rfl⟩, QInv.empty _ _ ⟨rfl, rfl, rfl, rfl⟩⟩
      (by simp [Admissible, wellFormed, notRefused, sub1])
  have := h _ hi (by decide) 1 [2] (some [777]) (by decide)
  revert this
  decide

/-- `numrecs_partial` (every code variant): whenever the wait does not take the subset path —
    NC_REQ_ALL / NC_GET_REQ_ALL / NC_PUT_REQ_ALL and the three shortcuts, where every pending put
    is extracted and the loop bound covers the whole queue — the record count is right -/
theorem numrecs_partial (V : Variant) (nc : NC) (h : Inv nc) (h0 : 0 ≤ nc.numrecs) (num : Int) (ids : List Int)
    (st : Option (List Int)) (hns : ¬ SubsetPath nc num ids st V) :
    (ReqQueue.wait nc num ids st V).nc.numrecs = maxRecOf nc.numrecs (ReqQueue.wait nc num ids st V).donePut :=
  numrecs_nonsubset nc h h0 num ids st V hns

/-- true for every successful wait once req_commit scans all `numLeadPutReqs` leads (F21 fixed) -/
theorem numrecs_fixed (V : Variant) (hV : V.numrecsAllLeads = true) : numrecs_Statement V := by
  intro nc h h0 num ids st herr
  by_cases hsub : SubsetPath nc num ids st V
  · obtain ⟨vP, vG, hP, hG⟩ := h
    have hw := wait_subset nc vP vG hP.rep hG.rep hP.clean hG.clean hP.distinct hG.distinct hP.noEmpty hG.noEmpty
      (fun e he => ⟨(hP.ids e he).1, hP.ne_null e he⟩)
      (fun e he => ⟨by have := (hG.ids e he).1; omega, hG.ne_null e he⟩)
      num ids st V hsub herr
    exact hw.2.2.2.2.2.2.2.2 hV h0
  · exact numrecs_nonsubset nc h h0 num ids st V hsub

/-- non-vacuity of the fixed variant on the witness of F21: numrecs becomes 4 -/
example : (ReqQueue.wait (run {} { numrecs := 3 } [.post true true 100 100 (-1) 0 [sub1] (-1), .post true true 200 968 (-1) 1 [sub1] 4,
                                                  .post false false 100 100 (-1) 2 [sub1] (-1)])
            1 [2] (some [777]) { numrecsAllLeads := true }).nc.numrecs = 4 := by decide

/-- `record_split`: splitting a record-variable request into one request per record (both the
    varm path and the varn path, ncmpio_add_record_requests) yields `k` pieces of `nelems / k`
    elements whose buffers tile the request's buffer back to back, for every record count `k` -/
theorem record_split (tag : Nat) (nelems xoff xsz : Int) (k : Nat) (hk : 0 < k) :
    splitVarn tag nelems xoff xsz k = exactSplit tag nelems xoff xsz k ∧
    splitVarm tag nelems xsz k = exactSplit tag nelems 0 xsz k := by
  by_cases h1 : 1 < k
  · simp [splitVarn, splitVarm, exactSplit, addRecordRequests, h1]
  · have : k = 1 := by omega
    subst this
    simp [splitVarn, splitVarm, exactSplit]

/-- the pieces of a split tile the buffer: piece i starts where piece i-1 ends -/
theorem record_split_tiles (tag : Nat) (nelems xoff xsz : Int) (k : Nat) (i : Nat) (hi : i + 1 < k) :
    ∃ a b, (exactSplit tag nelems xoff xsz k)[i]? = some a ∧ (exactSplit tag nelems xoff xsz k)[i + 1]? = some b ∧
      b.xoff = a.xoff + a.nelems * xsz := by
  unfold exactSplit
  refine ⟨⟨tag, nelems / (k : Int), xoff + (i : Int) * (nelems / (k : Int) * xsz)⟩,
          ⟨tag, nelems / (k : Int), xoff + ((i + 1 : Nat) : Int) * (nelems / (k : Int) * xsz)⟩, ?_, ?_, ?_⟩
  · simp [List.getElem?_map, List.getElem?_range (show i < k by omega)]
  · simp [List.getElem?_map, List.getElem?_range hi]
  · simp only
    have : ((i + 1 : Nat) : Int) = (i : Int) + 1 := by omega
    rw [this, Int.add_mul]
    omega

/-! ## Part 3: vars_flatten and the buffer type of mgetput (Model/Flatten.lean) -/
open PnVerif.Access PnVerif.Flatten

/-- `varsFlatten_offsets`: for every array shape, element size, start/count/stride (any number of
    dimensions ≥ 1, all counts ≥ 1 — vars_flatten returns no segment otherwise) the (offset, length)
    list emitted by vars_flatten expands to exactly the file offsets of the request's elements, in
    row-major request order (`elemOff` = the format's element address on the array that starts at
    `offset`; merge_requests passes the record's start for record variables). -/
theorem varsFlatten_offsets (el offset : Nat) (dimlen s c k : List Nat)
    (h1 : s.length = c.length) (h2 : s.length = k.length) (h3 : s.length = dimlen.length)
    (hne : s ≠ []) (hel : 0 < el) (hpos : ∀ x ∈ c, 0 < x) :
    expandBlocks el (varsFlattenOffs el offset dimlen s c k).1 (varsFlattenOffs el offset dimlen s c k).2
      = (enumIdx s c k).map (elemOff { begin := offset, xsz := el, shape := dimlen, isRec := false, recsize := 0 }) := by
  have hcne : c ≠ [] := by
    intro hc; rw [hc] at h1; exact hne (List.length_eq_zero_iff.mp h1)
  rw [varsFlattenOffs_eq el offset dimlen s c k hpos hcne]
  simp only
  rw [expandBlocks_shift]
  exact PnVerif.Props.C01.strideFlatten_offsets
    { begin := offset, xsz := el, shape := dimlen, isRec := false, recsize := 0 } s c k h1 h2 h3 hne hel
    (by intro h; exact absurd h (by simp))

/-- the segments carry the common length and consecutive buffer addresses: segment i reads/writes
    buffer bytes [buf_addr + i*seg_len, buf_addr + (i+1)*seg_len), offsets as in `varsFlatten_offsets` -/
theorem varsFlatten_segs (el offset : Nat) (dimlen : List Nat) (bufAddr : Int) (s c k : List Nat)
    (hd : dimlen.length ≠ 0) :
    let r := varsFlattenOffs el offset dimlen s c k
    (varsFlatten el offset dimlen bufAddr s c k).map (fun g => g.off) = r.1.map (fun (o : Nat) => (o : Int)) ∧
    ∀ (i : Nat) (g : Merge.Seg), (varsFlatten el offset dimlen bufAddr s c k)[i]? = some g →
      g.len = (r.2 : Int) ∧ g.buf = bufAddr + (i : Int) * (r.2 : Int) := by
  intro r
  unfold varsFlatten
  simp only [hd, if_false]
  constructor
  · apply List.ext_getElem?
    intro i
    simp only [List.getElem?_mapIdx, List.getElem?_map, Option.map_map]
    cases (varsFlattenOffs el offset dimlen s c k).1[i]? <;> rfl
  · intro i g hg
    rw [List.getElem?_mapIdx] at hg
    cases ho : (varsFlattenOffs el offset dimlen s c k).1[i]? with
    | none => rw [ho] at hg; simp at hg
    | some o =>
      rw [ho] at hg
      simp only [Option.map_some, Option.some.injEq] at hg
      rw [← hg]; exact ⟨rfl, rfl⟩

/-- non-vacuity (kernel-evaluated): a 3x5 array of 4-byte elements at offset 100, rows 0 and 2,
    columns 1 and 3: four single-element segments, buffer addresses 0,4,8,12 -/
example : varsFlatten 4 100 [3, 5] 0 [0, 1] [2, 2] [2, 2] = [⟨104, 4, 0⟩, ⟨112, 4, 4⟩, ⟨144, 4, 8⟩, ⟨152, 4, 12⟩] := by decide

/-- `bufBlocks_cover`: the memory-side coalescing of mgetput (runs of requests whose I/O buffers are
    adjacent become one block of the hindexed buffer type) covers exactly the bytes of the requests'
    buffers, in request order — for every list of requests with non-negative sizes, whether or not
    the NC_MAX_INT guard stops a fusion. -/
theorem bufBlocks_cover (reqs : List (Int × Int)) (hp : ∀ r ∈ reqs, 0 ≤ r.2) :
    (bufBlocks reqs).flatMap (fun p => Merge.span ((reqs.head?.map (fun r => r.1)).getD 0 + p.1) p.2)
      = reqs.flatMap (fun r => Merge.span r.1 r.2) :=
  bufBlocks_bytes reqs hp

example : bufBlocks [(1000, 8), (1008, 4), (2000, 4), (1012, 4), (1016, 4)] = [(0, 12), (1000, 4), (12, 8)] := by decide

def obligations : List String := [
  "merge_spec", "sort_spec", "coalesce_preserves_map", "merge_disjoint_identity", "aggregate_disjoint",
  "read_fills_all_counterexample", "read_fills_all_partial",
  "queue_inv_meaning", "inv_init", "queue_inv_partial", "queue_inv_counterexample", "queue_inv_fixed",
  "refused_wait_harmless_counterexample", "refused_wait_harmless_fixed",
  "wait_exact_partial", "wait_exact_counterexample", "status_by_id_counterexample", "wait_exact_all_fixed", "wait_all_spec",
  "cancel_spec", "post_spec",
  "numrecs_counterexample", "numrecs_partial", "numrecs_fixed", "record_split", "record_split_tiles",
  "varsFlatten_offsets", "varsFlatten_segs", "bufBlocks_cover"
]
end PnVerif.Props.C02
