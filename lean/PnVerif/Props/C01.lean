import PnVerif.Lemmas.Access
import PnVerif.Lemmas.AccessInj
import PnVerif.Lemmas.Contig
import PnVerif.Base.File
/-
  C01 — blocking put/get round-trip for every access pattern: the offset machinery.

  What is proved here (for every number of dimensions, every shape, every start/count/stride):
  the byte offsets the C code computes for a request — through `stride_flatten`, through the
  hvector-of-records construction of `filetype_create_vara`, through `ncmpio_first_offset` — are
  exactly the offsets the format specification assigns to the addressed elements, in request order
  (`elemOff`), that distinct in-bounds elements never share bytes and stay inside the variable's own
  area, and that therefore writing a request and reading any request back through a byte map returns
  what was written while every other byte keeps its value.
-/
namespace PnVerif.Props.C01
open PnVerif.Access

theorem unitsFixed_length (xsz : Nat) (shape : List Nat) : (unitsFixed xsz shape).length = shape.length := by
  induction shape with
  | nil => rfl
  | cons n ns ih => simp [unitsFixed, ih]

theorem units_length (v : VarLay) : (units v).length = v.shape.length := by
  unfold units
  cases v.isRec with
  | false => simp [unitsFixed_length]
  | true =>
    cases h : v.shape with
    | nil => simp
    | cons n ns => simp [unitsFixed_length]

/-- **stride_flatten is correct**: for every variable (any rank ≥ 1, fixed or record), every
    (start,count,stride), the element offsets described by the block displacements and the common
    block length the C function returns are exactly the specified offsets of the addressed elements,
    in row-major request order.  The only side condition is the one the caller guarantees
    (stride_flatten is used for "true vars" requests only): a 1-D record variable is not asked for a
    stride-1 run of more than one element unless records are packed (recsize = xsz). -/
theorem strideFlatten_offsets (v : VarLay) (s c k : List Nat)
    (h1 : s.length = c.length) (h2 : s.length = k.length) (h3 : s.length = v.shape.length)
    (hne : s ≠ []) (hel : 0 < v.xsz)
    (h1d : v.isRec = true → v.shape.length = 1 → k.getLastD 1 = 1 → v.recsize = v.xsz ∨ c.getLastD 0 ≤ 1) :
    (expandBlocks v.xsz (strideFlatten v s c k).1 (strideFlatten v s c k).2).map (fun o => v.begin + o)
      = (enumIdx s c k).map (elemOff v) := by
  have hrec : v.isRec = true → v.shape ≠ [] := fun _ hs => by
    rw [hs] at h3; exact hne (List.length_eq_zero_iff.mp h3)
  -- right-hand side through the weighted sum
  have hrhs : (enumIdx s c k).map (elemOff v) = ((enumIdx s c k).map (dot (units v))).map (fun o => v.begin + o) := by
    rw [List.map_map]
    apply List.map_congr_left
    intro idx _
    simp [elemOff_eq_dot v idx hrec]
  rw [hrhs]
  congr 1
  rw [← enumOff_zip s c k (units v) h1 h2 (by rw [units_length]; exact h3), ← offsetsBU_reverse,
      ← sf_dims v s c k h1 h2 h3 hne]
  unfold strideFlatten offsetsBU
  simp only [sfLoop_eq, expandBlocks_foldl, List.foldl_cons]
  congr 1
  -- the lowest dimension
  by_cases hc : v.shape.length = 1 ∧ v.isRec = true
  · simp only [hc, and_self, ↓reduceIte]
    apply base_expand _ _ _ _ _ hel
    intro hk
    have := h1d hc.2 hc.1 hk
    simpa [hc.2] using this
  · simp only [hc, ↓reduceIte]
    apply base_expand _ _ _ _ _ hel
    intro _; exact Or.inl rfl

/-- non-vacuity: a 3-D record variable, strided in two dimensions (evaluated by the kernel) -/
example :
    let v : VarLay := { begin := 100, xsz := 4, shape := [0, 3, 5], isRec := true, recsize := 100 }
    (expandBlocks 4 (strideFlatten v [1,0,1] [2,2,2] [2,2,2]).1 (strideFlatten v [1,0,1] [2,2,2] [2,2,2]).2).map (fun o => 100 + o)
      = [204, 212, 244, 252, 404, 412, 444, 452] := by decide

/-- the repaired defect F19 as a regression theorem: 1-D record variable, stride 2, two record
    variables in the file (recsize 12 ≠ xsz 8): elements one record-stride apart -/
example :
    let v : VarLay := { begin := 4, xsz := 8, shape := [0], isRec := true, recsize := 12 }
    (strideFlatten v [0] [2] [2]).1 = [0, 24] := by decide

/-- **ncmpio_first_offset is correct**: the transcription (index loop over `dsizes[]`, separate treatment
    of the first / last / record dimension) computes exactly the specified offset of element `start`,
    for every rank and shape, fixed and record variables. -/
theorem firstOffset_eq (v : VarLay) (start : List Nat) (h : start.length = v.shape.length)
    (hrec : v.isRec = true → v.shape ≠ []) : firstOffset v start = elemOff v start := by
  unfold firstOffset elemOff
  cases hsh : v.shape with
  | nil =>
    have hs : start = [] := List.length_eq_zero_iff.mp (by rw [h, hsh]; rfl)
    cases hr : v.isRec with
    | false => simp [hs, rowMajor]
    | true => exact absurd hsh (hrec hr)
  | cons a as =>
    rw [hsh] at h
    cases start with
    | nil => simp at h
    | cons s ss =>
      simp only [List.length_cons, Nat.add_right_cancel_iff] at h
      have hn : (as.length + 1 = 0) = False := by simp
      simp only [List.length_cons, hn, ↓reduceIte]
      cases as with
      | nil =>
        have hs : ss = [] := List.length_eq_zero_iff.mp h
        subst hs
        cases v.isRec <;> simp [sumRange, rowMajor, prod, dsizes] <;> omega
      | cons b bs =>
        have hl := sumRange_rowMajor (b :: bs) ss h.symm (by simp)
        simp only [List.length_cons, Nat.add_sub_cancel] at hl
        have e4 : (fun j => (s :: ss).getD (j + 1) 0 * dsizes (a :: b :: bs) (j + 2))
                = (fun j => ss.getD j 0 * prod (List.drop (j + 1) (b :: bs))) := by
          funext j; rfl
        have e3 : (s :: ss).getD (bs.length + 1 + 1 - 1) 0 = ss.getD bs.length 0 := rfl
        have e2 : dsizes (a :: b :: bs) 1 = prod (b :: bs) := rfl
        have e5 : bs.length + 1 + 1 - 2 = bs.length := by omega
        have e6 : (bs.length + 1 + 1 > 1) = True := by simp
        simp only [List.length_cons, e4, e3, e2, e5, e6, ↓reduceIte, List.getD_cons_zero]
        cases v.isRec with
        | false =>
          simp only [Bool.false_eq_true, ↓reduceIte, rowMajor]
          rw [← hl]
          have : (s * prod (b :: bs) + (sumRange bs.length fun j => ss.getD j 0 * prod (List.drop (j + 1) (b :: bs))) + ss.getD bs.length 0) * v.xsz
               = (s * prod (b :: bs) + ((sumRange bs.length fun j => ss.getD j 0 * prod (List.drop (j + 1) (b :: bs))) + ss.getD bs.length 0)) * v.xsz := by
            rw [Nat.add_assoc]
          rw [this]; omega
        | true =>
          have hd1 : List.drop 1 (a :: b :: bs) = b :: bs := rfl
          have hd2 : List.drop 1 (s :: ss) = ss := rfl
          simp only [↓reduceIte, List.headD_cons, hd1, hd2]
          rw [← hl]
          have : (ss.getD bs.length 0 + sumRange bs.length fun j => ss.getD j 0 * prod (List.drop (j + 1) (b :: bs)))
               = ((sumRange bs.length fun j => ss.getD j 0 * prod (List.drop (j + 1) (b :: bs))) + ss.getD bs.length 0) := Nat.add_comm _ _
          rw [this]; omega

example : firstOffset { begin := 64, xsz := 4, shape := [0, 3, 5], isRec := true, recsize := 100 } [2, 1, 3] = 296 := by decide

/-- **is_request_contiguous is sound** (fixed-size variables): when the C test answers "contiguous" for
    a request inside the shape, the addressed elements are exactly `Π count` consecutive elements
    starting at the offset of `start` — which is what lets filetype_create_vara replace the file type
    by the plain offset `ncmpio_first_offset` (see `firstOffset_eq`). -/
theorem isReqContig_sound (v : VarLay) (hfix : v.isRec = false) (nrv : Nat) (s c : List Nat)
    (hv : validReq v.shape s c) (hne : v.shape ≠ [])
    (hc : isReqContig false nrv v.shape c = true) :
    (enumIdx s c (ones v.shape.length)).map (elemOff v) = consec (elemOff v s) (prod c) v.xsz := by
  obtain ⟨hvd, hpairs, hsum, hprod, hlen, hsl, hcl, hzero⟩ := zip_bridge v.xsz v.shape s c hv
  have hsl' : s.length = c.length := by rw [hsl, hcl]
  have hol : s.length = (ones v.shape.length).length := by simp [ones, hsl]
  have hul : s.length = (unitsFixed v.xsz v.shape).length := by rw [unitsFixed_length, hsl]
  -- the C test on this request is the scan over (shape, count)
  have hscan : contigScan (v.shape.zip c).reverse = true := by
    unfold isReqContig at hc
    have h0 : (v.shape.length = 0) = False := by
      simp only [eq_iff_iff, iff_false]; intro h; exact hne (List.length_eq_zero_iff.mp h)
    simp only [h0, ↓reduceIte, hzero, Bool.false_eq_true, false_and] at hc
    exact hc
  rw [← hpairs, contigScan_eq_contigL _ _ hlen] at hscan
  have hsound := contigL_sound v.xsz _ v.shape hvd hscan
  rw [enumOff_zip s c (ones v.shape.length) (unitsFixed v.xsz v.shape) hsl' hol hul, hsum, hprod] at hsound
  -- elemOff = begin + dot units
  have hunits : units v = unitsFixed v.xsz v.shape := by simp [units, hfix]
  have hrec : v.isRec = true → v.shape ≠ [] := fun h => by rw [hfix] at h; exact absurd h (by simp)
  have hmap : (enumIdx s c (ones v.shape.length)).map (elemOff v)
      = ((enumIdx s c (ones v.shape.length)).map (dot (unitsFixed v.xsz v.shape))).map (fun o => v.begin + o) := by
    rw [List.map_map]
    apply List.map_congr_left
    intro idx _
    simp [elemOff_eq_dot v idx hrec, hunits]
  rw [hmap, hsound, consec_shift, elemOff_eq_dot v s hrec, hunits]

example : isReqContig false 0 [4, 3, 5] [1, 2, 5] = true ∧ validReq [4, 3, 5] [2, 1, 0] [1, 2, 5] := by
  constructor
  · decide
  · simp [validReq]

/-! ### elements stay inside their variable and never share bytes -/

theorem elem_inside_fixed (v : VarLay) (hf : v.isRec = false) (idx : List Nat) (hb : inBounds v.shape idx) :
    v.begin ≤ elemOff v idx ∧ elemOff v idx + v.xsz ≤ v.begin + prod v.shape * v.xsz := by
  unfold elemOff
  simp only [hf, Bool.false_eq_true, ↓reduceIte]
  have h := rowMajor_lt v.shape idx hb
  have h2 : (rowMajor v.shape idx + 1) * v.xsz ≤ prod v.shape * v.xsz := Nat.mul_le_mul_right _ h
  rw [Nat.add_mul, Nat.one_mul] at h2
  omega

theorem elems_disjoint_fixed (v : VarLay) (hf : v.isRec = false) (idx idx' : List Nat)
    (hb : inBounds v.shape idx) (hb' : inBounds v.shape idx') (hne : idx ≠ idx') :
    elemOff v idx + v.xsz ≤ elemOff v idx' ∨ elemOff v idx' + v.xsz ≤ elemOff v idx := by
  unfold elemOff
  simp only [hf, Bool.false_eq_true, ↓reduceIte]
  have hrm : rowMajor v.shape idx ≠ rowMajor v.shape idx' := fun h => hne (rowMajor_inj _ _ _ hb hb' h)
  rcases scaled_disjoint _ _ v.xsz hrm with h | h <;> omega

/-- record variables: element (r :: is) lies inside the variable's slot of record r, provided one
    record of the variable fits in the record size (which `begins_wf`, C03, guarantees) -/
theorem elem_inside_rec (v : VarLay) (hr : v.isRec = true) (r : Nat) (is : List Nat)
    (hb : inBounds (v.shape.drop 1) is) (hfit : prod (v.shape.drop 1) * v.xsz ≤ v.recsize) :
    v.begin + r * v.recsize ≤ elemOff v (r :: is)
      ∧ elemOff v (r :: is) + v.xsz ≤ v.begin + r * v.recsize + prod (v.shape.drop 1) * v.xsz
      ∧ elemOff v (r :: is) + v.xsz ≤ v.begin + (r + 1) * v.recsize := by
  unfold elemOff
  simp only [hr, ↓reduceIte, List.headD_cons, List.drop_succ_cons, List.drop_zero]
  have h := rowMajor_lt _ is hb
  have h2 : (rowMajor (v.shape.drop 1) is + 1) * v.xsz ≤ prod (v.shape.drop 1) * v.xsz := Nat.mul_le_mul_right _ h
  rw [Nat.add_mul, Nat.one_mul] at h2
  rw [Nat.add_mul, Nat.one_mul]
  omega

theorem elems_disjoint_rec (v : VarLay) (hr : v.isRec = true) (r r' : Nat) (is is' : List Nat)
    (hb : inBounds (v.shape.drop 1) is) (hb' : inBounds (v.shape.drop 1) is')
    (hfit : prod (v.shape.drop 1) * v.xsz ≤ v.recsize) (hne : r ≠ r' ∨ is ≠ is') :
    elemOff v (r :: is) + v.xsz ≤ elemOff v (r' :: is') ∨ elemOff v (r' :: is') + v.xsz ≤ elemOff v (r :: is) := by
  have hi := elem_inside_rec v hr r is hb hfit
  have hi' := elem_inside_rec v hr r' is' hb' hfit
  rcases Nat.lt_trichotomy r r' with hlt | heq | hgt
  · left
    have : (r + 1) * v.recsize ≤ r' * v.recsize := Nat.mul_le_mul_right _ hlt
    omega
  · subst heq
    have hne' : is ≠ is' := by rcases hne with h | h; exact absurd rfl h; exact h
    have hrm : rowMajor (v.shape.drop 1) is ≠ rowMajor (v.shape.drop 1) is' :=
      fun h => hne' (rowMajor_inj _ _ _ hb hb' h)
    unfold elemOff
    simp only [hr, ↓reduceIte, List.headD_cons, List.drop_succ_cons, List.drop_zero]
    rcases scaled_disjoint _ _ v.xsz hrm with h | h <;> omega
  · right
    have : (r' + 1) * v.recsize ≤ r * v.recsize := Nat.mul_le_mul_right _ hgt
    omega

/-! ### round trip through the byte map -/

/-- **put then get**: writing the encoded values of any batch of elements whose byte ranges are
    pairwise disjoint (which `elems_disjoint_*` gives for distinct in-bounds elements of one variable,
    and `begins_wf` for elements of different variables) and reading any of them back returns the
    bytes written; every byte outside the written ranges keeps its previous value.  Together with
    `strideFlatten_offsets` (the offsets used are the specified ones) and C09 (decode ∘ encode = id
    on representable values) this is the blocking round trip for one process. -/
theorem put_get_roundtrip (f : File) (reqs : List (Nat × List UInt8)) (hd : File.pairwiseDisjoint reqs) :
    (∀ r ∈ reqs, File.readAt (File.putElems f reqs) r.1 r.2.length = r.2)
    ∧ (∀ i, (∀ r ∈ reqs, i < r.1 ∨ r.1 + r.2.length ≤ i) → File.putElems f reqs i = f i) :=
  ⟨File.get_put f reqs hd, fun i h => File.putElems_frame f reqs i h⟩

/-- **any decomposition, any order**: two writes to disjoint ranges commute, so a region split across
    processes in any way yields one and the same file -/
theorem disjoint_puts_commute (f : File) (o1 o2 : Nat) (b1 b2 : List UInt8)
    (h : o1 + b1.length ≤ o2 ∨ o2 + b2.length ≤ o1) :
    File.writeAt (File.writeAt f o1 b1) o2 b2 = File.writeAt (File.writeAt f o2 b2) o1 b1 :=
  File.writes_commute f o1 o2 b1 b2 h

example : inBounds [3, 5] [2, 4] ∧ inBounds [3, 5] [0, 0] := by decide

def obligations : List String := [
  "strideFlatten_offsets", "firstOffset_eq", "isReqContig_sound", "elem_inside_fixed", "elems_disjoint_fixed", "elem_inside_rec", "elems_disjoint_rec",
  "put_get_roundtrip", "disjoint_puts_commute"
]
end PnVerif.Props.C01
