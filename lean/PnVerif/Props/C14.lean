import PnVerif.Lemmas.Mode
/-
  C14 — API mode state machine and error precedence.

  Model     PnVerif/Model/Mode.lean   two flag words (dispatcher PNC.flag, driver NC.flags) + what the
                                      mode tests read; `step` transcribes the ORDER of tests of both layers
  Spec      PnVerif/Spec/ModeSpec.lean the documented automaton (define / collective / independent ×
                                      read-only × new) and ONE precedence-ordered rule table
  Tie       checks/c14.py: exhaustive call histories on the real library, raw flag words of both layers
            read back after every call and compared with the model's.

  `cfg : Cfg` says (1) whether `ncmpi_fill_var_rec` returns the error of its own tests (`repaired`) or
  drops it (`pinned`, the source as it is: defect F19) and (2) whether there is more than one process
  (`pinnedMulti`).  Every theorem that does not mention a particular `cfg` holds for all of them.
  Definitions used in the statements (`ModeInv`, `Start`, `specRun`, `droppedCheck`, `flushQuirk`) are
  in Lemmas/Mode.lean.
-/
namespace PnVerif.Props.C14
open PnVerif.Mode PnVerif.ModeSpec PnVerif.ModeLemmas

/-! ## 1. invariants over ALL call histories (any length) -/

set_option maxHeartbeats 4000000 in
/-- one step preserves the invariant (both layers, every API kind, every argument class) -/
theorem inv_step (cfg : Cfg) (s : State) (c : Call) (h : ModeInv s) : ModeInv (step cfg s c).st := by
  by_cases ho : s.opened = true
  · have hc := core_of_inv s h ho
    have bp := h.bp
    have ab := h.ab
    have ro := h.ro ho
    clear h ho
    cases hc
    all_goals (simp only [] at bp ab ro)
    all_goals mode_all ((try mode_simp) <;> first | exact inv_closed | (constructor <;> grind))
  · have : s.opened = false := by simpa using ho
    have hs := h.cl this
    subst hs
    simp [step, closed, ret]
    exact inv_closed

theorem inv_run (cfg : Cfg) (cs : List Call) : ∀ s, ModeInv s → ModeInv (run cfg s cs) := by
  induction cs with
  | nil => intro s h; exact h
  | cons c cs ih => intro s h; exact ih _ (inv_step cfg s c h)

/-- the invariant holds after every history from every start -/
theorem inv_all_histories (cfg : Cfg) (s0 : State) (h0 : Start s0) (cs : List Call) :
    ModeInv (run cfg s0 cs) := by
  apply inv_run
  cases h0 with
  | created r => exact inv_created r
  | opened w r => exact inv_opened w r

/-- `flags_agree`: after any history the dispatcher word and the driver word denote the same mode
    and the same permission — every mode test gives the same answer in both layers. -/
theorem flags_agree (cfg : Cfg) (s0 : State) (h0 : Start s0) (cs : List Call) :
    (run cfg s0 cs).opened = true →
      modeOf (run cfg s0 cs).d = modeOf (run cfg s0 cs).n ∧ (run cfg s0 cs).d.rdonly = (run cfg s0 cs).n.rdonly := by
  have h := inv_all_histories cfg s0 h0 cs
  generalize run cfg s0 cs = s at h ⊢
  intro ho
  have hc := core_of_inv s h ho
  cases hc <;> simp [modeOf]

/-- The bit-for-bit version of `flags_agree` is FALSE of the code (kept visible): -/
def flags_agree_bits_Statement : Prop :=
  ∀ (cfg : Cfg) (s0 : State), Start s0 → ∀ cs : List Call,
    (run cfg s0 cs).opened = true → (run cfg s0 cs).d = (run cfg s0 cs).n

/-- witness: create, enddef, begin_indep_data, redef — ncmpi_redef sets NC_MODE_DEF in PNC.flag
    without clearing NC_MODE_INDEP, while ncmpio_redef leaves independent mode; and NC_MODE_CREATE is
    never cleared in PNC.flag.  (Unobservable through the API: every dispatcher test reads DEF before
    INDEP and nothing reads the dispatcher's CREATE bit — that is `flags_agree` / `matches_spec`.) -/
theorem flags_agree_bits_counterexample : ¬ flags_agree_bits_Statement := by
  intro h
  have := h Cfg.pinned (created true) (Start.created true) [.enddef, .beginIndep, .redef] (by decide)
  revert this
  decide

/-- what does hold bit for bit -/
theorem flags_agree_bits_partial (cfg : Cfg) (s0 : State) (h0 : Start s0) (cs : List Call) :
    (run cfg s0 cs).opened = true →
      (run cfg s0 cs).d.rdonly = (run cfg s0 cs).n.rdonly ∧ (run cfg s0 cs).d.indef = (run cfg s0 cs).n.indef ∧
      ((run cfg s0 cs).n.indef = false → (run cfg s0 cs).d.indep = (run cfg s0 cs).n.indep) ∧
      ((run cfg s0 cs).n.create = true → (run cfg s0 cs).d.create = true) := by
  have h := inv_all_histories cfg s0 h0 cs
  generalize run cfg s0 cs = s at h ⊢
  intro ho
  exact ⟨h.rd ho, h.df ho, h.ind ho, h.dcr ho⟩

/-- `one_mode`: the driver word never has DEF and INDEP together, after any history; with
    `flags_agree` the file is in exactly one of define / collective / independent mode. -/
theorem one_mode (cfg : Cfg) (s0 : State) (h0 : Start s0) (cs : List Call) :
    ¬ ((run cfg s0 cs).n.indef = true ∧ (run cfg s0 cs).n.indep = true) := by
  have h := inv_all_histories cfg s0 h0 cs
  generalize run cfg s0 cs = s at h ⊢
  intro ⟨h1, h2⟩
  by_cases ho : s.opened = true
  · have := h.one ho h1
    simp [h2] at this
  · have : s.opened = false := by simpa using ho
    have hs := h.cl this
    rw [hs] at h1
    simp [closed] at h1

/-- for the dispatcher word alone the statement is false (same witness as above) -/
def one_mode_dispatcher_Statement : Prop :=
  ∀ (cfg : Cfg) (s0 : State), Start s0 → ∀ cs : List Call,
    ¬ ((run cfg s0 cs).d.indef = true ∧ (run cfg s0 cs).d.indep = true)

theorem one_mode_dispatcher_counterexample : ¬ one_mode_dispatcher_Statement := by
  intro h
  exact h Cfg.pinned (created true) (Start.created true) [.enddef, .beginIndep, .redef] (by decide)

/-- the `assert`s of ncmpio_abort and ncmpio__enddef (`ncp->old != NULL` ⇒ not new, in define
    mode) can never fire -/
theorem driver_asserts_hold (cfg : Cfg) (s0 : State) (h0 : Start s0) (cs : List Call) :
    (run cfg s0 cs).old = true → (run cfg s0 cs).n.create = false ∧ (run cfg s0 cs).n.indef = true := by
  have h := inv_all_histories cfg s0 h0 cs
  generalize run cfg s0 cs = s at h ⊢
  intro hold
  by_cases ho : s.opened = true
  · have hc := core_of_inv s h ho
    cases hc <;> simp_all
  · have : s.opened = false := by simpa using ho
    have hs := h.cl this
    rw [hs] at hold
    simp [closed] at hold

/-! ## 2. one step against the documented rule table -/

set_option maxHeartbeats 4000000 in
/-- `matches_spec` (source with the missing return of ncmpi_fill_var_rec put back): in every
    reachable state, for every API kind and argument class, the two-layer model returns exactly
    the code the documented precedence table selects, moves to exactly the documented next mode,
    deletes the file exactly when documented.  Together with `inv_all_histories` this covers
    histories of every length. -/
theorem matches_spec (s : State) (h : ModeInv s) (c : Call) :
    absOut (step Cfg.repaired s c) = specStep (abs s) c := by
  by_cases ho : s.opened = true
  · have hc := core_of_inv s h ho
    clear h
    cases hc <;> mode_all (first | (mode_simp; done) | (mode_simp; grind) | (mode_simp; (repeat' split) <;> simp_all <;> omega))
  · have : s.opened = false := by simpa using ho
    have hs := h.cl this
    subst hs
    simp [step, specStep, abs, absOut, ret, aclosed, closed]

/-- the same statement about the source as it is -/
def matches_spec_pinned_Statement : Prop :=
  ∀ (s : State), ModeInv s → ∀ c : Call, absOut (step Cfg.pinned s c) = specStep (abs s) c

/-- FALSE (defect F19): right after ncmpi_create (define mode) `ncmpi_fill_var_rec` on a record
    variable returns NC_NOERR and writes the file; the documented result is NC_EINDEFINE. -/
theorem matches_spec_pinned_counterexample : ¬ matches_spec_pinned_Statement := by
  intro h
  have := h (created true) (inv_created true) (.fillVarRec .recv)
  revert this
  decide

/-- a second witness, independent data mode: NC_NOERR instead of NC_EINDEP -/
theorem matches_spec_pinned_counterexample_indep :
    (step Cfg.pinned (run Cfg.pinned (created true) [.enddef, .beginIndep]) (.fillVarRec .recv)).err = .noerr ∧
    (specStep (abs (run Cfg.pinned (created true) [.enddef, .beginIndep])) (.fillVarRec .recv)).err = .eindep := by
  decide

/-- and with an invalid varid the unchecked index is dereferenced (no NC code at all) -/
theorem matches_spec_pinned_counterexample_ub :
    (step Cfg.pinned (run Cfg.pinned (created true) [.enddef]) (.fillVarRec .bad)).err = .ub ∧
    (specStep (abs (run Cfg.pinned (created true) [.enddef])) (.fillVarRec .bad)).err = .enotvar := by
  decide

theorem pinned_eq_repaired (s : State) (c : Call) (hc : droppedCheck s c = false) :
    step Cfg.pinned s c = step Cfg.repaired s c := by
  cases c <;> try rfl
  rename_i v
  simp only [droppedCheck, Bool.and_eq_false_iff, bne_eq_false_iff_eq] at hc
  unfold step
  cases hc with
  | inl h => simp [h]
  | inr h => simp [h, Cfg.pinned, Cfg.repaired]

/-- `matches_spec_partial`: the source as it is agrees with the documentation on every call except
    a `ncmpi_fill_var_rec` whose own dispatcher tests found an error (which it then drops). -/
theorem matches_spec_partial (s : State) (h : ModeInv s) (c : Call) (hc : droppedCheck s c = false) :
    absOut (step Cfg.pinned s c) = specStep (abs s) c := by
  rw [pinned_eq_repaired s c hc]
  exact matches_spec s h c

/-- refinement over whole histories (repaired source): running the model and abstracting is the
    same as running the documented automaton (`specRun` = iterate `specStep`) -/
theorem refines_all_histories (s0 : State) (h0 : Start s0) (cs : List Call) :
    abs (run Cfg.repaired s0 cs) = specRun (abs s0) cs := by
  have h : ModeInv s0 := by
    cases h0 with
    | created r => exact inv_created r
    | opened w r => exact inv_opened w r
  clear h0
  induction cs generalizing s0 with
  | nil => rfl
  | cons c cs ih =>
    simp only [run, specRun]
    rw [ih _ (inv_step _ s0 c h)]
    have := congrArg AOut.st (matches_spec s0 h c)
    simp only [absOut] at this
    rw [this]

/-! ## 3. rejected calls have no effect; only mode calls change the mode -/

set_option maxHeartbeats 4000000 in
/-- `rejected_is_noop`: a call answered with a mode / permission / bad-id rejection leaves both
    flag words, the queues and the buffer untouched, reaches no function that writes the file and
    does not delete it.  Holds for the source as it is and for the repaired one. -/
theorem rejected_is_noop (cfg : Cfg) (s : State) (h : ModeInv s) (c : Call)
    (hr : isRejection (step cfg s c).err = true) :
    (step cfg s c).st = s ∧ (step cfg s c).wr = false ∧ (step cfg s c).del = false := by
  by_cases ho : s.opened = true
  · have hc := core_of_inv s h ho
    clear h ho
    cases hc <;> mode_all (first | (revert hr; mode_simp; done) | (revert hr; mode_simp; grind))
  · have : s.opened = false := by simpa using ho
    simp [step, this, ret]

set_option maxHeartbeats 4000000 in
/-- stronger than `rejected_is_noop`: any call that returns an error, other than close and abort
    (which release the ncid whatever they return), has no effect at all — on one process always,
    on several except in the `flushQuirk` situation -/
theorem error_is_noop (cfg : Cfg) (s : State) (h : ModeInv s) (c : Call)
    (hc : c ≠ .close ∧ c ≠ .abort) (hq : flushQuirk cfg s c = false) (he : (step cfg s c).err ≠ .noerr) :
    (step cfg s c).st = s ∧ (step cfg s c).wr = false ∧ (step cfg s c).del = false := by
  by_cases ho : s.opened = true
  · have hcore := core_of_inv s h ho
    clear h ho
    cases hcore <;> mode_all (first | (exfalso; exact hc.1 rfl) | (exfalso; exact hc.2 rfl) | (revert he hq; simp only [flushQuirk]; mode_simp; done) | (revert he hq; simp only [flushQuirk]; mode_simp; grind))
  · have : s.opened = false := by simpa using ho
    simp [step, this, ret]

/-- the full statement for several processes -/
def error_is_noop_multi_Statement : Prop :=
  ∀ (s : State), ModeInv s → ∀ c : Call, c ≠ .close ∧ c ≠ .abort →
    (step Cfg.pinnedMulti s c).err ≠ .noerr →
    (step Cfg.pinnedMulti s c).st = s ∧ (step Cfg.pinnedMulti s c).wr = false

/-- … holds since the `extract_reqs` repair (/repo commit 12532099).  Before it this statement was refuted
    (`error_is_noop_multi_counterexample`: one pending iput, then `ncmpi_put_varn_int_all` with varid
    NC_GLOBAL on 2 processes returned NC_EGLOBAL and had written the pending iput); the same history is
    still replayed on 2 processes on every run and must now leave the request pending. -/
theorem error_is_noop_multi : error_is_noop_multi_Statement := by
  intro s h c hc he
  have := error_is_noop Cfg.pinnedMulti s h c hc rfl he
  exact ⟨this.1, this.2.1⟩

/-- the former witness, now a regression example: the failed call leaves the iput pending and writes nothing -/
example :
    let s := run Cfg.pinnedMulti (openedFile true true) [.post .iput .fixed false false false false]
    (step Cfg.pinnedMulti s (.rw true true .global false false true false)).st = s ∧
    (step Cfg.pinnedMulti s (.rw true true .global false false true false)).wr = false := by decide

set_option maxHeartbeats 4000000 in
/-- on several processes the model still meets the documented table everywhere else -/
theorem matches_spec_multi (s : State) (h : ModeInv s) (c : Call) (hq : flushQuirk ⟨true, true⟩ s c = false) :
    absOut (step ⟨true, true⟩ s c) = specStep (abs s) c := by
  by_cases ho : s.opened = true
  · have hc := core_of_inv s h ho
    clear h
    cases hc <;> mode_all (first | (revert hq; simp only [flushQuirk]; mode_simp; done) | (revert hq; simp only [flushQuirk]; mode_simp; grind) | (revert hq; simp only [flushQuirk]; mode_simp; (repeat' split) <;> simp_all <;> omega))
  · have : s.opened = false := by simpa using ho
    have hs := h.cl this
    subst hs
    simp [step, specStep, abs, absOut, ret, aclosed, closed]

set_option maxHeartbeats 4000000 in
/-- `mode_changes_only_by`: apart from enddef, _enddef, redef, begin/end_indep_data, close and abort
    no API touches the mode bits of either layer, the open/closed status or `ncp->old`. -/
theorem mode_changes_only_by (cfg : Cfg) (s : State) (h : ModeInv s) (c : Call) (hm : isModeCall c = false) :
    (step cfg s c).st.d = s.d ∧ (step cfg s c).st.n = s.n ∧
    (step cfg s c).st.opened = s.opened ∧ (step cfg s c).st.old = s.old := by
  by_cases ho : s.opened = true
  · have hcore := core_of_inv s h ho
    clear h ho
    cases hcore <;> mode_all (first | (exfalso; revert hm; decide) | (exfalso; simp [isModeCall] at hm; done) | (mode_simp; done) | (mode_simp; grind))
  · have : s.opened = false := by simpa using ho
    simp [step, this, ret]

/-- and at the level of the documentation: only those calls change (mode, opened) -/
theorem spec_mode_changes_only_by (a : AState) (c : Call) (hm : isModeCall c = false) :
    (specStep a c).st.mode = a.mode ∧ (specStep a c).st.opened = a.opened ∧
    (specStep a c).st.rdonly = a.rdonly ∧ (specStep a c).st.isNew = a.isNew := by
  cases c
  all_goals try cases ‹PostKind›
  all_goals first | (exfalso; revert hm; decide) | (exfalso; simp [isModeCall] at hm; done) | skip
  all_goals (simp only [specStep]; split <;> try simp)
  all_goals (split <;> simp [effect])
  all_goals try (split <;> simp)

/-- the size the implementation compares in the data-mode guard of put_att / copy_att
    (`x_len_NC_attrV`) is the format's "values padded to 4 bytes", for every type class and count -/
theorem attr_space_is_padded_size (t : XT) (n : Nat) : xlen t n = headerBytes t n := xlen_eq_headerBytes t n

/-! ## 4. non-vacuity: concrete instances meeting the hypotheses -/

example : ModeInv (created true) := inv_created true
example : ModeInv (run Cfg.pinned (openedFile true true) [.beginIndep, .redef, .post .iput .recv false false false false]) :=
  inv_all_histories _ _ (Start.opened true true) _
-- a reachable state with the stale dispatcher INDEP bit, and what a collective put says there
example : (run Cfg.pinned (created true) [.enddef, .beginIndep, .redef]).d = ⟨false, true, true, true⟩ ∧
          (run Cfg.pinned (created true) [.enddef, .beginIndep, .redef]).n = ⟨false, true, false, false⟩ := by decide
example : (step Cfg.pinned (run Cfg.pinned (created true) [.enddef, .beginIndep, .redef])
            (.rw true true .fixed false false false false)).err = .eindefine := by decide
-- precedence: read-only file in collective mode, independent put of text into an int variable at a bad start
example : (step Cfg.pinned (openedFile false true) (.rw true false .fixed true true false false)).err = .eperm := by decide
example : (step Cfg.pinned (openedFile true true) (.rw true false .fixed true true false false)).err = .enotindep := by decide
example : (step Cfg.pinned (run Cfg.pinned (openedFile true true) [.beginIndep]) (.rw true false .fixed true true false false)).err
            = .echar := by decide
-- a rejection in the sense of `rejected_is_noop`, and a call `matches_spec_partial` applies to
example : isRejection (step Cfg.pinned (openedFile false true) .redef).err = true := by decide
example : droppedCheck (run Cfg.pinned (created true) [.enddef]) (.fillVarRec .recv) = false := by decide
example : droppedCheck (created true) (.fillVarRec .recv) = true := by decide
-- close in define mode performs enddef; abort of a new file deletes it; pending request at close
example : (step Cfg.pinned (created true) .abort).del = true := by decide
example : (step Cfg.pinned (run Cfg.pinned (created true) [.post .iput .recv false false false false]) .close).err = .epending := by
  decide

-- "needs more header space" in data mode (collective, writable): wider type with the same count is refused,
-- wider type with fewer elements that still needs more bytes is refused, a narrower type with more elements
-- in the same space is accepted, 3 -> 4 chars stays inside the padded word and is accepted, 4 -> 5 is not
example : (step Cfg.repaired (openedFile true true) (.putAtt .global false false false false true .x4 1 .x8 1)).err
            = .enotindefine := by decide
example : (step Cfg.repaired (openedFile true true) (.putAtt .global false false false false true .x4 3 .x8 2)).err
            = .enotindefine := by decide
example : (step Cfg.repaired (openedFile true true) (.putAtt .global false false false false true .x4 2 .x2 3)).err
            = .noerr := by decide
example : (step Cfg.repaired (openedFile true true) (.putAtt .global false false false false true .x1 3 .x1 4)).err
            = .noerr := by decide
example : (step Cfg.repaired (openedFile true true) (.putAtt .global false false false false true .x1 4 .x1 5)).err
            = .enotindefine := by decide
example : (step Cfg.repaired (openedFile true true) (.renameAtt .global false true false 2 3)).err = .enotindefine := by decide
example : (step Cfg.repaired (openedFile true true) (.renameAtt .global false true false 3 2)).err = .noerr := by decide

-- zero-length requests: the permission and mode tests still come first; varn with num == 0 then skips the
-- coordinate tests (and, for bput_varn, the attached-buffer test), a zero in count[] does not; nothing is
-- written or queued
example : (step Cfg.repaired (created true) (.rw true false .fixed false false true true)).err = .eindefine := by decide
example : (step Cfg.repaired (openedFile false true) (.rw true true .fixed false false true true)).err = .eperm := by decide
example : (step Cfg.repaired (openedFile true true) (.rw true false .fixed false false true true)).err = .enotindep := by decide
example : (step Cfg.repaired (openedFile true true) (.rw true true .fixed false true true true)).err = .noerr ∧
          (step Cfg.repaired (openedFile true true) (.rw true true .fixed false true true true)).wr = false := by decide
example : (step Cfg.repaired (openedFile true true) (.rw true true .fixed false true false true)).err = .einvalcoords := by decide
example : step Cfg.repaired (openedFile true true) (.post .bput .fixed false false true true)
            = ret (openedFile true true) .noerr := by decide
example : (step Cfg.repaired (openedFile true true) (.post .bput .fixed false false false true)).err = .enullabuf := by decide

def obligations : List String := [
  "inv_step", "inv_all_histories", "flags_agree", "flags_agree_bits_counterexample", "flags_agree_bits_partial",
  "one_mode", "one_mode_dispatcher_counterexample", "driver_asserts_hold",
  "matches_spec", "matches_spec_pinned_counterexample", "matches_spec_pinned_counterexample_indep",
  "matches_spec_pinned_counterexample_ub", "pinned_eq_repaired", "matches_spec_partial",
  "refines_all_histories", "rejected_is_noop", "error_is_noop", "error_is_noop_multi",
  "matches_spec_multi", "mode_changes_only_by",
  "spec_mode_changes_only_by", "attr_space_is_padded_size"
]
end PnVerif.Props.C14
