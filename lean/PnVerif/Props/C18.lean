import PnVerif.Lemmas.SizeLemmas
import PnVerif.Lemmas.ScsLemmas
/-
  C18 — format size limits are enforced exactly, and large offsets are addressed correctly.

  Model: Model/SizeLimits.lean (literal transcription of ncmpi_def_dim's size test,
  ncmpio_NC_check_vlen, ncmpio_NC_var_shape64, ncmpio_NC_check_vlens, NC_begins for a new file,
  the vsize saturation of hdr_put_NC_var).  Spec: Spec/SizeRules.lean (format document).
  Tie to the source: checks/c18.py runs the real library through its public API on the same
  definitions as the Lean driver (Driver/C18.lean) and writes/reads single elements of sparse
  files on both sides of 2^31 and 2^32 bytes.

  Guards used below, facts about every reachable call:
    * fmt ∈ {1, 2, 5}
    * `WF v` : element size 1..8, every fixed dimension ≥ 1 (length 0 = NC_UNLIMITED is only
      legal as the record dimension, NC_EUNLIMPOS otherwise)
    * `l.beginVar % 4 = 0` : the header extent is D_RNDUP(.., h_align) and ncmpio__enddef rounds
      h_align up to a multiple of 4
-/
namespace PnVerif.Props.C18
open PnVerif.SizeLimits PnVerif.Spec.SizeRules

/-- `ncmpi_def_dim` accepts a length exactly when the format can store it; otherwise NC_EDIMSIZE -/
theorem defdim_iff (fmt : Nat) (size : Int) (hf : fmt = 1 ∨ fmt = 2 ∨ fmt = 5) :
    (defDim fmt size = NC_NOERR ↔ DimOK fmt size) ∧
    (defDim fmt size = NC_NOERR ∨ defDim fmt size = NC_EDIMSIZE) := by
  unfold defDim DimOK NC_NOERR NC_EDIMSIZE NC_MAX_INT
  rcases hf with rfl | rfl | rfl <;> simp <;> (repeat' split) <;> omega

/-- the division test of ncmpio_NC_check_vlen decides `bytes ≤ vlen_max` exactly … -/
theorem checkVlen_exact (v : Var) (m : Nat) (hw : WF v) (hm : 8 ≤ m) :
    checkVlen v m = true ↔ vbytes v ≤ m := checkVlen_iff v m hw hm

/-- … and never computes a product above vlen_max (so, with vlen_max < 2^63, never overflows
    MPI_Offset): part 1 of `no_overflow` -/
theorem checkVlen_no_overflow (v : Var) (m : Nat) (hw : WF v) :
    ∀ x ∈ vlenProducts m v.xsz v.dims, x ≤ m := vlenProducts_bounded m v.dims v.xsz hw.1 hw.2.2

/-- `ncmpi_def_var` (ncmpio_NC_var_shape64) accepts exactly the variables whose padded size fits
    a signed 64-bit field, rejects the others with NC_EVARSIZE, and the `len` it stores is the
    padded size, below 2^63: part 2 of `no_overflow` -/
theorem defvar_iff (v : Var) (hw : WF v) :
    ((defVar v).1 = NC_NOERR ↔ vsize v ≤ 9223372036854775804) ∧
    ((defVar v).1 = NC_NOERR ∨ (defVar v).1 = NC_EVARSIZE) ∧
    ((defVar v).1 = NC_NOERR → (defVar v).2 = vsize v ∧ (defVar v).2 < 9223372036854775808) := by
  have h := checkVlen_iff v (X_INT64_MAX - 3) hw (by decide)
  have hx : X_INT64_MAX - 3 = 9223372036854775804 := by decide
  rw [hx] at h
  unfold defVar
  rw [hx]
  cases hc : checkVlen v 9223372036854775804
  · have : ¬ vbytes v ≤ 9223372036854775804 := fun hle => by rw [h.mpr hle] at hc; cases hc
    have hv : ¬ vsize v ≤ 9223372036854775804 := by unfold vsize pad4; omega
    simp [hv, NC_EVARSIZE, NC_NOERR]
  · have := h.mp hc
    have hv : vsize v ≤ 9223372036854775804 := by unfold vsize pad4; omega
    simp only [Bool.not_true, Bool.false_eq_true, if_false, true_iff, true_or, true_and, forall_const]
    exact ⟨hv, varLen_eq v, by rw [varLen_eq]; omega⟩

/-- **ncmpio_NC_check_vlens accepts exactly the definitions that satisfy the format's size rules**
    (at most the last fixed-size variable oversized and then no record variable; at most the last
    record variable oversized; nothing oversized in CDF-5) and otherwise returns NC_EVARSIZE -/
theorem check_vlens_iff_rules (fmt : Nat) (vars : List Var) (hf : fmt = 1 ∨ fmt = 2 ∨ fmt = 5)
    (hw : ∀ v ∈ vars, WF v) :
    (checkVlens fmt vars = NC_NOERR ↔ SizeRules fmt vars) ∧
    (checkVlens fmt vars = NC_NOERR ∨ checkVlens fmt vars = NC_EVARSIZE) :=
  checkVlens_iff fmt vars hf hw

/-- **Leaving define mode succeeds exactly when the size rules and (CDF-1) the 2 GiB rule for
    variable offsets hold; otherwise the error is NC_EVARSIZE.** -/
theorem accept_iff_rules (fmt : Nat) (l : Lay) (vars : List Var) (hf : fmt = 1 ∨ fmt = 2 ∨ fmt = 5)
    (hw : ∀ v ∈ vars, WF v) (h4 : l.beginVar % 4 = 0) :
    ((enddef fmt l vars).1 = NC_NOERR ↔ SizeRules fmt vars ∧ BeginRule fmt l vars) ∧
    ((enddef fmt l vars).1 = NC_NOERR ∨ (enddef fmt l vars).1 = NC_EVARSIZE) := by
  have hne : ¬ (NC_EVARSIZE = NC_NOERR) := by decide
  obtain ⟨hiff, hcodes⟩ := checkVlens_iff fmt vars hf hw
  have hb := ncBegins_none_iff fmt l vars h4
  have hbr := beginRule_iff fmt l vars
  unfold enddef
  by_cases hc : checkVlens fmt vars = NC_NOERR
  · simp only [hc, ne_eq, not_true_eq_false, if_false]
    have hsr := hiff.mp hc
    cases hn : ncBegins fmt l vars with
    | none =>
      have := hb.mp hn
      simp only [hne, false_iff, or_true, and_true]
      intro ⟨_, h⟩; exact (hbr.mp h) this
    | some b =>
      have : ¬ (fmt = 1 ∧ (RunExceeds NC_MAX_INT l.beginVar (fixedVars vars) ∨
          RunExceeds NC_MAX_INT (recSection l vars) (recVars vars))) := by
        intro h; rw [hb.mpr h] at hn; cases hn
      simp only [true_iff, true_or, and_true]
      exact ⟨hsr, hbr.mpr this⟩
  · have he : checkVlens fmt vars = NC_EVARSIZE := by rcases hcodes with h | h; exact absurd h hc; exact h
    simp only [he, ne_eq, hne, not_false_eq_true, if_true, false_iff, or_true, and_true]
    intro ⟨h, _⟩; rw [hiff.mpr h] at he; exact hne he.symm

/-- for an accepted definition the begins NC_begins assigns are the specified ones: fixed
    variables one after the other from the header extent, record variables one after the other
    from the (aligned) record section -/
theorem begins_spec (fmt : Nat) (l : Lay) (vars : List Var) (h4 : l.beginVar % 4 = 0) (b : Begins)
    (h : (enddef fmt l vars).2 = some b) :
    b.fixed = (List.range (fixedVars vars).length).map (fixedBegin l vars) ∧
    b.recs = (List.range (recVars vars).length).map (recBegin l vars) ∧
    b.beginRec = recSection l vars := by
  unfold enddef at h
  by_cases hc : checkVlens fmt vars = NC_NOERR
  · simp only [hc, ne_eq, not_true_eq_false, if_false] at h
    cases hn : ncBegins fmt l vars with
    | none => simp [hn] at h
    | some b' =>
      simp only [hn, Option.some.injEq] at h
      subst h
      exact ncBegins_some fmt l vars h4 b' hn
  · simp [hc] at h

/-- CDF-1: every begin of an accepted definition fits the signed 32-bit field (so the
    `NC_EINTOVERFLOW` test of hdr_put_NC_var can never fire) -/
theorem cdf1_begins_fit (l : Lay) (vars : List Var) (hw : ∀ v ∈ vars, WF v) (h4 : l.beginVar % 4 = 0)
    (hacc : (enddef 1 l vars).1 = NC_NOERR) :
    (∀ k, k < (fixedVars vars).length → fixedBegin l vars k < 2147483648) ∧
    (∀ k, k < (recVars vars).length → recBegin l vars k < 2147483648) :=
  ((accept_iff_rules 1 l vars (Or.inl rfl) hw h4).1.mp hacc).2 rfl

/-! ### no overflow — the full claim is FALSE of the code for CDF-5 -/

/-- end of the first record = the largest offset NC_begins computes -/
def fileEnd (l : Lay) (vars : List Var) : Nat := recSection l vars + sumLens (recVars vars)

/-- the claim as it should hold: for every definition the library accepts (every def_var and the
    enddef succeed), every offset NC_begins computes is below 2^63, i.e. representable in
    MPI_Offset / in the non-negative 64-bit `begin` field of the file -/
def no_overflow_Statement : Prop :=
  ∀ (fmt : Nat) (l : Lay) (vars : List Var), (fmt = 1 ∨ fmt = 2 ∨ fmt = 5) → (∀ v ∈ vars, WF v) →
    l.beginVar % 4 = 0 → l.beginVar < 2147483648 → l.vMinfree = 0 → l.rAlign = 4 →
    (∀ v ∈ vars, (defVar v).1 = NC_NOERR) → (enddef fmt l vars).1 = NC_NOERR →
    fileEnd l vars < 9223372036854775808

/-- NEW finding: CDF-5, header extent 512, three NC_BYTE variables over one dimension of 2^62 -/
def ovfVars : List Var :=
  [{ xsz := 1, isRec := false, dims := [4611686018427387904] },
   { xsz := 1, isRec := false, dims := [4611686018427387904] },
   { xsz := 1, isRec := false, dims := [4611686018427387904] }]
def ovfLay : Lay := { beginVar := 512, vMinfree := 0, rAlign := 4 }

theorem ovf_accepted : (enddef 5 ovfLay ovfVars).1 = NC_NOERR := by decide
theorem ovf_third_begin : fixedBegin ovfLay ovfVars 2 = 9223372036854776320 := by decide

theorem no_overflow_counterexample : ¬ no_overflow_Statement := by
  intro h
  have := h 5 ovfLay ovfVars (by decide) (by decide) (by decide) (by decide) rfl rfl (by decide) ovf_accepted
  revert this
  decide

/-- **what does hold**: every begin and every end of a variable is at most `fileEnd`, so the single
    extra hypothesis "the data section of one record ends below 2^63" bounds every quantity
    NC_begins computes.  Together with `checkVlen_no_overflow` and `defvar_iff` this is the
    no-overflow claim; what is missing in the code is exactly a test of `fileEnd` (the sum of the
    variable sizes) against NC_MAX_INT64 in NC_begins. -/
theorem no_overflow_partial (l : Lay) (vars : List Var)
    (hend : fileEnd l vars < 9223372036854775808) :
    (∀ k, l.beginVar + sumLens ((fixedVars vars).take k) < 9223372036854775808) ∧
    (∀ k, recSection l vars + sumLens ((recVars vars).take k) < 9223372036854775808) ∧
    recSection l vars < 9223372036854775808 := by
  unfold fileEnd at hend
  have h1 := le_recSection l vars
  refine ⟨fun k => ?_, fun k => ?_, by omega⟩
  · have := sumLens_take_le (fixedVars vars) k; omega
  · have := sumLens_take_le (recVars vars) k; omega

/-! ### the REPAIRED NC_begins (patch C18-begins-overflow.diff) satisfies the full claim -/

/-- the additional rule the repaired code enforces: the data section (of one record) ends at an
    offset representable in MPI_Offset -/
def EndRule (l : Lay) (vars : List Var) : Prop := fileEnd l vars ≤ 9223372036854775807

/-- repaired enddef: accepts exactly when the size rules, the CDF-1 begin rule and the end rule hold;
    otherwise NC_EVARSIZE -/
theorem accept_iff_rules_repaired (fmt : Nat) (l : Lay) (vars : List Var) (hf : fmt = 1 ∨ fmt = 2 ∨ fmt = 5)
    (hw : ∀ v ∈ vars, WF v) (h4 : l.beginVar % 4 = 0) (hb : l.beginVar ≤ 9223372036854775807) :
    ((enddefG fmt l vars).1 = NC_NOERR ↔ SizeRules fmt vars ∧ BeginRule fmt l vars ∧ EndRule l vars) ∧
    ((enddefG fmt l vars).1 = NC_NOERR ∨ (enddefG fmt l vars).1 = NC_EVARSIZE) := by
  have hne : ¬ (NC_EVARSIZE = NC_NOERR) := by decide
  obtain ⟨hiff, hcodes⟩ := checkVlens_iff fmt vars hf hw
  have hbn := ncBeginsG_none_iff fmt l vars h4 hb
  have hbr := beginRule_iff fmt l vars
  have hend : EndRule l vars ↔ ¬ recSection l vars + sumLens (recVars vars) > NC_MAX_INT64 := by
    unfold EndRule fileEnd NC_MAX_INT64; omega
  unfold enddefG
  by_cases hc : checkVlens fmt vars = NC_NOERR
  · simp only [hc, ne_eq, not_true_eq_false, if_false]
    have hsr := hiff.mp hc
    cases hn : ncBeginsG fmt l vars with
    | none =>
      simp only [hne, false_iff, or_true, and_true]
      intro ⟨_, h2, h3⟩
      rcases hbn.mp hn with h | h
      · exact (hbr.mp h2) h
      · exact (hend.mp h3) h
    | some b =>
      have hnn : ¬ ((fmt = 1 ∧ (RunExceeds NC_MAX_INT l.beginVar (fixedVars vars) ∨
          RunExceeds NC_MAX_INT (recSection l vars) (recVars vars))) ∨
          recSection l vars + sumLens (recVars vars) > NC_MAX_INT64) := by
        intro h; rw [hbn.mpr h] at hn; cases hn
      simp only [true_iff, true_or, and_true]
      exact ⟨hsr, hbr.mpr (fun h => hnn (Or.inl h)), hend.mpr (fun h => hnn (Or.inr h))⟩
  · have he : checkVlens fmt vars = NC_EVARSIZE := by rcases hcodes with h | h; exact absurd h hc; exact h
    simp only [he, ne_eq, hne, not_false_eq_true, if_true, false_iff, or_true, and_true]
    intro ⟨h, _⟩; rw [hiff.mpr h] at he; exact hne he.symm

/-- repaired code: **every definition it accepts has all offsets below 2^63** — the statement that
    is false of the original code (`no_overflow_counterexample`) holds without extra hypothesis -/
theorem no_overflow_repaired (fmt : Nat) (l : Lay) (vars : List Var) (hf : fmt = 1 ∨ fmt = 2 ∨ fmt = 5)
    (hw : ∀ v ∈ vars, WF v) (h4 : l.beginVar % 4 = 0) (hb : l.beginVar ≤ 9223372036854775807)
    (hacc : (enddefG fmt l vars).1 = NC_NOERR) :
    fileEnd l vars < 9223372036854775808 ∧
    (∀ k, l.beginVar + sumLens ((fixedVars vars).take k) < 9223372036854775808) ∧
    (∀ k, recSection l vars + sumLens ((recVars vars).take k) < 9223372036854775808) := by
  have h := ((accept_iff_rules_repaired fmt l vars hf hw h4 hb).1.mp hacc).2.2
  unfold EndRule at h
  have hlt : fileEnd l vars < 9223372036854775808 := by omega
  exact ⟨hlt, (no_overflow_partial l vars hlt).1, (no_overflow_partial l vars hlt).2.1⟩

/-- repaired code assigns the same (specified) begins as the original whenever it accepts -/
theorem begins_spec_repaired (fmt : Nat) (l : Lay) (vars : List Var) (h4 : l.beginVar % 4 = 0)
    (hb : l.beginVar ≤ 9223372036854775807) (b : Begins) (h : (enddefG fmt l vars).2 = some b) :
    b.fixed = (List.range (fixedVars vars).length).map (fixedBegin l vars) ∧
    b.recs = (List.range (recVars vars).length).map (recBegin l vars) ∧
    b.beginRec = recSection l vars := by
  unfold enddefG at h
  by_cases hc : checkVlens fmt vars = NC_NOERR
  · simp only [hc, ne_eq, not_true_eq_false, if_false] at h
    cases hn : ncBeginsG fmt l vars with
    | none => simp [hn] at h
    | some b' =>
      simp only [hn, Option.some.injEq] at h
      subst h
      exact ncBeginsG_some fmt l vars h4 hb b' hn
  · simp [hc] at h

/-- the witness of the finding is rejected by the repaired code, a definition that fits is not -/
example : (enddefG 5 ovfLay ovfVars).1 = NC_EVARSIZE := by decide
example : (enddefG 5 ovfLay (ovfVars.take 1)).1 = NC_NOERR := by decide

/-- the vsize field written for CDF-1/2 always fits 32 bits; it is the exact size up to 2^32-4 and
    the conventional 2^32-1 above -/
theorem vsize_field_ok (fmt len : Nat) (hf : fmt < 5) :
    vsizeField fmt len < 4294967296 ∧ (len ≤ 4294967292 → vsizeField fmt len = len) ∧
    (len > 4294967292 → vsizeField fmt len = 4294967295) := by
  unfold vsizeField
  simp only [hf, if_true]
  split <;> omega

/-- **large offsets**: the offset of an in-range element is `begin + (row-major index)·xsz` and
    lies inside the variable, for extents and indices of any size — nothing in the addressing
    theorem of C15 is bounded by 2^31 or 2^32 -/
theorem large_offsets_correct (v : PnVerif.Scs.VarLayout) (idx : List Nat) (hv : v.isRec = false)
    (hb : PnVerif.Scs.Below v.shape idx) :
    PnVerif.Scs.elemOffset v idx = v.begin + PnVerif.Scs.rowMajor v.shape idx * v.xsz ∧
    PnVerif.Scs.elemOffset v idx + v.xsz ≤ v.begin + PnVerif.Scs.prodl v.shape * v.xsz := by
  have hlt := PnVerif.Scs.rowMajor_lt _ _ hb
  unfold PnVerif.Scs.elemOffset
  simp only [hv, Bool.false_eq_true, if_false, true_and]
  have : (PnVerif.Scs.rowMajor v.shape idx + 1) * v.xsz ≤ PnVerif.Scs.prodl v.shape * v.xsz :=
    Nat.mul_le_mul_right _ hlt
  rw [Nat.add_mul] at this
  omega

/-! ### non-vacuity -/

/-- CDF-2: two small variables, then an oversized last fixed variable (8 × 536870912 bytes = 2^32) -/
def exVars : List Var :=
  [{ xsz := 4, isRec := false, dims := [10] }, { xsz := 8, isRec := false, dims := [3, 5] },
   { xsz := 1, isRec := false, dims := [8, 536870912] }]
def exLay : Lay := { beginVar := 512, vMinfree := 0, rAlign := 4 }

example : (∀ v ∈ exVars, WF v) ∧ exLay.beginVar % 4 = 0 := by decide
example : (enddef 2 exLay exVars).1 = NC_NOERR := by decide
example : SizeRules 2 exVars ∧ Big 2 { xsz := 1, isRec := false, dims := [8, 536870912] } := by decide
example : (enddef 2 exLay (exVars ++ [{ xsz := 4, isRec := true, dims := [] }])).1 = NC_EVARSIZE := by decide
example : (enddef 1 exLay [{ xsz := 1, isRec := false, dims := [2147483643] }, { xsz := 1, isRec := false, dims := [10] }]).1
    = NC_EVARSIZE := by decide
example : fileEnd exLay exVars < 9223372036854775808 := by decide
/-- an element beyond 4 GiB: byte [7][536870911] of an 8 × 536870912 variable at begin 672 -/
example : PnVerif.Scs.elemOffset { begin := 672, xsz := 1, recsize := 0, isRec := false, shape := [8, 536870912] }
    [7, 536870911] = 4294967967 := by decide

def obligations : List String := [
  "defdim_iff", "checkVlen_exact", "checkVlen_no_overflow", "defvar_iff", "check_vlens_iff_rules",
  "accept_iff_rules", "begins_spec", "cdf1_begins_fit",
  "ovf_accepted", "ovf_third_begin", "no_overflow_counterexample", "no_overflow_partial",
  "accept_iff_rules_repaired", "no_overflow_repaired", "begins_spec_repaired",
  "vsize_field_ok", "large_offsets_correct"
]
end PnVerif.Props.C18
