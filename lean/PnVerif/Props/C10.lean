import PnVerif.Model.Hints
import PnVerif.Base.File
/-
  C10 — hints, process count and execution modes never change results (the part that is logic).

  1. File content does not depend on how a set of disjoint writes is divided among processes nor on
     the order in which they land: `putElems_perm`, `putElems_append` (any permutation / any split of
     a pairwise-disjoint batch gives the same byte map).  With C01's `strideFlatten_offsets` and
     `elems_disjoint_*` this is "any number of processes and how they divide the work".
  2. The alignment settings the library reports are the ones in force and obey the documented
     precedence: theorems about `resolveAlign` (literal transcription of ncmpio__enddef).
  Everything else of C10 (swap in place, packing buffer, hash sizes, aggregation, safe mode) is
  decided differentially between configurations by checks/c10.py and labelled so in the evidence.
-/
namespace PnVerif.Props.C10
open PnVerif PnVerif.File PnVerif.Hints

/-- byte ranges of two writes do not overlap -/
def disj (a b : Nat × List UInt8) : Prop := a.1 + a.2.length ≤ b.1 ∨ b.1 + b.2.length ≤ a.1

theorem disj_symm : ∀ {a b}, disj a b → disj b a := by
  intro a b h; unfold disj at *; omega

theorem putElems_cons (f : File) (r : Nat × List UInt8) (l : List (Nat × List UInt8)) :
    putElems f (r :: l) = putElems (writeAt f r.1 r.2) l := rfl

theorem putElems_append (f : File) (a b : List (Nat × List UInt8)) :
    putElems f (a ++ b) = putElems (putElems f a) b := by
  unfold putElems; rw [List.foldl_append]

/-- **decomposition / schedule independence**: a pairwise-disjoint batch of writes produces the
    same file in every order (hence for every assignment of the pieces to processes and every
    interleaving of the processes). -/
theorem putElems_perm (f : File) (l1 l2 : List (Nat × List UInt8)) (hp : l1.Perm l2)
    (hd : l1.Pairwise disj) : putElems f l1 = putElems f l2 := by
  induction hp generalizing f with
  | nil => rfl
  | cons x _ ih =>
    rw [putElems_cons, putElems_cons]
    exact ih _ (List.Pairwise.of_cons hd)
  | swap x y l =>
    rw [putElems_cons, putElems_cons, putElems_cons, putElems_cons]
    have hxy : disj y x := (List.pairwise_cons.mp hd).1 x (List.mem_cons_self)
    rw [writes_commute f y.1 x.1 y.2 x.2 hxy]
  | trans p1 _ ih1 ih2 =>
    rw [ih1 f hd]
    exact ih2 f ((List.Perm.pairwise_iff (fun h => disj_symm h) p1).mp hd)

/-- splitting one batch into the pieces written by different processes changes nothing -/
theorem split_any_way (f : File) (whole : List (Nat × List UInt8)) (pieces : List (List (Nat × List UInt8)))
    (hp : whole.Perm pieces.flatten) (hd : whole.Pairwise disj) :
    putElems f whole = pieces.foldl putElems f := by
  rw [putElems_perm f whole pieces.flatten hp hd]
  clear hp hd
  induction pieces generalizing f with
  | nil => rfl
  | cons p ps ih =>
    rw [List.flatten_cons, putElems_append, List.foldl_cons]
    exact ih _

example : putElems empty [(4, [1, 2]), (0, [9])] = putElems empty [(0, [9]), (4, [1, 2])] :=
  putElems_perm _ _ _ (List.Perm.swap _ _ _) (by simp [disj])

/-! ### alignment precedence -/

theorem rndup4_mult (x : Nat) : rndup4 x % 4 = 0 := by unfold rndup4; omega
theorem rndup4_ge (x : Nat) : x ≤ rndup4 x := by unfold rndup4; omega
theorem rndup4_lt (x : Nat) : rndup4 x < x + 4 := by unfold rndup4; omega
theorem rndup4_pos (x : Nat) (h : 0 < x) : 0 < rndup4 x := by unfold rndup4; omega

/-- every alignment in force is a positive multiple of 4 (all CDF formats need 4-byte alignment) -/
theorem fin4_spec (x : Nat) : fin4 x % 4 = 0 ∧ 0 < fin4 x := by
  unfold fin4
  split
  · constructor <;> omega
  · exact ⟨rndup4_mult _, rndup4_pos _ (by omega)⟩

theorem resolve_mult4 (i : AlignIn) :
    let o := resolveAlign i
    (o.h % 4 = 0 ∧ 0 < o.h) ∧ (o.v % 4 = 0 ∧ 0 < o.v) ∧ (o.r % 4 = 0 ∧ 0 < o.r) := by
  simp only [resolveAlign]
  exact ⟨fin4_spec _, fin4_spec _, fin4_spec _⟩

/-- documented precedence 1/2 over 3: a hint (environment or info object) beats the ncmpi__enddef
    argument, whatever the argument is -/
theorem hint_beats_argument (i : AlignIn) (a a' b b' : Nat) :
    (0 < i.envV → (resolveAlign { i with argV := a, argR := b }).v = (resolveAlign { i with argV := a', argR := b' }).v)
    ∧ (0 < i.envR → (resolveAlign { i with argV := a, argR := b }).r = (resolveAlign { i with argV := a', argR := b' }).r)
    ∧ (0 < i.envH → (resolveAlign { i with argV := a, argR := b }).h = (resolveAlign { i with argV := a', argR := b' }).h) := by
  refine ⟨?_, ?_, ?_⟩ <;> intro h <;> simp only [resolveAlign] <;> (have : ¬ (i.envV = 0) ∨ True := Or.inr trivial) <;>
    simp [Nat.ne_of_gt h]

/-- precedence 3 over 4: without a hint the argument is used (rounded up to 4) -/
theorem argument_used (i : AlignIn) (hv : i.envV = 0) (ha : 0 < i.argV) :
    (resolveAlign i).v = rndup4 i.argV := by
  simp [resolveAlign, fin4, hv, Nat.ne_of_gt ha, ha]

/-- precedence 4: no hint, no argument → 4 for v_align and r_align; 512 for the header of a NEW file,
    and no forced header alignment when an existing file is redefined (it could grow the file) -/
theorem defaults (numFix : Nat) :
    resolveAlign { envH := 0, envV := 0, envR := 0, argV := 0, argR := 0, numFixVars := numFix, isRedef := false }
      = { h := 512, v := 4, r := 4 }
    ∧ resolveAlign { envH := 0, envV := 0, envR := 0, argV := 0, argR := 0, numFixVars := numFix, isRedef := true }
      = { h := 4, v := 4, r := 4 } := by
  constructor <;> simp [resolveAlign, fin4, FILE_ALIGNMENT_DEFAULT, rndup4]

/-- the value in force differs from what the user asked for by less than 4 (only the rounding) -/
theorem hint_honoured (i : AlignIn) (h : 0 < i.envV) :
    i.envV ≤ (resolveAlign i).v ∧ (resolveAlign i).v < i.envV + 4 := by
  simp only [resolveAlign, fin4, Nat.ne_of_gt h, ↓reduceIte]
  exact ⟨rndup4_ge _, rndup4_lt _⟩

example : resolveAlign { envH := 0, envV := 0, envR := 0, argV := 1000, argR := 0, numFixVars := 2, isRedef := false }
    = { h := 1000, v := 1000, r := 4 } := by decide
example : resolveAlign { envH := 0, envV := 0, envR := 6, argV := 0, argR := 100, numFixVars := 0, isRedef := false }
    = { h := 8, v := 4, r := 8 } := by decide

def obligations : List String := [
  "putElems_perm", "split_any_way", "putElems_append", "resolve_mult4", "hint_beats_argument", "argument_used",
  "defaults", "hint_honoured"
]
end PnVerif.Props.C10
