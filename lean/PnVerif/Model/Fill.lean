import PnVerif.Model.Redef
/-
  C16 — executable model of the filling code of src/drivers/ncmpio/ncmpio_fill.c:
  the per-process share arithmetic, the segment list ("plan") that `fillerup_aggregate` turns into
  the hindexed file view of its single collective write, the write of `fill_var_rec`, the default
  fill bytes, and the fill-mode bookkeeping of `ncmpio_set_fill` / `ncmpio_def_var_fill` /
  `ncmpio_def_var` (src/drivers/ncmpio/ncmpio_var.c).

  Hand transcription; tied to the source by harness/c16_unit.c (includes the tree's
  ncmpio_fill.c, calls the real static `fillerup_aggregate` and `fill_var_rec` for arbitrary
  (nprocs, rank), records the arguments of MPI_Type_create_hindexed / MPI_File_write_at(_all)) and by
  harness/c16_api.c (public API on 1..8 ranks).  Error paths (fill_var_buf failing, MPI_Aint
  overflow, MPI errors) are not modelled: under them the C skips segments.
-/
namespace PnVerif.Fill
open PnVerif.Redef (File rd writeAt)

/-- `count = len / nprocs; start = count * rank;
     if (rank < len % nprocs) { start += rank; count++; } else start += len % nprocs;`
    returns (start, count) in elements -/
def share (len nprocs rank : Nat) : Nat × Nat :=
  let count := len / nprocs
  let start := count * rank
  if rank < len % nprocs then (start + rank, count + 1) else (start + len % nprocs, count)

/-- what `fillerup_aggregate` reads of one NEWLY DEFINED variable (varid ≥ start_vid) -/
structure FVar where
  begin : Nat      -- varp->begin
  xsz : Nat        -- varp->xsz
  varLen : Nat     -- elements: fixed: ndims==0 ? 1 : dsizes[0];  record: ndims<=1 ? 1 : dsizes[1]
  isRec : Bool     -- IS_RECVAR(varp)
  noFill : Bool    -- varp->no_fill
deriving Repr, DecidableEq

/-- one block of the hindexed file type: byte displacement, byte length -/
structure Seg where
  off : Nat
  len : Nat
deriving Repr, DecidableEq

/-- the segment of process `rank` inside one instance of variable `v` that starts at byte `base` -/
def segOf (nprocs rank : Nat) (v : FVar) (base : Nat) : Seg :=
  let sc := share v.varLen nprocs rank
  ⟨base + sc.1 * v.xsz, sc.2 * v.xsz⟩

/-- first loop: fixed-size variables in fill mode, in definition order (`j++` even when count is 0) -/
def fixedSegs (nprocs rank : Nat) (vars : List FVar) : List Seg :=
  vars.filterMap fun v => if v.noFill || v.isRec then none else some (segOf nprocs rank v v.begin)

/-- inner loop for one record number: record variables in fill mode, in definition order -/
def recSegs (nprocs rank recsize recno : Nat) (vars : List FVar) : List Seg :=
  vars.filterMap fun v =>
    if v.noFill || !v.isRec then none else some (segOf nprocs rank v (v.begin + recsize * recno))

/-- the whole plan of one process: `offset[]`/`count[]*xsz` as passed to MPI_Type_create_hindexed.
    `nrecs` = old_ncp->numrecs (0 for a new file), `recsize` = ncp->recsize. -/
def fillPlan (nprocs rank recsize nrecs : Nat) (vars : List FVar) : List Seg :=
  fixedSegs nprocs rank vars ++ (List.range nrecs).flatMap fun recno => recSegs nprocs rank recsize recno vars

/-- `fillerup_aggregate` issues its write iff some variable is in fill mode and there is a segment -/
def planIssued (nprocs rank recsize nrecs : Nat) (vars : List FVar) : Bool :=
  !(fillPlan nprocs rank recsize nrecs vars).isEmpty

/-- `fill_var_rec`: (file offset, byte count) of the write of process `rank`;
    `varLen` as in the C: scalar 1; 1-D record 1; record dsizes[1]; fixed dsizes[0] -/
def fillRecWrite (nprocs rank recsize recno : Nat) (v : FVar) : Seg :=
  segOf nprocs rank v (v.begin + (if v.isRec then recsize * recno else 0))

/-- numrecs after `fill_var_rec` on a record variable: `max(numrecs, max over ranks (recno+1))` -/
def fillRecNumrecs (numrecs : Nat) (recnos : List Nat) : Nat :=
  recnos.foldl (fun m r => max m (r + 1)) numrecs

/-! ### default fill bytes (external = big-endian representation) -/

/-- nc_type codes: 1 BYTE 2 CHAR 3 SHORT 4 INT 5 FLOAT 6 DOUBLE 7 UBYTE 8 USHORT 9 UINT 10 INT64 11 UINT64 -/
def fillBytes : Nat → Option (List UInt8)
  | 1 => some [0x81]
  | 2 => some [0x00]
  | 3 => some [0x80, 0x01]
  | 4 => some [0x80, 0x00, 0x00, 0x01]
  | 5 => some [0x7C, 0xF0, 0x00, 0x00]
  | 6 => some [0x47, 0x9E, 0x00, 0x00, 0x00, 0x00, 0x00, 0x00]
  | 7 => some [0xFF]
  | 8 => some [0xFF, 0xFF]
  | 9 => some [0xFF, 0xFF, 0xFF, 0xFF]
  | 10 => some [0x80, 0x00, 0x00, 0x00, 0x00, 0x00, 0x00, 0x02]
  | 11 => some [0xFF, 0xFF, 0xFF, 0xFF, 0xFF, 0xFF, 0xFF, 0xFE]
  | _ => none

/-- `fill_var_buf`: `n` copies of the element's fill bytes (`_FillValue` attribute value if the
    variable has one, else the type default) -/
def fillBuf (elem : List UInt8) (n : Nat) : List UInt8 := (List.replicate n elem).flatten

/-- variables of one pass of `fillerup_aggregate` (fixed-size pass / record pass), in fill mode -/
def passVars (recPass : Bool) (vars : List FVar) : List FVar :=
  vars.filter fun v => !v.noFill && (v.isRec == recPass)

/-- the contiguous write buffer of `fillerup_aggregate`: for every segment of the plan, in plan order,
    `count` copies of the variable's fill element (`elem v` = its `_FillValue` bytes or the default) -/
def planBuf (nprocs rank nrecs : Nat) (elem : FVar → List UInt8) (vars : List FVar) : List UInt8 :=
  (passVars false vars).flatMap (fun v => fillBuf (elem v) (share v.varLen nprocs rank).2) ++
  (List.range nrecs).flatMap fun _ =>
    (passVars true vars).flatMap fun v => fillBuf (elem v) (share v.varLen nprocs rank).2

/-! ### the effect of the collective write on the file -/

/-- a segment of the plan together with the bytes the process writes there -/
def segD (nprocs rank : Nat) (elem : FVar → List UInt8) (v : FVar) (base : Nat) : Seg × List UInt8 :=
  (segOf nprocs rank v base, fillBuf (elem v) (share v.varLen nprocs rank).2)

def fixedSegsD (nprocs rank : Nat) (elem : FVar → List UInt8) (vars : List FVar) : List (Seg × List UInt8) :=
  vars.filterMap fun v => if v.noFill || v.isRec then none else some (segD nprocs rank elem v v.begin)

def recSegsD (nprocs rank recsize recno : Nat) (elem : FVar → List UInt8) (vars : List FVar) : List (Seg × List UInt8) :=
  vars.filterMap fun v =>
    if v.noFill || !v.isRec then none else some (segD nprocs rank elem v (v.begin + recsize * recno))

/-- the plan of one process with its data -/
def fillPlanD (nprocs rank recsize nrecs : Nat) (elem : FVar → List UInt8) (vars : List FVar) : List (Seg × List UInt8) :=
  fixedSegsD nprocs rank elem vars ++
    (List.range nrecs).flatMap fun recno => recSegsD nprocs rank recsize recno elem vars

/-- a write through the hindexed view = one contiguous write per block -/
def writeSegs (f : File) (ws : List (Seg × List UInt8)) : File :=
  ws.foldl (fun g w => writeAt g w.1.off w.2) f

/-- the collective write of `fillerup_aggregate` by all processes (taken in rank order) -/
def fillAll (nprocs recsize nrecs : Nat) (elem : FVar → List UInt8) (vars : List FVar) (f : File) : File :=
  writeSegs f ((List.range nprocs).flatMap fun r => fillPlanD nprocs r recsize nrecs elem vars)


/-! ### the whole data effect of ncmpio__enddef after a redefinition: move the old data, then fill the new variables -/

/-- `ncmpio__enddef` with `ncp->old != NULL`, data part: the moving block (`Redef.enddefMove`), then — after the
    header write, which stays below `begin_var` — `ncmpio_fill_vars` = `fillerup_aggregate(ncp, ncp->old)` on the
    variables added by the redefinition (`newVars`), for the `numrecs` records that exist -/
def enddefAll (m : PnVerif.Redef.ReadMode) (nprocs unit : Nat) (f : File) (old new : PnVerif.Redef.Lay)
    (nvars numrecs : Nat) (vars : List PnVerif.Redef.MVar) (elem : FVar → List UInt8) (newVars : List FVar) : File :=
  fillAll nprocs new.recsize numrecs elem newVars
    (PnVerif.Redef.enddefMove m nprocs unit f old new nvars numrecs vars)

/-- big-endian unsigned value of a byte string -/
def beVal (bs : List UInt8) : Nat := bs.foldl (fun a b => a * 256 + b.toNat) 0

/-- two's-complement reading of a big-endian byte string -/
def beSigned (bs : List UInt8) : Int :=
  let u := beVal bs
  if u < 2 ^ (8 * bs.length - 1) then (u : Int) else (u : Int) - (2 ^ (8 * bs.length) : Nat)

/-- value of a normal IEEE-754 number given field widths, as (mantissa, binary exponent): m * 2^e -/
def ieeeNormal (expBits manBits : Nat) (bits : Nat) : Nat × Int :=
  let man := bits % 2 ^ manBits
  let ex := (bits / 2 ^ manBits) % 2 ^ expBits
  (2 ^ manBits + man, (ex : Int) - (2 ^ (expBits - 1) - 1 : Nat) - manBits)


/-! ### the `_FillValue` attribute rules -/

/-- the API paths through which an attribute named `_FillValue` can reach a variable -/
inductive FvPath where
  | putAtt            -- ncmpi_put_att (flexible)
  | putAttTyped       -- ncmpi_put_att_<type>
  | defVarFill        -- ncmpi_def_var_fill(varid, 0, &value)
  | copyAtt (sameFile sameVar : Bool)   -- ncmpi_copy_att
  | renameAtt         -- ncmpi_rename_att(…, "_FillValue")
deriving Repr, DecidableEq

/-- the rule of ncmpio_put_att / ncmpio_copy_att / ncmpio_rename_att: same type as the variable (NC_EBADTYPE −45),
    exactly one element (NC_EINVAL −36), not on a variable that existed before the redefinition
    (NC_ELATEFILL −122); in this order -/
def fvRule (varType attType nelems : Nat) (isOld : Bool) : Int :=
  if attType ≠ varType then -45 else if nelems ≠ 1 then -36 else if isOld then -122 else 0

/-- return code of delivering `_FillValue` through `path`; a copy of an attribute onto itself changes nothing and
    is exempt (`!(ncdp_in == ncdp_out && varid_in == varid_out)`) -/
def fvAccept (path : FvPath) (varType attType nelems : Nat) (isOld : Bool) : Int :=
  match path with
  | .copyAtt true true => 0
  | _ => fvRule varType attType nelems isOld

/-! ### fill-mode bookkeeping -/

/-- calls that change fill modes (all only legal in define mode) -/
inductive FOp where
  | setFill (fill : Bool)                 -- ncmpi_set_fill(NC_FILL / NC_NOFILL)
  | defVar                                -- ncmpi_def_var: no_fill = !NC_dofill(ncp)
  | varFill (v : Nat) (noFill : Bool)     -- ncmpi_def_var_fill(varid, no_fill, …)
deriving Repr, DecidableEq

structure FState where
  dsFill : Bool            -- NC_MODE_FILL of the dataset
  noFill : List Bool       -- no_fill of every variable defined so far
deriving Repr, DecidableEq

def FState.init : FState := ⟨false, []⟩   -- a new / reopened dataset is in NOFILL mode

def fstep (s : FState) : FOp → FState
  | .setFill m => ⟨m, s.noFill.map fun _ => !m⟩
  | .defVar => ⟨s.dsFill, s.noFill ++ [!s.dsFill]⟩
  | .varFill v nf => ⟨s.dsFill, s.noFill.set v nf⟩

def frun (s : FState) (ops : List FOp) : FState := ops.foldl fstep s

end PnVerif.Fill
