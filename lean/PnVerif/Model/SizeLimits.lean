/-
  C18 model — the size checks of the classic formats, transcribed from

    ncmpi_def_dim               (src/dispatchers/dimension.c)        dimension length limits
    ncmpio_NC_check_vlen        (src/drivers/ncmpio/ncmpio_enddef.c) product-with-division test
    ncmpio_NC_var_shape64       (src/drivers/ncmpio/ncmpio_var.c)    X_INT64_MAX-3 test, len padded to 4
    ncmpio_NC_check_vlens       (ncmpio_enddef.c)                    two passes, one oversized last variable
    NC_begins                   (ncmpio_enddef.c)                    begins, CDF-1 `end_var > NC_MAX_INT` test
    hdr_put_NC_var              (ncmpio_header_put.c)                vsize saturation at 2^32-1

  for a NEW file (ncp->old == NULL; the redef path is C06's).  Quantities are `Nat`; that the C
  (signed 64-bit) computes the same numbers is the content of the no-overflow theorems in
  Props/C18.lean.  Core Lean only.
-/
namespace PnVerif.SizeLimits

def NC_NOERR : Int := 0
def NC_EVARSIZE : Int := -62
def NC_EDIMSIZE : Int := -63
def NC_MAX_INT : Nat := 2147483647
def NC_MAX_UINT : Nat := 4294967295
def NC_MAX_INT64 : Nat := 9223372036854775807
def X_INT64_MAX : Nat := 9223372036854775807

/-- ncmpi_def_dim: the test on the dimension length (fmt 1 = CDF-1, 2 = CDF-2, 5 = CDF-5) -/
def defDim (fmt : Nat) (size : Int) : Int :=
  if fmt = 2 then (if size > NC_MAX_INT ∨ size < 0 then NC_EDIMSIZE else NC_NOERR)
  else if fmt = 5 then (if size < 0 then NC_EDIMSIZE else NC_NOERR)
  else (if size > NC_MAX_INT ∨ size < 0 then NC_EDIMSIZE else NC_NOERR)

/-- a variable as the size checks see it -/
structure Var where
  xsz : Nat            -- external element size (1, 2, 4, 8)
  isRec : Bool
  dims : List Nat      -- extents of the NON-record dimensions (shape[1..] of a record variable)
deriving Repr, DecidableEq

/-- the loop of ncmpio_NC_check_vlen: `if (shape[i] > vlen_max / prod) return 0; prod *= shape[i];` -/
def checkVlenLoop (vlenMax : Nat) : Nat → List Nat → Bool
  | _, [] => true
  | prod, d :: ds => if d > vlenMax / prod then false else checkVlenLoop vlenMax (prod * d) ds

/-- ncmpio_NC_check_vlen(varp, vlen_max) ≠ 0 -/
def checkVlen (v : Var) (vlenMax : Nat) : Bool := checkVlenLoop vlenMax v.xsz v.dims

def prodl (l : List Nat) : Nat := l.foldr (· * ·) 1

/-- varp->len as ncmpio_NC_var_shape64 sets it: product · xsz rounded up to a multiple of 4 -/
def varLen (v : Var) : Nat :=
  let len := prodl v.dims * v.xsz
  if len % 4 > 0 then len + (4 - len % 4) else len

/-- ncmpio_NC_var_shape64 as called from ncmpio_def_var: error code and len -/
def defVar (v : Var) : Int × Nat :=
  if !checkVlen v (X_INT64_MAX - 3) then (NC_EVARSIZE, 0) else (NC_NOERR, varLen v)

/-- vlen_max of ncmpio_NC_check_vlens -/
def vlenMax (fmt : Nat) : Nat :=
  if fmt ≥ 5 then NC_MAX_INT64 - 3 else if fmt = 2 then NC_MAX_UINT - 3 else NC_MAX_INT - 3

/-- first loop of ncmpio_NC_check_vlens over the variables; state (large_fix_vars_count, last,
    rec_vars_count); `none` = returned NC_EVARSIZE from inside the loop (CDF-5) -/
def pass1 (fmt vm : Nat) : List Var → Nat × Nat × Nat → Option (Nat × Nat × Nat)
  | [], s => some s
  | v :: vs, (large, last, recs) =>
    if v.isRec then pass1 fmt vm vs (large, last, recs + 1)
    else if !checkVlen v vm then
      (if fmt ≥ 5 then none else pass1 fmt vm vs (large + 1, 1, recs))
    else pass1 fmt vm vs (large, 0, recs)

/-- second loop (record variables); state (large_rec_vars_count, last) -/
def pass2 (fmt vm : Nat) : List Var → Nat × Nat → Option (Nat × Nat)
  | [], s => some s
  | v :: vs, (large, last) =>
    if !v.isRec then pass2 fmt vm vs (large, last)
    else if !checkVlen v vm then
      (if fmt ≥ 5 then none else pass2 fmt vm vs (large + 1, 1))
    else pass2 fmt vm vs (large, 0)

/-- ncmpio_NC_check_vlens -/
def checkVlens (fmt : Nat) (vars : List Var) : Int :=
  if vars.isEmpty then NC_NOERR else
  let vm := vlenMax fmt
  match pass1 fmt vm vars (0, 0, 0) with
  | none => NC_EVARSIZE
  | some (large, last, recs) =>
    if large > 1 then NC_EVARSIZE
    else if large = 1 ∧ last = 0 then NC_EVARSIZE
    else if recs = 0 then NC_NOERR
    else if large = 1 then NC_EVARSIZE
    else match pass2 fmt vm vars (0, last) with
      | none => NC_EVARSIZE
      | some (largeRec, last2) =>
        if largeRec > 1 then NC_EVARSIZE
        else if largeRec = 1 ∧ last2 = 0 then NC_EVARSIZE
        else NC_NOERR

/-- D_RNDUP(x, a) -/
def rndup (x a : Nat) : Nat := ((x + a - 1) / a) * a

/-- layout parameters NC_begins gets from the caller: the header extent
    `begin_var = D_RNDUP(xsz + h_minfree, h_align)` (h_align is a multiple of 4), v_minfree, r_align -/
structure Lay where
  beginVar : Nat
  vMinfree : Nat
  rAlign : Nat
deriving Repr

/-- first loop of NC_begins (fixed-size variables): returns their begins in definition order and
    the final end_var; `none` = NC_EVARSIZE (CDF-1, `end_var > NC_MAX_INT`) -/
def fixedPass (fmt : Nat) : Nat → List Var → Option (List Nat × Nat)
  | e, [] => some ([], e)
  | e, v :: vs =>
    if v.isRec then fixedPass fmt e vs
    else if fmt = 1 ∧ e > NC_MAX_INT then none
    else
      let b := rndup e 4
      match fixedPass fmt (b + varLen v) vs with
      | none => none
      | some (bs, e') => some (b :: bs, e')

/-- second loop of NC_begins (record variables): begins and the running end (= begin_rec + recsize) -/
def recPass (fmt : Nat) : Nat → List Var → Option (List Nat × Nat)
  | e, [] => some ([], e)
  | e, v :: vs =>
    if !v.isRec then recPass fmt e vs
    else if fmt = 1 ∧ e > NC_MAX_INT then none
    else match recPass fmt (e + varLen v) vs with
      | none => none
      | some (bs, e') => some (e :: bs, e')

structure Begins where
  fixed : List Nat       -- begins of the fixed-size variables, definition order
  recs : List Nat        -- begins of the record variables, definition order
  beginRec : Nat
  recsize : Nat
deriving Repr

/-- NC_begins for a new file -/
def ncBegins (fmt : Nat) (l : Lay) (vars : List Var) : Option Begins :=
  match fixedPass fmt l.beginVar vars with
  | none => none
  | some (fb, endFixed) =>
    -- begin_rec starts at 0 for a new file
    let br0 := if 0 < endFixed + l.vMinfree then endFixed + l.vMinfree else 0
    let br1 := rndup br0 4
    let br := if l.rAlign > 1 then rndup br1 l.rAlign else br1
    match recPass fmt br vars with
    | none => none
    | some (rb, endRec) =>
      let recsize0 := endRec - br
      -- `if (last != NULL && ncp->recsize == last->len) recsize = *last->dsizes * last->xsz;`
      -- (exactly one record variable: the record is not padded)
      let recsize := match (vars.filter (·.isRec)).getLast? with
        | some v => if recsize0 = varLen v then prodl v.dims * v.xsz else recsize0
        | none => recsize0
      some { fixed := fb, recs := rb, beginRec := br, recsize := recsize }

/-- ncmpio__enddef as far as sizes are concerned: check_vlens, then NC_begins -/
def enddef (fmt : Nat) (l : Lay) (vars : List Var) : Int × Option Begins :=
  let e := checkVlens fmt vars
  if e ≠ NC_NOERR then (e, none)
  else match ncBegins fmt l vars with
    | none => (NC_EVARSIZE, none)
    | some b => (NC_NOERR, some b)

/-! ### the repaired NC_begins (patch C18-begins-overflow.diff): every addition is preceded by a
    test against NC_MAX_INT64 and fails with NC_EVARSIZE -/

/-- first loop with `if (len > NC_MAX_INT64 - begin) return NC_EVARSIZE;` before `end_var = begin + len` -/
def fixedPassG (fmt : Nat) : Nat → List Var → Option (List Nat × Nat)
  | e, [] => some ([], e)
  | e, v :: vs =>
    if v.isRec then fixedPassG fmt e vs
    else if fmt = 1 ∧ e > NC_MAX_INT then none
    else
      let b := rndup e 4
      if varLen v > NC_MAX_INT64 - b then none
      else match fixedPassG fmt (b + varLen v) vs with
        | none => none
        | some (bs, e') => some (b :: bs, e')

/-- second loop with `if (len > NC_MAX_INT64 - end_var) return NC_EVARSIZE;` before `end_var += len` -/
def recPassG (fmt : Nat) : Nat → List Var → Option (List Nat × Nat)
  | e, [] => some ([], e)
  | e, v :: vs =>
    if !v.isRec then recPassG fmt e vs
    else if fmt = 1 ∧ e > NC_MAX_INT then none
    else if varLen v > NC_MAX_INT64 - e then none
    else match recPassG fmt (e + varLen v) vs with
      | none => none
      | some (bs, e') => some (e :: bs, e')

/-- `if (b % a > 0) { pad = a - b % a; if (pad > NC_MAX_INT64 - b) return NC_EVARSIZE; b += pad; }` -/
def rndupG (b a : Nat) : Option Nat :=
  if b % a > 0 then (if a - b % a > NC_MAX_INT64 - b then none else some (b + (a - b % a))) else some b

def ncBeginsG (fmt : Nat) (l : Lay) (vars : List Var) : Option Begins :=
  match fixedPassG fmt l.beginVar vars with
  | none => none
  | some (fb, endFixed) =>
    -- `if (v_minfree > NC_MAX_INT64 - 3 - end_var) return NC_EVARSIZE;`  (end_var <= NC_MAX_INT64 here)
    if endFixed + l.vMinfree + 3 > NC_MAX_INT64 then none else
    let br0 := if 0 < endFixed + l.vMinfree then endFixed + l.vMinfree else 0
    if br0 > NC_MAX_INT64 - 3 then none else
    let br1 := rndup br0 4
    match (if l.rAlign > 1 then rndupG br1 l.rAlign else some br1) with
    | none => none
    | some br =>
      match recPassG fmt br vars with
      | none => none
      | some (rb, endRec) =>
        let recsize0 := endRec - br
        let recsize := match (vars.filter (·.isRec)).getLast? with
          | some v => if recsize0 = varLen v then prodl v.dims * v.xsz else recsize0
          | none => recsize0
        some { fixed := fb, recs := rb, beginRec := br, recsize := recsize }

def enddefG (fmt : Nat) (l : Lay) (vars : List Var) : Int × Option Begins :=
  let e := checkVlens fmt vars
  if e ≠ NC_NOERR then (e, none)
  else match ncBeginsG fmt l vars with
    | none => (NC_EVARSIZE, none)
    | some b => (NC_NOERR, some b)

/-- hdr_put_NC_var: the vsize field -/
def vsizeField (fmt : Nat) (len : Nat) : Nat :=
  if fmt < 5 then (if len > 4294967292 then 4294967295 else len % 4294967296) else len

end PnVerif.SizeLimits
