/-
  C02: the flatten → sort → merge → coalesce pipeline of `src/drivers/ncmpio/ncmpio_wait.c`
  for an INTERLEAVED group of nonblocking requests.

    off_len { off, len, buf_addr }                       -> `Seg`
    qsort(segs, off_compare) (only if not yet sorted)    -> `sortStep`     (merge_requests)
    the overlap-resolving loop `for (i=0, j=1; j<nsegs…` -> `mergeSegs`    (merge_requests)
    the two coalescing passes of `type_create_off_len`   -> `fileType`, `bufType`

  Everything is a pure list function; offsets, lengths and buffer displacements are unbounded
  `Int` (buf_addr is an MPI_Aint *difference* to the first request's buffer, so it is signed).
  What the MPI library does with the two hindexed datatypes is an assumption written down as a
  definition (`transfer`): the k-th byte of the flattened buffer type is moved to/from the k-th
  byte of the flattened file type.

  glibc's qsort (2.36, merge sort while the array fits the stack/heap limit) is stable; the model
  sort `sortSegs` is the stable insertion sort.  The theorems about `mergeSegs` are stated for ANY
  input sorted by `off`, so they do not depend on how ties are ordered.
-/
namespace PnVerif.Merge

/-- `off_len` of ncmpio_wait.c -/
structure Seg where
  off : Int
  len : Int
  buf : Int
deriving Repr, DecidableEq, Inhabited

/-! ### sort -/

/-- insert before the first element whose offset is not smaller (keeps equal keys in input order) -/
def ins (s : Seg) : List Seg → List Seg
  | [] => [s]
  | t :: ts => if s.off ≤ t.off then s :: t :: ts else t :: ins s ts

/-- stable sort by `off` (off_compare) -/
def sortSegs : List Seg → List Seg
  | [] => []
  | s :: rest => ins s (sortSegs rest)

/-- `for (i=1; i<*nsegs; i++) if (segs[i-1].off > segs[i].off) break;` -/
def isSorted : List Seg → Bool
  | [] => true
  | [_] => true
  | a :: b :: rest => if a.off > b.off then false else isSorted (b :: rest)

/-- the sort step of merge_requests: qsort only when a decreasing pair exists -/
def sortStep (l : List Seg) : List Seg := if isSorted l then l else sortSegs l

/-! ### the merge loop -/

/-- the loop body of merge_requests with `cur = segs[i]`, the already finished `segs[0..i-1]`
    being emitted in front; `rest = segs[j..]` -/
def mergeGo (cur : Seg) : List Seg → List Seg
  | [] => [cur]
  | s :: rest =>
    if cur.off + cur.len ≥ s.off + s.len then
      mergeGo cur rest                                   -- i completely covers j: skip j
    else
      let gap := cur.off + cur.len - s.off
      if gap ≥ 0 then
        if cur.buf + cur.len = s.buf + gap then          -- buffers contiguous: extend i
          mergeGo { cur with len := cur.len + (s.len - gap) } rest
        else                                             -- trim j, it becomes segs[i+1]
          cur :: mergeGo ⟨s.off + gap, s.len - gap, s.buf + gap⟩ rest
      else
        cur :: mergeGo s rest                            -- no overlap

/-- merge_requests after the sort.  The C code is only reached with at least one segment
    (`assert(nsegs > 0)` in req_aggregation; an INTERLEAVED group has ≥ 2 requests). -/
def mergeSegs : List Seg → List Seg
  | [] => []
  | s :: rest => mergeGo s rest

/-- sort + merge, as merge_requests does after flattening -/
def mergeRequests (l : List Seg) : List Seg := mergeSegs (sortStep l)

/-! ### coalescing passes of type_create_off_len -/

/-- one pass: `disps[j] + blocklens[j] == key(segs[i])` extends block j, otherwise a new block -/
def coalGo (key : Seg → Int) (d b : Int) : List Seg → List (Int × Int)
  | [] => [(d, b)]
  | s :: rest =>
    if d + b = key s then coalGo key d (b + s.len) rest
    else (d, b) :: coalGo key (key s) s.len rest

def coalesce (key : Seg → Int) : List Seg → List (Int × Int)
  | [] => []
  | s :: rest => coalGo key (key s) s.len rest

/-- (disps, blocklens) of the file type -/
def fileType (l : List Seg) : List (Int × Int) := coalesce (fun s => s.off) l
/-- (disps, blocklens) of the buffer type -/
def bufType (l : List Seg) : List (Int × Int) := coalesce (fun s => s.buf) l

/-! ### meaning -/

/-- the byte addresses `a, a+1, …, a+n-1` -/
def span (a n : Int) : List Int := (List.range n.toNat).map (fun (k : Nat) => a + (k : Int))

/-- byte stream of an hindexed(MPI_BYTE) datatype given as (disp, blocklen) list -/
def bytesOf (blocks : List (Int × Int)) : List Int := blocks.flatMap (fun p => span p.1 p.2)

/-- ASSUMED MPI semantics of one read/write with (filetype, buftype): the k-th byte of the buffer
    stream corresponds to the k-th byte of the file stream -/
def transfer (l : List Seg) : List (Int × Int) := (bytesOf (fileType l)).zip (bytesOf (bufType l))

/-- the (file byte, buffer byte) pairs a segment list stands for -/
def pairs (l : List Seg) : List (Int × Int) :=
  l.flatMap (fun s => (List.range s.len.toNat).map (fun (k : Nat) => (s.off + (k : Int), s.buf + (k : Int))))

/-- does `s` contain file byte `b` -/
def Seg.has (s : Seg) (b : Int) : Bool := decide (s.off ≤ b) && decide (b < s.off + s.len)

/-- the buffer byte that the FIRST segment (list order) containing file byte `b` maps it to -/
def lookup : List Seg → Int → Option Int
  | [], _ => none
  | s :: rest, b => if s.has b then some (s.buf + (b - s.off)) else lookup rest b

end PnVerif.Merge
