/-
  C15 model (file owned by the C15 check; the C01 builder owns Model/Access.lean).

  Model of the request checker of the dispatcher (src/dispatchers/var_getput.m4):
    check_EINVALCOORDS, check_EEDGE, check_start_count_stride
  and of the element addressing the property C15 talks about (row-major element offsets of a
  start/count/stride request inside a fixed-size variable or inside the record slots of a record
  variable).

  The checker is a LITERAL transcription of the C control flow.  The C computes in MPI_Offset
  (signed 64 bit); the two arithmetic tests of check_EEDGE are taken from an `Arith` record so that
  the same text can be read over unbounded `Int` (`exact`), over wrap-around 64-bit arithmetic
  (`c64`, what the compiled original code does on x86-64) and in the repaired division form
  (`divForm`).
  Core Lean only.
-/
namespace PnVerif.Scs

def NC_NOERR : Int := 0
def NC_EINVALCOORDS : Int := -40
def NC_EEDGE : Int := -57
def NC_ESTRIDE : Int := -58
def NC_ENEGATIVECNT : Int := -210
def NC_MAX_UINT : Int := 4294967295

/-- two's complement wrap-around of a mathematical integer to a signed 64-bit value -/
def wrap64 (x : Int) : Int := (x + 9223372036854775808) % 18446744073709551616 - 9223372036854775808

/-- the two arithmetic tests of check_EEDGE, as a parameter: the same checker text is read
    * over unbounded integers (`exact`),
    * over wrap-around 64-bit arithmetic (`c64`: what the compiled original code does), and
    * in the repaired, overflow-free division form (`divForm`, patch F15-check_EEDGE.diff). -/
structure Arith where
  /-- `count > shape || start + count > shape`   (start count shape) -/
  edge0 : Int → Int → Int → Bool
  /-- `count > 0 && start + (count-1)*stride >= shape`   (start count stride shape) -/
  edgeS : Int → Int → Int → Int → Bool

def exact : Arith :=
  ⟨fun s c sh => decide (c > sh ∨ s + c > sh),
   fun s c t sh => decide (c > 0 ∧ s + (c + -1) * t ≥ sh)⟩

def c64 : Arith :=
  ⟨fun s c sh => decide (c > sh ∨ wrap64 (s + c) > sh),
   fun s c t sh => decide (c > 0 ∧ wrap64 (s + wrap64 (wrap64 (c + -1) * t)) ≥ sh)⟩

/-- repaired check_EEDGE: `count > shape - start` and
    `count > 1 && stride > 0 && stride > (shape - 1 - start) / (count - 1)` -/
def divForm : Arith :=
  ⟨fun s c sh => decide (c > sh - s),
   fun s c t sh => decide (c > 1 ∧ t > 0 ∧ t > (sh - 1 - s) / (c - 1))⟩

def fits64 (x : Int) : Prop := -9223372036854775808 ≤ x ∧ x < 9223372036854775808
instance (x : Int) : Decidable (fits64 x) := by unfold fits64; infer_instance

/-- one dimension of a request as the checker sees it: the variable's (current) extent and the
    caller's start / count / stride entries.  `count`/`stride` are only read when the caller's
    pointer is non-NULL (`Req.hasCount` / `Req.hasStride`). -/
structure D where
  shape : Int
  start : Int
  count : Int
  stride : Int
deriving Repr, DecidableEq

structure Req where
  dims : List D          -- ndims ≥ 1: the dispatcher calls the checker only when ndims > 0
  startNull : Bool       -- start == NULL
  hasCount : Bool        -- count != NULL
  hasStride : Bool       -- stride != NULL
deriving Repr

structure Ctx where
  strict : Bool      -- pncp->flag & NC_MODE_STRICT_COORD_BOUND
  isRec : Bool       -- vars[varid].recdim >= 0 ; then dims[0].shape holds the current numrecs
  isRead : Bool
  classic : Bool     -- format <= NC_FORMAT_CDF2 || format == NC_FORMAT_NETCDF4_CLASSIC
  needCount : Bool   -- api_kind ∈ {API_VARA, API_VARS, API_VARM}
deriving Repr

/-- check_EINVALCOORDS -/
def checkEINVALCOORDS (strict : Bool) (start count shape : Int) : Int :=
  if strict then
    if start < 0 ∨ start ≥ shape then NC_EINVALCOORDS else NC_NOERR
  else
    if start < 0 ∨ start > shape then NC_EINVALCOORDS
    else if start = shape ∧ count > 0 then NC_EINVALCOORDS
    else NC_NOERR

/-- check_EEDGE; `stride = none` is the NULL pointer -/
def checkEEDGE (A : Arith) (start count : Int) (stride : Option Int) (shape : Int) : Int :=
  if A.edge0 start count shape then NC_EEDGE
  else match stride with
    | none => if A.edge0 start count shape then NC_EEDGE else NC_NOERR
    | some s => if A.edgeS start count s shape then NC_EEDGE else NC_NOERR

/-- `for (i=firstDim; i<ndims; i++) { len = count==NULL ? 1 : count[i]; err = check_EINVALCOORDS(..) ; if (err) return err; }` -/
def coordLoop (strict hasCount : Bool) : List D → Int
  | [] => NC_NOERR
  | d :: ds =>
    let len := if hasCount then d.count else 1
    let err := checkEINVALCOORDS strict d.start len d.shape
    if err ≠ NC_NOERR then err else coordLoop strict hasCount ds

/-- the NC_EEDGE loop over the non-record dimensions -/
def edgeLoop (A : Arith) (hasStride : Bool) : List D → Int
  | [] => NC_NOERR
  | d :: ds =>
    if d.shape < 0 then NC_EEDGE
    else if d.count < 0 then NC_ENEGATIVECNT
    else
      let err := checkEEDGE A d.start d.count (if hasStride then some d.stride else none) d.shape
      if err ≠ NC_NOERR then err else edgeLoop A hasStride ds

/-- `for (i=0; i<ndims; i++) if (stride[i] <= 0) return NC_ESTRIDE;` -/
def strideLoop : List D → Int
  | [] => NC_NOERR
  | d :: ds => if d.stride ≤ 0 then NC_ESTRIDE else strideLoop ds

/-- check_start_count_stride -/
def checkSCS (A : Arith) (c : Ctx) (r : Req) : Int :=
  match r.dims with
  | [] => NC_NOERR            -- not reachable (ndims > 0 is tested by every caller)
  | d0 :: rest =>
    if r.startNull ∨ d0.start < 0 then NC_EINVALCOORDS else
    let e1 : Int :=
      if c.isRec then
        if c.classic ∧ d0.start > NC_MAX_UINT then NC_EINVALCOORDS
        else if c.isRead then
          let len := if r.hasCount then d0.count else 1
          if d0.shape = 0 ∧ len > 0 then NC_EINVALCOORDS
          else checkEINVALCOORDS c.strict d0.start len d0.shape
        else NC_NOERR
      else NC_NOERR
    if e1 ≠ NC_NOERR then e1 else
    let tail := if c.isRec then rest else d0 :: rest
    let e2 := coordLoop c.strict r.hasCount tail
    if e2 ≠ NC_NOERR then e2 else
    if !r.hasCount then (if c.needCount then NC_EEDGE else NC_NOERR) else
    let e3 : Int :=
      if c.isRec then
        if d0.count < 0 then NC_ENEGATIVECNT
        else if c.isRead then
          checkEEDGE A d0.start d0.count (if r.hasStride then some d0.stride else none) d0.shape
        else NC_NOERR
      else NC_NOERR
    if e3 ≠ NC_NOERR then e3 else
    let e4 := edgeLoop A r.hasStride tail
    if e4 ≠ NC_NOERR then e4 else
    if r.hasStride then strideLoop (d0 :: rest) else NC_NOERR

/-! ### element addressing -/

/-- effective count / stride of a dimension (var1: count 1; stride NULL: 1) -/
def effCount (r : Req) (d : D) : Int := if r.hasCount then d.count else 1
def effStride (r : Req) (d : D) : Int := if r.hasStride then d.stride else 1

/-- the coordinates a request addresses along one dimension, in request order -/
def dimIdx (start count stride : Int) : List Int :=
  (List.range count.toNat).map (fun (k : Nat) => start + (k : Int) * stride)

/-- all addressed coordinate vectors, row-major in request order (last dimension fastest) -/
def cart : List (List Int) → List (List Int)
  | [] => [[]]
  | xs :: rest => xs.flatMap (fun x => (cart rest).map (fun t => x :: t))

def indices (r : Req) : List (List Int) :=
  cart (r.dims.map (fun d => dimIdx d.start (effCount r d) (effStride r d)))

/-- row-major linear element index of a coordinate vector inside an array of the given extents -/
def rowMajor : List Nat → List Nat → Nat
  | _ :: ss, i :: is => i * ss.foldr (· * ·) 1 + rowMajor ss is
  | _, _ => 0

def prodl (l : List Nat) : Nat := l.foldr (· * ·) 1

/-- layout of the addressed variable: first byte of the variable (`begin`), external element size,
    and for record variables the distance between two records (`recsize`) -/
structure VarLayout where
  begin : Nat
  xsz : Nat
  recsize : Nat
  isRec : Bool
  shape : List Nat       -- extents; for a record variable shape[0] is ignored (unlimited)
deriving Repr

/-- file offset of the first byte of the element with coordinates `idx` -/
def elemOffset (v : VarLayout) (idx : List Nat) : Nat :=
  if v.isRec then
    match v.shape, idx with
    | _ :: ss, r :: is => v.begin + r * v.recsize + rowMajor ss is * v.xsz
    | _, _ => v.begin
  else v.begin + rowMajor v.shape idx * v.xsz

/-- byte offsets (first byte of each element) an accepted request addresses, in request order -/
def footprint (v : VarLayout) (r : Req) : List Nat :=
  (indices r).map (fun ix => elemOffset v (ix.map Int.toNat))

/-- numrecs after an accepted, non-empty put to a record variable (ncmpio_getput.m4:
    `new_numrecs = start[0] + (count[0]-1)*stride[0] + 1`, kept if larger) -/
def newNumrecs (old : Int) (r : Req) : Int :=
  match r.dims with
  | [] => old
  | d0 :: _ =>
    if (indices r).isEmpty then old
    else
      let n := d0.start + (effCount r d0 - 1) * effStride r d0 + 1
      if old < n then n else old

/-! ### a file as a byte map and what a put does to it -/

abbrev File := Nat → Nat

/-- write `xsz` bytes `val 0 .. val (xsz-1)` at offset `off` -/
def writeElem (f : File) (off xsz : Nat) (val : Nat → Nat) : File :=
  fun p => if off ≤ p ∧ p < off + xsz then val (p - off) else f p

/-- write the k-th datum at the k-th offset -/
def writeAll (xsz : Nat) : File → List Nat → (Nat → Nat → Nat) → Nat → File
  | f, [], _, _ => f
  | f, off :: offs, data, k => writeAll xsz (writeElem f off xsz (data k)) offs data (k + 1)

/-- the blocking put as far as C15 is concerned: reject → file untouched and the error returned;
    accept → exactly the addressed elements are overwritten -/
def apiPut (A : Arith) (c : Ctx) (v : VarLayout) (r : Req) (data : Nat → Nat → Nat) (f : File) : File × Int :=
  let e := checkSCS A c r
  if e ≠ NC_NOERR then (f, e) else (writeAll v.xsz f (footprint v r) data 0, NC_NOERR)

end PnVerif.Scs
