import PnVerif.Model.Header
/-
  Model/Layout.lean — executable model of the file-layout computation at ncmpi_enddef
  (hand transcription; tied to the C by the C03 correspondence harness).

    src/drivers/ncmpio/ncmpio_enddef.c   ncmpio__enddef (alignment precedence)  → `resolveAlign`
                                         NC_begins                              → `ncBegins`
    src/drivers/ncmpio/ncmpio_var.c      ncmpio_NC_var_shape64                  → `Header.varShape64` (reused)

  Core Lean only.
-/
namespace PnVerif.Layout
open PnVerif.Spec PnVerif.Header

def FILE_ALIGNMENT_DEFAULT : Nat := 512

/-- what NC_begins reads of one variable: IS_RECVAR, varp->len, and `*dsizes * xsz` (the unpadded
    size of one record, used by the single-record-variable rule) -/
structure VarL where
  isRec  : Bool
  len    : Nat
  packed : Nat
  deriving DecidableEq, Repr, Inhabited

/-- ncp->h_align, v_align, r_align, h_minfree, v_minfree as ncmpio__enddef leaves them -/
structure Align where
  hAlign   : Nat
  vAlign   : Nat
  rAlign   : Nat
  hMinfree : Nat
  vMinfree : Nat
  deriving DecidableEq, Repr, Inhabited

/-- the alignment precedence of ncmpio__enddef.  `envH/envV/envR` are the hints
    nc_header_align_size / nc_var_align_size / nc_record_align_size given at create/open (0 = not
    set); `argV/argR` the v_align / r_align arguments of ncmpi__enddef; `numFix` is the C's
    `ncp->vars.ndefined - ncp->vars.num_rec_vars`, where num_rec_vars is the count left by the
    PREVIOUS enddef/open (0 on a new file); `isRedef` is `ncp->old != NULL`. -/
def resolveAlign (envH envV envR : Nat) (hMinfree argV vMinfree argR : Nat) (numFix : Nat) (isRedef : Bool) : Align :=
  let h := envH
  let v := envV
  let r := envR
  let h :=
    if h = 0 then
      let h := if v > 0 then v else if argV > 0 then argV else h
      let h := if h = 0 ∧ numFix = 0 then (if r > 0 then r else if argR > 0 then argR else h) else h
      if h = 0 ∧ ¬ isRedef then FILE_ALIGNMENT_DEFAULT else h
    else h
  let v := if v = 0 then (if argV > 0 then argV else v) else v
  let r := if r = 0 then (if argR > 0 then argR else r) else r
  { hAlign := if h = 0 then 4 else rndup h 4
    vAlign := if v = 0 then 4 else rndup v 4
    rAlign := if r = 0 then 4 else rndup r 4
    hMinfree := hMinfree
    vMinfree := vMinfree }

/-- what NC_begins reads of ncp->old -/
structure Old where
  beginVar : Nat
  beginRec : Nat
  vars     : List (Bool × Nat)        -- (IS_RECVAR, begin) of the old variables, in order
  deriving DecidableEq, Repr, Inhabited

structure Layout where
  xsz         : Nat
  beginVar    : Nat
  beginRec    : Nat
  recsize     : Nat
  fixedBegins : List Nat              -- begins of the fixed-size variables, in definition order
  recBegins   : List Nat              -- begins of the record variables, in definition order
  deriving DecidableEq, Repr, Inhabited

/-- first pass of NC_begins over the fixed-size variables.  `ob` = begins of the old fixed-size
    variables still to be matched (the C advances an index `j` over ncp->old->vars, skipping record
    variables: the next unmatched old fixed-size variable is the head of `ob`); `endVar` = end_var.
    Returns the begins and the final end_var. -/
def passFixed (fmt : Fmt) : List VarL → List Nat → Nat → Except Err (List Nat × Nat)
  | [], _, e => .ok ([], e)
  | v :: vs, ob, e =>
    if fmt = .cdf1 ∧ e > NC_MAX_INT then .error .evarsize else
    let b0 := rndup e 4
    let b := match ob with
      | [] => b0
      | o :: _ => if b0 < o then o else b0
    match passFixed fmt vs (ob.drop 1) (b + v.len) with
    | .error er => .error er
    | .ok (bs, e') => .ok (b :: bs, e')

/-- second pass over the record variables: begins, final end_var, recsize.  Note `end_var += len`
    (not `begin + len`). -/
def passRec (fmt : Fmt) : List VarL → List Nat → Nat → Nat → Except Err (List Nat × Nat)
  | [], _, _, rs => .ok ([], rs)
  | v :: vs, ob, e, rs =>
    if fmt = .cdf1 ∧ e > NC_MAX_INT then .error .evarsize else
    let b := match ob with
      | [] => e
      | o :: _ => if e < o then o else e
    match passRec fmt vs (ob.drop 1) (e + v.len) (rs + v.len) with
    | .error er => .error er
    | .ok (bs, rs') => .ok (b :: bs, rs')

/-- the header extent NC_begins starts from: `D_RNDUP(xsz + h_minfree, h_align)` when there is a
    variable, `xsz` otherwise; never below the old extent -/
def initExtent (xsz nvars : Nat) (al : Align) (old : Option Old) : Nat :=
  let beginVar := if nvars > 0 then rndup (xsz + al.hMinfree) al.hAlign else xsz
  match old with
  | some o => if beginVar < o.beginVar then o.beginVar else beginVar
  | none => beginVar

/-- the start of the record section: not before `end_var + v_minfree` nor before the value
    ncp->begin_rec had on entry, rounded up to 4 and to r_align, never below the old begin_rec -/
def recStart (al : Align) (beginRec0 endVar : Nat) (old : Option Old) : Nat :=
  let beginRec := if beginRec0 < endVar + al.vMinfree then endVar + al.vMinfree else beginRec0
  let beginRec := rndup beginRec 4
  let beginRec := if al.rAlign > 1 then rndup beginRec al.rAlign else beginRec
  match old with
  | some o => if beginRec < o.beginRec then o.beginRec else beginRec
  | none => beginRec

/-- "exactly one record variable: no record padding" as NC_begins tests it -/
def packRecsize (recs : List VarL) (recsize : Nat) : Nat :=
  match recs.getLast? with
  | some last => if recsize = last.len then last.packed else recsize
  | none => recsize

def oldFixedBegins (old : Option Old) : List Nat :=
  match old with
  | some o => (o.vars.filter (fun p => !p.1)).map (·.2)
  | none => []

def oldRecBegins (old : Option Old) : List Nat :=
  match old with
  | some o => (o.vars.filter (fun p => p.1)).map (·.2)
  | none => []

/-- NC_begins.  `vars` in definition order; `beginRec0` = the value ncp->begin_rec has on entry
    (0 on a new file, the previous begin_rec after a redef); `old` = ncp->old. -/
def ncBegins (fmt : Fmt) (xsz : Nat) (vars : List VarL) (al : Align) (beginRec0 : Nat) (old : Option Old) :
    Except Err Layout :=
  let fixed := vars.filter (fun v => !v.isRec)
  let recs := vars.filter (fun v => v.isRec)
  match passFixed fmt fixed (oldFixedBegins old) (initExtent xsz vars.length al old) with
  | .error e => .error e
  | .ok (fb, endVar) =>
    let beginRec := recStart al beginRec0 endVar old
    let beginVar := match fb with
      | b :: _ => b
      | [] => beginRec
    match passRec fmt recs (oldRecBegins old) beginRec 0 with
    | .error e => .error e
    | .ok (rb, recsize) =>
      .ok { xsz := xsz, beginVar := beginVar, beginRec := beginRec, recsize := packRecsize recs recsize,
            fixedBegins := fb, recBegins := rb }

/-- begins of all variables in definition order -/
def interleave : List VarL → List Nat → List Nat → List Nat
  | [], _, _ => []
  | v :: vs, fb, rb =>
    if v.isRec then (rb.headD 0) :: interleave vs fb (rb.drop 1)
    else (fb.headD 0) :: interleave vs (fb.drop 1) rb

def Layout.begins (L : Layout) (vars : List VarL) : List Nat := interleave vars L.fixedBegins L.recBegins

/-- the NC_begins view of the variables of a schema (shapes through ncmpio_NC_var_shape64) -/
def varsOf (h : Hdr) : Except Err (List VarL) :=
  h.vars.mapM (fun v =>
    match varShape64 h.dims v with
    | .error e => .error e
    | .ok (shape, len) => .ok { isRec := isRecShape shape, len := len, packed := dsizes0 shape * v.xtype.size })

end PnVerif.Layout
