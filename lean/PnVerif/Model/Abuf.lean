/-
  C13: caller buffers and the attached buffer of the buffered-put API.

    ncmpii_in_swapn                       (src/drivers/common/convert_swap.m4)          -> `inSwapn`
    in-place swap decision                (ncmpio_getput.m4 put_varm, ncmpio_i_getput.m4
                                           ncmpio_igetput_varm, ncmpio_i_varn.m4)        -> `canSwapInPlace`, `usesUserBuf`, `swapFlag`
    swap back on the three exits          (put_varm end, req_commit, ncmpio_cancel)      -> `afterExit`
    getput_vard (put_vard / get_vard, every exit) (ncmpio_vard.c, dispatchers/var_getput.m4) -> `vardPre`, `putVard`, `getVard`
    ncmpio_abuf_malloc / _dealloc         (ncmpio_i_getput.m4)                           -> `A.malloc`, `A.dealloc`
    abuf_coalesce, the `is_used = 0` sites (ncmpio_wait.c: req_commit, ncmpio_cancel)    -> `A.coalesce`, `A.release`, `A.reset`
    NC_EINSUFFBUF test                    (ncmpio_i_getput.m4, ncmpio_i_varn.m4)         -> `S.bput`
    ncmpio_buffer_attach / _detach, inq_buffer_usage / _size (ncmpio_bput.c, ncmpio_file_misc.c)

  The occupy table is modelled by its live prefix `occupy_table[0 .. tail-1]` (entries at or above
  `tail` are never read by the C code: abuf_coalesce starts at tail-1, malloc overwrites entry
  `tail`).  `tail` and `size_used` are carried separately and updated with the C arithmetic, so
  "tail = length of the live prefix" and "size_used = Σ req_size" are theorems.
-/
namespace PnVerif.Abuf

def NC_NOERR : Int := 0
def NC_ENULLBUF : Int := -215
def NC_EPREVATTACHBUF : Int := -216
def NC_ENULLABUF : Int := -217
def NC_EPENDINGBPUT : Int := -218
def NC_EINSUFFBUF : Int := -219
def NC_BYTE_SWAP_BUFFER_SIZE : Int := 4096

/-! ### byte swap -/

/-- reverse the bytes of each of the first `n` elements of `esize` bytes -/
def swapn (esize : Nat) : Nat → List UInt8 → List UInt8
  | 0, l => l
  | n + 1, l => (l.take esize).reverse ++ swapn esize n (l.drop esize)

/-- `ncmpii_in_swapn(buf, nelems, esize)` on a little-endian host (the four code paths for
    esize 2, 4, 8 and "other" all reverse the bytes of every element) -/
def inSwapn (buf : List UInt8) (nelems : Int) (esize : Nat) : List UInt8 :=
  if esize ≤ 1 ∨ nelems ≤ 0 then buf else swapn esize nelems.toNat buf

/-! ### which buffer is handed to MPI-IO, and is the user buffer swapped in place -/

/-- hint nc_in_place_swap: NC_MODE_SWAP_ON / NC_MODE_SWAP_OFF / neither -/
inductive Hint | enable | disable | auto
deriving DecidableEq, Repr

/-- `can_swap_in_place` (identical code in put_varm, ncmpio_igetput_varm and igetput_varn) -/
def canSwapInPlace (needSwap : Bool) (h : Hint) (nbytes : Int) : Bool :=
  if needSwap then
    match h with
    | .disable => false
    | .enable => true
    | .auto => !(decide (nbytes ≤ NC_BYTE_SWAP_BUFFER_SIZE))
  else true

inductive Api | blockingPut | iput | iputVarn | bput | bputVarn | putVard
deriving DecidableEq, Repr

structure Req where
  needConvert : Bool      -- ncmpii_need_convert(format, xtype, itype)
  needSwap : Bool         -- NEED_BYTE_SWAP(xtype, itype)
  contig : Bool           -- buftype_is_contig
  imap : Bool             -- imaptype != MPI_DATATYPE_NULL (a true varm call)
  nbytes : Int            -- request size in external representation
deriving Repr

/-- `xbuf == buf`: the user buffer itself is passed to MPI_File_write -/
def usesUserBuf (api : Api) (h : Hint) (r : Req) : Bool :=
  let can := canSwapInPlace r.needSwap h r.nbytes
  match api with
  | .blockingPut => !r.needConvert && !r.imap && (!r.needSwap || (can && r.contig))
  | .iput => !(!r.contig || r.imap || r.needConvert || (r.needSwap && !can))
  | .iputVarn => !r.needConvert && can && r.contig
  | .bput => false
  | .bputVarn => false
  | .putVard => !r.needConvert && (!r.needSwap || (can && r.contig))   -- getput_vard; nbytes = filetype_size

/-- does MPI_File_write receive the user's buffer address?  ncmpio_read_write (ncmpio_file_io.c)
    packs a NONCONTIGUOUS buffer of at most nc_ibuf_size bytes (default 16 MiB) into a temporary
    before the MPI call, so MPI sees the user buffer only when xbuf == buf and the buffer type is
    contiguous.  (Requests above nc_ibuf_size are outside the harness's range.) -/
def mpiGetsUserBuf (api : Api) (h : Hint) (r : Req) : Bool := usesUserBuf api h r && r.contig

/-- `need_swap_back_buf` / NC_REQ_BUF_BYTE_SWAP of a write request -/
def swapFlag (api : Api) (h : Hint) (r : Req) : Bool := usesUserBuf api h r && r.needSwap

/-- effect of `ncmpio_pack_xbuf(…, buf, xbuf)` on the USER buffer, given whether the caller passed
    xbuf == buf.  `none` = the user buffer would be overwritten with converted data (the callers
    never pass xbuf == buf together with need_convert — that is part of `user_buffer_restored`). -/
def packUser (r : Req) (xbufIsBuf : Bool) (buf : List UInt8) (nelems : Int) (esize : Nat) : Option (List UInt8) :=
  if r.needConvert then (if xbufIsBuf then none else some buf)          -- putn writes xbuf
  else if r.needSwap then some (if xbufIsBuf then inSwapn buf nelems esize else buf)   -- in_swapn(xbuf)
  else some buf                                                          -- memcpy(xbuf, buf) at most

/-- the user buffer while MPI-IO runs / while the request is pending.
    blocking put_varm: `xbuf = buf; if (need_swap) { in_swapn(xbuf); need_swap_back_buf = 1; }`
    or a fresh xbuf filled by pack_xbuf; nonblocking: pack_xbuf is always called. -/
def duringIO (api : Api) (h : Hint) (r : Req) (buf : List UInt8) (nelems : Int) (esize : Nat) : Option (List UInt8) :=
  match api with
  | .blockingPut =>
    if usesUserBuf api h r then some (if r.needSwap then inSwapn buf nelems esize else buf)
    else packUser r false buf nelems esize
  | .putVard =>       -- the same shape as put_varm: swap in place or pack into a fresh xbuf
    if usesUserBuf api h r then some (if r.needSwap then inSwapn buf nelems esize else buf)
    else packUser r false buf nelems esize
  | _ => packUser r (usesUserBuf api h r) buf nelems esize

/-- the three exits (end of blocking put_varm, req_commit after the wait, ncmpio_cancel): all of
    them test the recorded flag and swap back -/
def afterExit (flag : Bool) (buf : List UInt8) (nelems : Int) (esize : Nat) : List UInt8 :=
  if flag then inSwapn buf nelems esize else buf

/-! ### put_vard / get_vard: getput_vard of ncmpio_vard.c, every exit

`nelems` of the C code (the count handed to MPI-IO) and `bnelems` (the number of primitive elements
in the caller's buffer) are different numbers as soon as the buffer type is a derived type; the
in-place swap and BOTH swap-back sites use `bnelems`. -/

def NC_EIOMISMATCH : Int := -209
def NC_ETYPE_MISMATCH : Int := -230

/-- what getput_vard learns about its arguments -/
structure VardArgs where
  filetypeNull : Bool      -- filetype == MPI_DATATYPE_NULL
  filetypeSize : Int       -- MPI_Type_size(filetype)
  fnelems : Int            -- primitive elements in filetype (ncmpii_dtype_decode)
  ftypeMatches : Bool      -- element type of filetype == MPI type of the variable's external type
  buftypeNull : Bool       -- buftype == MPI_DATATYPE_NULL (bufcount is ignored)
  bufcount : Int
  perType : Int            -- primitive elements in ONE buftype (ncmpii_dtype_decode)
  contig : Bool            -- buftype_is_contig as decoded
  needConvert : Bool
  needSwap : Bool
  xsz : Nat                -- varp->xsz (= el_size when buftype is MPI_DATATYPE_NULL)
  coll : Bool              -- NC_REQ_COLL (the _all API)
  /-- `MPI_Offset filetype_size;` is assigned only AFTER `else if (type_size == 0) goto err_check;`,
      so on that exit err_check tests an indeterminate value.  This field is that value (finding
      vard-zero-size-filetype-uninitialized); 0 = the test happens to fire. -/
  uninitSize : Int := 0
deriving Repr

/-- outcome of the argument checks that precede any buffer work (the `goto err_check`s, in order) -/
inductive VardPre
  | zero                                                 -- zero-length request, err = NC_NOERR
  | zeroSizeMissed                                       -- filetype of size 0, but `filetype_size == 0` read garbage ≠ 0
  | error (e : Int)
  | go (bufcount bnelems : Int) (contig : Bool)          -- bufcount / bnelems / buftype_is_contig after the checks
deriving Repr, DecidableEq

def vardPre (a : VardArgs) : VardPre :=
  if a.filetypeNull then .zero
  else if a.filetypeSize == 0 then (if a.uninitSize == 0 then .zero else .zeroSizeMissed)
  else if !a.ftypeMatches then .error NC_ETYPE_MISMATCH
  else if a.bufcount == 0 && !a.buftypeNull then .zero
  else if a.buftypeNull then .go (a.filetypeSize / (a.xsz : Int)) (a.filetypeSize / (a.xsz : Int)) true
  else if a.fnelems != a.perType * a.bufcount then .error NC_EIOMISMATCH
  else .go a.bufcount (a.perType * a.bufcount) a.contig

structure VardOut where
  err : Int
  ioCalled : Bool          -- ncmpio_read_write reached (an independent call returns before it on error / zero length)
  xbufIsBuf : Bool         -- xbuf == buf
  mpiCount : Int           -- `nelems`, the count handed to ncmpio_read_write (in units of buftype when xbuf == buf)
  during : List UInt8      -- the caller's buffer while MPI-IO runs
  after : List UInt8       -- the caller's buffer when the call returns
  mpiError : Bool := false -- an MPI call with an invalid handle (fatal under the default error handler)
deriving Repr, DecidableEq

/-- the exits that do no buffer work: `need_swap_back_buf` is still 0, xbuf is NULL; an independent
    call returns at once, a collective one takes part with a zero-length request -/
def vardNoWork (a : VardArgs) (e : Int) (buf : List UInt8) : VardOut :=
  { err := e, ioCalled := a.coll, xbufIsBuf := false, mpiCount := 0, during := buf, after := buf }

/-- ncmpi_put_vard / ncmpi_put_vard_all.  (NC_ERANGE of a converting put and malloc / MPI failures
    are outside this model.) -/
def putVard (h : Hint) (a : VardArgs) (buf : List UInt8) : VardOut :=
  match vardPre a with
  | .zero => vardNoWork a NC_NOERR buf
  | .zeroSizeMissed =>
    -- nothing was set up (xbuf NULL, nelems 0, need_swap_back_buf 0); the zero-byte MPI write is made even by an
    -- independent call; the caller's buffer is not touched
    { err := NC_NOERR, ioCalled := true, xbufIsBuf := false, mpiCount := 0, during := buf, after := buf }
  | .error e => vardNoWork a e buf
  | .go bufcount bnelems contig =>
    let can := canSwapInPlace a.needSwap h a.filetypeSize
    if !a.needConvert && (!a.needSwap || (can && contig)) then
      -- xbuf = buf; if (need_swap) { in_swapn(xbuf, bnelems, xsz); need_swap_back_buf = 1; }
      let b1 := if a.needSwap then inSwapn buf bnelems a.xsz else buf
      -- both exits (the early return of err_check and the end of the write branch):
      --   if (need_swap_back_buf) in_swapn(buf, bnelems, xsz);
      let b2 := if a.needSwap then inSwapn b1 bnelems a.xsz else b1
      if bufcount == 0 then
        { err := NC_NOERR, ioCalled := a.coll, xbufIsBuf := true, mpiCount := 0, during := b1, after := b2 }
      else
        { err := NC_NOERR, ioCalled := true, xbufIsBuf := true, mpiCount := bufcount, during := b1, after := b2 }
    else
      -- a fresh xbuf of filetype_size bytes filled by ncmpio_pack_xbuf(buf -> xbuf): buf is only read
      if bufcount == 0 then
        { err := NC_NOERR, ioCalled := a.coll, xbufIsBuf := false, mpiCount := 0, during := buf, after := buf }
      else
        { err := NC_NOERR, ioCalled := true, xbufIsBuf := false, mpiCount := bnelems, during := buf, after := buf }

/-- MPI_File_write receives the caller's address: xbuf == buf and ncmpio_read_write does not pack -/
def putVardMpiUser (h : Hint) (a : VardArgs) : Bool :=
  match vardPre a with
  | .go bufcount _ contig => (putVard h a []).xbufIsBuf && contig && bufcount != 0
  | _ => false

/-- the bytes (external representation) a put of a CONTIGUOUS buffer without type conversion hands
    to MPI-IO: the caller's buffer itself when swapped in place, else the packed and swapped copy -/
def putVardWire (a : VardArgs) (bnelems : Int) (buf : List UInt8) : List UInt8 :=
  if a.needSwap then inSwapn buf bnelems a.xsz else buf

/-- ncmpi_get_vard / _all: which buffer MPI-IO fills (`xbuf == buf` iff no conversion and (no swap or
    contiguous)), and what ncmpio_unpack_xbuf leaves in a contiguous, non-converting caller buffer
    given the `wire` bytes read from the file: swapped in place with `bnelems`. -/
def getVard (a : VardArgs) (buf wire : List UInt8) : VardOut :=
  match vardPre a with
  | .zero => vardNoWork a NC_NOERR buf
  | .zeroSizeMissed =>
    -- after the zero-byte read `if (filetype_size == 0) return status;` reads the same garbage, so
    -- ncmpio_unpack_xbuf(…, etype = MPI_DATATYPE_NULL, …, xbuf = NULL) runs: MPI_Type_size(MPI_DATATYPE_NULL)
    { err := NC_NOERR, ioCalled := true, xbufIsBuf := false, mpiCount := 0, during := buf, after := buf, mpiError := true }
  | .error e => vardNoWork a e buf
  | .go bufcount bnelems contig =>
    let ub := !a.needConvert && (!a.needSwap || contig)
    if bufcount == 0 then vardNoWork a NC_NOERR buf else
    { err := NC_NOERR, ioCalled := true, xbufIsBuf := ub, mpiCount := if ub then bufcount else bnelems,
      during := buf,
      after := if a.needSwap then inSwapn wire bnelems a.xsz else wire }

def getVardMpiUser (a : VardArgs) : Bool :=
  match vardPre a with
  | .go _ _ contig => !a.needConvert && contig
  | _ => false

/-! ### the attached buffer -/

/-- NC_buf_status (buf_addr is not used by the code) -/
structure Slot where
  isUsed : Bool
  reqSize : Int
deriving Repr, DecidableEq, Inhabited

/-- NC_buf; `table` = occupy_table[0 .. tail-1] -/
structure A where
  sizeAllocated : Int
  sizeUsed : Int := 0
  tail : Nat := 0
  table : List Slot := []
deriving Repr, DecidableEq, Inhabited

/-- ncmpio_abuf_malloc: returns the new state and abuf_index -/
def A.malloc (a : A) (nbytes : Int) : A × Nat :=
  ({ a with table := a.table.take a.tail ++ [⟨true, nbytes⟩], sizeUsed := a.sizeUsed + nbytes, tail := a.tail + 1 },
   a.tail)

/-- ncmpio_abuf_dealloc (only called with abuf_index = tail - 1, right after the malloc) -/
def A.dealloc (a : A) (idx : Nat) : A :=
  { a with sizeUsed := a.sizeUsed - ((a.table[idx]?.map (fun s => s.reqSize)).getD 0),
           table := a.table.take idx, tail := a.tail - 1 }

/-- `occupy_table[abuf_index].is_used = 0` -/
def A.release (a : A) (idx : Nat) : A :=
  { a with table := a.table.modify idx (fun s => { s with isUsed := false }) }

/-- the loop of abuf_coalesce over the table read from the tail: (entries that stay, reversed;
    new size_used) -/
def coalGo : List Slot → Int → List Slot × Int
  | [], su => ([], su)
  | s :: rest, su => if s.isUsed then (s :: rest, su) else coalGo rest (su - s.reqSize)

/-- abuf_coalesce -/
def A.coalesce (a : A) : A :=
  let r := coalGo (a.table.take a.tail).reverse a.sizeUsed
  { a with table := r.1.reverse, tail := r.1.length, sizeUsed := r.2 }

/-- NC_PUT_REQ_ALL / NC_REQ_ALL cancel: `abuf->tail = 0; abuf->size_used = 0;` -/
def A.reset (a : A) : A := { a with table := [], tail := 0, sizeUsed := 0 }

/-- a pending write request as far as the attached buffer is concerned -/
structure PReq where
  h : Nat                 -- handle (identity)
  abufIndex : Int         -- -1 for iput
  nbytes : Int
deriving Repr, DecidableEq, Inhabited

/-- per-file state -/
structure S where
  abuf : Option A := none
  pend : List PReq := []
deriving Repr, DecidableEq, Inhabited

def S.attach (s : S) (bufsize : Int) : S × Int :=
  if bufsize ≤ 0 then (s, NC_ENULLBUF)
  else match s.abuf with
    | some _ => (s, NC_EPREVATTACHBUF)
    | none => ({ s with abuf := some { sizeAllocated := bufsize } }, NC_NOERR)

def S.detach (s : S) : S × Int :=
  match s.abuf with
  | none => (s, NC_ENULLABUF)
  | some _ => if s.pend.any (fun p => decide (p.abufIndex ≥ 0)) then (s, NC_EPENDINGBPUT)
              else ({ s with abuf := none }, NC_NOERR)

/-- ncmpi_bput_var* with a request of `nbytes` > 0 bytes in external representation -/
def S.bput (s : S) (h : Nat) (nbytes : Int) : S × Int :=
  match s.abuf with
  | none => (s, NC_ENULLABUF)
  | some a =>
    if a.sizeAllocated - a.sizeUsed < nbytes then (s, NC_EINSUFFBUF)
    else
      let r := a.malloc nbytes
      ({ abuf := some r.1, pend := s.pend ++ [⟨h, (r.2 : Int), nbytes⟩] }, NC_NOERR)

/-- ncmpi_iput_var*: queued, no attached-buffer space -/
def S.iput (s : S) (h : Nat) (nbytes : Int) : S := { s with pend := s.pend ++ [⟨h, -1, nbytes⟩] }

/-- the marking loop over the completed lead requests: every slot whose index is the abuf_index of
    one of them gets is_used = 0 (requests with abuf_index = -1 are iputs) -/
def releaseAll (a : A) (ps : List PReq) : A :=
  { a with table := a.table.mapIdx (fun i s =>
      if ps.any (fun p => decide (p.abufIndex = (i : Int))) then { s with isUsed := false } else s) }

/-- req_commit for a wait that completes the pending write requests `hs` (and possibly reads):
    mark their slots unused, then — only if at least one write request was completed — coalesce -/
def S.complete (s : S) (hs : List Nat) : S :=
  let done := s.pend.filter (fun p => hs.contains p.h)
  let rest := s.pend.filter (fun p => !hs.contains p.h)
  match s.abuf with
  | none => { s with pend := rest }
  | some a =>
    let a1 := releaseAll a done
    { abuf := some (if done.isEmpty then a1 else a1.coalesce), pend := rest }

/-- ncmpio_cancel with an explicit id list: same marking, abuf_coalesce is always called -/
def S.cancel (s : S) (hs : List Nat) : S :=
  let done := s.pend.filter (fun p => hs.contains p.h)
  let rest := s.pend.filter (fun p => !hs.contains p.h)
  match s.abuf with
  | none => { s with pend := rest }
  | some a => { abuf := some (releaseAll a done).coalesce, pend := rest }

/-- ncmpio_cancel(NC_PUT_REQ_ALL / NC_REQ_ALL) -/
def S.cancelAll (s : S) : S :=
  match s.abuf with
  | none => { s with pend := [] }
  | some a => { abuf := some (releaseAll a s.pend).reset, pend := [] }

/-- ncmpi_inq_buffer_usage -/
def S.usage (s : S) : Option Int := s.abuf.map (fun a => a.sizeUsed)
/-- ncmpi_inq_buffer_size -/
def S.size (s : S) : Option Int := s.abuf.map (fun a => a.sizeAllocated)

/-- bytes of the pending buffered puts — what the property says the usage is -/
def pendingBytes (ps : List PReq) : Int :=
  ps.foldl (fun acc p => if p.abufIndex ≥ 0 then acc + p.nbytes else acc) 0

end PnVerif.Abuf
