import PnVerif.Model.Access
import PnVerif.Model.Merge
/-
  Intra-node write aggregation: the pure parts of src/drivers/ncmpio/ncmpio_intra_node.c
  (file owned by the C15 check).

    flatten_subarray()          -> `fsStep`, `fsLoop`, `flattenSubarray`
        breaks one subarray request (start/count/stride on an array with dimension lengths dimlen[],
        element size el_size, first byte at var_begin) into (offset, length) pairs, innermost
        dimension first, then one `while (ndim > 0)` pass per higher dimension
    flatten_req()               -> `recBlocks`, `flattenReq`
        one write request of a variable: scalars, fixed-size variables (one call of flatten_subarray
        on the whole shape) and record variables (start/count/stride/shape advanced past
        dimension 0, one call per record, `var_begin += stride0 * recsize` between them)
    flatten_reqs()              -> `PReq`, `flattenOne`, `flattenReqs`
        the pending put requests of one rank (nonblocking path), one flatten_subarray call per
        non-lead request, appended in queue order
    intra_node_aggregation(), the part executed by the aggregator after all offset-length pairs and
    all write data have arrived (recv_buf = the ranks' packed buffers one after the other):
        bufAddr[i] = bufAddr[i-1] + lengths[i-1]            -> `mkSegsFrom`, `mkSegs`
        qsort_off_len_buf(npairs, offsets, lengths, bufAddr) -> `Merge.sortSegs`  (see note)
        the overlap-resolving / merging loop                 -> `aggrGo`, `aggrPass1`
        packing recv_buf into wr_buf + coalescing of file-adjacent pairs
                                                             -> `wrBuf`, `fileGo`, `filePairs`
        MPI_File_write_at_all(fileType = hindexed(lengths, offsets), wr_buf)
                                                             -> `aggrTransfer` (ASSUMED MPI semantics:
           the k-th byte of wr_buf goes to the k-th byte of the file type, as in Merge.transfer)

  Note on the sort: qsort_off_len_buf is Bentley–McIlroy's quicksort on three parallel arrays, not
  stable.  The model sorts with the stable insertion sort of Model/Merge.lean; the theorems about
  the merge are stated for ANY permutation sorted by offset, and the harness compares the real sort
  with the model only on inputs whose offsets are distinct (otherwise: sortedness + multiset).

  Offsets / sizes of the flattening are `Nat`; the aggregator's triples are `Merge.Seg` (`Int`
  fields, bufAddr is an offset into recv_buf).  Core Lean only.
-/
namespace PnVerif.IntraNode
open PnVerif.Access PnVerif.Merge

/-! ### flatten_subarray -/

/-- one pass of `while (ndim > 0)` for dimension d = ndim-1, with `arrayLen` = Π_{j>d} dimlen[j]
    (elements) and `offs` = offsets[0 .. subarray_len):
      off = start[d]*array_len*el_size;           for j: offsets[j] += off;
      off = array_len*stride[d]*el_size;
      for (i=1; i<count[d]; i++) { for j: offsets[idx++] = offsets[j] + off;
                                   off += array_len*stride[d]*el_size; } -/
def fsStep (el arrayLen s c k : Nat) (offs : List Nat) : List Nat :=
  let base := offs.map (fun x => x + s * arrayLen * el)
  base ++ (List.range (c - 1)).flatMap (fun i => base.map (fun x => x + (i + 1) * (arrayLen * k * el)))

/-- the `while (ndim > 0)` loop; `hi` lists the higher dimensions innermost first, each entry
    (start[d], count[d], stride[d], dimlen[d+1], _) as built by `Access.sfHigher` -/
def fsLoop (el : Nat) : List (Nat × Nat × Nat × Nat × Bool) → Nat → List Nat → List Nat
  | [], _, offs => offs
  | (s, c, k, dl, _) :: rest, arrayLen, offs =>
    let arrayLen := arrayLen * dl                          -- array_len *= dimlen[ndim]
    fsLoop el rest arrayLen (fsStep el arrayLen s c k offs)

/-- flatten_subarray for ndim ≥ 1: offsets in emission order and the common length of the pairs -/
def flattenSubarrayOffs (el varBegin : Nat) (dimlen start count stride : List Nat) : List Nat × Nat :=
  let sL := start.getLastD 0
  let cL := count.getLastD 0
  let kL := stride.getLastD 1
  let npairs := (if kL = 1 then 1 else cL) * prod count.dropLast
  let length := (if kL = 1 then cL else 1) * el
  if npairs = 0 then ([], length) else
  let nstride := if kL = 1 then 1 else cL
  let base := (List.range nstride).map (fun i => varBegin + sL * el + i * (kL * el))
  (fsLoop el (sfHigher start count stride dimlen) 1 base, length)

/-- flatten_subarray: the (offset, length) pairs.  `ndim == 0` is the scalar record variable. -/
def flattenSubarray (el varBegin : Nat) (dimlen start count stride : List Nat) : List (Nat × Nat) :=
  if dimlen.length = 0 then [(varBegin, el)]
  else
    let r := flattenSubarrayOffs el varBegin dimlen start count stride
    r.1.map (fun o => (o, r.2))

/-! ### flatten_req -/

/-- `for (j=0; j<count0; j++) { flatten_subarray(.., var_begin, ..); var_begin += stride0*recsize; }` -/
def recBlocks (el recsize stride0 : Nat) (dimlen start count stride : List Nat) : Nat → Nat → List (Nat × Nat)
  | 0, _ => []
  | n + 1, varBegin =>
    flattenSubarray el varBegin dimlen start count stride ++
      recBlocks el recsize stride0 dimlen start count stride n (varBegin + stride0 * recsize)

/-- flatten_req.  A NULL stride is passed as all ones (the C code allocates `ones[]`). -/
def flattenReq (v : VarLay) (start count stride : List Nat) : List (Nat × Nat) :=
  if v.shape.length = 0 then [(v.begin, v.xsz)]               -- scalar variable
  else if v.isRec then
    -- count0 = count[0]; var_begin += start[0]*recsize; ndims--; start++; count++; shape++; stride++
    recBlocks v.xsz v.recsize (stride.headD 1) (v.shape.drop 1) (start.drop 1) (count.drop 1) (stride.drop 1)
      (count.headD 0) (v.begin + start.headD 0 * v.recsize)
  else flattenSubarray v.xsz v.begin v.shape start count stride

/-! ### flatten_reqs (nonblocking path: the pending put requests of one rank at wait_all time) -/

/-- one entry of the non-lead queue `reqs[i]` with what flatten_reqs reads from its lead request:
    the variable (`lead->varp`) and start/count/stride (`reqs[i].start`, `+ndims`, `+2*ndims`).
    For a record variable every non-lead request lies within ONE record (`start[0]`; the queue has
    already split multi-record requests).  `NC_REQ_STRIDE_NULL` is passed as all ones (`ones[]`). -/
structure PReq where
  v : VarLay
  start : List Nat
  count : List Nat
  stride : List Nat
deriving Repr

/-- the body of the second loop of flatten_reqs for request i:
      shape = varp->shape; var_begin = varp->begin;
      if (IS_RECVAR(varp)) { ndims--; start++; count++; stride++; shape++;
                             var_begin += reqs[i].start[0] * ncp->recsize; }
      flatten_subarray(ndims, xsz, var_begin, shape, start, count, stride, ...) -/
def flattenOne (q : PReq) : List (Nat × Nat) :=
  if q.v.isRec then
    flattenSubarray q.v.xsz (q.v.begin + q.start.headD 0 * q.v.recsize) (q.v.shape.drop 1)
      (q.start.drop 1) (q.count.drop 1) (q.stride.drop 1)
  else flattenSubarray q.v.xsz q.v.begin q.v.shape q.start q.count q.stride

/-- flatten_reqs: the pairs of all requests, appended in queue order (`idx += num`) -/
def flattenReqs (qs : List PReq) : List (Nat × Nat) := qs.flatMap flattenOne

/-- the element offsets a list of (offset, length) pairs stands for -/
def expandPairs (el : Nat) (pairs : List (Nat × Nat)) : List Nat :=
  pairs.flatMap (fun p => (List.range (p.2 / el)).map (fun j => p.1 + j * el))

/-! ### the aggregator: bufAddr, sort, merge, pack, coalesce -/

/-- the triples the aggregator works on: all ranks' (offset, length) pairs in arrival order
    (aggregator first, then its non-aggregators), each with its position in recv_buf:
    `bufAddr[0] = 0; bufAddr[i] = bufAddr[i-1] + lengths[i-1]` -/
def mkSegsFrom : Int → List (Int × Int) → List Seg
  | _, [] => []
  | a, p :: ps => ⟨p.1, p.2, a⟩ :: mkSegsFrom (a + p.2) ps

def mkSegs (inputs : List (Int × Int)) : List Seg := mkSegsFrom 0 inputs

/-- the loop `for (i=0, j=1; j<npairs; j++)` with `cur` = triple i (the triples 0..i-1 are final and
    emitted in front), `rest` = triples j.. :
      if (offsets[i]+lengths[i] >= offsets[j]+lengths[j]) continue;        i covers j
      gap = offsets[i]+lengths[i]-offsets[j];
      if (gap >= 0)  if (bufAddr[i]+lengths[i] == bufAddr[j]+gap) lengths[i] += lengths[j]-gap;
                     else { triple[i+1] = (offsets[j]+gap, lengths[j]-gap, bufAddr[j]+gap); i++; }
      else { i++; if (i<j) triple[i] = triple[j]; } -/
def aggrGo (cur : Seg) : List Seg → List Seg
  | [] => [cur]
  | s :: rest =>
    if cur.off + cur.len ≥ s.off + s.len then aggrGo cur rest
    else
      let gap := cur.off + cur.len - s.off
      if gap ≥ 0 then
        if cur.buf + cur.len = s.buf + gap then
          aggrGo { cur with len := cur.len + (s.len - gap) } rest
        else
          cur :: aggrGo ⟨s.off + gap, s.len - gap, s.buf + gap⟩ rest
      else
        cur :: aggrGo s rest

/-- the merge pass (only reached with npairs > 0) -/
def aggrPass1 : List Seg → List Seg
  | [] => []
  | s :: rest => aggrGo s rest

/-- `memcpy(ptr, recv_buf + bufAddr[j], lengths[j]); ptr += lengths[j];` for all j:
    the recv_buf positions of the bytes of wr_buf, in wr_buf order -/
def wrBuf (l : List Seg) : List Int := l.flatMap (fun s => span s.buf s.len)

/-- the coalescing of the second loop with the current pair (offsets[i], lengths[i]) = (d, b):
      if (offsets[i]+lengths[i] == offsets[j]) lengths[i] += lengths[j];
      else { i++; offsets[i] = offsets[j]; lengths[i] = lengths[j]; } -/
def fileGo (d b : Int) : List Seg → List (Int × Int)
  | [] => [(d, b)]
  | s :: rest =>
    if d + b = s.off then fileGo d (b + s.len) rest
    else (d, b) :: fileGo s.off s.len rest

/-- (offsets[], lengths[]) handed to MPI_Type_create_hindexed -/
def filePairs : List Seg → List (Int × Int)
  | [] => []
  | s :: rest => fileGo s.off s.len rest

/-- the aggregator's work on the arrived pairs: sort, merge; then the file type and wr_buf -/
def aggregate (inputs : List (Int × Int)) : List Seg := aggrPass1 (sortSegs (mkSegs inputs))

/-- (file byte, recv_buf byte) pairs of the aggregator's single write -/
def aggrTransfer (inputs : List (Int × Int)) : List (Int × Int) :=
  (bytesOf (filePairs (aggregate inputs))).zip (wrBuf (aggregate inputs))

end PnVerif.IntraNode
