/-
  C07 — name lookup tables of the ncmpio driver (src/drivers/ncmpio/ncmpio_hash_func.c) and the
  "array of named objects + lookup table" pair used for dimensions (NC_dimarray), variables
  (NC_vararray) and attributes (NC_attrarray, global and per variable).

  Literal transcription of the C control flow:
    NC_nametable nameT[hash_size]; nameT[k].list[0..num)  ↦  Table = List (List Nat), bucket k = T[k]
    HASH_FUNC(name, hash_size)                           ↦  key h size name = h size name % size
  The hash function is a PARAMETER `h : Nat → Name → Nat` (first argument = table size, because
  ncmpio_Bernstein_hash masks with `hsize-1`, which is not a reduction modulo hsize for sizes that
  are not powers of two).  All theorems quantify over every `h` and every size ≥ 1, so collisions
  are covered by quantification.  Core Lean only.
-/
namespace PnVerif.Meta

/-- a (normalised) name: the bytes of the NUL-terminated C string -/
abbrev Name := List Nat
/-- NC_nametable[hash_size]: bucket k holds the ids whose name hashes to k, in insertion order -/
abbrev Table := List (List Nat)

/-- HASH_FUNC(name, hash_size) -/
def key (h : Nat → Name → Nat) (size : Nat) (nm : Name) : Nat := h size nm % size

def bucket (T : Table) (k : Nat) : List Nat := (T[k]?).getD []

/-- calloc'ed table -/
def emptyTable (size : Nat) : Table := List.replicate size []

/-- ncmpio_hash_insert: `nameT[key].list[nameT[key].num] = id; nameT[key].num++` -/
def hashInsert (h : Nat → Name → Nat) (size : Nat) (T : Table) (nm : Name) (id : Nat) : Table :=
  T.modify (key h size nm) (fun l => l ++ [id])

/-- first half of ncmpio_hash_delete / ncmpio_hash_replace / ncmpio_update_name_lookup_table:
    find the first entry of list[] that equals id (NC_ENOTATT / assert if absent), coalesce list[] -/
def hashRemove (h : Nat → Name → Nat) (size : Nat) (T : Table) (nm : Name) (id : Nat) : Option Table :=
  if (bucket T (key h size nm)).contains id then
    some (T.modify (key h size nm) (fun l => l.erase id))
  else none

/-- ncmpio_hash_delete: remove, then "update all IDs that are > id" in every bucket -/
def hashDelete (h : Nat → Name → Nat) (size : Nat) (T : Table) (nm : Name) (id : Nat) : Option Table :=
  (hashRemove h size T nm id).map
    (fun T' => T'.map (fun l => l.map (fun j => if j > id then j - 1 else j)))

/-- ncmpio_hash_replace (attributes) and ncmpio_update_name_lookup_table (dimensions, variables):
    remove the id from the old name's bucket, append it to the new name's bucket -/
def hashReplace (h : Nat → Name → Nat) (size : Nat) (T : Table) (old new : Name) (id : Nat) : Option Table :=
  (hashRemove h size T old id).map (fun T' => hashInsert h size T' new id)

/-- ncmpio_hash_table_copy: `for (i=0; i<hash_size; i++) dest[i] = copy of src[i]` -/
def tableCopy (src : Table) (size : Nat) : Table := (List.range size).map (fun i => bucket src i)

/-! ### objects with a name, and the array + table pair -/

class Named (α : Type) where
  name : α → Name
  setName : α → Name → α
  name_setName : ∀ a n, name (setName a n) = n

structure NArr (α : Type) where
  items : List α
  tab : Table

variable {α : Type} [Named α]

def NArr.names (A : NArr α) : List Name := A.items.map Named.name

def NArr.empty (size : Nat) : NArr α := ⟨[], emptyTable size⟩

/-- NC_finddim / NC_findvar / ncmpio_NC_findattr: `if (ndefined == 0) return not-found;
    key = HASH_FUNC(name); for (i<nameT[key].num) { id = list[i]; if (value[id]->name == name) return id; }` -/
def NArr.find (h : Nat → Name → Nat) (size : Nat) (A : NArr α) (nm : Name) : Option Nat :=
  if A.items.length = 0 then none
  else (bucket A.tab (key h size nm)).find?
        (fun id => match A.items[id]? with
                   | some x => decide (Named.name x = nm)
                   | none => false)

/-- append a new object (ncmpio_def_dim / ncmpio_def_var / incr_NC_attrarray + ncmpio_hash_insert) -/
def NArr.push (h : Nat → Name → Nat) (size : Nat) (A : NArr α) (x : α) : NArr α :=
  { items := A.items ++ [x], tab := hashInsert h size A.tab (Named.name x) A.items.length }

/-- rename object `id` (ncmpio_rename_dim/var/att): table first, then the name field -/
def NArr.rename (h : Nat → Name → Nat) (size : Nat) (A : NArr α) (id : Nat) (new : Name) : Option (NArr α) :=
  match A.items[id]? with
  | none => none
  | some x =>
    (hashReplace h size A.tab (Named.name x) new id).map
      (fun T => { items := A.items.set id (Named.setName x new), tab := T })

/-- ncmpio_del_att: ncmpio_hash_delete, free the object, shuffle down, ndefined-- -/
def NArr.del (h : Nat → Name → Nat) (size : Nat) (A : NArr α) (id : Nat) : Option (NArr α) :=
  match A.items[id]? with
  | none => none
  | some x =>
    (hashDelete h size A.tab (Named.name x) id).map
      (fun T => { items := A.items.eraseIdx id, tab := T })

/-- change fields other than the name of object `id` (overwrite an attribute in place) -/
def NArr.update (A : NArr α) (id : Nat) (f : α → α) : NArr α :=
  { A with items := A.items.modify id f }

/-- ncmpio_dup_NC_dimarray / vararray / attrarray (at redef): objects copied, table copied -/
def NArr.dup (A : NArr α) (size : Nat) : NArr α :=
  { items := A.items, tab := tableCopy A.tab size }

/-- ncmpio_hash_table_populate_NC_dim/var/attr (at open): ids 0..n-1 inserted in order -/
def NArr.ofList (h : Nat → Name → Nat) (size : Nat) (xs : List α) : NArr α :=
  xs.foldl (fun A x => A.push h size x) (NArr.empty size)

/-! ### the sequential reference: plain linear search -/

/-- first index whose name equals `nm` -/
def lookup : List Name → Name → Option Nat
  | [], _ => none
  | x :: r, nm => if x = nm then some 0 else (lookup r nm).map (· + 1)

/-- ncmpio_Bernstein_hash (the HASH_FUNC of this build), transcribed on 32-bit unsigned words:
    `unsigned int hash = len; for each char: hash = hash + (hash<<6) + (unsigned int)str[i];`
    (char is signed on this platform: bytes ≥ 0x80 are sign-extended);
    `return (int)((hash ^ (hash>>10) ^ (hash>>20)) & (hsize-1));` -/
def bernstein (size : Nat) (nm : Name) : Nat :=
  let hash : UInt32 := nm.foldl
    (fun hsh c => hsh + (hsh <<< 6) + (if c ≥ 128 then UInt32.ofNat (c + 0xFFFFFF00) else UInt32.ofNat c))
    (UInt32.ofNat nm.length)
  ((hash ^^^ (hash >>> 10) ^^^ (hash >>> 20)) &&& (UInt32.ofNat size - 1)).toNat

end PnVerif.Meta
