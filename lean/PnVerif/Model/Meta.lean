import PnVerif.Model.MetaTab
/-
  C07 — metadata / namespace operations of one open file, transcribed from
    src/dispatchers/{dimension,variable,attribute}.c, attr_getput.m4   (argument checks, their order)
    src/drivers/ncmpio/ncmpio_{dim,var}.c, ncmpio_attr.m4              (the operations)
    src/drivers/ncmpio/ncmpio_hash_func.c                              (tables: Model/MetaTab.lean)
  for the non-safe-mode, single-communicator path.  Every name lookup goes through the hash tables
  (`NArr.find`), every definition / rename / delete maintains them exactly as the C does.

  Parameters (`Env`): the hash function, Unicode NFC normalisation (ncmpii_utf8_normalize, utf8proc)
  and name legality (ncmpii_check_name).  Not modelled here: header encoding (C03/C04), variable
  layout at enddef (C03/C18), fill at enddef (C16), safe-mode consistency checks (C08).
-/
namespace PnVerif.Meta

/-! ### error codes (pnetcdf.h) -/
def NC_NOERR : Int := 0
def NC_EPERM : Int := -37
def NC_ENOTINDEFINE : Int := -38
def NC_EINDEFINE : Int := -39
def NC_ENAMEINUSE : Int := -42
def NC_ENOTATT : Int := -43
def NC_EBADTYPE : Int := -45
def NC_EBADDIM : Int := -46
def NC_EUNLIMPOS : Int := -47
def NC_ENOTVAR : Int := -49
def NC_EGLOBAL : Int := -50
def NC_EMAXNAME : Int := -53
def NC_EUNLIMIT : Int := -54
def NC_ECHAR : Int := -56
def NC_EBADNAME : Int := -59
def NC_ERANGE : Int := -60
def NC_EDIMSIZE : Int := -63
def NC_EINVAL : Int := -36
def NC_ELATEFILL : Int := -122
def NC_ESTRICTCDF2 : Int := -232
def NC_MAX_NAME : Nat := 256
def NC_MAX_INT : Int := 2147483647
def NC_GLOBAL : Int := -1
def NC_CHAR : Nat := 2
def NC_DOUBLE : Nat := 6
def NC_UINT64 : Nat := 11

/-! ### objects -/
structure Attr where
  name : Name
  xtype : Nat
  nelems : Nat
  /-- attrp->xsz: 4-byte aligned external size; decides whether a data-mode overwrite is allowed -/
  xsz : Nat
  /-- the values: bytes for NC_CHAR, integers otherwise (what get_att_text / get_att_longlong return) -/
  vals : List Int
deriving DecidableEq, Repr

structure Dim where
  name : Name
  size : Nat
deriving DecidableEq, Repr

/-- header content of a variable / a file as plain lists: this is what is written to and read from the
    file header, and it is the state of the sequential reference model (Spec/MetaSpec.lean) -/
structure SVar where
  name : Name
  xtype : Nat
  dimids : List Nat
  atts : List Attr
deriving DecidableEq, Repr

structure SHdr where
  dims : List Dim
  vars : List SVar
  gatts : List Attr
deriving DecidableEq, Repr

structure Var where
  name : Name
  xtype : Nat
  dimids : List Nat
  atts : NArr Attr

instance : Named Attr := ⟨Attr.name, fun a n => { a with name := n }, fun _ _ => rfl⟩
instance : Named Dim := ⟨Dim.name, fun a n => { a with name := n }, fun _ _ => rfl⟩
instance : Named Var := ⟨Var.name, fun a n => { a with name := n }, fun _ _ => rfl⟩
instance : Named SVar := ⟨SVar.name, fun a n => { a with name := n }, fun _ _ => rfl⟩

/-- NC.dims / NC.vars / NC.attrs with their nameT tables -/
structure Hdr where
  dims : NArr Dim
  vars : NArr Var
  gatts : NArr Attr

structure Env where
  /-- HASH_FUNC before reduction: first argument is the table size -/
  h : Nat → Name → Nat
  /-- ncmpii_utf8_normalize (NFC) -/
  nfc : Name → Name
  /-- ncmpii_check_name(name, format) == NC_NOERR -/
  legal : Name → Bool
  /-- code variant: does ncmpio_copy_att reject an extended-type attribute when the output file is
      CDF-1/2 (NC_ESTRICTCDF2, as ncmpi_put_att does)?  false = the source before the repair of defect
      C07-D1, true = with the repair.  The check finds out by execution which variant the tree follows. -/
  copyChk : Bool := false

structure Cfg where
  /-- hints nc_hash_size_dim / _var / _gattr / _vattr -/
  hd : Nat
  hv : Nat
  hg : Nat
  ha : Nat
  /-- NC_FORMAT_CLASSIC = 1, CDF2 = 2, CDF5 = 5 -/
  format : Nat

structure File where
  cfg : Cfg
  hdr : Hdr
  /-- NC_indef(ncp) / pncp->flag & NC_MODE_DEF -/
  indef : Bool
  /-- NC_MODE_RDONLY -/
  rdonly : Bool
  /-- ncp->old: the duplicate made by ncmpio_redef (tables copied with ncmpio_hash_table_copy) -/
  old : Option Hdr
  /-- header content last written to the file by ncmpio_write_header / enddef (none: nothing written yet) -/
  disk : Option SHdr

def Var.abs (v : Var) : SVar := ⟨v.name, v.xtype, v.dimids, v.atts.items⟩
def Hdr.abs (m : Hdr) : SHdr := ⟨m.dims.items, m.vars.items.map Var.abs, m.gatts.items⟩

/-! ### small pure helpers shared with the reference model (no lookups in here) -/

/-- dispatcher checks on a name that is being defined:
    `name == NULL || *name == 0` → NC_EBADNAME; `strlen(name) > NC_MAX_NAME` → NC_EMAXNAME; ncmpii_check_name -/
def chkNameNew (E : Env) (raw : Name) : Int :=
  if raw = [] then NC_EBADNAME
  else if raw.length > NC_MAX_NAME then NC_EMAXNAME
  else if E.legal raw then NC_NOERR else NC_EBADNAME

/-- dispatcher checks on a name that is only looked up -/
def chkNameInq (raw : Name) : Int :=
  if raw = [] then NC_EBADNAME
  else if raw.length > NC_MAX_NAME then NC_EMAXNAME
  else NC_NOERR

/-- x_len_NC_attrV -/
def xlen (xtype nelems : Nat) : Nat :=
  if xtype = 1 ∨ xtype = 2 ∨ xtype = 7 then (nelems + 3) / 4 * 4
  else if xtype = 3 ∨ xtype = 8 then (nelems + nelems % 2) * 2
  else if xtype = 4 ∨ xtype = 9 ∨ xtype = 5 then nelems * 4
  else if xtype = 6 ∨ xtype = 10 ∨ xtype = 11 then nelems * 8
  else 0

/-- check_EBADTYPE_ECHAR for the numeric put_att_<type> APIs (itype != MPI_CHAR) -/
def chkAttType (format : Nat) (xtype : Int) : Int :=
  if xtype ≤ 0 ∨ xtype > 11 then NC_EBADTYPE
  else if format ≤ 2 ∧ xtype > 6 then NC_ESTRICTCDF2
  else if xtype = 2 then NC_ECHAR
  else NC_NOERR

/-- value range of an external integer type and its default fill value (ncmpix_putn_NC_<X>_longlong
    with ERANGE_FILL; proved exact in C09).  Floating-point targets accept every long long. -/
def xrange (xtype : Nat) : Option (Int × Int × Int) :=
  if xtype = 1 then some (-128, 127, -127)
  else if xtype = 3 then some (-32768, 32767, -32767)
  else if xtype = 4 then some (-2147483648, 2147483647, -2147483647)
  else if xtype = 7 then some (0, 255, 255)
  else if xtype = 8 then some (0, 65535, 65535)
  else if xtype = 9 then some (0, 4294967295, 4294967295)
  else if xtype = 10 then some (-9223372036854775808, 9223372036854775807, -9223372036854775806)
  else if xtype = 11 then some (0, 18446744073709551615, 18446744073709551614)
  else none

def convOne (xtype : Nat) (v : Int) : Int × Int :=
  match xrange xtype with
  | some (lo, hi, fill) => if v < lo ∨ v > hi then (fill, NC_ERANGE) else (v, NC_NOERR)
  | none => (v, NC_NOERR)

/-- putn_longlong: every element converted, first error reported -/
def convAll (xtype : Nat) (vs : List Int) : List Int × Int :=
  ((vs.map (convOne xtype)).map Prod.fst,
   ((vs.map (convOne xtype)).map Prod.snd).foldr (fun e acc => if e ≠ 0 then e else acc) 0)

/-- "_FillValue" -/
def fillValueName : Name := [95, 70, 105, 108, 108, 86, 97, 108, 117, 101]

def newAttr (nm : Name) (xtype : Nat) (vals : List Int) : Attr :=
  ⟨nm, xtype, vals.length, xlen xtype vals.length, vals⟩

/-- overwrite in place: `attrp->xsz = xsz; attrp->xtype = xtype; attrp->nelems = nelems;` + values -/
def Attr.overwrite (a : Attr) (xtype : Nat) (vals : List Int) : Attr :=
  { a with xtype := xtype, nelems := vals.length, xsz := xlen xtype vals.length, vals := vals }

/-- only the first dimension of a variable may be the unlimited one (ncmpio_NC_var_shape64) -/
def unlimPosBad (dims : List Dim) (dimids : List Nat) : Bool :=
  match dimids with
  | [] => false
  | _ :: rest => rest.any (fun d => match dims[d]? with | some x => x.size == 0 | none => false)

def hasUnlim (dims : List Dim) : Bool := dims.any (fun d => d.size == 0)

def dimSizeBad (format : Nat) (size : Int) : Bool :=
  if format = 5 then size < 0 else (size > NC_MAX_INT ∨ size < 0)

def dimidsBad (ndims : Nat) (dimids : List Int) : Bool :=
  dimids.any (fun d => d < 0 ∨ ndims = 0 ∨ d ≥ ndims)

def varidBad (nvars : Nat) (varid : Int) : Bool := varid ≠ NC_GLOBAL ∧ (varid < 0 ∨ varid ≥ nvars)

/-! ### attribute arrays: NC_attrarray0 and its update -/

def File.nvars (f : File) : Nat := f.hdr.vars.items.length
def File.ndims (f : File) : Nat := f.hdr.dims.items.length

/-- hash size of the attribute table of `varid` (ncap->hash_size) -/
def File.asize (f : File) (varid : Int) : Nat := if varid = NC_GLOBAL then f.cfg.hg else f.cfg.ha

/-- NC_attrarray0: NULL (→ NC_ENOTVAR) when varid is neither NC_GLOBAL nor a defined variable -/
def File.getAtts (f : File) (varid : Int) : Option (NArr Attr) :=
  if varid = NC_GLOBAL then some f.hdr.gatts
  else if 0 ≤ varid then (f.hdr.vars.items[varid.toNat]?).map (fun v => v.atts)
  else none

def File.setAtts (f : File) (varid : Int) (A : NArr Attr) : File :=
  if varid = NC_GLOBAL then { f with hdr := { f.hdr with gatts := A } }
  else { f with hdr := { f.hdr with vars := f.hdr.vars.update varid.toNat (fun v => { v with atts := A }) } }

/-- ncmpio_write_header after a change made in data mode -/
def File.sync (f : File) : File := if f.indef then f else { f with disk := some f.hdr.abs }

/-! ### dimensions -/

/-- ncmpi_def_dim + ncmpio_def_dim; result = (file, error, dimid) -/
def defDim (E : Env) (f : File) (raw : Name) (size : Int) : File × Int × Int :=
  if ¬ f.indef then (f, NC_ENOTINDEFINE, -1)
  else if chkNameNew E raw ≠ 0 then (f, chkNameNew E raw, -1)
  else if dimSizeBad f.cfg.format size then (f, NC_EDIMSIZE, -1)
  else if size = 0 ∧ hasUnlim f.hdr.dims.items then (f, NC_EUNLIMIT, -1)
  else match f.hdr.dims.find E.h f.cfg.hd (E.nfc raw) with
    | some _ => (f, NC_ENAMEINUSE, -1)
    | none =>
      ({ f with hdr := { f.hdr with dims := f.hdr.dims.push E.h f.cfg.hd (Dim.mk (E.nfc raw) size.toNat) } },
       NC_NOERR, f.ndims)

/-- ncmpi_inq_dimid + ncmpio_inq_dimid -/
def inqDimid (E : Env) (f : File) (raw : Name) : Int × Int :=
  if chkNameInq raw ≠ 0 then (chkNameInq raw, -1)
  else match f.hdr.dims.find E.h f.cfg.hd (E.nfc raw) with
    | some i => (NC_NOERR, i)
    | none => (NC_EBADDIM, -1)

/-- ncmpi_rename_dim + ncmpio_rename_dim -/
def renameDim (E : Env) (f : File) (dimid : Int) (raw : Name) : File × Int :=
  if f.rdonly then (f, NC_EPERM)
  else if chkNameNew E raw ≠ 0 then (f, chkNameNew E raw)
  else if dimid < 0 ∨ dimid ≥ f.ndims then (f, NC_EBADDIM)
  else match f.hdr.dims.find E.h f.cfg.hd (E.nfc raw) with
    | some i => if (i : Int) = dimid then (f, NC_NOERR) else (f, NC_ENAMEINUSE)
    | none =>
      match f.hdr.dims.items[dimid.toNat]? with
      | none => (f, NC_EBADDIM)
      | some d =>
        if ¬ f.indef ∧ d.name.length < (E.nfc raw).length then (f, NC_ENOTINDEFINE)
        else match f.hdr.dims.rename E.h f.cfg.hd dimid.toNat (E.nfc raw) with
          | none => (f, NC_ENOTATT)  -- assert(i != nameT[key].num) in the C: excluded by the invariant
          | some D => (File.sync { f with hdr := { f.hdr with dims := D } }, NC_NOERR)

/-! ### variables -/

/-- ncmpi_def_var + ncmpio_def_var (ndims = dimids.length ≥ 0); result = (file, error, varid) -/
def defVar (E : Env) (f : File) (raw : Name) (xtype : Int) (dimids : List Int) : File × Int × Int :=
  if ¬ f.indef then (f, NC_ENOTINDEFINE, -1)
  else if chkNameNew E raw ≠ 0 then (f, chkNameNew E raw, -1)
  else if xtype ≤ 0 ∨ xtype > 11 then (f, NC_EBADTYPE, -1)
  else if xtype > 6 ∧ f.cfg.format ≤ 2 then (f, NC_ESTRICTCDF2, -1)
  else match f.hdr.vars.find E.h f.cfg.hv (E.nfc raw) with
    | some _ => (f, NC_ENAMEINUSE, -1)
    | none =>
      if dimidsBad f.ndims dimids then (f, NC_EBADDIM, -1)
      else if unlimPosBad f.hdr.dims.items (dimids.map Int.toNat) then (f, NC_EUNLIMPOS, -1)
      else
        let v : Var := Var.mk (E.nfc raw) xtype.toNat (dimids.map Int.toNat) (NArr.empty f.cfg.ha)
        ({ f with hdr := { f.hdr with vars := f.hdr.vars.push E.h f.cfg.hv v } }, NC_NOERR, f.nvars)

/-- ncmpi_inq_varid + ncmpio_inq_varid -/
def inqVarid (E : Env) (f : File) (raw : Name) : Int × Int :=
  if chkNameInq raw ≠ 0 then (chkNameInq raw, -1)
  else match f.hdr.vars.find E.h f.cfg.hv (E.nfc raw) with
    | some i => (NC_NOERR, i)
    | none => (NC_ENOTVAR, -1)

/-- ncmpi_rename_var + ncmpio_rename_var -/
def renameVar (E : Env) (f : File) (varid : Int) (raw : Name) : File × Int :=
  if f.rdonly then (f, NC_EPERM)
  else if varid = NC_GLOBAL then (f, NC_EGLOBAL)
  else if varid < 0 ∨ varid ≥ f.nvars then (f, NC_ENOTVAR)
  else if chkNameNew E raw ≠ 0 then (f, chkNameNew E raw)
  else match f.hdr.vars.find E.h f.cfg.hv (E.nfc raw) with
    | some _ => (f, NC_ENAMEINUSE)
    | none =>
      match f.hdr.vars.items[varid.toNat]? with
      | none => (f, NC_ENOTVAR)
      | some v =>
        if ¬ f.indef ∧ v.name.length < (E.nfc raw).length then (f, NC_ENOTINDEFINE)
        else match f.hdr.vars.rename E.h f.cfg.hv varid.toNat (E.nfc raw) with
          | none => (f, NC_ENOTATT)
          | some V => (File.sync { f with hdr := { f.hdr with vars := V } }, NC_NOERR)

/-! ### attributes -/

/-- the `_FillValue` rules at the top of ncmpio_put_att -/
def fillRule (f : File) (varid : Int) (raw : Name) (xtype nelems : Nat) : Int :=
  if varid ≠ NC_GLOBAL ∧ raw = fillValueName then
    match f.hdr.vars.items[varid.toNat]? with
    | none => NC_NOERR
    | some v =>
      if xtype ≠ v.xtype then NC_EBADTYPE
      else if nelems ≠ 1 then NC_EINVAL
      else match f.old with
        | some o => if varid < o.vars.items.length then NC_ELATEFILL else NC_NOERR
        | none => NC_NOERR
  else NC_NOERR

/-- ncmpi_put_att_text (isText) / ncmpi_put_att_longlong + ncmpio_put_att -/
def putAtt (E : Env) (f : File) (varid : Int) (raw : Name) (isText : Bool) (xtypeArg : Int)
    (vals : List Int) : File × Int :=
  if f.rdonly then (f, NC_EPERM)
  else if varidBad f.nvars varid then (f, NC_ENOTVAR)
  else if chkNameNew E raw ≠ 0 then (f, chkNameNew E raw)
  else if ¬ isText ∧ chkAttType f.cfg.format xtypeArg ≠ 0 then (f, chkAttType f.cfg.format xtypeArg)
  else
    let xtype : Nat := if isText then NC_CHAR else xtypeArg.toNat
    if fillRule f varid raw xtype vals.length ≠ 0 then (f, fillRule f varid raw xtype vals.length)
    else match f.getAtts varid with
      | none => (f, NC_ENOTVAR)
      | some A =>
        let cv := if isText then (vals, NC_NOERR) else convAll xtype vals
        match A.find E.h (f.asize varid) (E.nfc raw) with
        | some idx =>
          match A.items[idx]? with
          | none => (f, NC_ENOTATT)
          | some a =>
            if ¬ f.indef ∧ xlen xtype vals.length > a.xsz then (f, NC_ENOTINDEFINE)
            else (File.sync (f.setAtts varid (A.update idx (fun a => a.overwrite xtype cv.1))), cv.2)
        | none =>
          if ¬ f.indef then (f, NC_ENOTINDEFINE)
          else (File.sync (f.setAtts varid (A.push E.h (f.asize varid) (newAttr (E.nfc raw) xtype cv.1))), cv.2)

/-- ncmpi_rename_att + ncmpio_rename_att -/
def renameAtt (E : Env) (f : File) (varid : Int) (raw rawNew : Name) : File × Int :=
  if f.rdonly then (f, NC_EPERM)
  else if varidBad f.nvars varid then (f, NC_ENOTVAR)
  else if chkNameInq raw ≠ 0 then (f, chkNameInq raw)
  else if chkNameNew E rawNew ≠ 0 then (f, chkNameNew E rawNew)
  else match f.getAtts varid with
    | none => (f, NC_ENOTVAR)
    | some A =>
      match A.find E.h (f.asize varid) (E.nfc raw) with
      | none => (f, NC_ENOTATT)
      | some idx =>
        match A.find E.h (f.asize varid) (E.nfc rawNew) with
        | some _ => (f, NC_ENAMEINUSE)
        | none =>
          match A.items[idx]? with
          | none => (f, NC_ENOTATT)
          | some a =>
            if ¬ f.indef ∧ a.name.length < (E.nfc rawNew).length then (f, NC_ENOTINDEFINE)
            else match A.rename E.h (f.asize varid) idx (E.nfc rawNew) with
              | none => (f, NC_ENOTATT)
              | some A' => (File.sync (f.setAtts varid A'), NC_NOERR)

/-- ncmpi_del_att + ncmpio_del_att -/
def delAtt (E : Env) (f : File) (varid : Int) (raw : Name) : File × Int :=
  if f.rdonly then (f, NC_EPERM)
  else if ¬ f.indef then (f, NC_ENOTINDEFINE)
  else if varidBad f.nvars varid then (f, NC_ENOTVAR)
  else if chkNameInq raw ≠ 0 then (f, chkNameInq raw)
  else match f.getAtts varid with
    | none => (f, NC_ENOTVAR)
    | some A =>
      match A.find E.h (f.asize varid) (E.nfc raw) with
      | none => (f, NC_ENOTATT)
      | some idx =>
        match A.del E.h (f.asize varid) idx with
        | none => (f, NC_ENOTATT)
        | some A' => (f.setAtts varid A', NC_NOERR)

/-- ncmpi_copy_att + ncmpio_copy_att.  `same` = (ncdp_in == ncdp_out); when it is true `fin` and
    `fout` are the same file.  Result: the new output file and the error code. -/
def copyAtt (E : Env) (fin : File) (varidIn : Int) (raw : Name) (fout : File) (varidOut : Int)
    (same : Bool) : File × Int :=
  if fout.rdonly then (fout, NC_EPERM)
  else if varidBad fin.nvars varidIn then (fout, NC_ENOTVAR)
  else if varidBad fout.nvars varidOut then (fout, NC_ENOTVAR)
  else if chkNameInq raw ≠ 0 then (fout, chkNameInq raw)
  else match fin.getAtts varidIn, fout.getAtts varidOut with
    | some Ain, some Aout =>
      match Ain.find E.h (fin.asize varidIn) (E.nfc raw) with
      | none => (fout, NC_ENOTATT)
      | some i =>
        match Ain.items[i]? with
        | none => (fout, NC_ENOTATT)
        | some ia =>
          if E.copyChk = true ∧ fout.cfg.format ≤ 2 ∧ ia.xtype > 6 then (fout, NC_ESTRICTCDF2) else
          match Aout.find E.h (fout.asize varidOut) (E.nfc raw) with
          | some idx =>
            if same ∧ varidIn = varidOut then (fout, NC_NOERR)
            else match Aout.items[idx]? with
              | none => (fout, NC_ENOTATT)
              | some oa =>
                if ¬ fout.indef ∧ ia.xsz > oa.xsz then (fout, NC_ENOTINDEFINE)
                else (File.sync (fout.setAtts varidOut
                        (Aout.update idx (fun a => { a with xsz := ia.xsz, xtype := ia.xtype,
                                                            nelems := ia.nelems, vals := ia.vals }))), NC_NOERR)
          | none =>
            if ¬ fout.indef then (fout, NC_ENOTINDEFINE)
            else (File.sync (fout.setAtts varidOut
                    (Aout.push E.h (fout.asize varidOut) { ia with name := E.nfc raw })), NC_NOERR)
    | _, _ => (fout, NC_ENOTVAR)

/-! ### mode changes, close, open -/

def Hdr.dup (m : Hdr) (c : Cfg) : Hdr :=
  { dims := m.dims.dup c.hd,
    vars := { items := m.vars.items.map (fun v => { v with atts := v.atts.dup c.ha }),
              tab := tableCopy m.vars.tab c.hv },
    gatts := m.gatts.dup c.hg }

/-- ncmpi_enddef (layout, fill and the header write are the business of C03/C06/C16) -/
def enddef (f : File) : File × Int :=
  if ¬ f.indef then (f, NC_ENOTINDEFINE)
  else ({ f with indef := false, old := none, disk := some f.hdr.abs }, NC_NOERR)

/-- ncmpi_redef: ncp->old = ncmpio_dup_NC(ncp) -/
def redef (f : File) : File × Int :=
  if f.rdonly then (f, NC_EPERM)
  else if f.indef then (f, NC_EINDEFINE)
  else ({ f with indef := true, old := some (f.hdr.dup f.cfg) }, NC_NOERR)

/-- ncmpi_close: leaves define mode first; what stays behind is the header content on disk -/
def close (f : File) : Option SHdr := if f.indef then some f.hdr.abs else f.disk

/-- ncmpi_create -/
def create (c : Cfg) : File :=
  { cfg := c, hdr := ⟨NArr.empty c.hd, NArr.empty c.hv, NArr.empty c.hg⟩,
    indef := true, rdonly := false, old := none, disk := none }

/-- ncmpi_open: header decoded into the arrays, then ncmpio_hash_table_populate_NC_dim/var/attr -/
def openFile (E : Env) (c : Cfg) (s : SHdr) (rdonly : Bool) : File :=
  { cfg := c,
    hdr := { dims := NArr.ofList E.h c.hd s.dims,
             vars := NArr.ofList E.h c.hv
                       (s.vars.map (fun v => Var.mk v.name v.xtype v.dimids (NArr.ofList E.h c.ha v.atts))),
             gatts := NArr.ofList E.h c.hg s.gatts },
    indef := false, rdonly := rdonly, old := none, disk := some s }

/-! ### inquiries (independent calls; they never change the file) -/

/-- ncmpi_inq_dim: (error, name, length); an unlimited dimension reports numrecs (0 here: no data written) -/
def inqDim (f : File) (dimid : Int) : Int × Name × Nat :=
  if dimid < 0 ∨ dimid ≥ f.ndims then (NC_EBADDIM, [], 0)
  else match f.hdr.dims.items[dimid.toNat]? with
    | some d => (NC_NOERR, d.name, d.size)
    | none => (NC_EBADDIM, [], 0)

/-- ncmpi_inq_var: (error, name, type, dimids, natts) -/
def inqVar (f : File) (varid : Int) : Int × Name × Nat × List Nat × Nat :=
  if varid = NC_GLOBAL then (NC_EGLOBAL, [], 0, [], 0)
  else if varid < 0 ∨ varid ≥ f.nvars then (NC_ENOTVAR, [], 0, [], 0)
  else match f.hdr.vars.items[varid.toNat]? with
    | some v => (NC_NOERR, v.name, v.xtype, v.dimids, v.atts.items.length)
    | none => (NC_ENOTVAR, [], 0, [], 0)

/-- ncmpi_inq_varnatts / ncmpi_inq_natts -/
def inqNatts (f : File) (varid : Int) : Int × Nat :=
  if varidBad f.nvars varid then (NC_ENOTVAR, 0)
  else match f.getAtts varid with
    | some A => (NC_NOERR, A.items.length)
    | none => (NC_ENOTVAR, 0)

/-- ncmpi_inq_attname -/
def inqAttname (f : File) (varid : Int) (attnum : Int) : Int × Name :=
  if varidBad f.nvars varid then (NC_ENOTVAR, [])
  else match f.getAtts varid with
    | none => (NC_ENOTVAR, [])
    | some A =>
      if attnum < 0 ∨ A.items.length = 0 ∨ attnum ≥ A.items.length then (NC_ENOTATT, [])
      else match A.items[attnum.toNat]? with
        | some a => (NC_NOERR, a.name)
        | none => (NC_ENOTATT, [])

/-- ncmpi_inq_attid -/
def inqAttid (E : Env) (f : File) (varid : Int) (raw : Name) : Int × Int :=
  if varidBad f.nvars varid then (NC_ENOTVAR, -1)
  else if chkNameInq raw ≠ 0 then (chkNameInq raw, -1)
  else match f.getAtts varid with
    | none => (NC_ENOTVAR, -1)
    | some A => match A.find E.h (f.asize varid) (E.nfc raw) with
      | some i => (NC_NOERR, i)
      | none => (NC_ENOTATT, -1)

/-- ncmpi_inq_att: (error, type, length) -/
def inqAtt (E : Env) (f : File) (varid : Int) (raw : Name) : Int × Nat × Nat :=
  if varidBad f.nvars varid then (NC_ENOTVAR, 0, 0)
  else if chkNameInq raw ≠ 0 then (chkNameInq raw, 0, 0)
  else match f.getAtts varid with
    | none => (NC_ENOTVAR, 0, 0)
    | some A => match A.find E.h (f.asize varid) (E.nfc raw) with
      | none => (NC_ENOTATT, 0, 0)
      | some i => match A.items[i]? with
        | some a => (NC_NOERR, a.xtype, a.nelems)
        | none => (NC_ENOTATT, 0, 0)

/-- ncmpi_get_att_text (asText) / ncmpi_get_att_longlong + ncmpio_get_att -/
def getAtt (E : Env) (f : File) (varid : Int) (raw : Name) (asText : Bool) : Int × List Int :=
  if varidBad f.nvars varid then (NC_ENOTVAR, [])
  else if chkNameInq raw ≠ 0 then (chkNameInq raw, [])
  else match f.getAtts varid with
    | none => (NC_ENOTVAR, [])
    | some A => match A.find E.h (f.asize varid) (E.nfc raw) with
      | none => (NC_ENOTATT, [])
      | some i => match A.items[i]? with
        | none => (NC_ENOTATT, [])
        | some a =>
          if a.nelems = 0 then (NC_NOERR, [])
          else if (a.xtype = NC_CHAR) ≠ asText then (NC_ECHAR, [])
          else (NC_NOERR, a.vals)

/-! ### several files at once: the world, and one step of a program -/

def NC_EBADID : Int := -33

structure World where
  /-- the open handle of each slot -/
  files : List (Option File)
  /-- (format, header content) of the file behind each slot, once it has been closed -/
  disks : List (Option (Nat × SHdr))

inductive MOp where
  | create (s : Nat) (c : Cfg)
  | openF (s : Nat) (hd hv hg ha : Nat) (write : Bool)
  | close (s : Nat)
  | enddef (s : Nat)
  | redef (s : Nat)
  | defDim (s : Nat) (raw : Name) (size : Int)
  | renameDim (s : Nat) (dimid : Int) (raw : Name)
  | defVar (s : Nat) (raw : Name) (xtype : Int) (dimids : List Int)
  | renameVar (s : Nat) (varid : Int) (raw : Name)
  | putAtt (s : Nat) (varid : Int) (raw : Name) (isText : Bool) (xtype : Int) (vals : List Int)
  | renameAtt (s : Nat) (varid : Int) (raw rawNew : Name)
  | delAtt (s : Nat) (varid : Int) (raw : Name)
  | copyAtt (s : Nat) (varid : Int) (raw : Name) (s2 : Nat) (varid2 : Int)

def World.file (w : World) (s : Nat) : Option File := (w.files[s]?).getD none
def World.disk (w : World) (s : Nat) : Option (Nat × SHdr) := (w.disks[s]?).getD none

/-- apply a per-file operation to the open file of slot `s` (NC_EBADID when the slot is not open) -/
def World.on (w : World) (s : Nat) (g : File → File × Int × Int) : World × Int × Int :=
  match w.file s with
  | none => (w, NC_EBADID, -1)
  | some f => ({ w with files := w.files.set s (some (g f).1) }, (g f).2)

/-- one API call of a program; result = (world, error code, id returned or -1) -/
def wstep (E : Env) (w : World) : MOp → World × Int × Int
  | .create s c =>
    match w.file s with
    | some _ => (w, NC_EINVAL, -1)
    | none => ({ files := w.files.set s (some (create c)), disks := w.disks.set s none }, NC_NOERR, -1)
  | .openF s hd hv hg ha write =>
    match w.file s, w.disk s with
    | none, some (fmt, d) =>
      ({ w with files := w.files.set s (some (openFile E ⟨hd, hv, hg, ha, fmt⟩ d (!write))) }, NC_NOERR, -1)
    | _, _ => (w, NC_EINVAL, -1)
  | .close s =>
    match w.file s with
    | none => (w, NC_EBADID, -1)
    | some f =>
      ({ files := w.files.set s none, disks := w.disks.set s ((close f).map (fun d => (f.cfg.format, d))) },
       NC_NOERR, -1)
  | .enddef s => w.on s (fun f => ((enddef f).1, (enddef f).2, -1))
  | .redef s => w.on s (fun f => ((redef f).1, (redef f).2, -1))
  | .defDim s raw size => w.on s (fun f => defDim E f raw size)
  | .renameDim s dimid raw => w.on s (fun f => ((renameDim E f dimid raw).1, (renameDim E f dimid raw).2, -1))
  | .defVar s raw xtype dimids => w.on s (fun f => defVar E f raw xtype dimids)
  | .renameVar s varid raw => w.on s (fun f => ((renameVar E f varid raw).1, (renameVar E f varid raw).2, -1))
  | .putAtt s varid raw isText xtype vals =>
    w.on s (fun f => ((putAtt E f varid raw isText xtype vals).1, (putAtt E f varid raw isText xtype vals).2, -1))
  | .renameAtt s varid raw rawNew =>
    w.on s (fun f => ((renameAtt E f varid raw rawNew).1, (renameAtt E f varid raw rawNew).2, -1))
  | .delAtt s varid raw => w.on s (fun f => ((delAtt E f varid raw).1, (delAtt E f varid raw).2, -1))
  | .copyAtt s varid raw s2 varid2 =>
    match w.file s with
    | none => (w, NC_EBADID, -1)
    | some fin =>
      w.on s2 (fun fout => ((copyAtt E fin varid raw fout varid2 (s == s2)).1,
                            (copyAtt E fin varid raw fout varid2 (s == s2)).2, -1))

/-- a whole program: the list of (error, id) results -/
def wrun (E : Env) : World → List MOp → World × List (Int × Int)
  | w, [] => (w, [])
  | w, op :: rest =>
    let r := wstep E w op
    let rr := wrun E r.1 rest
    (rr.1, r.2 :: rr.2)

def World.init (nslots : Nat) : World := ⟨List.replicate nslots none, List.replicate nslots none⟩

end PnVerif.Meta
