import PnVerif.Model.Header
/-
  Model/Tools.lean — executable models of the offline utilities (hand transcription; tied to the C by
  the C20 correspondence harness, checks/c20.py).

    src/utils/ncvalidator/ncvalidator.c
        check_signature + magic test of val_get_NC      → `vMagic`
        get_uint32 / get_uint64 over the read window    → `rdU32`, `rdU64`   (flat, zero-extended: val_fetch
                                                           memset()s the window before every read())
        hdr_get_NON_NEG                                 → `vNonNeg`
        val_get_NC_tag                                  → `vTag`
        hdr_get_name                                    → `vName`        (padding bytes compared with zero)
        val_get_NC_dim / val_get_NC_dimarray            → `vDim`, `vDims`, `vDimArray`
        val_get_nc_type                                 → `vType`
        val_get_NC_attrV / val_get_NC_attr / _attrarray → `vAttr`, `vAttrArray`
        val_get_NC_var / val_get_NC_vararray            → `vVar`, `vVarArray`
        var_shape64 / compute_var_shape                 → `vVarShape64`, `vCvsLoop`, `vComputeVarShape`
        val_NC_check_vlens                              → `Header.checkVlens`   (same text as the library's)
        val_NC_check_voff                               → `Header.checkVoffs`   (same tests; the validator keeps
                                                           scanning after the first failure, every failure sets
                                                           the same code NC_ENOTNC: same result)
        val_get_NC                                      → `vGetNC`
        main (exit status)                              → `validateCode`, `validate`
    src/utils/ncmpidiff/cdfdiff.c   main                → `toolDiff cdfdiffCfg`
    src/utils/ncmpidiff/ncmpidiff.c main                → `toolDiff ncmpidiffCfg`
    src/utils/ncoffsets/ncoffsets.c main (numbers only) → `offsetsReport`

  Not modelled (differential only): ncmpidump (CDL printing), ncmpigen (yacc grammar), the 1 MiB read
  window of the validator (every window starts 4-byte aligned, so the flat reader is what it computes),
  malloc failure for huge positive sizes, the HDF5 signature scan of check_signature (any non-CDF file
  is rejected either way).
  64-bit fields with the sign bit set (CDF-5 only) are OUTSIDE the modelled domain: the C converts them
  to negative `long long`, then to `int` by implementation-defined casts, with undefined behaviour on
  several paths (name[-1] = 0 after malloc(0); memcmp of 2^63 bytes).  The model rejects them with the
  pseudo-error `eneg64`; the harness uses such inputs for the property oracle only.
  Core Lean only.
-/
namespace PnVerif.Tools
open PnVerif.Spec PnVerif.Header

/-! ## 1. ncvalidator -/

inductive VErr where
  | esmall      -- check_signature: fewer than 8 bytes ("invalid file"), exit 1
  | enotnc | emaxdims | emaxatts | emaxvars | ebadtype | ebaddim | eunlimpos | eunlimit | evarsize
  | eneg64      -- not a C error: 64-bit field with the sign bit set (outside the modelled domain)
  deriving DecidableEq, Repr, Inhabited

def VErr.name : VErr → String
  | .esmall => "esmall" | .enotnc => "enotnc" | .emaxdims => "emaxdims" | .emaxatts => "emaxatts"
  | .emaxvars => "emaxvars" | .ebadtype => "ebadtype" | .ebaddim => "ebaddim" | .eunlimpos => "eunlimpos"
  | .eunlimit => "eunlimit" | .evarsize => "evarsize" | .eneg64 => "eneg64"

/-- Code variants of ncvalidator.  `asIs` is the pinned source; each flag is one repair (findings C20-F3..F6).
    The check finds out by replaying the witnesses which variant the tree follows and tells the driver. -/
structure VCfg where
  /-- F3: main() fails when the file is shorter than the header that was read -/
  strictLen  : Bool
  /-- F4: hdr_get_NON_NEG, numrecs and `begin` reject a set sign bit; vsize is read as a raw word -/
  strictSign : Bool
  /-- F5: an empty list must carry ABSENT or its own tag -/
  strictTag  : Bool
  /-- F6: a dimension id is range-checked as an unsigned 64-bit value before it is narrowed to `int` -/
  dimid64    : Bool
  deriving DecidableEq, Repr, Inhabited

def VCfg.asIs : VCfg := ⟨false, false, false, false⟩
def VCfg.repaired : VCfg := ⟨true, true, true, true⟩

/-- reader over the rest of the file; reads past the end see zeros -/
def VP (α : Type) : Type := Bytes → Except VErr (α × Bytes)

def VP.pure {α : Type} (a : α) : VP α := fun s => .ok (a, s)
def VP.fail {α : Type} (e : VErr) : VP α := fun _ => .error e
def VP.bind {α β : Type} (p : VP α) (f : α → VP β) : VP β := fun s =>
  match p s with
  | .ok (a, s') => f a s'
  | .error e => .error e

instance : Monad VP where
  pure := VP.pure
  bind := VP.bind

/-- get_uint32 -/
def rdU32 : VP Nat := fun s => .ok (beNat (ztake 4 s), s.drop 4)
/-- get_uint64, `(long long)` of it must not be negative (see the header comment) -/
def rdU64 : VP Nat := fun s =>
  let v := beNat (ztake 8 s)
  if v ≥ 9223372036854775808 then .error .eneg64 else .ok (v, s.drop 8)
/-- the copy loops of hdr_get_name / val_get_NC_attrV, and the bytes memcmp()ed as padding -/
def rdBytes (n : Nat) : VP Bytes := fun s => .ok (ztake n s, s.drop n)

/-- get_uint64 as it stands (any word) -/
def rdU64raw : VP Nat := fun s => .ok (beNat (ztake 8 s), s.drop 8)

/-- hdr_get_NON_NEG.  Repaired (F4): a word with the sign bit set is NC_ENOTNC. -/
def vNonNeg (c : VCfg) (ver : Nat) : VP Nat :=
  if c.strictSign then
    (if ver < 5 then (do
        let v ← rdU32
        if v > 2147483647 then VP.fail .enotnc else pure v)
     else (do
        let v ← rdU64raw
        if v ≥ 9223372036854775808 then VP.fail .enotnc else pure v))
  else (if ver < 5 then rdU32 else rdU64)

/-- the vsize field: hdr_get_NON_NEG as it stands; repaired (F4): a raw word (vsize is redundant, 2^32-1 is legal) -/
def vVsize (c : VCfg) (ver : Nat) : VP Nat :=
  if c.strictSign then (if ver < 5 then rdU32 else rdU64raw) else vNonNeg c ver

/-- numrecs in val_get_NC: any word as it stands; repaired (F4): NON_NEG or STREAMING (all bits set) -/
def vNumrecs (c : VCfg) (ver : Nat) : VP Nat :=
  if c.strictSign then
    (if ver < 5 then (do
        let v ← rdU32
        if v > 2147483647 ∧ v ≠ 4294967295 then VP.fail .enotnc else pure v)
     else (do
        let v ← rdU64raw
        if v ≥ 9223372036854775808 ∧ v ≠ 18446744073709551615 then VP.fail .enotnc else pure v))
  else (if ver < 5 then rdU32 else rdU64)

def allZero (b : Bytes) : Bool := b.all (fun x => x == 0)

/-- what the validator remembers besides fatal errors.  `pad`: every padding byte was null (else the exit
    status is NC_ENULLPAD).  `tag` is a GHOST of the model, not computed by the C: every empty list was
    written as ABSENT (tag ZERO; the C accepts any of the three list tags there, finding C20-F5). -/
structure VFlags where
  pad : Bool
  tag : Bool
  deriving DecidableEq, Repr, Inhabited

def VFlags.ok : VFlags := ⟨true, true⟩
def VFlags.ofPad (p : Bool) : VFlags := ⟨p, true⟩
def VFlags.and (a b : VFlags) : VFlags := ⟨a.pad && b.pad, a.tag && b.tag⟩

/-- val_get_NC_tag: only 0, 10, 11, 12 are tags -/
def vTag : VP Nat := do
  let tag ← rdU32
  if tag = 0 ∨ tag = 10 ∨ tag = 11 ∨ tag = 12 then pure tag else VP.fail .enotnc

/-- hdr_get_name: (name, padding is null).  Non-null padding is NC_ENULLPAD, not fatal. -/
def vName (c : VCfg) (ver : Nat) : VP (Bytes × Bool) := do
  let nchars ← vNonNeg c ver
  let s ← rdBytes nchars
  let padding := rndup nchars 4 - nchars
  if padding > 0 then do
    let pad ← rdBytes padding
    pure (s, allZero pad)
  else pure (s, true)

/-- val_get_NC_dim; `haveUnlim` is `ncap->unlimited_id != -1` -/
def vDim (c : VCfg) (ver : Nat) (haveUnlim : Bool) : VP (Dim × VFlags) := do
  let (name, ok) ← vName c ver
  let dimLength ← vNonNeg c ver
  if haveUnlim ∧ dimLength = 0 then VP.fail .eunlimit
  else pure ({ name := name, size := dimLength }, VFlags.ofPad ok)

/-- the for-loop of val_get_NC_dimarray -/
def vDims (c : VCfg) (ver : Nat) : Nat → Bool → VP (List Dim × VFlags)
  | 0, _ => pure ([], VFlags.ok)
  | n + 1, haveUnlim => do
    let (d, ok) ← vDim c ver haveUnlim
    let (ds, oks) ← vDims c ver n (haveUnlim || d.size == 0)
    pure (d :: ds, ok.and oks)

/-- the common text of val_get_NC_dimarray / _attrarray / _vararray: tag, nelems, limit, any (valid)
    tag accepted when nelems = 0, else the right tag demanded and the items read -/
def vArray {α : Type} (c : VCfg) (ver : Nat) (tagWant maxN : Nat) (errMax : VErr) (items : Nat → VP (List α × VFlags)) :
    VP (List α × VFlags) := do
  let tag ← vTag
  let n ← vNonNeg c ver
  if n > maxN then VP.fail errMax
  else if n = 0 then
    -- repaired (F5): dim_list = ABSENT | NC_DIMENSION nelems [dim ...]
    (if c.strictTag ∧ tag ≠ 0 ∧ tag ≠ tagWant then VP.fail .enotnc else pure ([], ⟨true, tag == 0⟩))
  else if tag ≠ tagWant then VP.fail .enotnc
  else items n

def vDimArray (c : VCfg) (ver : Nat) : VP (List Dim × VFlags) :=
  vArray c ver NC_DIMENSION NC_MAX_DIMS .emaxdims (fun n => vDims c ver n false)

/-- val_get_nc_type -/
def vType (ver : Nat) : VP NcType := do
  let xtype ← rdU32
  if xtype < 1 then VP.fail .ebadtype
  else if ver < 5 ∧ xtype > 6 then VP.fail .ebadtype
  else if ¬ ver < 5 ∧ xtype > 11 then VP.fail .ebadtype
  else match NcType.ofCode xtype with
    | some t => pure t
    | none => VP.fail .ebadtype          -- not reachable: 1 ≤ xtype ≤ 11 here

/-- val_get_NC_attr (new_NC_attr + val_get_NC_attrV) -/
def vAttr (c : VCfg) (ver : Nat) : VP (Att × VFlags) := do
  let (name, ok1) ← vName c ver
  let type ← vType ver
  let nelems ← vNonNeg c ver
  let nbytes := nelems * type.size
  let xsz := if nelems > 0 then xlenAttrV type nelems else 0
  let padding := xsz - nbytes
  let value ← rdBytes nbytes
  let a : Att := { name := name, xtype := type, nelems := nelems, xvalue := value }
  if padding > 0 then do
    let pad ← rdBytes padding
    pure (a, VFlags.ofPad (ok1 && allZero pad))
  else pure (a, VFlags.ofPad ok1)

/-- `n` items in sequence, null-padding flags and-ed -/
def vN {α : Type} (item : VP (α × VFlags)) : Nat → VP (List α × VFlags)
  | 0 => pure ([], VFlags.ok)
  | n + 1 => do
    let (x, ok) ← item
    let (xs, oks) ← vN item n
    pure (x :: xs, ok.and oks)

def vAttrArray (c : VCfg) (ver : Nat) : VP (List Att × VFlags) :=
  vArray c ver NC_ATTRIBUTE NC_MAX_ATTRS .emaxatts (fun n => vN (vAttr c ver) n)

/-- `(int)` of a dimid field: low 32 bits, two's complement; `none` = negative -/
def dimidC (v : Nat) : Option Nat :=
  let w := v % 4294967296
  if w ≥ 2147483648 then none else some w

/-- one dimid of val_get_NC_var: `if (dimid >= f_ndims) NC_EBADDIM` on the `int` value (a negative
    one passes here and is caught by compute_var_shape); the field is kept as read -/
def vDimid (c : VCfg) (ver : Nat) (fNdims : Nat) : VP (Nat × VFlags) :=
  if c.dimid64 then do
    -- repaired (F6): compared as an unsigned 64-bit value
    let v ← (if ver < 5 then rdU32 else rdU64raw)
    if v ≥ fNdims then VP.fail .ebaddim else pure (v, VFlags.ok)
  else do
    let v ← (if ver < 5 then rdU32 else rdU64)
    match dimidC v with
    | some d => if d ≥ fNdims then VP.fail .ebaddim else pure (v, VFlags.ok)
    | none => pure (v, VFlags.ok)

/-- the `begin` field.  Repaired (F4): OFFSET is a non-negative INT (CDF-1) / INT64 (CDF-2, 5). -/
def vBegin (c : VCfg) (ver : Nat) : VP Nat :=
  if c.strictSign then
    (if ver = 1 then (do
        let v ← rdU32
        if v > 2147483647 then VP.fail .enotnc else pure v)
     else (do
        let v ← rdU64raw
        if v ≥ 9223372036854775808 then VP.fail .enotnc else pure v))
  else (if ver = 1 then rdU32 else rdU64)

/-- val_get_NC_var -/
def vVar (c : VCfg) (ver : Nat) (fNdims : Nat) : VP (Var × VFlags) := do
  let (name, ok1) ← vName c ver
  let ndims ← vNonNeg c ver
  if ndims > NC_MAX_VAR_DIMS then VP.fail .emaxdims else do
  let (dimids, _) ← vN (vDimid c ver fNdims) ndims
  let (atts, ok2) ← vAttrArray c ver
  let xtype ← vType ver
  let vsize ← vVsize c ver
  let begin_ ← vBegin c ver
  pure ({ name := name, dimids := dimids, atts := atts, xtype := xtype, vsize := vsize, begin := begin_ }, (VFlags.ofPad ok1).and ok2)

def vVarArray (c : VCfg) (ver : Nat) (fNdims : Nat) : VP (List Var × VFlags) :=
  vArray c ver NC_VARIABLE NC_MAX_VARS .emaxvars (fun n => vN (vVar c ver fNdims) n)

/-- check_signature (main) and the magic test of val_get_NC -/
def vMagic (file : Bytes) : Except VErr Fmt :=
  if file.length < 8 then .error .esmall else
  match file with
  | 0x43 :: 0x44 :: 0x46 :: v :: _ =>
    if v = 1 then .ok .cdf1 else if v = 2 then .ok .cdf2 else if v = 5 then .ok .cdf5 else .error .enotnc
  | _ => .error .enotnc

/-- the reading part of val_get_NC after the magic -/
def vBody (c : VCfg) (f : Fmt) : VP (Hdr × VFlags) := do
  let ver := f.version
  let numrecs ← vNumrecs c ver
  let (dims, ok1) ← vDimArray c ver
  let (gatts, ok2) ← vAttrArray c ver
  let (vars, ok3) ← vVarArray c ver dims.length
  pure ({ fmt := f, numrecs := numrecs, dims := dims, gatts := gatts, vars := vars }, (ok1.and ok2).and ok3)

/-- the shape[] loop of var_shape64 on the `int` dimids (`i` = index of the head of `ids`) -/
def vShapeOf (dims : List Dim) : List Nat → Nat → Except VErr (List Nat)
  | [], _ => .ok []
  | id :: ids, i =>
    match dimidC id with
    | none => .error .ebaddim
    | some d =>
      match dims[d]? with
      | none => .error .ebaddim
      | some dm =>
        if dm.size = 0 ∧ i ≠ 0 then .error .eunlimpos
        else match vShapeOf dims ids (i + 1) with
          | .ok sh => .ok (dm.size :: sh)
          | .error e => .error e

/-- var_shape64: (shape, len).  No size test here (val_NC_check_vlens does it afterwards). -/
def vVarShape64 (dims : List Dim) (v : Var) : Except VErr (List Nat × Nat) :=
  match vShapeOf dims v.dimids 0 with
  | .error e => .error e
  | .ok shape =>
    let len := shapeProduct shape * v.xtype.size
    let len := if len % 4 > 0 then len + (4 - len % 4) else len
    .ok (shape, len)

/-- the dimid pre-check at the top of the loop of compute_var_shape -/
def vDimidsOk (ndims : Nat) (ids : List Nat) : Bool :=
  ids.all (fun id => match dimidC id with | some d => d < ndims | none => false)

/-- the loop of compute_var_shape -/
def vCvsLoop (dims : List Dim) : List Var → CvsState → Except VErr CvsState
  | [], st => .ok st
  | v :: vs, st =>
    if ¬ vDimidsOk dims.length v.dimids then .error .ebaddim else
    match vVarShape64 dims v with
    | .error e => .error e
    | .ok (shape, len) =>
      let st := { st with shapes := st.shapes ++ [shape], lens := st.lens ++ [len] }
      if isRecShape shape then
        vCvsLoop dims vs { st with
          firstRec := (match st.firstRec with | none => some (v.begin, len, dsizes0 shape * v.xtype.size) | some x => some x)
          recsize := st.recsize + len }
      else
        vCvsLoop dims vs { st with
          firstVar := (match st.firstVar with | none => some v.begin | some x => some x)
          beginRec := v.begin + len }

def mapErr (e : Err) : VErr :=
  match e with
  | .enotnc => .enotnc | .evarsize => .evarsize | .ebaddim => .ebaddim | .eunlimpos => .eunlimpos
  | .emaxdims => .emaxdims | .emaxatts => .emaxatts | .emaxvars => .emaxvars | .ebadtype => .ebadtype
  | .eunlimit => .eunlimit | _ => .enotnc

/-- compute_var_shape: the sanity tests after the loop are the library's (`cvsFinish`) -/
def vComputeVarShape (h : Hdr) (xsz : Nat) : Except VErr (Nat × Nat × Nat × List (List Nat) × List Nat) :=
  if h.vars.length = 0 then .ok (0, 0, 0, [], []) else
  match vCvsLoop h.dims h.vars { beginRec := xsz, recsize := 0, firstVar := none, firstRec := none, shapes := [], lens := [] } with
  | .error e => .error e
  | .ok st =>
    match cvsFinish xsz st with
    | .error e => .error (mapErr e)
    | .ok r => .ok r

/-- what val_get_NC does after the var_list has been read: hdr_len_NC, compute_var_shape,
    val_NC_check_vlens, num_rec_vars, val_NC_check_voff -/
def vPostPass (h : Hdr) : Except VErr Info :=
  let xsz := h.len
  match vComputeVarShape h xsz with
  | .error e => .error e
  | .ok (beginVar, beginRec, recsize, shapes, lens) =>
    let numRec := (shapes.filter isRecShape).length
    match checkVlens h.fmt.version ((h.vars.map (fun v => v.xtype.size)).zip shapes) with
    | .error e => .error (mapErr e)
    | .ok () =>
      match checkVoffs beginVar beginRec numRec
              ((shapes.map isRecShape).zip ((h.vars.map (fun v => v.begin)).zip lens)) with
      | .error e => .error (mapErr e)
      | .ok () =>
        .ok { xsz := xsz, beginVar := beginVar, beginRec := beginRec, recsize := recsize,
              numRecVars := numRec, shapes := shapes, lens := lens }

/-- val_get_NC: header, derived layout, and the flags -/
def vGetNC (c : VCfg) (file : Bytes) : Except VErr (Hdr × Info × VFlags) :=
  match vMagic file with
  | .error e => .error e
  | .ok f =>
    match vBody c f (file.drop 4) with
    | .error e => .error e
    | .ok ((h, fl), _) =>
      match vPostPass h with
      | .error e => .error e
      | .ok info => .ok (h, info, fl)

/-- the validator's verdict as a word: "ok", "enullpad", or the fatal error -/
def validateCode (c : VCfg) (file : Bytes) : String :=
  match vGetNC c file with
  | .error e => e.name
  | .ok (h, _, fl) => if c.strictLen ∧ file.length < h.len then "enotnc" else if fl.pad then "ok" else "enullpad"

/-- exit status 0 of ncvalidator.  (The file-size tests of main() only print warnings.) -/
def validate (c : VCfg) (file : Bytes) : Bool :=
  match vGetNC c file with
  | .error _ => false
  | .ok (h, _, fl) =>
    -- repaired (F3): main() compares the header size with the file size (the file-size tests further down in
    -- main() only print warnings)
    if c.strictLen ∧ file.length < h.len then false else fl.pad

/-! ## 2. cdfdiff / ncmpidiff -/

/-- one dimension of a variable as the diff tools see it: name and length -/
structure LDim where
  name : Bytes
  size : Nat
  deriving DecidableEq, Repr, Inhabited

/-- a variable as the diff tools see it.  `data r` = the `esize * nelems` external bytes of record `r`
    (of the whole variable for `r = 0` of a fixed-size variable), read at the variable's own offset
    `begin + recsize * r` of its own file: a short list when the file ends early. -/
structure LVar where
  name  : Bytes
  xtype : NcType
  dims  : List LDim
  isRec : Bool
  atts  : List Att
  data  : Nat → Bytes

/-- a file as the diff tools see it: nothing of the layout is left -/
structure LFile where
  fmt     : Fmt
  numrecs : Nat
  dims    : List Dim
  gatts   : List Att
  vars    : List LVar

/-- `read(fd, buf, n)` after `lseek(fd, off)` -/
def rdAt (file : Bytes) (off n : Nat) : Bytes := (file.drop off).take n

/-- varsize of cdfdiff: xsz * Π shape[k] over the fixed dimensions -/
def varBytes (xsz : Nat) (shape : List Nat) : Nat :=
  shape.foldl (fun acc s => if s ≠ 0 then acc * s else acc) xsz

/-- the view the diff tools have of a parsed file (`recsize` from compute_var_shape) -/
def absFile (h : Hdr) (recsize : Nat) (file : Bytes) : LFile :=
  { fmt := h.fmt, numrecs := h.numrecs, dims := h.dims, gatts := h.gatts,
    vars := h.vars.map (fun v =>
      let ds : List LDim := v.dimids.map (fun id =>
        match (dimidC id).bind (fun d => h.dims[d]?) with
        | some dm => { name := dm.name, size := dm.size }
        | none => { name := [], size := 0 })
      let isRec := match ds with | d :: _ => d.size == 0 | [] => false
      let n := varBytes v.xtype.size (ds.map (·.size))
      { name := v.name, xtype := v.xtype, dims := ds, isRec := isRec, atts := v.atts,
        data := fun r => rdAt file (v.begin + (if isRec then recsize else 0) * r) n }) }

/-- what differs between the two tools -/
structure DiffCfg where
  /-- cdfdiff looks a name up starting at index `i % n` and wrapping around (`rot = true`);
      ncmpidiff asks the library (first match) -/
  rot : Bool
  /-- ncmpidiff has no `case NC_BYTE` in its three switches: values of that type are never compared -/
  skipByte : Bool
  /-- ncmpidiff sees the record dimension with length numrecs (ncmpi_inq_dimlen);
      cdfdiff compares the stored length 0 and runs over the records of the FIRST file only -/
  recLenIsNumrecs : Bool
  /-- repaired cdfdiff (F1): numrecs is compared in the header part and a record variable is skipped when the
      record counts differ -/
  cmpNumrecs : Bool
  deriving DecidableEq, Repr

def cdfdiffCfg : DiffCfg := { rot := true, skipByte := false, recLenIsNumrecs := false, cmpNumrecs := false }
def ncmpidiffCfg : DiffCfg := { rot := false, skipByte := true, recLenIsNumrecs := true, cmpNumrecs := false }
/-- cdfdiff with the repair of C20-F1 -/
def cdfdiffRepaired : DiffCfg := { cdfdiffCfg with cmpNumrecs := true }
/-- ncmpidiff with the repair of C20-F2 (`case NC_BYTE` added to the three switches) -/
def ncmpidiffRepaired : DiffCfg := { ncmpidiffCfg with skipByte := false }

inductive DiffOut where
  | crash                       -- cdfdiff: `i % nattrs` with nattrs = 0 (SIGFPE)
  | counts (head var : Nat)     -- numHeadDIFF, numVarDIFF (exit status 0 iff both are 0)
  deriving DecidableEq, Repr, Inhabited

/-- name lookup: the element found, searching from index `start` and wrapping around -/
def lookupFrom {α : Type} (nameOf : α → Bytes) (xs : List α) (start : Nat) (nm : Bytes) : Option α :=
  (xs.drop start ++ xs.take start).find? (fun x => nameOf x == nm)

def lookup {α : Type} (cfg : DiffCfg) (nameOf : α → Bytes) (xs : List α) (i : Nat) (nm : Bytes) : Option α :=
  if cfg.rot then lookupFrom nameOf xs (i % xs.length) nm else xs.find? (fun x => nameOf x == nm)

def b2n (b : Bool) : Nat := if b then 1 else 0

/-- `match o with | none => n | some y => f y` -/
def optCase {α β : Type} (o : Option α) (n : β) (f : α → β) : β :=
  match o with
  | none => n
  | some y => f y

def sumNat (l : List Nat) : Nat := l.foldr (· + ·) 0

/-- indexed map -/
def imap {α β : Type} (f : Nat → α → β) : List α → Nat → List β
  | [], _ => []
  | x :: xs, i => f i x :: imap f xs (i + 1)

/-- comparison of one attribute of the first file with its namesake: type, then length, then contents -/
def attDiff (cfg : DiffCfg) (x y : Att) : Nat :=
  if x.xtype ≠ y.xtype then 1
  else if x.nelems ≠ y.nelems then 1
  else if cfg.skipByte ∧ x.xtype = .byte then 0
  else b2n (x.xvalue.take (x.nelems * x.xtype.size) ≠ y.xvalue.take (x.nelems * x.xtype.size))

/-- the two attribute loops (global attributes, or the attributes of one variable) -/
def attsDiff (cfg : DiffCfg) (A B : List Att) : Nat :=
  sumNat (imap (fun i x => optCase (lookup cfg (·.name) B i x.name) 1 (fun y => attDiff cfg x y)) A 0) +
  sumNat (imap (fun i y => optCase (lookup cfg (·.name) A i y.name) 1 (fun _ => 0)) B 0)

/-- cdfdiff divides by the other file's attribute count -/
def attsCrash (cfg : DiffCfg) (A B : List Att) : Bool :=
  cfg.rot && ((A.length > 0 && B.length == 0) || (B.length > 0 && A.length == 0))

/-- length of a dimension as the tool sees it -/
def dimLen (cfg : DiffCfg) (numrecs : Nat) (size : Nat) : Nat :=
  if cfg.recLenIsNumrecs ∧ size = 0 then numrecs else size

def dimsDiff (cfg : DiffCfg) (a b : LFile) : Nat :=
  if a.dims.length > 0 ∧ b.dims.length > 0 then
    sumNat (imap (fun i d => optCase (lookup cfg (·.name) b.dims i d.name) 1
                               (fun e => b2n (dimLen cfg a.numrecs d.size ≠ dimLen cfg b.numrecs e.size))) a.dims 0) +
    sumNat (imap (fun i e => optCase (lookup cfg (·.name) a.dims i e.name) 1 (fun _ => 0)) b.dims 0)
  else 0

/-- the per-dimension loop of the variable metadata comparison -/
def varDimsDiff (cfg : DiffCfg) (na nb : Nat) : List LDim → List LDim → Nat
  | d :: ds, e :: es =>
    b2n (d.name ≠ e.name) + b2n (dimLen cfg na d.size ≠ dimLen cfg nb e.size) + varDimsDiff cfg na nb ds es
  | _, _ => 0

/-- metadata of one variable of the first file against its namesake (numHeadDIFF part) -/
def varMetaDiff (cfg : DiffCfg) (na nb : Nat) (v w : LVar) : Nat :=
  b2n (v.xtype ≠ w.xtype) +
  (if v.dims.length ≠ w.dims.length then 1 else varDimsDiff cfg na nb v.dims w.dims) +
  b2n (v.atts.length ≠ w.atts.length) +
  attsDiff cfg v.atts w.atts

/-- the variable metadata loops: (numHeadDIFF, numVarDIFF) -/
def varsDiff (cfg : DiffCfg) (a b : LFile) : Nat × Nat :=
  if a.vars.length > 0 ∧ b.vars.length > 0 then
    -- a variable without namesake counts once in numHeadDIFF and once in numVarDIFF
    (sumNat (imap (fun i v => optCase (lookup cfg (·.name) b.vars i v.name) 1
                                (fun w => varMetaDiff cfg a.numrecs b.numrecs v w)) a.vars 0) +
     sumNat (imap (fun i w => optCase (lookup cfg (·.name) a.vars i w.name) 1 (fun _ => 0)) b.vars 0),
     sumNat (imap (fun i v => optCase (lookup cfg (·.name) b.vars i v.name) 1 (fun _ => 0)) a.vars 0) +
     sumNat (imap (fun i w => optCase (lookup cfg (·.name) a.vars i w.name) 1 (fun _ => 0)) b.vars 0))
  else (0, 0)

def varsCrash (cfg : DiffCfg) (a b : LFile) : Bool :=
  a.vars.length > 0 && b.vars.length > 0 &&
  (imap (fun i v => optCase (lookup cfg (·.name) b.vars i v.name) false (fun w => attsCrash cfg v.atts w.atts)) a.vars 0).any id

/-- are the records `0 .. n-1` of the two variables the same bytes -/
def recsSame (v w : LVar) : Nat → Bool
  | 0 => true
  | n + 1 => recsSame v w n && (v.data n == w.data n)

/-- the content comparison of one variable name of the first file (header already compared: structural
    differences are not counted again, the variable is skipped) -/
def varDataDiff (cfg : DiffCfg) (a b : LFile) (nm : Bytes) : Nat :=
  match a.vars.find? (fun x => x.name == nm), b.vars.find? (fun x => x.name == nm) with
  | some v, some w =>
    if v.xtype ≠ w.xtype then 0
    else if v.dims.length ≠ w.dims.length then 0
    else if (v.dims.map (fun d => dimLen cfg a.numrecs d.size)) ≠ (w.dims.map (fun d => dimLen cfg b.numrecs d.size)) then 0
    else if cfg.cmpNumrecs ∧ v.isRec = true ∧ a.numrecs ≠ b.numrecs then 0
    else if cfg.skipByte ∧ v.xtype = .byte then 0
    else
      let nrec := if v.isRec then a.numrecs else 1
      b2n (!recsSame v w nrec)
  | _, _ => 0

/-- `cdfdiff a b` / `ncmpidiff a b` without options: header and all variables of the first file -/
def toolDiff (cfg : DiffCfg) (a b : LFile) : DiffOut :=
  if attsCrash cfg a.gatts b.gatts || varsCrash cfg a b then .crash else
  let vd := varsDiff cfg a b
  let head := b2n (a.fmt ≠ b.fmt) + b2n (a.dims.length ≠ b.dims.length) + b2n (a.vars.length ≠ b.vars.length) +
    b2n (a.gatts.length ≠ b.gatts.length) + b2n (cfg.cmpNumrecs && decide (a.numrecs ≠ b.numrecs)) +
    attsDiff cfg a.gatts b.gatts + dimsDiff cfg a b + vd.1
  -- cdfdiff leaves by `goto fn_exit` when one file has no variable; nothing is left to compare then
  let var := vd.2 + sumNat (a.vars.map (fun v => varDataDiff cfg a b v.name))
  .counts head var

/-- exit status 0 -/
def DiffOut.same : DiffOut → Bool
  | .counts 0 0 => true
  | _ => false

/-! ### the specification: same format and same logical content -/

def findAtt (as : List Att) (nm : Bytes) : Option Att := as.find? (fun x => x.name == nm)
def findDim (ds : List Dim) (nm : Bytes) : Option Dim := ds.find? (fun x => x.name == nm)
def findVar (vs : List LVar) (nm : Bytes) : Option LVar := vs.find? (fun x => x.name == nm)

/-- two variables with the same logical content: type, shape (dimension names and lengths, in
    order), attributes by name, and the values of every record that exists -/
structure LVarEq (numrecs : Nat) (v w : LVar) : Prop where
  xtype : v.xtype = w.xtype
  dims  : v.dims = w.dims
  natts : v.atts.length = w.atts.length
  atts  : ∀ nm, findAtt v.atts nm = findAtt w.atts nm
  data  : ∀ r, r < (if v.isRec then numrecs else 1) → v.data r = w.data r

/-- same format version and same logical content (names, types, shapes, attributes, values);
    definition order and layout play no role -/
structure LogicalEq (a b : LFile) : Prop where
  fmt     : a.fmt = b.fmt
  numrecs : a.numrecs = b.numrecs
  ndims   : a.dims.length = b.dims.length
  dims    : ∀ nm, findDim a.dims nm = findDim b.dims nm
  ngatts  : a.gatts.length = b.gatts.length
  gatts   : ∀ nm, findAtt a.gatts nm = findAtt b.gatts nm
  nvars   : a.vars.length = b.vars.length
  varsDef : ∀ nm, (findVar a.vars nm).isSome = (findVar b.vars nm).isSome
  vars    : ∀ nm v w, findVar a.vars nm = some v → findVar b.vars nm = some w → LVarEq a.numrecs v w

/-- executable version of `LogicalEq` for the driver (decides it for files whose names are unique) -/
def lvarEqB (numrecs : Nat) (v w : LVar) : Bool :=
  v.xtype == w.xtype && v.dims == w.dims && v.atts.length == w.atts.length &&
  v.atts.all (fun x => findAtt w.atts x.name == some x) &&
  w.atts.all (fun y => findAtt v.atts y.name == some y) &&
  recsSame v w (if v.isRec then numrecs else 1)

def logicalEqB (a b : LFile) : Bool :=
  a.fmt == b.fmt && a.numrecs == b.numrecs && a.dims.length == b.dims.length &&
  a.dims.all (fun d => findDim b.dims d.name == some d) &&
  b.dims.all (fun d => findDim a.dims d.name == some d) &&
  a.gatts.length == b.gatts.length &&
  a.gatts.all (fun x => findAtt b.gatts x.name == some x) &&
  b.gatts.all (fun y => findAtt a.gatts y.name == some y) &&
  a.vars.length == b.vars.length &&
  a.vars.all (fun v => match findVar b.vars v.name with | some w => lvarEqB a.numrecs v w | none => false) &&
  b.vars.all (fun w => (findVar a.vars w.name).isSome)

/-! ## 3. ncoffsets (numbers only) -/

/-- (header size, header extent, per variable: begin, end of the first record / of the variable) as
    ncoffsets prints them: `extent` is begin_var (the header size when there is no variable),
    `end = begin + type_size * dsizes[0]` (not rounded up) -/
def offsetsReport (h : Hdr) (info : Info) : Nat × Nat × List (Nat × Nat) :=
  (info.xsz, if h.vars.length = 0 then info.xsz else info.beginVar,
   (h.vars.zip info.shapes).map (fun (v, sh) => (v.begin, v.begin + dsizes0 sh * v.xtype.size)))

/-- `ncoffsets -r`: (start, end) of every record of a record variable: `var_begin += ncp->recsize; var_end += ncp->recsize`
    from `(begin, begin + type_size * dsizes[0])`, `numrecs` times.  `recsize` is what ncmpii_NC_computeshapes leaves in
    ncp->recsize (same text as the library's compute_var_shape: the sum of the padded record lengths, or the UNPADDED size
    when there is exactly one record variable — `Header.cvsRec`). -/
def offsetsRecs (v : Var) (sh : List Nat) (recsize numrecs : Nat) : List (Nat × Nat) :=
  (List.range numrecs).map (fun r => (v.begin + recsize * r, v.begin + dsizes0 sh * v.xtype.size + recsize * r))

/-- `ncoffsets -g` for a variable that has a predecessor of its kind: begin minus the predecessor's unpadded end -/
def offsetsGap (v prev : Var) (prevShape : List Nat) : Int :=
  (v.begin : Int) - ((prev.begin : Int) + (dsizes0 prevShape * prev.xtype.size : Nat))

/-! ## 4. ncmpidiff on several processes: which part of a variable each rank compares -/

/-- ncmpidiff.c main(), "calculate read amount of this process": the block of rank `r` along the partitioned
    dimension of length `L` (start, count): `shape = L / nprocs; start = shape * rank;
    if (rank < L % nprocs) { start += rank; shape++; } else start += L % nprocs;` -/
def rankBlock (L nprocs r : Nat) : Nat × Nat :=
  if r < L % nprocs then (L / nprocs * r + r, L / nprocs + 1) else (L / nprocs * r + L % nprocs, L / nprocs)

/-- start[] / shape[] of rank `r` for a variable of shape `shape`: the first dimension that is at least `nprocs`
    long is partitioned (`break`), the others are taken whole; no such dimension: every rank compares everything -/
def rankBox (nprocs r : Nat) : List Nat → List (Nat × Nat)
  | [] => []
  | s :: rest => if s ≥ nprocs then rankBlock s nprocs r :: rest.map (fun x => (0, x)) else (0, s) :: rankBox nprocs r rest

/-- a multi-index lies in a box of (start, count) pairs -/
def inBox : List Nat → List (Nat × Nat) → Bool
  | [], [] => true
  | i :: is, (st, ct) :: bs => decide (st ≤ i) && decide (i < st + ct) && inBox is bs
  | _, _ => false

/-- a multi-index of a variable of that shape -/
def inShape (idx shape : List Nat) : Bool := inBox idx (shape.map (fun x => (0, x)))

/-! ## 5. cdfdiff reads a variable in chunks of READ_CHUNK_SIZE bytes -/

/-- cdfdiff.c main(): `nChunks = remainLen / READ_CHUNK_SIZE; if (remainLen % READ_CHUNK_SIZE) nChunks++;` -/
def nChunks (n chunk : Nat) : Nat := n / chunk + (if n % chunk ≠ 0 then 1 else 0)

/-- the loop `for (k=0; k<nChunks; k++)` of cdfdiff on one variable / one record: `x`, `y` are the rests of the
    two files from the record's offsets (read() continues where the previous one stopped), `remain` is remainLen.
    Each step reads `rSize = MIN(remainLen, READ_CHUNK_SIZE)` bytes from both files; different read sizes or
    different bytes end the comparison with a difference; `remainLen -= rdLen[0]`.  true = no difference. -/
def chunkLoop (chunk : Nat) : Nat → Bytes → Bytes → Nat → Bool
  | 0, _, _, _ => true
  | k + 1, x, y, remain =>
    let rSize := min remain chunk
    let a := x.take rSize
    let b := y.take rSize
    if a.length ≠ b.length then false
    else if a ≠ b then false
    else chunkLoop chunk k (x.drop a.length) (y.drop a.length) (remain - a.length)

/-- cdfdiff's comparison of the `n` bytes of one record at `off1` / `off2` of the two files -/
def cdfdiffRecordSame (chunk : Nat) (f1 f2 : Bytes) (off1 off2 n : Nat) : Bool :=
  chunkLoop chunk (nChunks n chunk) (f1.drop off1) (f2.drop off2) n

end PnVerif.Tools
