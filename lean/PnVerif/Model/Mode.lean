/-
  C14 — executable model of the two-layer API mode machine of PnetCDF.

  Hand transcription (control flow and ORDER of tests) of

    dispatcher layer  src/dispatchers/file.c         ncmpi_enddef/_enddef/redef/begin_indep_data/
                                                      end_indep_data/close/abort/sync/flush/set_fill/
                                                      buffer_attach/detach/wait/wait_all/cancel/inq_*
                      src/dispatchers/var_getput.m4  sanity_check, GETPUT_API, IGETPUT_API (bput: inq_misc)
                      src/dispatchers/variable.c     def_var, def_var_fill, fill_var_rec, rename_var
                      src/dispatchers/dimension.c    def_dim, rename_dim
                      src/dispatchers/attribute.c    rename_att, del_att, copy_att
                      src/dispatchers/attr_getput.m4 sanity_check_put/get, put_att, get_att
    driver layer      src/drivers/ncmpio/ncmpio_file_misc.c  redef, begin/end_indep_data, abort, inq_misc
                      ncmpio_enddef.c (ncmpio__enddef tail), ncmpio_close.c, ncmpio_sync.c,
                      ncmpio_wait.c (ncmpio_wait, ncmpio_cancel), ncmpio_bput.c (attach/detach),
                      ncmpio_attr.m4 (put_att, rename_att, del_att, copy_att), ncmpio_var.c / ncmpio_dim.c
                      (rename), ncmpio_fill.c (fill_var_rec, set_fill, def_var_fill)

  The state is what those tests READ: the four mode bits of the dispatcher word `PNC.flag`, the
  same four bits of the driver word `NC.flags`, `ncp->old != NULL`, `ncp->vars.num_rec_vars > 0`,
  `ncp->abuf != NULL` and the lengths of the pending request queues.  Everything an API decides from
  its *arguments* (is the varid in range, does the attribute exist, is the new name longer …) is an
  argument class of the `Call`; the harness chooses concrete arguments that realise the class on a
  fixed schema.  Safe mode is off (the default build; with it on, only `Cfg.fillChecksErr` changes);
  every rank makes the same call (`Cfg.multi` = more than one rank); I/O and memory allocation
  succeed (fault injection is C11's business).

  Core Lean only (this module is linked into the driver executable).
-/
namespace PnVerif.Mode

/-- the NC error codes the modelled tests can return (numeric value: `Err.code`) -/
inductive Err
  | noerr | ebadid | eperm | eindefine | enotindefine | eindep | enotindep
  | enotvar | eglobal | einval | enotatt | ebaddim | echar | ebadname | ebadtype
  | enameinuse | einvalcoords | enotrecvar | enullbuf | eprevattachbuf | enullabuf
  | ependingbput | epending
  | ub      -- the C dereferences an unchecked index (undefined behaviour): no NC code
deriving DecidableEq, Repr, Inhabited

def Err.code : Err → Int
  | .noerr => 0 | .ebadid => -33 | .eperm => -37 | .eindefine => -39 | .enotindefine => -38
  | .eindep => -203 | .enotindep => -202 | .enotvar => -49 | .eglobal => -50 | .einval => -36
  | .enotatt => -43 | .ebaddim => -46 | .echar => -56 | .ebadname => -59 | .ebadtype => -45
  | .enameinuse => -42 | .einvalcoords => -40 | .enotrecvar => -233 | .enullbuf => -215
  | .eprevattachbuf => -216 | .enullabuf => -217 | .ependingbput => -218 | .epending => -236
  | .ub => 1

/-- the four mode bits of a flag word (dispatch.h: NC_MODE_RDONLY 0x1000, NC_MODE_DEF 0x2000,
    NC_MODE_INDEP 0x4000, NC_MODE_CREATE 0x8000) -/
structure Flags where
  rdonly : Bool
  indef  : Bool
  indep  : Bool
  create : Bool
deriving DecidableEq, Repr, Inhabited

def Flags.word (f : Flags) : Nat :=
  (if f.rdonly then 0x1000 else 0) + (if f.indef then 0x2000 else 0) +
  (if f.indep then 0x4000 else 0) + (if f.create then 0x8000 else 0)

structure State where
  opened    : Bool     -- the ncid is in pnc_filelist (PNC_check_id succeeds)
  d         : Flags    -- PNC.flag   (dispatcher)
  n         : Flags    -- NC.flags   (ncmpio driver)
  old       : Bool     -- ncp->old != NULL  (define mode entered through redef)
  recDef    : Bool     -- some defined variable is a record variable
  recCommit : Bool     -- ncp->vars.num_rec_vars > 0 (recomputed by enddef / at open)
  abuf      : Bool     -- ncp->abuf != NULL
  nGet      : Nat      -- ncp->numLeadGetReqs
  nPut      : Nat      -- ncp->numLeadPutReqs (iput and bput)
  nBput     : Nat      -- entries of put_lead_list with abuf_index >= 0
deriving DecidableEq, Repr, Inhabited

/-- what is left after ncmpi_close / ncmpi_abort: the PNC and NC objects are freed -/
def closed : State :=
  { opened := false, d := ⟨false, false, false, false⟩, n := ⟨false, false, false, false⟩, old := false,
    recDef := false, recCommit := false, abuf := false, nGet := 0, nPut := 0, nBput := 0 }

/-- ncmpi_create (+ the schema definitions of the harness): `pncp->flag = NC_MODE_DEF|NC_MODE_CREATE`,
    ncmpio_create: fSet CREATE, fClr RDONLY, fSet DEF.  `hasRec`: a record variable gets defined. -/
def created (hasRec : Bool) : State :=
  { closed with opened := true, d := ⟨false, true, false, true⟩, n := ⟨false, true, false, true⟩, recDef := hasRec }

/-- ncmpi_open: `pncp->flag = 0; if (!NC_WRITE) flag |= RDONLY`, ncmpio_open the same; the header
    reader sets num_rec_vars -/
def openedFile (write hasRec : Bool) : State :=
  { closed with opened := true, d := ⟨!write, false, false, false⟩, n := ⟨!write, false, false, false⟩,
                recDef := hasRec, recCommit := hasRec }

/-- class of a `varid` argument on the harness schema -/
inductive VarArg
  | global   -- NC_GLOBAL (-1)
  | bad      -- out of [0, nvars)
  | fixed    -- a fixed-size NC_INT variable
  | recv     -- a record NC_INT variable (fill mode on)
  | chr      -- a fixed-size NC_CHAR variable
deriving DecidableEq, Repr, Inhabited

/-- external type classes as `x_len_NC_attrV` (ncmpio_attr.m4) distinguishes them -/
inductive XT
  | x1    -- NC_BYTE, NC_CHAR, NC_UBYTE
  | x2    -- NC_SHORT, NC_USHORT
  | x4    -- NC_INT, NC_UINT, NC_FLOAT
  | x8    -- NC_DOUBLE, NC_INT64, NC_UINT64
deriving DecidableEq, Repr, Inhabited

/-- x_len_NC_attrV: the space `nelems` values of `xtype` take in the header, "aligned in 4-byte boundary" -/
def xlen : XT → Nat → Nat
  | .x1, n => (n + 3) / 4 * 4        -- PNETCDF_RNDUP(nelems, 4)
  | .x2, n => (n + n % 2) * 2
  | .x4, n => n * 4
  | .x8, n => n * 8

inductive PostKind | iput | iget | bput
deriving DecidableEq, Repr, Inhabited

inductive Call
  -- mode-changing calls
  | enddef
  | enddefArgs (neg : Bool)                    -- ncmpi__enddef; `neg`: a negative alignment argument
  | redef
  | beginIndep
  | endIndep
  | close
  | abort
  -- define-mode family
  | defDim (inUse : Bool)
  | defVar (inUse isRec : Bool)
  | defVarFill (v : VarArg)                    -- fill_value == NULL
  | setFill
  | delAtt (v : VarArg) (nameBad aexists : Bool)
  -- attributes / renaming (define mode, or data mode if nothing grows)
  | putAtt (v : VarArg) (nameBad typeBad charMix negLen : Bool) (aexists : Bool) (ot : XT) (on : Nat) (nt : XT) (nn : Nat)
      -- aexists: an attribute of that name is there, of type class `ot` with `on` elements;
      -- the new value has type class `nt` and `nn` elements
  | getAtt (v : VarArg) (nameBad aexists : Bool)
  | copyAtt (vinBad voutBad nameBad srcExists dstExists : Bool) (st : XT) (sn : Nat) (dt : XT) (dn : Nat)
      -- same file, vin ≠ vout; source attribute (st, sn), attribute of that name at the destination (dt, dn)
  | renameAtt (v : VarArg) (nameBad aexists newInUse : Bool) (oldLen newLen : Nat)   -- name lengths in bytes
  | renameVar (v : VarArg) (nameBad inUse : Bool) (oldLen newLen : Nat)
  | renameDim (nameBad dimBad inUse : Bool) (oldLen newLen : Nat)
  -- blocking data access (var/var1/vara/vars/varm/varn/vard/mput families share sanity_check)
  | rw (isPut coll : Bool) (v : VarArg) (text coordBad : Bool) (varn zeroLen : Bool)
      -- varn: the put/get_varn family; zeroLen: num == 0 (varn), a zero in count[], bufcount == 0, null filetype
  -- nonblocking
  | post (k : PostKind) (v : VarArg) (text coordBad : Bool) (varn zeroLen : Bool)
  | wait (coll zero : Bool)                    -- num_reqs = NC_REQ_ALL, or 0 if `zero`
  | cancel (zero : Bool)
  -- sync / fill / buffer
  | sync
  | syncNumrecs
  | flush
  | fillVarRec (v : VarArg)
  | attach (sizePos : Bool)
  | detach
  -- inquiries
  | inq                                        -- ncmpi_inq / inq_ndims / inq_format …
  | inqVar (v : VarArg)
  | inqNreqs
  | inqBuf                                     -- inq_buffer_usage / inq_buffer_size
deriving DecidableEq, Repr, Inhabited

/-- Two facts about the run that are not part of the file's state:
    * `fillChecksErr` — about the *source text*: does `ncmpi_fill_var_rec` return the error found by
      its own tests before calling the driver?  (At the pinned commit it does not: the
      `if (err != NC_NOERR) return err;` every other dispatcher has after `err_check:` is missing.
      With PNETCDF_SAFE_MODE=1 the MPI_Allreduce branch returns it.)  The check calibrates this
      by one call on the real library.
    * `multi` — the communicator has more than one process.  Then a *collective* blocking call whose
      argument tests fail does not return at once but takes part in the collective I/O with a
      zero-length request (`reqMode |= NC_REQ_ZERO`). -/
structure Cfg where
  fillChecksErr : Bool
  multi : Bool := false
deriving DecidableEq, Repr, Inhabited

def Cfg.pinned : Cfg := ⟨false, false⟩
def Cfg.repaired : Cfg := ⟨true, false⟩
def Cfg.pinnedMulti : Cfg := ⟨false, true⟩

/-- result of one API call: new state, returned code, `wr` = a function that writes file bytes
    was reached (header, numrecs or data), `del` = the file was unlinked, `val` = inquiry result -/
structure Out where
  st  : State
  err : Err
  wr  : Bool := false
  del : Bool := false
  val : Nat := 0
deriving DecidableEq, Repr, Inhabited

def ret (s : State) (e : Err) : Out := { st := s, err := e }

/-! ### driver layer (src/drivers/ncmpio) -/
namespace Drv

/-- ncmpio_end_indep_data -/
def endIndep (s : State) : Out :=
  if s.n.indef then ret s .eindefine                       -- NC_indef → NC_EINDEFINE
  else if !s.n.indep then ret s .noerr                     -- already collective: no error since 1.9.0
  else
    -- if (!NC_readonly) if (num_rec_vars > 0) { set_NC_ndirty; ncmpio_sync_numrecs }
    let w := !s.n.rdonly && s.recCommit
    { st := { s with n := { s.n with indep := false } }, err := .noerr, wr := w }

/-- ncmpio_begin_indep_data -/
def beginIndep (s : State) : Out :=
  if s.n.indef then ret s .eindefine
  else if s.n.indep then ret s .noerr                      -- no error since 1.2.0
  else ret { s with n := { s.n with indep := true } } .noerr

/-- ncmpio_redef: the RDONLY / DEF tests are `#if 0`-ed out here (done by the dispatcher) -/
def redef (s : State) : Out :=
  -- if (NC_indep(ncp)) ncmpio_end_indep_data(ncp);   return value ignored
  let o := if s.n.indep then endIndep s else ret s .noerr
  let s1 := o.st
  -- ncp->old = dup_NC(ncp); fSet(ncp->flags, NC_MODE_DEF)
  { st := { s1 with old := true, n := { s1.n with indef := true } }, err := .noerr, wr := o.wr }

/-- tail of ncmpio__enddef: no mode test at all in the driver; recomputes num_rec_vars, writes the
    header, frees ncp->old, `fClr(ncp->flags, NC_MODE_CREATE | NC_MODE_DEF)` -/
def enddef (s : State) : Out :=
  { st := { s with recCommit := s.recDef, old := false, n := { s.n with create := false, indef := false } },
    err := .noerr, wr := true }

/-- ncmpio_cancel with NC_REQ_ALL on both queues (as ncmpio_close does, one queue after the other) -/
def cancelAll (s : State) : State := { s with nGet := 0, nPut := 0, nBput := 0 }

/-- ncmpio_close -/
def close (s : State) : Out :=
  -- if (NC_indef(ncp)) status = ncmpio__enddef(ncp, 0,0,0,0)
  let o1 := if s.n.indef then enddef s else ret s .noerr
  let s1 := o1.st
  -- if (!NC_readonly(ncp) && NC_indep(ncp)) err = ncmpio_end_indep_data(ncp)
  let o2 := if !s1.n.rdonly && s1.n.indep then endIndep s1 else ret s1 .noerr
  let s2 := o2.st
  let status := if o1.err != .noerr then o1.err else o2.err
  -- pending requests are cancelled; status = NC_EPENDING if still NC_NOERR
  let status := if s2.nGet > 0 && status == .noerr then .epending else status
  let status := if s2.nPut > 0 && status == .noerr then .epending else status
  -- ncmpio_close_files, ncmpio_free_NC
  { st := closed, err := status, wr := o1.wr || o2.wr }

/-- ncmpio_abort -/
def abort (s : State) : Out :=
  let doUnlink := s.n.create
  -- pending requests are cancelled first (as in ncmpio_close); status = NC_EPENDING
  let status : Err := if s.nGet > 0 || s.nPut > 0 then .epending else .noerr
  -- if (ncp->old != NULL) { free old; fClr(ncp->flags, NC_MODE_DEF) }
  let s1 := if s.old then { s with old := false, n := { s.n with indef := false } } else s
  -- if (!doUnlink) if (!NC_readonly && NC_indep) { err = ncmpio_end_indep_data(ncp); if (status == NC_NOERR) status = err }
  let o := if !doUnlink && !s1.n.rdonly && s1.n.indep then endIndep s1 else ret s1 .noerr
  { st := closed, err := if status != .noerr then status else o.err, wr := o.wr, del := doUnlink }

/-- ncmpio_sync_numrecs -/
def syncNumrecs (s : State) : Out :=
  if s.n.indef then ret s .eindefine
  else if !s.recCommit then ret s .noerr
  else if s.n.rdonly then ret s .eperm
  else if !s.n.indep then ret s .noerr
  else { st := s, err := .noerr, wr := true }

/-- ncmpio_sync -/
def sync (s : State) : Out :=
  if s.n.indef then ret s .eindefine
  else if s.n.rdonly then ret s .noerr
  else if s.recCommit && s.n.indep then syncNumrecs s      -- then ncmpio_file_sync
  else ret s .noerr

/-- ncmpio_wait (ENABLE_REQ_AGGREGATION build); num_reqs is NC_REQ_ALL, or 0 when `zero` -/
def wait (coll zero : Bool) (s : State) : Out :=
  if s.n.indef then ret s .eindefine
  else if !coll && !s.n.indep then ret s .enotindep
  else if coll && s.n.indep then ret s .eindep
  else if !coll && zero then ret s .noerr
  else if zero then ret s .noerr                             -- req_commit with nothing to do
  else { st := cancelAll s, err := .noerr, wr := s.nPut > 0 } -- req_commit of every pending request

/-- ncmpio_wait(ncp, 1, {NC_REQ_NULL}, NULL, NC_REQ_COLL) in collective data mode, as ncmpio_put/get_varn
    calls it for a zero-length participation: extract_reqs skips NC_REQ_NULL ids and takes its
    "same as NC_PUT_REQ_ALL / NC_GET_REQ_ALL" shortcuts only when every id given is a valid id of that kind
    (since /repo commit 12532099; before it the shortcut was taken on the *count* alone and completed the
    caller's single pending request), so nothing is completed -/
def waitNull (s : State) : Out := ret s .noerr

/-- ncmpio_cancel: no mode test (nonblocking APIs may be used in define mode since 1.7.0) -/
def cancel (zero : Bool) (s : State) : Out :=
  if zero then ret s .noerr else ret (cancelAll s) .noerr

/-- ncmpio_buffer_attach -/
def attach (sizePos : Bool) (s : State) : Out :=
  if !sizePos then ret s .enullbuf
  else if s.abuf then ret s .eprevattachbuf
  else ret { s with abuf := true } .noerr

/-- ncmpio_buffer_detach -/
def detach (s : State) : Out :=
  if !s.abuf then ret s .enullabuf
  else if s.nBput > 0 then ret s .ependingbput
  else ret { s with abuf := false } .noerr

/-- header rewrite done by put_att / rename / copy_att when called in data mode -/
def hdrWrite (s : State) : Out := { st := s, err := .noerr, wr := !s.n.indef }

/-- ncmpio_put_att (varid, name, type, length already validated by the dispatcher) -/
def putAtt (aexists : Bool) (oldXsz xsz : Nat) (s : State) : Out :=
  if aexists then                                          -- indx >= 0: name in use
    if !s.n.indef && xsz > oldXsz then ret s .enotindefine -- xsz > ncap->value[indx]->xsz in data mode
    else hdrWrite s
  else                                                     -- attribute does not exist
    if !s.n.indef then ret s .enotindefine
    else hdrWrite s

/-- ncmpio_rename_att -/
def renameAtt (aexists newInUse : Bool) (oldLen newLen : Nat) (s : State) : Out :=
  if !aexists then ret s .enotatt
  else if newInUse then ret s .enameinuse
  else if !s.n.indef && oldLen < newLen then ret s .enotindefine   -- attrp->name_len < nnewname_len
  else hdrWrite s

/-- ncmpio_copy_att (same file, different varids) -/
def copyAtt (srcExists dstExists : Bool) (dstXsz srcXsz : Nat) (s : State) : Out :=
  if !srcExists then ret s .enotatt                         -- NC_lookupattr on the source
  else putAtt dstExists dstXsz srcXsz s                     -- iattrp->xsz > ncap_out->value[indx]->xsz: same two tests

/-- ncmpio_del_att -/
def delAtt (aexists : Bool) (s : State) : Out :=
  if !aexists then ret s .enotatt else ret s .noerr

/-- ncmpio_rename_var / ncmpio_rename_dim -/
def rename (oldLen newLen : Nat) (s : State) : Out :=
  if !s.n.indef && oldLen < newLen then ret s .enotindefine else hdrWrite s   -- name_len < nnewname_len

/-- ncmpio_fill_var_rec: `varp = ncp->vars.value[varid]` without any test -/
def fillVarRec (v : VarArg) (s : State) : Out :=
  if v == .global || v == .bad then ret s .ub               -- out-of-bounds read of vars.value[]
  else if v != .recv then ret s .enotrecvar                 -- !IS_RECVAR(varp)
  -- fill_var_rec(): MPI_File_write_at on collective_fh; a file opened MPI_MODE_RDONLY refuses
  -- the write with MPI_ERR_READ_ONLY, which ncmpii_error_mpi2nc maps to NC_EPERM
  else if s.n.rdonly then ret s .eperm
  else { st := s, err := .noerr, wr := true }

/-- ncmpio_iput_var / iget_var / bput_var: queue one lead request -/
def post (k : PostKind) (zeroLen : Bool) (s : State) : Out :=
  match k with
  | .iget => if zeroLen then ret s .noerr else ret { s with nGet := s.nGet + 1 } .noerr
  | .iput => if zeroLen then ret s .noerr else ret { s with nPut := s.nPut + 1 } .noerr
  | .bput => if !s.abuf then ret s .enullabuf               -- ncmpio_bput_var: abuf == NULL first
             else if zeroLen then ret s .noerr              -- nbytes == 0: *reqid = NC_REQ_NULL, nothing queued
             else ret { s with nPut := s.nPut + 1, nBput := s.nBput + 1 } .noerr

end Drv

/-! ### dispatcher layer (src/dispatchers) -/

/-- sanity_check() of var_getput.m4; `blocking` = API_PUT/API_GET -/
def sanityCheck (d : Flags) (isPut blocking coll : Bool) (v : VarArg) (text : Bool) : Err :=
  if isPut && d.rdonly then .eperm
  else if blocking && d.indef then .eindefine
  else if blocking && coll && d.indep then .eindep
  else if blocking && !coll && !d.indep then .enotindep
  else if v == .global then .eglobal
  else if v == .bad then .enotvar
  else if text != (v == .chr) then .echar
  else .noerr

/-- dispatcher tests of ncmpi_fill_var_rec (the value of `err` when control reaches `err_check:`) -/
def fillDispErr (d : Flags) (v : VarArg) : Err :=
  if d.rdonly then .eperm
  else if d.indef then .eindefine
  else if v == .global then .eglobal
  else if v == .bad then .enotvar
  else if v != .recv then .enotrecvar
  else if d.indep then .eindep
  else .noerr

def step (cfg : Cfg) (s : State) (c : Call) : Out :=
  if !s.opened then ret s .ebadid                          -- PNC_check_id
  else
  match c with
  | .enddef =>
    if !s.d.indef then ret s .enotindefine
    else
      let o := Drv.enddef s
      if o.err != .noerr then o
      else { o with st := { o.st with d := { o.st.d with indep := false, indef := false } } }
  | .enddefArgs neg =>
    if !s.d.indef then ret s .enotindefine
    else if neg then ret s .einval
    else
      let o := Drv.enddef s
      if o.err != .noerr then o
      else { o with st := { o.st with d := { o.st.d with indep := false, indef := false } } }
  | .redef =>
    if s.d.rdonly then ret s .eperm
    else if s.d.indef then ret s .eindefine
    else
      let o := Drv.redef s
      if o.err != .noerr then o
      else { o with st := { o.st with d := { o.st.d with indef := true } } }   -- fSet(flag, NC_MODE_DEF) only
  | .beginIndep =>
    let o := Drv.beginIndep s
    if o.err != .noerr then o
    else { o with st := { o.st with d := { o.st.d with indep := true } } }
  | .endIndep =>
    let o := Drv.endIndep s
    if o.err != .noerr then o
    else { o with st := { o.st with d := { o.st.d with indep := false } } }
  | .close => Drv.close s                                   -- del_from_PNCList whatever err is
  | .abort => Drv.abort s
  | .defDim inUse =>
    if !s.d.indef then ret s .enotindefine
    else if inUse then ret s .enameinuse
    else ret s .noerr
  | .defVar inUse isRec =>
    if !s.d.indef then ret s .enotindefine
    else if inUse then ret s .enameinuse
    else ret { s with recDef := s.recDef || isRec } .noerr
  | .defVarFill v =>
    if !s.d.indef then ret s .enotindefine
    else if v == .global then ret s .eglobal
    else if v == .bad then ret s .enotvar
    else ret s .noerr
  | .setFill =>
    if s.d.rdonly then ret s .eperm
    else if !s.d.indef then ret s .enotindefine
    else ret s .noerr
  | .delAtt v nameBad aexists =>
    if s.d.rdonly then ret s .eperm
    else if !s.d.indef then ret s .enotindefine
    else if v == .bad then ret s .enotvar                   -- varid != NC_GLOBAL && out of range
    else if nameBad then ret s .ebadname
    else Drv.delAtt aexists s
  | .putAtt v nameBad typeBad charMix negLen aexists ot on nt nn =>
    -- sanity_check_put, check_EBADTYPE_ECHAR, check_EINVAL, then the driver
    if s.d.rdonly then ret s .eperm
    else if v == .bad then ret s .enotvar
    else if nameBad then ret s .ebadname
    else if typeBad then ret s .ebadtype
    else if charMix then ret s .echar
    else if negLen then ret s .einval
    else Drv.putAtt aexists (xlen ot on) (xlen nt nn) s      -- xsz = x_len_NC_attrV(xtype, nelems)
  | .getAtt v nameBad aexists =>
    if v == .bad then ret s .enotvar
    else if nameBad then ret s .ebadname
    else if !aexists then ret s .enotatt                    -- ncmpio_get_att
    else ret s .noerr
  | .copyAtt vinBad voutBad nameBad srcExists dstExists st sn dt dn =>
    if s.d.rdonly then ret s .eperm
    else if vinBad then ret s .enotvar
    else if voutBad then ret s .enotvar
    else if nameBad then ret s .ebadname
    else Drv.copyAtt srcExists dstExists (xlen dt dn) (xlen st sn) s
  | .renameAtt v nameBad aexists newInUse oldLen newLen =>
    if s.d.rdonly then ret s .eperm
    else if v == .bad then ret s .enotvar
    else if nameBad then ret s .ebadname
    else Drv.renameAtt aexists newInUse oldLen newLen s
  | .renameVar v nameBad inUse oldLen newLen =>
    if s.d.rdonly then ret s .eperm
    else if v == .global then ret s .eglobal
    else if v == .bad then ret s .enotvar
    else if nameBad then ret s .ebadname
    else if inUse then ret s .enameinuse
    else Drv.rename oldLen newLen s
  | .renameDim nameBad dimBad inUse oldLen newLen =>
    if s.d.rdonly then ret s .eperm
    else if nameBad then ret s .ebadname
    else if dimBad then ret s .ebaddim
    else if inUse then ret s .enameinuse
    else Drv.rename oldLen newLen s
  | .rw isPut coll v text coordBad varn zeroLen =>
    -- sanity_check comes FIRST for every form, zero-length or not
    let e0 := sanityCheck s.d isPut true coll v text
    -- then: varn with num == 0 goes to err_check before looking at starts/counts; all other forms run
    -- check_start_count_stride (a zero in count[] / bufcount == 0 / a null filetype are noticed later)
    let e := if e0 != .noerr then e0 else if varn && zeroLen then .noerr
             else if coordBad then .einvalcoords else .noerr
    if e == .noerr then { st := s, err := .noerr, wr := isPut && !zeroLen }   -- zero-length: nothing is written
    else if !coll then ret s e                               -- independent API: return now
    else if e == .eperm || e == .eindefine || e == .eindep || e == .enotindep then ret s e   -- fatal
    else if !cfg.multi then ret s e                          -- nprocs == 1: return err
    -- reqMode |= NC_REQ_ZERO; the driver is called; `(err != NC_NOERR) ? err : status`
    else if varn then { Drv.waitNull s with err := e }       -- ncmpio_put/get_varn: ncmpio_wait(1, {NC_REQ_NULL})
    else ret s e                                             -- ncmpio_getput_zero_req: collective MPI calls only
  | .post k v text coordBad varn zeroLen =>
    let e := sanityCheck s.d (k != .iget) false false v text
    if e != .noerr then ret s e
    else if varn && zeroLen then ret s .noerr               -- IVARN: `if (num == 0) return NC_NOERR;` right after sanity_check
    else if k == .bput && !s.abuf then ret s .enullabuf     -- inq_misc(..., &buf_size)
    else if coordBad then ret s .einvalcoords
    else Drv.post k zeroLen s                               -- flexible bufcount == 0 returns here too: same result
  | .wait coll zero => Drv.wait coll zero s
  | .cancel zero => Drv.cancel zero s
  | .sync => Drv.sync s
  | .syncNumrecs => Drv.syncNumrecs s
  | .flush => ret s .noerr                                  -- ncmpio_flush: "no effect in ncmpio"
  | .fillVarRec v =>
    let e := fillDispErr s.d v
    if cfg.fillChecksErr && e != .noerr then ret s e
    else Drv.fillVarRec v s                                 -- pinned source: `err` is dropped here
  | .attach sizePos => Drv.attach sizePos s
  | .detach => Drv.detach s
  | .inq => ret s .noerr
  | .inqVar v =>
    if v == .global then ret s .eglobal                     -- ncmpi_inq_varname
    else if v == .bad then ret s .enotvar
    else ret s .noerr
  | .inqNreqs => { st := s, err := .noerr, val := s.nGet + s.nPut }
  | .inqBuf => if !s.abuf then ret s .enullabuf else ret s .noerr

/-- a whole history of calls -/
def run (cfg : Cfg) (s : State) : List Call → State
  | [] => s
  | c :: cs => run cfg (step cfg s c).st cs

end PnVerif.Mode
