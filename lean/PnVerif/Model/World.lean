/-
  Model/World.lean — which MPI collective operations a rank executes inside a collective PnetCDF
  call (property C08), and a small operational model of how blocking collectives match.

  Hand transcription (nprocs > 1 paths; with one process nothing has to match) of
    src/dispatchers/var_getput.m4    GETPUT_API / VARN / MVAR / VARD: safe-mode allreduce_error,
                                     fatal vs non-fatal errors, NC_REQ_ZERO participation
    src/dispatchers/file.c           ncmpi_create / open / enddef / _enddef / redef / sync / close / …
    src/dispatchers/variable.c       ncmpi_fill_var_rec, ncmpi_rename_var
    src/drivers/ncmpio/ncmpio_getput.m4   ncmpio_{get,put}_var, put_varm / get_varm
    src/drivers/ncmpio/ncmpio_vard.c      ncmpio_{get,put}_vard, getput_vard
    src/drivers/ncmpio/ncmpio_varn.m4     ncmpio_{get,put}_varn  (iput/iget + ncmpio_wait)
    src/drivers/ncmpio/ncmpio_wait.c      ncmpio_getput_zero_req, req_commit, wait_getput
    src/drivers/ncmpio/ncmpio_fill.c      ncmpio_fill_var_rec, fill_var_rec, fillerup_aggregate
    src/drivers/ncmpio/ncmpio_sync.c      ncmpio_sync, ncmpio_sync_numrecs, ncmpio_write_numrecs, ncmpio_file_sync
    src/drivers/ncmpio/ncmpio_file_misc.c ncmpio_redef, begin/end_indep_data
    src/drivers/ncmpio/ncmpio_close.c     ncmpio_close, ncmpio_close_files
    src/drivers/ncmpio/ncmpio_enddef.c    ncmpio__enddef, NC_begins, move_file_block, move_*_vars, write_NC, CHECK_ERROR
    src/drivers/ncmpio/ncmpio_create.c / ncmpio_open.c / ncmpio_header_get.c (hdr_fetch) / ncmpio_header_put.c (ncmpio_write_header)
    src/drivers/ncmpio/ncmpio_intra_node.c   aggregation init (Gather, Gatherv, Bcast) and the collective
                                             set_view / write_at_all the aggregation path ends with

  A token names one blocking MPI collective.  Every communicator involved (the file's duplicated
  communicator, the collective file handle opened on it) spans all processes of the file, so a
  rank blocked in a collective can only leave it when every rank has entered the same collective.
  MPI_File_write_all and MPI_File_write_at_all (resp. read) are one token: the library itself mixes
  them (ncmpio_getput_zero_req vs ncmpio_read_write) and MPI-IO implementations match them.
  Operations on MPI_COMM_SELF handles (independent_fh) involve no other rank and are not tokens.
  MPI calls are assumed to succeed (I/O failures are property C11).
-/
namespace PnVerif.World

inductive CollTok where
  | allreduce | bcast | barrier | gather | commDup | commFree
  | fileOpen | fileClose | fileSync | setView | writeAll | readAll
  deriving DecidableEq, Repr

abbrev Trace := List CollTok

inductive Dir where | put | get deriving DecidableEq, Repr
inductive VarKind where | fixed | record deriving DecidableEq, Repr
/-- `var`: ncmpi_{put,get}_var{,1,a,s,m}[_type]_all (one driver entry, ncmpio_{put,get}_var);
    `nb`: the collective calls built on the nonblocking machinery, ncmpi_{put,get}_varn*_all and
          ncmpi_m{put,get}_var*_all (post requests, then ncmpio_wait);  `vard`: ncmpi_{put,get}_vard_all -/
inductive Form where | var | nb | vard deriving DecidableEq, Repr

/-- non-fatal argument errors found by the dispatcher before the driver is called -/
inductive ArgErr where
  | einvalcoords | eedge | estride | enegativecnt | enotvar | eglobal | echar | einval | enullstart
  deriving DecidableEq, Repr
def ArgErr.code : ArgErr → Int
  | .einvalcoords => -40 | .eedge => -57 | .estride => -58 | .enegativecnt => -210 | .enotvar => -49
  | .eglobal => -50 | .echar => -56 | .einval => -36 | .enullstart => -226
/-- the variable ID itself is unusable: the rank cannot know which variable the others access -/
def ArgErr.badVarid : ArgErr → Bool
  | .enotvar => true
  | .eglobal => true
  | _ => false
/-- errors found inside the driver, after `varp` is known (err_check paths of put_varm/get_varm/getput_vard) -/
inductive DrvErr where | eiomismatch | etypeMismatch deriving DecidableEq, Repr
def DrvErr.code : DrvErr → Int
  | .eiomismatch => -209 | .etypeMismatch => -230

inductive ArgClass where
  | valid                    -- in-bounds, non-empty request
  | zeroLen                  -- accepted request that selects no element
  | argErr (e : ArgErr)      -- dispatcher error: the rank is given NC_REQ_ZERO
  | drvErr (e : DrvErr)      -- driver error: the rank participates with a zero-length transfer
  deriving DecidableEq, Repr

inductive FillClass where | ok | notRec | notFill deriving DecidableEq, Repr

/-- the arguments of a metadata call that safe mode compares with root's, in generic slots (names and value
    arrays are represented by numbers: equal numbers = equal contents) -/
structure MetaArgs where
  name : Nat := 0     -- the name argument
  name2 : Nat := 0    -- second name (ncmpi_rename_att: the new name)
  ident : Nat := 0    -- varid / dimid / (copy_att) the pair of variable IDs
  xtype : Nat := 0    -- nc_type / no_fill / fill mode
  len : Nat := 0      -- nelems / ndims / dimension size / (def_var_fill) 1 = a fill value is passed
  vals : Nat := 0     -- attribute values / dimids / fill value
  deriving DecidableEq, Repr

/-- what may legitimately differ between the ranks entering one collective call -/
structure RankInput where
  cls : ArgClass := .valid
  /-- put on a record variable: start[0]+count[0] of a valid request; for vard: ceil(true_ub/recsize)
      whenever the filetype was decoded (also for zero-length and failing requests) -/
  recEnd : Nat := 0
  /-- wait_all: number of selected non-lead put / get requests, max_rec over the selected lead puts to
      record variables, and whether extract_reqs failed (NC_EINVAL_REQUEST) -/
  nPut : Nat := 0
  nGet : Nat := 0
  maxRec : Nat := 0
  waitErr : Bool := false
  /-- fill_var_rec -/
  fillCls : FillClass := .ok
  varid : Nat := 0
  recno : Nat := 0
  /-- metadata calls (create, open, _enddef, rename_var): magnitude of the error code this rank's own
      argument check produces (0 = NC_NOERR; all NC error codes are negative) and the argument that safe
      mode compares with root's -/
  metaErr : Nat := 0
  metaArg : Nat := 0
  /-- the compared arguments of the safe-mode metadata calls of `MetaKind` -/
  margs : MetaArgs := {}
  deriving DecidableEq, Repr

/-- layout facts ncmpio__enddef decides on (shared: the header is kept identical on all ranks) -/
structure FixVar where
  oldBegin : Nat
  newBegin : Nat
  len : Nat
  deriving DecidableEq, Repr

structure Layout where
  isRedef : Bool := false        -- ncp->old != NULL
  nprocs : Nat := 2
  oldBeginVar : Nat := 0
  newBeginVar : Nat := 0
  oldBeginRec : Nat := 0
  newBeginRec : Nat := 0
  oldRecsize : Nat := 0
  newRecsize : Nat := 0
  numrecs : Nat := 0
  nvars : Nat := 1               -- ncp->vars.ndefined
  fixVars : List FixVar := []    -- the fixed-size variables of the old header, in definition order
  hdrChunks : Nat := 1           -- `ntimes` of write_NC
  fillNew : Bool := false        -- a newly defined variable is in fill mode (nVarsFill > 0)
  deriving DecidableEq, Repr

/-- repairs that may have been applied to the tree (all false = the tree as it is today) -/
structure Repairs where
  /-- the NC_REQ_ZERO path of a collective put on a record variable also joins the numrecs Allreduce
      (findings/patches/C08-F2-zero-path.diff: when the variable ID is valid) -/
  zeroPathNumrecs : Bool := false
  /-- … also when the error is an unusable variable ID (NC_ENOTVAR, NC_EGLOBAL); no patch proposed -/
  zeroPathBadVarid : Bool := false
  /-- getput_vard derives new_numrecs from the filetype only when data was written (findings/patches/C05-vard-numrecs.diff) -/
  vardGuard : Bool := false
  /-- the safe-mode blocks of ncmpio_fill_var_rec / ncmpio_set_fill / ncmpio_def_var_fill return the MPI_Allreduce(MIN) result on
      every rank instead of letting a rank keep its own code (findings/patches/C08-F2d-safe-mode-common-code.diff) -/
  safeMinCode : Bool := false
  /-- a rank whose ncmpi_fill_var_rec argument is in error still joins the collective fill -/
  fillVarRecErr : Bool := false
  /-- a rank whose metadata-call argument is in error still joins the (NC_HCOLL) collective header write -/
  metaErrJoins : Bool := false
  deriving DecidableEq, Repr
def Repairs.none : Repairs := {}
def Repairs.all : Repairs :=
  { zeroPathNumrecs := true, zeroPathBadVarid := true, vardGuard := true, fillVarRecErr := true, metaErrJoins := true,
    safeMinCode := true }

/-- what is the same on every rank -/
structure Cfg where
  safe : Bool := false           -- PNETCDF_SAFE_MODE=1 (NC_MODE_SAFE / ncp->safe_mode)
  hcoll : Bool := false          -- hint romio_no_indep_rw=true (NC_HCOLL): header writes are collective
  aggr : Bool := false           -- intra-node aggregation enabled (nc_num_aggrs_per_node)
  indep : Bool := false          -- file is in independent data mode
  indef : Bool := false          -- file is in define mode
  hasRecVars : Bool := true      -- ncp->vars.num_rec_vars > 0
  noVars : Bool := false         -- ncp->vars.ndefined == 0
  numrecs : Nat := 0             -- the coherent in-memory record count (collective data mode)
  deriving DecidableEq, Repr

/-- collective metadata calls whose arguments safe mode compares with root's -/
inductive MetaKind where
  | putAtt | defDim | defVar | renameDim | renameAtt | delAtt | copyAtt | setFill | defVarFill
  deriving DecidableEq, Repr

inductive Api where
  | getput (f : Form) (d : Dir) (vk : VarKind)
  | waitAll
  | fillVarRec
  | sync | syncNumrecs | beginIndep | endIndep | redef
  | enddef (L : Layout) (withArgs : Bool)     -- ncmpi_enddef / ncmpi__enddef
  | close (L : Layout)                        -- L is used only when the file is in define mode
  | create
  | openFile (nChunks : Nat)
  | renameVar                                 -- in data mode: rewrites the header
  | metaCall (k : MetaKind)                       -- the other collective metadata calls (define mode, or data mode: cfg.indef)
  deriving DecidableEq, Repr

/-! ### reductions -/
def minOf (xs : List Int) : Int := xs.foldl min 0
def maxOf (b : Nat) (xs : List Nat) : Nat := xs.foldl max b

def rwTok : Dir → CollTok
  | .put => .writeAll
  | .get => .readAll

def dispErr (x : RankInput) : Int :=
  match x.cls with
  | .argErr e => e.code
  | _ => 0
def drvErrOf (x : RankInput) : Int :=
  match x.cls with
  | .drvErr e => e.code
  | _ => 0
def isValid (x : RankInput) : Bool :=
  match x.cls with
  | .valid => true
  | _ => false
def isArgErr (x : RankInput) : Bool :=
  match x.cls with
  | .argErr _ => true
  | _ => false

/-- `new_numrecs` a rank contributes to the Allreduce(MAX) after a collective put -/
def newNumrecs (rp : Repairs) (f : Form) (cfg : Cfg) (x : RankInput) : Nat :=
  match f, x.cls with
  | _, .argErr _ => cfg.numrecs
  | _, .valid => x.recEnd
  | .vard, _ => if rp.vardGuard then cfg.numrecs else x.recEnd
  | _, _ => cfg.numrecs
def maxNew (rp : Repairs) (f : Form) (cfg : Cfg) (world : List RankInput) : Nat :=
  maxOf cfg.numrecs (world.map (newNumrecs rp f cfg))

/-- does a rank on the NC_REQ_ZERO path with error `e` join the numrecs synchronisation of a collective put? -/
def zeroJoins (rp : Repairs) (e : ArgErr) : Bool :=
  if e.badVarid then rp.zeroPathBadVarid else rp.zeroPathNumrecs
def skipsSync (rp : Repairs) (x : RankInput) : Bool :=
  match x.cls with
  | .argErr e => !zeroJoins rp e
  | _ => false

/-- root's ncmpio_write_numrecs is a collective write only under NC_HCOLL -/
def hcollWrite (cfg : Cfg) (grow : Bool) : Trace :=
  if cfg.hcoll && cfg.hasRecVars && grow then [.writeAll] else []

/-- end of put_varm / getput_vard for a record variable: Allreduce(MAX), then root writes numrecs -/
def numrecsSync (rp : Repairs) (f : Form) (cfg : Cfg) (world : List RankInput) : Trace :=
  .allreduce :: hcollWrite cfg (decide (cfg.numrecs < maxNew rp f cfg world))

/-- ncmpio_{put,get}_var / ncmpio_{put,get}_vard -/
def blockingDriver (rp : Repairs) (f : Form) (d : Dir) (vk : VarKind) (cfg : Cfg)
    (world : List RankInput) (me : RankInput) : Trace :=
  let sync : Trace := if d = .put ∧ vk = .record then numrecsSync rp f cfg world else []
  match me.cls with
  | .argErr e =>   -- NC_REQ_ZERO: ncmpio_getput_zero_req, or put_varm(varp=NULL) under aggregation
      [.setView, rwTok d] ++ (if zeroJoins rp e then sync else [])
  | _ =>           -- put_varm / get_varm / getput_vard: set_view, read/write_at_all, numrecs
      [.setView, rwTok d] ++ sync

/-- ncmpio_{put,get}_varn and the mput/mget dispatchers: every rank ends in ncmpio_wait (req_commit) -/
def nbDriver (rp : Repairs) (d : Dir) (vk : VarKind) (cfg : Cfg) (world : List RankInput) : Trace :=
  .allreduce ::
    (if world.any isValid then
       [.setView, rwTok d] ++
         (if d = .put ∧ vk = .record then hcollWrite cfg (decide (cfg.numrecs < maxNew rp .nb cfg world)) else [])
     else [])

def getputDriver (rp : Repairs) (f : Form) (d : Dir) (vk : VarKind) (cfg : Cfg)
    (world : List RankInput) (me : RankInput) : Trace :=
  match f with
  | .nb => nbDriver rp d vk cfg world
  | _ => blockingDriver rp f d vk cfg world me

/-- dispatcher of every blocking collective get/put -/
def getputTrace (rp : Repairs) (f : Form) (d : Dir) (vk : VarKind) (cfg : Cfg)
    (world : List RankInput) (me : RankInput) : Trace :=
  if cfg.safe then
    .allreduce :: (if minOf (world.map dispErr) ≠ 0 then [] else getputDriver rp f d vk cfg world me)
  else getputDriver rp f d vk cfg world me

def getputRet (cfg : Cfg) (world : List RankInput) (me : RankInput) : Int :=
  let own := if dispErr me ≠ 0 then dispErr me else drvErrOf me
  if cfg.safe then
    (if minOf (world.map dispErr) ≠ 0 then minOf (world.map dispErr) else own)
  else own

/-- req_commit under ncmpi_wait_all -/
def waitTrace (cfg : Cfg) (world : List RankInput) : Trace :=
  .allreduce ::
    (if world.any (·.waitErr) then []
     else
       (if world.any (fun x => decide (0 < x.nPut)) then
          [.setView, .writeAll] ++
            hcollWrite cfg (decide (cfg.numrecs < maxOf cfg.numrecs (world.map (·.maxRec))))
        else []) ++
       (if world.any (fun x => decide (0 < x.nGet)) then [.setView, .readAll] else []))
def waitRet (me : RankInput) : Int := if me.waitErr then -212 else 0

/-! ### ncmpi_fill_var_rec -/
def fillDispErr (x : RankInput) : Int :=
  match x.fillCls with
  | .notRec => -233
  | _ => 0
def fillOwnErr (x : RankInput) : Int :=
  match x.fillCls with
  | .notRec => -233
  | .notFill => -234
  | .ok => 0
/-- error of a rank after the two safe-mode broadcasts of root's varid / recno -/
def fillCmpErr (root me : RankInput) : Int :=
  if fillOwnErr me ≠ 0 then fillOwnErr me
  else if me.varid ≠ root.varid ∨ me.recno ≠ root.recno then -269 else 0
/-- `mc` = the repaired block: every rank takes the minimum; before: `if (err == NC_NOERR) err = status` -/
def fillSafeErr (mc : Bool) (root : RankInput) (world : List RankInput) (me : RankInput) : Int :=
  if mc = false ∧ fillCmpErr root me ≠ 0 then fillCmpErr root me else minOf (world.map (fillCmpErr root))
def fillBody (cfg : Cfg) (world : List RankInput) : Trace :=
  [.setView, .writeAll, .allreduce] ++
    hcollWrite cfg (decide (cfg.numrecs < maxOf cfg.numrecs (world.map (fun x => x.recno + 1))))
def fillTrace (rp : Repairs) (cfg : Cfg) (world : List RankInput) (me : RankInput) : Trace :=
  let root := world.headD me
  if cfg.safe then
    .allreduce ::
      (if minOf (world.map fillDispErr) ≠ 0 then []
       else [.bcast, .bcast, .allreduce] ++ (if fillSafeErr rp.safeMinCode root world me ≠ 0 then [] else fillBody cfg world))
  else if fillOwnErr me ≠ 0 then (if rp.fillVarRecErr then fillBody cfg world else [])
  else fillBody cfg world
def fillRet (rp : Repairs) (cfg : Cfg) (world : List RankInput) (me : RankInput) : Int :=
  let root := world.headD me
  if cfg.safe then
    (if minOf (world.map fillDispErr) ≠ 0 then minOf (world.map fillDispErr) else fillSafeErr rp.safeMinCode root world me)
  else fillOwnErr me

/-! ### mode switches and synchronisation -/
/-- ncmpio_sync_numrecs when it really synchronises (independent data mode, record variables exist) -/
def syncNumrecsTrace (cfg : Cfg) : Trace :=
  if cfg.indep && cfg.hasRecVars then .allreduce :: (if cfg.safe then [.bcast] else []) else []

/-! ### ncmpi_enddef -/
def MOVE_UNIT : Nat := 67108864
/-- number of iterations of the `while (nbytes > 0)` loop of move_file_block -/
def moveRounds (np nbytes : Nat) : Nat :=
  let c0 := nbytes / np + (if nbytes % np ≠ 0 then 1 else 0)
  let chunk := if c0 > MOVE_UNIT then MOVE_UNIT else c0
  if nbytes = 0 then 0 else (nbytes + np * chunk - 1) / (np * chunk)
def moveBlock (np nbytes : Nat) : Trace :=
  .setView :: (List.replicate (moveRounds np nbytes) [CollTok.readAll, .allreduce, .writeAll, .allreduce]).flatten
def moveRecordVars (L : Layout) : Trace :=
  if L.newRecsize = L.oldRecsize then
    (if L.newRecsize = 0 then [] else moveBlock L.nprocs (L.newRecsize * L.numrecs))
  else (List.replicate L.numrecs (moveBlock L.nprocs L.oldRecsize)).flatten
def moveFixedVars (L : Layout) : Trace :=
  ((L.fixVars.reverse.filter (fun v => decide (v.oldBegin < v.newBegin))).map
      (fun v => moveBlock L.nprocs v.len)).flatten
/-- CHECK_ERROR -/
def chk (cfg : Cfg) : Trace := if cfg.safe then [.allreduce] else []
/-- ncmpio__enddef -/
def enddefDriver (cfg : Cfg) (L : Layout) : Trace :=
  chk cfg ++                                            -- ncmpio_NC_check_vlens
  (if cfg.safe then [.bcast, .allreduce] else []) ++    -- NC_begins
  chk cfg ++
  chk cfg ++                                            -- ncmpio_NC_check_voffs (safe mode only)
  (if L.isRedef && decide (0 < L.nvars) then
     (if L.oldBeginVar < L.newBeginVar then
        moveRecordVars L ++ chk cfg ++ moveFixedVars L ++ chk cfg
      else if L.oldBeginRec < L.newBeginRec ∨ L.oldRecsize < L.newRecsize then
        moveRecordVars L ++ chk cfg
      else [])
   else []) ++
  (if cfg.hcoll then List.replicate L.hdrChunks CollTok.writeAll else []) ++   -- write_NC
  (if cfg.safe then [.bcast] else []) ++
  (if decide (0 < L.nvars) && L.fillNew then [.setView, .writeAll, .setView] else [])  -- fillerup_aggregate

def metaCode (x : RankInput) : Int := -(x.metaErr : Int)
/-- err after comparing the argument with root's (NC_EMULTIDEFINE_*), magnitude `m` -/
def metaCmp (m : Nat) (root me : RankInput) : Int :=
  if metaCode me ≠ 0 then metaCode me else if me.metaArg ≠ root.metaArg then -(m : Int) else 0

def enddefTrace (rp : Repairs) (cfg : Cfg) (L : Layout) (withArgs : Bool)
    (world : List RankInput) (me : RankInput) : Trace :=
  let root := world.headD me
  if cfg.safe then
    .allreduce ::
      (if minOf (world.map metaCode) ≠ 0 then []
       else if withArgs then
         [.bcast, .allreduce] ++
           (if minOf (world.map (metaCmp 269 root)) ≠ 0 then [] else enddefDriver cfg L)
       else enddefDriver cfg L)
  else if metaCode me ≠ 0 then (if rp.metaErrJoins then enddefDriver cfg L else [])
  else enddefDriver cfg L
def enddefRet (cfg : Cfg) (withArgs : Bool) (world : List RankInput) (me : RankInput) : Int :=
  let root := world.headD me
  if cfg.safe then
    (if minOf (world.map metaCode) ≠ 0 then minOf (world.map metaCode)
     else if withArgs then minOf (world.map (metaCmp 269 root)) else 0)
  else metaCode me

/-! ### ncmpi_close -/
def closeTrace (cfg : Cfg) (L : Layout) : Trace :=
  (if cfg.indef then enddefDriver cfg L else []) ++
  (if cfg.indef then [] else syncNumrecsTrace cfg) ++
  [.fileClose] ++
  (if cfg.noVars then [.barrier, .barrier] else []) ++
  [.commFree]

/-! ### ncmpi_create / ncmpi_open -/
def aggrInit (cfg : Cfg) : Trace := if cfg.aggr then [.gather, .gather, .bcast] else []
def createTrace (cfg : Cfg) : Trace :=
  .bcast :: (if cfg.safe then [.allreduce] else []) ++ [.commDup, .bcast, .fileOpen] ++ aggrInit cfg
/-- one hdr_fetch -/
def hdrFetch (cfg : Cfg) : Trace :=
  -- the read status is shared by an MPI_Allreduce(MIN) whether or not safe mode is on (since /repo commit
  -- 0c9c1029; before it a safe-mode-only MPI_Bcast), then root's bytes are broadcast
  (if cfg.hcoll then [.readAll] else []) ++ [.allreduce, .bcast]
def openTrace (cfg : Cfg) (nChunks : Nat) : Trace :=
  .bcast :: (if cfg.safe then [.allreduce] else []) ++ [.commDup, .fileOpen] ++
    (List.replicate nChunks (hdrFetch cfg)).flatten ++ aggrInit cfg
/-- status of create (m = 273, NC_EMULTIDEFINE_CMODE) / open (m = 251, NC_EMULTIDEFINE_OMODE): the mode is
    overwritten with root's, the inconsistency is reported -/
def modeRet (m : Nat) (cfg : Cfg) (world : List RankInput) (me : RankInput) : Int :=
  let root := world.headD me
  let own : Int := if me.metaArg ≠ root.metaArg then -(m : Int) else 0
  if cfg.safe then minOf (world.map (fun x => if x.metaArg ≠ root.metaArg then -(m : Int) else 0)) else own

/-! ### ncmpi_rename_var in data mode (stands for the metadata calls that rewrite the header in data mode) -/
/-- ncmpio_write_header -/
def writeHeader (cfg : Cfg) : Trace :=
  (if cfg.hcoll then [.writeAll] else []) ++ (if cfg.safe then [.bcast] else [])
def renameTrace (rp : Repairs) (cfg : Cfg) (world : List RankInput) (me : RankInput) : Trace :=
  let root := world.headD me
  if cfg.safe then
    .allreduce ::
      (if minOf (world.map metaCode) ≠ 0 then []
       else [.bcast, .bcast, .bcast, .allreduce] ++
         (if minOf (world.map (metaCmp 256 root)) ≠ 0 then []
          else .allreduce :: writeHeader cfg))       -- ncmpio_rename_var: safe-mode check, then the header
  else if metaCode me ≠ 0 then (if rp.metaErrJoins then writeHeader cfg else [])
  else writeHeader cfg
def renameRet (cfg : Cfg) (world : List RankInput) (me : RankInput) : Int :=
  let root := world.headD me
  if cfg.safe then
    (if minOf (world.map metaCode) ≠ 0 then minOf (world.map metaCode)
     else minOf (world.map (metaCmp 256 root)))
  else metaCode me

/-! ### safe-mode argument comparison of the metadata calls
  src/dispatchers/attr_getput.m4 check_consistency_put, attribute.c (copy_att, rename_att, del_att), dimension.c (def_dim,
  rename_dim), variable.c (def_var, def_var_fill), drivers/ncmpio/ncmpio_fill.c (ncmpio_set_fill, ncmpio_def_var_fill).
  Every comparison is: MPI_Bcast root's argument (a name: its length, then the characters), `if (err == NC_NOERR &&
  root's != mine) err = NC_EMULTIDEFINE_…`.  WHICH broadcasts happen is decided by ROOT's (broadcast) arguments only. -/
structure CmpStep where
  nb : Nat                                   -- number of MPI_Bcast calls of the step
  differs : MetaArgs → MetaArgs → Bool       -- root's vs mine
  code : Nat                                 -- magnitude of the NC_EMULTIDEFINE_* code

/-- the comparison steps of the dispatcher, as a function of root's arguments -/
def metaSteps (k : MetaKind) (root : MetaArgs) : List CmpStep :=
  match k with
  | .putAtt =>        -- name, varid, xtype, nelems, and the values iff root_nelems > 0
      [⟨2, fun r m => r.name != m.name, 265⟩, ⟨1, fun r m => r.ident != m.ident, 269⟩,
       ⟨1, fun r m => r.xtype != m.xtype, 266⟩, ⟨1, fun r m => r.len != m.len, 267⟩] ++
      (if 0 < root.len then [⟨1, fun r m => r.len != m.len || r.vals != m.vals, 268⟩] else [])
  | .defDim => [⟨2, fun r m => r.name != m.name, 254⟩, ⟨1, fun r m => r.len != m.len, 253⟩]
  | .defVar =>        -- name, type, ndims, and the dimids iff root_ndims > 0
      [⟨2, fun r m => r.name != m.name, 256⟩, ⟨1, fun r m => r.xtype != m.xtype, 259⟩,
       ⟨1, fun r m => r.len != m.len, 257⟩] ++
      (if 0 < root.len then [⟨1, fun r m => r.vals != m.vals, 258⟩] else [])
  | .renameDim => [⟨2, fun r m => r.name != m.name, 254⟩, ⟨1, fun r m => r.ident != m.ident, 269⟩]
  | .renameAtt => [⟨2, fun r m => r.name != m.name, 265⟩, ⟨2, fun r m => r.name2 != m.name2, 265⟩,
                   ⟨1, fun r m => r.ident != m.ident, 269⟩]
  | .delAtt => [⟨2, fun r m => r.name != m.name, 265⟩, ⟨1, fun r m => r.ident != m.ident, 269⟩]
  | .copyAtt => [⟨2, fun r m => r.name != m.name, 265⟩, ⟨1, fun r m => r.ident != m.ident, 269⟩]
  | .setFill => []
  | .defVarFill => []

/-- `err` of a rank after the steps (its own error is 0 here: the first Allreduce let it pass) -/
def cmpErr (steps : List CmpStep) (root me : MetaArgs) : Int :=
  match steps.find? (fun st => st.differs root me) with
  | some st => -(st.code : Int)
  | none => 0
def stepsTrace (steps : List CmpStep) : Trace :=
  (steps.map fun st => List.replicate st.nb CollTok.bcast).flatten

/-- does the dispatcher have a safe-mode block with the first error Allreduce? (ncmpi_set_fill has none) -/
def metaDispAllreduce : MetaKind → Bool
  | .setFill => false
  | _ => true
/-- does the dispatcher compare arguments (bcasts + second Allreduce)? -/
def metaDispCompares : MetaKind → Bool
  | .setFill => false
  | .defVarFill => false
  | _ => true
/-- safe-mode block of the driver (ncp->safe_mode && nprocs > 1): collectives as a function of root's arguments -/
def metaDriverSafe (k : MetaKind) (root : MetaArgs) : Trace :=
  match k with
  | .defDim => []
  | .setFill => [.bcast, .allreduce]
  | .defVarFill => .bcast :: (if 0 < root.len then [.bcast] else []) ++ [.allreduce]
  | _ => [.allreduce]
/-- own error of a rank in the driver's comparison (ncmpio_set_fill / ncmpio_def_var_fill) -/
def metaDriverOwn (k : MetaKind) (root me : MetaArgs) : Int :=
  match k with
  | .setFill => if root.xtype != me.xtype then -270 else 0
  | .defVarFill =>
      if root.ident != me.ident || root.xtype != me.xtype || (root.len == 0) != (me.len == 0) then -269
      else if 0 < root.len && 0 < me.len && root.vals != me.vals then -272 else 0
  | _ => 0
/-- the calls that rewrite the header when made in data mode -/
def metaWritesHeader : MetaKind → Bool
  | .putAtt => true | .renameDim => true | .renameAtt => true | .copyAtt => true | .delAtt => true
  | _ => false
/-- what the driver executes once the arguments have been accepted (all ranks then hold root's arguments) -/
def metaBody (k : MetaKind) (cfg : Cfg) (root : MetaArgs) : Trace :=
  (match k with
   | .defVarFill =>   -- a fill value for a variable in fill mode is stored through ncmpio_put_att("_FillValue"): its safe-mode Allreduce
       if cfg.safe && decide (0 < root.len) && root.xtype == 0 then [CollTok.allreduce] else []
   | _ => []) ++
  (if !cfg.indef && metaWritesHeader k then writeHeader cfg else [])

def metaTrace (rp : Repairs) (k : MetaKind) (cfg : Cfg) (world : List RankInput) (me : RankInput) : Trace :=
  let root := (world.headD me).margs
  let steps := metaSteps k root
  if cfg.safe then
    (if metaDispAllreduce k then [CollTok.allreduce] else []) ++
      (if metaDispAllreduce k && decide (minOf (world.map metaCode) ≠ 0) then []
       else
         (if metaDispCompares k then stepsTrace steps ++ [.allreduce] else []) ++
           (if metaDispCompares k && decide (minOf (world.map fun x => cmpErr steps root x.margs) ≠ 0) then []
            else
              metaDriverSafe k root ++
                (if minOf (world.map fun x => metaDriverOwn k root x.margs) ≠ 0 then [] else metaBody k cfg root)))
  else if metaCode me ≠ 0 then (if rp.metaErrJoins then metaBody k cfg root else [])
  else metaBody k cfg root

def metaRet (rp : Repairs) (k : MetaKind) (cfg : Cfg) (world : List RankInput) (me : RankInput) : Int :=
  let root := (world.headD me).margs
  let steps := metaSteps k root
  if cfg.safe then
    (if metaDispAllreduce k && decide (minOf (world.map metaCode) ≠ 0) then minOf (world.map metaCode)
     else if metaDispCompares k && decide (minOf (world.map fun x => cmpErr steps root x.margs) ≠ 0) then
       minOf (world.map fun x => cmpErr steps root x.margs)
     else if rp.safeMinCode = false ∧ metaDriverOwn k root me.margs ≠ 0 then metaDriverOwn k root me.margs   -- `if (err == NC_NOERR) err = minE`
     else minOf (world.map fun x => metaDriverOwn k root x.margs))
  else metaCode me

/-! ### the two model functions the properties talk about -/
/-- the sequence of collective operations rank `me` executes inside `api` when the ranks of the file's
    communicator entered it with the inputs `world` -/
def localTrace (rp : Repairs) (api : Api) (cfg : Cfg) (world : List RankInput) (me : RankInput) : Trace :=
  match api with
  | .getput f d vk => getputTrace rp f d vk cfg world me
  | .waitAll => waitTrace cfg world
  | .fillVarRec => fillTrace rp cfg world me
  | .sync => syncNumrecsTrace cfg ++ [.fileSync]
  | .syncNumrecs => syncNumrecsTrace cfg
  | .beginIndep => []
  | .endIndep => syncNumrecsTrace cfg
  | .redef => syncNumrecsTrace cfg
  | .enddef L a => enddefTrace rp cfg L a world me
  | .close L => closeTrace cfg L
  | .create => createTrace cfg
  | .openFile n => openTrace cfg n
  | .renameVar => renameTrace rp cfg world me
  | .metaCall k => metaTrace rp k cfg world me

/-- the code the call returns on rank `me` -/
def localRet (rp : Repairs) (api : Api) (cfg : Cfg) (world : List RankInput) (me : RankInput) : Int :=
  match api with
  | .getput _ _ _ => getputRet cfg world me
  | .waitAll => waitRet me
  | .fillVarRec => fillRet rp cfg world me
  | .enddef _ a => enddefRet cfg a world me
  | .create => modeRet 273 cfg world me
  | .openFile _ => modeRet 251 cfg world me
  | .renameVar => renameRet cfg world me
  | .metaCall k => metaRet rp k cfg world me
  | _ => 0

/-- the inputs on which a rank leaves the common sequence on the tree as it is (each disjunct is one defect) -/
def Trigger (rp : Repairs) (api : Api) (cfg : Cfg) (x : RankInput) : Prop :=
  match api with
  | .getput f .put .record =>
      cfg.safe = false ∧ f ≠ .nb ∧ skipsSync rp x = true
  | .fillVarRec => rp.fillVarRecErr = false ∧ cfg.safe = false ∧ fillOwnErr x ≠ 0
  | .enddef _ _ => rp.metaErrJoins = false ∧ cfg.safe = false ∧ x.metaErr ≠ 0
  | .renameVar => rp.metaErrJoins = false ∧ cfg.safe = false ∧ x.metaErr ≠ 0
  | .metaCall _ => rp.metaErrJoins = false ∧ cfg.safe = false ∧ x.metaErr ≠ 0
  | _ => False

instance (rp : Repairs) (api : Api) (cfg : Cfg) (x : RankInput) : Decidable (Trigger rp api cfg x) := by
  unfold Trigger; split <;> infer_instance

/-! ### operational model of matching blocking collectives -/
/-- a world: what every rank still has to execute -/
abbrev Pending := List Trace

/-- all ranks are blocked in the same collective `c`; all of them leave it -/
inductive Step : Pending → Pending → Prop where
  | fire (c : CollTok) (w : Pending) (hne : w ≠ []) (h : ∀ t ∈ w, t.head? = some c) : Step w (w.map List.tail)

def Done (w : Pending) : Prop := ∀ t ∈ w, t = []

/-- every rank returns from the call -/
inductive Completes : Pending → Prop where
  | done {w : Pending} : Done w → Completes w
  | step {w w' : Pending} : Step w w' → Completes w' → Completes w

/-- no rank can move although some rank has not returned: deadlock -/
def Stuck (w : Pending) : Prop := ¬ Done w ∧ ¬ ∃ w', Step w w'

/-- reachable by matching steps -/
inductive Reach : Pending → Pending → Prop where
  | refl (w : Pending) : Reach w w
  | step {w w' w'' : Pending} : Step w w' → Reach w' w'' → Reach w w''

end PnVerif.World
