/-
  C11 — I/O failures are never silently dropped.  Hand-written part of the model.

  The GENERATED tables (Gen/IoSites.lean, Gen/ErrMap.lean; tools/gen_c11_iosites.py) say, for every
  MPI-IO data-transfer call expression of the default driver ("site") and for every call of a
  function through which such a status travels ("chain row"), which values the enclosing C function
  can return when that one call fails and every other call succeeds:

      Outcome.points   for the incoming codes the C function compares with (NC_EFILE, NC_EWRITE ...)
      Outcome.other    for every other incoming code (`.mapped` = the incoming code itself)

  This file gives those tables their meaning (`Outcome.eval`), composes them along a call path up
  to a driver entry point (`runChains`, `apiOutcomes`), names the closed set of error-handling
  patterns (`Pattern`, `patternEval`) and transcribes by hand the one status combination whose
  result depends on the request mix: `req_commit` (write phase, then read phase, one `err`).

  Core Lean only (the driver links against this module).
-/
namespace PnVerif.IoStatus

/-- one possible return value of a C function, relative to the incoming failure code `m` -/
inductive Res where
  | zero                 -- NC_NOERR: the failure is dropped
  | lit (k : Int)        -- a constant NC code
  | mapped               -- the incoming code itself
  | unknown              -- the translator could not tell (fails closed: counted as a drop)
  deriving DecidableEq, Repr, Inhabited

def Res.val (m : Int) : Res → Int
  | .zero => 0
  | .lit k => k
  | .mapped => m
  | .unknown => 0

structure Outcome where
  points : List (Int × List Res)
  other  : List Res
  deriving DecidableEq, Repr, Inhabited

/-- possible return values of the enclosing function when the incoming failure code is `m` -/
def Outcome.eval (o : Outcome) (m : Int) : List Int :=
  match o.points.lookup m with
  | some rs => rs.map (Res.val m)
  | none => o.other.map (Res.val m)

/-- the closed set of error-handling patterns (tools/gen_c11_iosites.py `classify`) -/
inductive Pattern where
  | propagate               -- status = err (first error wins) ... return status
  | returnNow               -- return ncmpii_error_mpi2nc(...) inside the handler
  | mapEFILEthenPropagate   -- err = (err == NC_EFILE) ? NC_EREAD|NC_EWRITE : err; status = err
  | mapEFILEthenReturn      -- same, but `return err` inside the handler (independent I/O)
  | onlyIfEFILE             -- if (err == NC_EFILE) status = NC_EREAD|NC_EWRITE;  every other class is dropped
  | ignored                 -- mpireturn never tested / overwritten / result of the callee discarded
  | overwritable            -- the variable holding the status is assigned again by a later call before it is folded
  | constant                -- a fixed code whatever the class
  | unknown                 -- anything else: the check fails closed
  deriving DecidableEq, Repr, Inhabited

/-- meaning of a pattern: return values for incoming code `m` (`c` = the replacement code of the
    EFILE rewrites, `efile` = NC_EFILE) -/
def patternEval (efile : Int) : Pattern → Int → Int → List Int
  | .propagate, _, m => [m]
  | .returnNow, _, m => [m]
  | .mapEFILEthenPropagate, c, m => [if m = efile then c else m]
  | .mapEFILEthenReturn, c, m => [if m = efile then c else m]
  | .onlyIfEFILE, c, m => [if m = efile then c else 0]
  | .ignored, _, _ => [0]
  | .overwritable, _, m => [m, 0]
  | .constant, c, _ => [c]
  | .unknown, _, _ => [0]

/-- what a pattern's table row looks like away from the special points -/
def patternOther : Pattern → Int → List Res
  | .propagate, _ => [.mapped]
  | .returnNow, _ => [.mapped]
  | .mapEFILEthenPropagate, _ => [.mapped]
  | .mapEFILEthenReturn, _ => [.mapped]
  | .onlyIfEFILE, _ => [.zero]
  | .ignored, _ => [.zero]
  | .overwritable, _ => [.mapped, .zero]
  | .constant, c => [.lit c]
  | .unknown, _ => [.unknown]

def Pattern.needsEfile : Pattern → Bool
  | .mapEFILEthenPropagate | .mapEFILEthenReturn | .onlyIfEFILE => true
  | _ => false

/-- patterns under which a non-zero incoming code stays non-zero -/
def Pattern.keeps (p : Pattern) (c : Int) : Bool :=
  match p with
  | .propagate | .returnNow => true
  | .mapEFILEthenPropagate | .mapEFILEthenReturn => c != 0
  | .constant => c != 0
  | _ => false

/-- decidable certificate that the table row `o` is summarised by pattern `p` with code `c` -/
def agrees (efile : Int) (p : Pattern) (c : Int) (o : Outcome) : Bool :=
  o.points.all (fun kr => kr.2.map (Res.val kr.1) == patternEval efile p c kr.1)
  && (o.other == patternOther p c)
  && (!p.needsEfile || (o.points.lookup efile).isSome)

structure Site where
  key : Nat               -- numeric key of `id` (strings are labels only; the kernel computes on keys)
  fn : Nat                -- numeric key of `func`
  id : String
  file : String
  func : String
  call : String
  zeroLen : Bool          -- buffer NULL and count 0: the rank only takes part in a collective call
  isRead : Bool
  pattern : Pattern
  code : Int
  out : Outcome
  deriving Repr, Inhabited

structure Chain where
  key : Nat
  callerFn : Nat
  calleeFn : Nat
  id : String
  caller : String
  callee : String
  pattern : Pattern
  code : Int
  out : Outcome
  deriving Repr, Inhabited

structure Path where
  fn : Nat                -- key of the function holding the site
  chain : List Nat        -- indices into `chains`, innermost call first
  chainKeys : List Nat    -- keys of the same rows
  api : Nat               -- key of the driver entry point reached
  apiName : String
  deriving Repr, Inhabited

/-- a status `r` returned by the callee of chain row `ch`: what the caller returns.
    `r = 0` means the failure was already dropped below: the caller sees success. -/
def stepChain (ch : Chain) (r : Int) : List Int :=
  if r = 0 then [0] else ch.out.eval r

def runChains : List Chain → List Int → List Int
  | [], rs => rs
  | ch :: rest, rs => runChains rest (rs.flatMap (stepChain ch))

/-- class → NC code table of ncmpii_error_mpi2nc -/
def mpi2nc (explicitMap : List (Nat × Int)) (defaultCode : Int) (cls : Nat) : Int :=
  (explicitMap.lookup cls).getD defaultCode

/-- possible values returned by the driver entry point of path `p` when site `s` fails with NC code `m` -/
def apiOutcomes (chains : List Chain) (s : Site) (p : Path) (m : Int) : List Int :=
  runChains (p.chain.filterMap (fun i => chains[i]?)) (s.out.eval m)

/-- a path is well formed w.r.t. the tables: starts at the site's function, every row's callee is the
    previous row's caller, ends at `api`, and every index is in range -/
def chainLinked (chains : List Chain) : Nat → List Nat → List Nat → Nat → Bool
  | f, [], [], api => f == api
  | f, i :: rest, k :: krest, api =>
    match chains[i]? with
    | some ch => ch.key == k && ch.calleeFn == f && chainLinked chains ch.callerFn rest krest api
    | none => false
  | _, _, _, _ => false

/-! ### `req_commit` (ncmpio_wait.c), transcribed by hand

    err = extract_reqs(...);                      -- 0 under the single-fault assumption
    if (do_write > 0) err = wait_getput(WR);      -- (or the intra-node aggregation variant)
    if (do_read  > 0) err = wait_getput(RD);
    if (status == NC_NOERR) status = err;         -- status was NC_NOERR
    ... post-processing, unpack errors folded with first-error-wins ...
    return status;
-/
def commitStatus (doWrite doRead : Bool) (wErr rErr : Int) : Int :=
  let err := 0
  let err := if doWrite then wErr else err
  let err := if doRead then rErr else err
  let status := 0
  if status = 0 then err else status

/-- the REPAIRED req_commit (findings/patches/C11-F3-req_commit-status.diff): the status of each phase
    is folded into `status` right after the phase, first error wins:

    if (do_write > 0) { err = wait_getput(WR); if (status == NC_NOERR) status = err; }
    if (do_read  > 0) { err = wait_getput(RD); if (status == NC_NOERR) status = err; }
-/
def commitStatusFixed (doWrite doRead : Bool) (wErr rErr : Int) : Int :=
  let status := 0
  let status := if doWrite then (if status = 0 then wErr else status) else status
  let status := if doRead then (if status = 0 then rErr else status) else status
  status

/-- the C idiom `if (status == NC_NOERR) status = err;` -/
def firstErr (status err : Int) : Int := if status = 0 then err else status

/-! ### lemmas about table lookup -/

theorem lookup_some_mem {α β : Type} [BEq α] [LawfulBEq α] (k : α) (l : List (α × β)) (b : β)
    (h : l.lookup k = some b) : (k, b) ∈ l := by
  induction l with
  | nil => simp [List.lookup] at h
  | cons x xs ih =>
    obtain ⟨a, v⟩ := x
    by_cases hka : k = a
    · subst hka
      simp [List.lookup] at h
      subst h
      simp
    · have hne : (k == a) = false := by simpa using hka
      simp [List.lookup, hne] at h
      exact List.mem_cons_of_mem _ (ih h)

/-- soundness of the certificate: a row that `agrees` with pattern `p` evaluates, for EVERY incoming
    code, to exactly what the pattern means -/
theorem agrees_sound (efile : Int) (p : Pattern) (c : Int) (o : Outcome)
    (h : agrees efile p c o = true) (m : Int) : o.eval m = patternEval efile p c m := by
  unfold agrees at h
  simp only [Bool.and_eq_true] at h
  obtain ⟨⟨hpts, hoth⟩, hef⟩ := h
  unfold Outcome.eval
  cases hl : o.points.lookup m with
  | some rs =>
    have hm := lookup_some_mem m o.points rs hl
    have := List.all_eq_true.mp hpts (m, rs) hm
    simpa using this
  | none =>
    have hoth' : o.other = patternOther p c := by simpa using hoth
    rw [hoth']
    have hne : p.needsEfile = true → m ≠ efile := by
      intro hp hme
      subst hme
      simp [hp, hl] at hef
    cases p <;> simp [patternOther, patternEval, Res.val, Pattern.needsEfile] at hne ⊢ <;> omega

end PnVerif.IoStatus
